import GS.Model.Enum
import GS.Check.Brute
import GS.Props.C01
/-!
# C05 — model counting and enumeration are exact (mirror of `Enumerate` / `CountModels`)

* `expand_spec` : `addCurrentModels` delivers each completion of the current model exactly once.
* `block_exact` : a round removes exactly the models it reports.
* `enum_exact`  : with `countOver n F + 1` rounds (so `2^n + 1` suffice) the loop delivers
  every model of `F` over `1..n` exactly once and the count is `countOver n F`.
-/
namespace GS.Enum

/-! ### `expand` -/

/-- The bit-mask loop, reformulated with the remaining bits `i / 2^j`. -/
def fill : List (Option Bool) → Nat → List Bool
  | [], _ => []
  | some b :: m, i => b :: fill m i
  | none :: m, i => decide (i % 2 = 1) :: fill m (i / 2)

theorem fillFrom_eq_fill (i : Nat) : ∀ (m : List (Option Bool)) (j : Nat),
    fillFrom i j m = fill m (i / 2 ^ j) := by
  intro m
  induction m with
  | nil => intro j; rfl
  | cons o m ih =>
    intro j
    cases o with
    | some b => simp only [fillFrom, fill, ih j]
    | none =>
      simp only [fillFrom, fill, ih (j + 1)]
      rw [Nat.testBit_eq_decide_div_mod_eq, Nat.div_div_eq_div_mul, Nat.pow_succ]

theorem expand_eq (m : List (Option Bool)) :
    expand m = (List.range (2 ^ nbUnbound m)).map (fill m) := by
  unfold expand
  apply List.map_congr_left
  intro i _
  rw [fillFrom_eq_fill]; simp

theorem agreesB_length : ∀ (m : List (Option Bool)) (bs : List Bool),
    agreesB m bs = true → bs.length = m.length := by
  intro m
  induction m with
  | nil => intro bs h; cases bs with
    | nil => rfl
    | cons _ _ => simp [agreesB] at h
  | cons o m ih =>
    intro bs h
    cases bs with
    | nil => cases o <;> simp [agreesB] at h
    | cons c bs =>
      cases o with
      | none => simp only [agreesB] at h; simp [ih bs h]
      | some b => simp only [agreesB, Bool.and_eq_true] at h; simp [ih bs h.2]

/-- `agreesB` is the pointwise reading: same length and equal on every bound position. -/
theorem agreesB_iff : ∀ (m : List (Option Bool)) (bs : List Bool),
    agreesB m bs = true ↔
      bs.length = m.length ∧ ∀ (i : Nat) (b : Bool), m[i]? = some (some b) → bs[i]? = some b := by
  intro m
  induction m with
  | nil =>
    intro bs
    cases bs with
    | nil => simp [agreesB]
    | cons _ _ => simp [agreesB]
  | cons o m ih =>
    intro bs
    cases bs with
    | nil => cases o <;> simp [agreesB]
    | cons c bs =>
      have hi := ih bs
      cases o with
      | none =>
        simp only [agreesB, hi, List.length_cons, Nat.add_right_cancel_iff]
        constructor
        · rintro ⟨h1, h2⟩
          refine ⟨h1, ?_⟩
          intro i b hib
          cases i with
          | zero => simp at hib
          | succ i => simpa using h2 i b (by simpa using hib)
        · rintro ⟨h1, h2⟩
          refine ⟨h1, ?_⟩
          intro i b hib
          simpa using h2 (i + 1) b (by simpa using hib)
      | some b0 =>
        simp only [agreesB, Bool.and_eq_true, beq_iff_eq, hi, List.length_cons,
          Nat.add_right_cancel_iff]
        constructor
        · rintro ⟨h0, h1, h2⟩
          refine ⟨h1, ?_⟩
          intro i b hib
          cases i with
          | zero => simp at hib; simp [← hib, h0]
          | succ i => simpa using h2 i b (by simpa using hib)
        · rintro ⟨h1, h2⟩
          refine ⟨?_, h1, ?_⟩
          · have := h2 0 b0 (by simp)
            simpa using this.symm
          · intro i b hib
            simpa using h2 (i + 1) b (by simpa using hib)

theorem agreesB_fill : ∀ (m : List (Option Bool)) (i : Nat), agreesB m (fill m i) = true := by
  intro m
  induction m with
  | nil => intro i; rfl
  | cons o m ih =>
    intro i
    cases o with
    | none => simp only [fill, agreesB, ih]
    | some b => simp [fill, agreesB, ih]

theorem fill_inj : ∀ (m : List (Option Bool)) (i i' : Nat),
    i < 2 ^ nbUnbound m → i' < 2 ^ nbUnbound m → fill m i = fill m i' → i = i' := by
  intro m
  induction m with
  | nil => intro i i' h h' _; simp [nbUnbound] at h h'; omega
  | cons o m ih =>
    intro i i' h h' he
    cases o with
    | some b =>
      simp only [fill, List.cons.injEq, true_and] at he
      exact ih i i' h h' he
    | none =>
      simp only [fill, List.cons.injEq, decide_eq_decide] at he
      simp only [nbUnbound, Nat.pow_succ] at h h'
      have := ih (i / 2) (i' / 2) (by omega) (by omega) he.2
      have h1 := he.1
      omega

theorem fill_surj : ∀ (m : List (Option Bool)) (bs : List Bool), agreesB m bs = true →
    ∃ i, i < 2 ^ nbUnbound m ∧ fill m i = bs := by
  intro m
  induction m with
  | nil =>
    intro bs h
    cases bs with
    | nil => exact ⟨0, by simp [nbUnbound], rfl⟩
    | cons _ _ => simp [agreesB] at h
  | cons o m ih =>
    intro bs h
    cases bs with
    | nil => cases o <;> simp [agreesB] at h
    | cons c bs =>
      cases o with
      | some b =>
        simp only [agreesB, Bool.and_eq_true, beq_iff_eq] at h
        obtain ⟨i, hi, he⟩ := ih bs h.2
        exact ⟨i, by simpa [nbUnbound] using hi, by simp [fill, he, h.1]⟩
      | none =>
        simp only [agreesB] at h
        obtain ⟨i, hi, he⟩ := ih bs h
        refine ⟨2 * i + (if c then 1 else 0), ?_, ?_⟩
        · simp only [nbUnbound, Nat.pow_succ]; split <;> omega
        · have h2 : (2 * i + (if c then 1 else 0)) / 2 = i := by split <;> omega
          simp only [fill, h2, he, List.cons.injEq, and_true]
          cases c <;> simp <;> omega

theorem mem_expand (m : List (Option Bool)) (bs : List Bool) :
    bs ∈ expand m ↔ agreesB m bs = true := by
  rw [expand_eq, List.mem_map]
  constructor
  · rintro ⟨i, _, rfl⟩; exact agreesB_fill m i
  · intro h
    obtain ⟨i, hi, he⟩ := fill_surj m bs h
    exact ⟨i, List.mem_range.2 hi, he⟩

theorem expand_nodup (m : List (Option Bool)) : (expand m).Nodup := by
  rw [expand_eq, List.nodup_iff_pairwise_ne, List.pairwise_map]
  have h := @List.nodup_range (2 ^ nbUnbound m)
  rw [List.nodup_iff_pairwise_ne] at h
  refine List.Pairwise.imp_of_mem ?_ h
  intro a b ha hb hne he
  exact hne (fill_inj m a b (List.mem_range.1 ha) (List.mem_range.1 hb) he)

theorem expand_length (m : List (Option Bool)) : (expand m).length = 2 ^ nbUnbound m := by
  simp [expand]

/-- **`addCurrentModels` is exact**: `2^k` models, no repetition, exactly the total lists that
    agree with the current model on its bound variables; `countCurrentModels` is their number. -/
theorem expand_spec (m : List (Option Bool)) :
    (expand m).length = 2 ^ nbUnbound m ∧ (expand m).Nodup ∧
    (∀ bs, bs ∈ expand m ↔
      (bs.length = m.length ∧ ∀ (i : Nat) (b : Bool), m[i]? = some (some b) → bs[i]? = some b)) ∧
    countCurrent m = (expand m).length :=
  ⟨expand_length m, expand_nodup m, fun bs => by rw [mem_expand, agreesB_iff],
   by rw [expand_length]; rfl⟩

example : expand [some true, none, some false, none] =
    [[true, false, false, false], [true, true, false, false],
     [true, false, false, true], [true, true, false, true]] := by decide

theorem nbUnbound_map_some (bs : List Bool) : nbUnbound (bs.map some) = 0 := by
  induction bs with
  | nil => rfl
  | cons b bs ih => simpa [nbUnbound] using ih

theorem agreesB_map_some (bs : List Bool) : agreesB (bs.map some) bs = true := by
  induction bs with
  | nil => rfl
  | cons b bs ih => simp [agreesB, ih]

/-- A total model has exactly one completion. -/
theorem expand_total (bs : List Bool) : expand (bs.map some) = [bs] := by
  have hn : (expand (bs.map some)).length = 1 := by
    rw [expand_length, nbUnbound_map_some]
  have hm : bs ∈ expand (bs.map some) := (mem_expand _ _).2 (agreesB_map_some bs)
  match h : expand (bs.map some), hn, hm with
  | [x], _, hm => simp at hm; rw [hm]

theorem nbUnbound_replicate (n : Nat) : nbUnbound (List.replicate n none) = n := by
  induction n with
  | zero => rfl
  | succ n ih => simp [List.replicate_succ, nbUnbound, ih]

/-- The Go counter (`uint64` then `int`) equals the exact count iff at most 62 variables are
    unbound; with 63 it is negative, with 64 or more it is 0. -/
theorem countCurrentGo_exact_iff (m : List (Option Bool)) :
    countCurrentGo m = (countCurrent m : Int) ↔ nbUnbound m ≤ 62 := by
  unfold countCurrentGo countCurrent
  generalize nbUnbound m = k
  constructor
  · intro h
    by_cases hk : k ≤ 62
    · exact hk
    · exfalso
      have h64 : (2:Nat) ^ 63 ≤ 2 ^ k := Nat.pow_le_pow_right (by omega) (by omega)
      have hlt : 2 ^ k % 2 ^ 64 < 2 ^ 64 := Nat.mod_lt _ (by decide)
      simp only at h
      split at h
      · rename_i h1
        have : ((2 ^ k % 2 ^ 64 : Nat) : Int) = ((2 ^ k : Nat) : Int) := h
        have := Int.ofNat_inj.1 this
        omega
      · have : (0:Int) ≤ ((2 ^ k : Nat) : Int) := Int.natCast_nonneg _
        have h2 : ((2 ^ k % 2 ^ 64 : Nat) : Int) < 2 ^ 64 := by
          have := Int.ofNat_lt.2 hlt
          simpa using this
        omega
  · intro hk
    have h1 : (2:Nat) ^ k ≤ 2 ^ 62 := Nat.pow_le_pow_right (by omega) hk
    have h2 : 2 ^ k % 2 ^ 64 = 2 ^ k := Nat.mod_eq_of_lt (by omega)
    simp only [h2]
    rw [if_pos (by omega)]

/-! ### the loop: unfolding lemmas -/

theorem enumLoop_none (step : Step) (fuel : Nat) (p : Problem) (h : step p = none) :
    enumLoop step (fuel + 1) p = [] := by
  simp only [enumLoop, h]

theorem enumLoop_last (step : Step) (fuel : Nat) (p : Problem) (m) (h : step p = some (m, [])) :
    enumLoop step (fuel + 1) p = expand m := by
  simp [enumLoop, h, negLits]

theorem enumLoop_more (step : Step) (fuel : Nat) (p : Problem) (m D) (h : step p = some (m, D))
    (hD : D ≠ []) :
    enumLoop step (fuel + 1) p = expand m ++ enumLoop step fuel (p ++ [block D]) := by
  cases D with
  | nil => exact absurd rfl hD
  | cons d ds =>
    simp only [enumLoop, h, negLits, List.map_cons, addBlock_eq, block]

theorem countLoop_eq_length (step : Step) : ∀ (fuel : Nat) (p : Problem),
    countLoop step fuel p = (enumLoop step fuel p).length := by
  intro fuel
  induction fuel with
  | zero => intro p; rfl
  | succ fuel ih =>
    intro p
    simp only [countLoop, enumLoop]
    cases hs : step p with
    | none => rfl
    | some r =>
      obtain ⟨m, D⟩ := r
      simp only [List.length_append, countCurrent, expand_length]
      cases hn : negLits D with
      | nil => rfl
      | cons l ls => simp only [ih]

/-! ### the contract of the search oracle -/

/-- What one call of the search must guarantee on problem `p` (variables `1..n`):
    * `sound`: every completion of the reported model is a model of `p` over `1..n` and makes
      every decision literal true;
    * `nonzero`: decision literals are literals;
    * `propagated`: every model of `p` over `1..n` that makes all decisions true agrees with
      the reported model on its bound variables (everything bound follows from the decisions);
    * `complete`: `Unsat` is only answered when `p` has no model over `1..n`. -/
structure Contract (n : Nat) (step : Step) (p : Problem) : Prop where
  sound : ∀ m D, step p = some (m, D) → ∀ bs, agreesB m bs = true →
    bs ∈ modelsOver n p ∧ allTrue bs D = true
  nonzero : ∀ m D, step p = some (m, D) → ∀ l ∈ D, l ≠ 0
  propagated : ∀ m D, step p = some (m, D) → ∀ bs, bs ∈ modelsOver n p →
    allTrue bs D = true → agreesB m bs = true
  complete : step p = none → modelsOver n p = []

theorem block_holds (bs : List Bool) : ∀ (D : List Int), (∀ l ∈ D, l ≠ 0) →
    (block D).holds (asgOf bs) = !allTrue bs D := by
  intro D hD
  unfold block
  rw [ofClause_holds]
  unfold clauseTrue negLits allTrue
  induction D with
  | nil => rfl
  | cons d ds ih =>
    simp only [List.map_cons, List.any_cons, List.all_cons]
    rw [ih (fun l hl => hD l (List.mem_cons_of_mem _ hl)), litTrue_neg _ _ (hD d (List.mem_cons_self))]
    cases litTrue (asgOf bs) d <;> simp

theorem mem_modelsOver_append (n : Nat) (p : Problem) (c : Lin) (bs : List Bool) :
    bs ∈ modelsOver n (p ++ [c]) ↔ bs ∈ modelsOver n p ∧ c.holds (asgOf bs) = true := by
  simp only [mem_modelsOver, Problem.holds, List.all_append, List.all_cons, List.all_nil,
    Bool.and_true, Bool.and_eq_true]
  constructor
  · rintro ⟨h1, h2, h3⟩; exact ⟨⟨h1, h2⟩, h3⟩
  · rintro ⟨⟨h1, h2⟩, h3⟩; exact ⟨h1, h2, h3⟩

/-- **A round removes exactly what it reports.** Under the contract, the models of `p` over
    `1..n` that falsify the blocking clause are exactly the completions of the reported model;
    so the models of `p` split, disjointly, into the reported ones and the models of `p` plus
    the blocking clause. -/
theorem block_exact (n : Nat) (step : Step) (p : Problem) (hc : Contract n step p)
    (m : List (Option Bool)) (D : List Int) (h : step p = some (m, D)) :
    (∀ bs, (bs ∈ modelsOver n p ∧ (block D).holds (asgOf bs) = false) ↔ bs ∈ expand m) ∧
    (∀ bs, bs ∈ modelsOver n p ↔ (bs ∈ expand m ∨ bs ∈ modelsOver n (p ++ [block D]))) ∧
    (∀ bs, bs ∈ expand m → bs ∉ modelsOver n (p ++ [block D])) := by
  have hnz := hc.nonzero m D h
  have key : ∀ bs, (bs ∈ modelsOver n p ∧ (block D).holds (asgOf bs) = false) ↔ bs ∈ expand m := by
    intro bs
    rw [block_holds bs D hnz, mem_expand]
    constructor
    · rintro ⟨h1, h2⟩
      exact hc.propagated m D h bs h1 (by simpa using h2)
    · intro ha
      have := hc.sound m D h bs ha
      exact ⟨this.1, by simp [this.2]⟩
  refine ⟨key, ?_, ?_⟩
  · intro bs
    rw [mem_modelsOver_append, ← key bs]
    cases (block D).holds (asgOf bs) <;> simp
  · intro bs hb
    rw [mem_modelsOver_append]
    have := (key bs).2 hb
    simp [this.2]

/-- With the decisions of a total model, the blocked set is the singleton `{m}`. -/
theorem block_exact_total (n : Nat) (step : Step) (p : Problem) (hc : Contract n step p)
    (m : List Bool) (D : List Int) (h : step p = some (m.map some, D)) (bs : List Bool) :
    (bs ∈ modelsOver n p ∧ (block D).holds (asgOf bs) = false) ↔ bs = m := by
  rw [(block_exact n step p hc _ D h).1 bs, expand_total]; simp

theorem count_split (n : Nat) (step : Step) (p : Problem) (hc : Contract n step p)
    (m : List (Option Bool)) (D : List Int) (h : step p = some (m, D)) :
    countOver n p = 2 ^ nbUnbound m + countOver n (p ++ [block D]) := by
  obtain ⟨_, h2, h3⟩ := block_exact n step p hc m D h
  have hnd : (expand m ++ modelsOver n (p ++ [block D])).Nodup := by
    rw [List.nodup_append]
    refine ⟨expand_nodup m, modelsOver_nodup n _, ?_⟩
    intro a ha b hb hab
    subst hab
    exact h3 a ha hb
  have hp : (modelsOver n p).Perm (expand m ++ modelsOver n (p ++ [block D])) := by
    rw [List.perm_ext_iff_of_nodup (modelsOver_nodup n p) hnd]
    intro bs
    rw [h2 bs, List.mem_append]
  have := hp.length_eq
  simp only [List.length_append, expand_length] at this
  exact this

/-! ### exactness of the loop -/

/-- Invariant form: from any reachable problem `F ++ bl`, with more fuel than it has models,
    the loop delivers exactly the models of `F ++ bl`, each once. -/
theorem enum_aux (n : Nat) (step : Step) (F : Problem) (hc : ∀ bl, Contract n step (F ++ bl)) :
    ∀ (fuel : Nat) (bl : Problem), countOver n (F ++ bl) < fuel →
      (enumLoop step fuel (F ++ bl)).Nodup ∧
      ∀ bs, bs ∈ enumLoop step fuel (F ++ bl) ↔ bs ∈ modelsOver n (F ++ bl) := by
  intro fuel
  induction fuel with
  | zero => intro bl h; omega
  | succ fuel ih =>
    intro bl hf
    cases hs : step (F ++ bl) with
    | none =>
      rw [enumLoop_none step fuel _ hs, (hc bl).complete hs]
      exact ⟨List.nodup_nil, fun bs => Iff.rfl⟩
    | some r =>
      obtain ⟨m, D⟩ := r
      by_cases hD : D = []
      · subst hD
        rw [enumLoop_last step fuel _ m hs]
        refine ⟨expand_nodup m, ?_⟩
        intro bs
        rw [mem_expand]
        constructor
        · intro ha; exact ((hc bl).sound m [] hs bs ha).1
        · intro hm; exact (hc bl).propagated m [] hs bs hm rfl
      · rw [enumLoop_more step fuel _ m D hs hD]
        obtain ⟨_, h2, h3⟩ := block_exact n step _ (hc bl) m D hs
        have hcnt := count_split n step _ (hc bl) m D hs
        have hpos : 0 < 2 ^ nbUnbound m := Nat.pow_pos (by omega)
        rw [List.append_assoc] at *
        obtain ⟨ihn, ihm⟩ := ih (bl ++ [block D]) (by omega)
        refine ⟨?_, ?_⟩
        · rw [List.nodup_append]
          refine ⟨expand_nodup m, ihn, ?_⟩
          intro a ha b hb hab
          subst hab
          exact h3 a ha ((ihm a).1 hb)
        · intro bs
          rw [List.mem_append, ihm bs, h2 bs]

theorem countOver_le (n : Nat) (p : Problem) : countOver n p ≤ 2 ^ n := by
  have hl : ∀ n, (leaves n).length = 2 ^ n := by
    intro n
    induction n with
    | zero => rfl
    | succ n ih => simp only [leaves, List.length_append, List.length_map, ih]; omega
  unfold countOver modelsOver
  exact Nat.le_trans (List.length_filter_le _ _) (Nat.le_of_eq (hl n))

/-- **Enumeration and counting are exact.** If every call of the search on `F` extended by
    blocking clauses meets the contract, then with more rounds than `F` has models over `1..n`
    the models delivered by `Enumerate` are pairwise distinct, are exactly the models of `F`
    over `1..n`, and the number returned (by `Enumerate` and by `CountModels`) is
    `countOver n F`. -/
theorem enum_exact (n : Nat) (step : Step) (F : Problem)
    (hc : ∀ bl, Contract n step (F ++ bl)) (fuel : Nat) (hf : countOver n F < fuel) :
    (enumLoop step fuel F).Nodup ∧
    (∀ bs, bs ∈ enumLoop step fuel F ↔ bs ∈ modelsOver n F) ∧
    (∀ bs, bs ∈ enumLoop step fuel F → bs.length = n ∧ Problem.holds (asgOf bs) F = true) ∧
    (enumLoop step fuel F).length = countOver n F ∧
    countLoop step fuel F = countOver n F := by
  have h := enum_aux n step F hc fuel [] (by simpa using hf)
  rw [List.append_nil] at h
  obtain ⟨hn, hm⟩ := h
  have hlen : (enumLoop step fuel F).length = countOver n F :=
    ((List.perm_ext_iff_of_nodup hn (modelsOver_nodup n F)).2 hm).length_eq
  refine ⟨hn, hm, ?_, hlen, ?_⟩
  · intro bs hb
    exact (mem_modelsOver n F bs).1 ((hm bs).1 hb)
  · rw [countLoop_eq_length, hlen]

/-- `2^n + 1` rounds always suffice. -/
theorem enum_exact_pow (n : Nat) (step : Step) (F : Problem)
    (hc : ∀ bl, Contract n step (F ++ bl)) :
    (enumLoop step (2 ^ n + 1) F).Nodup ∧
    (∀ bs, bs ∈ enumLoop step (2 ^ n + 1) F ↔ bs ∈ modelsOver n F) ∧
    (enumLoop step (2 ^ n + 1) F).length = countOver n F ∧
    countLoop step (2 ^ n + 1) F = countOver n F := by
  have h := enum_exact n step F hc (2 ^ n + 1) (Nat.lt_succ_of_le (countOver_le n F))
  exact ⟨h.1, h.2.1, h.2.2.2.1, h.2.2.2.2⟩

/-- Trivial case 0: an unsatisfiable problem yields no model and count 0. -/
theorem enum_unsat (n : Nat) (step : Step) (F : Problem)
    (hc : ∀ bl, Contract n step (F ++ bl)) (hu : modelsOver n F = []) (fuel : Nat)
    (hf : 0 < fuel) : enumLoop step fuel F = [] ∧ countLoop step fuel F = 0 := by
  have hz : countOver n F = 0 := by unfold countOver; rw [hu]; rfl
  have h := enum_exact n step F hc fuel (by omega)
  rw [hz] at h
  exact ⟨List.eq_nil_of_length_eq_zero h.2.2.2.1, h.2.2.2.2⟩

/-- Trivial case `2^n`: no constraint and a search that binds nothing (no decision):
    one round, `2^n` models, all boolean lists of length `n`. -/
theorem enum_trivial (n : Nat) (step : Step)
    (h : step [] = some (List.replicate n none, [])) (fuel : Nat) :
    enumLoop step (fuel + 1) [] = expand (List.replicate n none) ∧
    (enumLoop step (fuel + 1) []).length = 2 ^ n ∧
    countLoop step (fuel + 1) [] = 2 ^ n ∧
    (∀ bs, bs ∈ enumLoop step (fuel + 1) [] ↔ bs.length = n) := by
  have he := enumLoop_last step fuel [] _ h
  refine ⟨he, ?_, ?_, ?_⟩
  · rw [he, expand_length, nbUnbound_replicate]
  · rw [countLoop_eq_length, he, expand_length, nbUnbound_replicate]
  · intro bs
    rw [he, mem_expand, agreesB_iff]
    simp only [List.length_replicate]
    constructor
    · exact fun h => h.1
    · intro hl
      refine ⟨hl, ?_⟩
      intro i b hib
      rw [List.getElem?_replicate] at hib
      split at hib <;> simp at hib

/-! ### the contract stated on the original problem implies the one used here -/

/-- If "propagation" is known against the original problem `F` (every model of `F` that makes
    the decisions true agrees with the reported model) it holds against `F ++ bl` as well.
    The converse fails for the Go search: it propagates with the blocking clauses too. With
    `F = []`, `n = 2`, first model `x1 x2` with decisions `[1, 2]`, the blocking clause
    `¬x1 ∨ ¬x2` makes the second run decide `x1` and *propagate* `¬x2`: decisions `[1]`, but
    both `x1 x2` and `x1 ¬x2` are models of `F` that make `[1]` true. -/
theorem propagated_of_original (n : Nat) (F bl : Problem) (m : List (Option Bool)) (D : List Int)
    (h : ∀ bs, bs ∈ modelsOver n F → allTrue bs D = true → agreesB m bs = true) :
    ∀ bs, bs ∈ modelsOver n (F ++ bl) → allTrue bs D = true → agreesB m bs = true := by
  intro bs hb
  apply h bs
  rw [mem_modelsOver] at hb ⊢
  refine ⟨hb.1, ?_⟩
  have := hb.2
  simp only [Problem.holds, List.all_append, Bool.and_eq_true] at this
  exact this.1

example : [true, true] ∈ modelsOver 2 [] ∧ allTrue [true, true] [1] = true ∧
    agreesB [some true, some false] [true, true] = false ∧
    (∀ bs, bs ∈ modelsOver 2 ([] ++ [block [1, 2]]) → allTrue bs [1] = true →
      agreesB [some true, some false] bs = true) := by decide

/-! ### oracles with total models -/

/-- Contract for an oracle that reports a total model `bs` and its decisions `D`. -/
structure ContractT (n : Nat) (f : Problem → Option (List Bool × List Int)) (p : Problem) : Prop where
  sound : ∀ bs D, f p = some (bs, D) → bs ∈ modelsOver n p ∧ allTrue bs D = true
  nonzero : ∀ bs D, f p = some (bs, D) → ∀ l ∈ D, l ≠ 0
  propagated : ∀ bs D, f p = some (bs, D) → ∀ bs', bs' ∈ modelsOver n p →
    allTrue bs' D = true → bs' = bs
  complete : f p = none → modelsOver n p = []

theorem agreesB_map_some_iff (bs bs' : List Bool) : agreesB (bs.map some) bs' = true ↔ bs' = bs := by
  rw [← mem_expand, expand_total]; simp

theorem contract_of_total (n : Nat) (f : Problem → Option (List Bool × List Int)) (p : Problem)
    (h : ContractT n f p) : Contract n (totalStep f) p := by
  have hsome : ∀ m D, totalStep f p = some (m, D) → ∃ bs, f p = some (bs, D) ∧ m = bs.map some := by
    intro m D hs
    unfold totalStep at hs
    cases hf : f p with
    | none => simp [hf] at hs
    | some r =>
      obtain ⟨bs, D'⟩ := r
      simp only [hf, Option.some.injEq, Prod.mk.injEq] at hs
      exact ⟨bs, by rw [hs.2], hs.1.symm⟩
  constructor
  · intro m D hs bs' ha
    obtain ⟨bs, hf, rfl⟩ := hsome m D hs
    rw [agreesB_map_some_iff] at ha
    subst ha
    exact h.sound bs' D hf
  · intro m D hs
    obtain ⟨bs, hf, rfl⟩ := hsome m D hs
    exact h.nonzero bs D hf
  · intro m D hs bs' hb ht
    obtain ⟨bs, hf, rfl⟩ := hsome m D hs
    rw [agreesB_map_some_iff]
    exact h.propagated bs D hf bs' hb ht
  · intro hs
    apply h.complete
    unfold totalStep at hs
    cases hf : f p with
    | none => rfl
    | some r => simp [hf] at hs

/-- `enum_exact` for an oracle with total models: one model per round. -/
theorem enum_exact_total (n : Nat) (f : Problem → Option (List Bool × List Int)) (F : Problem)
    (hc : ∀ bl, ContractT n f (F ++ bl)) :
    (enumLoop (totalStep f) (2 ^ n + 1) F).Nodup ∧
    (∀ bs, bs ∈ enumLoop (totalStep f) (2 ^ n + 1) F ↔ bs ∈ modelsOver n F) ∧
    (enumLoop (totalStep f) (2 ^ n + 1) F).length = countOver n F ∧
    countLoop (totalStep f) (2 ^ n + 1) F = countOver n F :=
  enum_exact_pow n (totalStep f) F (fun bl => contract_of_total n f _ (hc bl))

/-! ### the exhaustive oracle meets the contract, for every problem -/

theorem litTrue_litOf (bs' : List Bool) (i : Nat) (b : Bool) :
    litTrue (asgOf bs') (if b then ((i : Int) + 1) else -((i : Int) + 1)) =
      (bs'.getD i false == b) := by
  unfold litTrue
  cases b
  · have h1 : ¬ (-((i : Int) + 1) > 0) := by omega
    have h2 : (-((i : Int) + 1)).natAbs = i + 1 := by omega
    simp only [Bool.false_eq_true, if_false, h1, h2, asgOf]
    cases bs'.getD i false <;> rfl
  · have h1 : ((i : Int) + 1) > 0 := by omega
    have h2 : ((i : Int) + 1).natAbs = i + 1 := by omega
    simp only [if_true, h1, h2, asgOf]
    cases bs'.getD i false <;> rfl

theorem allTrue_litsOf (bs bs' : List Bool) (hl : bs'.length = bs.length) :
    allTrue bs' (litsOf bs) = true ↔ bs' = bs := by
  unfold allTrue litsOf
  simp only [List.all_map, List.all_eq_true, List.mem_range, Function.comp]
  constructor
  · intro h
    apply List.ext_getElem hl
    intro i h1 h2
    have := h i h2
    rw [litTrue_litOf] at this
    simp only [beq_iff_eq] at this
    simpa [List.getD_eq_getElem?_getD, List.getElem?_eq_getElem h1, List.getElem?_eq_getElem h2] using this
  · rintro rfl i _
    rw [litTrue_litOf]; simp

theorem litsOf_nonzero (bs : List Bool) : ∀ l ∈ litsOf bs, l ≠ 0 := by
  intro l hl
  unfold litsOf at hl
  simp only [List.mem_map, List.mem_range] at hl
  obtain ⟨i, _, rfl⟩ := hl
  split <;> omega

theorem bruteStep_contractT (n : Nat) (p : Problem) :
    ContractT n (bruteStepT n) p := by
  unfold bruteStepT
  constructor
  · intro bs D hs
    cases hm : modelsOver n p with
    | nil => simp [hm] at hs
    | cons b rest =>
      simp only [hm, Option.some.injEq, Prod.mk.injEq] at hs
      obtain ⟨rfl, rfl⟩ := hs
      exact ⟨by simp, (allTrue_litsOf b b rfl).2 rfl⟩
  · intro bs D hs
    cases hm : modelsOver n p with
    | nil => simp [hm] at hs
    | cons b rest =>
      simp only [hm, Option.some.injEq, Prod.mk.injEq] at hs
      obtain ⟨rfl, rfl⟩ := hs
      exact litsOf_nonzero b
  · intro bs D hs bs' hb ht
    cases hm : modelsOver n p with
    | nil => simp [hm] at hs
    | cons b rest =>
      simp only [hm, Option.some.injEq, Prod.mk.injEq] at hs
      obtain ⟨rfl, rfl⟩ := hs
      have h1 : b ∈ modelsOver n p := by rw [hm]; simp
      have l1 := ((mem_modelsOver n p b).1 h1).1
      have l2 := ((mem_modelsOver n p bs').1 hb).1
      exact (allTrue_litsOf b bs' (by omega)).1 ht
  · intro hs
    cases hm : modelsOver n p with
    | nil => rfl
    | cons b rest => simp [hm] at hs

/-- The hypotheses of `enum_exact` are met by the executable oracle, for every problem. -/
theorem bruteStep_contract (n : Nat) (p : Problem) : Contract n (bruteStep n) p := by
  exact contract_of_total n _ p (bruteStep_contractT n p)

/-- The loop run with the exhaustive oracle counts and enumerates exactly, for every problem. -/
theorem enum_brute (n : Nat) (F : Problem) :
    (enumLoop (bruteStep n) (2 ^ n + 1) F).Nodup ∧
    (∀ bs, bs ∈ enumLoop (bruteStep n) (2 ^ n + 1) F ↔ bs ∈ modelsOver n F) ∧
    (enumLoop (bruteStep n) (2 ^ n + 1) F).length = countOver n F ∧
    countLoop (bruteStep n) (2 ^ n + 1) F = countOver n F :=
  enum_exact_pow n (bruteStep n) F (fun bl => bruteStep_contract n (F ++ bl))

example : enumLoop (bruteStep 3) 9 [Lin.ofClause [1, 2], Lin.ofClause [-1, 3]] =
    [[false, true, false], [false, true, true], [true, false, true], [true, true, true]] ∧
    countLoop (bruteStep 3) 9 [Lin.ofClause [1, 2], Lin.ofClause [-1, 3]] = 4 := by decide

/-- A run with fewer decisions than variables, as the Go search produces them
    (`F = ¬x1 ∨ x2` over 2 variables: decide `x1` (`x2` follows), then under `¬x1` decide `x2`,
    then nothing is left to decide): the per-round contract holds on the problems visited and
    the loop delivers the 3 models. -/
def demoStep : Step := fun p =>
  match p.length with
  | 1 => some ([some true, some true], [1])
  | 2 => some ([some false, some true], [2])
  | 3 => some ([some false, some false], [])
  | _ => none

example : enumLoop demoStep 5 [Lin.ofClause [-1, 2]] =
    [[true, true], [false, true], [false, false]] ∧
    countLoop demoStep 5 [Lin.ofClause [-1, 2]] = countOver 2 [Lin.ofClause [-1, 2]] := by decide

example : let F : Problem := [Lin.ofClause [-1, 2]]
    (∀ bs ∈ leaves 2, (bs ∈ modelsOver 2 F ∧ (block [1]).holds (asgOf bs) = false) ↔
      bs ∈ expand [some true, some true]) ∧
    (∀ bs ∈ leaves 2, (bs ∈ modelsOver 2 (F ++ [block [1]]) ∧ (block [2]).holds (asgOf bs) = false) ↔
      bs ∈ expand [some false, some true]) := by decide

/-- `enum_trivial` on 3 variables; and the Go counter on 62 / 63 / 64 unbound variables
    (observed on /repo: `CountModels` of 63 variables without clause prints
    `-9223372036854775808`, of 64 variables prints `0`). -/
example : (enumLoop (fun _ => some (List.replicate 3 none, [])) 1 []).length = 8 := by decide

example : countCurrentGo (List.replicate 62 none) = 2 ^ 62 ∧
    countCurrentGo (List.replicate 63 none) = -9223372036854775808 ∧
    countCurrentGo (List.replicate 64 none) = 0 := by decide

end GS.Enum
