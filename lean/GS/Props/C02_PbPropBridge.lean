import GS.Props.C02_PbProp
import GS.Props.C02_TrailPb
/-!
# C02 (support) — the literals propagated by the constraint-propagation mirror pass the guard of the abstract trail machine

`GS.TrailPb.propagatePbOp s l c` (GS/Model/TrailPb.lean) accepts `propagatePb l c` when `l ≠ 0`, no
entry of `s` is over the variable of `l`, and `forcedPb s.ents l c`: `l` is a literal of `c`, the weights
of `c` are `≥ 0` and the weights of the literals of `c` that are neither false nor `l` sum to less than
the degree.  Here: every literal the mirrors `GS.PbProp.simplifyCard` (of `simplifyCardConstr`) and
`GS.PbProp.simplifyPB` (of `simplifyPseudoBool`) hand to `propagateUnit` is such an enabled step, in
order, starting from any abstract state whose entries agree with the solver's assignment at the call
(`Agree`), each step taken in the state that already contains the literals propagated earlier in the
call: `simplifyCard_enabled`, `simplifyPB_enabled` (the analogue of `GS.Watch.forced_propagate_guard`).
The constraint recorded as antecedent is the constraint itself (`Lin.ofCard lits card`, resp.
`⟨weights.zip lits, card⟩`), as `propagateUnit` stores `c` in `s.reason[v]`.
-/
namespace GS.PbProp
open GS GS.Analyze GS.TrailPb

/-- The signed-level array `m` and the trail entries `es` describe the same partial assignment. -/
structure Agree (m : Nat → Int) (es : List Entry) : Prop where
  bound : ∀ v, m v ≠ 0 → ∃ e ∈ es, e.lit.natAbs = v
  sign : ∀ e ∈ es, e.lit ≠ 0 ∧ m e.lit.natAbs ≠ 0 ∧ (m e.lit.natAbs > 0 ↔ e.lit > 0)

theorem agree_nil : Agree (fun _ => 0) [] :=
  ⟨fun _ h => absurd rfl h, fun _ h => by cases h⟩

theorem agree_unbound {m : Nat → Int} {es : List Entry} (h : Agree m es) {l : Int}
    (hu : m l.natAbs = 0) : GS.Trail.unbound es l = true := by
  unfold GS.Trail.unbound
  rw [List.all_eq_true]
  intro e he
  have := (h.sign e he).2.1
  simp only [Entry.var, bne_iff_ne, ne_eq]
  intro heq
  rw [heq] at this
  exact this hu

theorem agree_isFalse {m : Nat → Int} {es : List Entry} (h : Agree m es) {l : Int}
    (hs : litStatus m l = .unsat) : Analyze.isFalse es l = true := by
  unfold litStatus at hs
  split at hs
  · cases hs
  · rename_i h0
    split at hs
    · cases hs
    · rename_i hne
      obtain ⟨e, he, hv⟩ := h.bound _ h0
      have hsg := h.sign e he
      unfold Analyze.isFalse
      rw [List.any_eq_true]
      refine ⟨e, he, ?_⟩
      rw [beq_iff_eq]
      rw [hv] at hsg
      by_cases hl : l > 0
      · simp [hl] at hne
        have : ¬ e.lit > 0 := fun h' => by have := hsg.2.2.2 h'; omega
        omega
      · simp [hl] at hne
        have : e.lit > 0 := hsg.2.2.1 hne
        omega

theorem agree_push {m : Nat → Int} {es : List Entry} (h : Agree m es) {l lvl : Int}
    (hu : m l.natAbs = 0) (hl0 : l ≠ 0) (hlvl : 0 < lvl) (e : Entry) (hel : e.lit = l) :
    Agree (bind m l lvl) (es ++ [e]) := by
  constructor
  · intro v hv
    unfold bind at hv
    by_cases hvl : v = l.natAbs
    · exact ⟨e, by simp, by rw [hel, hvl]⟩
    · simp only [hvl, if_false] at hv
      obtain ⟨e', he', h'⟩ := h.bound v hv
      exact ⟨e', by simp [he'], h'⟩
  · intro e' he'
    rcases List.mem_append.1 he' with he' | he'
    · have := h.sign e' he'
      have hne : e'.lit.natAbs ≠ l.natAbs := fun heq => this.2.1 (by rw [heq]; exact hu)
      unfold bind
      simp only [hne, if_false]
      exact this
    · simp only [List.mem_singleton] at he'
      subst he'
      rw [hel]
      unfold bind signedLvl
      simp only [if_true]
      refine ⟨hl0, ?_, ?_⟩
      · split <;> omega
      · split <;> omega

/-- Weight of the terms whose literal is not false. -/
def tNF (m : Nat → Int) : List (Int × Int) → Int
  | [] => 0
  | t :: ts => (if litStatus m t.2 = .unsat then 0 else t.1) + tNF m ts

theorem tNF_zip (m : Nat → Int) : ∀ (ws ls : List Int), tNF m (ws.zip ls) = wNF m ws ls := by
  intro ws
  induction ws with
  | nil => intro ls; simp [tNF, wNF]
  | cons w ws ih =>
    intro ls
    cases ls with
    | nil => simp [tNF, wNF]
    | cons l ls => simp only [List.zip_cons_cons, tNF, wNF, ih]

theorem tNF_ones (m : Nat → Int) (ls : List Int) :
    tNF m (ls.map (fun l => ((1 : Int), l))) = cnt m .sat ls + cnt m .indet ls := by
  rw [← nfc_eq]
  induction ls with
  | nil => rfl
  | cons l ls ih => simp only [List.map_cons, tNF, nfc, ih]

theorem tNF_mono {m m' : Nat → Int} (hext : ∀ v, m v ≠ 0 → m' v = m v) :
    ∀ ts : List (Int × Int), (∀ t ∈ ts, 0 ≤ t.1) → tNF m' ts ≤ tNF m ts := by
  intro ts
  induction ts with
  | nil => intro _; simp [tNF]
  | cons t ts ih =>
    intro hnn
    simp only [tNF]
    have := ih (fun t' ht' => hnn t' (List.mem_cons_of_mem _ ht'))
    have h0 := hnn t List.mem_cons_self
    by_cases hs : litStatus m t.2 = .unsat
    · simp [hs, status_unsat_mono hext hs]; omega
    · simp only [hs, if_false]; split <;> omega

theorem slack_le_tNF {m : Nat → Int} {es : List Entry} (h : Agree m es) :
    ∀ ts : List (Int × Int), (∀ t ∈ ts, 0 ≤ t.1) → slack (Analyze.isFalse es) [] ts ≤ tNF m ts := by
  intro ts
  induction ts with
  | nil => intro _; simp [slack, tNF]
  | cons t ts ih =>
    intro hnn
    have := ih (fun t' ht' => hnn t' (List.mem_cons_of_mem _ ht'))
    have h0 := hnn t List.mem_cons_self
    unfold slack
    simp only [tNF, List.contains_nil, Bool.or_false]
    by_cases hs : litStatus m t.2 = .unsat
    · simp [hs, agree_isFalse h hs]; omega
    · simp only [hs, if_false]; split <;> omega

/-- ONE STEP: the test under which the mirrors call `propagateUnit` (`w > B − card` where `B` bounds the
    weight that is not false) enables `propagatePb` in an abstract state agreeing with the assignment,
    and the state after agrees with the assignment after. -/
theorem enabled_step {st : St} {s : GS.TrailPb.State} {ts : List (Int × Int)} {card lvl B w l : Int}
    (hA : Agree st.m s.ents) (hnn : ∀ t ∈ ts, 0 ≤ t.1) (hB : tNF st.m ts ≤ B) (hw : w > B - card)
    (hm : (w, l) ∈ ts) (hu : st.m l.natAbs = 0) (hl0 : l ≠ 0) (hlvl : 0 < lvl) :
    ∃ s', GS.TrailPb.step s (.propagatePb l ⟨ts, card⟩) = some s' ∧ Agree (propagateUnit st lvl l).m s'.ents ∧
      tNF (propagateUnit st lvl l).m ts ≤ B := by
  have hunb := agree_unbound hA hu
  have hforced : forcedPb s.ents l ⟨ts, card⟩ = true := by
    rw [forcedPb_iff]
    refine ⟨List.mem_map.2 ⟨(w, l), hm, rfl⟩, ?_⟩
    unfold pbExplains
    simp only [Bool.and_eq_true, List.all_eq_true, decide_eq_true_eq]
    refine ⟨hnn, ?_⟩
    have h1 := slack_remove (Analyze.isFalse s.ents) l w (isFalse_of_unbound hunb) ts hnn hm
    have h2 := slack_le_tNF hA ts hnn
    omega
  refine ⟨push s l s.lvl false (some ⟨ts, card⟩), ?_, ?_, ?_⟩
  · simp only [GS.TrailPb.step, propagatePbOp]
    simp [hl0, hunb, hforced]
  · simp only [push, State.ents, List.map_append, List.map_cons, List.map_nil, propagateUnit]
    exact agree_push hA hu hl0 hlvl _ rfl
  · have := tNF_mono (m := st.m) (m' := bind st.m l lvl) (ext_step_bind (fun _ _ => rfl) hu) ts hnn
    simp only [propagateUnit]; omega

/-- The operations a list of propagated literals stands for. -/
def opsOf (c : Lin) (ps : List Int) : List Op := ps.map (fun l => Op.propagatePb l c)

theorem run_cons_some {s s1 : GS.TrailPb.State} {o : Op} {os : List Op} (h : GS.TrailPb.step s o = some s1) :
    run s (o :: os) = run s1 os := by
  simp [run, h]

/-- What the loops below establish: the new trail suffix `ps` is a run of enabled `propagatePb` steps. -/
def Enabled (c : Lin) (st st' : St) (s : GS.TrailPb.State) : Prop :=
  ∃ ps s', st'.props = st.props ++ ps ∧ run s (opsOf c ps) = some s' ∧ Agree st'.m s'.ents

theorem Enabled.refl {c : Lin} {st : St} {s : GS.TrailPb.State} (hA : Agree st.m s.ents) :
    Enabled c st st s := ⟨[], s, by simp, rfl, hA⟩

theorem Enabled.step {ts : List (Int × Int)} {card lvl l : Int} {st st' : St} {s s1 : GS.TrailPb.State}
    (h1 : GS.TrailPb.step s (.propagatePb l ⟨ts, card⟩) = some s1)
    (h2 : Enabled ⟨ts, card⟩ (propagateUnit st lvl l) st' s1) : Enabled ⟨ts, card⟩ st st' s := by
  obtain ⟨ps, s', e1, e2, e3⟩ := h2
  refine ⟨l :: ps, s', ?_, ?_, e3⟩
  · rw [e1]; simp [propagateUnit]
  · simp only [opsOf, List.map_cons]
    rw [run_cons_some h1]; exact e2

theorem Enabled.trans {c : Lin} {st st1 st' : St} {s : GS.TrailPb.State}
    (h1 : Enabled c st st1 s) (h2 : ∀ s1, Agree st1.m s1.ents → Enabled c st1 st' s1) :
    Enabled c st st' s := by
  obtain ⟨ps, s1, e1, e2, e3⟩ := h1
  obtain ⟨ps', s', f1, f2, f3⟩ := h2 s1 e3
  refine ⟨ps ++ ps', s', by rw [f1, e1, List.append_assoc], ?_, f3⟩
  have : ∀ (a b : List Op) (s : GS.TrailPb.State), run s (a ++ b) = (run s a).bind (fun s => run s b) := by
    intro a
    induction a with
    | nil => intro b s; rfl
    | cons o os ih =>
      intro b s
      simp only [List.cons_append, run]
      cases GS.TrailPb.step s o with
      | none => rfl
      | some s1 => exact ih b s1
  simp only [opsOf, List.map_append]
  rw [this]
  simp only [opsOf] at e2 f2
  rw [e2]; exact f2

/-! ## `simplifyCardConstr` -/

theorem cardPropLoop_enabled {lvl card : Int} (hlvl : 0 < lvl) {L : List Int} (hl0 : ∀ l ∈ L, l ≠ 0) :
    ∀ (fuel : Nat) (st : St) (i : Nat) (nb : Int) (st' : St) (s : GS.TrailPb.State),
      cardPropLoop lvl fuel st i nb = .ok st' → st.lits = L →
      Agree st.m s.ents → tNF st.m (L.map (fun l => ((1 : Int), l))) ≤ card →
      Enabled (Lin.ofCard L card) st st' s := by
  intro fuel
  induction fuel with
  | zero =>
    intro st i nb st' s h _ hA _
    unfold cardPropLoop at h
    split at h
    · cases h
    · cases h; exact Enabled.refl hA
  | succ fuel ih =>
    intro st i nb st' s h hL hA hB
    unfold cardPropLoop at h
    split at h
    · simp only at h
      split at h
      · cases h
      · rename_i lit hlit
        have hmem : lit ∈ L := by rw [← hL]; exact List.mem_of_getElem? hlit
        split at h
        · rename_i hu
          obtain ⟨s1, h1, h2, h3⟩ := enabled_step (st := st) (s := s) (card := card) (lvl := lvl) (B := card) (w := 1) (l := lit) hA
            (by intro t ht; obtain ⟨x, _, rfl⟩ := List.mem_map.1 ht; simp) hB (by omega)
            (List.mem_map.2 ⟨lit, hmem, rfl⟩) hu (hl0 lit hmem) hlvl
          exact Enabled.step h1 (ih _ _ _ _ _ h hL h2 h3)
        · exact ih _ _ _ _ _ h hL hA hB
    · cases h; exact Enabled.refl hA

/-- Every literal `simplifyCardConstr` hands to `propagateUnit` is an enabled `propagatePb` step of the
    trail machine `GS.TrailPb`, in order, from any abstract state agreeing with the assignment at the
    call; the antecedent is the constraint itself. -/
theorem simplifyCard_enabled {lvl card : Int} (hlvl : 0 < lvl) {st st' : St} {b : Bool}
    (h : simplifyCard lvl card st = .ok (b, st')) (hp : st.props = [])
    (hl0 : ∀ l ∈ st.lits, l ≠ 0) (s : GS.TrailPb.State) (hA : Agree st.m s.ents) :
    ∃ s', run s (st'.props.map (fun l => Op.propagatePb l (Lin.ofCard st.lits card))) = some s' ∧
      Agree st'.m s'.ents := by
  have key : Enabled (Lin.ofCard st.lits card) st st' s := by
    unfold simplifyCard at h
    split at h
    · cases h; exact Enabled.refl hA
    · cases h; exact Enabled.refl hA
    · rename_i t f u hcl
      have hfin := countLoop_fin _ _ _ _ _ _ _ hcl
      split at h
      · rename_i heq
        cases hq : cardPropLoop lvl (u.toNat + st.lits.length + 1) st 0 u with
        | ok st1 =>
          rw [hq] at h; cases h
          exact cardPropLoop_enabled hlvl hl0 _ _ _ _ _ _ hq rfl hA (by rw [tNF_ones]; omega)
        | panic => rw [hq] at h; cases h
        | fuel => rw [hq] at h; cases h
      · cases hq : swapFalse card st with
        | ok st1 =>
          rw [hq] at h; cases h
          have hf := swapFalse_frame hq
          exact ⟨[], s, by rw [hf.2]; simp, rfl, by rw [hf.1]; exact hA⟩
        | panic => rw [hq] at h; cases h
        | fuel => rw [hq] at h; cases h
  obtain ⟨ps, s', e1, e2, e3⟩ := key
  rw [hp, List.nil_append] at e1
  rw [e1]
  exact ⟨s', e2, e3⟩

/-! ## `simplifyPseudoBool` -/

theorem pbPassLoop_enabled {lvl slack card : Int} (hlvl : 0 < lvl) {W L : List Int}
    (hnn : ∀ w ∈ W, 0 ≤ w) (hl0 : ∀ l ∈ L, l ≠ 0) :
    ∀ (ls ws : List Int) (st : St) (fu : Bool) (st' : St) (fu' : Bool) (s : GS.TrailPb.State),
      pbPassLoop lvl slack ls ws st fu = .ok (st', fu') →
      (∀ p ∈ ws.zip ls, p ∈ W.zip L) → Agree st.m s.ents → tNF st.m (W.zip L) ≤ slack + card →
      Enabled ⟨W.zip L, card⟩ st st' s ∧ tNF st'.m (W.zip L) ≤ slack + card ∧ Frame st st' := by
  have hnn' : ∀ t ∈ W.zip L, 0 ≤ t.1 := fun t ht => hnn t.1 (List.of_mem_zip ht).1
  intro ls
  induction ls with
  | nil =>
    intro ws st fu st' fu' s h _ hA hB
    simp [pbPassLoop] at h
    obtain ⟨rfl, rfl⟩ := h
    exact ⟨Enabled.refl hA, hB, Frame.refl _⟩
  | cons l ls ih =>
    intro ws st fu st' fu' s h hsub hA hB
    simp only [pbPassLoop] at h
    split at h
    · rename_i hind
      cases ws with
      | nil => cases h
      | cons w ws' =>
        simp only at h
        have hsub' : ∀ p ∈ ws'.zip ls, p ∈ W.zip L := fun p hp =>
          hsub p (by simp only [List.zip_cons_cons, List.mem_cons]; exact Or.inr hp)
        split at h
        · rename_i hw
          have hm : (w, l) ∈ W.zip L := hsub (w, l) (by simp)
          obtain ⟨s1, h1, h2, h3⟩ := enabled_step (st := st) (s := s) (card := card) (lvl := lvl) (B := slack + card) hA hnn' hB
            (by omega) hm (status_indet_iff.1 hind) (hl0 l (List.of_mem_zip hm).2) hlvl
          have := ih ws' _ _ _ _ _ h hsub' h2 h3
          exact ⟨Enabled.step h1 this.1, this.2.1, (frame_propagateUnit st lvl l).trans this.2.2⟩
        · exact ih ws' _ _ _ _ _ h hsub' hA hB
    · have hsub' : ∀ p ∈ ws.tail.zip ls, p ∈ W.zip L := by
        intro p hp
        cases ws with
        | nil => simp at hp
        | cons w ws' =>
          exact hsub p (by simp only [List.zip_cons_cons, List.mem_cons]; exact Or.inr hp)
      exact ih ws.tail _ _ _ _ _ h hsub' hA hB

theorem propAllLoop_enabled {lvl card : Int} (hlvl : 0 < lvl) {W L : List Int}
    (hpos : ∀ w ∈ W, 0 < w) (hlen : W.length = L.length) (hl0 : ∀ l ∈ L, l ≠ 0) :
    ∀ (ls : List Int) (st : St) (s : GS.TrailPb.State), (∀ l ∈ ls, l ∈ L) →
      Agree st.m s.ents → tNF st.m (W.zip L) ≤ card →
      Enabled ⟨W.zip L, card⟩ st (propAllLoop lvl ls st) s := by
  have hnn' : ∀ t ∈ W.zip L, 0 ≤ t.1 := fun t ht => Int.le_of_lt (hpos t.1 (List.of_mem_zip ht).1)
  intro ls
  induction ls with
  | nil => intro st s _ hA _; exact Enabled.refl hA
  | cons l ls ih =>
    intro st s hsub hA hB
    simp only [propAllLoop]
    have hsub' : ∀ l ∈ ls, l ∈ L := fun x hx => hsub x (List.mem_cons_of_mem _ hx)
    split
    · rename_i hind
      have hlL := hsub l List.mem_cons_self
      obtain ⟨w, hm, hwW⟩ := mem_zip_of_mem hlen hlL
      obtain ⟨s1, h1, h2, h3⟩ := enabled_step (st := st) (s := s) (card := card) (lvl := lvl) (B := card) hA hnn' hB
        (by have := hpos w hwW; omega) hm (status_indet_iff.1 hind) (hl0 l hlL) hlvl
      exact Enabled.step h1 (ih _ _ hsub' h2 h3)
    · exact ih _ _ hsub' hA hB

theorem pbLoop_enabled {lvl card : Int} (hlvl : 0 < lvl) {W L : List Int}
    (hpos : ∀ w ∈ W, 0 < w) (hlen : W.length = L.length) (hl0 : ∀ l ∈ L, l ≠ 0) :
    ∀ (fuel : Nat) (st : St) (b : Bool) (st' : St) (s : GS.TrailPb.State),
      pbLoop lvl card fuel st = .ok (b, st') → st.lits = L → st.weights = W →
      Agree st.m s.ents → Enabled ⟨W.zip L, card⟩ st st' s := by
  have hnn : ∀ w ∈ W, 0 ≤ w := fun w hw => Int.le_of_lt (hpos w hw)
  intro fuel
  induction fuel with
  | zero => intro st b st' s h; simp [pbLoop] at h
  | succ fuel ih =>
    intro st b st' s h hL hW hA
    simp only [pbLoop] at h
    split at h
    · rename_i slack sat hss
      unfold slackSum at hss
      rw [hL, hW] at hss
      have hspec := slackLoop_spec _ _ _ _ _ _ hss
      split at h
      · cases h; exact Enabled.refl hA
      · rename_i hsat
        have hsl := hspec.1 (by simpa using hsat)
        have hB : tNF st.m (W.zip L) ≤ slack + card := by rw [tNF_zip]; omega
        split at h
        · cases h; exact Enabled.refl hA
        · split at h
          · rename_i hz
            cases h
            have := propAllLoop_enabled (card := card) hlvl hpos hlen hl0 st.lits st s
              (by rw [hL]; exact fun _ h => h) hA (by omega)
            exact this
          · split at h
            · rename_i st1 hpass
              rw [hL, hW] at hpass
              obtain ⟨e1, _, e3⟩ := pbPassLoop_enabled (card := card) hlvl hnn hl0 _ _ _ _ _ _ s hpass
                (fun _ h => h) hA hB
              exact Enabled.trans e1 (fun s1 hA1 =>
                ih st1 b st' s1 h (e3.1.trans hL) (e3.2.1.trans hW) hA1)
            · rename_i st1 hpass
              rw [hL, hW] at hpass
              obtain ⟨e1, _, _⟩ := pbPassLoop_enabled (card := card) hlvl hnn hl0 _ _ _ _ _ _ s hpass
                (fun _ h => h) hA hB
              split at h
              · rename_i st2 hu
                cases h
                have hf := updateWatchPB_frame hu
                obtain ⟨ps, s', f1, f2, f3⟩ := e1
                exact ⟨ps, s', by rw [hf.2.1]; exact f1, f2, by rw [hf.1]; exact f3⟩
              · cases h
              · cases h
            · cases h
            · cases h
    · cases h
    · cases h

/-- Every literal `simplifyPseudoBool` hands to `propagateUnit` is an enabled `propagatePb` step of the
    trail machine `GS.TrailPb`, in order, from any abstract state agreeing with the assignment at the
    call (weights `≥ 1`, as many weights as literals, literals `≠ 0`). -/
theorem simplifyPB_enabled {lvl card : Int} (hlvl : 0 < lvl) {st st' : St} {b : Bool}
    (hpos : ∀ w ∈ st.weights, 0 < w) (hlen : st.weights.length = st.lits.length)
    (h : simplifyPB lvl card st = .ok (b, st')) (hp : st.props = [])
    (hl0 : ∀ l ∈ st.lits, l ≠ 0) (s : GS.TrailPb.State) (hA : Agree st.m s.ents) :
    ∃ s', run s (st'.props.map (fun l => Op.propagatePb l ⟨st.weights.zip st.lits, card⟩)) = some s' ∧
      Agree st'.m s'.ents := by
  obtain ⟨ps, s', e1, e2, e3⟩ := pbLoop_enabled hlvl hpos hlen hl0 _ _ _ _ s h rfl rfl hA
  rw [hp, List.nil_append] at e1
  rw [e1]
  exact ⟨s', e2, e3⟩

/-- Non-vacuity: `3x1 + 2x2 + x3 ≥ 3` with `¬x1` on the trail: the run `propagatePb 2`, `propagatePb 3`
    is accepted by the trail machine. -/
example : (run ⟨2, [⟨-1, 2, false, none⟩]⟩
    ([2, 3].map (fun l => Op.propagatePb l ⟨[(3, 1), (2, 2), (1, 3)], 3⟩))).isSome = true := by decide
example : Agree (fun v => if v = 1 then -2 else 0) (State.ents ⟨2, [⟨-1, 2, false, none⟩]⟩) := by
  constructor
  · intro v hv
    refine ⟨⟨-1, 2, false, none⟩, by simp [State.ents, PEntry.toEntry], ?_⟩
    by_cases h : v = 1
    · simp [h]
    · simp [h] at hv
  · intro e he
    simp [State.ents, PEntry.toEntry] at he
    subst he
    simp

end GS.PbProp

#print axioms GS.PbProp.simplifyCard_enabled
#print axioms GS.PbProp.simplifyPB_enabled
#print axioms GS.PbProp.enabled_step
