import GS.Model.WatchLevels
import GS.Props.C01_WatchPropagate
/-!
# C01 (support) — the watch invariant with decision levels survives a backjump

`WatchInvL st ptr` = `WatchInv st ptr` + levels non-decreasing along the trail + every excusing true
literal of the semantic part is bound at a level `≤` the level of the processed trail literal whose
watcher it excuses.  `cleanup_preserves`: `cleanupBindings(lvl)` (`GS.Search.cleanup`) keeps it.
-/
namespace GS.Watch
open GS.Search (lvlAbs keepLen cleanup)

/-! ## The invariant with levels -/

/-- the semantic condition of one watcher, with the level bound `L` of the processed literal -/
def SemWL (cl : List (List Int)) (m : List Int) (L : Int) (w : Watcher) : Prop :=
  trueLe m L w.other = true ∨ ∃ c, cl[w.cid]? = some c ∧
    ((∃ a, c[0]? = some a ∧ trueLe m L a = true) ∨ (∃ b, c[1]? = some b ∧ trueLe m L b = true))

structure WatchInvL (st : State) (ptr : Nat) : Prop where
  inv : WatchInv st ptr
  /-- levels are non-decreasing along the trail -/
  mono : st.trail.Pairwise (fun a b => lvlAbs st.model a ≤ lvlAbs st.model b)
  /-- binary clauses watched by a processed trail literal `t`: the other literal is true at a level
      `≤` the level of `t` -/
  semBinL : ∀ i ws, st.wbin[i]? = some ws → idxLit i ∈ st.trail.take ptr →
    ∀ w ∈ ws, trueLe st.model (lvlAbs st.model (idxLit i)) w.other = true
  /-- longer clauses watched by a processed trail literal `t`: the blocking literal, or clause literal
      0, or clause literal 1 is true at a level `≤` the level of `t` -/
  semLongL : ∀ i ws, st.wlong[i]? = some ws → idxLit i ∈ st.trail.take ptr →
    ∀ w ∈ ws, SemWL st.clauses st.model (lvlAbs st.model (idxLit i)) w

theorem trueLe_iff {m : List Int} {L e : Int} :
    trueLe m L e = true ↔ litTrueB m e = true ∧ lvlAbs m e ≤ L := by
  simp [trueLe]

theorem SemWL.toSemW {cl : List (List Int)} {m : List Int} {L : Int} {w : Watcher}
    (h : SemWL cl m L w) : SemW cl m w := by
  rcases h with h | ⟨c, hc, h2⟩
  · exact Or.inl (trueLe_iff.mp h).1
  · right
    refine ⟨c, hc, ?_⟩
    rcases h2 with ⟨a, ha, hat⟩ | ⟨b, hb, hbt⟩
    · exact Or.inl ⟨a, ha, (trueLe_iff.mp hat).1⟩
    · exact Or.inr ⟨b, hb, (trueLe_iff.mp hbt).1⟩

/-- the index reading of `mono` -/
theorem WatchInvL.mono_index {st : State} {ptr : Nat} (h : WatchInvL st ptr) {i j : Nat} {a b : Int}
    (hij : i ≤ j) (hi : st.trail[i]? = some a) (hj : st.trail[j]? = some b) :
    lvlAbs st.model a ≤ lvlAbs st.model b := by
  rcases Nat.lt_or_ge i j with hlt | hge
  · obtain ⟨hi', rfl⟩ := List.getElem?_eq_some_iff.mp hi
    obtain ⟨hj', rfl⟩ := List.getElem?_eq_some_iff.mp hj
    exact List.pairwise_iff_getElem.mp h.mono i j hi' hj' hlt
  · have : i = j := by omega
    subst this
    rw [hi] at hj; cases hj
    exact Int.le_refl _

/-! ## `unset`: the unbinding loop -/

theorem unset_length {α} (z : α) : ∀ (ls : List Int) (r : List α), (unset z ls r).length = r.length := by
  intro ls
  induction ls with
  | nil => intro r; rfl
  | cons l ls ih =>
    intro r
    show (unset z ls (r.set (l.natAbs - 1) z)).length = r.length
    rw [ih]; simp

theorem unset_get_notin {α} (z : α) {v : Nat} : ∀ (ls : List Int) (r : List α),
    (∀ l ∈ ls, l.natAbs - 1 ≠ v) → (unset z ls r)[v]? = r[v]? := by
  intro ls
  induction ls with
  | nil => intro r _; rfl
  | cons l ls ih =>
    intro r h
    show (unset z ls (r.set (l.natAbs - 1) z))[v]? = r[v]?
    rw [ih _ (fun l' hl' => h l' (List.mem_cons_of_mem _ hl'))]
    rw [List.getElem?_set_ne (h l (List.mem_cons_self))]

theorem unset_get_in {α} (z : α) {v : Nat} : ∀ (ls : List Int) (r : List α),
    (∃ l ∈ ls, l.natAbs - 1 = v) → v < r.length → (unset z ls r)[v]? = some z := by
  intro ls
  induction ls with
  | nil => intro r h; obtain ⟨_, hl, _⟩ := h; cases hl
  | cons l ls ih =>
    intro r h hv
    show (unset z ls (r.set (l.natAbs - 1) z))[v]? = some z
    by_cases hin : ∃ l' ∈ ls, l'.natAbs - 1 = v
    · exact ih _ hin (by simpa using hv)
    · have hnot : ∀ l' ∈ ls, l'.natAbs - 1 ≠ v := fun l' hl' he => hin ⟨l', hl', he⟩
      rw [unset_get_notin z ls _ hnot]
      obtain ⟨l', hl', he⟩ := h
      rcases List.mem_cons.mp hl' with rfl | hl'
      · rw [he, List.getElem?_set_self hv]
      · exact absurd he (hnot l' hl')

/-! ## `keepLen`: the scan of `cleanupBindings` -/

theorem keepLen_le (m : List Int) (lvl : Int) : ∀ tr : List Int, keepLen m lvl tr ≤ tr.length := by
  intro tr
  induction tr with
  | nil => simp [keepLen]
  | cons a ls ih => unfold keepLen; split <;> simp <;> omega

theorem keepLen_take (m : List Int) (lvl : Int) : ∀ tr : List Int,
    ∀ l ∈ tr.take (keepLen m lvl tr), lvlAbs m l ≤ lvl := by
  intro tr
  induction tr with
  | nil => intro l hl; simp at hl
  | cons a ls ih =>
    intro l hl
    unfold keepLen at hl
    split at hl
    · rename_i ha
      rw [List.take_succ_cons] at hl
      rcases List.mem_cons.mp hl with rfl | hl
      · exact ha
      · exact ih l hl
    · simp at hl

/-- with non-decreasing levels, everything the scan does not keep is above the level -/
theorem keepLen_drop {m : List Int} {lvl : Int} : ∀ {tr : List Int},
    tr.Pairwise (fun a b => lvlAbs m a ≤ lvlAbs m b) →
    ∀ l ∈ tr.drop (keepLen m lvl tr), lvl < lvlAbs m l := by
  intro tr
  induction tr with
  | nil => intro _ l hl; simp at hl
  | cons a ls ih =>
    intro hp l hl
    unfold keepLen at hl
    split at hl
    · rw [List.drop_succ_cons] at hl
      exact ih (List.Pairwise.of_cons hp) l hl
    · rename_i ha
      rw [List.drop_zero] at hl
      rcases List.mem_cons.mp hl with rfl | hl
      · omega
      · have := List.rel_of_pairwise_cons hp hl
        omega

/-! ## `cleanup`: shape of the result -/

theorem cleanup_clauses (lvl : Int) (st : State) : (cleanup lvl st).clauses = st.clauses := rfl
theorem cleanup_wbin (lvl : Int) (st : State) : (cleanup lvl st).wbin = st.wbin := rfl
theorem cleanup_wlong (lvl : Int) (st : State) : (cleanup lvl st).wlong = st.wlong := rfl
theorem cleanup_trail (lvl : Int) (st : State) :
    (cleanup lvl st).trail = st.trail.take (keepLen st.model lvl st.trail) := rfl
theorem cleanup_model (lvl : Int) (st : State) :
    (cleanup lvl st).model = unset 0 (st.trail.drop (keepLen st.model lvl st.trail)) st.model := rfl
theorem cleanup_reasons (lvl : Int) (st : State) :
    (cleanup lvl st).reasons = unset none (st.trail.drop (keepLen st.model lvl st.trail)) st.reasons := rfl

/-- **`cleanup` cuts the trail to a prefix, unbinds exactly the dropped variables** (binding and
    reason) and leaves the clauses and the watch lists untouched. -/
theorem cleanup_shape (lvl : Int) (st : State) :
    (cleanup lvl st).clauses = st.clauses ∧ (cleanup lvl st).wbin = st.wbin ∧
    (cleanup lvl st).wlong = st.wlong ∧
    (cleanup lvl st).model.length = st.model.length ∧
    (cleanup lvl st).reasons.length = st.reasons.length ∧
    ∃ d, st.trail = (cleanup lvl st).trail ++ d ∧
      (∀ l ∈ (cleanup lvl st).trail, lvlAbs st.model l ≤ lvl) ∧
      (∀ l ∈ d, (l.natAbs - 1 < st.model.length → (cleanup lvl st).model[l.natAbs - 1]? = some 0) ∧
        (l.natAbs - 1 < st.reasons.length → (cleanup lvl st).reasons[l.natAbs - 1]? = some none)) ∧
      (∀ v, (∀ l ∈ d, l.natAbs - 1 ≠ v) → (cleanup lvl st).model[v]? = st.model[v]? ∧
        (cleanup lvl st).reasons[v]? = st.reasons[v]?) := by
  refine ⟨rfl, rfl, rfl, ?_, ?_, st.trail.drop (keepLen st.model lvl st.trail), ?_, ?_, ?_, ?_⟩
  · rw [cleanup_model, unset_length]
  · rw [cleanup_reasons, unset_length]
  · rw [cleanup_trail, List.take_append_drop]
  · rw [cleanup_trail]; exact keepLen_take _ _ _
  · intro l hl
    constructor
    · intro hlt
      rw [cleanup_model]; exact unset_get_in 0 _ _ ⟨l, hl, rfl⟩ hlt
    · intro hlt
      rw [cleanup_reasons]; exact unset_get_in none _ _ ⟨l, hl, rfl⟩ hlt
  · intro v hv
    constructor
    · rw [cleanup_model]; exact unset_get_notin 0 _ _ hv
    · rw [cleanup_reasons]; exact unset_get_notin none _ _ hv

/-! ## Literals that keep their binding -/

theorem lvlAbs_congr {m m' : List Int} {l : Int} (h : m'[l.natAbs - 1]? = m[l.natAbs - 1]?) :
    lvlAbs m' l = lvlAbs m l := by
  unfold lvlAbs; rw [h]

theorem litTrueB_congr {m m' : List Int} {l : Int} (h : m'[l.natAbs - 1]? = m[l.natAbs - 1]?) :
    litTrueB m' l = litTrueB m l := by
  unfold litTrueB litStatus modelAt; rw [h]

theorem lvlAbs_of_natAbs {m : List Int} {a b : Int} (h : a.natAbs = b.natAbs) :
    lvlAbs m a = lvlAbs m b := by
  unfold lvlAbs; rw [h]

/-- a literal bound at a level `≤ lvl` keeps its binding through `cleanup lvl` -/
theorem cleanup_keeps {st : State} {lvl : Int} (h : WatchInvL st st.trail.length) {e : Int}
    (he0 : e ≠ 0) (hle : lvlAbs st.model e ≤ lvl) :
    (cleanup lvl st).model[e.natAbs - 1]? = st.model[e.natAbs - 1]? := by
  rw [cleanup_model]
  apply unset_get_notin
  intro l hl heq
  have hgt := keepLen_drop (lvl := lvl) h.mono l hl
  have hlm : l ∈ st.trail := List.mem_of_mem_drop hl
  have hl0 : l ≠ 0 := (litTrueB_iff.mp (h.inv.trail_true l hlm)).1
  have h1 : 0 < l.natAbs := Int.natAbs_pos.mpr hl0
  have h2 : 0 < e.natAbs := Int.natAbs_pos.mpr he0
  have : lvlAbs st.model l = lvlAbs st.model e := lvlAbs_of_natAbs (by omega)
  omega

theorem trueLe_cleanup {st : State} {lvl : Int} (h : WatchInvL st st.trail.length) {t e : Int}
    (ht : t ∈ (cleanup lvl st).trail)
    (hte : trueLe st.model (lvlAbs st.model t) e = true) :
    trueLe (cleanup lvl st).model (lvlAbs (cleanup lvl st).model t) e = true := by
  obtain ⟨het, hel⟩ := trueLe_iff.mp hte
  have htl : lvlAbs st.model t ≤ lvl := by
    rw [cleanup_trail] at ht; exact keepLen_take _ _ _ t ht
  have htm : t ∈ st.trail := by
    rw [cleanup_trail] at ht; exact List.mem_of_mem_take ht
  have ht0 : t ≠ 0 := (litTrueB_iff.mp (h.inv.trail_true t htm)).1
  have he0 : e ≠ 0 := (litTrueB_iff.mp het).1
  have kt := cleanup_keeps h ht0 htl
  have ke := cleanup_keeps (lvl := lvl) h he0 (by omega)
  rw [trueLe_iff, litTrueB_congr ke, lvlAbs_congr ke, lvlAbs_congr kt]
  exact ⟨het, hel⟩

/-! ## The backjump preserves the invariant -/

/-- **`cleanupBindings(lvl)` preserves the watch invariant with levels** (everything processed before,
    everything that remains is processed after). -/
theorem cleanup_preserves {st : State} (lvl : Int) (h : WatchInvL st st.trail.length) :
    WatchInvL (cleanup lvl st) (cleanup lvl st).trail.length := by
  have hI := h.inv
  have hlenm : (cleanup lvl st).model.length = st.model.length := by rw [cleanup_model, unset_length]
  have hlenr : (cleanup lvl st).reasons.length = st.reasons.length := by
    rw [cleanup_reasons, unset_length]
  -- kept trail literals keep their binding
  have hkeepT : ∀ t ∈ (cleanup lvl st).trail,
      (cleanup lvl st).model[t.natAbs - 1]? = st.model[t.natAbs - 1]? ∧ t ∈ st.trail := by
    intro t ht
    have htl : lvlAbs st.model t ≤ lvl := by
      rw [cleanup_trail] at ht; exact keepLen_take _ _ _ t ht
    have htm : t ∈ st.trail := by
      rw [cleanup_trail] at ht; exact List.mem_of_mem_take ht
    exact ⟨cleanup_keeps h (litTrueB_iff.mp (hI.trail_true t htm)).1 htl, htm⟩
  have hproc : ∀ i, idxLit i ∈ (cleanup lvl st).trail.take (cleanup lvl st).trail.length →
      idxLit i ∈ (cleanup lvl st).trail ∧ idxLit i ∈ st.trail.take st.trail.length := by
    intro i hi
    rw [List.take_length] at hi ⊢
    exact ⟨hi, (hkeepT _ hi).2⟩
  have hsemB : ∀ i ws, (cleanup lvl st).wbin[i]? = some ws →
      idxLit i ∈ (cleanup lvl st).trail.take (cleanup lvl st).trail.length →
      ∀ w ∈ ws, trueLe (cleanup lvl st).model (lvlAbs (cleanup lvl st).model (idxLit i)) w.other = true := by
    intro i ws hws hin w hw
    obtain ⟨h1, h2⟩ := hproc i hin
    exact trueLe_cleanup h h1 (h.semBinL i ws hws h2 w hw)
  have hsemL : ∀ i ws, (cleanup lvl st).wlong[i]? = some ws →
      idxLit i ∈ (cleanup lvl st).trail.take (cleanup lvl st).trail.length →
      ∀ w ∈ ws, SemWL (cleanup lvl st).clauses (cleanup lvl st).model
        (lvlAbs (cleanup lvl st).model (idxLit i)) w := by
    intro i ws hws hin w hw
    obtain ⟨h1, h2⟩ := hproc i hin
    rcases h.semLongL i ws hws h2 w hw with ho | ⟨c, hc, h01⟩
    · exact Or.inl (trueLe_cleanup h h1 ho)
    · right
      refine ⟨c, hc, ?_⟩
      rcases h01 with ⟨a, ha, hat⟩ | ⟨b, hb, hbt⟩
      · exact Or.inl ⟨a, ha, trueLe_cleanup h h1 hat⟩
      · exact Or.inr ⟨b, hb, trueLe_cleanup h h1 hbt⟩
  refine ⟨⟨?_, ?_, Nat.le_refl _, ?_, ?_, ?_, hI.wbin, hI.wlong, hI.count, ?_, ?_⟩, ?_, hsemB, hsemL⟩
  · -- shape
    rw [hlenm, hlenr]; exact hI.shape
  · -- clauses
    intro c hc
    rw [hlenm]; exact hI.clauses c hc
  · -- trail_true
    intro l hl
    obtain ⟨hk, hm⟩ := hkeepT l hl
    rw [litTrueB_congr hk]; exact hI.trail_true l hm
  · -- trail_nodup
    rw [cleanup_trail]
    exact List.Nodup.sublist (List.Sublist.map _ (List.take_sublist _ _)) hI.trail_nodup
  · -- bound_on_trail
    intro v hv
    rw [hlenm] at hv
    by_cases hin : ∃ l ∈ st.trail.drop (keepLen st.model lvl st.trail), l.natAbs - 1 = v
    · left; rw [cleanup_model]; exact unset_get_in 0 _ _ hin hv
    · have hnot : ∀ l ∈ st.trail.drop (keepLen st.model lvl st.trail), l.natAbs - 1 ≠ v :=
        fun l hl he => hin ⟨l, hl, he⟩
      rcases hI.bound_on_trail v hv with hb | hb
      · left; rw [cleanup_model, unset_get_notin 0 _ _ hnot]; exact hb
      · right
        rw [← List.take_append_drop (keepLen st.model lvl st.trail) st.trail, List.map_append,
          List.mem_append] at hb
        rcases hb with hb | hb
        · exact hb
        · obtain ⟨l, hl, hlv⟩ := List.mem_map.mp hb
          exact absurd (by omega) (hnot l hl)
  · -- semBin
    intro i ws hws hin w hw
    exact (trueLe_iff.mp (hsemB i ws hws hin w hw)).1
  · -- semLong
    intro i ws hws hin w hw
    exact (hsemL i ws hws hin w hw).toSemW
  · -- mono
    rw [cleanup_trail]
    have hp := List.Pairwise.sublist (List.take_sublist (keepLen st.model lvl st.trail) st.trail) h.mono
    refine List.Pairwise.imp_of_mem ?_ hp
    intro a b ha hb hab
    have ka := (hkeepT a (by rw [cleanup_trail]; exact ha)).1
    have kb := (hkeepT b (by rw [cleanup_trail]; exact hb)).1
    rw [lvlAbs_congr ka, lvlAbs_congr kb]; exact hab

/-! ## `propagate` side: the elementary steps keep the level conditions -/

theorem SemWL_swap {cl : List (List Int)} {m : List Int} {L : Int} {cid : Nat} {a b : Int} {r : List Int}
    (hc : cl[cid]? = some (a :: b :: r)) {w : Watcher} (h : SemWL cl m L w) :
    SemWL (cl.set cid (b :: a :: r)) m L w := by
  rcases h with h | ⟨c, hcw, h2⟩
  · exact Or.inl h
  · right
    rw [set_get _ _ hc]
    by_cases hwc : w.cid = cid
    · rw [hwc, hc] at hcw
      cases hcw
      refine ⟨b :: a :: r, by simp [hwc], ?_⟩
      simp only [List.getElem?_cons_zero, List.getElem?_cons_succ, Option.some.injEq,
        exists_eq_left'] at h2 ⊢
      exact h2.symm
    · exact ⟨c, by simp [hwc, hcw], h2⟩

/-- `c.swap(1, k)` replaces the watched literal `nl` (not true: it is the negation of the literal
    being processed) by another one: an excuse is never lost. -/
theorem SemWL_move {cl : List (List Int)} {m : List Int} {L : Int} {cid : Nat} {first nl x : Int}
    {r r' : List Int} (hc : cl[cid]? = some (first :: nl :: r)) (hnl : litTrueB m nl = false)
    {w : Watcher} (h : SemWL cl m L w) : SemWL (cl.set cid (first :: x :: r')) m L w := by
  rcases h with h | ⟨c, hcw, h2⟩
  · exact Or.inl h
  · right
    rw [set_get _ _ hc]
    by_cases hwc : w.cid = cid
    · rw [hwc, hc] at hcw
      cases hcw
      refine ⟨first :: x :: r', by simp [hwc], ?_⟩
      simp only [List.getElem?_cons_zero, List.getElem?_cons_succ, Option.some.injEq,
        exists_eq_left'] at h2 ⊢
      rcases h2 with h2 | h2
      · exact Or.inl h2
      · rw [(trueLe_iff.mp h2).1] at hnl; cases hnl
    · exact ⟨c, by simp [hwc, hcw], h2⟩

theorem SemWL_mono {cl : List (List Int)} {m m' : List Int} {L L' : Int}
    (hm : ∀ x, trueLe m L x = true → trueLe m' L' x = true) {w : Watcher} (h : SemWL cl m L w) :
    SemWL cl m' L' w := by
  rcases h with h | ⟨c, hcw, h2⟩
  · exact Or.inl (hm _ h)
  · right
    refine ⟨c, hcw, ?_⟩
    rcases h2 with ⟨a, ha, hat⟩ | ⟨b, hb, hbt⟩
    · exact Or.inl ⟨a, ha, hm _ hat⟩
    · exact Or.inr ⟨b, hb, hm _ hbt⟩

/-- watchers of a literal bound at the highest level: the level condition adds nothing -/
theorem SemWL_of_top {cl : List (List Int)} {m : List Int} {L : Int} {w : Watcher}
    (hmax : ∀ x, lvlAbs m x ≤ L) (h : SemW cl m w) : SemWL cl m L w := by
  rcases h with h | ⟨c, hcw, h2⟩
  · exact Or.inl (trueLe_iff.mpr ⟨h, hmax _⟩)
  · right
    refine ⟨c, hcw, ?_⟩
    rcases h2 with ⟨a, ha, hat⟩ | ⟨b, hb, hbt⟩
    · exact Or.inl ⟨a, ha, trueLe_iff.mpr ⟨hat, hmax _⟩⟩
    · exact Or.inr ⟨b, hb, trueLe_iff.mpr ⟨hbt, hmax _⟩⟩

theorem bind_keeps {m : List Int} {l x v : Int} (hu : litUnboundB m l = true)
    (hx : litTrueB m x = true) : (m.set (l.natAbs - 1) v)[x.natAbs - 1]? = m[x.natAbs - 1]? := by
  obtain ⟨_, hm0⟩ := litUnboundB_iff.mp hu
  obtain ⟨_, a, ha, ha0, _⟩ := litTrueB_iff.mp hx
  apply List.getElem?_set_ne
  intro heq
  rw [heq, ha] at hm0
  cases hm0; exact ha0 rfl

theorem lvlAbs_bind_self {m : List Int} {l lvl : Int} (hlt : l.natAbs - 1 < m.length) (hlvl : 0 < lvl) :
    lvlAbs (m.set (l.natAbs - 1) (signedLvl l lvl)) l = lvl := by
  unfold lvlAbs signedLvl
  rw [List.getElem?_set_self hlt]
  simp only [Option.getD_some]
  split <;> omega

/-- **Binding at the current (highest) level preserves the invariant with levels** (binary branch of
    `propagate`, `propagateUnit`, and `unifyLiteral` of a literal whose reason is set). -/
theorem bindSt_invL {st : State} {ptr : Nat} {l lvl : Int} (cid : Nat) (h : WatchInvL st ptr)
    (hu : litUnboundB st.model l = true) (hlvl : 0 < lvl)
    (hmax : ∀ t ∈ st.trail, lvlAbs st.model t ≤ lvl) : WatchInvL (bindSt st l lvl cid) ptr := by
  have hI := h.inv
  obtain ⟨hl0, hm0⟩ := litUnboundB_iff.mp hu
  have hlt : l.natAbs - 1 < st.model.length := by
    rcases Nat.lt_or_ge (l.natAbs - 1) st.model.length with h1 | h1
    · exact h1
    · rw [List.getElem?_eq_none h1] at hm0; cases hm0
  have hkT : ∀ t ∈ st.trail,
      (bindSt st l lvl cid).model[t.natAbs - 1]? = st.model[t.natAbs - 1]? :=
    fun t ht => bind_keeps hu (hI.trail_true t ht)
  have htake : (bindSt st l lvl cid).trail.take ptr = st.trail.take ptr := by
    show (st.trail ++ [l]).take ptr = _
    rw [List.take_append_of_le_length hI.ptr_le]
  have hTL : ∀ t e, t ∈ st.trail → trueLe st.model (lvlAbs st.model t) e = true →
      trueLe (bindSt st l lvl cid).model (lvlAbs (bindSt st l lvl cid).model t) e = true := by
    intro t e ht hte
    obtain ⟨het, hel⟩ := trueLe_iff.mp hte
    have ke : (bindSt st l lvl cid).model[e.natAbs - 1]? = st.model[e.natAbs - 1]? := bind_keeps hu het
    rw [trueLe_iff, litTrueB_congr ke, lvlAbs_congr ke, lvlAbs_congr (hkT t ht)]
    exact ⟨het, hel⟩
  refine ⟨bindSt_inv cid hI hu hlvl, ?_, ?_, ?_⟩
  · show (st.trail ++ [l]).Pairwise _
    rw [List.pairwise_append]
    refine ⟨?_, List.pairwise_singleton _ _, ?_⟩
    · refine List.Pairwise.imp_of_mem ?_ h.mono
      intro a b ha hb hab
      rw [lvlAbs_congr (hkT a ha), lvlAbs_congr (hkT b hb)]; exact hab
    · intro a ha b hb
      rw [List.mem_singleton] at hb
      subst hb
      rw [lvlAbs_congr (hkT a ha)]
      have : lvlAbs (bindSt st b lvl cid).model b = lvl := lvlAbs_bind_self hlt hlvl
      rw [this]; exact hmax a ha
  · intro i ws hws hin w hw
    rw [htake] at hin
    exact hTL _ _ (List.mem_of_mem_take hin) (h.semBinL i ws hws hin w hw)
  · intro i ws hws hin w hw
    rw [htake] at hin
    exact SemWL_mono (fun x hx => hTL _ x (List.mem_of_mem_take hin) hx) (h.semLongL i ws hws hin w hw)

/-- The full statement about `propagate` (NOT proved here: see `bindSt_invL`, `SemWL_swap`,
    `SemWL_move`, `SemWL_mono`, `SemWL_of_top` for the steps that are). -/
def propagate_specL_statement : Prop :=
  ∀ (st : State) (ptr : Nat) (lvl : Int), WatchInvL st ptr → 0 < lvl →
    (∀ t ∈ st.trail, lvlAbs st.model t ≤ lvl) →
    (∀ t ∈ st.trail.drop ptr, lvlAbs st.model t = lvl) →
    ∀ st', propagate ptr lvl st = .ok (none, st') → WatchInvL st' st'.trail.length

/-- **Backjump, assert, propagate** (relative to `propagate_specL_statement`): after
    `cleanupBindings(lvl)`, binding the (unbound) asserting literal `a` at level `lvl` with its reason
    (`s.reason[v] = learnt` + `unifyLiteral`) and propagating ends in the invariant with levels. -/
theorem backjump_then_propagate (H : propagate_specL_statement) {st : State} {lvl a : Int} {cid : Nat}
    (h : WatchInvL st st.trail.length) (hlvl : 0 < lvl)
    (hu : litUnboundB (cleanup lvl st).model a = true) {st' : State}
    (hp : propagate (cleanup lvl st).trail.length lvl (bindSt (cleanup lvl st) a lvl cid) = .ok (none, st')) :
    WatchInvL st' st'.trail.length := by
  have hc := cleanup_preserves lvl h
  have hI := hc.inv
  obtain ⟨_, hm0⟩ := litUnboundB_iff.mp hu
  have hlt : a.natAbs - 1 < (cleanup lvl st).model.length := by
    rcases Nat.lt_or_ge (a.natAbs - 1) (cleanup lvl st).model.length with h1 | h1
    · exact h1
    · rw [List.getElem?_eq_none h1] at hm0; cases hm0
  have hmax : ∀ t ∈ (cleanup lvl st).trail, lvlAbs (cleanup lvl st).model t ≤ lvl := by
    intro t ht
    have htl : lvlAbs st.model t ≤ lvl := by
      rw [cleanup_trail] at ht; exact keepLen_take _ _ _ t ht
    have htm : t ∈ st.trail := by
      rw [cleanup_trail] at ht; exact List.mem_of_mem_take ht
    rw [lvlAbs_congr (cleanup_keeps h (litTrueB_iff.mp (h.inv.trail_true t htm)).1 htl)]
    exact htl
  have hb := bindSt_invL cid hc hu hlvl hmax
  have hself : lvlAbs (bindSt (cleanup lvl st) a lvl cid).model a = lvl := lvlAbs_bind_self hlt hlvl
  refine H _ _ lvl hb hlvl ?_ ?_ st' hp
  · intro t ht
    change t ∈ (cleanup lvl st).trail ++ [a] at ht
    rcases List.mem_append.mp ht with ht | ht
    · have hk : (bindSt (cleanup lvl st) a lvl cid).model[t.natAbs - 1]? =
          (cleanup lvl st).model[t.natAbs - 1]? := bind_keeps hu (hI.trail_true t ht)
      rw [lvlAbs_congr hk]; exact hmax t ht
    · rw [List.mem_singleton] at ht; subst ht; omega
  · intro t ht
    change t ∈ ((cleanup lvl st).trail ++ [a]).drop (cleanup lvl st).trail.length at ht
    rw [List.drop_left] at ht
    rw [List.mem_singleton] at ht; subst ht; exact hself

/-! ## The executable invariant says what `WatchInvL` says -/

theorem semBinLOk_iff (st : State) (ptr : Nat) : semBinLOk st ptr = true ↔
    ∀ i ws, st.wbin[i]? = some ws → idxLit i ∈ st.trail.take ptr →
      ∀ w ∈ ws, trueLe st.model (lvlAbs st.model (idxLit i)) w.other = true := by
  unfold semBinLOk
  rw [zipIdx_all_iff]
  constructor
  · intro h i ws hws hin w hw
    have := h i ws hws
    simp only [Bool.or_eq_true, Bool.not_eq_true', List.all_eq_true] at this
    rcases this with h1 | h1
    · rw [← Bool.not_eq_true, List.contains_iff_mem] at h1
      exact absurd hin h1
    · exact h1 w hw
  · intro h i ws hws
    simp only [Bool.or_eq_true, Bool.not_eq_true', List.all_eq_true]
    by_cases hin : idxLit i ∈ st.trail.take ptr
    · exact Or.inr (h i ws hws hin)
    · left
      rw [← Bool.not_eq_true, List.contains_iff_mem]
      exact hin

theorem semLongLOk_iff (st : State) (ptr : Nat) : semLongLOk st ptr = true ↔
    ∀ i ws, st.wlong[i]? = some ws → idxLit i ∈ st.trail.take ptr →
      ∀ w ∈ ws, SemWL st.clauses st.model (lvlAbs st.model (idxLit i)) w := by
  unfold semLongLOk
  rw [zipIdx_all_iff]
  have key : ∀ (L : Int) (w : Watcher),
      (trueLe st.model L w.other ||
        (match st.clauses[w.cid]? with
         | some c => (match c[0]? with | some a => trueLe st.model L a | none => false) ||
                     (match c[1]? with | some b => trueLe st.model L b | none => false)
         | none => false)) = true ↔ SemWL st.clauses st.model L w := by
    intro L w
    unfold SemWL
    rw [Bool.or_eq_true]
    apply or_congr Iff.rfl
    cases hc : st.clauses[w.cid]? with
    | none => simp
    | some c =>
      cases h0 : c[0]? <;> cases h1 : c[1]? <;> simp [h0, h1]
  constructor
  · intro h i ws hws hin w hw
    have := h i ws hws
    simp only [Bool.or_eq_true (a := !_), Bool.not_eq_true', List.all_eq_true] at this
    rcases this with h1 | h1
    · rw [← Bool.not_eq_true, List.contains_iff_mem] at h1
      exact absurd hin h1
    · exact (key _ w).mp (h1 w hw)
  · intro h i ws hws
    simp only [Bool.or_eq_true (a := !_), Bool.not_eq_true', List.all_eq_true]
    by_cases hin : idxLit i ∈ st.trail.take ptr
    · exact Or.inr (fun w hw => (key _ w).mpr (h i ws hws hin w hw))
    · left
      rw [← Bool.not_eq_true, List.contains_iff_mem]
      exact hin

theorem watchInvL_iff (st : State) (ptr : Nat) : watchInvL st ptr = true ↔ WatchInvL st ptr := by
  unfold watchInvL levelsMonoB
  simp only [Bool.and_eq_true, decide_eq_true_eq]
  rw [watchInv_iff, semBinLOk_iff, semLongLOk_iff]
  constructor
  · rintro ⟨⟨⟨h1, h2⟩, h3⟩, h4⟩
    exact ⟨h1, h2, h3, h4⟩
  · intro h
    exact ⟨⟨⟨h.inv, h.mono⟩, h.semBinL⟩, h.semLongL⟩

/-- the executable reading of `cleanup_preserves` -/
theorem cleanup_preserves_bool {st : State} (lvl : Int) (h : watchInvL st st.trail.length = true) :
    watchInvL (cleanup lvl st) (cleanup lvl st).trail.length = true :=
  (watchInvL_iff _ _).mpr (cleanup_preserves lvl ((watchInvL_iff _ _).mp h))

/-! ## Examples -/

/-- `exState` after `unifyLiteral(3, 2)` (the watch of clause 2 moves from `¬3` to `1`) and
    `unifyLiteral(2, 3)` (clause 2 becomes unit: `1` at level 3 with reason 2). -/
def exLevels : State :=
  { clauses := [[1, 2, 3], [-1, 2], [1, -2, -3]],
    wbin := [[⟨1, 2⟩], [], [], [⟨1, -1⟩], [], []],
    wlong := [[], [⟨0, 2⟩, ⟨2, -2⟩], [⟨2, 1⟩], [⟨0, 1⟩], [], []],
    model := [3, 3, 2], trail := [3, 2, 1], reasons := [some 2, none, none] }

example : (match unifyLiteral 3 2 exState with
    | .ok (none, s) => (unifyLiteral 2 3 s).toOption | _ => none) = some (none, exLevels) := by decide
example : watchInvL exLevels exLevels.trail.length = true := by decide
/-- the backjump to level 2 drops `2` and `1` -/
example : (cleanup 2 exLevels).model = [0, 0, 2] ∧ (cleanup 2 exLevels).trail = [3] ∧
    (cleanup 2 exLevels).reasons = [none, none, none] := by decide
example : watchInvL (cleanup 2 exLevels) (cleanup 2 exLevels).trail.length = true := by decide
/-- hypotheses of `backjump_then_propagate` / `bindSt_invL`: `¬1` is unbound after the backjump -/
example : litUnboundB (cleanup 2 exLevels).model (-1) = true := by decide
example : (match propagate 1 2 (bindSt (cleanup 2 exLevels) (-1) 2 1) with
    | .ok (none, s) => watchInvL s s.trail.length | _ => false) = true := by decide

/-- **The level conditions are needed**: a state that satisfies `watchInv` (the watcher of clause 0
    in the list of `2`, bound at level 1, is excused by `1`, bound at level 2) but not `watchInvL`;
    `cleanupBindings(1)` unbinds `1` and leaves the watcher of the processed literal `2` without any
    true literal: `watchInv` is lost.  (Not reachable: `propagate` at level 1 would have moved the
    watch to `3`.) -/
def exNoLevels : State :=
  { clauses := [[1, -2, 3]], wbin := [[], [], [], [], [], []],
    wlong := [[], [⟨0, -2⟩], [⟨0, 1⟩], [], [], []],
    model := [2, 1, 0], trail := [2, 1], reasons := [none, none, none] }

example : watchInv exNoLevels 2 = true ∧ watchInvL exNoLevels 2 = false ∧
    (cleanup 1 exNoLevels).trail = [2] ∧ watchInv (cleanup 1 exNoLevels) 1 = false := by decide

#print axioms watchInvL_iff
#print axioms cleanup_shape
#print axioms cleanup_preserves
#print axioms bindSt_invL
#print axioms backjump_then_propagate

end GS.Watch
