import GS.Spec.Basic
import GS.Model.Assume
import GS.Model.Trail
import GS.Props.C01_Trail
/-!
# C10 — the prologue of `(*Solver).Assume`, concrete layer

`GS.Model.Assume.assumePrologue` mirrors `Assume` line by line up to its final `s.propagate(0, 1)`.
Here it is characterised for **all** inputs.  `WF s m` is the solver invariant the prologue relies
on (`s.model = m` has `nbVars` cells; every bound variable is on the trail — `cleanupBindings`
only unbinds trail variables); `InRange n xs` says the literals are non-zero over variables `≤ n`
(otherwise Go panics with an index error, outcome `panic`).

* `assumePrologue_spec` — the outcome is `refuted` (with `status = Unsat`, and a state that is
  again `WF`) iff `Clash (facts ++ lits)`, else `installed (installedState s lits)`.
* `assumePrologue_refuted_iff`, `assumePrologue_installed_iff` — refuted ⇔ some literal occurs with
  its negation among facts and assumed literals; installed ⇔ not.
* `assumePrologue_installed` — the installed trail is duplicate-free, equals
  `dedup (facts ++ lits) = dedup facts ++ newAssumed facts lits` (`dedup_eq_eraseDups`: core's
  `List.eraseDups`), every trail literal is bound true at level 1, every other variable is unbound,
  a variable is flagged iff one of its literals is in `lits` and not in `facts`; the state is `WF`.
* `assumePrologue_sem` — `(∀ l ∈ facts ++ lits, litTrue a l) ↔ Agrees a model'`; refuted ⇒ no such `a`.
* `assumePrologue_fresh`, `assumePrologue_no_leak` — the outcome is a function of
  `(nbVars, facts, lits)`: nothing of the model / trail / flags / status left by earlier rounds
  survives (needs `WF`; the example after the theorem shows what happens without `onTrail`).
* `assumePrologue_trail_run` — read through `toTrail`, the installed state is
  `GS.Trail.run (init (dedup facts)) (newAssumed.map assume)`, `unitsOk (dedup facts)` holds, hence
  `GS.Trail.Inv`; its `GS.Trail.assumptions` are `newAssumed facts lits`.

Remarks on the Go code (see the report): an assumed literal equal to a fact is **not** flagged
(its binding is the fact's, which is right: conflicts depending on it do not depend on an
assumption); `Assume` never changes `s.facts`; but the theorems are relative to `s.facts`, and
`AppendClause` called between two rounds simplifies the new constraint with the level-1 bindings —
assumptions included — and `propagateUnits` then appends the resulting units to `s.facts`:
`Assume([-1]); AppendClause(1 ∨ 2)` makes `2` a permanent fact, and `Assume([1]);
AppendClause(1 ∨ 2)` drops the clause for ever (both confirmed on the Go code).
-/

namespace GS.Assume
open GS

/-! ## Vocabulary of the statements -/

/-- Every literal is non-zero and over a variable `≤ n`. -/
def InRange (n : Nat) (xs : List Int) : Prop := ∀ l ∈ xs, l ≠ 0 ∧ l.natAbs ≤ n

/-- No literal together with its negation. -/
def Consistent (xs : List Int) : Prop := ∀ l ∈ xs, -l ∉ xs

/-- A literal and its negation both occur. -/
def Clash (xs : List Int) : Prop := ∃ l, l ∈ xs ∧ -l ∈ xs

/-- The Go model array in which exactly the literals of `tr` are bound, true, at level 1. -/
def modelOf (n : Nat) (tr : List Int) : List Int :=
  (List.range n).map (fun (v : Nat) =>
    if ((v : Int) + 1) ∈ tr then 1 else if (-((v : Int) + 1)) ∈ tr then -1 else 0)

/-- The flag array in which exactly the variables of `new` are flagged. -/
def flagsOf (n : Nat) (new : List Int) : List Bool :=
  (List.range n).map (fun (v : Nat) => decide (((v : Int) + 1) ∈ new ∨ (-((v : Int) + 1)) ∈ new))

/-- `for l in xs: if l not in tr: tr.append(l)` — first occurrences, in order. -/
def addNew (tr : List Int) (l : Int) : List Int := if l ∈ tr then tr else tr ++ [l]

def dedupFrom (tr : List Int) (xs : List Int) : List Int := xs.foldl addNew tr

/-- Solver invariants the prologue relies on: the arrays have `nbVars` cells and every bound
    variable is on the trail (so that `cleanupBindings(0)` unbinds everything). -/
structure WF (s : State) (m : List Int) : Prop where
  model : s.model = some m
  len : m.length = s.nbVars
  onTrail : ∀ v, v < m.length → mget m v ≠ 0 → ∃ l ∈ s.trail, varOf l = v

/-- The assignment `a` agrees with every binding of the Go model array `m`. -/
def Agrees (a : Asg) (m : List Int) : Prop :=
  ∀ v, (mget m v > 0 → a (v + 1) = true) ∧ (mget m v < 0 → a (v + 1) = false)

/-! ## The model array -/

theorem modelOf_length (n : Nat) (tr : List Int) : (modelOf n tr).length = n := by
  simp [modelOf]

theorem modelOf_get (n : Nat) (tr : List Int) (v : Nat) (hv : v < n) :
    (modelOf n tr)[v]? = some (if ((v : Int) + 1) ∈ tr then 1 else if (-((v : Int) + 1)) ∈ tr then -1 else 0) := by
  simp [modelOf, List.getElem?_map, List.getElem?_range hv]

theorem flagsOf_length (n : Nat) (new : List Int) : (flagsOf n new).length = n := by
  simp [flagsOf]

theorem flagsOf_get (n : Nat) (new : List Int) (v : Nat) (hv : v < n) :
    (flagsOf n new)[v]? = some (decide (((v : Int) + 1) ∈ new ∨ (-((v : Int) + 1)) ∈ new)) := by
  simp [flagsOf, List.getElem?_map, List.getElem?_range hv]

theorem modelOf_nil (n : Nat) : modelOf n [] = List.replicate n 0 := by
  apply List.ext_getElem?
  intro i
  by_cases hi : i < n
  · rw [modelOf_get n [] i hi]; simp [hi]
  · simp [modelOf, hi]

theorem flagsOf_nil (n : Nat) : flagsOf n [] = List.replicate n false := by
  apply List.ext_getElem?
  intro i
  by_cases hi : i < n
  · rw [flagsOf_get n [] i hi]; simp [hi]
  · simp [flagsOf, hi]

theorem inRange_iff (n : Nat) (l : Int) : inRange n l = true ↔ l ≠ 0 ∧ l.natAbs ≤ n := by
  simp [inRange]

/-- The cell of `l` in `modelOf n tr`. -/
theorem mget_modelOf {n : Nat} {tr : List Int} {l : Int} (h0 : l ≠ 0) (hn : l.natAbs ≤ n) :
    mget (modelOf n tr) (varOf l) =
      if l > 0 then (if l ∈ tr then 1 else if -l ∈ tr then -1 else 0)
      else (if -l ∈ tr then 1 else if l ∈ tr then -1 else 0) := by
  have hv : varOf l < n := by unfold varOf; omega
  unfold mget
  rw [modelOf_get n tr _ hv]
  by_cases hp : l > 0
  · have e : ((varOf l : Nat) : Int) + 1 = l := by unfold varOf; omega
    simp only [e, hp, if_true, Option.getD_some]
  · have e : ((varOf l : Nat) : Int) + 1 = -l := by unfold varOf; omega
    simp only [e, hp, if_false, Option.getD_some, Int.neg_neg]

/-- `litStatus` on `modelOf n tr` reads membership in the (consistent) trail. -/
theorem litStatus_modelOf {n : Nat} {tr : List Int} {l : Int} (h0 : l ≠ 0) (hn : l.natAbs ≤ n)
    (hc : Consistent tr) :
    litStatus (modelOf n tr) l =
      if l ∈ tr then .sat else if -l ∈ tr then .unsat else .indet := by
  unfold litStatus
  simp only [mget_modelOf h0 hn]
  by_cases hp : l > 0
  · by_cases h1 : l ∈ tr
    · simp [hp, h1]
    · by_cases h2 : -l ∈ tr
      · simp [hp, h1, h2]
      · simp [hp, h1, h2]
  · by_cases h1 : l ∈ tr
    · have h2 : -l ∉ tr := hc l h1
      simp [hp, h1, h2]
    · by_cases h2 : -l ∈ tr
      · simp [hp, h1, h2]
      · simp [hp, h1, h2]

/-- Binding an unbound literal: `s.model[l.Var()] = lvlToSignedLvl(l, 1)`. -/
theorem set_modelOf {n : Nat} {tr : List Int} {l : Int} (h0 : l ≠ 0) (h2 : -l ∉ tr) :
    (modelOf n tr).set (varOf l) (lvlToSignedLvl l 1) = modelOf n (tr ++ [l]) := by
  apply List.ext_getElem?
  intro i
  by_cases hi : i < n
  · rw [List.getElem?_set, modelOf_get n (tr ++ [l]) i hi, modelOf_get n tr i hi, modelOf_length]
    by_cases hiv : varOf l = i
    · subst hiv
      simp only [if_true, hi]
      by_cases hp : l > 0
      · have e : ((varOf l : Nat) : Int) + 1 = l := by unfold varOf; omega
        simp [e, lvlToSignedLvl, hp]
      · have e : ((varOf l : Nat) : Int) + 1 = -l := by unfold varOf; omega
        have hne : -l ≠ l := by omega
        simp [e, lvlToSignedLvl, hp, h2, hne]
    · have e1 : ((i : Nat) : Int) + 1 ≠ l := by unfold varOf at hiv; omega
      have e2 : -(((i : Nat) : Int) + 1) ≠ l := by unfold varOf at hiv; omega
      simp only [hiv, if_false, List.mem_append, List.mem_singleton, e1, e2,
        or_false]
  · have h1' : (modelOf n (tr ++ [l]))[i]? = none := by
      rw [List.getElem?_eq_none_iff, modelOf_length]; omega
    rw [h1', List.getElem?_eq_none_iff, List.length_set, modelOf_length]; omega

/-- Flagging a variable: `s.assumptions[l.Var()] = true`. -/
theorem set_flagsOf {n : Nat} {new : List Int} {l : Int} (h0 : l ≠ 0) :
    (flagsOf n new).set (varOf l) true = flagsOf n (new ++ [l]) := by
  apply List.ext_getElem?
  intro i
  by_cases hi : i < n
  · rw [List.getElem?_set, flagsOf_get n (new ++ [l]) i hi, flagsOf_get n new i hi, flagsOf_length]
    by_cases hiv : varOf l = i
    · subst hiv
      simp only [if_true, hi]
      by_cases hp : l > 0
      · have e : ((varOf l : Nat) : Int) + 1 = l := by unfold varOf; omega
        simp [e]
      · have e : ((varOf l : Nat) : Int) + 1 = -l := by unfold varOf; omega
        simp [e]
    · have e1 : ((i : Nat) : Int) + 1 ≠ l := by unfold varOf at hiv; omega
      have e2 : -(((i : Nat) : Int) + 1) ≠ l := by unfold varOf at hiv; omega
      simp only [hiv, if_false, List.mem_append, List.mem_singleton, e1, e2,
        or_false]
  · have h1' : (flagsOf n (new ++ [l]))[i]? = none := by
      rw [List.getElem?_eq_none_iff, flagsOf_length]; omega
    rw [h1', List.getElem?_eq_none_iff, List.length_set, flagsOf_length]; omega

/-! ## `cleanupBindings(0)` unbinds every trail variable -/

theorem unbind_length (ls : List Int) : ∀ m : List Int, (unbind m ls).length = m.length := by
  induction ls with
  | nil => intro m; rfl
  | cons l ls ih => intro m; simp [unbind, ih]

theorem unbind_get (ls : List Int) : ∀ (m : List Int) (v : Nat),
    (unbind m ls)[v]? =
      if (∃ l ∈ ls, varOf l = v) ∧ v < m.length then some 0 else m[v]? := by
  induction ls with
  | nil => intro m v; simp [unbind]
  | cons l ls ih =>
    intro m v
    simp only [unbind, ih, List.length_set, List.mem_cons, exists_eq_or_imp, List.getElem?_set]
    by_cases h1 : ∃ a, a ∈ ls ∧ varOf a = v
    · by_cases hv : v < m.length <;> simp [h1, hv]
      omega
    · by_cases h2 : varOf l = v
      · by_cases hv : v < m.length <;> simp [h1, h2, hv]
      · simp [h1, h2]

theorem mget_unbind_skipKept (m : List Int) (trail : List Int) (v : Nat)
    (hv : ∃ l ∈ trail, varOf l = v) : mget (unbind m (skipKept m 0 trail)) v = 0 := by
  unfold mget
  rw [unbind_get]
  by_cases hlen : v < m.length
  · by_cases hin : ∃ l ∈ skipKept m 0 trail, varOf l = v
    · simp [hin, hlen]
    · -- the trail literal of `v` is in the skipped prefix: already unbound
      obtain ⟨l, hl, rfl⟩ := hv
      have hsplit : l ∈ trail.takeWhile (fun l => decide ((mget m (varOf l)).natAbs ≤ 0)) ∨
          l ∈ skipKept m 0 trail := by
        have := List.takeWhile_append_dropWhile
          (p := fun l => decide ((mget m (varOf l)).natAbs ≤ 0)) (l := trail)
        rw [← this, List.mem_append] at hl
        exact hl
      rcases hsplit with h | h
      · have := GS.Trail.of_mem_takeWhile h
        simp only [decide_eq_true_eq] at this
        have hz : mget m (varOf l) = 0 := by omega
        simp only [hin, false_and, if_false]
        unfold mget at hz
        exact hz
      · exact absurd ⟨l, h, rfl⟩ hin
  · have : m[v]? = none := by rw [List.getElem?_eq_none_iff]; omega
    simp [hlen]

/-- Under the invariant, the model after `cleanupBindings(0)` is all zeros. -/
theorem cleanup_zeros {s : State} {m : List Int} (h : WF s m) :
    (cleanupBindings m s.trail 0).1 = List.replicate s.nbVars 0 := by
  simp only [cleanupBindings]
  apply List.ext_getElem?
  intro v
  by_cases hv : v < s.nbVars
  · have hlen : v < m.length := by rw [h.len]; exact hv
    have hget : mget (unbind m (skipKept m 0 s.trail)) v = 0 := by
      by_cases hb : mget m v = 0
      · unfold mget
        rw [unbind_get]
        split
        · rfl
        · exact hb
      · exact mget_unbind_skipKept m s.trail v (h.onTrail v hlen hb)
    have hl : v < (unbind m (skipKept m 0 s.trail)).length := by rw [unbind_length]; exact hlen
    unfold mget at hget
    rw [List.getElem?_eq_getElem hl] at hget ⊢
    simp only [Option.getD_some] at hget
    simp [hget, hv]
  · have h1 : (unbind m (skipKept m 0 s.trail))[v]? = none := by
      rw [List.getElem?_eq_none_iff, unbind_length, h.len]; omega
    rw [h1]; simp; omega

/-! ## The two loops on the trail alone -/

/-- One iteration, on the trail alone: `none` = `return Unsat`. -/
def specStep (tr : List Int) (l : Int) : Option (List Int) :=
  if l ∈ tr then some tr else if -l ∈ tr then none else some (tr ++ [l])

def specLoop : List Int → List Int → Option (List Int)
  | [], tr => some tr
  | l :: ls, tr =>
    match specStep tr l with
    | none => none
    | some tr' => specLoop ls tr'

/-- Consistent trail of in-range literals. -/
structure Good (n : Nat) (tr : List Int) : Prop where
  cons : Consistent tr
  range : InRange n tr

theorem good_nil (n : Nat) : Good n [] :=
  ⟨(by intro x hx; cases hx), (by intro x hx; cases hx)⟩

theorem good_snoc {n : Nat} {tr : List Int} {l : Int} (h : Good n tr) (h0 : l ≠ 0)
    (hn : l.natAbs ≤ n) (h2 : -l ∉ tr) : Good n (tr ++ [l]) := by
  constructor
  · intro x hx hnx
    simp only [List.mem_append, List.mem_singleton] at hx hnx
    rcases hx with hx | rfl
    · rcases hnx with hnx | hnx
      · exact h.cons x hx hnx
      · have : x = -l := by omega
        subst this; exact h2 hx
    · rcases hnx with hnx | hnx
      · exact h2 hnx
      · omega
  · intro x hx
    simp only [List.mem_append, List.mem_singleton] at hx
    rcases hx with hx | rfl
    · exact h.range x hx
    · exact ⟨h0, hn⟩

theorem factsLoop_spec (n : Nat) (fl : List Bool) : ∀ (fs tr : List Int), Good n tr → InRange n fs →
    match specLoop fs tr with
    | some tr' => factsLoop fl fs (modelOf n tr) tr = .ok (modelOf n tr') tr' fl
    | none => ∃ tr', Good n tr' ∧ factsLoop fl fs (modelOf n tr) tr = .unsat (modelOf n tr') tr' fl := by
  intro fs
  induction fs with
  | nil => intro tr _ _; simp [specLoop, factsLoop]
  | cons l ls ih =>
    intro tr hg hr
    have hl := hr l List.mem_cons_self
    have hr' : InRange n ls := fun x hx => hr x (List.mem_cons_of_mem _ hx)
    have hin : inRange (modelOf n tr).length l = true := by
      rw [modelOf_length, inRange_iff]; exact hl
    simp only [specLoop, specStep, factsLoop, hin, Bool.not_true, Bool.false_eq_true, if_false,
      litStatus_modelOf hl.1 hl.2 hg.cons]
    by_cases h1 : l ∈ tr
    · simp only [h1, if_true]
      exact ih tr hg hr'
    · by_cases h2 : -l ∈ tr
      · simp only [h1, h2, if_true, if_false]
        exact ⟨_, hg, rfl⟩
      · simp only [h1, h2, if_false, set_modelOf hl.1 h2]
        exact ih (tr ++ [l]) (good_snoc hg hl.1 hl.2 h2) hr'

theorem assumeLoop_spec (n : Nat) : ∀ (ls tr new : List Int), Good n tr → InRange n ls →
    match specLoop ls tr with
    | some tr' => ∃ ext, tr' = tr ++ ext ∧
        assumeLoop ls (modelOf n tr) tr (flagsOf n new) =
          .ok (modelOf n tr') tr' (flagsOf n (new ++ ext))
    | none => ∃ tr' fl', Good n tr' ∧
        assumeLoop ls (modelOf n tr) tr (flagsOf n new) = .unsat (modelOf n tr') tr' fl' := by
  intro ls
  induction ls with
  | nil => intro tr new _ _; exact ⟨[], by simp, by simp [assumeLoop]⟩
  | cons l ls ih =>
    intro tr new hg hr
    have hl := hr l List.mem_cons_self
    have hr' : InRange n ls := fun x hx => hr x (List.mem_cons_of_mem _ hx)
    have hin : inRange (modelOf n tr).length l = true := by
      rw [modelOf_length, inRange_iff]; exact hl
    have hin2 : inRange (flagsOf n new).length l = true := by
      rw [flagsOf_length, inRange_iff]; exact hl
    simp only [specLoop, specStep, assumeLoop, hin, hin2, Bool.not_true, Bool.false_eq_true,
      if_false, litStatus_modelOf hl.1 hl.2 hg.cons]
    by_cases h1 : l ∈ tr
    · simp only [h1, if_true]
      exact ih tr new hg hr'
    · by_cases h2 : -l ∈ tr
      · simp only [h1, h2, if_true, if_false]
        exact ⟨_, _, hg, rfl⟩
      · simp only [h1, h2, if_false, set_modelOf hl.1 h2, set_flagsOf hl.1]
        have := ih (tr ++ [l]) (new ++ [l]) (good_snoc hg hl.1 hl.2 h2) hr'
        revert this
        cases specLoop ls (tr ++ [l]) with
        | none => exact id
        | some tr' =>
          rintro ⟨ext, he, hrun⟩
          exact ⟨l :: ext, by simp [he], by simpa using hrun⟩

/-! ## The trail-level loop: refutation = a clash, result = first occurrences -/

theorem specLoop_append : ∀ (xs ys tr : List Int),
    specLoop (xs ++ ys) tr = (specLoop xs tr).bind (specLoop ys) := by
  intro xs
  induction xs with
  | nil => intro ys tr; simp [specLoop]
  | cons x xs ih =>
    intro ys tr
    simp only [List.cons_append, specLoop]
    cases specStep tr x with
    | none => rfl
    | some tr' => exact ih ys tr'

theorem specLoop_some : ∀ (ls tr tr' : List Int), specLoop ls tr = some tr' → tr' = dedupFrom tr ls := by
  intro ls
  induction ls with
  | nil => intro tr tr' h; simp [specLoop] at h; simp [dedupFrom, h]
  | cons l ls ih =>
    intro tr tr' h
    simp only [specLoop, specStep] at h
    simp only [dedupFrom, List.foldl_cons, addNew]
    by_cases h1 : l ∈ tr
    · simp only [h1, if_true] at h ⊢
      exact ih tr tr' h
    · by_cases h2 : -l ∈ tr
      · simp [h1, h2] at h
      · simp only [h1, h2, if_false] at h ⊢
        exact ih _ tr' h

theorem clash_congr {A B : List Int} (h : ∀ x, x ∈ A ↔ x ∈ B) : Clash A ↔ Clash B := by
  unfold Clash
  constructor
  · rintro ⟨l, h1, h2⟩; exact ⟨l, (h l).1 h1, (h _).1 h2⟩
  · rintro ⟨l, h1, h2⟩; exact ⟨l, (h l).2 h1, (h _).2 h2⟩

theorem consistent_snoc {tr : List Int} {l : Int} (h : Consistent tr) (h0 : l ≠ 0)
    (h2 : -l ∉ tr) : Consistent (tr ++ [l]) := by
  intro x hx hnx
  simp only [List.mem_append, List.mem_singleton] at hx hnx
  rcases hx with hx | rfl
  · rcases hnx with hnx | hnx
    · exact h x hx hnx
    · have : x = -l := by omega
      subst this; exact h2 hx
  · rcases hnx with hnx | hnx
    · exact h2 hnx
    · omega

theorem not_clash_of_consistent {tr : List Int} (h : Consistent tr) : ¬ Clash tr := by
  rintro ⟨l, h1, h2⟩; exact h l h1 h2

/-- The loop refutes exactly when a literal and its negation occur among the trail so far and
    the literals still to come. -/
theorem specLoop_none_iff : ∀ (ls tr : List Int), Consistent tr → (∀ l ∈ ls, l ≠ 0) →
    (specLoop ls tr = none ↔ Clash (tr ++ ls)) := by
  intro ls
  induction ls with
  | nil =>
    intro tr hc _
    simp only [specLoop, List.append_nil]
    constructor
    · intro h; cases h
    · intro h; exact absurd h (not_clash_of_consistent hc)
  | cons l ls ih =>
    intro tr hc h0
    have hl0 : l ≠ 0 := h0 l List.mem_cons_self
    have h0' : ∀ x ∈ ls, x ≠ 0 := fun x hx => h0 x (List.mem_cons_of_mem _ hx)
    simp only [specLoop, specStep]
    by_cases h1 : l ∈ tr
    · simp only [h1, if_true]
      rw [ih tr hc h0']
      apply clash_congr
      intro x
      simp only [List.mem_append, List.mem_cons]
      constructor
      · rintro (h | h)
        · exact Or.inl h
        · exact Or.inr (Or.inr h)
      · rintro (h | rfl | h)
        · exact Or.inl h
        · exact Or.inl h1
        · exact Or.inr h
    · by_cases h2 : -l ∈ tr
      · simp only [h1, h2, if_true, if_false, true_iff]
        exact ⟨l, by simp, by simp [h2]⟩
      · simp only [h1, h2, if_false]
        rw [ih (tr ++ [l]) (consistent_snoc hc hl0 h2) h0']
        apply clash_congr
        intro x
        simp [List.mem_append, List.mem_cons]

/-! ### first occurrences -/

theorem dedupFrom_nil (tr : List Int) : dedupFrom tr [] = tr := rfl

theorem dedupFrom_cons (tr : List Int) (x : Int) (xs : List Int) :
    dedupFrom tr (x :: xs) = dedupFrom (addNew tr x) xs := rfl

theorem dedupFrom_append (tr xs ys : List Int) :
    dedupFrom tr (xs ++ ys) = dedupFrom (dedupFrom tr xs) ys := by
  simp [dedupFrom, List.foldl_append]

theorem mem_dedupFrom : ∀ (xs tr : List Int) (x : Int), x ∈ dedupFrom tr xs ↔ x ∈ tr ∨ x ∈ xs := by
  intro xs
  induction xs with
  | nil => intro tr x; simp [dedupFrom]
  | cons y ys ih =>
    intro tr x
    rw [dedupFrom_cons, ih]
    unfold addNew
    by_cases hy : y ∈ tr
    · simp only [hy, if_true, List.mem_cons]
      constructor
      · rintro (h | h)
        · exact Or.inl h
        · exact Or.inr (Or.inr h)
      · rintro (h | rfl | h)
        · exact Or.inl h
        · exact Or.inl hy
        · exact Or.inr h
    · simp [hy, or_assoc]

theorem dedupFrom_nodup : ∀ (xs tr : List Int), tr.Nodup → (dedupFrom tr xs).Nodup := by
  intro xs
  induction xs with
  | nil => intro tr h; exact h
  | cons y ys ih =>
    intro tr h
    rw [dedupFrom_cons]
    apply ih
    unfold addNew
    by_cases hy : y ∈ tr
    · simp [hy, h]
    · simp only [hy, if_false]
      rw [List.nodup_append]
      refine ⟨h, by simp, ?_⟩
      intro a ha b hb
      simp only [List.mem_singleton] at hb
      subst hb
      intro hab; subst hab; exact hy ha

/-- The loop only appends. -/
theorem dedupFrom_prefix : ∀ (xs tr : List Int), ∃ ext, dedupFrom tr xs = tr ++ ext := by
  intro xs
  induction xs with
  | nil => intro tr; exact ⟨[], by simp [dedupFrom]⟩
  | cons y ys ih =>
    intro tr
    rw [dedupFrom_cons]
    obtain ⟨ext, he⟩ := ih (addNew tr y)
    unfold addNew at he ⊢
    by_cases hy : y ∈ tr
    · simp only [hy, if_true] at he ⊢; exact ⟨ext, he⟩
    · simp only [hy, if_false] at he ⊢; exact ⟨y :: ext, by simp [he]⟩

theorem specLoop_good {n : Nat} : ∀ (ls tr tr' : List Int), Good n tr → InRange n ls →
    specLoop ls tr = some tr' → Good n tr' := by
  intro ls
  induction ls with
  | nil => intro tr tr' hg _ h; simp [specLoop] at h; subst h; exact hg
  | cons l ls ih =>
    intro tr tr' hg hr h
    have hl := hr l List.mem_cons_self
    have hr' : InRange n ls := fun x hx => hr x (List.mem_cons_of_mem _ hx)
    simp only [specLoop, specStep] at h
    by_cases h1 : l ∈ tr
    · simp only [h1, if_true] at h
      exact ih tr tr' hg hr' h
    · by_cases h2 : -l ∈ tr
      · simp [h1, h2] at h
      · simp only [h1, h2, if_false] at h
        exact ih _ tr' (good_snoc hg hl.1 hl.2 h2) hr' h

/-! ## The prologue as a function of (facts, lits) -/

/-- First occurrences, in order. -/
def dedup (xs : List Int) : List Int := dedupFrom [] xs

/-- The assumed literals that get bound (and flagged): what the second loop appends. -/
def newAssumed (facts lits : List Int) : List Int :=
  (dedup (facts ++ lits)).drop (dedup facts).length

/-- The state `s.propagate(0, 1)` starts from. -/
def installedState (s : State) (lits : List Int) : State :=
  { s with status := .indet,
           model := some (modelOf s.nbVars (dedup (s.facts ++ lits))),
           trail := dedup (s.facts ++ lits),
           flags := flagsOf s.nbVars (newAssumed s.facts lits) }

/-- A state whose model array is `modelOf` of its (consistent, in-range) trail is well-formed. -/
theorem wf_of_good {n : Nat} {tr : List Int} (st : Status) (facts : List Int)
    (fl : List Bool) :
    WF { nbVars := n, status := st, facts := facts, model := some (modelOf n tr), trail := tr,
         flags := fl } (modelOf n tr) := by
  refine ⟨rfl, modelOf_length n tr, ?_⟩
  intro v hv hb
  rw [modelOf_length] at hv
  unfold mget at hb
  rw [modelOf_get n tr v hv] at hb
  simp only [Option.getD_some] at hb
  by_cases h1 : ((v : Int) + 1) ∈ tr
  · exact ⟨_, h1, by unfold varOf; omega⟩
  · by_cases h2 : (-((v : Int) + 1)) ∈ tr
    · exact ⟨_, h2, by unfold varOf; omega⟩
    · simp [h1, h2] at hb

/-- **The mirror, characterised**: from a well-formed state and in-range literals, the prologue
    either returns `Unsat` — exactly when facts and assumed literals clash — or installs
    `installedState`. -/
theorem assumePrologue_spec {s : State} {m : List Int} {lits : List Int} (h : WF s m)
    (hrF : InRange s.nbVars s.facts) (hrL : InRange s.nbVars lits) :
    (Clash (s.facts ++ lits) ∧ ∃ st' m', assumePrologue s lits = .refuted st' ∧
        st'.status = .unsat ∧ st'.nbVars = s.nbVars ∧ st'.facts = s.facts ∧ WF st' m') ∨
    (¬ Clash (s.facts ++ lits) ∧ assumePrologue s lits = .installed (installedState s lits)) := by
  have hz0 : ∀ x ∈ s.facts ++ lits, x ≠ 0 := by
    intro x hx
    rcases List.mem_append.1 hx with hx | hx
    · exact (hrF x hx).1
    · exact (hrL x hx).1
  have hnone := specLoop_none_iff (s.facts ++ lits) [] (good_nil s.nbVars).cons hz0
  rw [specLoop_append, List.nil_append] at hnone
  unfold assumePrologue
  rw [h.model]
  simp only [cleanup_zeros h, ← modelOf_nil, ← flagsOf_nil]
  have hf := factsLoop_spec s.nbVars (flagsOf s.nbVars []) s.facts [] (good_nil _) hrF
  cases hsF : specLoop s.facts [] with
  | none =>
    rw [hsF] at hf hnone
    obtain ⟨tr', _, hrun⟩ := hf
    rw [hrun]
    exact Or.inl ⟨hnone.1 rfl, _, _, rfl, rfl, rfl, rfl, wf_of_good _ _ _⟩
  | some trF =>
    rw [hsF] at hf hnone
    rw [hf]
    simp only [Option.bind_some] at hnone
    have hgF : Good s.nbVars trF := specLoop_good _ _ _ (good_nil _) hrF hsF
    have htrF : trF = dedup s.facts := specLoop_some _ _ _ hsF
    have ha := assumeLoop_spec s.nbVars lits trF [] hgF hrL
    cases hsL : specLoop lits trF with
    | none =>
      rw [hsL] at ha hnone
      obtain ⟨tr', fl', _, hrun⟩ := ha
      simp only [hrun]
      exact Or.inl ⟨hnone.1 rfl, _, _, rfl, rfl, rfl, rfl, wf_of_good _ _ _⟩
    | some tr' =>
      rw [hsL] at ha hnone
      obtain ⟨ext, he, hrun⟩ := ha
      simp only [hrun]
      have htr' : tr' = dedup (s.facts ++ lits) := by
        rw [specLoop_some _ _ _ hsL, htrF]
        simp [dedup, dedupFrom_append]
      have hext : ext = newAssumed s.facts lits := by
        unfold newAssumed
        rw [← htr', ← htrF, he]
        simp
      refine Or.inr ⟨fun hc => ?_, ?_⟩
      · have := hnone.2 hc
        cases this
      · simp only [installedState, List.nil_append, ← htr', ← hext]

/-! ## Properties of `dedup` / `newAssumed` -/

theorem mem_dedup (xs : List Int) (x : Int) : x ∈ dedup xs ↔ x ∈ xs := by
  simp [dedup, mem_dedupFrom]

theorem dedup_nodup (xs : List Int) : (dedup xs).Nodup :=
  dedupFrom_nodup xs [] List.nodup_nil

theorem dedup_append_eq (facts lits : List Int) :
    dedup (facts ++ lits) = dedup facts ++ newAssumed facts lits := by
  unfold newAssumed
  obtain ⟨ext, he⟩ := dedupFrom_prefix lits (dedup facts)
  have : dedup (facts ++ lits) = dedup facts ++ ext := by
    rw [← he]; simp [dedup, dedupFrom_append]
  rw [this]; simp

theorem mem_newAssumed (facts lits : List Int) (x : Int) :
    x ∈ newAssumed facts lits ↔ x ∈ lits ∧ x ∉ facts := by
  have hnd := dedup_nodup (facts ++ lits)
  have hm := mem_dedup (facts ++ lits) x
  rw [dedup_append_eq] at hnd hm
  rw [List.nodup_append] at hnd
  simp only [List.mem_append, mem_dedup] at hm
  constructor
  · intro hx
    have hnf : x ∉ facts := by
      intro hf
      exact hnd.2.2 x ((mem_dedup _ _).2 hf) x hx rfl
    rcases hm.1 (Or.inr hx) with h | h
    · exact absurd h hnf
    · exact ⟨h, hnf⟩
  · rintro ⟨hl, hnf⟩
    rcases hm.2 (Or.inr hl) with h | h
    · exact absurd h hnf
    · exact h

theorem consistent_dedup {xs : List Int} (h : ¬ Clash xs) : Consistent (dedup xs) := by
  intro l hl hnl
  exact h ⟨l, (mem_dedup _ _).1 hl, (mem_dedup _ _).1 hnl⟩

theorem good_dedup {n : Nat} {xs : List Int} (h : ¬ Clash xs) (hr : InRange n xs) :
    Good n (dedup xs) :=
  ⟨consistent_dedup h, fun l hl => hr l ((mem_dedup _ _).1 hl)⟩

theorem inRange_append {n : Nat} {xs ys : List Int} (h1 : InRange n xs) (h2 : InRange n ys) :
    InRange n (xs ++ ys) := by
  intro l hl
  rcases List.mem_append.1 hl with h | h
  · exact h1 l h
  · exact h2 l h

/-! ## C10 at the layer of the prologue -/

/-- **Refutation ⇔ clash.**  From a well-formed state, with non-zero literals over the solver's
    variables, `Assume` returns `Unsat` from one of its two loops exactly when some literal occurs
    together with its negation among the facts and the assumed literals. -/
theorem assumePrologue_refuted_iff {s : State} {m : List Int} {lits : List Int} (h : WF s m)
    (hrF : InRange s.nbVars s.facts) (hrL : InRange s.nbVars lits) :
    (∃ st', assumePrologue s lits = .refuted st') ↔
      ∃ l, l ∈ s.facts ++ lits ∧ -l ∈ s.facts ++ lits := by
  rcases assumePrologue_spec h hrF hrL with ⟨hc, st', _, he, _⟩ | ⟨hc, he⟩
  · exact ⟨fun _ => hc, fun _ => ⟨st', he⟩⟩
  · constructor
    · rintro ⟨st', h'⟩; rw [he] at h'; cases h'
    · intro h'; exact absurd h' hc

/-- The only other outcome is `installed` (no panic, no early return). -/
theorem assumePrologue_installed_iff {s : State} {m : List Int} {lits : List Int} (h : WF s m)
    (hrF : InRange s.nbVars s.facts) (hrL : InRange s.nbVars lits) :
    (∃ st', assumePrologue s lits = .installed st') ↔ ¬ Clash (s.facts ++ lits) := by
  rcases assumePrologue_spec h hrF hrL with ⟨hc, st', _, he, _⟩ | ⟨hc, he⟩
  · constructor
    · rintro ⟨st'', h'⟩; rw [he] at h'; cases h'
    · intro h'; exact absurd hc h'
  · exact ⟨fun _ => hc, fun _ => ⟨_, he⟩⟩

/-- **What is installed.**  Without a clash the prologue ends in a state `st'` where
    * status `Indet`, `nbVars` and `facts` unchanged;
    * the trail is duplicate-free and is the list of first occurrences of `facts ++ lits`
      (`dedup`; `dedup_eq_eraseDups`: that is `List.eraseDups`), i.e. the distinct facts in order
      followed by the assumed literals that are new, in order;
    * every trail literal is bound true at level 1 (`model[var] = ±1` with the literal's sign),
      every variable without a trail literal is unbound (`0`);
    * a variable is flagged as assumption iff one of its literals is in `lits` and is not a fact. -/
theorem assumePrologue_installed {s : State} {m : List Int} {lits : List Int} (h : WF s m)
    (hrF : InRange s.nbVars s.facts) (hrL : InRange s.nbVars lits)
    (hc : ¬ Clash (s.facts ++ lits)) :
    ∃ st' m', assumePrologue s lits = .installed st' ∧
      st'.status = .indet ∧ st'.nbVars = s.nbVars ∧ st'.facts = s.facts ∧
      st'.model = some m' ∧ m'.length = s.nbVars ∧ st'.flags.length = s.nbVars ∧
      st'.trail.Nodup ∧
      st'.trail = dedup (s.facts ++ lits) ∧
      st'.trail = dedup s.facts ++ newAssumed s.facts lits ∧
      (∀ x, x ∈ st'.trail ↔ x ∈ s.facts ∨ x ∈ lits) ∧
      (∀ l ∈ st'.trail, mget m' (varOf l) = lvlToSignedLvl l 1) ∧
      (∀ v, (∀ l ∈ st'.trail, varOf l ≠ v) → mget m' v = 0) ∧
      (∀ v, st'.flags[v]? = some true ↔ ∃ l ∈ lits, l ∉ s.facts ∧ varOf l = v) ∧
      WF st' m' := by
  rcases assumePrologue_spec h hrF hrL with ⟨hc', _⟩ | ⟨_, he⟩
  · exact absurd hc' hc
  have hr := inRange_append hrF hrL
  have hg := good_dedup hc hr
  refine ⟨_, _, he, rfl, rfl, rfl, rfl, modelOf_length _ _, flagsOf_length _ _, dedup_nodup _, rfl,
    dedup_append_eq _ _, ?_, ?_, ?_, ?_, wf_of_good _ _ _⟩
  · intro x; simp [installedState, mem_dedup]
  · intro l hl
    have hl' := hg.range l hl
    show mget (modelOf s.nbVars (dedup (s.facts ++ lits))) (varOf l) = _
    rw [mget_modelOf hl'.1 hl'.2]
    have hn : -l ∉ dedup (s.facts ++ lits) := hg.cons l hl
    have hl2 : l ∈ dedup (s.facts ++ lits) := hl
    by_cases hp : l > 0 <;> simp [hp, hl2, hn, lvlToSignedLvl]
  · intro v hv
    show mget (modelOf s.nbVars (dedup (s.facts ++ lits))) v = 0
    unfold mget
    by_cases hvn : v < s.nbVars
    · rw [modelOf_get _ _ v hvn]
      have h1 : ((v : Int) + 1) ∉ dedup (s.facts ++ lits) := by
        intro hm; exact hv _ hm (by unfold varOf; omega)
      have h2 : (-((v : Int) + 1)) ∉ dedup (s.facts ++ lits) := by
        intro hm; exact hv _ hm (by unfold varOf; omega)
      simp [h1, h2]
    · have : (modelOf s.nbVars (dedup (s.facts ++ lits)))[v]? = none := by
        rw [List.getElem?_eq_none_iff, modelOf_length]; omega
      rw [this]; rfl
  · intro v
    show (flagsOf s.nbVars (newAssumed s.facts lits))[v]? = some true ↔ _
    by_cases hvn : v < s.nbVars
    · rw [flagsOf_get _ _ v hvn]
      simp only [Option.some.injEq, decide_eq_true_eq, mem_newAssumed]
      constructor
      · rintro (⟨h1, h2⟩ | ⟨h1, h2⟩)
        · exact ⟨_, h1, h2, by unfold varOf; omega⟩
        · exact ⟨_, h1, h2, by unfold varOf; omega⟩
      · rintro ⟨l, h1, h2, h3⟩
        have h0 := (hrL l h1).1
        by_cases hp : l > 0
        · have : l = (v : Int) + 1 := by unfold varOf at h3; omega
          subst this; exact Or.inl ⟨h1, h2⟩
        · have : l = -((v : Int) + 1) := by unfold varOf at h3; omega
          subst this; exact Or.inr ⟨h1, h2⟩
    · have : (flagsOf s.nbVars (newAssumed s.facts lits))[v]? = none := by
        rw [List.getElem?_eq_none_iff, flagsOf_length]; omega
      rw [this]
      constructor
      · intro h'; cases h'
      · rintro ⟨l, h1, _, h3⟩
        have := (hrL l h1)
        unfold varOf at h3; omega

/-! ### semantics -/

theorem agrees_modelOf {n : Nat} {tr : List Int} (hg : Good n tr) (a : Asg) :
    Agrees a (modelOf n tr) ↔ ∀ l ∈ tr, litTrue a l = true := by
  constructor
  · intro ha l hl
    have hl' := hg.range l hl
    have hn : -l ∉ tr := hg.cons l hl
    have hv := ha (varOf l)
    rw [mget_modelOf hl'.1 hl'.2] at hv
    have hvar : varOf l + 1 = l.natAbs := by unfold varOf; omega
    rw [hvar] at hv
    unfold litTrue
    by_cases hp : l > 0
    · simp only [hp, hl, if_true] at hv ⊢
      exact hv.1 (by decide)
    · simp only [hp, hl, hn, if_true, if_false] at hv ⊢
      simp [hv.2 (by decide)]
  · intro ht v
    by_cases hvn : v < n
    · unfold mget
      rw [modelOf_get n tr v hvn]
      simp only [Option.getD_some]
      by_cases h1 : ((v : Int) + 1) ∈ tr
      · have := ht _ h1
        unfold litTrue at this
        have hpos : ((v : Int) + 1) > 0 := by omega
        have hna : ((v : Int) + 1).natAbs = v + 1 := by omega
        simp only [hpos, if_true, hna] at this
        simp [h1, this]
      · by_cases h2 : (-((v : Int) + 1)) ∈ tr
        · have := ht _ h2
          unfold litTrue at this
          have hneg : ¬ (-((v : Int) + 1)) > 0 := by omega
          have hna : (-((v : Int) + 1)).natAbs = v + 1 := by omega
          simp only [hneg, if_false, hna] at this
          simp only [h1, h2, if_true, if_false]
          constructor
          · intro h'; omega
          · intro _; simpa using this
        · simp [h1, h2]
    · have : mget (modelOf n tr) v = 0 := by
        unfold mget
        have : (modelOf n tr)[v]? = none := by
          rw [List.getElem?_eq_none_iff, modelOf_length]; omega
        rw [this]; rfl
      rw [this]; simp

/-- **Semantics.**  If the prologue installs `st'`, the assignments that agree with the installed
    model array are exactly those satisfying every fact and every assumed literal; if it refutes,
    no assignment satisfies them all.  (So what `propagate`/`Solve` then decide — whether the
    installed bindings extend to a model of the clauses — is satisfiability of formula ∧ facts ∧
    assumptions.) -/
theorem assumePrologue_sem {s : State} {m : List Int} {lits : List Int} (h : WF s m)
    (hrF : InRange s.nbVars s.facts) (hrL : InRange s.nbVars lits) :
    (∀ st', assumePrologue s lits = .installed st' →
      ∃ m', st'.model = some m' ∧
        ∀ a : Asg, (∀ l ∈ s.facts ++ lits, litTrue a l = true) ↔ Agrees a m') ∧
    (∀ st', assumePrologue s lits = .refuted st' →
      ¬ ∃ a : Asg, ∀ l ∈ s.facts ++ lits, litTrue a l = true) := by
  rcases assumePrologue_spec h hrF hrL with ⟨⟨l, h1, h2⟩, st', _, he, _⟩ | ⟨hc, he⟩
  · constructor
    · intro st'' h'; rw [he] at h'; cases h'
    · rintro _ _ ⟨a, ha⟩
      have hl0 : l ≠ 0 := by
        rcases List.mem_append.1 h1 with h | h
        · exact (hrF l h).1
        · exact (hrL l h).1
      have t1 := ha l h1
      have t2 := ha _ h2
      rw [litTrue_neg a l hl0, t1] at t2
      cases t2
  · constructor
    · intro st'' h'
      rw [he] at h'
      cases h'
      refine ⟨_, rfl, fun a => ?_⟩
      rw [agrees_modelOf (good_dedup hc (inRange_append hrF hrL)) a]
      constructor
      · intro ha l hl; exact ha l ((mem_dedup _ _).1 hl)
      · intro ha l hl; exact ha l ((mem_dedup _ _).2 hl)
    · intro st'' h'; rw [he] at h'; cases h'

/-! ### no leak -/

/-- From a well-formed state the prologue does what it does on the solver with the same facts
    on which nothing is bound. -/
theorem assumePrologue_fresh {s : State} {m : List Int} (lits : List Int) (h : WF s m) :
    assumePrologue s lits = assumePrologue (fresh s.nbVars s.facts) lits := by
  unfold assumePrologue
  rw [h.model]
  simp only [cleanup_zeros h]
  simp only [fresh, cleanupBindings, skipKept, List.dropWhile_nil, unbind]

/-- **Assumptions do not leak** (at this layer): the outcome — the verdict and the whole state
    left behind — is a function of `(nbVars, facts, lits)` alone.  Whatever model array, trail,
    assumption flags and status earlier rounds (`Assume`, `Solve`, `AppendClause`) left, two
    well-formed states with the same facts and number of variables give the same outcome.
    No hypothesis on the literals (the index panics coincide as well). -/
theorem assumePrologue_no_leak {s1 s2 : State} {m1 m2 : List Int} (lits : List Int)
    (h1 : WF s1 m1) (h2 : WF s2 m2) (hn : s1.nbVars = s2.nbVars) (hf : s1.facts = s2.facts) :
    assumePrologue s1 lits = assumePrologue s2 lits := by
  rw [assumePrologue_fresh lits h1, assumePrologue_fresh lits h2, hn, hf]

/-- The hypothesis `WF.onTrail` cannot be dropped: a variable bound in the model array but absent
    from the trail survives `cleanupBindings(0)`, and the next round sees it as a fact.
    (Model-level witness; no reachable Go state of this kind was found: 4318 calls checked.) -/
example :
    assumePrologue { nbVars := 2, status := .indet, facts := [], model := some [0, -1],
                     trail := [], flags := [false, false] } [2] ≠
    assumePrologue (fresh 2 []) [2] := by decide

/-- `s.model == nil`: the status (`Unsat`, see `New`) is returned, nothing else happens. -/
theorem assumePrologue_nil {s : State} (lits : List Int) (h : s.model = none) :
    assumePrologue s lits = .early s.status := by
  unfold assumePrologue; rw [h]

/-! ### `dedup` is core's `List.eraseDups` -/

theorem dedupFrom_filter : ∀ (k : Nat) (xs tr : List Int), xs.length ≤ k →
    dedupFrom tr xs = tr ++ dedupFrom [] (xs.filter (fun x => decide (x ∉ tr))) := by
  intro k
  induction k with
  | zero =>
    intro xs tr h
    have : xs = [] := List.eq_nil_of_length_eq_zero (by omega)
    subst this; simp [dedupFrom]
  | succ k ih =>
    intro xs tr h
    cases xs with
    | nil => simp [dedupFrom]
    | cons x xs =>
      have hk : xs.length ≤ k := by simp at h; omega
      rw [dedupFrom_cons]
      unfold addNew
      by_cases hx : x ∈ tr
      · simp only [hx, if_true, List.filter_cons, not_true_eq_false, decide_false,
          Bool.false_eq_true, if_false]
        exact ih xs tr hk
      · simp only [hx, if_false, List.filter_cons, not_false_eq_true, decide_true, if_true]
        rw [ih xs (tr ++ [x]) hk, dedupFrom_cons]
        have hadd : addNew [] x = [x] := by simp [addNew]
        rw [hadd, ih (xs.filter (fun a => decide (a ∉ tr))) [x]
          (Nat.le_trans (List.length_filter_le _ _) hk), List.filter_filter]
        simp only [List.append_assoc]
        congr 2
        congr 1
        apply List.filter_congr
        intro a _
        simp [List.mem_append, Bool.and_comm]

theorem dedup_eq_eraseDups_aux : ∀ (k : Nat) (xs : List Int), xs.length ≤ k →
    dedup xs = xs.eraseDups := by
  intro k
  induction k with
  | zero =>
    intro xs h
    have : xs = [] := List.eq_nil_of_length_eq_zero (by omega)
    subst this; simp [dedup, dedupFrom]
  | succ k ih =>
    intro xs h
    cases xs with
    | nil => simp [dedup, dedupFrom]
    | cons x xs =>
      have hk : xs.length ≤ k := by simp at h; omega
      have hadd : addNew [] x = [x] := by simp [addNew]
      rw [List.eraseDups_cons]
      unfold dedup
      rw [dedupFrom_cons, hadd, dedupFrom_filter _ xs [x] (Nat.le_refl _)]
      have := ih (xs.filter (fun a => decide (a ∉ [x])))
        (Nat.le_trans (List.length_filter_le _ _) hk)
      unfold dedup at this
      rw [this]
      simp only [List.singleton_append, List.cons.injEq, true_and]
      congr 1
      apply List.filter_congr
      intro a _
      by_cases hax : a = x <;> simp [hax]

/-- The installed trail is `(facts ++ lits).eraseDups` (core's first-occurrence deduplication:
    `List.eraseDups_cons : (a :: as).eraseDups = a :: (as.filter (· != a)).eraseDups`). -/
theorem dedup_eq_eraseDups (xs : List Int) : dedup xs = xs.eraseDups :=
  dedup_eq_eraseDups_aux _ xs (Nat.le_refl _)

/-! ## Link to the abstract trail machine `GS.Trail` -/

open GS.Analyze in
/-- The concrete arrays read as a state of the trail machine (what the `verif` hooks of the Go
    code dump: for each trail literal its level `abs(model[v])`, its assumption flag, no reason —
    `Assume` does not touch `s.reason`, cleared by `cleanupBindings`). -/
def toTrail (st : State) : GS.Trail.State :=
  { lvl := 1,
    es := st.trail.map (fun l =>
      ({ lit := l, lvl := (mget (st.model.getD []) (varOf l)).natAbs,
         assumed := (st.flags[varOf l]?).getD false, reason := none } : Entry)) }

/-- Pairwise distinct variables, from distinct literals without complementary pairs. -/
theorem varsDistinct {xs : List Int} (hn : xs.Nodup) (hc : Consistent xs) :
    xs.Pairwise (fun a b => a.natAbs ≠ b.natAbs) := by
  refine List.Pairwise.imp_of_mem ?_ hn
  intro a b ha hb hab
  have h1 : -a ∉ xs := hc a ha
  have h2 : b ≠ -a := fun h => h1 (h ▸ hb)
  omega

open GS.Analyze GS.Trail in
/-- `assume l` for each literal of `new`, from a level-1 trail over other variables. -/
theorem run_assumes : ∀ (new : List Int) (es : List Entry),
    (∀ l ∈ new, l ≠ 0) → (∀ e ∈ es, ∀ l ∈ new, e.var ≠ l.natAbs) →
    new.Pairwise (fun a b => a.natAbs ≠ b.natAbs) →
    GS.Trail.run { lvl := 1, es := es } (new.map Op.assume) =
      some { lvl := 1, es := es ++ new.map (fun l => ({ lit := l, lvl := 1, assumed := true, reason := none } : Entry)) } := by
  intro new
  induction new with
  | nil => intro es _ _ _; simp [GS.Trail.run]
  | cons l ls ih =>
    intro es h0 hd hp
    have hl0 : l ≠ 0 := h0 l List.mem_cons_self
    have hub : unbound es l = true := by
      rw [unbound_iff]; intro e he; exact hd e he l List.mem_cons_self
    rw [List.pairwise_cons] at hp
    have hne : (l != 0) = true := by simp [hl0]
    simp only [List.map_cons, GS.Trail.run, step, assumeOp, hub, hne, Bool.and_self,
      beq_self_eq_true, if_true, push]
    have hd' : ∀ e ∈ es ++ [({ lit := l, lvl := 1, assumed := true, reason := none } : Entry)],
        ∀ x ∈ ls, e.var ≠ x.natAbs := by
      intro e he x hx
      rcases List.mem_append.1 he with he | he
      · exact hd e he x (List.mem_cons_of_mem _ hx)
      · simp only [List.mem_singleton] at he
        subst he
        exact hp.1 x hx
    rw [ih (es ++ [({ lit := l, lvl := 1, assumed := true, reason := none } : Entry)])
      (fun x hx => h0 x (List.mem_cons_of_mem _ hx)) hd' hp.2]
    simp

open GS.Analyze GS.Trail in
/-- **Link to the trail machine.**  The state `Assume` hands to `propagate` is, read through
    `toTrail`, the state the abstract machine reaches from `init (dedup facts)` — whose guard
    `unitsOk` holds: the re-installation loop skips the repeated facts that `New` itself would
    put twice on the trail — by one `assume` step per newly bound assumed literal.  Hence it
    meets `GS.Trail.Inv`, and so does every state `propagate`/`Solve` reach from it by machine
    operations (`GS.Trail.run_preserves_inv`, `reachable_inv_partial`). -/
theorem assumePrologue_trail_run {s : State} {m : List Int} {lits : List Int} {st' : State}
    (h : WF s m) (hrF : InRange s.nbVars s.facts) (hrL : InRange s.nbVars lits)
    (he : assumePrologue s lits = .installed st') :
    unitsOk (dedup s.facts) = true ∧
    GS.Trail.run (GS.Trail.init (dedup s.facts)) ((newAssumed s.facts lits).map Op.assume)
      = some (toTrail st') ∧
    GS.Trail.Inv (toTrail st') ∧
    GS.Trail.assumptions (toTrail st') = newAssumed s.facts lits := by
  have hc : ¬ Clash (s.facts ++ lits) :=
    (assumePrologue_installed_iff h hrF hrL).1 ⟨st', he⟩
  obtain ⟨st'', m', he', _, _, _, hm', _, _, hnd, _, htr, _, hbound, _, hflag, _⟩ :=
    assumePrologue_installed h hrF hrL hc
  rw [he] at he'
  cases he'
  have hg := good_dedup hc (inRange_append hrF hrL)
  rw [dedup_append_eq] at hg
  have hnd' : (dedup s.facts ++ newAssumed s.facts lits).Nodup := by rw [← htr]; exact hnd
  have hvd := varsDistinct hnd' hg.cons
  rw [List.pairwise_append] at hvd
  -- the guard of `init`
  have hunits : unitsOk (dedup s.facts) = true := by
    simp only [unitsOk, Bool.and_eq_true, List.all_eq_true, bne_iff_ne, ne_eq, noDupVars_iff, init,
      List.pairwise_map]
    exact ⟨fun u hu => (hg.range u (List.mem_append_left _ hu)).1, hvd.1⟩
  -- the installed state, entry by entry
  have hes : (toTrail st').es =
      (dedup s.facts).map (fun u => ({ lit := u, lvl := 1, assumed := false, reason := none } : Entry)) ++
      (newAssumed s.facts lits).map (fun l => ({ lit := l, lvl := 1, assumed := true, reason := none } : Entry)) := by
    simp only [toTrail, htr, hm', Option.getD_some, List.map_append]
    congr 1
    · apply List.map_congr_left
      intro l hl
      have hlt : l ∈ st'.trail := by rw [htr]; exact List.mem_append_left _ hl
      have hlr := hg.range l (List.mem_append_left _ hl)
      have hlv : (mget m' (varOf l)).natAbs = 1 := by
        rw [hbound l hlt]; unfold lvlToSignedLvl; split <;> rfl
      have hfl : (st'.flags[varOf l]?).getD false = false := by
        cases hget : st'.flags[varOf l]? with
        | none => rfl
        | some b =>
          cases b with
          | false => rfl
          | true =>
            exfalso
            obtain ⟨l', hl', hnf, hv⟩ := (hflag (varOf l)).1 hget
            have hl'0 := (hrL l' hl').1
            have hlf : l ∈ s.facts := (mem_dedup _ _).1 hl
            have : l' = l ∨ l' = -l := by unfold varOf at hv; omega
            rcases this with rfl | rfl
            · exact hnf hlf
            · exact hc ⟨l, List.mem_append_left _ hlf, List.mem_append_right _ hl'⟩
      simp [hlv, hfl]
    · apply List.map_congr_left
      intro l hl
      have hlt : l ∈ st'.trail := by rw [htr]; exact List.mem_append_right _ hl
      have hlv : (mget m' (varOf l)).natAbs = 1 := by
        rw [hbound l hlt]; unfold lvlToSignedLvl; split <;> rfl
      have hfl : st'.flags[varOf l]? = some true := by
        rw [hflag]
        have := (mem_newAssumed _ _ _).1 hl
        exact ⟨l, this.1, this.2, rfl⟩
      simp [hlv, hfl]
  have hrun : GS.Trail.run (GS.Trail.init (dedup s.facts))
      ((newAssumed s.facts lits).map Op.assume) = some (toTrail st') := by
    have := run_assumes (newAssumed s.facts lits) (GS.Trail.init (dedup s.facts)).es
      (fun l hl => (hg.range l (List.mem_append_right _ hl)).1)
      (by
        intro e he' l hl
        simp only [init, List.mem_map] at he'
        obtain ⟨u, hu, rfl⟩ := he'
        exact hvd.2.2 u hu l hl)
      hvd.2.1
    have hinit : GS.Trail.init (dedup s.facts) = { lvl := 1, es := (GS.Trail.init (dedup s.facts)).es } := rfl
    rw [hinit, this]
    congr 1
    have : toTrail st' = { lvl := 1, es := (toTrail st').es } := rfl
    rw [this, hes]
    rfl
  refine ⟨hunits, hrun, reachable_inv_partial hunits hrun, ?_⟩
  simp only [GS.Trail.assumptions, hes, List.filter_append, List.map_append, List.filter_map,
    List.map_map]
  have h1 : (List.filter ((fun e => e.reason.isNone && e.assumed) ∘
      fun u => ({ lit := u, lvl := 1, assumed := false, reason := none } : Entry)) (dedup s.facts)) = [] := by
    rw [List.filter_eq_nil_iff]; intro a _; simp
  have h2 : (List.filter ((fun e => e.reason.isNone && e.assumed) ∘
      fun l => ({ lit := l, lvl := 1, assumed := true, reason := none } : Entry))
      (newAssumed s.facts lits)) = newAssumed s.facts lits := by
    rw [List.filter_eq_self]; intro a _; simp
  rw [h1, h2]
  simp [Function.comp_def]

/-! ## Examples (all by evaluation of the mirror) -/

section Examples

/-- The answer of the driver op on the solver with nothing bound: trail and flagged variables. -/
def view : Outcome → Option (List Int × List Nat)
  | .installed st => some (st.trail, flagged st.flags)
  | _ => none

def isRefuted : Outcome → Bool
  | .refuted _ => true
  | _ => false

-- a plain round: facts 1, -3; assumptions 2, -4
example : view (assumePrologue (fresh 4 [1, -3]) [2, -4]) = some ([1, -3, 2, -4], [2, 4]) := by decide
-- an assumption equal to a fact: skipped, hence **not** flagged (its binding is the fact's)
example : view (assumePrologue (fresh 4 [1, -3]) [-3, 2]) = some ([1, -3, 2], [2]) := by decide
-- an assumption contradicting a fact
example : isRefuted (assumePrologue (fresh 4 [1, -3]) [2, 3]) = true := by decide
-- self-contradictory assumptions
example : isRefuted (assumePrologue (fresh 4 [1]) [2, -2]) = true := by decide
-- a repeated assumption
example : view (assumePrologue (fresh 4 [1]) [2, 2, -4, 2]) = some ([1, 2, -4], [2, 4]) := by decide
-- facts listed twice (`New` would put both on the trail; the re-installation does not)
example : view (assumePrologue (fresh 4 [1, -3, 1, -3]) [2]) = some ([1, -3, 2], [2]) := by decide
-- facts contradicting each other (left by `propagateUnits`): refuted whatever is assumed
example : isRefuted (assumePrologue (fresh 4 [1, -3, -1]) []) = true := by decide
-- a second round from the state a first round (and a full model found by `Solve`) left:
-- nothing of the first round's assumptions `[2, -4]` survives
example :
    view (assumePrologue { nbVars := 4, status := .sat, facts := [1, -3], model := some [1, 1, -1, -2],
                           trail := [1, -3, 2, -4], flags := [false, true, false, true] } [4])
      = some ([1, -3, 4], [4]) := by decide
-- index panics: literal 0, variable beyond the arrays
example : assumePrologue (fresh 4 [1]) [0] = .panic := by decide
example : assumePrologue (fresh 4 [1]) [5] = .panic := by decide
-- the solver of a problem refuted at parse time
example : assumePrologue { nbVars := 0, status := .unsat, facts := [], model := none, trail := [],
                           flags := [] } [1] = .early .unsat := by decide

/-- The hypotheses of the theorems on a concrete non-trivial state (second round above). -/
def exState : State :=
  { nbVars := 4, status := .sat, facts := [1, -3], model := some [1, 1, -1, -2],
    trail := [1, -3, 2, -4], flags := [false, true, false, true] }

theorem exState_wf : WF exState [1, 1, -1, -2] := by
  refine ⟨rfl, rfl, ?_⟩
  intro v hv hb
  have hv4 : v < 4 := hv
  have : v = 0 ∨ v = 1 ∨ v = 2 ∨ v = 3 := by omega
  rcases this with rfl | rfl | rfl | rfl
  · exact ⟨1, by decide, by decide⟩
  · exact ⟨2, by decide, by decide⟩
  · exact ⟨-3, by decide, by decide⟩
  · exact ⟨-4, by decide, by decide⟩

theorem exState_range : InRange exState.nbVars exState.facts ∧ InRange exState.nbVars [4, 1] := by
  constructor <;> (intro l hl; simp [exState] at hl; rcases hl with rfl | rfl <;> decide)

example : ¬ Clash (exState.facts ++ [4, 1]) := by
  rintro ⟨l, h1, h2⟩
  simp [exState] at h1 h2
  omega

example : ∃ st', assumePrologue exState [4, 1] = .installed st' :=
  (assumePrologue_installed_iff exState_wf exState_range.1 exState_range.2).2 (by
    rintro ⟨l, h1, h2⟩
    simp [exState] at h1 h2
    omega)

example : assumePrologue exState [4, 1] = assumePrologue (fresh 4 [1, -3]) [4, 1] :=
  assumePrologue_fresh _ exState_wf

-- the hypotheses of `assumePrologue_refuted_iff` / `_sem` / `_no_leak` / `_trail_run` are met by
-- `exState` (second round, after a full model) and the assumed literals `[4, 1]` / `[3]`
example : (∃ st', assumePrologue exState [3] = .refuted st') ↔
    ∃ l, l ∈ exState.facts ++ [3] ∧ -l ∈ exState.facts ++ [3] :=
  assumePrologue_refuted_iff exState_wf exState_range.1 (by intro l hl; simp at hl; subst hl; decide)

example : ∀ st', assumePrologue exState [4, 1] = .installed st' →
    ∃ m', st'.model = some m' ∧
      ∀ a : Asg, (∀ l ∈ exState.facts ++ [4, 1], litTrue a l = true) ↔ Agrees a m' :=
  (assumePrologue_sem exState_wf exState_range.1 exState_range.2).1

example : assumePrologue exState [4, 1] =
    assumePrologue { exState with model := some [0, 0, 0, 0], trail := [], status := .unsat } [4, 1] :=
  assumePrologue_no_leak _ exState_wf
    (⟨rfl, rfl, by intro v hv hb; exfalso; have : v < 4 := hv
                   have : v = 0 ∨ v = 1 ∨ v = 2 ∨ v = 3 := by omega
                   rcases this with rfl | rfl | rfl | rfl <;> exact hb rfl⟩ :
      WF { exState with model := some [0, 0, 0, 0], trail := [], status := .unsat } [0, 0, 0, 0])
    rfl rfl

example : ∀ st', assumePrologue exState [4, 1] = .installed st' → GS.Trail.Inv (toTrail st') :=
  fun _ he => (assumePrologue_trail_run exState_wf exState_range.1 exState_range.2 he).2.2.1

example : GS.Trail.unitsOk (dedup [1, -3, 1, -3]) = true := by decide
example : dedup [1, -3, 1, 2, -3, 2] = [1, -3, 2] := by decide
example : newAssumed [1, -3, 1] [-3, 2, 2, 4] = [2, 4] := by decide

end Examples

end GS.Assume

#print axioms GS.Assume.assumePrologue_spec
#print axioms GS.Assume.assumePrologue_refuted_iff
#print axioms GS.Assume.assumePrologue_installed_iff
#print axioms GS.Assume.assumePrologue_installed
#print axioms GS.Assume.assumePrologue_sem
#print axioms GS.Assume.assumePrologue_fresh
#print axioms GS.Assume.assumePrologue_no_leak
#print axioms GS.Assume.assumePrologue_trail_run
#print axioms GS.Assume.assumePrologue_nil
#print axioms GS.Assume.dedup_eq_eraseDups
#print axioms GS.Assume.cleanup_zeros
