import GS.Model.BfRender
import Std.Data.String.ToNat
/-!
# C17 — the formula text syntax is parsed with the documented precedence

Subject: `GS.BfParse.parse`, the line-by-line mirror of `bf/parser.go` (differentially tested
against the Go parser). Specification: `GS.BfRender.Syn` (syntax trees of the documented
grammar), `Syn.toSF` (documented reading: `;` and `&` give `And(f, g)`, `|` gives `Or(f, g)`,
`->` `Implies`, `=` `Eq`, `^` `Not`, `{..}` `Unique`, operators of equal priority nest to the
right), `Syn.render` (tokens with the minimal parentheses for the priorities
`;` < `=` < `->` < `|` < `&` < `^` < atom) and `renderP d` (any number of redundant parentheses
around any sub-term).

Main results (all for unbounded inputs):
* `parse_render`, `parse_renderP` : parsing the rendering of `s` gives exactly `s.toSF`.
* `parse_parens_irrelevant` : redundant parentheses do not change the result.
* `parse_no_fuel`, `parse_total` : the fuel of the mirror always suffices; every token list gives
  a formula or an error (the mirror has no third outcome: no panic).
* `parse_errors` : trailing tokens, unbalanced `(`, a missing right operand give `err`;
  a dangling `;` is accepted (recorded leniency of the Go code).
* `parse_leading_operator` : a text starting with a binary operator is an error.

Proof architecture: `CST` (concrete syntax with explicit parenthesis nodes, `CST.ok` = every
operand has a sufficient priority); `parse_cst` is the generalised statement "at every grammar
level `d ≤ c.prio`, for every continuation `rest` whose first token cannot continue a term at
level `d`, with fuel `≥ 8 * length - d`, `parseAt d fuel (c.render ++ rest) = ok c.toSF rest`";
`decorate d s` inserts the needed and the redundant parentheses.
-/
namespace GS.BfRender
open GS GS.BfParse


def parseAt : Nat → Nat → List String → Res SF
  | 0 => parseClause | 1 => clauseRest | 2 => parseEquiv | 3 => parseImplies
  | 4 => parseOr | 5 => parseAnd | 6 => parseNot | _ => parseBasic

def stopTok (d : Nat) (h : String) : Prop :=
  (d ≤ 5 → h ≠ "&") ∧ (d ≤ 4 → h ≠ "BAR") ∧ (d ≤ 3 → h ≠ "-") ∧ (d ≤ 2 → h ≠ "=") ∧ (d ≤ 1 → h ≠ ";")

def stop (d : Nat) : List String → Prop
  | [] => True
  | h :: _ => stopTok d h

theorem stop_mono {d e : Nat} {rest} (h : d ≤ e) (hs : stop d rest) : stop e rest := by
  cases rest with
  | nil => trivial
  | cons a r =>
    simp only [stop, stopTok] at *
    refine ⟨fun _ => hs.1 (by omega), fun _ => hs.2.1 (by omega), fun _ => hs.2.2.1 (by omega),
      fun _ => hs.2.2.2.1 (by omega), fun _ => hs.2.2.2.2 (by omega)⟩

theorem step_ok {d fuel h tl f rest} (hd : d ≤ 6)
    (H : parseAt (d+1) fuel (h :: tl) = .ok f rest) (hop : isOperator h = false)
    (hc : h ≠ "^" ∨ d + 1 ≤ 6) (hs : stop d rest) :
    parseAt d (fuel+1) (h :: tl) = .ok f rest := by
  rcases d with _|_|_|_|_|_|_|d
  · simpa [parseAt, parseClause, hop] using H
  · simp only [parseAt] at H ⊢
    cases rest with
    | nil => simp [clauseRest, H]
    | cons a r =>
      have : a ≠ ";" := (show stopTok _ a from hs).2.2.2.2 (by omega)
      simp [clauseRest, H]
      split <;> simp_all
  · simp only [parseAt] at H ⊢
    cases rest with
    | nil => simp [parseEquiv, H, hop]
    | cons a r =>
      have : a ≠ "=" := (show stopTok _ a from hs).2.2.2.1 (by omega)
      simp [parseEquiv, H, hop]
      split <;> simp_all
  · simp only [parseAt] at H ⊢
    cases rest with
    | nil => simp [parseImplies, H]
    | cons a r =>
      have : a ≠ "-" := (show stopTok _ a from hs).2.2.1 (by omega)
      simp [parseImplies, H]
      split <;> simp_all
  · simp only [parseAt] at H ⊢
    cases rest with
    | nil => simp [parseOr, H]
    | cons a r =>
      have : a ≠ "BAR" := (show stopTok _ a from hs).2.1 (by omega)
      simp [parseOr, H]
      split <;> simp_all
  · simp only [parseAt] at H ⊢
    cases rest with
    | nil => simp [parseAnd, H]
    | cons a r =>
      have : a ≠ "&" := (show stopTok _ a from hs).1 (by omega)
      simp [parseAnd, H]
      split <;> simp_all
  · simp only [parseAt] at H ⊢
    have : h ≠ "^" := by rcases hc with h | h; exact h; omega
    simp [parseNot, hop, this, H]
  · omega

theorem descend {D h tl f rest} (k : Nat) : ∀ d fuel, d + k = D → D ≤ 7 →
    parseAt D fuel (h :: tl) = .ok f rest → isOperator h = false → (h ≠ "^" ∨ D ≤ 6) →
    stop d rest → parseAt d (fuel + k) (h :: tl) = .ok f rest := by
  induction k with
  | zero => intro d fuel hd _ H _ _ _; simp at hd; subst hd; simpa using H
  | succ k ih =>
    intro d fuel hd hD H hop hc hs
    have h1 := ih (d+1) fuel (by omega) hD H hop hc (stop_mono (by omega) hs)
    have := step_ok (d := d) (by omega) h1 hop (by rcases hc with h | h; exact .inl h; exact .inr (by omega)) hs
    simpa [Nat.add_assoc] using this

theorem bin_ok (op : Op) {fuel h tl f B g rest}
    (H1 : parseAt (op.prio+1) fuel (h :: tl) = .ok f (op.toks ++ B)) (hB : B ≠ [])
    (hop : isOperator h = false)
    (H2 : parseAt (if op = .seq then 0 else op.prio) fuel B = .ok g rest) :
    parseAt op.prio (fuel+1) (h :: tl) = .ok (op.mk f g) rest := by
  cases B with
  | nil => exact absurd rfl hB
  | cons b B =>
  cases op <;> simp [parseAt, Op.prio, Op.toks, Op.mk] at H1 H2 ⊢
  · simp [clauseRest, H1, H2]
  · simp [parseEquiv, hop, H1, H2]
  · simp [parseImplies, H1, H2]
  · simp [parseOr, H1, H2]
  · simp [parseAnd, H1, H2]

/-! token facts -/
theorem plainTok_facts {t : String} (h : plainTok t = true) :
    isOperator t = false ∧ t ≠ "^" ∧ t ≠ "(" ∧ t ≠ ")" ∧ t ≠ "{" ∧ t ≠ "}" ∧ t ≠ "," ∧ t ≠ "-" ∧ t ≠ ">"
      ∧ lookupIsIdent t = true := by
  simp [plainTok, isPunct] at h
  simp [isOperator]
  simp_all

theorem Op.toks_length_pos (op : Op) : 1 ≤ op.toks.length := by cases op <;> simp [Op.toks]

theorem commaSep_length (ns : List String) : ns.length ≤ (commaSep ns).length := by
  induction ns with
  | nil => simp [commaSep]
  | cons a ns ih => cases ns with
    | nil => simp [commaSep]
    | cons b ns => simp [commaSep] at ih ⊢; omega

theorem braceLoop_ok (rest : List String) : ∀ (ns : List String), ns ≠ [] → ns.all plainTok = true →
    ∀ acc fuel, ns.length ≤ fuel →
    braceLoop fuel (commaSep ns ++ "}" :: rest) acc = .ok (acc ++ ns.map nameId) rest := by
  intro ns
  induction ns with
  | nil => intro h; exact absurd rfl h
  | cons a ns ih =>
    intro _ hall acc fuel hf
    simp at hall
    have ha := (plainTok_facts hall.1).2.2.2.2.2.2.2.2.2
    cases fuel with
    | zero => simp at hf
    | succ fuel =>
    cases ns with
    | nil => simp [commaSep, braceLoop, ha]
    | cons b ns =>
      have := ih (by simp) (by simpa using hall.2) (acc ++ [nameId a]) fuel (by simpa using hf)
      simp [commaSep, braceLoop, ha] at this ⊢
      exact this

theorem render_length_pos (c : CST) : 1 ≤ c.render.length := by
  cases c <;> simp [CST.render]
  case bin op l r => have := op.toks_length_pos; omega

theorem render_head : ∀ (c : CST), c.ok = true →
    ∃ h tl, c.render = h :: tl ∧ isOperator h = false ∧ (h ≠ "^" ∨ c.prio ≤ 6)
  | .var t, hok => by
    have := plainTok_facts (by simpa [CST.ok] using hok : plainTok t = true)
    exact ⟨t, [], rfl, this.1, .inl this.2.1⟩
  | .uniq ns, _ => ⟨"{", _, rfl, by decide, .inl (by decide)⟩
  | .par c, _ => ⟨"(", _, rfl, by decide, .inl (by decide)⟩
  | .not c, _ => ⟨"^", _, rfl, by decide, .inr (by simp [CST.prio])⟩
  | .bin op l r, hok => by
    simp [CST.ok] at hok
    obtain ⟨h, tl, e, h1, _⟩ := render_head l hok.1.2
    refine ⟨h, tl ++ (op.toks ++ r.render), by simp [CST.render, e], h1, .inr ?_⟩
    cases op <;> simp [CST.prio, Op.prio]

/-- from the native level of `c` down to any lower level -/
theorem lift_native (c : CST) (hok : c.ok = true) (hp : c.prio ≤ 7)
    (N : ∀ rest, stop c.prio rest → ∀ fuel, 8 * c.render.length ≤ fuel + c.prio →
      parseAt c.prio fuel (c.render ++ rest) = .ok c.toSF rest) :
    ∀ d, d ≤ c.prio → ∀ rest, stop d rest → ∀ fuel, 8 * c.render.length ≤ fuel + d →
      parseAt d fuel (c.render ++ rest) = .ok c.toSF rest := by
  intro d hd rest hs fuel hf
  obtain ⟨h, tl, e, hop, hc⟩ := render_head c hok
  have hl := render_length_pos c
  have hN := N rest (stop_mono hd hs) (fuel - (c.prio - d)) (by omega)
  rw [e] at hN ⊢
  have := descend (c.prio - d) d (fuel - (c.prio - d)) (by omega) hp hN hop hc hs
  rwa [show fuel - (c.prio - d) + (c.prio - d) = fuel by omega] at this

theorem CST.prio_le (c : CST) : c.prio ≤ 7 := by
  cases c <;> simp [CST.prio]
  case bin op l r => cases op <;> simp [Op.prio]

theorem parse_cst : ∀ (c : CST), c.ok = true →
    ∀ d, d ≤ c.prio → ∀ rest, stop d rest → ∀ fuel, 8 * c.render.length ≤ fuel + d →
      parseAt d fuel (c.render ++ rest) = .ok c.toSF rest
  | .var t, hok => by
    apply lift_native _ hok (CST.prio_le _)
    intro rest _ fuel hf
    have := plainTok_facts (by simpa [CST.ok] using hok : plainTok t = true)
    simp [CST.render, CST.prio] at hf
    obtain ⟨fuel, rfl⟩ : ∃ k, fuel = k + 1 := ⟨fuel - 1, by omega⟩
    simp [CST.prio, parseAt, CST.render, parseBasic, CST.toSF, this]
  | .uniq ns, hok => by
    apply lift_native _ hok (CST.prio_le _)
    intro rest _ fuel hf
    simp [CST.ok] at hok
    simp [CST.render, CST.prio] at hf
    have := commaSep_length ns
    obtain ⟨fuel, rfl⟩ : ∃ k, fuel = k + 1 := ⟨fuel - 1, by omega⟩
    have hb := braceLoop_ok rest ns hok.1 (by simpa using hok.2) [] fuel (by omega)
    simp [CST.prio, parseAt, CST.render, parseBasic, CST.toSF, isOperator]
    simp at hb
    simp [hb]
  | .par c, hok => by
    apply lift_native _ hok (CST.prio_le _)
    intro rest _ fuel hf
    simp [CST.render, CST.prio] at hf
    obtain ⟨fuel, rfl⟩ : ∃ k, fuel = k + 1 := ⟨fuel - 1, by omega⟩
    have ih := parse_cst c (by simpa [CST.ok] using hok) 0 (Nat.zero_le _) (")" :: rest)
      (by simp [stop, stopTok]) fuel (by omega)
    simp only [parseAt] at ih
    simp [CST.prio, parseAt, CST.render, parseBasic, CST.toSF, isOperator, ih]
  | .not c, hok => by
    apply lift_native _ hok (CST.prio_le _)
    intro rest _ fuel hf
    simp [CST.ok] at hok
    simp [CST.render, CST.prio] at hf
    have hl := render_length_pos c
    obtain ⟨fuel, rfl⟩ : ∃ k, fuel = k + 1 := ⟨fuel - 1, by omega⟩
    have ih := parse_cst c hok.2 6 hok.1 rest (by cases rest <;> simp [stop, stopTok]) fuel (by omega)
    simp only [parseAt] at ih
    obtain ⟨h, tl, e, _⟩ := render_head c hok.2
    simp [CST.prio, parseAt, CST.render, parseNot, CST.toSF, isOperator, e]
    simp [e] at ih
    simp [ih]
  | .bin op l r, hok => by
    apply lift_native _ hok (CST.prio_le _)
    intro rest hs fuel hf
    simp [CST.ok] at hok
    obtain ⟨⟨⟨hl, hr⟩, okl⟩, okr⟩ := hok
    simp [CST.render, CST.prio] at hf hs
    have hll := render_length_pos l
    have hrl := render_length_pos r
    have hol := op.toks_length_pos
    have hop5 : op.prio ≤ 5 := by cases op <;> simp [Op.prio]
    obtain ⟨fuel, rfl⟩ : ∃ k, fuel = k + 1 := ⟨fuel - 1, by omega⟩
    have ihl := parse_cst l okl (op.prio + 1) hl (op.toks ++ (r.render ++ rest))
      (by cases op <;> simp [Op.toks, stop, stopTok, Op.prio]) fuel (by omega)
    have ihr := parse_cst r okr (if op = .seq then 0 else op.prio)
      (by split <;> omega) rest
      (by
        split
        · next h => subst h; cases rest <;> simp_all [stop, stopTok, Op.prio]
        · exact hs)
      fuel (by split <;> (try subst op) <;> simp [Op.prio] at * <;> omega)
    obtain ⟨h, tl, e, hop, _⟩ := render_head l okl
    obtain ⟨h', tl', e'⟩ : ∃ h' tl', r.render = h' :: tl' := by
      cases hh : r.render with
      | nil => simp [hh] at hrl
      | cons a b => exact ⟨a, b, rfl⟩
    simp only [CST.render, CST.prio, CST.toSF, List.append_assoc]
    rw [e] at ihl ⊢
    exact bin_ok op (by simpa using ihl) (by simp [e']) hop ihr

/-! ## from abstract syntax to concrete syntax -/
theorem wrapN_ok (n : Nat) (c : CST) : (wrapN n c).ok = c.ok := by
  induction n with
  | zero => rfl
  | succ n ih => simpa [wrapN, CST.ok] using ih

theorem wrapN_toSF (n : Nat) (c : CST) : (wrapN n c).toSF = c.toSF := by
  induction n with
  | zero => rfl
  | succ n ih => simpa [wrapN, CST.toSF] using ih

theorem wrapN_prio (n : Nat) (c : CST) : c.prio ≤ (wrapN n c).prio := by
  cases n with
  | zero => exact Nat.le_refl _
  | succ n => simpa [wrapN, CST.prio] using c.prio_le

theorem parIf_ok (b : Bool) (c : CST) : (parIf b c).ok = c.ok := by
  cases b <;> simp [parIf, CST.ok]

theorem parIf_toSF (b : Bool) (c : CST) : (parIf b c).toSF = c.toSF := by
  cases b <;> simp [parIf, CST.toSF]

theorem parIf_render (b : Bool) (c : CST) : (parIf b c).render = paren b c.render := by
  cases b <;> simp [parIf, paren, CST.render]

theorem decorate_toSF : ∀ (s : Syn) (d : Deco), (decorate d s).toSF = s.toSF
  | .var t, d => by simp [decorate, wrapN_toSF, CST.toSF, Syn.toSF]
  | .uniq ns, d => by simp [decorate, wrapN_toSF, CST.toSF, Syn.toSF]
  | .not s, d => by simp [decorate, wrapN_toSF, CST.toSF, Syn.toSF, parIf_toSF, decorate_toSF s]
  | .bin op l r, d => by
    simp [decorate, wrapN_toSF, CST.toSF, Syn.toSF, parIf_toSF, decorate_toSF l, decorate_toSF r]

theorem decorate_prio : ∀ (s : Syn) (d : Deco), s.prio ≤ (decorate d s).prio
  | .var t, d => wrapN_prio (d []) (.var t)
  | .uniq ns, d => wrapN_prio (d []) (.uniq ns)
  | .not s, d => by
    simp only [decorate]
    exact Nat.le_trans (by simp [Syn.prio, CST.prio]) (wrapN_prio _ _)
  | .bin op l r, d => by
    simp only [decorate]
    exact Nat.le_trans (by simp [Syn.prio, CST.prio]) (wrapN_prio _ _)

/-- an operand of priority `p` needing priority `> q` (strict) or `≥ q`, after `parIf` -/
theorem parIf_prio_lt {q : Nat} (hq : q < 7) (s : Syn) (d : Deco) :
    q < (parIf (decide (s.prio ≤ q)) (decorate d s)).prio := by
  have := decorate_prio s d
  by_cases h : s.prio ≤ q
  · simpa [parIf, h, CST.prio] using hq
  · simp only [parIf, h, decide_false]; exact (by omega : q < (decorate d s).prio)

theorem parIf_prio_le {q : Nat} (hq : q ≤ 7) (s : Syn) (d : Deco) :
    q ≤ (parIf (decide (s.prio < q)) (decorate d s)).prio := by
  have := decorate_prio s d
  by_cases h : s.prio < q
  · simpa [parIf, h, CST.prio] using hq
  · simp only [parIf, h, decide_false]; exact (by omega : q ≤ (decorate d s).prio)

theorem decorate_ok : ∀ (s : Syn) (d : Deco), s.wf = true → (decorate d s).ok = true
  | .var t, d, h => by simpa [decorate, wrapN_ok, CST.ok, Syn.wf] using h
  | .uniq ns, d, h => by simpa [decorate, wrapN_ok, CST.ok, Syn.wf] using h
  | .not s, d, h => by
    have ih := decorate_ok s (fun p => d (false :: p)) (by simpa [Syn.wf] using h)
    have := parIf_prio_le (q := 6) (by omega) s (fun p => d (false :: p))
    simp [decorate, wrapN_ok, CST.ok, parIf_ok, ih, this]
  | .bin op l r, d, h => by
    simp [Syn.wf] at h
    have ihl := decorate_ok l (fun p => d (false :: p)) h.1
    have ihr := decorate_ok r (fun p => d (true :: p)) h.2
    have hop5 : op.prio ≤ 5 := by cases op <;> simp [Op.prio]
    have h1 := parIf_prio_lt (q := op.prio) (by omega) l (fun p => d (false :: p))
    have h2 := parIf_prio_le (q := op.prio) (by omega) r (fun p => d (true :: p))
    simp [decorate, wrapN_ok, CST.ok, parIf_ok, ihl, ihr, h1, h2]

theorem render_eq_renderP : ∀ (s : Syn), s.render = renderP (fun _ => 0) s
  | .var t => rfl
  | .uniq ns => rfl
  | .not s => by
    have := render_eq_renderP s
    simp [renderP] at this
    simp [renderP, decorate, wrapN, CST.render, Syn.render, parIf_render, this]
  | .bin op l r => by
    have h1 := render_eq_renderP l
    have h2 := render_eq_renderP r
    simp [renderP] at h1 h2
    simp [renderP, decorate, wrapN, CST.render, Syn.render, parIf_render, h1, h2]

theorem parse_cst_top (c : CST) (hok : c.ok = true) : parse c.render = .ok c.toSF [] := by
  have := parse_cst c hok 0 (Nat.zero_le _) [] trivial (8 * (c.render.length + 1)) (by omega)
  simp [parseAt] at this
  simp [parse, this]

/-- MAIN THEOREM (redundant parentheses allowed) -/
theorem parse_renderP (d : Deco) (s : Syn) (h : s.wf = true) :
    parse (renderP d s) = .ok s.toSF [] := by
  rw [renderP, parse_cst_top _ (decorate_ok s d h), decorate_toSF]

/-- MAIN THEOREM (minimal parentheses) -/
theorem parse_render (s : Syn) (h : s.wf = true) : parse s.render = .ok s.toSF [] := by
  rw [render_eq_renderP]; exact parse_renderP _ s h


/-! ## errors -/
theorem step_err {d fuel h tl} (hd : d ≤ 6)
    (H : parseAt (d+1) fuel (h :: tl) = .err) (hop : isOperator h = false)
    (hc : h ≠ "^" ∨ d + 1 ≤ 6) :
    parseAt d (fuel+1) (h :: tl) = .err := by
  rcases d with _|_|_|_|_|_|_|d
  · simpa [parseAt, parseClause, hop] using H
  · simp only [parseAt] at H ⊢; simp [clauseRest, H]
  · simp only [parseAt] at H ⊢; simp [parseEquiv, H, hop]
  · simp only [parseAt] at H ⊢; simp [parseImplies, H]
  · simp only [parseAt] at H ⊢; simp [parseOr, H]
  · simp only [parseAt] at H ⊢; simp [parseAnd, H]
  · simp only [parseAt] at H ⊢
    have : h ≠ "^" := by rcases hc with h | h; exact h; omega
    simp [parseNot, hop, this, H]
  · omega

theorem ascend_err {D h tl} (k : Nat) : ∀ d fuel, d + k = D → D ≤ 7 →
    parseAt D fuel (h :: tl) = .err → isOperator h = false → (h ≠ "^" ∨ D ≤ 6) →
    parseAt d (fuel + k) (h :: tl) = .err := by
  induction k with
  | zero => intro d fuel hd _ H _ _; simp at hd; subst hd; simpa using H
  | succ k ih =>
    intro d fuel hd hD H hop hc
    have h1 := ih (d+1) fuel (by omega) hD H hop hc
    have := step_err (d := d) (by omega) h1 hop (by rcases hc with h | h; exact .inl h; exact .inr (by omega))
    simpa [Nat.add_assoc] using this

/-- (a) anything left after a complete formula that cannot continue it is an error -/
theorem parse_cst_trailing (c : CST) (hok : c.ok = true) (rest : List String) (hne : rest ≠ [])
    (hs : stop 0 rest) : parse (c.render ++ rest) = .err := by
  have := parse_cst c hok 0 (Nat.zero_le _) rest hs (8 * ((c.render ++ rest).length + 1))
    (by simp; omega)
  simp only [parseAt] at this
  cases rest with
  | nil => exact absurd rfl hne
  | cons a r => simp only [parse, this]

/-- (b) unbalanced opening parentheses -/
theorem parse_cst_unbalanced (c : CST) (hok : c.ok = true) (n : Nat) :
    ∀ fuel, 8 * (c.render.length + (n+1)) ≤ fuel →
      parseAt 0 fuel (List.replicate (n+1) "(" ++ c.render) = .err := by
  induction n with
  | zero =>
    intro fuel hf
    have h0 := parse_cst c hok 0 (Nat.zero_le _) [] trivial (fuel - 8) (by omega)
    simp only [parseAt, List.append_nil] at h0
    have h7 : parseAt 7 (fuel - 8 + 1) ("(" :: c.render) = .err := by
      simp [parseAt, parseBasic, isOperator, h0]
    have := ascend_err 7 0 _ (by omega) (by omega) h7 (by decide) (.inl (by decide))
    rw [show fuel - 8 + 1 + 7 = fuel by omega] at this
    simpa using this
  | succ n ih =>
    intro fuel hf
    have h0 := ih (fuel - 8) (by omega)
    simp only [parseAt] at h0
    have h7 : parseAt 7 (fuel - 8 + 1) ("(" :: (List.replicate (n+1) "(" ++ c.render)) = .err := by
      simp [parseAt, parseBasic, isOperator, h0]
    have := ascend_err 7 0 _ (by omega) (by omega) h7 (by decide) (.inl (by decide))
    rw [show fuel - 8 + 1 + 7 = fuel by omega] at this
    simpa [List.replicate_succ] using this

theorem parse_cst_unbalanced_top (c : CST) (hok : c.ok = true) (n : Nat) :
    parse (List.replicate (n+1) "(" ++ c.render) = .err := by
  have := parse_cst_unbalanced c hok n (8 * ((List.replicate (n+1) "(" ++ c.render).length + 1))
    (by simp; omega)
  simp only [parseAt] at this
  simp only [parse, this]

/-! (c) missing right operand -/
theorem op_missing (op : Op) (hseq : op ≠ .seq) {fuel h tl f}
    (H : parseAt (op.prio+1) fuel (h :: tl) = .ok f op.toks) (hop : isOperator h = false) :
    parseAt op.prio (fuel+1) (h :: tl) = .err := by
  cases op <;> simp [parseAt, Op.prio, Op.toks] at H hseq ⊢
  · simp [parseEquiv, hop, H]
  · simp [parseImplies, H]
  · simp [parseOr, H]
  · simp [parseAnd, H]

theorem bin_err (op : Op) {fuel h tl f B}
    (H1 : parseAt (op.prio+1) fuel (h :: tl) = .ok f (op.toks ++ B)) (hB : B ≠ [])
    (hop : isOperator h = false)
    (H2 : parseAt (if op = .seq then 0 else op.prio) fuel B = .err) :
    parseAt op.prio (fuel+1) (h :: tl) = .err := by
  cases B with
  | nil => exact absurd rfl hB
  | cons b B =>
  cases op <;> simp [parseAt, Op.prio, Op.toks] at H1 H2 ⊢
  · simp [clauseRest, H1, H2]
  · simp [parseEquiv, hop, H1, H2]
  · simp [parseImplies, H1, H2]
  · simp [parseOr, H1, H2]
  · simp [parseAnd, H1, H2]

theorem Op.prio_le (op : Op) : op.prio ≤ 5 := by cases op <;> simp [Op.prio]
theorem Op.prio_pos (op : Op) : 1 ≤ op.prio := by cases op <;> simp [Op.prio]
theorem Op.toks_length_le (op : Op) : op.toks.length ≤ 2 := by cases op <;> simp [Op.toks]

theorem stop_toks (op : Op) (rest : List String) : stop (op.prio + 1) (op.toks ++ rest) := by
  cases op <;> simp [Op.toks, stop, stopTok, Op.prio]

/-- the operand has a higher priority than the dangling operator -/
theorem missing_A (c : CST) (hok : c.ok = true) (op : Op) (hseq : op ≠ .seq) (hp : op.prio < c.prio) :
    ∀ d, d ≤ op.prio → ∀ fuel, 8 * (c.render.length + 2) ≤ fuel + d →
      parseAt d fuel (c.render ++ op.toks) = .err := by
  intro d hd fuel hf
  have hl := render_length_pos c
  have hp5 := op.prio_le
  obtain ⟨h, tl, e, hop, hc⟩ := render_head c hok
  have h1 := parse_cst c hok (op.prio + 1) hp op.toks (by simpa using stop_toks op [])
    (fuel - (op.prio - d) - 1) (by omega)
  rw [e] at h1 ⊢
  have h2 := op_missing op hseq h1 hop
  have := ascend_err (op.prio - d) d _ (by omega) (by omega) h2 hop (.inr (by omega))
  rwa [show fuel - (op.prio - d) - 1 + 1 + (op.prio - d) = fuel by omega] at this

theorem parse_cst_missing (op : Op) (hseq : op ≠ .seq) : ∀ (c : CST), c.ok = true →
    ∀ d, d ≤ c.prio → d ≤ op.prio → ∀ fuel, 8 * (c.render.length + 2) ≤ fuel + d →
      parseAt d fuel (c.render ++ op.toks) = .err
  | .var t, hok => fun d _ => missing_A _ hok op hseq (by have := op.prio_le; simp [CST.prio]; omega) d
  | .uniq ns, hok => fun d _ => missing_A _ hok op hseq (by have := op.prio_le; simp [CST.prio]; omega) d
  | .par c, hok => fun d _ => missing_A _ hok op hseq (by have := op.prio_le; simp [CST.prio]; omega) d
  | .not c, hok => fun d _ => missing_A _ hok op hseq (by have := op.prio_le; simp [CST.prio]; omega) d
  | .bin op' l r, hok => by
    intro d hd1 hd2 fuel hf
    by_cases hp : op.prio < op'.prio
    · exact missing_A _ hok op hseq (by simpa [CST.prio] using hp) d hd2 fuel hf
    · have hok' := hok
      simp [CST.ok] at hok
      obtain ⟨⟨⟨hl, hr⟩, okl⟩, okr⟩ := hok
      simp only [CST.prio] at hd1
      simp only [CST.render, List.length_append] at hf
      have hll := render_length_pos l
      have hrl := render_length_pos r
      have hol := op'.toks_length_pos
      have hp5 := op'.prio_le
      have hp1 := op'.prio_pos
      obtain ⟨h, tl, e, hop, _⟩ := render_head l okl
      obtain ⟨h', tl', e'⟩ : ∃ h' tl', r.render = h' :: tl' := by
        cases hh : r.render with
        | nil => simp [hh] at hrl
        | cons a b => exact ⟨a, b, rfl⟩
      -- fuel at the native level of the node
      have ihl := parse_cst l okl (op'.prio + 1) hl (op'.toks ++ (r.render ++ op.toks))
        (stop_toks op' _) (fuel - (op'.prio - d) - 1) (by omega)
      have ihr := parse_cst_missing op hseq r okr (if op' = .seq then 0 else op'.prio)
        (by split <;> omega) (by split <;> omega) (fuel - (op'.prio - d) - 1)
        (by split <;> omega)
      rw [e] at ihl
      have hb := bin_err op' (B := r.render ++ op.toks) ihl (by simp [e']) hop ihr
      have := ascend_err (op'.prio - d) d _ (by omega) (by omega) hb hop (.inr (by omega))
      rw [show fuel - (op'.prio - d) - 1 + 1 + (op'.prio - d) = fuel by omega] at this
      simpa [CST.render, e] using this

theorem parse_cst_missing_top (c : CST) (hok : c.ok = true) (op : Op) (hseq : op ≠ .seq) :
    parse (c.render ++ op.toks) = .err := by
  have := parse_cst_missing op hseq c hok 0 (Nat.zero_le _) (Nat.zero_le _)
    (8 * ((c.render ++ op.toks).length + 1)) (by have := op.toks_length_pos; simp; omega)
  simp only [parseAt] at this
  simp only [parse, this]

/-- a dangling `;` is accepted -/
theorem seq_trailing {fuel X f} (H : parseEquiv fuel X = .ok f [";"]) :
    clauseRest (fuel+1) X = .ok f [] := by
  simp [clauseRest, H]

theorem parse_cst_semicolon : ∀ (c : CST), c.ok = true →
    ∀ fuel, 8 * (c.render.length + 1) ≤ fuel →
      parseAt 0 fuel (c.render ++ [";"]) = .ok c.toSF []
  | c, hok => by
    intro fuel hf
    have hl := render_length_pos c
    obtain ⟨h, tl, e, hop, hc⟩ := render_head c hok
    -- it suffices to show the result for `clauseRest`
    suffices h1 : parseAt 1 (fuel - 1) (c.render ++ [";"]) = .ok c.toSF [] by
      rw [e] at h1 ⊢
      have := step_ok (d := 0) (by omega) h1 hop (.inr (by omega)) trivial
      rwa [show fuel - 1 + 1 = fuel by omega] at this
    by_cases hp : 2 ≤ c.prio
    · have h2 := parse_cst c hok 2 hp [";"] (by simp [stop, stopTok]) (fuel - 2) (by omega)
      have := seq_trailing h2
      rwa [show fuel - 2 + 1 = fuel - 1 by omega] at this
    · match c, hok, hp with
      | .var t, _, hp => simp [CST.prio] at hp
      | .uniq ns, _, hp => simp [CST.prio] at hp
      | .par c, _, hp => simp [CST.prio] at hp
      | .not c, _, hp => simp [CST.prio] at hp
      | .bin op l r, hok, hp =>
        have hs : op = .seq := by cases op <;> simp [CST.prio, Op.prio] at hp ⊢
        subst hs
        simp [CST.ok] at hok
        obtain ⟨⟨⟨hl', hr⟩, okl⟩, okr⟩ := hok
        simp only [CST.render, List.length_append, Op.toks, List.length_cons, List.length_nil] at hf
        have hll := render_length_pos l
        obtain ⟨h1, tl1, e1, hop1, _⟩ := render_head l okl
        have ihl := parse_cst l okl 2 hl' (Op.seq.toks ++ (r.render ++ [";"]))
          (stop_toks .seq _) (fuel - 2) (by omega)
        have ihr := parse_cst_semicolon r okr (fuel - 2) (by omega)
        rw [e1] at ihl
        have hb := bin_ok .seq (B := r.render ++ [";"]) ihl (by simp) hop1 (by simpa using ihr)
        rw [show fuel - 2 + 1 = fuel - 1 by omega] at hb
        simpa [CST.render, e1, CST.toSF, Op.prio] using hb
termination_by c => sizeOf c

theorem parse_cst_semicolon_top (c : CST) (hok : c.ok = true) :
    parse (c.render ++ [";"]) = .ok c.toSF [] := by
  have := parse_cst_semicolon c hok (8 * ((c.render ++ [";"]).length + 1)) (by simp; omega)
  simp only [parseAt] at this
  simp only [parse, this]

/-! ## the fuel of `parse` always suffices -/

theorem braceLoop_len : ∀ fuel toks acc ns rest, braceLoop fuel toks acc = .ok ns rest →
    rest.length + 2 ≤ toks.length := by
  intro fuel
  induction fuel with
  | zero => intro toks acc ns rest H; simp [braceLoop] at H
  | succ fuel ih =>
    intro toks acc ns rest H
    simp only [braceLoop] at H
    grind

/-- "the call consumed at least one token (none only on empty input)" -/
def Sh (p : List String → Res SF) : Prop :=
  ∀ toks f rest, p toks = .ok f rest → rest.length + min 1 toks.length ≤ toks.length

theorem sh_clause {fuel} (i1 : Sh (clauseRest fuel)) : Sh (parseClause (fuel+1)) := by
  intro toks f rest H; simp only [Sh] at *; simp only [parseClause] at H; grind
theorem sh_rest {fuel} (i2 : Sh (parseEquiv fuel)) (i0 : Sh (parseClause fuel)) :
    Sh (clauseRest (fuel+1)) := by
  intro toks f rest H; simp only [Sh] at *; simp only [clauseRest] at H; grind
theorem sh_equiv {fuel} (i3 : Sh (parseImplies fuel)) (i2 : Sh (parseEquiv fuel)) :
    Sh (parseEquiv (fuel+1)) := by
  intro toks f rest H; simp only [Sh] at *; simp only [parseEquiv] at H
  split at H
  · simp at H
  · split at H
    · simp at H
    · grind
theorem sh_implies {fuel} (i4 : Sh (parseOr fuel)) (i3 : Sh (parseImplies fuel)) :
    Sh (parseImplies (fuel+1)) := by
  intro toks f rest H; simp only [Sh] at *; simp only [parseImplies] at H
  split at H
  · next f1 r1 h1 =>
    have a1 := i4 _ _ _ h1
    split at H
    · split at H
      · simp at H
      · split at H
        · simp at H
        · grind
      · simp at H
    · grind
  · simp at H
  · simp at H
theorem sh_or {fuel} (i5 : Sh (parseAnd fuel)) (i4 : Sh (parseOr fuel)) :
    Sh (parseOr (fuel+1)) := by
  intro toks f rest H; simp only [Sh] at *; simp only [parseOr] at H; grind
theorem sh_and {fuel} (i6 : Sh (parseNot fuel)) (i5 : Sh (parseAnd fuel)) :
    Sh (parseAnd (fuel+1)) := by
  intro toks f rest H; simp only [Sh] at *; simp only [parseAnd] at H; grind
theorem sh_not {fuel} (i7 : Sh (parseBasic fuel)) (i6 : Sh (parseNot fuel)) :
    Sh (parseNot (fuel+1)) := by
  intro toks f rest H; simp only [Sh] at *; simp only [parseNot] at H; grind
theorem sh_basic {fuel} (i0 : Sh (parseClause fuel)) : Sh (parseBasic (fuel+1)) := by
  intro toks f rest H; simp only [Sh] at *; simp only [parseBasic] at H
  have ib := braceLoop_len fuel
  grind

theorem sh_all : ∀ fuel, Sh (parseClause fuel) ∧ Sh (clauseRest fuel) ∧ Sh (parseEquiv fuel) ∧
    Sh (parseImplies fuel) ∧ Sh (parseOr fuel) ∧ Sh (parseAnd fuel) ∧ Sh (parseNot fuel) ∧
    Sh (parseBasic fuel) := by
  intro fuel
  induction fuel with
  | zero =>
    refine ⟨?_, ?_, ?_, ?_, ?_, ?_, ?_, ?_⟩ <;> intro toks f rest H <;>
      simp [parseClause, clauseRest, parseEquiv, parseImplies, parseOr, parseAnd, parseNot, parseBasic] at H
  | succ fuel ih =>
    obtain ⟨i0, i1, i2, i3, i4, i5, i6, i7⟩ := ih
    exact ⟨sh_clause i1, sh_rest i2 i0, sh_equiv i3 i2, sh_implies i4 i3, sh_or i5 i4,
      sh_and i6 i5, sh_not i7 i6, sh_basic i0⟩

/-- "with `fuel` at grammar level `d` the call does not run out of fuel" -/
def NF (d fuel : Nat) (p : List String → Res SF) : Prop :=
  ∀ toks, 8 * toks.length + 8 ≤ fuel + d → p toks ≠ .fuel

theorem braceLoop_nf : ∀ fuel toks acc, toks.length + 1 ≤ fuel → braceLoop fuel toks acc ≠ .fuel := by
  intro fuel
  induction fuel with
  | zero => intro toks acc h; omega
  | succ fuel ih =>
    intro toks acc h
    simp only [braceLoop]
    grind

theorem nf_clause {fuel} (i1 : NF 1 fuel (clauseRest fuel)) : NF 0 (fuel+1) (parseClause (fuel+1)) := by
  intro toks hb; simp only [NF] at *; simp only [parseClause]; grind
theorem nf_rest {fuel} (s2 : Sh (parseEquiv fuel)) (i2 : NF 2 fuel (parseEquiv fuel)) (i0 : NF 0 fuel (parseClause fuel)) :
    NF 1 (fuel+1) (clauseRest (fuel+1)) := by
  intro toks hb; simp only [NF, Sh] at *; simp only [clauseRest]; grind
theorem nf_equiv {fuel} (s3 : Sh (parseImplies fuel)) (i3 : NF 3 fuel (parseImplies fuel)) (i2 : NF 2 fuel (parseEquiv fuel)) :
    NF 2 (fuel+1) (parseEquiv (fuel+1)) := by
  intro toks hb H; simp only [NF, Sh] at *; simp only [parseEquiv] at H
  split at H
  · simp at H
  · split at H
    · simp at H
    · split at H
      · next f1 r1 h1 =>
        have a1 := s3 _ _ _ h1
        split at H
        · split at H
          · simp at H
          · grind
        · simp at H
      · simp at H
      · grind
theorem nf_implies {fuel} (s4 : Sh (parseOr fuel)) (i4 : NF 4 fuel (parseOr fuel)) (i3 : NF 3 fuel (parseImplies fuel)) :
    NF 3 (fuel+1) (parseImplies (fuel+1)) := by
  intro toks hb H; simp only [NF, Sh] at *; simp only [parseImplies] at H
  split at H
  · next f1 r1 h1 =>
    have a1 := s4 _ _ _ h1
    split at H
    · split at H
      · simp at H
      · split at H
        · simp at H
        · grind
      · simp at H
    · simp at H
  · simp at H
  · grind
theorem nf_or {fuel} (s5 : Sh (parseAnd fuel)) (i5 : NF 5 fuel (parseAnd fuel)) (i4 : NF 4 fuel (parseOr fuel)) :
    NF 4 (fuel+1) (parseOr (fuel+1)) := by
  intro toks hb; simp only [NF, Sh] at *; simp only [parseOr]; grind
theorem nf_and {fuel} (s6 : Sh (parseNot fuel)) (i6 : NF 6 fuel (parseNot fuel)) (i5 : NF 5 fuel (parseAnd fuel)) :
    NF 5 (fuel+1) (parseAnd (fuel+1)) := by
  intro toks hb; simp only [NF, Sh] at *; simp only [parseAnd]; grind
theorem nf_not {fuel} (i7 : NF 7 fuel (parseBasic fuel)) (i6 : NF 6 fuel (parseNot fuel)) :
    NF 6 (fuel+1) (parseNot (fuel+1)) := by
  intro toks hb; simp only [NF] at *; simp only [parseNot]; grind
theorem nf_basic {fuel} (i0 : NF 0 fuel (parseClause fuel)) : NF 7 (fuel+1) (parseBasic (fuel+1)) := by
  intro toks hb; simp only [NF] at *; simp only [parseBasic]
  have ib := braceLoop_nf fuel
  grind

theorem nf_all : ∀ fuel, NF 0 fuel (parseClause fuel) ∧ NF 1 fuel (clauseRest fuel) ∧
    NF 2 fuel (parseEquiv fuel) ∧ NF 3 fuel (parseImplies fuel) ∧ NF 4 fuel (parseOr fuel) ∧
    NF 5 fuel (parseAnd fuel) ∧ NF 6 fuel (parseNot fuel) ∧ NF 7 fuel (parseBasic fuel) := by
  intro fuel
  induction fuel with
  | zero =>
    refine ⟨?_, ?_, ?_, ?_, ?_, ?_, ?_, ?_⟩ <;> intro toks hb <;> omega
  | succ fuel ih =>
    obtain ⟨i0, i1, i2, i3, i4, i5, i6, i7⟩ := ih
    obtain ⟨-, -, s2, s3, s4, s5, s6, -⟩ := sh_all fuel
    exact ⟨nf_clause i1, nf_rest s2 i2 i0, nf_equiv s3 i3 i2, nf_implies s4 i4 i3, nf_or s5 i5 i4,
      nf_and s6 i6 i5, nf_not i7 i6, nf_basic i0⟩

/-- the fuel given by `parse` always suffices -/
theorem parse_no_fuel (toks : List String) : parse toks ≠ .fuel := by
  have := (nf_all (8 * (toks.length + 1))).1 toks (by omega)
  simp only [parse]
  split <;> simp_all

/-! ## identifier tokens -/


theorem lookupIsIdent_of_v {t : String} (h : isVTok t = true) : lookupIsIdent t = true := by
  simp [isVTok] at h
  simp [lookupIsIdent]
  intro h2
  obtain ⟨r, hr⟩ := h2
  rw [← hr] at h
  simp at h

theorem plainTok_of_v {t : String} (h : isVTok t = true) : plainTok t = true := by
  have hl := lookupIsIdent_of_v h
  simp only [plainTok, hl, Bool.and_true, Bool.not_eq_true']
  simp only [isPunct, Bool.or_eq_false_iff, decide_eq_false_iff_not]
  refine ⟨⟨⟨⟨⟨⟨⟨⟨⟨⟨⟨⟨?_, ?_⟩, ?_⟩, ?_⟩, ?_⟩, ?_⟩, ?_⟩, ?_⟩, ?_⟩, ?_⟩, ?_⟩, ?_⟩, ?_⟩ <;>
    (intro e; subst e; revert h; decide)

theorem isVTok_vtok (i : Nat) : isVTok (vtok i) = true := by
  simp [isVTok, vtok]


theorem wf_of_wfV : ∀ (s : Syn), s.wfV = true → s.wf = true
  | .var t, h => plainTok_of_v (by simpa [Syn.wfV] using h)
  | .uniq ns, h => by
    simp [Syn.wfV] at h
    simp [Syn.wf, h.1]
    intro t ht
    exact plainTok_of_v (h.2 t ht)
  | .not s, h => by simpa [Syn.wf] using wf_of_wfV s (by simpa [Syn.wfV] using h)
  | .bin op l r, h => by
    simp [Syn.wfV] at h
    simp [Syn.wf, wf_of_wfV l h.1, wf_of_wfV r h.2]

theorem wf_v (i : Nat) : (Syn.v i).wf = true := plainTok_of_v (isVTok_vtok i)

theorem wf_u (is : List Nat) (h : is ≠ []) : (Syn.u is).wf = true := by
  simp [Syn.u, Syn.wf, h]
  intro i _
  exact plainTok_of_v (isVTok_vtok i)

/-- the token `v<i>` is read back as the name number `i`
(uses `Nat.toNat?_repr` of the toolchain's `Std.Data.String.ToNat`) -/
theorem nameId_vtok (i : Nat) : nameId (vtok i) = i := by
  have hs : (vtok i).startsWith "v" = true := by simp [vtok]
  have hc : ((vtok i).drop 1).copy = Nat.repr i := by
    apply String.toList_inj.1
    rw [String.toList_copy_drop]
    simp [vtok]
  have : ((vtok i).drop 1).toNat? = some i := by
    rw [← String.Slice.toNat?_copy, hc, Nat.toNat?_repr]
  simp [nameId, hs, this]

theorem toSF_v (i : Nat) : (Syn.v i).toSF = SF.var i := by simp [Syn.v, Syn.toSF, nameId_vtok]

theorem toSF_u (is : List Nat) : (Syn.u is).toSF = SF.unique is := by
  have : nameId ∘ vtok = id := funext nameId_vtok
  simp [Syn.u, Syn.toSF, this]

/-! ## Statements on abstract syntax trees -/

/-- redundant parentheses do not change the result -/
theorem parse_parens_irrelevant (d : Deco) (s : Syn) (h : s.wf = true) :
    parse (renderP d s) = parse s.render := by
  rw [parse_renderP d s h, parse_render s h]

/-- every token list gives a formula (and end of input) or an error -/
theorem parse_total (toks : List String) : (∃ f, parse toks = .ok f []) ∨ parse toks = .err := by
  have := parse_no_fuel toks
  simp only [parse] at this ⊢
  split <;> simp_all

/-- (a) a token that cannot continue the formula, after a complete formula -/
theorem parse_trailing (d : Deco) (s : Syn) (h : s.wf = true) (rest : List String)
    (hne : rest ≠ []) (ht : ∀ t ∈ rest.head?, cantContinue t = true) :
    parse (renderP d s ++ rest) = .err := by
  apply parse_cst_trailing _ (decorate_ok s d h) rest hne
  cases rest with
  | nil => trivial
  | cons a r =>
    have := ht a (by simp)
    simp [cantContinue] at this
    simp [stop, stopTok, this]

theorem cantContinue_of_plain {t : String} (h : plainTok t = true) : cantContinue t = true := by
  have := plainTok_facts h
  simp [isOperator] at this
  simp [cantContinue, this]

/-- (b) unbalanced opening parentheses -/
theorem parse_unbalanced (d : Deco) (s : Syn) (h : s.wf = true) (n : Nat) :
    parse (List.replicate (n+1) "(" ++ renderP d s) = .err :=
  parse_cst_unbalanced_top _ (decorate_ok s d h) n

/-- (c) a missing right operand -/
theorem parse_missing_right (d : Deco) (s : Syn) (h : s.wf = true) (op : Op) (hop : op ≠ .seq) :
    parse (renderP d s ++ op.toks) = .err :=
  parse_cst_missing_top _ (decorate_ok s d h) op hop

/-- (c') recorded leniency: a dangling `;` is accepted and ignored -/
theorem parse_dangling_semicolon (d : Deco) (s : Syn) (h : s.wf = true) :
    parse (renderP d s ++ [";"]) = .ok s.toSF [] := by
  rw [renderP, parse_cst_semicolon_top _ (decorate_ok s d h), decorate_toSF]

/-- a text cannot start with a binary operator (missing left operand), whatever follows -/
theorem parse_leading_operator (op : Op) (X : List String) : parse (op.toks ++ X) = .err := by
  by_cases hop : op = .imp
  · subst hop
    have h7 : parseAt 7 (8 * (X.length + 2) + 1) ("-" :: ">" :: X)
        = .ok (SF.var (nameId "-")) (">" :: X) := by
      simp [parseAt, parseBasic, isOperator]
    have := descend 7 0 _ (by omega) (by omega) h7 (by decide) (.inl (by decide))
      (by simp [stop, stopTok])
    simp only [parseAt] at this
    simp [parse, Op.toks]
    rw [show 8 * (X.length + 1 + 1 + 1) = 8 * (X.length + 2) + 1 + 7 by omega, this]
  · cases op <;> simp [parse, Op.toks] at hop ⊢ <;>
      rw [show 8 * (X.length + 1 + 1) = (8 * X.length + 15) + 1 by omega] <;>
      simp [parseClause, isOperator]

/-- `parse_errors`: the error cases of the property, for the rendering (with any redundant
parentheses) of a well-formed tree -/
theorem parse_errors (d : Deco) (s : Syn) (h : s.wf = true) :
    (∀ t, cantContinue t = true → parse (renderP d s ++ [t]) = .err) ∧
    (∀ n, parse (List.replicate (n+1) "(" ++ renderP d s) = .err) ∧
    (∀ op : Op, op ≠ .seq → parse (renderP d s ++ op.toks) = .err) ∧
    parse (renderP d s ++ [";"]) = .ok s.toSF [] :=
  ⟨fun t ht => parse_trailing d s h [t] (by simp) (by simpa using ht),
   parse_unbalanced d s h, parse_missing_right d s h, parse_dangling_semicolon d s h⟩

/-- the same for the minimal rendering; in particular `)`, `}`, `,` or an identifier appended
to a complete formula is an error -/
theorem parse_errors_render (s : Syn) (h : s.wf = true) :
    parse (s.render ++ [")"]) = .err ∧ parse (s.render ++ ["}"]) = .err ∧
    parse (s.render ++ [","]) = .err ∧ (∀ t, plainTok t = true → parse (s.render ++ [t]) = .err) ∧
    parse ("(" :: s.render) = .err ∧
    (∀ op : Op, op ≠ .seq → parse (s.render ++ op.toks) = .err) ∧
    parse (s.render ++ [";"]) = .ok s.toSF [] := by
  have := parse_errors (fun _ => 0) s h
  rw [← render_eq_renderP] at this
  obtain ⟨a, b, c, e⟩ := this
  exact ⟨a _ (by decide), a _ (by decide), a _ (by decide),
    fun t ht => a t (cantContinue_of_plain ht), by simpa using b 0, c, e⟩

/-! ## Examples -/
section Examples
private def a := Syn.var "v1"
private def b := Syn.var "v2"
private def c := Syn.var "v3"
private def d := Syn.var "v4"
private def e := Syn.var "v5"
private def f := Syn.var "v6"

/-- `a & b | ^ c -> d = e ; f` -/
private def ex1 : Syn :=
  .bin .seq (.bin .iff (.bin .imp (.bin .or (.bin .and a b) (.not c)) d) e) f

example : ex1.render = ["v1", "&", "v2", "BAR", "^", "v3", "-", ">", "v4", "=", "v5", ";", "v6"] := by
  decide
example : ex1.wf = true := wf_of_wfV _ (by decide)
/-- the theorem instantiated ... -/
example : parse ["v1", "&", "v2", "BAR", "^", "v3", "-", ">", "v4", "=", "v5", ";", "v6"]
    = .ok ex1.toSF [] := parse_render ex1 (wf_of_wfV _ (by decide))
/-- ... and the same fact by evaluation of the mirror, with the tree spelled out -/
example : parse ["v1", "&", "v2", "BAR", "^", "v3", "-", ">", "v4", "=", "v5", ";", "v6"]
    = .ok (SF.and [SF.iff (SF.imp (SF.or [SF.and [SF.var (nameId "v1"), SF.var (nameId "v2")],
        SF.not (SF.var (nameId "v3"))]) (SF.var (nameId "v4"))) (SF.var (nameId "v5")),
        SF.var (nameId "v6")]) [] := rfl

/-- lowest priority on top: `a ; b = c -> d | e & ^ f` -/
private def ex2 : Syn :=
  .bin .seq a (.bin .iff b (.bin .imp c (.bin .or d (.bin .and e (.not f)))))
example : ex2.render = ["v1", ";", "v2", "=", "v3", "-", ">", "v4", "BAR", "v5", "&", "^", "v6"] := by
  decide
example : parse ex2.render = .ok ex2.toSF [] := rfl

/-- right nesting: `a & b & c` is `a & (b & c)`; `(a & b) & c` needs its parentheses -/
example : (Syn.bin .and a (.bin .and b c)).render = ["v1", "&", "v2", "&", "v3"] := by decide
example : (Syn.bin .and (.bin .and a b) c).render = ["(", "v1", "&", "v2", ")", "&", "v3"] := by decide
example : parse ["v1", "&", "v2", "&", "v3"]
    = .ok (SF.and [SF.var (nameId "v1"), SF.and [SF.var (nameId "v2"), SF.var (nameId "v3")]]) [] := rfl
example : parse ["v1", "-", ">", "v2", "-", ">", "v3"]
    = .ok (SF.imp (SF.var (nameId "v1")) (SF.imp (SF.var (nameId "v2")) (SF.var (nameId "v3")))) [] := rfl
example : parse ["(", "v1", "&", "v2", ")", "&", "v3"]
    = .ok (SF.and [SF.and [SF.var (nameId "v1"), SF.var (nameId "v2")], SF.var (nameId "v3")]) [] := rfl

/-- a lower-priority operand is parenthesised: `^ (a | b) & {c, d}` -/
private def ex3 : Syn := .bin .and (.not (.bin .or a b)) (.uniq ["v3", "v4"])
example : ex3.render = ["^", "(", "v1", "BAR", "v2", ")", "&", "{", "v3", ",", "v4", "}"] := by decide
example : ex3.wf = true := wf_of_wfV _ (by decide)
example : parse ["^", "(", "v1", "BAR", "v2", ")", "&", "{", "v3", ",", "v4", "}"]
    = .ok (SF.and [SF.not (SF.or [SF.var (nameId "v1"), SF.var (nameId "v2")]),
        SF.unique [nameId "v3", nameId "v4"]]) [] :=
  parse_render ex3 (wf_of_wfV _ (by decide))

/-- redundant parentheses: two pairs around the whole, one around the left operand, one around
the right operand of the right operand -/
private def deco : Deco := fun p =>
  if p = [] then 2 else if p = [false] then 1 else if p = [true, true] then 1 else 0
example : renderP deco (Syn.bin .or a (.bin .and b c))
    = ["(", "(", "(", "v1", ")", "BAR", "v2", "&", "(", "v3", ")", ")", ")"] := by decide
example : parse ["(", "(", "(", "v1", ")", "BAR", "v2", "&", "(", "v3", ")", ")", ")"]
    = parse ["v1", "BAR", "v2", "&", "v3"] :=
  parse_parens_irrelevant deco (Syn.bin .or a (.bin .and b c)) (wf_of_wfV _ (by decide))

/-- numbered names: `v7 | {v8, v9}` -/
example : parse (Syn.bin .or (.v 7) (.u [8, 9])).render
    = .ok (SF.or [SF.var 7, SF.unique [8, 9]]) [] := by
  rw [parse_render _ (by simp [Syn.wf, wf_v, wf_u])]
  simp [Syn.toSF, toSF_v, toSF_u, Op.mk]

/-- errors -/
example : parse ([] : List String) = .err := rfl
example : parse ["v1", "&"] = .err := rfl
example : parse ["v1", "-"] = .err := rfl
example : parse ["v1", "-", "v2"] = .err := rfl
example : parse ["&", "v1"] = .err := rfl
example : parse ["^"] = .err := rfl
example : parse ["(", "v1", "&", "v2"] = .err := rfl
example : parse ["v1", "&", "v2", ")"] = .err := rfl
example : parse ["v1", "v2"] = .err := rfl
example : parse ["(", ")"] = .err := rfl
example : parse ["{", "}"] = .err := by
  simp [parse, parseClause, clauseRest, parseEquiv, parseImplies, parseOr, parseAnd, parseNot,
    parseBasic, braceLoop, isOperator, lookupIsIdent]
/-- recorded leniencies of the Go parser: a dangling `;`, and any token is a name outside braces -/
example : parse ["v1", ";"] = .ok (SF.var (nameId "v1")) [] := rfl
example : parse [",", "&", "}"] = .ok (SF.and [SF.var (nameId ","), SF.var (nameId "}")]) [] := rfl
example : parse ["-"] = .ok (SF.var (nameId "-")) [] := rfl
end Examples

end GS.BfRender

section Audit
open GS.BfRender
#print axioms parse_render
#print axioms parse_renderP
#print axioms parse_parens_irrelevant
#print axioms parse_no_fuel
#print axioms parse_total
#print axioms parse_errors
#print axioms parse_errors_render
#print axioms parse_leading_operator
#print axioms parse_cst
#print axioms nameId_vtok
end Audit
