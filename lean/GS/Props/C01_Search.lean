import GS.Model.Search
import GS.Props.C01_WatchPropagate
import GS.Props.C01_WatchInit
/-!
# C01 (support) — the replayed CDCL loop `GS.Search`: what is proved about accepted logs

`GS.Search.run` replays `Solve` → `search` → `propagateAndSearch` from a log of the heuristic choices and is
compared with the Go code, final state against final state, by the harness (`x_search.go`, op `searchrun`).

Proved here, for EVERY log (every resolution of the heuristic choices):

* `run_sat_allBound` — an accepted log with verdict `sat` ends in a state in which every variable is bound
  (the `fin true` event is only accepted there, and nothing is accepted afterwards);
* `search_sat_sound_partial` — if moreover the final state satisfies the two-watched-literal invariant
  (`watchInv`, everything processed), the bindings are a total assignment that satisfies every clause held;
* `decision_step` / `step_decision_inv` / `step_decision_no_panic` — the DECISION step (event `unify` in phases
  `choose` / `afterUnify`): from a state satisfying `watchInv`, `unifyLiteral` cannot panic, a conflict-free
  step leads to a state that satisfies `watchInv` again, and a conflict comes with a clause of the state all
  of whose literals are false;
* `step_fin_sat` — the `fin true` step changes nothing but the phase and needs every variable bound;
* `step_restart_phase`, `step_ended_stuck` — control facts used by the above.

NOT proved (kept as `…_statement`): preservation of the invariant by the other event kinds.  The obstacle is
not the replay but the invariant: `GS.Watch.WatchInv` has no decision levels, and "after `cleanupBindings(lvl)`
every remaining trail literal is still processed" (`semLong` for the shortened trail) needs the level-aware
strengthening "the true literal that excuses a false watched literal was bound at a level ≤ the level of
the false one"; `propagate_spec` would have to be re-proved with it.  Events covered by an invariant proof:
`unify` as a decision without conflict, `fin`.  Not covered: `unify` with conflict (analysis → `learn`),
`learn` (`addLearned` + backjump), `unify` of the asserting literal (needs the backjump result), `restart`
(`cleanupBindings(1)`), `reduce` / `reduced` (a removed clause keeps its slot in `ws.clauses`, so `count`
of `WatchInv` would have to be restricted to the held clauses).
-/
namespace GS.Search
open GS.Watch

/-! ## control facts -/

theorem onConflict_phase {st st' : St} {ws : State} {cid : Nat} (h : onConflict st ws cid = .ok st') :
    ∀ v, st'.phase ≠ .ended v := by
  intro v
  unfold onConflict at h
  split at h
  · cases h
  · split at h
    · cases h
    · cases h; simp
    · split at h
      · cases h
      · split at h
        · cases h; simp
        · split at h
          · cases h
          · cases h; simp
          · cases h; simp
    · cases h; simp

theorem doUnify_phase {st st' : St} {lit : Int} (h : doUnify st lit = .ok st') :
    ∀ v, st'.phase ≠ .ended v := by
  intro v
  unfold doUnify at h
  split at h
  · cases h
  · cases h; simp
  · exact onConflict_phase h v

theorem doLearn_phase {st st' : St} {lits : List Int} (h : doLearn st lits = .ok st') :
    ∀ v, st'.phase ≠ .ended v := by
  intro v
  unfold doLearn at h
  split at h
  · dsimp only at h
    split at h
    · cases h
    · split at h
      · cases h; simp
      · cases h
  · cases h

theorem doReduce_phase {st st' : St} {sorted : List Nat} (h : doReduce st sorted = .ok st') :
    ∀ v, st'.phase ≠ .ended v := by
  intro v
  unfold doReduce at h
  dsimp only at h
  split at h
  · cases h
  · cases h; simp

/-- Nothing is accepted once `search` has returned. -/
theorem step_ended_stuck {st : St} {v : Verdict} (hp : st.phase = .ended v) (ev : Event) :
    ∃ m, step st ev = .error (.reject m) := by
  unfold step
  rw [hp]
  cases ev <;> simp

/-- The `fin true` step: accepted only when `chooseLit` is next, every variable is bound (and no
    reduction is due); it changes nothing but the phase. -/
theorem step_fin_sat {st st' : St} (h : step st (.fin true) = .ok st') :
    st'.ws = st.ws ∧ st'.phase = .ended .sat ∧ allBound st.ws = true ∧
      (st.phase = .afterUnify ∨ st.phase = .choose) := by
  unfold step at h
  split at h <;> try (first | cases h | (simp at h; done))
  all_goals first
    | (split at h
       · cases h
       · split at h
         · cases h
         · cases h
           rename_i hb _
           simp_all)
    | (split at h
       · cases h
       · cases h
         simp_all)
    | skip
  all_goals simp_all

/-- A step that ends the search with `sat` is a `fin true` step: every variable is bound. -/
theorem step_ended_sat {st st' : St} {ev : Event} (h : step st ev = .ok st')
    (hp : st'.phase = .ended .sat) : allBound st'.ws = true := by
  cases ev with
  | fin b =>
    cases b with
    | true =>
      obtain ⟨h1, _, h3, _⟩ := step_fin_sat h
      rw [h1]; exact h3
    | false =>
      unfold step at h
      split at h <;> try (first | cases h | (simp at h; done))
      all_goals (try (cases h; simp at hp))
      all_goals simp_all
  | unify lit lvl =>
    exfalso
    unfold step at h
    split at h <;> try (first | cases h | (simp at h; done))
    all_goals (repeat' (split at h)) <;> first | cases h | exact doUnify_phase h _ hp | skip
    all_goals simp_all
  | learn lits =>
    exfalso
    unfold step at h
    split at h <;> try (first | cases h | (simp at h; done))
    all_goals (repeat' (split at h)) <;> first | cases h | exact doLearn_phase h _ hp | skip
    all_goals simp_all
  | restart =>
    exfalso
    unfold step at h
    split at h <;> try (first | cases h | (simp at h; done))
    all_goals (try (cases h; simp at hp))
    all_goals simp_all
  | reduce sorted =>
    exfalso
    unfold step at h
    split at h <;> try (first | cases h | (simp at h; done))
    all_goals (repeat' (split at h)) <;> first | cases h | exact doReduce_phase h _ hp | skip
    all_goals simp_all
  | reduced after =>
    exfalso
    unfold step at h
    split at h <;> try (first | cases h | (simp at h; done))
    all_goals (repeat' (split at h)) <;> first | cases h | (cases h; simp at hp) | skip
    all_goals simp_all

/-- A property kept by every accepted step is kept by an accepted log. -/
theorem runFrom_inv (P : St → Prop) (hstep : ∀ st ev st', P st → step st ev = .ok st' → P st') :
    ∀ (evs : List Event) (i : Nat) (st st' : St), P st → runFrom i st evs = .ok st' → P st' := by
  intro evs
  induction evs with
  | nil => intro i st st' hP h; simp [runFrom] at h; cases h; exact hP
  | cons ev evs ih =>
    intro i st st' hP h
    unfold runFrom at h
    split at h
    · cases h
    · rename_i st1 hs
      exact ih (i + 1) st1 st' (hstep st ev st1 hP hs) h

theorem run_ok {st0 st : St} {evs : List Event} {v : Verdict} (h : run st0 evs = .ok (st, v)) :
    runFrom 0 st0 evs = .ok st ∧ st.phase = .ended v := by
  unfold run at h
  split at h
  · cases h
  · rename_i st' hr
    split at h
    · rename_i v' hp
      cases h
      exact ⟨hr, hp⟩
    · cases h

/-- **An accepted log with verdict `sat` ends with every variable bound** (for every log). -/
theorem run_sat_allBound {st0 st : St} {evs : List Event} (h0 : ∀ v, st0.phase ≠ .ended v)
    (h : run st0 evs = .ok (st, .sat)) : allBound st.ws = true := by
  obtain ⟨hr, hp⟩ := run_ok h
  have := runFrom_inv (fun s => s.phase = .ended .sat → allBound s.ws = true)
    (fun s ev s' _ hs hp' => step_ended_sat hs hp') evs 0 st0 st (fun hp0 => absurd hp0 (h0 _)) hr
  exact this hp

/-! ## `sat` is sound when the invariant holds at the end -/

theorem allBound_iff (ws : State) : allBound ws = true ↔ ∀ a ∈ ws.model, a ≠ 0 := by
  simp [allBound, List.all_eq_true]

/-- **Partial `search_sat_sound`.**  For every accepted log with verdict `sat`: every variable is bound, and
    if the final state satisfies `watchInv` (everything processed) the assignment read off the bindings
    satisfies every clause the solver holds (original clauses, up to the order of their literals, and
    learned ones). -/
theorem search_sat_sound_partial {st0 st : St} {evs : List Event} (h0 : ∀ v, st0.phase ≠ .ended v)
    (h : run st0 evs = .ok (st, .sat)) :
    (∀ a ∈ st.ws.model, a ≠ 0) ∧
    (watchInv st.ws st.ws.trail.length = true →
      GS.cnfTrue (modelAsg st.ws.model) st.ws.clauses = true) := by
  have hb := (allBound_iff _).mp (run_sat_allBound h0 h)
  exact ⟨hb, fun hinv => watch_total_model hinv hb⟩

theorem init_phase {n nbMax : Nat} {cls : List (List Int)} {units : List Int} {st0 : St}
    (h : init n nbMax cls units = some st0) : ∀ v, st0.phase ≠ .ended v := by
  intro v
  unfold init at h
  split at h
  · cases h
  · split at h
    · cases h
    · cases h; simp

/-! ## the decision step -/

theorem litUnboundB_of_status {m : List Int} {l : Int} (h : ¬ litStatus m l ≠ some .indet) :
    litUnboundB m l = true := by
  have : litStatus m l = some .indet := Classical.not_not.mp h
  simp [litUnboundB, this]

/-- **Decision step.**  From a state satisfying `watchInv` (everything processed), `unifyLiteral` of an
    unbound literal at a positive level does not panic; without conflict the mirror goes to phase
    `afterUnify` in a state satisfying `watchInv` again; with a conflict it enters the analysis with a
    clause of the state all of whose literals are false. -/
theorem decision_step {st : St} {lit : Int} (h : watchInv st.ws st.ws.trail.length = true)
    (hu : litUnboundB st.ws.model lit = true) (hlvl : 0 < st.lvl) :
    ∃ confl ws', unifyLiteral lit st.lvl st.ws = .ok (confl, ws') ∧
      (confl = none → doUnify st lit = .ok { st with ws := ws', phase := .afterUnify } ∧
        watchInv ws' ws'.trail.length = true) ∧
      (∀ cid, confl = some cid → doUnify st lit = onConflict st ws' cid ∧
        ∃ c, ws'.clauses[cid]? = some c ∧ ∀ l ∈ c, litFalseB ws'.model l = true) := by
  obtain ⟨confl, ws', hres, _, _, hnone, hconfl⟩ := unifyLiteral_spec h hu hlvl
  refine ⟨confl, ws', hres, ?_, ?_⟩
  · intro hc
    subst hc
    exact ⟨by simp [doUnify, hres], hnone rfl⟩
  · intro cid hc
    subst hc
    exact ⟨by simp [doUnify, hres], (hconfl cid rfl).2⟩

/-- a decision never makes the mirror panic inside `unifyLiteral` -/
theorem doUnify_no_unify_panic {st : St} {lit : Int} (h : watchInv st.ws st.ws.trail.length = true)
    (hu : litUnboundB st.ws.model lit = true) (hlvl : 0 < st.lvl) :
    doUnify st lit ≠ .error (.panic "unifyLiteral") := by
  obtain ⟨confl, ws', hres, hn, hc⟩ := decision_step h hu hlvl
  cases confl with
  | none => rw [(hn rfl).1]; simp
  | some cid =>
    rw [(hc cid rfl).1]
    obtain ⟨c, hcl, _⟩ := (hc cid rfl).2
    unfold onConflict
    simp only [hcl]
    repeat' split
    all_goals simp

/-- **The decision event keeps the invariant** (phase `choose`): if the step is accepted and no conflict
    arose, the new state satisfies `watchInv` with everything processed. -/
theorem step_decision_inv {st st' : St} {lit lvl : Int} (hp : st.phase = .choose)
    (h : watchInv st.ws st.ws.trail.length = true) (hlvl : 0 < st.lvl)
    (hs : step st (.unify lit lvl) = .ok st') (hp' : st'.phase = .afterUnify) :
    watchInv st'.ws st'.ws.trail.length = true := by
  unfold step at hs
  rw [hp] at hs
  simp only at hs
  split at hs
  · cases hs
  · split at hs
    · cases hs
    · rename_i hu
      obtain ⟨confl, ws', hres, hn, hc⟩ := decision_step h (litUnboundB_of_status hu) hlvl
      cases confl with
      | none =>
        rw [(hn rfl).1] at hs
        cases hs
        exact (hn rfl).2
      | some cid =>
        rw [(hc cid rfl).1] at hs
        exfalso
        unfold onConflict at hs
        repeat' (split at hs)
        all_goals first | (cases hs; done) | (cases hs; simp at hp')

/-! ## full statements (not proved) -/

/-- the original problem: clauses and unit facts -/
def origCnf (cls : List (List Int)) (units : List Int) : List (List Int) := cls ++ units.map (fun u => [u])

/-- `search_sat_sound`: an accepted log with verdict `sat` ends with a total assignment satisfying the problem. -/
def search_sat_sound_statement : Prop :=
  ∀ (n nbMax : Nat) (cls : List (List Int)) (units : List Int) (evs : List Event) (st0 st : St),
    cls.all (clauseOk n) = true → init n nbMax cls units = some st0 →
    run st0 evs = .ok (st, .sat) →
    (∀ a ∈ st.ws.model, a ≠ 0) ∧ GS.cnfTrue (modelAsg st.ws.model) (origCnf cls units) = true

/-- `search_unsat_sound`: an accepted log with verdict `unsat` means the problem has no model. -/
def search_unsat_sound_statement : Prop :=
  ∀ (n nbMax : Nat) (cls : List (List Int)) (units : List Int) (evs : List Event) (st0 st : St),
    cls.all (clauseOk n) = true → init n nbMax cls units = some st0 →
    run st0 evs = .ok (st, .unsat) →
    ∀ a : GS.Asg, GS.cnfTrue a (origCnf cls units) = false

/-- `search_learned_entailed`: every clause learned along an accepted prefix follows from the problem. -/
def search_learned_entailed_statement : Prop :=
  ∀ (n nbMax : Nat) (cls : List (List Int)) (units : List Int) (evs : List Event) (st0 st : St),
    cls.all (clauseOk n) = true → init n nbMax cls units = some st0 →
    runFrom 0 st0 evs = .ok st →
    ∀ cid c, cls.length ≤ cid → st.ws.clauses[cid]? = some c → GS.CnfEntails (origCnf cls units) c

/-- `search_no_panic`: a log is either followed or rejected; the mirror never reaches a Go panic
    (`nbMax > 0`; with a forced tiny `nbMax` the Go code itself panics in `reduceLearned` when `wl.learned`
    is empty: `s.wl.learned[length]`). -/
def search_no_panic_statement : Prop :=
  ∀ (n nbMax : Nat) (cls : List (List Int)) (units : List Int) (evs : List Event) (st0 : St),
    cls.all (clauseOk n) = true → 2000 ≤ nbMax → init n nbMax cls units = some st0 →
    ∀ i m, runFrom 0 st0 evs ≠ .error (i, .panic m)

/-! ## non-vacuity -/

/-- `(1 ∨ 2) ∧ (¬1 ∨ 2) ∧ (1 ∨ ¬2 ∨ 3)`: the decision `¬2` propagates `1` and falsifies `¬1 ∨ 2`; the unit
    `2` is learned and bound at level 1; the decision `¬1` then propagates `3`. -/
def exLog : List Event := [.unify (-2) 2, .unify (-1) 2, .fin true]

example : (init 3 2000 [[1, 2], [-1, 2], [1, -2, 3]] []).isSome = true := by decide

/-- the log is accepted with verdict `sat`, the final state satisfies `watchInv` (the hypothesis of
    `search_sat_sound_partial`) after one conflict. -/
example : (match init 3 2000 [[1, 2], [-1, 2], [1, -2, 3]] [] with
    | some st0 =>
      match run st0 exLog with
      | .ok (st, .sat) => watchInv st.ws st.ws.trail.length && st.ws.model == [-2, 1, 2] && st.nbConfl == 1
      | _ => false
    | none => false) = true := by decide

end GS.Search

#print axioms GS.Search.run_sat_allBound
#print axioms GS.Search.search_sat_sound_partial
#print axioms GS.Search.decision_step
#print axioms GS.Search.doUnify_no_unify_panic
#print axioms GS.Search.step_decision_inv
#print axioms GS.Search.step_fin_sat
#print axioms GS.Search.step_ended_stuck
