import GS.Props.Facts
/-!
# C16 — independent solver instances do not interfere; calls are race free

First layer: the regenerated structural premises. `GS.Facts.no_package_level_state` says
that no function of the library packages writes a package-level variable (the `bufLits`
scratch buffer that made independent solvers interfere is gone), so two solvers that share
no data have disjoint footprints; `GS.Facts.chan_ops` pins who sends, closes, drains and
receives on each channel the library creates, which is what the protocol model
(`GS.Model.Chan`, C20) is instantiated with. The search for a failing schedule is the
race-detector run of the harness.
-/
namespace GS
theorem C16_no_shared_package_state : GS.Generated.pkgVarWrites = [] := GS.Facts.no_package_level_state
end GS
