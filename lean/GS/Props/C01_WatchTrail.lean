import GS.Props.C01_WatchPropagate
import GS.Model.Trail
/-!
# C01 (support) — the literals pushed by the concrete propagation pass the guard of the abstract trail machine

`GS.Trail.propagateOp s l c` (GS/Model/Trail.lean) accepts `propagate l c` when `l ≠ 0`, no entry of
`s` is over the variable of `l`, and `isUnit s.es l c`: `l ∈ c` and every other literal of `c` is the
negation of an entry.  `GS.Watch.Forced` (proved of every literal pushed by `GS.Watch.propagate`,
see `propagate_spec`) gives exactly this for the abstract state whose entries are the trail prefix
before the literal, with the antecedent recorded in `reasons`.
-/
namespace GS.Watch

theorem forced_propagate_guard {st : State} {ptr n0 p : Nat} {l : Int} (h : WatchInv st ptr)
    (hF : Forced st.clauses st.reasons st.trail n0) (hp : n0 ≤ p) (hl : st.trail[p]? = some l)
    (s : GS.Trail.State) (hes : s.es.map (·.lit) = st.trail.take p) :
    ∃ cid c, st.reasons[l.natAbs - 1]? = some (some cid) ∧ st.clauses[cid]? = some c ∧
      (GS.Trail.propagateOp s l c).isSome = true := by
  obtain ⟨cid, c, hr, hc, hlc, hall⟩ := hF p l hp hl
  refine ⟨cid, c, hr, hc, ?_⟩
  have hl0 : l ≠ 0 := (litTrueB_iff.mp (h.trail_true l (mem_of_getElem?_eq hl))).1
  have hnot : l ∉ st.trail.take p := notMem_take_of_nodup h.trail_nodup hl
  -- no entry over the variable of `l`
  have hunb : GS.Trail.unbound s.es l = true := by
    unfold GS.Trail.unbound
    rw [List.all_eq_true]
    intro e he
    have hmem : e.lit ∈ st.trail.take p := by
      rw [← hes]; exact List.mem_map.mpr ⟨e, he, rfl⟩
    obtain ⟨hlt, hx⟩ := List.getElem?_eq_some_iff.mp hl
    have hsplit : st.trail = st.trail.take p ++ l :: st.trail.drop (p + 1) := by
      conv => lhs; rw [← List.take_append_drop p st.trail, List.drop_eq_getElem_cons hlt, hx]
    have hnd := h.trail_nodup
    rw [hsplit, List.map_append, List.nodup_append] at hnd
    have hne : e.lit.natAbs ≠ l.natAbs :=
      hnd.2.2 _ (List.mem_map.mpr ⟨e.lit, hmem, rfl⟩) l.natAbs (by simp)
    simpa [GS.Analyze.Entry.var] using hne
  have hunit : GS.Trail.isUnit s.es l c = true := by
    unfold GS.Trail.isUnit
    rw [Bool.and_eq_true, List.contains_iff_mem, List.all_eq_true]
    refine ⟨hlc, ?_⟩
    intro f hf
    by_cases hfl : f = l
    · simp [hfl]
    · have hmem := hall f hf hfl
      rw [← hes] at hmem
      obtain ⟨e, he, hel⟩ := List.mem_map.mp hmem
      rw [Bool.or_eq_true]
      right
      unfold GS.Analyze.isFalse
      rw [List.any_eq_true]
      exact ⟨e, he, by simp [hel]⟩
  unfold GS.Trail.propagateOp
  simp [hl0, hunb, hunit]

end GS.Watch

#print axioms GS.Watch.forced_propagate_guard
