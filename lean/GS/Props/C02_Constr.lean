import GS.Model.Constr
/-!
# C02 (constructor layer) — constraints built through the public constructors mean what
integer arithmetic says

Everything is stated for ALL literal lists, ALL integer weights (negative, zero, positive) and
ALL right-hand sides. The only hypothesis on literals is that they are non-zero (DIMACS
literals); "each variable occurs at most once" is NOT needed anywhere in this file: a repeated
literal, or a literal together with its negation, is simply counted once per occurrence, on both
sides of every equivalence.

Spec side: `wsum a lits ws = Σ wsᵢ·[litsᵢ]` and `count a lits = #{i | litsᵢ true}`.
-/
namespace GS.Constr
open GS

/-! ## Specification vocabulary -/

/-- `Σ wsᵢ·[litsᵢ]_a` -/
def wsum (a : Asg) (lits ws : List Int) : Int := lhs a (ws.zip lits)

/-- number of occurrences of true literals -/
def count (a : Asg) (lits : List Int) : Nat := lits.countP (litTrue a)

/-- A constraint in the normal form produced by the constructors: non-zero literals and, when the
    weights are explicit, as many weights as literals, all of them strictly positive. -/
def PBC.normal (c : PBC) : Bool :=
  c.lits.all (fun l => l != 0) &&
  match c.weights with
  | none => true
  | some ws => ws.length == c.lits.length && ws.all (fun w => decide (0 < w))

/-! ## Arithmetic of `lhs` -/

theorem termVal_neg (a : Asg) (w l : Int) (h : l ≠ 0) :
    termVal a (w, -l) = w - termVal a (w, l) := by
  simp only [termVal, litTrue_neg a l h]
  cases litTrue a l <;> simp

theorem count_nil (a : Asg) : count a [] = 0 := rfl

theorem count_cons (a : Asg) (l : Int) (ls : List Int) :
    count a (l :: ls) = count a ls + (if litTrue a l = true then 1 else 0) := by
  simp [count, List.countP_cons]

theorem lhs_ones (a : Asg) : ∀ lits : List Int,
    lhs a (lits.map (fun l => (1, l))) = (count a lits : Int)
  | [] => by simp [lhs, count]
  | l :: ls => by
    have ih := lhs_ones a ls
    rw [count_cons]
    simp only [List.map_cons, lhs, termVal, ih]
    split <;> omega

theorem count_le_length (a : Asg) (lits : List Int) : count a lits ≤ lits.length :=
  List.countP_le_length

theorem count_neg (a : Asg) : ∀ lits : List Int, (∀ l ∈ lits, l ≠ 0) →
    count a (lits.map (fun l => -l)) + count a lits = lits.length
  | [], _ => by simp [count]
  | l :: ls, hz => by
    have ih := count_neg a ls (fun x hx => hz x (by simp [hx]))
    have hl : l ≠ 0 := hz l (by simp)
    rw [List.map_cons, count_cons, count_cons, litTrue_neg a l hl, List.length_cons]
    cases litTrue a l <;> simp <;> omega

theorem wsum_neg (a : Asg) : ∀ (lits ws : List Int), lits.length = ws.length →
    (∀ l ∈ lits, l ≠ 0) → wsum a (lits.map (fun l => -l)) ws = ws.sum - wsum a lits ws
  | [], [], _, _ => by simp [wsum, lhs]
  | [], _ :: _, h, _ => by simp at h
  | _ :: _, [], h, _ => by simp at h
  | l :: ls, w :: ws, h, hz => by
    have ih := wsum_neg a ls ws (by simpa using h) (fun x hx => hz x (by simp [hx]))
    have hl : l ≠ 0 := hz l (by simp)
    simp only [wsum, List.map_cons, List.zip_cons_cons, lhs, List.sum_cons] at *
    rw [termVal_neg a w l hl]; omega

/-- With non-negative weights the left-hand side lies between 0 and the sum of the weights. -/
theorem wsum_bounds (a : Asg) : ∀ (lits ws : List Int), lits.length = ws.length →
    (∀ w ∈ ws, 0 ≤ w) → 0 ≤ wsum a lits ws ∧ wsum a lits ws ≤ ws.sum
  | [], [], _, _ => by simp [wsum, lhs]
  | [], _ :: _, h, _ => by simp at h
  | _ :: _, [], h, _ => by simp at h
  | l :: ls, w :: ws, h, hp => by
    have ih := wsum_bounds a ls ws (by simpa using h) (fun x hx => hp x (by simp [hx]))
    have hw : 0 ≤ w := hp w (by simp)
    simp only [wsum, List.zip_cons_cons, lhs, List.sum_cons, termVal] at *
    split <;> omega

/-- With strictly positive weights the left-hand side reaches the sum of the weights exactly
    when every literal is true. -/
theorem wsum_eq_sum_iff (a : Asg) : ∀ (lits ws : List Int), lits.length = ws.length →
    (∀ w ∈ ws, 0 < w) → (wsum a lits ws = ws.sum ↔ ∀ l ∈ lits, litTrue a l = true)
  | [], [], _, _ => by simp [wsum, lhs]
  | [], _ :: _, h, _ => by simp at h
  | _ :: _, [], h, _ => by simp at h
  | l :: ls, w :: ws, h, hp => by
    have hlen : ls.length = ws.length := by simpa using h
    have hp' : ∀ x ∈ ws, 0 < x := fun x hx => hp x (by simp [hx])
    have ih := wsum_eq_sum_iff a ls ws hlen hp'
    have hb := wsum_bounds a ls ws hlen (fun x hx => Int.le_of_lt (hp' x hx))
    have hw : 0 < w := hp w (by simp)
    simp only [wsum, List.zip_cons_cons, lhs, List.sum_cons, termVal, List.forall_mem_cons] at *
    cases hl : litTrue a l
    · simp; omega
    · simp only [if_true, true_and]; rw [← ih]; omega

theorem count_eq_length_iff (a : Asg) (lits : List Int) :
    count a lits = lits.length ↔ ∀ l ∈ lits, litTrue a l = true := by
  simp [count, List.countP_eq_length]

theorem count_pos_iff (a : Asg) (lits : List Int) :
    0 < count a lits ↔ clauseTrue a lits = true := by
  simp [count, clauseTrue, List.countP_pos_iff]

/-! ## Meaning of a constraint, unfolded -/

theorem sem_none (a : Asg) (lits : List Int) (n : Int) :
    (PBC.sem a ⟨lits, none, n⟩ = true ↔ n ≤ (count a lits : Int)) := by
  simp [PBC.sem, PBC.terms, lhs_ones]

theorem sem_some (a : Asg) (lits ws : List Int) (n : Int) :
    (PBC.sem a ⟨lits, some ws, n⟩ = true ↔ n ≤ wsum a lits ws) := by
  unfold PBC.sem PBC.terms wsum
  exact decide_eq_true_iff

theorem cardSem_eq (a : Asg) (c : CardC) : c.sem a = PBC.sem a ⟨c.lits, none, c.atLeast⟩ := rfl

theorem normal_none (lits : List Int) (n : Int) :
    (PBC.normal ⟨lits, none, n⟩ = true ↔ ∀ l ∈ lits, l ≠ 0) := by
  simp [PBC.normal]

theorem normal_some (lits ws : List Int) (n : Int) :
    (PBC.normal ⟨lits, some ws, n⟩ = true ↔
      (∀ l ∈ lits, l ≠ 0) ∧ ws.length = lits.length ∧ ∀ w ∈ ws, 0 < w) := by
  simp [PBC.normal]

/-! ## `PropClause`, `AtLeast`, `AtMost` -/

/-- `PropClause(lits...)` is the clause. No hypothesis at all. -/
theorem propClause_sem (a : Asg) (lits : List Int) :
    (propClause lits).sem a = clauseTrue a lits := by
  rw [Bool.eq_iff_iff, propClause, sem_none, ← count_pos_iff]; omega

example : (propClause [1, -2, 1]).sem (asgOf [false, false]) = true := by decide

/-- `AtLeast(lits, n)`: at least `n` occurrences of true literals. No hypothesis at all. -/
theorem atLeast_sem (a : Asg) (lits : List Int) (n : Int) :
    ((atLeast lits n).sem a = true ↔ n ≤ (count a lits : Int)) := sem_none a lits n

example : (atLeast [1, -2, 3, 1] 3).sem (asgOf [true, false, false]) = true := by decide

/-- `AtMost(lits, n)`: at most `n` occurrences of true literals (non-zero literals). -/
theorem atMost_sem (a : Asg) (lits : List Int) (n : Int) (hz : ∀ l ∈ lits, l ≠ 0) :
    ((atMost lits n).sem a = true ↔ (count a lits : Int) ≤ n) := by
  have h := count_neg a lits hz
  simp only [atMost, sem_none, List.length_map]
  omega

example : (∀ l ∈ [1, -2, 3, -1], l ≠ 0) ∧
    (atMost [1, -2, 3, -1] 2).sem (asgOf [true, true, true]) = true := by decide

/-! ## `AtLeast1`, `AtMost1`, `Exactly1` -/

theorem atLeast1_sem (a : Asg) (lits : List Int) :
    (atLeast1 lits).sem a = clauseTrue a lits := propClause_sem a lits

theorem atMost1_sem (a : Asg) (lits : List Int) (hz : ∀ l ∈ lits, l ≠ 0) :
    ((atMost1 lits).sem a = true ↔ count a lits ≤ 1) := by
  have h := count_neg a lits hz
  simp only [atMost1, cardSem_eq, sem_none]
  omega

example : (∀ l ∈ [1, 2, -3], l ≠ 0) ∧ (atMost1 [1, 2, -3]).sem (asgOf [false, true, true]) = true := by
  decide

/-- `Exactly1(lits...)`: exactly one occurrence of a true literal. -/
theorem exactly1_sem (a : Asg) (lits : List Int) (hz : ∀ l ∈ lits, l ≠ 0) :
    ((exactly1 lits).all (fun c => c.sem a) = true ↔ count a lits = 1) := by
  have h1 := atMost1_sem a lits hz
  have h2 : ((atLeast1 lits).sem a = true ↔ 0 < count a lits) := by
    rw [atLeast1_sem, count_pos_iff]
  simp only [exactly1, List.all_cons, List.all_nil, Bool.and_true, Bool.and_eq_true, h1, h2]
  omega

example : (∀ l ∈ [1, 2, -3], l ≠ 0) ∧
    (exactly1 [1, 2, -3]).all (fun c => c.sem (asgOf [false, true, true])) = true := by decide

/-! ## `GtEq` -/

/-- The loop of `GtEq` preserves `Σ wᵢ·[lᵢ] − n`. -/
theorem gtEqLoop_lhs (a : Asg) : ∀ (lits ws : List Int) (n : Int),
    lits.length = ws.length → (∀ l ∈ lits, l ≠ 0) →
    wsum a (gtEqLoop lits ws n).1 (gtEqLoop lits ws n).2.1 - (gtEqLoop lits ws n).2.2
      = wsum a lits ws - n
  | [], [], n, _, _ => by simp [gtEqLoop, lhs, wsum]
  | [], _ :: _, _, h, _ => by simp at h
  | _ :: _, [], _, h, _ => by simp at h
  | l :: ls, w :: ws, n, h, hz => by
    have hl : l ≠ 0 := hz l (by simp)
    have hz' : ∀ x ∈ ls, x ≠ 0 := fun x hx => hz x (by simp [hx])
    have h' : ls.length = ws.length := by simpa using h
    unfold gtEqLoop
    simp only [wsum] at *
    split
    · have ih := gtEqLoop_lhs a ls ws (n + -w) h' hz'
      simp only [wsum, List.zip_cons_cons, lhs] at *
      rw [termVal_neg a (-w) l hl]
      simp only [termVal] at *
      split <;> omega
    · split
      · have ih := gtEqLoop_lhs a ls ws n h' hz'
        simp only [wsum, List.zip_cons_cons, lhs, termVal] at *
        split <;> omega
      · have ih := gtEqLoop_lhs a ls ws n h' hz'
        simp only [wsum, List.zip_cons_cons, lhs] at *
        omega

/-- The loop of `GtEq` returns as many weights as literals, all weights strictly positive, and
    non-zero literals. -/
theorem gtEqLoop_normal : ∀ (lits ws : List Int) (n : Int), (∀ l ∈ lits, l ≠ 0) →
    (∀ l ∈ (gtEqLoop lits ws n).1, l ≠ 0) ∧
    (gtEqLoop lits ws n).2.1.length = (gtEqLoop lits ws n).1.length ∧
    (∀ w ∈ (gtEqLoop lits ws n).2.1, 0 < w)
  | [], _, _, _ => by simp [gtEqLoop]
  | _ :: _, [], _, _ => by simp [gtEqLoop]
  | l :: ls, w :: ws, n, hz => by
    have hl : l ≠ 0 := hz l (by simp)
    have hz' : ∀ x ∈ ls, x ≠ 0 := fun x hx => hz x (by simp [hx])
    unfold gtEqLoop
    split
    · have ih := gtEqLoop_normal ls ws (n + -w) hz'
      simp only [List.forall_mem_cons, List.length_cons]
      refine ⟨⟨by omega, ih.1⟩, by omega, by omega, ih.2.2⟩
    · split
      · exact gtEqLoop_normal ls ws n hz'
      · have ih := gtEqLoop_normal ls ws n hz'
        simp only [List.forall_mem_cons, List.length_cons]
        refine ⟨⟨hl, ih.1⟩, by omega, by omega, ih.2.2⟩

/-- Closed form of the `GtEq` loop: zero-weight entries are deleted, the others keep their order;
    a negative weight is replaced by its absolute value and its literal negated; the degree grows
    by the sum of the absolute values of the negative weights. -/
theorem gtEqLoop_closed : ∀ (lits ws : List Int) (n : Int), lits.length = ws.length →
    gtEqLoop lits ws n =
      (((lits.zip ws).filter (fun p => p.2 != 0)).map (fun p => if p.2 < 0 then -p.1 else p.1),
       (ws.filter (fun w => w != 0)).map (fun w => if w < 0 then -w else w),
       n + ((ws.filter (fun w => decide (w < 0))).map (fun w => -w)).sum)
  | [], [], n, _ => by simp [gtEqLoop]
  | [], _ :: _, _, h => by simp at h
  | _ :: _, [], _, h => by simp at h
  | l :: ls, w :: ws, n, h => by
    have h' : ls.length = ws.length := by simpa using h
    unfold gtEqLoop
    by_cases h1 : w < 0
    · have h0 : w ≠ 0 := by omega
      simp only [h1, if_true, gtEqLoop_closed ls ws (n + -w) h', List.zip_cons_cons]
      simp [h0, h1]; omega
    · by_cases h2 : w = 0
      · subst h2
        simp only [gtEqLoop_closed ls ws n h', List.zip_cons_cons]
        simp
      · simp only [h1, h2, if_false, gtEqLoop_closed ls ws n h', List.zip_cons_cons]
        simp [h1, h2]
example : gtEqLoop [1, 2, 3, 4] [0, -2, 0, 3] 1 = ([-2, 4], [2, 3], 3) := by decide

/-- When does `GtEq` panic: exactly when the weights are non-empty and not as many as the
    literals. (The doc comment says "will panic if len(weights) != len(lits)".) -/
theorem gtEq_eq_none (lits : List Int) (ws : Option (List Int)) (n : Int) :
    gtEq lits ws n = none ↔ (slen ws ≠ 0 ∧ lits.length ≠ slen ws) := by
  unfold gtEq
  split
  · rename_i h; simpa using h
  · rename_i h
    constructor
    · intro h'; split at h' <;> simp at h'
    · intro h'; simp at h; omega

/-- `GtEq(lits, nil, n)`: all weights are 1. -/
theorem gtEq_nil (a : Asg) (lits : List Int) (n : Int) :
    gtEq lits none n = some ⟨lits, none, n⟩ ∧
    (PBC.sem a ⟨lits, none, n⟩ = true ↔ n ≤ (count a lits : Int)) := by
  refine ⟨by simp [gtEq, slen], sem_none a lits n⟩

/-- **`GtEq`**: for as many (non-nil) weights as literals, any signs, zeros allowed, the result
    means `n ≤ Σ wsᵢ·[litsᵢ]` and is in normal form (all weights > 0, non-zero literals). -/
theorem gtEq_sem (a : Asg) (lits ws : List Int) (n : Int) (c : PBC)
    (hlen : lits.length = ws.length) (hz : ∀ l ∈ lits, l ≠ 0)
    (h : gtEq lits (some ws) n = some c) :
    (c.sem a = true ↔ n ≤ wsum a lits ws) ∧ c.normal = true := by
  cases ws with
  | nil =>
    have : lits = [] := by simpa using hlen
    subst this
    simp only [gtEq, slen, Option.getD_some, List.length_nil, bne_self_eq_false, Bool.false_and,
      Bool.false_eq_true, if_false, Option.some.injEq] at h
    subst h
    simp [sem_some, PBC.normal]
  | cons w ws' =>
    simp only [gtEq, slen, Option.getD_some, hlen, bne_self_eq_false, Bool.and_false,
      Bool.false_eq_true, if_false, Option.some.injEq] at h
    subst h
    have h1 := gtEqLoop_lhs a lits (w :: ws') n hlen hz
    have h2 := gtEqLoop_normal lits (w :: ws') n hz
    rw [sem_some, normal_some]
    exact ⟨by omega, h2⟩

example : gtEq [1, 2, -3, 4, 2] (some [2, -3, 0, 5, -1]) 4 = some ⟨[1, -2, 4, -2], some [2, 3, 5, 1], 8⟩ := by
  decide

/-- Existence: `GtEq` does not panic on lists of equal length. -/
theorem gtEq_isSome (lits ws : List Int) (n : Int) (hlen : lits.length = ws.length) :
    ∃ c, gtEq lits (some ws) n = some c := by
  cases h : gtEq lits (some ws) n with
  | some c => exact ⟨c, rfl⟩
  | none => rw [gtEq_eq_none] at h; simp [slen] at h; omega

/-! ## `LtEq` -/

/-- `LtEq` panics exactly when there are not as many weights as literals (`nil` = 0 weights). -/
theorem ltEq_eq_none (lits : List Int) (ws : Option (List Int)) (n : Int) :
    ltEq lits ws n = none ↔ lits.length ≠ slen ws := by
  unfold ltEq
  split
  · simp; omega
  · rw [gtEq_eq_none]; simp; omega

/-- **`LtEq`**: the result means `Σ wsᵢ·[litsᵢ] ≤ n` and is in normal form. -/
theorem ltEq_sem (a : Asg) (lits ws : List Int) (n : Int) (c : PBC)
    (hlen : lits.length = ws.length) (hz : ∀ l ∈ lits, l ≠ 0)
    (h : ltEq lits (some ws) n = some c) :
    (c.sem a = true ↔ wsum a lits ws ≤ n) ∧ c.normal = true := by
  unfold ltEq at h
  split at h
  · simp at h
  · have hz' : ∀ l ∈ lits.map (fun l => -l), l ≠ 0 := by
      intro l hl
      rcases List.mem_map.1 hl with ⟨x, hx, rfl⟩
      have := hz x hx
      omega
    have hg := gtEq_sem a (lits.map (fun l => -l)) ws _ c (by simpa using hlen) hz' h
    have hs := wsum_neg a lits ws hlen hz
    have ht : List.take lits.length ws = ws := by rw [hlen]; exact List.take_length
    simp only [Option.getD_some, ht] at hg
    exact ⟨by rw [hg.1]; omega, hg.2⟩

example : ltEq [1, 2, -3] (some [1, -2, 0]) 2 = some ⟨[-1, 2], some [1, 2], -1⟩ := by decide

/-- `LtEq(nil, nil, n)` is the only non-panicking call with `nil` weights; it returns the
    empty constraint `0 ≥ -n`, which indeed means `0 ≤ n`. -/
theorem ltEq_nil (a : Asg) (n : Int) :
    ltEq [] none n = some ⟨[], none, -n⟩ ∧ (PBC.sem a ⟨[], none, -n⟩ = true ↔ 0 ≤ n) := by
  refine ⟨by simp [ltEq, gtEq, slen], ?_⟩
  rw [sem_none, count_nil]; omega

/-! ## Constraints that the front end ignores / refutes / turns into units -/

/-- `card <= 0`: "trivially SAT, ignore" is right for a constraint in normal form. -/
theorem sem_of_atLeast_nonpos (a : Asg) (c : PBC) (hn : c.normal = true) (h : c.atLeast ≤ 0) :
    c.sem a = true := by
  rcases c with ⟨lits, _ | ws, n⟩
  · rw [sem_none]; simp only at h; omega
  · rw [normal_some] at hn
    have := wsum_bounds a lits ws hn.2.1.symm (fun w hw => Int.le_of_lt (hn.2.2 w hw))
    rw [sem_some]; simp only at h; omega

/-- `sumW < card`: "cannot be satisfied" is right. -/
theorem sem_of_weightSum_lt (a : Asg) (c : PBC) (hn : c.normal = true)
    (h : c.weightSum < c.atLeast) : c.sem a = false := by
  rcases c with ⟨lits, _ | ws, n⟩
  · have := count_le_length a lits
    rw [Bool.eq_false_iff, Ne, sem_none]; simp only [PBC.weightSum] at h; omega
  · rw [normal_some] at hn
    have := wsum_bounds a lits ws hn.2.1.symm (fun w hw => Int.le_of_lt (hn.2.2 w hw))
    rw [Bool.eq_false_iff, Ne, sem_some]; simp only [PBC.weightSum] at h; omega

/-- `sumW == card`: "all lits must be true" is right. -/
theorem sem_of_weightSum_eq (a : Asg) (c : PBC) (hn : c.normal = true)
    (h : c.weightSum = c.atLeast) : (c.sem a = true ↔ ∀ l ∈ c.lits, litTrue a l = true) := by
  rcases c with ⟨lits, _ | ws, n⟩
  · have := count_le_length a lits
    dsimp only
    rw [sem_none, ← count_eq_length_iff]; simp only [PBC.weightSum] at h; omega
  · rw [normal_some] at hn
    have hb := wsum_bounds a lits ws hn.2.1.symm (fun w hw => Int.le_of_lt (hn.2.2 w hw))
    rw [sem_some, ← wsum_eq_sum_iff a lits ws hn.2.1.symm hn.2.2]
    simp only [PBC.weightSum] at h; omega

example : PBC.normal ⟨[1, -2, 3], some [2, 3, 1], 6⟩ = true ∧
    PBC.weightSum ⟨[1, -2, 3], some [2, 3, 1], 6⟩ = 6 := by decide

/-- The case analysis of `ParsePBConstrs` / `parsePBConstrLine`, all four branches. -/
theorem frontPB_sound (a : Asg) (c : PBC) (hn : c.normal = true) :
    match frontPB c with
    | .dropped => c.sem a = true
    | .unsat => c.sem a = false
    | .units ls => (c.sem a = true ↔ ∀ l ∈ ls, litTrue a l = true)
    | .kept => True := by
  unfold frontPB
  by_cases h1 : c.atLeast ≤ 0
  · rw [if_pos h1]; exact sem_of_atLeast_nonpos a c hn h1
  · by_cases h2 : c.weightSum < c.atLeast
    · rw [if_neg h1, if_pos h2]; exact sem_of_weightSum_lt a c hn h2
    · by_cases h3 : c.weightSum = c.atLeast
      · rw [if_neg h1, if_neg h2, if_pos h3]; exact sem_of_weightSum_eq a c hn h3
      · rw [if_neg h1, if_neg h2, if_neg h3]; trivial

/-- The case analysis of `ParseCardConstrs` (the code panics on a zero literal in the last
    two branches, hence the hypothesis costs nothing there). -/
theorem frontCard_sound (a : Asg) (c : CardC) (hz : ∀ l ∈ c.lits, l ≠ 0) :
    match frontCard c with
    | .dropped => c.sem a = true
    | .unsat => c.sem a = false
    | .units ls => (c.sem a = true ↔ ∀ l ∈ ls, litTrue a l = true)
    | .kept => True := by
  have hn : PBC.normal ⟨c.lits, none, c.atLeast⟩ = true := (normal_none _ _).2 hz
  unfold frontCard
  rw [cardSem_eq]
  by_cases h1 : c.atLeast ≤ 0
  · rw [if_pos h1]; exact sem_of_atLeast_nonpos a _ hn h1
  · by_cases h2 : (c.lits.length : Int) < c.atLeast
    · rw [if_neg h1, if_pos h2]; exact sem_of_weightSum_lt a _ hn h2
    · by_cases h3 : (c.lits.length : Int) = c.atLeast
      · rw [if_neg h1, if_neg h2, if_pos h3]; exact sem_of_weightSum_eq a _ hn h3
      · rw [if_neg h1, if_neg h2, if_neg h3]; trivial

/-! ## `Eq` -/

/-- `Eq` panics exactly when there are not as many weights as literals. -/
theorem eq_eq_none (lits : List Int) (ws : Option (List Int)) (n : Int) :
    eq lits ws n = none ↔ lits.length ≠ slen ws := by
  unfold eq
  split
  · rename_i h
    rw [gtEq_eq_none] at h
    simp only [slen, Option.getD_some] at h
    simp only [slen]; constructor
    · intro _; exact h.2
    · intro _; trivial
  · split
    · rename_i h; rw [ltEq_eq_none] at h; simp [h]
    · rename_i h
      have : ¬ ltEq lits ws n = none := by simp [h]
      rw [ltEq_eq_none] at this
      simp only [reduceCtorEq, false_iff]; exact this

/-- **`Eq`**: the conjunction of the returned constraints means `Σ wsᵢ·[litsᵢ] = n`; each returned
    constraint is in normal form and has `AtLeast > 0`. The constraints with `AtLeast ≤ 0` are
    left out by the code; that is harmless because they are true under every assignment
    (`sem_of_atLeast_nonpos`), which is exactly what this proof uses. -/
theorem eq_sem (a : Asg) (lits ws : List Int) (n : Int) (cs : List PBC)
    (hlen : lits.length = ws.length) (hz : ∀ l ∈ lits, l ≠ 0)
    (h : eq lits (some ws) n = some cs) :
    (cs.all (fun c => c.sem a) = true ↔ wsum a lits ws = n) ∧
    (∀ c ∈ cs, c.normal = true ∧ 0 < c.atLeast) := by
  unfold eq at h
  simp only [Option.getD_some] at h
  split at h
  · simp at h
  · rename_i ge hge
    split at h
    · simp at h
    · rename_i le hle
      simp only [Option.some.injEq] at h
      subst h
      have hg := gtEq_sem a lits ws n ge hlen hz hge
      have hl := ltEq_sem a lits ws n le hlen hz hle
      have tg := sem_of_atLeast_nonpos a ge hg.2
      have tl := sem_of_atLeast_nonpos a le hl.2
      have hgi := hg.1
      have hli := hl.1
      by_cases c1 : ge.atLeast > 0 <;> by_cases c2 : le.atLeast > 0
      · rw [if_pos c1, if_pos c2]
        refine ⟨?_, ?_⟩
        · simp only [List.cons_append, List.nil_append, List.all_cons, List.all_nil,
            Bool.and_true, Bool.and_eq_true, hgi, hli]
          omega
        · intro c hc
          simp only [List.cons_append, List.nil_append, List.mem_cons, List.not_mem_nil,
            or_false] at hc
          rcases hc with rfl | rfl
          · exact ⟨hg.2, c1⟩
          · exact ⟨hl.2, c2⟩
      · rw [if_pos c1, if_neg c2]
        have hle : wsum a lits ws ≤ n := hli.1 (tl (by omega))
        refine ⟨?_, ?_⟩
        · simp only [List.append_nil, List.all_cons, List.all_nil, Bool.and_true, hgi]
          omega
        · intro c hc
          simp only [List.append_nil, List.mem_cons, List.not_mem_nil, or_false] at hc
          subst hc
          exact ⟨hg.2, c1⟩
      · rw [if_neg c1, if_pos c2]
        have hge' : n ≤ wsum a lits ws := hgi.1 (tg (by omega))
        refine ⟨?_, ?_⟩
        · simp only [List.nil_append, List.all_cons, List.all_nil, Bool.and_true, hli]
          omega
        · intro c hc
          simp only [List.nil_append, List.mem_cons, List.not_mem_nil, or_false] at hc
          subst hc
          exact ⟨hl.2, c2⟩
      · rw [if_neg c1, if_neg c2]
        have hge' : n ≤ wsum a lits ws := hgi.1 (tg (by omega))
        have hle : wsum a lits ws ≤ n := hli.1 (tl (by omega))
        refine ⟨?_, ?_⟩
        · simp only [List.append_nil, List.all_nil, true_iff]
          omega
        · intro c hc; simp at hc

example : eq [1, 2, 3] (some [1, -2, 3]) 2 =
    some [⟨[1, -2, 3], some [1, 2, 3], 4⟩, ⟨[-1, 2, -3], some [1, 2, 3], 2⟩] := by decide
example : eq [1, 2] (some [0, 0]) 0 = some [] := by decide

/-! ## Saturation (`PBConstr.Clause()`) -/

theorem saturate_lhs (a : Asg) (d : Int) (hd : 0 ≤ d) : ∀ (lits ws : List Int),
    (∀ w ∈ ws, 0 ≤ w) →
    0 ≤ wsum a lits (ws.map (fun w => if w > d then d else w)) ∧
    wsum a lits (ws.map (fun w => if w > d then d else w)) ≤ wsum a lits ws ∧
    (wsum a lits (ws.map (fun w => if w > d then d else w)) = wsum a lits ws ∨
      d ≤ wsum a lits (ws.map (fun w => if w > d then d else w)))
  | [], ws, _ => by simp [wsum, lhs]
  | _ :: _, [], _ => by simp [wsum, lhs]
  | l :: ls, w :: ws, hp => by
    have ih := saturate_lhs a d hd ls ws (fun x hx => hp x (by simp [hx]))
    have hw : 0 ≤ w := hp w (by simp)
    simp only [wsum, List.map_cons, List.zip_cons_cons, lhs, termVal] at *
    repeat' split
    all_goals omega

/-- **Saturation** keeps the meaning, for non-negative weights and `AtLeast ≥ 0` (in
    particular for positive weights and `AtLeast ≥ 1`). No hypothesis on lengths or literals. -/
theorem saturate_sem (a : Asg) (c : PBC) (hw : ∀ ws, c.weights = some ws → ∀ w ∈ ws, 0 ≤ w)
    (hd : 0 ≤ c.atLeast) : (saturate c).sem a = c.sem a := by
  rcases c with ⟨lits, _ | ws, n⟩
  · rfl
  · have h := saturate_lhs a n hd lits ws (hw ws rfl)
    rw [Bool.eq_iff_iff]
    simp only [saturate, Option.map_some, sem_some]
    omega

/-- Saturation keeps the normal form when `AtLeast ≥ 1`. -/
theorem saturate_normal (c : PBC) (hn : c.normal = true) (hd : 1 ≤ c.atLeast) :
    (saturate c).normal = true := by
  rcases c with ⟨lits, _ | ws, n⟩
  · exact hn
  · rw [normal_some] at hn
    simp only [saturate, Option.map_some, normal_some, List.length_map, List.mem_map]
    refine ⟨hn.1, hn.2.1, ?_⟩
    rintro w ⟨x, hx, rfl⟩
    have := hn.2.2 x hx
    simp only at hd
    split <;> omega

example : saturate ⟨[1, -2, 3], some [7, 3, 1], 4⟩ = ⟨[1, -2, 3], some [4, 3, 1], 4⟩ := by decide

/-! ## Why the hypotheses are there (machine-checked witnesses)

* `hlen` in `gtEq_sem`: `GtEq([1,2], []int{}, 1)` (empty, non-nil weights) does not panic and
  returns a constraint with two literals and zero weights, whose `WeightSum` is 0: -/
example : gtEq [1, 2] (some []) 1 = some ⟨[1, 2], some [], 1⟩ ∧
    frontPB ⟨[1, 2], some [], 1⟩ = .unsat ∧ frontPB ⟨[1, 2], none, 1⟩ = .kept := by decide

/-- * `normal` in the front-end lemmas: a `PBConstr` literal built by hand with a zero weight is
  turned into units although `1·x1 + 0·x2 ≥ 1` does not force `x2`: -/
example : frontPB ⟨[1, 2], some [1, 0], 1⟩ = .units [1, 2] ∧
    PBC.sem (asgOf [true, false]) ⟨[1, 2], some [1, 0], 1⟩ = true := by decide

/-- * … and one with a negative weight is dropped although `-1·x1 ≥ 0` means `¬x1`: -/
example : frontPB ⟨[1], some [-1], 0⟩ = .dropped ∧
    PBC.sem (asgOf [true]) ⟨[1], some [-1], 0⟩ = false := by decide

/-- * non-zero literals: with the literal `0`, `AtMost` is not "at most n true"
  (`-0 = 0`, so negating does nothing). -/
example : (atMost [0] 0).sem (asgOf []) = true ∧ count (asgOf []) [0] = 1 := by decide

/-- * `0 ≤ atLeast` in `saturate_sem`: with a negative degree the cap makes weights negative
  (in Go, `Clause()` then calls `NewPBClause`, which panics for a degree < 1). -/
example : PBC.sem (asgOf [true, true]) ⟨[1, 2], some [5, 5], -1⟩ = true ∧
    PBC.sem (asgOf [true, true]) (saturate ⟨[1, 2], some [5, 5], -1⟩) = false := by decide

end GS.Constr
