import GS.Model.SimplifyPB
/-!
# C14 (last step) — `(*Clause).SimplifyPB` is sound

`cuttingPlanes` ends with `pb.clause().SimplifyPB()`. For the mirror `simplifyTerms`
(`GS.Model.SimplifyPB`) and every term list with non-negative weights (no sortedness is needed
for soundness, and literals may repeat):

* `ok = false` only for unsatisfiable constraints (`simplify_unsat`);
* the saturation loop never indexes an empty slice (`simplify_no_panic`, no hypothesis);
* every returned unit is entailed by the constraint (`simplify_units`);
* the constraint is equivalent to units ∧ remainder (`simplify_equiv`).
-/
namespace GS

theorem lhs_nonneg (a : Asg) (ts : List (Int × Int)) (hw : ∀ t ∈ ts, 0 ≤ t.1) : 0 ≤ lhs a ts := by
  induction ts with
  | nil => simp [lhs]
  | cons t ts ih =>
    have h1 := hw t (by simp)
    have h2 := ih (fun t ht => hw t (by simp [ht]))
    simp only [lhs, termVal]
    split <;> omega

theorem lhs_le_weightSum (a : Asg) (ts : List (Int × Int)) (hw : ∀ t ∈ ts, 0 ≤ t.1) :
    lhs a ts ≤ weightSum ts := by
  induction ts with
  | nil => simp [lhs, weightSum]
  | cons t ts ih =>
    have h1 := hw t (by simp)
    have h2 := ih (fun t ht => hw t (by simp [ht]))
    simp only [lhs, termVal, weightSum]
    split <;> omega

/-- a false literal of weight `w` caps the left-hand side at `weightSum - w` -/
theorem lhs_le_of_false (a : Asg) (ts : List (Int × Int)) (hw : ∀ t ∈ ts, 0 ≤ t.1)
    (t : Int × Int) (ht : t ∈ ts) (hf : litTrue a t.2 = false) :
    lhs a ts ≤ weightSum ts - t.1 := by
  induction ts with
  | nil => simp at ht
  | cons s ts ih =>
    have h1 := hw s (by simp)
    have hw' : ∀ t ∈ ts, 0 ≤ t.1 := fun t ht => hw t (by simp [ht])
    rcases List.mem_cons.mp ht with rfl | hmem
    · have := lhs_le_weightSum a ts hw'
      simp only [lhs, termVal, weightSum, hf]
      simp; omega
    · have := ih hw' hmem
      simp only [lhs, termVal, weightSum]
      split <;> omega

/-! ### the unit loop -/

theorem takeUnits_nil (th c : Int) : takeUnits th [] c = ([], c, []) := rfl

theorem takeUnits_cons (th c : Int) (t : Int × Int) (ts : List (Int × Int)) :
    takeUnits th (t :: ts) c =
      if t.1 > th then
        (t.2 :: (takeUnits th ts (c - t.1)).1, (takeUnits th ts (c - t.1)).2.1,
          (takeUnits th ts (c - t.1)).2.2)
      else ([], c, t :: ts) := rfl

/-- every unit is the literal of a term heavier than the threshold -/
theorem takeUnits_units (th c : Int) (ts : List (Int × Int)) :
    ∀ u ∈ (takeUnits th ts c).1, ∃ t ∈ ts, t.2 = u ∧ th < t.1 := by
  induction ts generalizing c with
  | nil => simp [takeUnits_nil]
  | cons t ts ih =>
    rw [takeUnits_cons]
    by_cases h : t.1 > th
    · rw [if_pos h]
      intro u hu
      rcases List.mem_cons.mp hu with rfl | hu
      · exact ⟨t, by simp, rfl, h⟩
      · obtain ⟨s, hs, h1, h2⟩ := ih _ u hu
        exact ⟨s, by simp [hs], h1, h2⟩
    · rw [if_neg h]; simp

theorem takeUnits_rest_mem (th c : Int) (ts : List (Int × Int)) :
    ∀ t ∈ (takeUnits th ts c).2.2, t ∈ ts := by
  induction ts generalizing c with
  | nil => simp [takeUnits_nil]
  | cons t ts ih =>
    rw [takeUnits_cons]
    by_cases h : t.1 > th
    · rw [if_pos h]; intro s hs; exact List.mem_cons_of_mem _ (ih _ s hs)
    · rw [if_neg h]; intro s hs; exact hs

theorem takeUnits_weightSum (th c : Int) (ts : List (Int × Int)) :
    weightSum (takeUnits th ts c).2.2 - (takeUnits th ts c).2.1 = weightSum ts - c := by
  induction ts generalizing c with
  | nil => simp [takeUnits_nil]
  | cons t ts ih =>
    rw [takeUnits_cons]
    by_cases h : t.1 > th
    · rw [if_pos h]
      have := ih (c - t.1)
      simp only [weightSum]; omega
    · rw [if_neg h]

/-- when the units are true, the removed terms contribute exactly what was subtracted from the
    cardinality -/
theorem takeUnits_lhs (a : Asg) (th c : Int) (ts : List (Int × Int))
    (hu : ∀ u ∈ (takeUnits th ts c).1, litTrue a u = true) :
    lhs a (takeUnits th ts c).2.2 - (takeUnits th ts c).2.1 = lhs a ts - c := by
  induction ts generalizing c with
  | nil => simp [takeUnits_nil]
  | cons t ts ih =>
    rw [takeUnits_cons] at hu ⊢
    by_cases h : t.1 > th
    · rw [if_pos h] at hu ⊢
      have ht : litTrue a t.2 = true := hu _ (by simp)
      have := ih (c - t.1) (fun u hu' => hu u (by simp [hu']))
      simp only [lhs, termVal, ht, if_true]; omega
    · rw [if_neg h]

/-! ### the saturation step -/

theorem saturate_equiv (a : Asg) (c : Int) (t : Int × Int) (ts : List (Int × Int))
    (hw : ∀ s ∈ ts, 0 ≤ s.1) :
    c ≤ lhs a ((if t.1 > c then (c, t.2) else t) :: ts) ↔ c ≤ lhs a (t :: ts) := by
  have := lhs_nonneg a ts hw
  by_cases h : t.1 > c
  · rw [if_pos h]
    simp only [lhs, termVal]
    cases litTrue a t.2 <;> simp <;> omega
  · rw [if_neg h]

/-! ### main theorems -/

theorem simplifyTerms_eq (ts : List (Int × Int)) (card : Int) :
    simplifyTerms ts card =
      if weightSum ts - card < 0 then .unsat
      else if (takeUnits (weightSum ts - card) ts card).2.1 ≤ 0 then
        .done (takeUnits (weightSum ts - card) ts card).1 none
      else match saturateHead (takeUnits (weightSum ts - card) ts card).2.1
            (takeUnits (weightSum ts - card) ts card).2.2 with
        | none => .panic
        | some ts' => .done (takeUnits (weightSum ts - card) ts card).1
            (some (ts', (takeUnits (weightSum ts - card) ts card).2.1)) := rfl

/-- **`ok = false` ⇒ unsatisfiable.** -/
theorem simplify_unsat (ts : List (Int × Int)) (card : Int) (hw : ∀ t ∈ ts, 0 ≤ t.1)
    (h : simplifyTerms ts card = .unsat) (a : Asg) : Lin.holds a ⟨ts, card⟩ = false := by
  rw [simplifyTerms_eq] at h
  by_cases h1 : weightSum ts - card < 0
  · have := lhs_le_weightSum a ts hw
    simp [Lin.holds]; omega
  · rw [if_neg h1] at h
    split at h
    · cases h
    · split at h <;> cases h

/-- **The saturation loop never panics**, for any input. -/
theorem simplify_no_panic (ts : List (Int × Int)) (card : Int) : simplifyTerms ts card ≠ .panic := by
  rw [simplifyTerms_eq]
  intro h
  by_cases h1 : weightSum ts - card < 0
  · rw [if_pos h1] at h; cases h
  · rw [if_neg h1] at h
    by_cases h2 : (takeUnits (weightSum ts - card) ts card).2.1 ≤ 0
    · rw [if_pos h2] at h; cases h
    · rw [if_neg h2] at h
      have hsum := takeUnits_weightSum (weightSum ts - card) card ts
      cases hr : (takeUnits (weightSum ts - card) ts card).2.2 with
      | nil =>
        rw [hr] at hsum
        simp only [weightSum] at hsum
        omega
      | cons t r => rw [hr] at h; simp [saturateHead] at h

/-- the result, when `ok = true` -/
theorem simplify_done (ts : List (Int × Int)) (card : Int) (units : List Int)
    (rest : Option (List (Int × Int) × Int)) (h : simplifyTerms ts card = .done units rest) :
    0 ≤ weightSum ts - card ∧ units = (takeUnits (weightSum ts - card) ts card).1 ∧
    (((takeUnits (weightSum ts - card) ts card).2.1 ≤ 0 ∧ rest = none) ∨
     (0 < (takeUnits (weightSum ts - card) ts card).2.1 ∧
      ∃ t r, (takeUnits (weightSum ts - card) ts card).2.2 = t :: r ∧
        rest = some ((if t.1 > (takeUnits (weightSum ts - card) ts card).2.1
                        then ((takeUnits (weightSum ts - card) ts card).2.1, t.2) else t) :: r,
                     (takeUnits (weightSum ts - card) ts card).2.1))) := by
  rw [simplifyTerms_eq] at h
  by_cases h1 : weightSum ts - card < 0
  · rw [if_pos h1] at h; cases h
  · rw [if_neg h1] at h
    refine ⟨by omega, ?_⟩
    by_cases h2 : (takeUnits (weightSum ts - card) ts card).2.1 ≤ 0
    · rw [if_pos h2] at h
      cases h
      exact ⟨rfl, Or.inl ⟨h2, rfl⟩⟩
    · rw [if_neg h2] at h
      cases hr : (takeUnits (weightSum ts - card) ts card).2.2 with
      | nil => rw [hr] at h; simp [saturateHead] at h
      | cons t r =>
        rw [hr] at h
        simp only [saturateHead] at h
        cases h
        exact ⟨rfl, Or.inr ⟨by omega, t, r, rfl, rfl⟩⟩

/-- **Every returned unit is entailed by the constraint.** -/
theorem simplify_units (ts : List (Int × Int)) (card : Int) (hw : ∀ t ∈ ts, 0 ≤ t.1)
    (units : List Int) (rest : Option (List (Int × Int) × Int))
    (h : simplifyTerms ts card = .done units rest) (a : Asg)
    (ha : Lin.holds a ⟨ts, card⟩ = true) : ∀ u ∈ units, litTrue a u = true := by
  obtain ⟨_, hu, _⟩ := simplify_done ts card units rest h
  subst hu
  intro u hmem
  obtain ⟨t, ht, rfl, hlt⟩ := takeUnits_units _ _ _ u hmem
  cases hf : litTrue a t.2 with
  | true => rfl
  | false =>
    have := lhs_le_of_false a ts hw t ht hf
    simp [Lin.holds] at ha
    omega

/-- **The constraint is equivalent to units ∧ remainder** (`rest = none`: no remainder). -/
theorem simplify_equiv (ts : List (Int × Int)) (card : Int) (hw : ∀ t ∈ ts, 0 ≤ t.1)
    (units : List Int) (rest : Option (List (Int × Int) × Int))
    (h : simplifyTerms ts card = .done units rest) (a : Asg) :
    Lin.holds a ⟨ts, card⟩ = true ↔
      (∀ u ∈ units, litTrue a u = true) ∧ (∀ r, rest = some r → Lin.holds a ⟨r.1, r.2⟩ = true) := by
  have hunits := simplify_units ts card hw units rest h a
  obtain ⟨_, hu, hcase⟩ := simplify_done ts card units rest h
  subst hu
  have hrw : ∀ t ∈ (takeUnits (weightSum ts - card) ts card).2.2, 0 ≤ t.1 :=
    fun t ht => hw t (takeUnits_rest_mem _ _ _ t ht)
  have hnn := lhs_nonneg a _ hrw
  constructor
  · intro ha
    have hu := hunits ha
    refine ⟨hu, ?_⟩
    have hl := takeUnits_lhs a _ card ts hu
    simp only [Lin.holds, decide_eq_true_eq] at ha
    rcases hcase with ⟨_, rfl⟩ | ⟨hpos, t, r, hr, rfl⟩
    · intro r hr; cases hr
    · intro r' hr'
      cases hr'
      simp only [Lin.holds, decide_eq_true_eq]
      rw [hr] at hrw hl
      rw [saturate_equiv a _ t r (fun s hs => hrw s (by simp [hs]))]
      omega
  · rintro ⟨hu, hrest⟩
    have hl := takeUnits_lhs a _ card ts hu
    simp only [Lin.holds, decide_eq_true_eq]
    rcases hcase with ⟨hle, rfl⟩ | ⟨hpos, t, r, hr, rfl⟩
    · omega
    · have := hrest _ rfl
      simp only [Lin.holds, decide_eq_true_eq] at this
      rw [hr] at hrw hl
      rw [saturate_equiv a _ t r (fun s hs => hrw s (by simp [hs]))] at this
      omega

/-- the remainder handed to `NewPBClause` has cardinality `≥ 1` (no "Invalid cardinality" panic) -/
theorem simplify_rest_card (ts : List (Int × Int)) (card : Int) (units : List Int)
    (r : List (Int × Int) × Int) (h : simplifyTerms ts card = .done units (some r)) : 0 < r.2 := by
  obtain ⟨_, _, hcase⟩ := simplify_done ts card units (some r) h
  rcases hcase with ⟨_, h⟩ | ⟨hpos, t, r', _, h⟩
  · cases h
  · cases h; exact hpos

/-! ### examples -/

/-- `5 x1 + 2 x2 + x3 ≥ 6`: threshold `2`, `x1` is unit, remainder `2 x2 + x3 ≥ 1`, saturated at
    index 0 to `x2 + x3 ≥ 1`. -/
example : simplifyPB [1, 2, 3] [5, 2, 1] 6 = .done [1] (some ([(1, 2), (1, 3)], 1)) := by decide
example : ∀ t ∈ List.zip [(5:Int), 2, 1] [(1:Int), 2, 3], 0 ≤ t.1 := by decide
/-- only index 0 is saturated: `3 x1 + 3 x2 + x3 ≥ 2` keeps the second weight `3 > 2`. -/
example : simplifyPB [1, 2, 3] [3, 3, 1] 2 = .done [] (some ([(2, 1), (3, 2), (1, 3)], 2)) := by decide
example : simplifyPB [1, 2] [2, 1] 4 = .unsat := by decide
example : simplifyPB [1, 2] [2, 1] 3 = .done [1, 2] none := by decide

end GS
