import GS.Props.C01_WatchLoop
/-!
# C01 (support) — `propagate` / `unifyLiteral` preserve `watchInv`, never panic, and the fuel of the
mirror's outer loop suffices
-/
namespace GS.Watch

/-- What a propagation step returns: no conflict and the invariant at the new position, or a conflict
    clause all of whose literals are false. `M` = trail length + number of unbound variables
    (conserved), `M2` = number of variables. -/
def StepPost (M M2 n0 : Nat) (ptr' : State → Nat) (res : Except Err (Option Nat × State)) : Prop :=
  ∃ confl st', res = .ok (confl, st') ∧
    Forced st'.clauses st'.reasons st'.trail n0 ∧
    (confl = none → WatchInv st' (ptr' st') ∧ st'.trail.length + zeros st'.model = M ∧
      st'.model.length = M2) ∧
    (∀ cid, confl = some cid → (∃ p, WatchInv st' p) ∧ ∃ c, st'.clauses[cid]? = some c ∧
      ∀ l ∈ c, litFalseB st'.model l = true)

theorem propBin_spec {M M2 n0 ptr : Nat} {lit lvl : Int} (hlvl : 0 < lvl) :
    ∀ (ws done : List Watcher) (st : State), WatchInv st ptr → st.trail[ptr]? = some lit →
      st.wbin[litIdx lit]? = some (done ++ ws) →
      (∀ w ∈ done, litTrueB st.model w.other = true) →
      st.trail.length + zeros st.model = M → st.model.length = M2 →
      Forced st.clauses st.reasons st.trail n0 →
      ∃ confl st', propBin lvl ws st = .ok (confl, st') ∧
        Forced st'.clauses st'.reasons st'.trail n0 ∧
        (confl = none → WatchInv st' ptr ∧ st'.trail[ptr]? = some lit ∧
          (∀ ws', st'.wbin[litIdx lit]? = some ws' → ∀ w ∈ ws', litTrueB st'.model w.other = true) ∧
          st'.trail.length + zeros st'.model = M ∧ st'.model.length = M2) ∧
        (∀ cid, confl = some cid → WatchInv st' ptr ∧ ∃ c, st'.clauses[cid]? = some c ∧
          ∀ l ∈ c, litFalseB st'.model l = true) := by
  intro ws
  induction ws with
  | nil =>
    intro done st h hat hbin hdone hm hn hF
    refine ⟨none, st, by simp [propBin], hF, ?_, by simp⟩
    intro _
    refine ⟨h, hat, ?_, hm, hn⟩
    intro ws' hws'
    rw [List.append_nil] at hbin
    rw [hbin] at hws'
    cases hws'
    exact hdone
  | cons w ws ih =>
    intro done st h hat hbin hdone hm hn hF
    have hlt : litTrueB st.model lit = true := h.trail_true lit (mem_of_getElem?_eq hat)
    have hlit0 : lit ≠ 0 := (litTrueB_iff.mp hlt).1
    obtain ⟨c, hc, hshape⟩ := h.wbin _ _ hbin w (by simp)
    rw [idxLit_litIdx hlit0] at hshape
    have hoc : w.other ∈ c := by rcases hshape with hs | hs <;> rw [hs] <;> simp
    obtain ⟨ho0, hon⟩ := (h.clauses c (mem_of_getElem?_eq hc)).2.1 _ hoc
    have hpos : 0 < w.other.natAbs := Int.natAbs_pos.mpr ho0
    have hlt' : w.other.natAbs - 1 < st.model.length := by omega
    have hget : st.model[w.other.natAbs - 1]? = some st.model[w.other.natAbs - 1] :=
      List.getElem?_eq_getElem hlt'
    have hma : modelAt st.model w.other = some st.model[w.other.natAbs - 1] := by
      unfold modelAt; simp [ho0, hget]
    have happ : done ++ [w] ++ ws = done ++ w :: ws := by simp
    rw [propBin]
    simp only [hma]
    by_cases ha : st.model[w.other.natAbs - 1] = 0
    · -- unbound: propagate
      simp only [ha, if_true]
      have hu : litUnboundB st.model w.other = true :=
        litUnboundB_iff.mpr ⟨ho0, by rw [hget, ha]⟩
      have hb := bind_eq (st := st) lvl w.cid ho0 (by rw [h.shape.1]; exact hlt') hlt'
      simp only [hb]
      apply ih (done ++ [w]) (bindSt st w.other lvl w.cid) (bindSt_inv w.cid h hu hlvl)
      · show (st.trail ++ [w.other])[ptr]? = some lit
        have hp : ptr < st.trail.length := (List.getElem?_eq_some_iff.mp hat).1
        rw [List.getElem?_append_left hp]; exact hat
      · rw [happ]; exact hbin
      · intro w' hw'
        simp only [List.mem_append, List.mem_singleton] at hw'
        rcases hw' with hw' | hw'
        · exact litTrueB_set_mono hu (hdone w' hw')
        · subst hw'; exact litTrueB_set_self hu hlvl
      · show (st.trail ++ [w.other]).length + zeros (st.model.set _ _) = M
        have := zeros_set (signedLvl_ne_zero (l := w.other) (Int.ne_of_gt hlvl))
          (litUnboundB_iff.mp hu).2
        rw [← hm, List.length_append]; simp only [List.length_singleton]; omega
      · show (st.model.set _ _).length = M2
        rw [List.length_set]; exact hn
      · apply Forced_bind h hu hc hoc _ hF
        intro x hx hxo
        have hnf : litFalseB st.model (-lit) = true := litFalseB_neg hlt
        rcases hshape with hs | hs <;> rw [hs] at hx <;> simp only [List.mem_cons,
          List.not_mem_nil, or_false] at hx <;> rcases hx with hx | hx
        · subst hx; exact hnf
        · exact absurd hx hxo
        · exact absurd hx hxo
        · subst hx; exact hnf
    · simp only [ha, if_false]
      by_cases hsgn : (decide (st.model[w.other.natAbs - 1] > 0) != decide (w.other > 0)) = true
      · -- conflict
        simp only [hsgn, if_true]
        refine ⟨some w.cid, st, rfl, hF, by simp, ?_⟩
        intro cid hcid
        cases hcid
        refine ⟨h, c, hc, ?_⟩
        have hof : litFalseB st.model w.other = true := by
          apply litFalseB_iff.mpr
          refine ⟨ho0, _, hget, ha, ?_⟩
          intro hiff
          simp only [bne_iff_ne, ne_eq, decide_eq_decide] at hsgn
          exact hsgn hiff
        have hnf : litFalseB st.model (-lit) = true := litFalseB_neg hlt
        intro l hl
        rcases hshape with hs | hs <;> rw [hs] at hl <;> simp only [List.mem_cons,
          List.not_mem_nil, or_false] at hl <;> rcases hl with hl | hl <;> subst hl <;> assumption
      · simp only [hsgn]
        have hot : litTrueB st.model w.other = true := by
          apply litTrueB_iff.mpr
          refine ⟨ho0, _, hget, ha, ?_⟩
          simp only [bne_iff_ne, ne_eq, decide_eq_decide, Decidable.not_not] at hsgn
          exact hsgn
        apply ih (done ++ [w]) st h hat (by rw [happ]; exact hbin) ?_ hm hn hF
        intro w' hw'
        simp only [List.mem_append, List.mem_singleton] at hw'
        rcases hw' with hw' | hw'
        · exact hdone w' hw'
        · subst hw'; exact hot

theorem virt_same {st : State} {lit : Int} {L : List Watcher} (h : st.wlong[litIdx lit]? = some L) :
    virt st lit L = st := by
  unfold virt
  rw [set_same h]

/-- One iteration of the outer loop of `propagate`: the pending literal `trail[ptr]` is processed. -/
theorem propLit_spec {M M2 n0 ptr : Nat} {lit lvl : Int} (hlvl : 0 < lvl) (st : State)
    (h : WatchInv st ptr) (hat : st.trail[ptr]? = some lit)
    (hm : st.trail.length + zeros st.model = M) (hn : st.model.length = M2)
    (hF : Forced st.clauses st.reasons st.trail n0) :
    StepPost M M2 n0 (fun _ => ptr + 1) (propLit lit lvl st) := by
  have hlt : litTrueB st.model lit = true := h.trail_true lit (mem_of_getElem?_eq hat)
  obtain ⟨hlit0, a, ha, _, _⟩ := litTrueB_iff.mp hlt
  have hpos : 0 < lit.natAbs := Int.natAbs_pos.mpr hlit0
  have hbound : lit.natAbs ≤ st.model.length := by
    rcases Nat.lt_or_ge (lit.natAbs - 1) st.model.length with h1 | h1
    · omega
    · rw [List.getElem?_eq_none h1] at ha; cases ha
  have hidx : litIdx lit < 2 * st.model.length := litIdx_lt hlit0 hbound
  obtain ⟨wb, hwb⟩ : ∃ wb, st.wbin[litIdx lit]? = some wb :=
    ⟨_, List.getElem?_eq_getElem (by rw [h.shape.2.1]; exact hidx)⟩
  have hwg : wget st.wbin lit = some wb := by unfold wget; simp [hlit0, hwb]
  obtain ⟨confl, st', hres, hF', hnone, hconfl⟩ :=
    propBin_spec (M := M) (M2 := M2) (n0 := n0) hlvl wb [] st h hat (by simpa using hwb) (by simp)
      hm hn hF
  unfold propLit
  simp only [hwg, hres]
  cases confl with
  | some c =>
    refine ⟨some c, st', rfl, hF', by simp, ?_⟩
    intro cid hcid
    obtain ⟨hw, hrest⟩ := hconfl cid hcid
    exact ⟨⟨ptr, hw⟩, hrest⟩
  | none =>
    obtain ⟨h', hat', hsemB, hm', hn'⟩ := hnone rfl
    simp only []
    obtain ⟨wl, hwl⟩ : ∃ wl, st'.wlong[litIdx lit]? = some wl :=
      ⟨_, List.getElem?_eq_getElem (by rw [h'.shape.2.2, hn', ← hn]; exact hidx)⟩
    have hwg' : wget st'.wlong lit = some wl := by unfold wget; simp [hlit0, hwl]
    have hmid : Mid M M2 n0 st' ptr lit [] wl := by
      refine ⟨?_, hat', (List.getElem?_eq_some_iff.mp hwl).1, by simp, hsemB, hm', hn', hF'⟩
      rw [List.nil_append, virt_same hwl]; exact h'
    obtain ⟨confl2, kept, st'', hres2, hF2, hnone2, hconfl2⟩ := simpLoop_spec hlvl wl [] st' hmid
    unfold simplify
    simp only [hwg', hres2]
    refine ⟨confl2, virt st'' lit kept, rfl, hF2, ?_, ?_⟩
    · intro hc
      have hmid2 := hnone2 hc
      exact ⟨hmid2.done, hmid2.meas, hmid2.nvars⟩
    · intro cid hcid
      obtain ⟨hw, hrest⟩ := hconfl2 cid hcid
      exact ⟨⟨ptr, hw⟩, hrest⟩

/-- the trail never holds more literals than `M` -/
theorem loop_spec {M M2 n0 : Nat} {lvl : Int} (hlvl : 0 < lvl) :
    ∀ (fuel ptr : Nat) (st : State), WatchInv st ptr →
      st.trail.length + zeros st.model = M → st.model.length = M2 → M ≤ fuel + ptr →
      Forced st.clauses st.reasons st.trail n0 →
      StepPost M M2 n0 (fun st' => st'.trail.length) (loop lvl fuel ptr st) := by
  intro fuel
  induction fuel with
  | zero =>
    intro ptr st h hm hn hf hF
    have hle := h.ptr_le
    have : ¬ ptr < st.trail.length := by omega
    have heq : ptr = st.trail.length := by omega
    refine ⟨none, st, by simp [loop, this], hF, ?_, by simp⟩
    intro _
    refine ⟨?_, hm, hn⟩
    show WatchInv st st.trail.length
    rw [← heq]; exact h
  | succ fuel ih =>
    intro ptr st h hm hn hf hF
    rw [loop]
    cases hat : st.trail[ptr]? with
    | none =>
      have hge : st.trail.length ≤ ptr := by
        rcases Nat.lt_or_ge ptr st.trail.length with h1 | h1
        · rw [List.getElem?_eq_getElem h1] at hat; cases hat
        · exact h1
      have heq : ptr = st.trail.length := Nat.le_antisymm h.ptr_le hge
      refine ⟨none, st, rfl, hF, fun _ => ⟨?_, hm, hn⟩, by simp⟩
      show WatchInv st st.trail.length
      rw [← heq]; exact h
    | some lit =>
      obtain ⟨confl, st', hres, hF', hnone, hconfl⟩ := propLit_spec hlvl st h hat hm hn hF
      simp only [hres]
      cases confl with
      | some c => exact ⟨some c, st', rfl, hF', by simp, hconfl⟩
      | none =>
        obtain ⟨h', hm', hn'⟩ := hnone rfl
        exact ih (ptr + 1) st' h' hm' hn' (by omega) hF'

/-! ## The trail only grows -/

theorem bind_trail {st st' : State} {l lvl : Int} {cid : Nat} (h : bind st l lvl cid = some st') :
    st'.trail = st.trail ++ [l] := by
  unfold bind at h
  split at h
  · cases h
  · split at h
    · cases h; rfl
    · cases h

theorem propBin_prefix {lvl : Int} : ∀ (ws : List Watcher) (st : State) (c : Option Nat) (st' : State),
    propBin lvl ws st = .ok (c, st') → ∃ t, st'.trail = st.trail ++ t := by
  intro ws
  induction ws with
  | nil => intro st c st' h; simp [propBin] at h; obtain ⟨_, rfl⟩ := h; exact ⟨[], by simp⟩
  | cons w ws ih =>
    intro st c st' h
    rw [propBin] at h
    split at h
    · cases h
    · split at h
      · split at h
        · cases h
        · rename_i st2 hb
          obtain ⟨t, ht⟩ := ih _ _ _ h
          exact ⟨w.other :: t, by rw [ht, bind_trail hb]; simp⟩
      · split at h
        · cases h; exact ⟨[], by simp⟩
        · exact ih _ _ _ h

theorem simpLoop_prefix {lit lvl : Int} : ∀ (rest kept : List Watcher) (st : State) (c : Option Nat)
    (k : List Watcher) (st' : State),
    simpLoop lit lvl rest kept st = .ok (c, k, st') → ∃ t, st'.trail = st.trail ++ t := by
  intro rest
  induction rest with
  | nil =>
    intro kept st c k st' h
    simp [simpLoop] at h
    obtain ⟨_, _, rfl⟩ := h
    exact ⟨[], by simp⟩
  | cons w rest ih =>
    intro kept st c k st' h
    rw [simpLoop_cons] at h
    split at h
    · cases h
    · exact ih _ _ _ _ _ h
    · unfold nonSatBody at h
      repeat' (first | split at h | (dsimp only at h; split at h))
      case h_3.isTrue =>
        dsimp only at h
        injection h with h
        injection h with h1 h2
        injection h2 with h2 h3
        subst h3
        exact ⟨[], (List.append_nil _).symm⟩
      all_goals first
        | (exfalso; cases h; done)
        | exact ih _ _ _ _ _ h
        | (obtain ⟨t, ht⟩ := ih _ _ _ _ _ h; exact ⟨t, ht⟩)
        | (dsimp only at h; injection h with h; injection h with h1 h2; injection h2 with h2 h3; subst h3; exact ⟨[], (List.append_nil _).symm⟩)
        | (rename_i st2 hb
           obtain ⟨t, ht⟩ := ih _ _ _ _ _ h
           exact ⟨[_] ++ t, by rw [ht, bind_trail hb, List.append_assoc]⟩)


theorem propLit_prefix {lit lvl : Int} {st st' : State} {c : Option Nat}
    (h : propLit lit lvl st = .ok (c, st')) : ∃ t, st'.trail = st.trail ++ t := by
  unfold propLit at h
  split at h
  · cases h
  · split at h
    · cases h
    · rename_i hb
      cases h
      exact propBin_prefix _ _ _ _ hb
    · rename_i st1 hb
      obtain ⟨t1, ht1⟩ := propBin_prefix _ _ _ _ hb
      unfold simplify at h
      split at h
      · cases h
      · split at h
        · cases h
        · rename_i hs
          cases h
          obtain ⟨t2, ht2⟩ := simpLoop_prefix _ _ _ _ _ _ hs
          exact ⟨t1 ++ t2, by show _ = _; rw [ht2, ht1, List.append_assoc]⟩

theorem loop_prefix {lvl : Int} : ∀ (fuel ptr : Nat) (st : State) (c : Option Nat) (st' : State),
    loop lvl fuel ptr st = .ok (c, st') → ∃ t, st'.trail = st.trail ++ t := by
  intro fuel
  induction fuel with
  | zero =>
    intro ptr st c st' h
    rw [loop] at h
    split at h
    · cases h
    · cases h; exact ⟨[], by simp⟩
  | succ fuel ih =>
    intro ptr st c st' h
    rw [loop] at h
    split at h
    · cases h; exact ⟨[], by simp⟩
    · split at h
      · cases h
      · rename_i hp
        cases h
        exact propLit_prefix hp
      · rename_i st1 hp
        obtain ⟨t1, ht1⟩ := propLit_prefix hp
        obtain ⟨t2, ht2⟩ := ih _ _ _ _ h
        exact ⟨t1 ++ t2, by rw [ht2, ht1, List.append_assoc]⟩

/-- `propagate` only appends to the trail. -/
theorem propagate_prefix {ptr : Nat} {lvl : Int} {st st' : State} {c : Option Nat}
    (h : propagate ptr lvl st = .ok (c, st')) : ∃ t, st'.trail = st.trail ++ t :=
  loop_prefix _ _ _ _ _ h

theorem Forced_init (cl : List (List Int)) (rs : List (Option Nat)) (tr : List Int) :
    Forced cl rs tr tr.length := by
  intro p l hp hl
  rw [List.getElem?_eq_none hp] at hl
  cases hl

/-- **Dynamic theorem.**  From a state satisfying `watchInv` with the trail literals from `ptr` on
    still to be processed, the mirror of `propagate(ptr, lvl)` (`lvl ≥ 1`) never panics, does not run
    out of fuel, and returns
    * either no conflict and a state satisfying `watchInv` in which every trail literal has been
      processed,
    * or a conflict clause all of whose literals are false, in a state that still satisfies `watchInv`
      (at the position of the literal being processed);
    in both cases every literal at a trail position `≥` the initial trail length is forced: its
    antecedent `reasons[var]` is a clause that contains it and whose other literals all have their
    negation earlier on the trail — the guard `isUnit` of `GS.Trail.propagateOp`. -/
theorem propagate_spec {st : State} {ptr : Nat} {lvl : Int} (h : watchInv st ptr = true)
    (hlvl : 0 < lvl) :
    ∃ confl st', propagate ptr lvl st = .ok (confl, st') ∧
      (∃ t, st'.trail = st.trail ++ t) ∧
      Forced st'.clauses st'.reasons st'.trail st.trail.length ∧
      (confl = none → watchInv st' st'.trail.length = true) ∧
      (∀ cid, confl = some cid → (∃ p, watchInv st' p = true) ∧
        ∃ c, st'.clauses[cid]? = some c ∧ ∀ l ∈ c, litFalseB st'.model l = true) := by
  rw [watchInv_iff] at h
  have hle := h.ptr_le
  obtain ⟨confl, st', hres, hF, hnone, hconfl⟩ :=
    loop_spec (M := st.trail.length + zeros st.model) (M2 := st.model.length)
      (n0 := st.trail.length) hlvl
      (st.trail.length - ptr + zeros st.model) ptr st h rfl rfl (by omega) (Forced_init _ _ _)
  refine ⟨confl, st', hres, propagate_prefix hres, hF, ?_, ?_⟩
  · intro hc
    exact (watchInv_iff _ _).mpr (hnone hc).1
  · intro cid hcid
    obtain ⟨⟨p, hp⟩, hrest⟩ := hconfl cid hcid
    exact ⟨⟨p, (watchInv_iff _ _).mpr hp⟩, hrest⟩

/-- `propagate` returning no conflict leaves nothing to propagate and no falsified clause. -/
theorem propagate_complete {st st' : State} {ptr : Nat} {lvl : Int} (h : watchInv st ptr = true)
    (hlvl : 0 < lvl) (hres : propagate ptr lvl st = .ok (none, st')) :
    ∀ c ∈ st'.clauses,
      (¬ ∀ l ∈ c, litFalseB st'.model l = true) ∧
      (∀ (i : Nat) (x : Int), c[i]? = some x → litUnboundB st'.model x = true →
        ¬ ∀ (j : Nat) (y : Int), j ≠ i → c[j]? = some y → litFalseB st'.model y = true) := by
  obtain ⟨confl, st2, hres2, _, _, hnone, _⟩ := propagate_spec h hlvl
  rw [hres] at hres2
  cases hres2
  exact watch_complete (hnone rfl)

/-- `unifyLiteral(lit, lvl)` from a fully processed state, for an unbound literal: as
    `propagate_spec`; the literals after the decision `lit` (position `trail.length`) are forced. -/
theorem unifyLiteral_spec {st : State} {lit lvl : Int} (h : watchInv st st.trail.length = true)
    (hu : litUnboundB st.model lit = true) (hlvl : 0 < lvl) :
    ∃ confl st', unifyLiteral lit lvl st = .ok (confl, st') ∧
      st'.trail[st.trail.length]? = some lit ∧
      Forced st'.clauses st'.reasons st'.trail (st.trail.length + 1) ∧
      (confl = none → watchInv st' st'.trail.length = true) ∧
      (∀ cid, confl = some cid → (∃ p, watchInv st' p = true) ∧
        ∃ c, st'.clauses[cid]? = some c ∧ ∀ l ∈ c, litFalseB st'.model l = true) := by
  have hW := (watchInv_iff _ _).mp h
  obtain ⟨hl0, hm0⟩ := litUnboundB_iff.mp hu
  have hlt : lit.natAbs - 1 < st.model.length := by
    rcases Nat.lt_or_ge (lit.natAbs - 1) st.model.length with h1 | h1
    · exact h1
    · rw [List.getElem?_eq_none h1] at hm0; cases hm0
  have hb := bindSt_inv 0 hW hu hlvl
  -- same state as `bindSt` except for the antecedent, which the invariant does not read
  have hW1 : WatchInv { st with
      model := st.model.set (lit.natAbs - 1) (signedLvl lit lvl)
      trail := st.trail ++ [lit] } st.trail.length := by
    refine ⟨?_, hb.clauses, hb.ptr_le, hb.trail_true, hb.trail_nodup, hb.bound_on_trail, hb.wbin,
      hb.wlong, hb.count, hb.semBin, hb.semLong⟩
    have := hb.shape
    simp only [bindSt, List.length_set] at this ⊢
    exact this
  unfold unifyLiteral
  have hcond : ¬ (lit = 0 ∨ ¬ lit.natAbs - 1 < st.model.length) := by
    intro hh; rcases hh with hh | hh
    · exact hl0 hh
    · exact hh hlt
  simp only [hcond, if_false]
  have hlen : (st.trail ++ [lit]).length - 1 = st.trail.length := by simp
  simp only [hlen]
  obtain ⟨confl, st', hres, ⟨t, ht⟩, hF, hnone, hconfl⟩ :=
    propagate_spec ((watchInv_iff _ _).mpr hW1) hlvl
  refine ⟨confl, st', hres, ?_, ?_, hnone, hconfl⟩
  · rw [ht]
    show (st.trail ++ [lit] ++ t)[st.trail.length]? = some lit
    rw [List.append_assoc, List.getElem?_append_right (Nat.le_refl _)]
    simp
  · simpa using hF

/-! ## Non-vacuity -/

/-- `(1 ∨ 2 ∨ 3) ∧ (¬1 ∨ 2) ∧ (¬2 ∨ ¬3 ∨ 1)` as watched by `initWatcherList`, nothing bound. -/
def exState : State :=
  { clauses := [[1, 2, 3], [-1, 2], [-2, -3, 1]],
    wbin := [[⟨1, 2⟩], [], [], [⟨1, -1⟩], [], []],
    wlong := [[], [⟨0, 2⟩], [⟨2, -3⟩], [⟨0, 1⟩], [⟨2, -2⟩], []],
    model := [0, 0, 0], trail := [], reasons := [none, none, none] }

example : initState 3 [[1, 2, 3], [-1, 2], [-2, -3, 1]] = some exState := by decide
example : watchInv exState exState.trail.length = true := by decide
example : litUnboundB exState.model (-2) = true := by decide

/-- deciding `¬2` at level 2 propagates `¬1` (binary clause 1) then `3` (clause 0, after its watch
    moved from `2` to `3` and its literals were reordered to `3 1 2`); no conflict -/
example : (unifyLiteral (-2) 2 exState).toOption = some (none,
    { clauses := [[3, 1, 2], [-1, 2], [-2, -3, 1]],
      wbin := [[⟨1, 2⟩], [], [], [⟨1, -1⟩], [], []],
      wlong := [[], [⟨0, 3⟩], [⟨2, -3⟩], [], [⟨2, -2⟩], [⟨0, 1⟩]],
      model := [-2, -2, 2], trail := [-2, -1, 3], reasons := [some 1, none, some 0] }) := by decide

/-- a conflict: with `1` true and `2` false the binary clause `¬1 ∨ 2` is returned, all false -/
def exConflict : State :=
  { clauses := [[1, 2, 3], [-1, 2], [-2, -3, 1]],
    wbin := [[⟨1, 2⟩], [], [], [⟨1, -1⟩], [], []],
    wlong := [[], [⟨0, 2⟩], [⟨2, -3⟩], [⟨0, 1⟩], [⟨2, -2⟩], []],
    model := [2, -2, 0], trail := [1, -2], reasons := [none, none, none] }

example : watchInv exConflict 0 = true := by decide
example : (match propagate 0 2 exConflict with
    | .ok (some 1, _) => true | _ => false) = true := by decide

/-- hypothesis `0 < lvl`: at level 0 the bindings stay 0 and the Go loop does not terminate
    (here: the fuel runs out) -/
def exLoop : State :=
  { clauses := [[-1, 2], [-2, 1]],
    wbin := [[⟨0, 2⟩], [⟨1, -2⟩], [⟨1, 1⟩], [⟨0, -1⟩]], wlong := [[], [], [], []],
    model := [0, 0], trail := [1], reasons := [none, none] }

example : (match propagate 0 0 exLoop with
    | .error .fuel => true | _ => false) = true := by decide

end GS.Watch

#print axioms GS.Watch.watchInv_iff
#print axioms GS.Watch.watch_complete
#print axioms GS.Watch.watch_total_model
#print axioms GS.Watch.simpLoop_spec
#print axioms GS.Watch.propagate_spec
#print axioms GS.Watch.propagate_complete
#print axioms GS.Watch.unifyLiteral_spec
