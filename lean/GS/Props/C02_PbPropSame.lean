import GS.Props.C02_PbProp
/-!
# C02 (support) — the constraint after a call is the constraint before

`swapFalse` only permutes the literals of a cardinality constraint (`swapL_perm`, `swapFalse_perm`;
`clause.swap` touches no weight since `pbData == nil`: in the mirror the weights, all `1`, are left as
they are, `swapL_ones`), hence `CardHolds` is invariant under `simplifyCardConstr`
(`simplifyCard_same_constraint`).  `simplifyPseudoBool` and `simplifyCardAMOConstr` do not reorder
anything (`simplifyPB_same_constraint`, `simplifyCardAMO_same_constraint`).
-/
namespace GS.PbProp
open GS

theorem swapL_perm (xs : List Int) (i j : Nat) : (swapL xs i j).Perm xs := by
  unfold swapL
  split
  · rename_i a b ha hb
    obtain ⟨hi, rfl⟩ := List.getElem?_eq_some_iff.1 ha
    obtain ⟨hj, rfl⟩ := List.getElem?_eq_some_iff.1 hb
    by_cases hij : i = j
    · subst hij; simp
    · rw [List.perm_iff_count]
      intro x
      have hj' : j < (xs.set i xs[j]).length := by simpa using hj
      rw [List.count_set hj', List.count_set hi]
      have hget : (xs.set i xs[j])[j] = xs[j] := by
        rw [List.getElem_set_ne hij]
      rw [hget]
      have h1 : (xs[i] == x) = true → 1 ≤ xs.count x := by
        intro h
        have : xs[i] = x := by simpa using h
        rw [← this]
        exact List.count_pos_iff.2 (List.getElem_mem hi)
      cases e1 : (xs[i] == x) <;> cases e2 : (xs[j] == x) <;>
        simp only [Bool.false_eq_true, ↓reduceIte] <;>
        (try have := h1 e1) <;> omega
  · exact List.Perm.refl _


theorem swapL_length {α : Type} (xs : List α) (i j : Nat) : (swapL xs i j).length = xs.length := by
  unfold swapL; split <;> simp

/-- Swapping two positions of a list whose elements are all equal changes nothing. -/
theorem swapL_const (xs : List Int) (c : Int) (h : ∀ x ∈ xs, x = c) (i j : Nat) : swapL xs i j = xs := by
  unfold swapL
  split
  · rename_i a b ha hb
    obtain ⟨hi, rfl⟩ := List.getElem?_eq_some_iff.1 ha
    obtain ⟨hj, rfl⟩ := List.getElem?_eq_some_iff.1 hb
    have e1 : xs[i] = c := h _ (List.getElem_mem hi)
    have e2 : xs[j] = c := h _ (List.getElem_mem hj)
    apply List.ext_getElem?
    intro k
    rw [List.getElem?_set, List.getElem?_set]
    by_cases hjk : j = k
    · subst hjk; simp [hj, e1, e2]
    · simp only [hjk, if_false]
      by_cases hik : i = k
      · subst hik; simp [hi, e1, e2]
      · simp [hik]
  · rfl

theorem lhs_perm (a : Asg) {ts ts' : List (Int × Int)} (h : ts.Perm ts') : lhs a ts = lhs a ts' := by
  induction h with
  | nil => rfl
  | cons x _ ih => simp only [lhs, ih]
  | swap x y l => simp only [lhs]; omega
  | trans _ _ ih1 ih2 => exact ih1.trans ih2

theorem cardHolds_perm (a : Asg) {ls ls' : List Int} (h : ls.Perm ls') (card : Int) :
    CardHolds a ls card ↔ CardHolds a ls' card := by
  unfold CardHolds
  rw [lhs_perm a (h.map _)]

theorem swapStep_same {st st' : St} {i j : Nat} (h : swapStep st i j = .ok st') :
    st'.lits.Perm st.lits ∧ st'.weights = swapL st.weights i j := by
  unfold swapStep at h
  split at h
  · split at h
    · cases h; exact ⟨swapL_perm _ _ _, rfl⟩
    · cases h
  · cases h

theorem swapFalseLoop_same {card1 : Int} :
    ∀ (fuel : Nat) (st : St) (i j : Nat) (st' : St), swapFalseLoop card1 fuel st i j = .ok st' →
      st'.lits.Perm st.lits ∧ ((∀ w ∈ st.weights, w = 1) → st'.weights = st.weights) := by
  intro fuel
  induction fuel with
  | zero =>
    intro st i j st' h
    unfold swapFalseLoop at h
    split at h
    · cases h
    · cases h; exact ⟨List.Perm.refl _, fun _ => rfl⟩
  | succ fuel ih =>
    intro st i j st' h
    unfold swapFalseLoop at h
    split at h
    · simp only at h
      split at h
      · cases h; exact ⟨List.Perm.refl _, fun _ => rfl⟩
      · split at h
        · split at h
          · rename_i st1 hs
            have h1 := swapStep_same hs
            have h2 := ih _ _ _ _ h
            refine ⟨h2.1.trans h1.1, fun hw => ?_⟩
            have e1 : st1.weights = st.weights := by rw [h1.2]; exact swapL_const _ 1 hw _ _
            rw [h2.2 (by rw [e1]; exact hw), e1]
          · cases h
          · cases h
        · cases h
        · cases h
      · cases h
      · cases h
    · cases h; exact ⟨List.Perm.refl _, fun _ => rfl⟩

/-- `swapFalse` permutes the literals; the weights of a cardinality constraint (all `1`) do not move. -/
theorem swapFalse_perm {card : Int} {st st' : St} (h : swapFalse card st = .ok st') :
    st'.lits.Perm st.lits ∧ ((∀ w ∈ st.weights, w = 1) → st'.weights = st.weights) :=
  swapFalseLoop_same _ _ _ _ _ h

/-- THE CONSTRAINT AFTER `simplifyCardConstr` IS THE CONSTRAINT BEFORE: same literals up to order (only
    `swapFalse` reorders), same weights, hence the same truth value under every assignment. -/
theorem simplifyCard_same_constraint {lvl card : Int} {st st' : St} {b : Bool}
    (h : simplifyCard lvl card st = .ok (b, st')) :
    st'.lits.Perm st.lits ∧ ((∀ w ∈ st.weights, w = 1) → st'.weights = st.weights) ∧
      ∀ a, CardHolds a st'.lits card ↔ CardHolds a st.lits card := by
  have key : st'.lits.Perm st.lits ∧ ((∀ w ∈ st.weights, w = 1) → st'.weights = st.weights) := by
    unfold simplifyCard at h
    split at h
    · cases h; exact ⟨List.Perm.refl _, fun _ => rfl⟩
    · cases h; exact ⟨List.Perm.refl _, fun _ => rfl⟩
    · rename_i t f u hcl
      split at h
      · cases hq : cardPropLoop lvl (u.toNat + st.lits.length + 1) st 0 u with
        | ok st1 =>
          rw [hq] at h; cases h
          have hfr : ∀ (fuel : Nat) (s : St) (i : Nat) (nb : Int) (s' : St),
              cardPropLoop lvl fuel s i nb = .ok s' → s'.lits = s.lits ∧ s'.weights = s.weights := by
            intro fuel
            induction fuel with
            | zero =>
              intro s i nb s' h
              unfold cardPropLoop at h
              split at h
              · cases h
              · cases h; exact ⟨rfl, rfl⟩
            | succ fuel ih =>
              intro s i nb s' h
              unfold cardPropLoop at h
              split at h
              · simp only at h
                split at h
                · cases h
                · split at h
                  · have := ih _ _ _ _ h; exact this
                  · exact ih _ _ _ _ h
              · cases h; exact ⟨rfl, rfl⟩
          have := hfr _ _ _ _ _ hq
          exact ⟨by rw [this.1], fun _ => this.2⟩
        | panic => rw [hq] at h; cases h
        | fuel => rw [hq] at h; cases h
      · cases hq : swapFalse card st with
        | ok st1 => rw [hq] at h; cases h; exact swapFalse_perm hq
        | panic => rw [hq] at h; cases h
        | fuel => rw [hq] at h; cases h
  exact ⟨key.1, key.2, fun a => cardHolds_perm a key.1 card⟩

theorem pbPassLoop_frame {lvl slack : Int} :
    ∀ (ls ws : List Int) (st : St) (fu : Bool) (st' : St) (fu' : Bool),
      pbPassLoop lvl slack ls ws st fu = .ok (st', fu') → Frame st st' := by
  intro ls
  induction ls with
  | nil => intro ws st fu st' fu' h; simp [pbPassLoop] at h; obtain ⟨rfl, rfl⟩ := h; exact Frame.refl _
  | cons l ls ih =>
    intro ws st fu st' fu' h
    simp only [pbPassLoop] at h
    split at h
    · cases ws with
      | nil => cases h
      | cons w ws' =>
        simp only at h
        split at h
        · exact (frame_propagateUnit st lvl l).trans (ih _ _ _ _ _ h)
        · exact ih _ _ _ _ _ h
    · exact ih _ _ _ _ _ h

theorem propAllLoop_frame {lvl : Int} : ∀ (ls : List Int) (st : St), Frame st (propAllLoop lvl ls st) := by
  intro ls
  induction ls with
  | nil => intro st; exact Frame.refl _
  | cons l ls ih =>
    intro st
    simp only [propAllLoop]
    split
    · exact (frame_propagateUnit st lvl l).trans (ih _)
    · exact ih _

theorem pbLoop_same {lvl card : Int} :
    ∀ (fuel : Nat) (st : St) (b : Bool) (st' : St), pbLoop lvl card fuel st = .ok (b, st') →
      st'.lits = st.lits ∧ st'.weights = st.weights := by
  intro fuel
  induction fuel with
  | zero => intro st b st' h; simp [pbLoop] at h
  | succ fuel ih =>
    intro st b st' h
    simp only [pbLoop] at h
    split at h
    · split at h
      · cases h; exact ⟨rfl, rfl⟩
      · split at h
        · cases h; exact ⟨rfl, rfl⟩
        · split at h
          · cases h
            have := propAllLoop_frame (lvl := lvl) st.lits st
            exact ⟨this.1, this.2.1⟩
          · split at h
            · rename_i st1 hpass
              have hf := pbPassLoop_frame _ _ _ _ _ _ hpass
              have := ih _ _ _ h
              exact ⟨this.1.trans hf.1, this.2.trans hf.2.1⟩
            · rename_i st1 hpass
              have hf := pbPassLoop_frame _ _ _ _ _ _ hpass
              split at h
              · rename_i st2 hu
                cases h
                have hw := updateWatchPB_frame hu
                exact ⟨hw.2.2.1.trans hf.1, hw.2.2.2.1.trans hf.2.1⟩
              · cases h
              · cases h
            · cases h
            · cases h
    · cases h
    · cases h

/-- `simplifyPseudoBool` moves neither literals nor weights. -/
theorem simplifyPB_same_constraint {lvl card : Int} {st st' : St} {b : Bool}
    (h : simplifyPB lvl card st = .ok (b, st')) :
    st'.lits = st.lits ∧ st'.weights = st.weights ∧
      ∀ a, PbHolds a st'.weights st'.lits card ↔ PbHolds a st.weights st.lits card := by
  have := pbLoop_same _ _ _ _ h
  exact ⟨this.1, this.2, fun a => by rw [this.1, this.2]⟩

theorem amoProp_same {lvl : Int} :
    ∀ (n i : Nat) (st st' : St), amoProp lvl n i st = .ok st' →
      st'.lits = st.lits ∧ st'.weights = st.weights := by
  intro n
  induction n with
  | zero => intro i st st' h; simp [amoProp] at h; subst h; exact ⟨rfl, rfl⟩
  | succ n ih =>
    intro i st st' h
    simp only [amoProp] at h
    split at h
    · cases h
    · split at h
      · have := ih _ _ _ h; exact this
      · exact ih _ _ _ h

/-- `simplifyCardAMOConstr` moves neither literals nor weights. -/
theorem simplifyCardAMO_same_constraint {lvl card : Int} {st st' : St} {b : Bool}
    (h : simplifyCardAMO lvl card st = .ok (b, st')) :
    st'.lits = st.lits ∧ st'.weights = st.weights := by
  unfold simplifyCardAMO at h
  split at h
  · cases h; exact ⟨rfl, rfl⟩
  · cases hq : amoProp lvl (card + 1).toNat 0 st with
    | ok st1 => rw [hq] at h; cases h; exact amoProp_same _ _ _ _ hq
    | panic => rw [hq] at h; cases h
    | fuel => rw [hq] at h; cases h
  · cases h
  · cases h

/-- Non-vacuity: `x1 + x2 + x3 + x4 ≥ 2` with `x1` false: the literals come back as `4 2 3 1`. -/
example : (match simplifyCard 2 2 (St.init (mOf [-1, 0, 0, 0]) [1, 2, 3, 4] [1, 1, 1, 1] [true, true, true, false]) with
    | .ok (_, st') => st'.lits | _ => []) = [4, 2, 3, 1] := by rfl
example : ([4, 2, 3, 1] : List Int).Perm [1, 2, 3, 4] := by decide

end GS.PbProp

#print axioms GS.PbProp.swapL_perm
#print axioms GS.PbProp.simplifyCard_same_constraint
#print axioms GS.PbProp.simplifyPB_same_constraint
#print axioms GS.PbProp.simplifyCardAMO_same_constraint
