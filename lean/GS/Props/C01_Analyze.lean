import GS.Model.Analyze
import GS.Props.C01
/-!
# C01 / C02 / C06 — the clause learned by conflict analysis follows from the clause database

`GS.Model.Analyze` mirrors `learnClause` / `addClauseLits` / `minimizeLearned` / `sortLiterals`
of `/repo/solver/learn.go`, `sort.go` line by line.  Proved here, for every trail, conflict and
antecedent list (unbounded sizes):

* `analyze_sound` (`analyzeE_sound`) — resolution soundness for **all kinds of antecedents**:
  if the trail meets the syntactic invariant `trailInv` (distinct variables, non-zero literals,
  levels non-decreasing and `≤ lvl`), every antecedent — read as the clause "propagated literal ∨
  literals of the antecedent false before it on the trail" — is entailed by the clause set `db`,
  the facts of the current level are entailed, and the clause of the false literals of the
  conflict is entailed, then the learned clause (resp. learned unit) is entailed by `db`;
* `analyze_sound_cnf` — the same with propositional antecedents taken as they are
  (`reasonsCnf`: propagated literal in its antecedent, all other literals false earlier);
* `analyze_sound_pb` — the same over a pseudo-boolean `Problem`: antecedents and conflict are
  entailed linear constraints with non-negative weights whose slack explains the propagation /
  the conflict (`pbExplains`, `pb_explains_sound`): covers clauses, cardinality and PB constraints;
* `analyze_asserting` — the first literal of the result is false and is the only literal of level
  `lvl`, all others are false at a level `< lvl` and come by non-increasing level (so the literal
  `backtrackData` reads in position 1 carries the backjump level); `analyzeE_iff`: a unit is
  returned exactly when nothing else is left.

The proof follows the backward walk with the invariant `WS` (meaning of `met`, `metLvl`, `nbLvl`,
`lits` relative to the part of the trail still to walk) and `Sem` (some literal of the current
resolvent is true in the model at hand); `minimize_sound` is the induction along the trail showing
that a literal dropped by `minimizeLearned` is false whenever the kept ones are.

Two facts about the Go code that the proof had to use (they are not obvious from the source):
`metLvl` is never cleared and the asserting literal is taken from the *first* marked trail literal,
so the decision literal of the current level can never be lost even when `nbLvl` over-counts;
and the "deduced afterwards" marking is what keeps `met ∩ level lvl ⊆ metLvl ∪ already walked`,
without which a later-falsified literal of a cardinality/PB antecedent would be counted in `nbLvl`
with no trail literal left to find it.
-/
namespace GS.Analyze
open GS

/-! ### lookups on a trail without repeated variables -/

theorem noDupVars_iff (es : List Entry) :
    noDupVars es = true ↔ es.Pairwise (fun x y => x.var ≠ y.var) := by
  induction es with
  | nil => simp [noDupVars]
  | cons e es ih =>
    simp only [noDupVars, Bool.and_eq_true, List.all_eq_true, List.pairwise_cons, ih]
    constructor
    · rintro ⟨h1, h2⟩
      refine ⟨fun x hx hne => ?_, h2⟩
      have := h1 x hx
      simp [hne] at this
    · rintro ⟨h1, h2⟩
      refine ⟨fun x hx => ?_, h2⟩
      have := h1 x hx
      simp only [bne_iff_ne, ne_eq]
      exact fun h => this h.symm

theorem monoLevels_iff (es : List Entry) :
    monoLevels es = true ↔ es.Pairwise (fun x y => x.lvl ≤ y.lvl) := by
  induction es with
  | nil => simp [monoLevels]
  | cons e es ih =>
    simp only [monoLevels, Bool.and_eq_true, List.all_eq_true, List.pairwise_cons, ih,
      decide_eq_true_eq]

/-- The syntactic invariant as a proposition. -/
structure TrailInv (es : List Entry) (lvl : Nat) : Prop where
  nodup : es.Pairwise (fun x y => x.var ≠ y.var)
  nonzero : ∀ e ∈ es, e.lit ≠ 0
  mono : es.Pairwise (fun x y => x.lvl ≤ y.lvl)
  bound : ∀ e ∈ es, e.lvl ≤ lvl

theorem trailInv_iff (es : List Entry) (lvl : Nat) : trailInv es lvl = true ↔ TrailInv es lvl := by
  simp only [trailInv, Bool.and_eq_true, noDupVars_iff, monoLevels_iff, List.all_eq_true,
    bne_iff_ne, ne_eq, decide_eq_true_eq]
  constructor
  · rintro ⟨⟨⟨h1, h2⟩, h3⟩, h4⟩; exact ⟨h1, h2, h3, h4⟩
  · rintro ⟨h1, h2, h3, h4⟩; exact ⟨⟨⟨h1, h2⟩, h3⟩, h4⟩

theorem findVar_of_mem {es : List Entry} (hnd : es.Pairwise (fun x y => x.var ≠ y.var))
    {e : Entry} (he : e ∈ es) : findVar es e.var = some e := by
  induction es with
  | nil => cases he
  | cons x xs ih =>
    rw [List.pairwise_cons] at hnd
    unfold findVar
    rcases List.mem_cons.1 he with rfl | h
    · simp
    · have hne : x.var ≠ e.var := hnd.1 e h
      rw [List.find?_cons_of_neg (by simpa using hne)]
      exact ih hnd.2 h

theorem findVar_some {es : List Entry} {v : Nat} {e : Entry} (h : findVar es v = some e) :
    e ∈ es ∧ e.var = v := by
  unfold findVar at h
  exact ⟨List.mem_of_find?_eq_some h, by simpa using List.find?_some h⟩

theorem lvOf_of_mem {es : List Entry} (hnd : es.Pairwise (fun x y => x.var ≠ y.var))
    {e : Entry} (he : e ∈ es) : lvOf es e.var = e.lvl := by
  unfold lvOf; rw [findVar_of_mem hnd he]

theorem reasonOf_of_mem {es : List Entry} (hnd : es.Pairwise (fun x y => x.var ≠ y.var))
    {e : Entry} (he : e ∈ es) : reasonOf es e.var = e.reason := by
  unfold reasonOf; rw [findVar_of_mem hnd he]

theorem assumedOf_of_mem {es : List Entry} (hnd : es.Pairwise (fun x y => x.var ≠ y.var))
    {e : Entry} (he : e ∈ es) : assumedOf es e.var = e.assumed := by
  unfold assumedOf; rw [findVar_of_mem hnd he]

theorem eq_of_var_eq {es : List Entry} (hnd : es.Pairwise (fun x y => x.var ≠ y.var))
    {x y : Entry} (hx : x ∈ es) (hy : y ∈ es) (h : x.var = y.var) : x = y := by
  have h1 := findVar_of_mem hnd hx
  have h2 := findVar_of_mem hnd hy
  rw [h] at h1
  exact Option.some.inj (h1.symm.trans h2)

theorem isFalse_iff (es : List Entry) (l : Int) : isFalse es l = true ↔ ∃ e ∈ es, e.lit = -l := by
  simp [isFalse]

theorem natAbs_of_lit_eq_neg {e : Entry} {l : Int} (h : e.lit = -l) : e.var = l.natAbs := by
  unfold Entry.var; rw [h]; omega

/-- Two false literals over the same variable are the same literal. -/
theorem false_unique {es : List Entry} (hnd : es.Pairwise (fun x y => x.var ≠ y.var))
    {f g : Int} (hf : isFalse es f = true) (hg : isFalse es g = true) (h : f.natAbs = g.natAbs) :
    f = g := by
  obtain ⟨x, hx, hxf⟩ := (isFalse_iff es f).1 hf
  obtain ⟨y, hy, hyg⟩ := (isFalse_iff es g).1 hg
  have : x = y := eq_of_var_eq hnd hx hy (by
    rw [natAbs_of_lit_eq_neg hxf, natAbs_of_lit_eq_neg hyg, h])
  subst this
  omega

/-! ### semantics helpers -/

theorem clauseTrue_iff (a : Asg) (c : List Int) :
    clauseTrue a c = true ↔ ∃ l ∈ c, litTrue a l = true := by
  simp [clauseTrue]

theorem litTrue_neg_false {a : Asg} {l : Int} (h0 : l ≠ 0) (h : litTrue a (-l) = true) :
    litTrue a l = false := by
  rw [litTrue_neg a l h0] at h
  simpa using h

/-! ### counting lemmas -/

theorem countP_insert_le {rem : List Entry} (hnd : rem.Pairwise (fun x y => x.var ≠ y.var))
    (v : Nat) (m : List Nat) :
    rem.countP (fun e => decide (e.var ∈ v :: m)) ≤ rem.countP (fun e => decide (e.var ∈ m)) + 1 := by
  induction rem with
  | nil => simp
  | cons x xs ih =>
    rw [List.pairwise_cons] at hnd
    rw [List.countP_cons, List.countP_cons]
    by_cases hx : x.var = v
    · have : xs.countP (fun e => decide (e.var ∈ v :: m)) = xs.countP (fun e => decide (e.var ∈ m)) := by
        apply List.countP_congr
        intro y hy
        have : y.var ≠ v := fun h => hnd.1 y hy (hx.trans h.symm)
        simp [this]
      rw [this]
      split <;> split <;> omega
    · have := ih hnd.2
      have e1 : (decide (x.var ∈ v :: m) = true) ↔ (decide (x.var ∈ m) = true) := by simp [hx]
      by_cases hm : decide (x.var ∈ m) = true
      · rw [if_pos (e1.2 hm), if_pos hm]; omega
      · rw [if_neg (fun h => hm (e1.1 h)), if_neg hm]; omega

theorem countP_le_one_unique {α} {p : α → Bool} {l : List α} (h : l.countP p ≤ 1)
    {x y : α} (hx : x ∈ l) (hy : y ∈ l) (px : p x = true) (py : p y = true) : x = y := by
  induction l with
  | nil => cases hx
  | cons z zs ih =>
    rw [List.countP_cons] at h
    rcases List.mem_cons.1 hx with rfl | hx' <;> rcases List.mem_cons.1 hy with rfl | hy'
    · rfl
    · rw [if_pos px] at h
      have : 0 < zs.countP p := List.countP_pos_iff.2 ⟨y, hy', py⟩
      omega
    · rw [if_pos py] at h
      have : 0 < zs.countP p := List.countP_pos_iff.2 ⟨x, hx', px⟩
      omega
    · exact ih (by omega) hx' hy'

/-! ### the invariant of the backward walk -/

/-- Structural part: what `met`, `metLvl`, `nbLvl`, `lits` mean with respect to the part `rem`
    of the trail that is still to be walked. -/
structure WS (es : List Entry) (lvl : Nat) (rem : List Entry) (acc : Acc) : Prop where
  j1 : ∀ g ∈ acc.lits, isFalse es g = true ∧ lvOf es g.natAbs ≠ lvl
  j2 : ∀ v ∈ acc.metLvl, lvOf es v = lvl
  j3 : ∀ v ∈ acc.met, lvOf es v ≠ lvl → ∃ g ∈ acc.lits, g.natAbs = v
  j4 : ∀ v ∈ acc.met, lvOf es v = lvl → v ∈ acc.metLvl ∨ ∀ e ∈ rem, e.var ≠ v
  j6 : rem.countP (fun e => decide (e.var ∈ acc.metLvl)) ≤ acc.nbLvl

/-- Semantic part: under the fixed assignment `A` some literal of the current resolvent is true.
    The resolvent is: the collected literals, the negations of the still-to-walk trail literals
    marked in `metLvl`, and (third case) the negation of the first trail literal of level `lvl`
    if it is marked: Go never forgets it since the asserting literal is taken from the *first*
    marked trail literal. -/
def Sem (es : List Entry) (lvl : Nat) (A : Asg) (rem : List Entry) (acc : Acc) : Prop :=
  ∃ l, litTrue A l = true ∧
    (l ∈ acc.lits ∨ (∃ e ∈ rem, e.var ∈ acc.metLvl ∧ l = -e.lit) ∨
     (∃ pre d post, es = pre ++ d :: post ∧ (∀ x ∈ pre, x.lvl ≠ lvl) ∧ d.var ∈ acc.metLvl ∧ l = -d.lit))

theorem Sem.mono {es lvl A rem} {acc acc' : Acc} (h : Sem es lvl A rem acc)
    (h1 : ∀ g ∈ acc.lits, g ∈ acc'.lits) (h2 : ∀ v ∈ acc.metLvl, v ∈ acc'.metLvl) :
    Sem es lvl A rem acc' := by
  obtain ⟨l, hl, h | ⟨e, he, hm, rfl⟩ | ⟨pre, d, post, hes, hpre, hm, rfl⟩⟩ := h
  · exact ⟨l, hl, Or.inl (h1 l h)⟩
  · exact ⟨_, hl, Or.inr (Or.inl ⟨e, he, h2 _ hm, rfl⟩)⟩
  · exact ⟨_, hl, Or.inr (Or.inr ⟨pre, d, post, hes, hpre, h2 _ hm, rfl⟩)⟩

theorem addFalse_lits_mono (es lvl) (acc : Acc) (l : Int) :
    ∀ g ∈ acc.lits, g ∈ (addFalse es lvl acc l).lits := by
  intro g hg; unfold addFalse; split
  · exact hg
  · exact List.mem_append_left _ hg

theorem addFalse_metLvl_mono (es lvl) (acc : Acc) (l : Int) :
    ∀ v ∈ acc.metLvl, v ∈ (addFalse es lvl acc l).metLvl := by
  intro g hg; unfold addFalse; split
  · exact List.mem_cons_of_mem _ hg
  · exact hg

theorem addFalse_met_mono (es lvl) (acc : Acc) (l : Int) :
    ∀ v ∈ acc.met, v ∈ (addFalse es lvl acc l).met := by
  intro g hg; unfold addFalse; split <;> exact List.mem_cons_of_mem _ hg

theorem addFalse_met_self (es lvl) (acc : Acc) (l : Int) :
    l.natAbs ∈ (addFalse es lvl acc l).met := by
  unfold addFalse; split <;> exact List.mem_cons_self

theorem addFalse_WS {es lvl rem} {acc : Acc} (hnd : rem.Pairwise (fun x y => x.var ≠ y.var))
    (h : WS es lvl rem acc) {l : Int} (hl : isFalse es l = true) :
    WS es lvl rem (addFalse es lvl acc l) := by
  unfold addFalse
  split
  · rename_i heq
    refine ⟨h.j1, ?_, ?_, ?_, ?_⟩
    · intro v hv
      rcases List.mem_cons.1 hv with rfl | hv
      · exact heq
      · exact h.j2 v hv
    · intro v hv hne
      rcases List.mem_cons.1 hv with rfl | hv
      · exact absurd heq hne
      · exact h.j3 v hv hne
    · intro v hv hlv
      rcases List.mem_cons.1 hv with rfl | hv
      · exact Or.inl List.mem_cons_self
      · rcases h.j4 v hv hlv with h' | h'
        · exact Or.inl (List.mem_cons_of_mem _ h')
        · exact Or.inr h'
    · have := countP_insert_le hnd l.natAbs acc.metLvl
      have := h.j6
      show List.countP (fun e => decide (e.var ∈ l.natAbs :: acc.metLvl)) rem ≤ acc.nbLvl + 1
      omega
  · rename_i hne
    refine ⟨?_, h.j2, ?_, ?_, h.j6⟩
    · intro g hg
      rcases List.mem_append.1 hg with hg | hg
      · exact h.j1 g hg
      · rw [List.mem_singleton.1 hg]; exact ⟨hl, hne⟩
    · intro v hv hlv
      rcases List.mem_cons.1 hv with rfl | hv
      · exact ⟨l, List.mem_append_right _ List.mem_cons_self, rfl⟩
      · obtain ⟨g, hg, hgv⟩ := h.j3 v hv hlv
        exact ⟨g, List.mem_append_left _ hg, hgv⟩
    · intro v hv hlv
      rcases List.mem_cons.1 hv with rfl | hv
      · exact absurd hlv hne
      · exact h.j4 v hv hlv

/-- What folding `stepReason` (resp. `stepConfl`) over a literal list guarantees. -/
structure FoldOut (es : List Entry) (lvl : Nat) (rem : List Entry) (acc acc' : Acc) : Prop where
  ws : WS es lvl rem acc'
  lits : ∀ g ∈ acc.lits, g ∈ acc'.lits
  metLvl : ∀ v ∈ acc.metLvl, v ∈ acc'.metLvl
  met : ∀ v ∈ acc.met, v ∈ acc'.met

theorem FoldOut.refl {es lvl rem acc} (h : WS es lvl rem acc) : FoldOut es lvl rem acc acc :=
  ⟨h, fun _ h => h, fun _ h => h, fun _ h => h⟩

theorem FoldOut.trans {es lvl rem a b c} (h1 : FoldOut es lvl rem a b) (h2 : FoldOut es lvl rem b c) :
    FoldOut es lvl rem a c :=
  ⟨h2.ws, fun g h => h2.lits g (h1.lits g h), fun g h => h2.metLvl g (h1.metLvl g h),
   fun g h => h2.met g (h1.met g h)⟩

theorem addFalse_FoldOut {es lvl rem} {acc : Acc} (hnd : rem.Pairwise (fun x y => x.var ≠ y.var))
    (h : WS es lvl rem acc) {l : Int} (hl : isFalse es l = true) :
    FoldOut es lvl rem acc (addFalse es lvl acc l) :=
  ⟨addFalse_WS hnd h hl, addFalse_lits_mono es lvl acc l, addFalse_metLvl_mono es lvl acc l,
   addFalse_met_mono es lvl acc l⟩

theorem stepReason_FoldOut {es lvl rem} {acc : Acc} (hnd : rem.Pairwise (fun x y => x.var ≠ y.var))
    (h : WS es lvl rem acc) (l : Int) :
    FoldOut es lvl rem acc (stepReason es lvl acc l) ∧
      (isFalse es l = true → l.natAbs ∈ (stepReason es lvl acc l).met) := by
  unfold stepReason
  split
  · rename_i hm; exact ⟨FoldOut.refl h, fun _ => hm⟩
  · split
    · rename_i hf; exact ⟨addFalse_FoldOut hnd h hf, fun _ => addFalse_met_self es lvl acc l⟩
    · rename_i hf; exact ⟨FoldOut.refl h, fun h' => absurd h' hf⟩

theorem stepConfl_FoldOut {es lvl rem} {acc : Acc} (hnd : rem.Pairwise (fun x y => x.var ≠ y.var))
    (h : WS es lvl rem acc) (l : Int) :
    FoldOut es lvl rem acc (stepConfl es lvl acc l) ∧
      (isFalse es l = true → l.natAbs ∈ (stepConfl es lvl acc l).met) := by
  unfold stepConfl
  split
  · rename_i hf; exact ⟨addFalse_FoldOut hnd h hf, fun _ => addFalse_met_self es lvl acc l⟩
  · rename_i hf; exact ⟨FoldOut.refl h, fun h' => absurd h' hf⟩

theorem foldReason_FoldOut {es lvl rem} (hnd : rem.Pairwise (fun x y => x.var ≠ y.var))
    (r : List Int) : ∀ {acc : Acc}, WS es lvl rem acc →
    FoldOut es lvl rem acc (r.foldl (stepReason es lvl) acc) ∧
      ∀ f ∈ r, isFalse es f = true → f.natAbs ∈ (r.foldl (stepReason es lvl) acc).met := by
  induction r with
  | nil => intro acc h; exact ⟨FoldOut.refl h, fun f hf => by cases hf⟩
  | cons l r ih =>
    intro acc h
    obtain ⟨h1, h1m⟩ := stepReason_FoldOut hnd h l
    obtain ⟨h2, h2m⟩ := ih h1.ws
    refine ⟨h1.trans h2, ?_⟩
    intro f hf hfal
    rcases List.mem_cons.1 hf with rfl | hf
    · exact h2.met _ (h1m hfal)
    · exact h2m f hf hfal

theorem foldConfl_FoldOut {es lvl rem} (hnd : rem.Pairwise (fun x y => x.var ≠ y.var))
    (r : List Int) : ∀ {acc : Acc}, WS es lvl rem acc →
    FoldOut es lvl rem acc (r.foldl (stepConfl es lvl) acc) ∧
      ∀ f ∈ r, isFalse es f = true → f.natAbs ∈ (r.foldl (stepConfl es lvl) acc).met := by
  induction r with
  | nil => intro acc h; exact ⟨FoldOut.refl h, fun f hf => by cases hf⟩
  | cons l r ih =>
    intro acc h
    obtain ⟨h1, h1m⟩ := stepConfl_FoldOut hnd h l
    obtain ⟨h2, h2m⟩ := ih h1.ws
    refine ⟨h1.trans h2, ?_⟩
    intro f hf hfal
    rcases List.mem_cons.1 hf with rfl | hf
    · exact h2.met _ (h1m hfal)
    · exact h2m f hf hfal

/-- A false literal whose variable is `met` and whose falsifying entry is still to be walked is
    part of the current resolvent. -/
theorem covered {es lvl rem} {acc : Acc} (hnd : es.Pairwise (fun x y => x.var ≠ y.var))
    (h : WS es lvl rem acc) {f : Int} (hm : f.natAbs ∈ acc.met)
    {x : Entry} (hx : x ∈ rem) (hxe : x ∈ es) (hxf : x.lit = -f) :
    f ∈ acc.lits ∨ f.natAbs ∈ acc.metLvl := by
  by_cases hl : lvOf es f.natAbs = lvl
  · rcases h.j4 _ hm hl with h' | h'
    · exact Or.inr h'
    · exact absurd (natAbs_of_lit_eq_neg hxf) (h' x hx)
  · obtain ⟨g, hg, hgv⟩ := h.j3 _ hm hl
    have hgf := (h.j1 g hg).1
    have hff : isFalse es f = true := (isFalse_iff es f).2 ⟨x, hxe, hxf⟩
    have : g = f := false_unique hnd hgf hff hgv
    exact Or.inl (this ▸ hg)

/-! ### semantic premises, for one model `A` of the clause database -/

/-- Every antecedent, read as the clause "propagated literal ∨ the antecedent's literals that
    were false before it", is true under `A`. -/
def ReasonsTrue (es : List Entry) (A : Asg) : Prop :=
  ∀ pre e post r, es = pre ++ e :: post → e.reason = some r →
    clauseTrue A (e.lit :: r.filter (isFalse pre)) = true

/-- A trail literal of level `lvl` without antecedent that is neither assumed nor the first of
    its level (the decision) is a fact: true under `A`. -/
def FactsTrue (es : List Entry) (lvl : Nat) (A : Asg) : Prop :=
  ∀ pre e post, es = pre ++ e :: post → e.reason = none → e.assumed = false → e.lvl = lvl →
    (∃ x ∈ pre, x.lvl = lvl) → litTrue A e.lit = true

theorem split_facts {es rem post : List Entry} {e : Entry} (hes : es = (e :: rem).reverse ++ post) :
    es = rem.reverse ++ e :: post ∧ e ∈ es ∧ (∀ x ∈ rem, x ∈ es) := by
  have h1 : es = rem.reverse ++ e :: post := by
    rw [hes, List.reverse_cons, List.append_assoc]; rfl
  refine ⟨h1, ?_, ?_⟩
  · rw [h1]; simp
  · intro x hx; rw [h1]; simp [hx]

theorem rem_nodup {es rem post : List Entry} (hnd : es.Pairwise (fun x y => x.var ≠ y.var))
    (hes : es = rem.reverse ++ post) : rem.Pairwise (fun x y => x.var ≠ y.var) := by
  rw [hes, List.pairwise_append] at hnd
  have := List.pairwise_reverse.1 hnd.1
  exact this.imp (fun h => fun h' => h h'.symm)

theorem skip_WS {es lvl rem} {e : Entry} {acc : Acc}
    (hnd : (e :: rem).Pairwise (fun x y => x.var ≠ y.var))
    (h : WS es lvl (e :: rem) acc) (_hne : e.var ∉ acc.metLvl) :
    WS es lvl rem (if lvOf es e.var = lvl then { acc with met := e.var :: acc.met } else acc) := by
  rw [List.pairwise_cons] at hnd
  have hj6 : rem.countP (fun x => decide (x.var ∈ acc.metLvl)) ≤ acc.nbLvl := by
    have := h.j6
    rw [List.countP_cons] at this
    omega
  have hj4 : ∀ v ∈ acc.met, lvOf es v = lvl → v ∈ acc.metLvl ∨ ∀ x ∈ rem, x.var ≠ v := by
    intro v hv hl
    rcases h.j4 v hv hl with h' | h'
    · exact Or.inl h'
    · exact Or.inr (fun x hx => h' x (List.mem_cons_of_mem _ hx))
  split
  · rename_i hl
    refine ⟨h.j1, h.j2, ?_, ?_, hj6⟩
    · intro v hv hlv
      rcases List.mem_cons.1 hv with rfl | hv
      · exact absurd hl hlv
      · exact h.j3 v hv hlv
    · intro v hv hlv
      rcases List.mem_cons.1 hv with rfl | hv
      · exact Or.inr (fun x hx h' => hnd.1 x hx h'.symm)
      · exact hj4 v hv hlv
  · exact ⟨h.j1, h.j2, h.j3, hj4, hj6⟩

theorem skip_Sem {es lvl A rem} {e : Entry} {acc acc' : Acc}
    (h : Sem es lvl A (e :: rem) acc) (hne : e.var ∉ acc.metLvl)
    (h1 : acc'.lits = acc.lits) (h2 : acc'.metLvl = acc.metLvl) : Sem es lvl A rem acc' := by
  obtain ⟨l, hl, h | ⟨x, hx, hm, rfl⟩ | ⟨pre, d, post, hes, hpre, hm, rfl⟩⟩ := h
  · exact ⟨l, hl, Or.inl (h1 ▸ h)⟩
  · rcases List.mem_cons.1 hx with rfl | hx
    · exact absurd hm hne
    · exact ⟨_, hl, Or.inr (Or.inl ⟨x, hx, h2 ▸ hm, rfl⟩)⟩
  · exact ⟨_, hl, Or.inr (Or.inr ⟨pre, d, post, hes, hpre, h2 ▸ hm, rfl⟩)⟩

theorem resolve_WS {es lvl rem} {e : Entry} {acc : Acc}
    (h : WS es lvl (e :: rem) acc) (hm : e.var ∈ acc.metLvl) :
    WS es lvl rem { acc with nbLvl := acc.nbLvl - 1 } := by
  refine ⟨h.j1, h.j2, h.j3, ?_, ?_⟩
  · intro v hv hl
    rcases h.j4 v hv hl with h' | h'
    · exact Or.inl h'
    · exact Or.inr (fun x hx => h' x (List.mem_cons_of_mem _ hx))
  · have := h.j6
    rw [List.countP_cons, if_pos (by simpa using hm)] at this
    show rem.countP (fun x => decide (x.var ∈ acc.metLvl)) ≤ acc.nbLvl - 1
    omega

theorem walk_inv {es : List Entry} {lvl : Nat} {A : Asg} (hinv : TrailInv es lvl)
    (hR : ReasonsTrue es A) (hF : FactsTrue es lvl A) :
    ∀ (rem : List Entry) (acc : Acc) (post : List Entry), es = rem.reverse ++ post →
      WS es lvl rem acc → Sem es lvl A rem acc → ∀ acc', walk es lvl rem acc = .done acc' →
      ∃ rem' post', es = rem'.reverse ++ post' ∧ WS es lvl rem' acc' ∧ Sem es lvl A rem' acc' ∧
        acc'.nbLvl ≤ 1 := by
  intro rem
  induction rem with
  | nil =>
    intro acc post hes hws hsem acc' hw
    rw [walk] at hw
    split at hw
    · rename_i hn
      cases hw
      exact ⟨[], post, hes, hws, hsem, hn⟩
    · cases hw
  | cons e rem ih =>
    intro acc post hes hws hsem acc' hw
    obtain ⟨hes', hemem, hsub⟩ := split_facts hes
    have hndc : (e :: rem).Pairwise (fun x y => x.var ≠ y.var) := rem_nodup hinv.nodup hes
    have hndr : rem.Pairwise (fun x y => x.var ≠ y.var) := (List.pairwise_cons.1 hndc).2
    rw [walk] at hw
    split at hw
    · rename_i hn
      cases hw
      exact ⟨e :: rem, post, hes, hws, hsem, hn⟩
    · split at hw
      · rename_i hne
        refine ih _ (e :: post) hes' (skip_WS hndc hws hne) ?_ acc' hw
        apply skip_Sem hsem hne <;> split <;> rfl
      · rename_i hnn
        have hm : e.var ∈ acc.metLvl := Classical.not_not.1 hnn
        split at hw
        · cases hw
        · rename_i hass
          have hass' : e.assumed = false := by
            rw [assumedOf_of_mem hinv.nodup hemem] at hass; simpa using hass
          have hlv : e.lvl = lvl := by
            rw [← lvOf_of_mem hinv.nodup hemem]; exact hws.j2 _ hm
          have hws1 := resolve_WS hws hm
          rw [reasonOf_of_mem hinv.nodup hemem] at hw
          split at hw
          · -- no antecedent
            rename_i hnone
            refine ih _ (e :: post) hes' hws1 ?_ acc' hw
            obtain ⟨l, hl, h | ⟨x, hx, hxm, rfl⟩ | ⟨pre, d, post', hes2, hpre, hdm, rfl⟩⟩ := hsem
            · exact ⟨l, hl, Or.inl h⟩
            · rcases List.mem_cons.1 hx with rfl | hx
              · by_cases hex : ∃ y ∈ rem.reverse, y.lvl = lvl
                · have := hF rem.reverse x post hes' hnone hass' hlv hex
                  rw [litTrue_neg_false (hinv.nonzero x hemem) hl] at this
                  cases this
                · refine ⟨_, hl, Or.inr (Or.inr ⟨rem.reverse, x, post, hes', ?_, hxm, rfl⟩)⟩
                  intro y hy hyl
                  exact hex ⟨y, hy, hyl⟩
              · exact ⟨_, hl, Or.inr (Or.inl ⟨x, hx, hxm, rfl⟩)⟩
            · exact ⟨_, hl, Or.inr (Or.inr ⟨pre, d, post', hes2, hpre, hdm, rfl⟩)⟩
          · -- antecedent r
            rename_i r hsome
            obtain ⟨hfo, hcov⟩ := foldReason_FoldOut (es := es) (lvl := lvl) hndr r hws1
            refine ih _ (e :: post) hes' hfo.ws ?_ acc' hw
            obtain ⟨l, hl, h | ⟨x, hx, hxm, rfl⟩ | ⟨pre, d, post', hes2, hpre, hdm, rfl⟩⟩ := hsem
            · exact ⟨l, hl, Or.inl (hfo.lits l h)⟩
            · rcases List.mem_cons.1 hx with rfl | hx
              · have hc := hR rem.reverse x post r hes' hsome
                rw [clauseTrue_iff] at hc
                obtain ⟨f, hf, hft⟩ := hc
                rcases List.mem_cons.1 hf with rfl | hf
                · rw [litTrue_neg_false (hinv.nonzero _ hemem) hl] at hft
                  cases hft
                · rw [List.mem_filter] at hf
                  obtain ⟨y, hy, hyf⟩ := (isFalse_iff _ _).1 hf.2
                  have hy' : y ∈ rem := List.mem_reverse.1 hy
                  have hfal : isFalse es f = true := (isFalse_iff _ _).2 ⟨y, hsub y hy', hyf⟩
                  have hmet := hcov f hf.1 hfal
                  rcases covered hinv.nodup hfo.ws hmet hy' (hsub y hy') hyf with h' | h'
                  · exact ⟨f, hft, Or.inl h'⟩
                  · refine ⟨f, hft, Or.inr (Or.inl ⟨y, hy', ?_, by omega⟩)⟩
                    rw [natAbs_of_lit_eq_neg hyf]; exact h'
              · exact ⟨_, hl, Or.inr (Or.inl ⟨x, hx, hfo.metLvl _ hxm, rfl⟩)⟩
            · exact ⟨_, hl, Or.inr (Or.inr ⟨pre, d, post', hes2, hpre, hfo.metLvl _ hdm, rfl⟩)⟩

/-! ### the sort -/

theorem mem_insDesc (key : Int → Nat) (x y : Int) (l : List Int) :
    y ∈ insDesc key x l ↔ y = x ∨ y ∈ l := by
  induction l with
  | nil => simp [insDesc]
  | cons z zs ih =>
    unfold insDesc
    split
    · simp
    · simp only [List.mem_cons, ih]
      constructor
      · rintro (h | h | h)
        · exact Or.inr (Or.inl h)
        · exact Or.inl h
        · exact Or.inr (Or.inr h)
      · rintro (h | h | h)
        · exact Or.inr (Or.inl h)
        · exact Or.inl h
        · exact Or.inr (Or.inr h)

theorem mem_sortDesc (key : Int → Nat) (y : Int) (l : List Int) : y ∈ sortDesc key l ↔ y ∈ l := by
  induction l with
  | nil => simp [sortDesc]
  | cons x xs ih => simp [sortDesc, mem_insDesc, ih]

theorem insDesc_sorted (key : Int → Nat) (x : Int) (l : List Int)
    (h : l.Pairwise (fun a b => key b ≤ key a)) :
    (insDesc key x l).Pairwise (fun a b => key b ≤ key a) := by
  induction l with
  | nil => simp [insDesc]
  | cons z zs ih =>
    rw [List.pairwise_cons] at h
    unfold insDesc
    split
    · rename_i hz
      rw [List.pairwise_cons]
      refine ⟨?_, List.pairwise_cons.2 h⟩
      intro b hb
      rcases List.mem_cons.1 hb with rfl | hb
      · exact hz
      · exact Nat.le_trans (h.1 b hb) hz
    · rename_i hz
      rw [List.pairwise_cons]
      refine ⟨?_, ih h.2⟩
      intro b hb
      rcases (mem_insDesc key x b zs).1 hb with rfl | hb
      · omega
      · exact h.1 b hb

theorem sortDesc_sorted (key : Int → Nat) (l : List Int) :
    (sortDesc key l).Pairwise (fun a b => key b ≤ key a) := by
  induction l with
  | nil => simp [sortDesc]
  | cons x xs ih => exact insDesc_sorted key x _ ih

theorem sortDesc_head (key : Int → Nat) (x : Int) (l : List Int) (h : ∀ y ∈ l, key y ≤ key x) :
    sortDesc key (x :: l) = x :: sortDesc key l := by
  show insDesc key x (sortDesc key l) = _
  cases hs : sortDesc key l with
  | nil => rfl
  | cons y ys =>
    have : y ∈ l := (mem_sortDesc key y l).1 (hs ▸ List.mem_cons_self)
    unfold insDesc
    rw [if_pos (h y this)]

theorem lvOf_le {es : List Entry} {lvl : Nat} (hb : ∀ e ∈ es, e.lvl ≤ lvl) (v : Nat) :
    lvOf es v ≤ lvl := by
  unfold lvOf
  cases h : findVar es v with
  | none => exact Nat.zero_le _
  | some e => exact hb e (findVar_some h).1

/-! ### the asserting literal closes the resolvent -/

theorem final_clause {es : List Entry} {lvl : Nat} {A : Asg} (hinv : TrailInv es lvl)
    {rem post : List Entry} {acc : Acc} (hes : es = rem.reverse ++ post)
    (hws : WS es lvl rem acc) (hsem : Sem es lvl A rem acc) (hn : acc.nbLvl ≤ 1)
    {a : Int} (ha : asserting es acc.metLvl = some a) :
    ∃ l ∈ a :: acc.lits, litTrue A l = true := by
  unfold asserting at ha
  obtain ⟨l, hl, h | ⟨e, he, hm, rfl⟩ | ⟨pre, d, post', hes2, hpre, hdm, rfl⟩⟩ := hsem
  · exact ⟨l, List.mem_cons_of_mem _ h, hl⟩
  · -- the unique marked literal still to walk
    have he' : e ∈ rem.reverse := List.mem_reverse.2 he
    have hsome : (rem.reverse.find? (fun x => decide (x.var ∈ acc.metLvl))).isSome = true := by
      rw [List.find?_isSome]; exact ⟨e, he', by simpa using hm⟩
    obtain ⟨y, hy⟩ := Option.isSome_iff_exists.1 hsome
    rw [hes, List.find?_append, hy] at ha
    simp only [Option.some_or, Option.some.injEq] at ha
    have hy1 : y ∈ rem := List.mem_reverse.1 (List.mem_of_find?_eq_some hy)
    have hy2 := List.find?_some hy
    have hle : rem.countP (fun x => decide (x.var ∈ acc.metLvl)) ≤ 1 := Nat.le_trans hws.j6 hn
    have : y = e := countP_le_one_unique hle hy1 he hy2 (by simpa using hm)
    subst this
    exact ⟨-y.lit, by rw [← ha]; exact List.mem_cons_self, hl⟩
  · -- the first literal of level `lvl`
    have hfind : es.find? (fun x => decide (x.var ∈ acc.metLvl)) = some d := by
      rw [List.find?_eq_some_iff_append]
      refine ⟨by simpa using hdm, pre, post', hes2, ?_⟩
      intro x hx
      have hxe : x ∈ es := by rw [hes2]; exact List.mem_append_left _ hx
      have : x.var ∉ acc.metLvl := by
        intro hxm
        have := hws.j2 _ hxm
        rw [lvOf_of_mem hinv.nodup hxe] at this
        exact hpre x hx this
      simpa using this
    rw [hfind] at ha
    simp only [Option.some.injEq] at ha
    exact ⟨-d.lit, by rw [← ha]; exact List.mem_cons_self, hl⟩

/-! ### minimisation: a dropped literal is false whenever the kept ones are -/

theorem minimize_sound {es : List Entry} {lvl : Nat} {A : Asg} (hinv : TrailInv es lvl)
    (hR : ReasonsTrue es A) {rem : List Entry} {acc : Acc} (hws : WS es lvl rem acc)
    (hkept : ∀ l ∈ acc.lits, keep es acc.met l = true → litTrue A l = false) :
    ∀ l ∈ acc.lits, litTrue A l = false := by
  -- by induction along the trail
  have key : ∀ (post pre : List Entry), es = pre ++ post →
      (∀ l ∈ acc.lits, (∃ y ∈ pre, y.lit = -l) → litTrue A l = false) →
      (∀ l ∈ acc.lits, (∃ y ∈ es, y.lit = -l) → litTrue A l = false) := by
    intro post
    induction post with
    | nil => intro pre hes hp; rw [hes, List.append_nil]; exact hp
    | cons x post ih =>
      intro pre hes hp
      have hes' : es = (pre ++ [x]) ++ post := by rw [hes, List.append_assoc]; rfl
      have hxe : x ∈ es := by rw [hes]; simp
      refine ih (pre ++ [x]) hes' ?_
      intro l hl ⟨y, hy, hyl⟩
      rcases List.mem_append.1 hy with hy | hy
      · exact hp l hl ⟨y, hy, hyl⟩
      · rw [List.mem_singleton.1 hy] at hyl
        by_cases hk : keep es acc.met l = true
        · exact hkept l hl hk
        · -- dropped: its antecedent has only `met` variables
          have hx0 : x.lit ≠ 0 := hinv.nonzero x hxe
          have hl0 : l ≠ 0 := by omega
          have hvar : x.var = l.natAbs := natAbs_of_lit_eq_neg hyl
          unfold keep at hk
          rw [← hvar, reasonOf_of_mem hinv.nodup hxe] at hk
          cases hr : x.reason with
          | none => rw [hr] at hk; exact absurd rfl hk
          | some r =>
            rw [hr] at hk
            have hall : ∀ f ∈ r, f.natAbs ∈ acc.met := by
              intro f hf
              apply Classical.byContradiction
              intro hnm
              exact hk (List.any_eq_true.2 ⟨f, hf, by simpa using hnm⟩)
            have hc := hR pre x post r hes hr
            rw [clauseTrue_iff] at hc
            obtain ⟨f, hf, hft⟩ := hc
            rcases List.mem_cons.1 hf with rfl | hf
            · rw [hyl] at hft
              exact litTrue_neg_false hl0 hft
            · rw [List.mem_filter] at hf
              obtain ⟨y', hy', hyf⟩ := (isFalse_iff _ _).1 hf.2
              have hy'e : y' ∈ es := by rw [hes]; exact List.mem_append_left _ hy'
              -- levels: y' is before x, x is not of level lvl
              have hxl : x.lvl ≠ lvl := by
                rw [← lvOf_of_mem hinv.nodup hxe, hvar]; exact (hws.j1 l hl).2
              have hyx : y'.lvl ≤ x.lvl := by
                have := hinv.mono
                rw [hes, List.pairwise_append] at this
                exact this.2.2 y' hy' x List.mem_cons_self
              have hxb := hinv.bound x hxe
              have hfl : lvOf es f.natAbs ≠ lvl := by
                rw [← natAbs_of_lit_eq_neg hyf, lvOf_of_mem hinv.nodup hy'e]; omega
              obtain ⟨g, hg, hgv⟩ := hws.j3 _ (hall f hf.1) hfl
              have hff : isFalse es f = true := (isFalse_iff _ _).2 ⟨y', hy'e, hyf⟩
              have : g = f := false_unique hinv.nodup (hws.j1 g hg).1 hff hgv
              subst this
              have := hp g hg ⟨y', hy', hyf⟩
              rw [this] at hft
              cases hft
  intro l hl
  exact key es [] rfl (fun _ _ ⟨y, hy, _⟩ => by cases hy) l hl ((isFalse_iff _ _).1 (hws.j1 l hl).1)

/-! ### assembling: the literal list `learnClause` ends with is true in every model -/

theorem WS_init (es : List Entry) (lvl : Nat) (rem : List Entry) : WS es lvl rem ⟨[], [], 0, []⟩ where
  j1 := fun _ h => by cases h
  j2 := fun _ h => by cases h
  j3 := fun _ h => by cases h
  j4 := fun _ h => by cases h
  j6 := by
    show List.countP (fun e => decide (e.var ∈ ([] : List Nat))) rem ≤ 0
    simp

theorem asserting_spec {es : List Entry} {m : List Nat} {a : Int} (h : asserting es m = some a) :
    ∃ e ∈ es, e.var ∈ m ∧ a = -e.lit := by
  unfold asserting at h
  split at h
  · rename_i e he
    refine ⟨e, List.mem_of_find?_eq_some he, by simpa using List.find?_some he, ?_⟩
    simpa using h.symm
  · cases h

theorem analyzeRaw_true {es : List Entry} {lvl : Nat} {A : Asg} {confl : List Int}
    (hinv : TrailInv es lvl) (hR : ReasonsTrue es A) (hF : FactsTrue es lvl A)
    (hC : clauseTrue A (confl.filter (isFalse es)) = true) {K : List Int}
    (h : analyzeRaw es lvl confl = some (some K)) : clauseTrue A K = true := by
  unfold analyzeRaw at h
  split at h
  · cases h
  · cases h
  · rename_i acc hw
    split at h
    · cases h
    · rename_i a ha
      simp only [Option.some.injEq] at h
      -- initial state
      have hnd : es.reverse.Pairwise (fun x y => x.var ≠ y.var) :=
        rem_nodup (post := []) hinv.nodup (by simp)
      obtain ⟨hfo, hcov⟩ := foldConfl_FoldOut (es := es) (lvl := lvl) hnd confl
        (WS_init es lvl es.reverse)
      have hsem0 : Sem es lvl A es.reverse (addClauseLits es lvl confl) := by
        rw [clauseTrue_iff] at hC
        obtain ⟨f, hf, hft⟩ := hC
        rw [List.mem_filter] at hf
        obtain ⟨x, hx, hxf⟩ := (isFalse_iff _ _).1 hf.2
        have hx' : x ∈ es.reverse := List.mem_reverse.2 hx
        rcases covered hinv.nodup hfo.ws (hcov f hf.1 hf.2) hx' hx hxf with h' | h'
        · exact ⟨f, hft, Or.inl h'⟩
        · refine ⟨f, hft, Or.inr (Or.inl ⟨x, hx', ?_, by omega⟩)⟩
          rw [natAbs_of_lit_eq_neg hxf]; exact h'
      obtain ⟨rem', post', hes', hws', hsem', hn'⟩ :=
        walk_inv hinv hR hF es.reverse _ [] (by simp) hfo.ws hsem0 acc hw
      obtain ⟨l, hl, hlt⟩ := final_clause hinv hes' hws' hsem' hn' ha
      -- the asserting literal stays in front
      obtain ⟨e, he, hem, hae⟩ := asserting_spec ha
      have hkeya : lvOf es a.natAbs = lvl := by
        have : a.natAbs = e.var := by unfold Entry.var; omega
        rw [this]; exact hws'.j2 _ hem
      have hsort : sortDesc (fun l => lvOf es l.natAbs) (a :: acc.lits)
          = a :: sortDesc (fun l => lvOf es l.natAbs) acc.lits := by
        apply sortDesc_head
        intro y _
        show lvOf es y.natAbs ≤ lvOf es a.natAbs
        rw [hkeya]; exact lvOf_le hinv.bound _
      rw [hsort] at h
      subst h
      -- by contradiction: all kept literals false
      apply Classical.byContradiction
      intro hK
      have hK' : ∀ k ∈ minimize es acc.met (a :: sortDesc (fun l => lvOf es l.natAbs) acc.lits),
          litTrue A k = false := by
        intro k hk
        cases hkt : litTrue A k with
        | false => rfl
        | true => exact absurd ((clauseTrue_iff _ _).2 ⟨k, hk, hkt⟩) hK
      have hlits : ∀ l ∈ acc.lits, litTrue A l = false := by
        apply minimize_sound hinv hR hws'
        intro l hl hk
        apply hK'
        unfold minimize
        exact List.mem_cons_of_mem _ (List.mem_filter.2 ⟨(mem_sortDesc _ _ _).2 hl, hk⟩)
      rcases List.mem_cons.1 hl with rfl | hl
      · have := hK' l (by unfold minimize; exact List.mem_cons_self)
        rw [this] at hlt; cases hlt
      · rw [hlits l hl] at hlt; cases hlt

/-! ### main theorems -/

/-- Semantic premise on antecedents: each antecedent, given to the analysis as the clause made of
    the propagated literal and the antecedent's literals that were false *before* it on the
    trail, is entailed by the clause database `db`.  For a propositional clause this is the
    clause itself (see `ReasonsCnf`); for a cardinality / PB antecedent it is the clausal
    explanation of the propagation (see `card_reason_clause`). -/
def ReasonsEntailed (db : List (List Int)) (es : List Entry) : Prop :=
  ∀ pre e post r, es = pre ++ e :: post → e.reason = some r →
    CnfEntails db (e.lit :: r.filter (isFalse pre))

/-- Semantic premise on literals of the current level without antecedent that are neither
    assumed nor the first of their level: they are facts entailed by `db`.  (Vacuous at levels
    `≥ 2` of a real run, where only the decision has no antecedent; at level 1 these are the
    unit clauses of the problem and the learned units.) -/
def FactsEntailed (db : List (List Int)) (es : List Entry) (lvl : Nat) : Prop :=
  ∀ pre e post, es = pre ++ e :: post → e.reason = none → e.assumed = false → e.lvl = lvl →
    (∃ x ∈ pre, x.lvl = lvl) → CnfEntails db [e.lit]

theorem analyzeE_cases {es lvl confl} :
    (∀ a rest, analyzeE es lvl confl = .learned a rest →
      analyzeRaw es lvl confl = some (some (a :: rest)) ∧ rest ≠ []) ∧
    (∀ l, analyzeE es lvl confl = .unit l → analyzeRaw es lvl confl = some (some [l])) := by
  unfold analyzeE
  constructor
  · intro a rest h
    split at h
    · cases h
    · cases h
    · cases h
    · cases h
    · rename_i a' rest' hne heq
      cases h
      refine ⟨heq, ?_⟩
      rintro rfl
      exact hne rfl
  · intro l h
    split at h
    · cases h
    · cases h
    · cases h
    · rename_i heq; cases h; exact heq
    · cases h

/-- **Soundness of conflict analysis** (all kinds of antecedents). -/
theorem analyzeE_sound (db : List (List Int)) (es : List Entry) (lvl : Nat) (confl : List Int)
    (hinv : trailInv es lvl = true) (hR : ReasonsEntailed db es) (hF : FactsEntailed db es lvl)
    (hC : CnfEntails db (confl.filter (isFalse es))) :
    (∀ a rest, analyzeE es lvl confl = .learned a rest → CnfEntails db (a :: rest)) ∧
    (∀ l, analyzeE es lvl confl = .unit l → CnfEntails db [l]) := by
  have hinv' := (trailInv_iff es lvl).1 hinv
  have main : ∀ K, analyzeRaw es lvl confl = some (some K) → CnfEntails db K := by
    intro K hK A hA
    refine analyzeRaw_true hinv' (fun pre e post r h1 h2 => hR pre e post r h1 h2 A hA) ?_
      (hC A hA) hK
    intro pre e post h1 h2 h3 h4 h5
    have := hF pre e post h1 h2 h3 h4 h5 A hA
    simpa [clauseTrue] using this
  exact ⟨fun a rest h => main _ (analyzeE_cases.1 a rest h).1,
         fun l h => main _ (analyzeE_cases.2 l h)⟩

/-- The same on the snapshot-shaped state. -/
theorem analyze_sound (db : List (List Int)) (st : St)
    (hinv : trailInv st.entries st.lvl = true) (hR : ReasonsEntailed db st.entries)
    (hF : FactsEntailed db st.entries st.lvl)
    (hC : CnfEntails db (st.confl.lits.filter (isFalse st.entries))) :
    (∀ a rest, analyze st = .learned a rest → CnfEntails db (a :: rest)) ∧
    (∀ l, analyze st = .unit l → CnfEntails db [l]) :=
  analyzeE_sound db st.entries st.lvl st.confl.lits hinv hR hF hC

/-! ### propositional antecedents -/

/-- Clause-shaped antecedents (what `reasonsCnf` checks): the propagated literal occurs in its
    antecedent and every other literal of the antecedent is false by an earlier trail entry. -/
def ReasonsCnf (es : List Entry) : Prop :=
  ∀ pre e post r, es = pre ++ e :: post → e.reason = some r →
    e.lit ∈ r ∧ ∀ f ∈ r, f ≠ e.lit → isFalse pre f = true

theorem reasonsCnfAux_spec : ∀ (l p0 : List Entry), reasonsCnfAux p0 l = true →
    ∀ pre e post r, l = pre ++ e :: post → e.reason = some r →
      e.lit ∈ r ∧ ∀ f ∈ r, f ≠ e.lit → isFalse (p0 ++ pre) f = true := by
  intro l
  induction l with
  | nil => intro p0 _ pre e post r h; cases pre <;> cases h
  | cons x xs ih =>
    intro p0 h pre e post r hl hr
    rw [reasonsCnfAux, Bool.and_eq_true] at h
    cases pre with
    | nil =>
      simp only [List.nil_append, List.cons.injEq] at hl
      obtain ⟨rfl, rfl⟩ := hl
      have h1 := h.1
      rw [hr] at h1
      simp only [Bool.and_eq_true, List.contains_iff_mem, List.all_eq_true, Bool.or_eq_true,
        beq_iff_eq] at h1
      refine ⟨h1.1, fun f hf hne => ?_⟩
      rcases h1.2 f hf with h' | h'
      · exact absurd h' hne
      · simpa using h'
    | cons y pre' =>
      simp only [List.cons_append, List.cons.injEq] at hl
      obtain ⟨rfl, rfl⟩ := hl
      have := ih (p0 ++ [x]) h.2 pre' e post r rfl hr
      simpa [List.append_assoc] using this

theorem reasonsCnf_iff (es : List Entry) (h : reasonsCnf es = true) : ReasonsCnf es := by
  intro pre e post r hes hr
  simpa using reasonsCnfAux_spec es [] h pre e post r hes hr

theorem ReasonsCnf.entailed {db : List (List Int)} {es : List Entry} (h : ReasonsCnf es)
    (hdb : ∀ e ∈ es, ∀ r, e.reason = some r → CnfEntails db r) : ReasonsEntailed db es := by
  intro pre e post r hes hr A hA
  have he : e ∈ es := by rw [hes]; simp
  have := hdb e he r hr A hA
  rw [clauseTrue_iff] at this ⊢
  obtain ⟨f, hf, hft⟩ := this
  obtain ⟨_, h2⟩ := h pre e post r hes hr
  by_cases hfe : f = e.lit
  · exact ⟨f, by rw [hfe]; exact List.mem_cons_self, hft⟩
  · exact ⟨f, List.mem_cons_of_mem _ (List.mem_filter.2 ⟨hf, h2 f hf hfe⟩), hft⟩

/-- **Soundness of conflict analysis, propositional antecedents**: if every antecedent on the
    trail is a clause entailed by `db` (a problem clause or an earlier learned clause) in the
    shape unit propagation leaves it, and the conflict clause is entailed by `db`, the learned
    clause / unit is entailed by `db`. -/
theorem analyze_sound_cnf (db : List (List Int)) (st : St)
    (hinv : trailInv st.entries st.lvl = true) (hshape : reasonsCnf st.entries = true)
    (hR : ∀ e ∈ st.entries, ∀ r, e.reason = some r → CnfEntails db r)
    (hF : FactsEntailed db st.entries st.lvl)
    (hC : CnfEntails db (st.confl.lits.filter (isFalse st.entries))) :
    (∀ a rest, analyze st = .learned a rest → CnfEntails db (a :: rest)) ∧
    (∀ l, analyze st = .unit l → CnfEntails db [l]) :=
  analyze_sound db st hinv ((reasonsCnf_iff _ hshape).entailed hR) hF hC

/-- When every literal of the conflict clause is false (a propositional conflict), the premise
    on the conflict is just "the conflict clause is entailed". -/
theorem confl_filter_entailed {db : List (List Int)} {es : List Entry} {c : List Int}
    (hall : ∀ l ∈ c, isFalse es l = true) (h : CnfEntails db c) :
    CnfEntails db (c.filter (isFalse es)) := by
  rwa [List.filter_eq_self.2 hall]

/-! ### the learned clause is asserting; backjump level -/

theorem WS.weaken {es lvl rem acc} (h : WS es lvl rem acc) : WS es lvl [] acc where
  j1 := h.j1
  j2 := h.j2
  j3 := h.j3
  j4 := fun _ _ _ => Or.inr (fun _ he => by cases he)
  j6 := by simp

theorem walk_WS0 {es : List Entry} {lvl : Nat} : ∀ (rem : List Entry) (acc : Acc),
    WS es lvl [] acc → ∀ acc', walk es lvl rem acc = .done acc' → WS es lvl [] acc' := by
  intro rem
  induction rem with
  | nil =>
    intro acc hws acc' hw
    rw [walk] at hw
    split at hw
    · cases hw; exact hws
    · cases hw
  | cons e rem ih =>
    intro acc hws acc' hw
    rw [walk] at hw
    split at hw
    · cases hw; exact hws
    · split at hw
      · refine ih _ ?_ acc' hw
        split
        · rename_i hl
          refine ⟨hws.j1, hws.j2, ?_, fun _ _ _ => Or.inr (fun _ he => by cases he), by simp⟩
          intro v hv hlv
          rcases List.mem_cons.1 hv with rfl | hv
          · exact absurd hl hlv
          · exact hws.j3 v hv hlv
        · exact hws
      · split at hw
        · cases hw
        · have hws1 : WS es lvl [] { acc with nbLvl := acc.nbLvl - 1 } :=
            ⟨hws.j1, hws.j2, hws.j3, fun _ _ _ => Or.inr (fun _ he => by cases he), by simp⟩
          split at hw
          · exact ih _ hws1 acc' hw
          · rename_i r _
            exact ih _ (foldReason_FoldOut (es := es) (lvl := lvl) List.Pairwise.nil r hws1).1.ws acc' hw

/-- Shape of the final literal list when all levels are `≤ lvl`. -/
theorem analyzeRaw_shape {es : List Entry} {lvl : Nat} {confl : List Int}
    (hb : ∀ e ∈ es, e.lvl ≤ lvl) {K : List Int} (h : analyzeRaw es lvl confl = some (some K)) :
    ∃ a acc, WS es lvl [] acc ∧ asserting es acc.metLvl = some a ∧
      K = a :: (sortDesc (fun l => lvOf es l.natAbs) acc.lits).filter (keep es acc.met) := by
  unfold analyzeRaw at h
  split at h
  · cases h
  · cases h
  · rename_i acc hw
    split at h
    · cases h
    · rename_i a ha
      simp only [Option.some.injEq] at h
      have hws0 := (foldConfl_FoldOut (es := es) (lvl := lvl) List.Pairwise.nil confl
        (WS_init es lvl [])).1.ws
      have hws := walk_WS0 es.reverse _ hws0 acc hw
      obtain ⟨e, he, hem, hae⟩ := asserting_spec ha
      have hkeya : lvOf es a.natAbs = lvl := by
        have : a.natAbs = e.var := by unfold Entry.var; omega
        rw [this]; exact hws.j2 _ hem
      have hsort : sortDesc (fun l => lvOf es l.natAbs) (a :: acc.lits)
          = a :: sortDesc (fun l => lvOf es l.natAbs) acc.lits := by
        apply sortDesc_head
        intro y _
        show lvOf es y.natAbs ≤ lvOf es a.natAbs
        rw [hkeya]; exact lvOf_le hb _
      rw [hsort] at h
      exact ⟨a, acc, hws, ha, h.symm⟩

/-- **The learned clause is asserting.**  With all trail levels `≤ lvl`:
    the first literal is false and is the only literal of level `lvl`; every other literal is false
    at a level `< lvl`; the other literals come by non-increasing level, so that the second literal
    of the Go clause (`backtrackData` reads `c.Get(1)`) carries the backjump level. -/
theorem analyzeE_asserting (es : List Entry) (lvl : Nat) (confl : List Int)
    (hb : ∀ e ∈ es, e.lvl ≤ lvl) :
    (∀ a rest, analyzeE es lvl confl = .learned a rest →
      rest ≠ [] ∧ isFalse es a = true ∧ lvOf es a.natAbs = lvl ∧
      (∀ l ∈ rest, isFalse es l = true ∧ lvOf es l.natAbs < lvl) ∧
      rest.Pairwise (fun x y => lvOf es y.natAbs ≤ lvOf es x.natAbs)) ∧
    (∀ l, analyzeE es lvl confl = .unit l → isFalse es l = true ∧ lvOf es l.natAbs = lvl) := by
  have main : ∀ a rest, analyzeRaw es lvl confl = some (some (a :: rest)) →
      isFalse es a = true ∧ lvOf es a.natAbs = lvl ∧
      (∀ l ∈ rest, isFalse es l = true ∧ lvOf es l.natAbs < lvl) ∧
      rest.Pairwise (fun x y => lvOf es y.natAbs ≤ lvOf es x.natAbs) := by
    intro a rest h
    obtain ⟨a', acc, hws, ha, hK⟩ := analyzeRaw_shape hb h
    simp only [List.cons.injEq] at hK
    obtain ⟨rfl, rfl⟩ := hK
    obtain ⟨e, he, hem, hae⟩ := asserting_spec ha
    refine ⟨(isFalse_iff _ _).2 ⟨e, he, by omega⟩, ?_, ?_, ?_⟩
    · have : a.natAbs = e.var := by unfold Entry.var; omega
      rw [this]; exact hws.j2 _ hem
    · intro l hl
      have hl' : l ∈ acc.lits := (mem_sortDesc _ _ _).1 (List.mem_filter.1 hl).1
      have h1 := hws.j1 l hl'
      have h2 := lvOf_le hb l.natAbs
      exact ⟨h1.1, by omega⟩
    · exact (sortDesc_sorted _ _).filter _
  constructor
  · intro a rest h
    obtain ⟨h1, h2⟩ := analyzeE_cases.1 a rest h
    exact ⟨h2, main a rest h1⟩
  · intro l h
    have := main l [] (analyzeE_cases.2 l h)
    exact ⟨this.1, this.2.1⟩

theorem analyze_asserting (st : St) (hinv : trailInv st.entries st.lvl = true) :
    (∀ a rest, analyze st = .learned a rest →
      rest ≠ [] ∧ isFalse st.entries a = true ∧ lvOf st.entries a.natAbs = st.lvl ∧
      (∀ l ∈ rest, isFalse st.entries l = true ∧ lvOf st.entries l.natAbs < st.lvl) ∧
      rest.Pairwise (fun x y => lvOf st.entries y.natAbs ≤ lvOf st.entries x.natAbs)) ∧
    (∀ l, analyze st = .unit l →
      isFalse st.entries l = true ∧ lvOf st.entries l.natAbs = st.lvl) :=
  analyzeE_asserting st.entries st.lvl st.confl.lits ((trailInv_iff _ _).1 hinv).bound

/-- `unit` is returned exactly when nothing but the asserting literal is left. -/
theorem analyzeE_iff (es : List Entry) (lvl : Nat) (confl : List Int) :
    (∀ l, analyzeE es lvl confl = .unit l ↔ analyzeRaw es lvl confl = some (some [l])) ∧
    (∀ a rest, analyzeE es lvl confl = .learned a rest ↔
      (analyzeRaw es lvl confl = some (some (a :: rest)) ∧ rest ≠ [])) := by
  constructor
  · intro l
    refine ⟨analyzeE_cases.2 l, fun h => ?_⟩
    unfold analyzeE; rw [h]
  · intro a rest
    refine ⟨analyzeE_cases.1 a rest, fun ⟨h, hne⟩ => ?_⟩
    unfold analyzeE; rw [h]
    cases rest with
    | nil => exact absurd rfl hne
    | cons b bs => rfl

/-! ### cardinality and pseudo-boolean antecedents / conflicts -/

theorem lhs_le_slack (A : Asg) (fb : Int → Bool) (extra : List Int)
    (hfb : ∀ l, fb l = true → litTrue A l = false) (hex : ∀ l ∈ extra, litTrue A l = false) :
    ∀ ts : List (Int × Int), (∀ t ∈ ts, 0 ≤ t.1) → lhs A ts ≤ slack fb extra ts := by
  intro ts
  induction ts with
  | nil => intro _; simp [lhs, slack]
  | cons t ts ih =>
    intro hpos
    have h1 := ih (fun t' ht' => hpos t' (List.mem_cons_of_mem _ ht'))
    have h0 := hpos t List.mem_cons_self
    unfold lhs slack termVal
    by_cases hc : (fb t.2 || extra.contains t.2) = true
    · have hf : litTrue A t.2 = false := by
        rcases Bool.or_eq_true _ _ ▸ hc with h | h
        · exact hfb _ h
        · exact hex _ (by simpa using h)
      rw [if_pos hc, hf]; simp only [Bool.false_eq_true, if_false]; omega
    · rw [if_neg hc]
      split <;> omega

/-- **Clausal explanation of a PB constraint**: a constraint with non-negative weights whose
    slack (weight not yet lost) without the literals `extra` is below its degree implies the clause
    `extra ∨ (its literals marked by fb)`.  `extra = [x]`: explanation of the propagation of `x`;
    `extra = []`: explanation of a conflict. -/
theorem pb_explains_sound (A : Asg) (fb : Int → Bool) (extra : List Int) (c : Lin)
    (h : pbExplains fb extra c = true) (hc : c.holds A = true) :
    clauseTrue A (extra ++ (c.terms.map (·.2)).filter fb) = true := by
  unfold pbExplains at h
  simp only [Bool.and_eq_true, List.all_eq_true, decide_eq_true_eq] at h
  apply Classical.byContradiction
  intro hK
  have hall : ∀ l ∈ extra ++ (c.terms.map (·.2)).filter fb, litTrue A l = false := by
    intro l hl
    cases hlt : litTrue A l with
    | false => rfl
    | true => exact absurd ((clauseTrue_iff _ _).2 ⟨l, hl, hlt⟩) hK
  -- make `fb` total-false outside the constraint's literals
  let fb' : Int → Bool := fun l => fb l && (c.terms.map (·.2)).contains l
  have hslack : slack fb' extra c.terms = slack fb extra c.terms := by
    have : ∀ ts : List (Int × Int), (∀ t ∈ ts, t.2 ∈ c.terms.map (·.2)) →
        slack fb' extra ts = slack fb extra ts := by
      intro ts
      induction ts with
      | nil => intro _; rfl
      | cons t ts ih =>
        intro hm
        unfold slack
        rw [ih (fun t' ht' => hm t' (List.mem_cons_of_mem _ ht'))]
        have : fb' t.2 = fb t.2 := by
          have := hm t List.mem_cons_self
          simp only [fb', Bool.and_eq_left_iff_imp]
          intro _; simpa using this
        rw [this]
    exact this c.terms (fun t ht => List.mem_map.2 ⟨t, ht, rfl⟩)
  have hle := lhs_le_slack A fb' extra
    (fun l hl => by
      simp only [fb', Bool.and_eq_true, List.contains_iff_mem] at hl
      exact hall l (List.mem_append_right _ (List.mem_filter.2 ⟨hl.2, hl.1⟩)))
    (fun l hl => hall l (List.mem_append_left _ hl)) c.terms h.1
  unfold Lin.holds at hc
  simp only [decide_eq_true_eq] at hc
  omega

/-- **Soundness of conflict analysis over pseudo-boolean problems** (clauses, cardinality and
    PB constraints as conflict and as antecedents).  Each antecedent is a constraint entailed by
    the problem `p`, with non-negative weights, whose literal list is the one given to the
    analysis and which forced its literal given the literals false before it; the conflict is an
    entailed constraint violated under the trail.  Then the learned clause is entailed by `p`. -/
theorem analyze_sound_pb (p : Problem) (st : St)
    (hinv : trailInv st.entries st.lvl = true)
    (hR : ∀ pre e post r, st.entries = pre ++ e :: post → e.reason = some r →
      ∃ c : Lin, Entails p c ∧ c.terms.map (·.2) = r ∧ pbExplains (isFalse pre) [e.lit] c = true)
    (hF : ∀ pre e post, st.entries = pre ++ e :: post → e.reason = none → e.assumed = false →
      e.lvl = st.lvl → (∃ x ∈ pre, x.lvl = st.lvl) → Entails p (Lin.ofClause [e.lit]))
    (hC : ∃ c : Lin, Entails p c ∧ c.terms.map (·.2) = st.confl.lits ∧
      pbExplains (isFalse st.entries) [] c = true) :
    (∀ a rest, analyze st = .learned a rest → Entails p (Lin.ofClause (a :: rest))) ∧
    (∀ l, analyze st = .unit l → Entails p (Lin.ofClause [l])) := by
  have hinv' := (trailInv_iff _ _).1 hinv
  have main : ∀ K, analyzeRaw st.entries st.lvl st.confl.lits = some (some K) →
      Entails p (Lin.ofClause K) := by
    intro K hK A hA
    rw [ofClause_holds]
    refine analyzeRaw_true hinv' ?_ ?_ ?_ hK
    · intro pre e post r h1 h2
      obtain ⟨c, hc, hlits, hex⟩ := hR pre e post r h1 h2
      have := pb_explains_sound A _ _ c hex (hc A hA)
      rwa [hlits] at this
    · intro pre e post h1 h2 h3 h4 h5
      have := hF pre e post h1 h2 h3 h4 h5 A hA
      rw [ofClause_holds] at this
      simpa [clauseTrue] using this
    · obtain ⟨c, hc, hlits, hex⟩ := hC
      have := pb_explains_sound A _ _ c hex (hc A hA)
      rwa [hlits] at this
  exact ⟨fun a rest h => main _ (analyzeE_cases.1 a rest h).1,
         fun l h => main _ (analyzeE_cases.2 l h)⟩

/-! ### the premise on facts is vacuous when only the decision lacks an antecedent -/

theorem decisionsOkAux_spec (lvl : Nat) : ∀ (l p0 : List Entry), decisionsOkAux lvl p0 l = true →
    ∀ pre e post, l = pre ++ e :: post → e.reason = none → e.assumed = false → e.lvl = lvl →
      ¬ ∃ x ∈ p0 ++ pre, x.lvl = lvl := by
  intro l
  induction l with
  | nil => intro p0 _ pre e post h; cases pre <;> cases h
  | cons x xs ih =>
    intro p0 h pre e post hl hr ha hlv
    rw [decisionsOkAux, Bool.and_eq_true] at h
    cases pre with
    | nil =>
      simp only [List.nil_append, List.cons.injEq] at hl
      obtain ⟨rfl, rfl⟩ := hl
      have h1 := h.1
      simp only [hr, ha, hlv, Option.isSome_none, Bool.false_or, bne_self_eq_false,
        List.all_eq_true, bne_iff_ne, ne_eq] at h1
      rintro ⟨y, hy, hyl⟩
      exact h1 y (by simpa using hy) hyl
    | cons y pre' =>
      simp only [List.cons_append, List.cons.injEq] at hl
      obtain ⟨rfl, rfl⟩ := hl
      have := ih (p0 ++ [x]) h.2 pre' e post rfl hr ha hlv
      simpa [List.append_assoc] using this

theorem factsEntailed_of_decisionsOk (db : List (List Int)) {es : List Entry} {lvl : Nat}
    (h : decisionsOk es lvl = true) : FactsEntailed db es lvl := by
  intro pre e post hes hr ha hlv hex
  exact absurd (by simpa using hex) (by simpa using decisionsOkAux_spec lvl es [] h pre e post hes hr ha hlv)

theorem entails_of_mem {db : List (List Int)} {c : List Int} (h : c ∈ db) : CnfEntails db c := by
  intro A hA
  unfold cnfTrue at hA
  exact List.all_eq_true.1 hA c h

/-! ### concrete instances (non-vacuity) -/

/-- A snapshot taken from a run of the Go solver (3-SAT instance, second conflict):
    conflict `-9 2 4` at level 2; trail `-3 -8 -4 | -1 11 -2 9 -5`. -/
def exSt : St :=
  { lvl := 2, confl := ⟨[-9, 2, 4]⟩,
    trail := [(-3, 1, false), (-8, 1, false), (-4, 1, false), (-1, 2, false), (11, 2, false),
              (-2, 2, false), (9, 2, false), (-5, 2, false)],
    reasons := [none, some [-8, 3], some [3, -4], none, some [1, 11], some [-2, -11], some [2, 9],
                some [-5, 2, 4]] }

def exDb : List (List Int) :=
  [[-3], [-8, 3], [3, -4], [1, 11], [-2, -11], [2, 9], [-5, 2, 4], [-9, 2, 4]]

example : analyze exSt = .learned 2 [4] := by decide
example : trailInv exSt.entries exSt.lvl = true := by decide
example : reasonsCnf exSt.entries = true := by decide
example : decisionsOk exSt.entries exSt.lvl = true := by decide

/-- The hypotheses of `analyze_sound_cnf` hold on the snapshot; the learned clause `2 ∨ 4`
    follows from the eight clauses. -/
example : CnfEntails exDb [2, 4] := by
  have h := analyze_sound_cnf exDb exSt (by decide) (by decide)
    (by
      have : ∀ e ∈ exSt.entries, (match e.reason with | some r => decide (r ∈ exDb) | none => true) = true := by
        decide
      intro e he r hr
      have := this e he
      rw [hr] at this
      exact entails_of_mem (by simpa using this))
    (factsEntailed_of_decisionsOk _ (by decide))
    (entails_of_mem (by decide))
  exact h.1 2 [4] (by decide)

/-- Same snapshot shape with a cardinality antecedent: `at least 2 of {5, 6, -1}` propagates `5`
    and `6` after the decision `1`; conflict `-5 ∨ -6 ∨ -1`.  The learned unit is `-1`… -/
def exCard : St :=
  { lvl := 2, confl := ⟨[-5, -6, -1]⟩,
    trail := [(1, 2, false), (5, 2, false), (6, 2, false)],
    reasons := [none, some [5, 6, -1], some [5, 6, -1]] }

example : analyze exCard = .unit (-1) := by decide

example : Entails [Lin.ofCard [5, 6, -1] 2, Lin.ofClause [-5, -6, -1]] (Lin.ofClause [-1]) := by
  have h := analyze_sound_pb [Lin.ofCard [5, 6, -1] 2, Lin.ofClause [-5, -6, -1]] exCard (by decide)
    (by
      intro pre e post r hes hr
      refine ⟨Lin.ofCard [5, 6, -1] 2, fun A hA => ?_, ?_, ?_⟩
      · unfold Problem.holds at hA
        exact List.all_eq_true.1 hA _ List.mem_cons_self
      · -- every antecedent of the trail is this constraint
        have : ∀ e ∈ exCard.entries, e.reason = none ∨ e.reason = some [5, 6, -1] := by decide
        have he : e ∈ exCard.entries := by rw [hes]; simp
        rcases this e he with h | h
        · rw [h] at hr; cases hr
        · rw [h] at hr; cases hr; rfl
      · -- the two propagations are explained
        rcases pre with _ | ⟨x, _ | ⟨y, _ | ⟨z, pre⟩⟩⟩
        · cases hes; cases hr
        · cases hes; decide
        · cases hes; decide
        · have := congrArg List.length hes
          simp [exCard, St.entries] at this)
    (by
      intro pre e post hes hr ha hl ⟨x, hx, hxl⟩
      rcases pre with _ | ⟨x', pre⟩
      · cases hx
      · rcases pre with _ | ⟨y, _ | ⟨z, pre⟩⟩
        · cases hes; cases hr
        · cases hes; cases hr
        · have := congrArg List.length hes
          simp [exCard, St.entries] at this)
    ⟨Lin.ofClause [-5, -6, -1], fun A hA => by
        unfold Problem.holds at hA
        exact List.all_eq_true.1 hA _ (List.mem_cons_of_mem _ List.mem_cons_self), rfl, by decide⟩
  exact h.2 (-1) (by decide)

/-! ### `stuck` cannot happen on a well-formed state

With distinct trail variables and a conflict whose false literals are pairwise distinct and
include one of level `lvl`, `nbLvl` never over-counts: the walk always finds a marked trail
literal (no `s.trail[-1]`), and an asserting literal exists. -/

theorem countP_insert_ge {rem : List Entry} {v : Nat} {m : List Nat} {x : Entry}
    (hx : x ∈ rem) (hxv : x.var = v) (hv : v ∉ m) :
    rem.countP (fun e => decide (e.var ∈ m)) + 1 ≤ rem.countP (fun e => decide (e.var ∈ v :: m)) := by
  induction rem with
  | nil => cases hx
  | cons y ys ih =>
    have hmono : ys.countP (fun e => decide (e.var ∈ m)) ≤ ys.countP (fun e => decide (e.var ∈ v :: m)) := by
      apply List.countP_mono_left
      intro e _ he
      simp only [decide_eq_true_eq] at he ⊢
      exact List.mem_cons_of_mem _ he
    rw [List.countP_cons, List.countP_cons]
    rcases List.mem_cons.1 hx with rfl | hx'
    · have h1 : ¬ (decide (x.var ∈ m) = true) := by simpa [hxv] using hv
      have h2 : decide (x.var ∈ v :: m) = true := by simp [hxv]
      rw [if_neg h1, if_pos h2]; omega
    · have := ih hx'
      by_cases hy : decide (y.var ∈ m) = true
      · have hy' : decide (y.var ∈ v :: m) = true := by
          simp only [decide_eq_true_eq] at hy ⊢; exact List.mem_cons_of_mem _ hy
        rw [if_pos hy, if_pos hy']; omega
      · rw [if_neg hy]; split <;> omega

structure WX (es : List Entry) (lvl : Nat) (rem post : List Entry) (acc : Acc) : Prop where
  x1 : ∀ v ∈ acc.metLvl, v ∈ acc.met
  x2 : ∀ x ∈ post, x.lvl = lvl → x.var ∈ acc.met
  x3 : acc.nbLvl ≤ rem.countP (fun e => decide (e.var ∈ acc.metLvl))
  x4 : ∀ v ∈ acc.metLvl, lvOf es v = lvl

theorem addFalse_WX {es lvl rem post} {acc : Acc} (hnd : es.Pairwise (fun x y => x.var ≠ y.var))
    (hes : es = rem.reverse ++ post) (h : WX es lvl rem post acc) {l : Int}
    (hl : isFalse es l = true) (hm : l.natAbs ∉ acc.met) :
    WX es lvl rem post (addFalse es lvl acc l) := by
  unfold addFalse
  split
  · rename_i heq
    obtain ⟨x, hx, hxl⟩ := (isFalse_iff _ _).1 hl
    have hxv : x.var = l.natAbs := natAbs_of_lit_eq_neg hxl
    have hxrem : x ∈ rem := by
      rw [hes] at hx
      rcases List.mem_append.1 hx with h' | h'
      · exact List.mem_reverse.1 h'
      · exfalso
        apply hm
        rw [← hxv]
        apply h.x2 x h'
        rw [← lvOf_of_mem hnd (hes ▸ hx), hxv]; exact heq
    refine ⟨?_, ?_, ?_, ?_⟩
    · intro v hv
      rcases List.mem_cons.1 hv with rfl | hv
      · exact List.mem_cons_self
      · exact List.mem_cons_of_mem _ (h.x1 v hv)
    · intro y hy hyl; exact List.mem_cons_of_mem _ (h.x2 y hy hyl)
    · have := countP_insert_ge hxrem hxv (fun hv => hm (h.x1 _ hv))
      have := h.x3
      show acc.nbLvl + 1 ≤ rem.countP (fun e => decide (e.var ∈ l.natAbs :: acc.metLvl))
      omega
    · intro v hv
      rcases List.mem_cons.1 hv with rfl | hv
      · exact heq
      · exact h.x4 v hv
  · exact ⟨fun v hv => List.mem_cons_of_mem _ (h.x1 v hv),
      fun y hy hyl => List.mem_cons_of_mem _ (h.x2 y hy hyl), h.x3, h.x4⟩

theorem foldReason_WX {es lvl rem post} (hnd : es.Pairwise (fun x y => x.var ≠ y.var))
    (hes : es = rem.reverse ++ post) (r : List Int) : ∀ {acc : Acc}, WX es lvl rem post acc →
    WX es lvl rem post (r.foldl (stepReason es lvl) acc) ∧
      ∀ v ∈ acc.metLvl, v ∈ (r.foldl (stepReason es lvl) acc).metLvl := by
  induction r with
  | nil => intro acc h; exact ⟨h, fun _ hv => hv⟩
  | cons l r ih =>
    intro acc h
    have step : WX es lvl rem post (stepReason es lvl acc l) ∧
        ∀ v ∈ acc.metLvl, v ∈ (stepReason es lvl acc l).metLvl := by
      unfold stepReason
      split
      · exact ⟨h, fun _ hv => hv⟩
      · rename_i hm
        split
        · rename_i hf
          exact ⟨addFalse_WX hnd hes h hf hm, addFalse_metLvl_mono es lvl acc l⟩
        · exact ⟨h, fun _ hv => hv⟩
    obtain ⟨h2, m2⟩ := ih step.1
    exact ⟨h2, fun v hv => m2 v (step.2 v hv)⟩

theorem foldConfl_filter (es : List Entry) (lvl : Nat) : ∀ (c : List Int) (acc : Acc),
    c.foldl (stepConfl es lvl) acc = (c.filter (isFalse es)).foldl (stepConfl es lvl) acc := by
  intro c
  induction c with
  | nil => intro acc; rfl
  | cons l c ih =>
    intro acc
    by_cases hl : isFalse es l = true
    · rw [List.filter_cons_of_pos hl, List.foldl_cons, List.foldl_cons, ih]
    · rw [List.filter_cons_of_neg hl, List.foldl_cons, ih]
      unfold stepConfl; rw [if_neg hl]

theorem foldConfl_WX {es lvl} (hnd : es.Pairwise (fun x y => x.var ≠ y.var)) :
    ∀ (fs : List Int) (acc : Acc), (∀ l ∈ fs, isFalse es l = true) → fs.Pairwise (· ≠ ·) →
      (∀ l ∈ fs, l.natAbs ∉ acc.met) → WX es lvl es.reverse [] acc →
      WX es lvl es.reverse [] (fs.foldl (stepConfl es lvl) acc) ∧
      (∀ v ∈ acc.metLvl, v ∈ (fs.foldl (stepConfl es lvl) acc).metLvl) ∧
      (∀ l ∈ fs, lvOf es l.natAbs = lvl → l.natAbs ∈ (fs.foldl (stepConfl es lvl) acc).metLvl) := by
  intro fs
  induction fs with
  | nil => intro acc _ _ _ h; exact ⟨h, fun _ hv => hv, fun _ hl => by cases hl⟩
  | cons l fs ih =>
    intro acc hf hp hm h
    rw [List.pairwise_cons] at hp
    have hlf := hf l List.mem_cons_self
    have hstep : stepConfl es lvl acc l = addFalse es lvl acc l := by
      unfold stepConfl; rw [if_pos hlf]
    have h1 : WX es lvl es.reverse [] (stepConfl es lvl acc l) := by
      rw [hstep]; exact addFalse_WX hnd (by simp) h hlf (hm l List.mem_cons_self)
    have hm1 : ∀ l' ∈ fs, l'.natAbs ∉ (stepConfl es lvl acc l).met := by
      intro l' hl' hmem
      rw [hstep] at hmem
      have : (addFalse es lvl acc l).met = l.natAbs :: acc.met := by
        unfold addFalse; split <;> rfl
      rw [this] at hmem
      rcases List.mem_cons.1 hmem with h' | h'
      · have := false_unique hnd (hf l' (List.mem_cons_of_mem _ hl')) hlf h'
        exact hp.1 l' hl' this.symm
      · exact hm l' (List.mem_cons_of_mem _ hl') h'
    obtain ⟨h2, m2, c2⟩ := ih (stepConfl es lvl acc l)
      (fun l' hl' => hf l' (List.mem_cons_of_mem _ hl')) hp.2 hm1 h1
    rw [List.foldl_cons]
    refine ⟨h2, fun v hv => m2 v (by rw [hstep]; exact addFalse_metLvl_mono es lvl acc l v hv), ?_⟩
    intro l' hl' hlv
    rcases List.mem_cons.1 hl' with rfl | hl'
    · apply m2
      rw [hstep]; unfold addFalse; rw [if_pos hlv]; exact List.mem_cons_self
    · exact c2 l' hl' hlv

theorem walk_not_stuck {es : List Entry} {lvl : Nat} (hnd : es.Pairwise (fun x y => x.var ≠ y.var)) :
    ∀ (rem : List Entry) (acc : Acc) (post : List Entry), es = rem.reverse ++ post →
      WX es lvl rem post acc →
      walk es lvl rem acc ≠ .stuck ∧
      ∀ acc', walk es lvl rem acc = .done acc' → ∀ v ∈ acc.metLvl, v ∈ acc'.metLvl := by
  intro rem
  induction rem with
  | nil =>
    intro acc post _ h
    have : acc.nbLvl ≤ 1 := by
      have := h.x3
      simp only [List.countP_nil] at this
      omega
    rw [walk, if_pos this]
    exact ⟨fun h => (by cases h), fun acc' h' v hv => (by cases h'; exact hv)⟩
  | cons e rem ih =>
    intro acc post hes h
    obtain ⟨hes', hemem, _⟩ := split_facts hes
    rw [walk]
    split
    · exact ⟨fun h => (by cases h), fun acc' h' v hv => (by cases h'; exact hv)⟩
    · split
      · rename_i hne
        have hx : WX es lvl rem (e :: post)
            (if lvOf es e.var = lvl then { acc with met := e.var :: acc.met } else acc) := by
          have hx3 : acc.nbLvl ≤ rem.countP (fun x => decide (x.var ∈ acc.metLvl)) := by
            have := h.x3
            rw [List.countP_cons, if_neg (by simpa using hne)] at this
            exact this
          split
          · refine ⟨fun v hv => List.mem_cons_of_mem _ (h.x1 v hv), ?_, hx3, h.x4⟩
            intro y hy hyl
            rcases List.mem_cons.1 hy with rfl | hy
            · exact List.mem_cons_self
            · exact List.mem_cons_of_mem _ (h.x2 y hy hyl)
          · rename_i hl
            refine ⟨h.x1, ?_, hx3, h.x4⟩
            intro y hy hyl
            rcases List.mem_cons.1 hy with rfl | hy
            · exact absurd (by rw [lvOf_of_mem hnd hemem]; exact hyl) hl
            · exact h.x2 y hy hyl
        obtain ⟨i1, i2⟩ := ih _ (e :: post) hes' hx
        refine ⟨i1, fun acc' h' v hv => i2 acc' h' v ?_⟩
        split <;> exact hv
      · rename_i hnn
        have hm : e.var ∈ acc.metLvl := Classical.not_not.1 hnn
        split
        · exact ⟨fun h => (by cases h), fun acc' h' => (by cases h')⟩
        · have hx1 : WX es lvl rem (e :: post) { acc with nbLvl := acc.nbLvl - 1 } := by
            refine ⟨h.x1, ?_, ?_, h.x4⟩
            · intro y hy hyl
              rcases List.mem_cons.1 hy with rfl | hy
              · exact h.x1 _ hm
              · exact h.x2 y hy hyl
            · have := h.x3
              rw [List.countP_cons, if_pos (by simpa using hm)] at this
              show acc.nbLvl - 1 ≤ rem.countP (fun x => decide (x.var ∈ acc.metLvl))
              omega
          split
          · exact ih _ (e :: post) hes' hx1
          · rename_i r _
            obtain ⟨hx2, m2⟩ := foldReason_WX (lvl := lvl) hnd hes' r hx1
            obtain ⟨i1, i2⟩ := ih _ (e :: post) hes' hx2
            exact ⟨i1, fun acc' h' v hv => i2 acc' h' v (m2 v hv)⟩

theorem insDesc_ne_nil (key : Int → Nat) (x : Int) (l : List Int) : insDesc key x l ≠ [] := by
  cases l with
  | nil => simp [insDesc]
  | cons y ys => unfold insDesc; split <;> simp

theorem minimize_ne_nil (es : List Entry) (met : List Nat) (l : List Int) (h : l ≠ []) :
    minimize es met l ≠ [] := by
  cases l with
  | nil => exact absurd rfl h
  | cons a t => simp [minimize]

theorem analyzeE_ne_stuck_of_raw {es lvl confl} {K : List Int}
    (h : analyzeRaw es lvl confl = some (some K)) (hK : K ≠ []) : analyzeE es lvl confl ≠ .stuck := by
  unfold analyzeE; rw [h]
  cases K with
  | nil => exact absurd rfl hK
  | cons a t =>
    cases t with
    | nil => intro h; cases h
    | cons b t' => intro h; cases h

/-- **No panic, no stale slot**: with distinct trail variables and a conflict whose false literals
    are pairwise distinct and include one of level `lvl` (`conflOk`), the analysis ends with a
    clause, a unit or a top-level conflict. -/
theorem analyzeE_not_stuck (es : List Entry) (lvl : Nat) (confl : List Int)
    (hnd : noDupVars es = true) (hc : conflOk es lvl confl = true) :
    analyzeE es lvl confl ≠ .stuck := by
  have hnd' := (noDupVars_iff es).1 hnd
  unfold conflOk at hc
  simp only [Bool.and_eq_true, decide_eq_true_eq, List.any_eq_true, beq_iff_eq] at hc
  obtain ⟨hpw, l0, hl0, hl0lv⟩ := hc
  have hallf : ∀ l ∈ confl.filter (isFalse es), isFalse es l = true :=
    fun l hl => (List.mem_filter.1 hl).2
  have hx0 : WX es lvl es.reverse [] ⟨[], [], 0, []⟩ :=
    ⟨fun _ h => (by cases h), fun _ h => (by cases h), Nat.zero_le _, fun _ h => (by cases h)⟩
  obtain ⟨hx, _, hcov⟩ := foldConfl_WX (lvl := lvl) hnd' (confl.filter (isFalse es)) ⟨[], [], 0, []⟩
    hallf hpw (fun _ _ h => by cases h) hx0
  rw [← foldConfl_filter] at hx hcov
  have hmark : l0.natAbs ∈ (addClauseLits es lvl confl).metLvl := hcov l0 hl0 hl0lv
  obtain ⟨hns, hmono⟩ := walk_not_stuck hnd' es.reverse (addClauseLits es lvl confl) [] (by simp) hx
  cases hw : walk es lvl es.reverse (addClauseLits es lvl confl) with
  | stuck => exact absurd hw hns
  | topLevel =>
    have : analyzeRaw es lvl confl = some none := by unfold analyzeRaw; rw [hw]
    unfold analyzeE; rw [this]; intro h; cases h
  | done acc =>
    have hm' := hmono acc hw _ hmark
    obtain ⟨x, hx', hxl⟩ := (isFalse_iff _ _).1 (hallf l0 hl0)
    have hfind : (es.find? (fun e => decide (e.var ∈ acc.metLvl))).isSome = true := by
      rw [List.find?_isSome]
      exact ⟨x, hx', by rw [natAbs_of_lit_eq_neg hxl]; simpa using hm'⟩
    obtain ⟨y, hy⟩ := Option.isSome_iff_exists.1 hfind
    have hraw : analyzeRaw es lvl confl = some (some (minimize es acc.met
        (sortDesc (fun l => lvOf es l.natAbs) (-y.lit :: acc.lits)))) := by
      unfold analyzeRaw; rw [hw]; simp only [asserting, hy]
    exact analyzeE_ne_stuck_of_raw hraw (minimize_ne_nil _ _ _ (insDesc_ne_nil _ _ _))

theorem analyze_not_stuck (st : St) (hnd : noDupVars st.entries = true)
    (hc : conflOk st.entries st.lvl st.confl.lits = true) : analyze st ≠ .stuck :=
  analyzeE_not_stuck st.entries st.lvl st.confl.lits hnd hc

example : conflOk exSt.entries exSt.lvl exSt.confl.lits = true := by decide

end GS.Analyze

#print axioms GS.Analyze.analyzeE_sound
#print axioms GS.Analyze.analyze_sound
#print axioms GS.Analyze.analyze_sound_cnf
#print axioms GS.Analyze.analyze_sound_pb
#print axioms GS.Analyze.pb_explains_sound
#print axioms GS.Analyze.analyzeE_asserting
#print axioms GS.Analyze.analyze_asserting
#print axioms GS.Analyze.analyzeE_iff
#print axioms GS.Analyze.factsEntailed_of_decisionsOk
#print axioms GS.Analyze.trailInv_iff
#print axioms GS.Analyze.analyze_not_stuck
