import GS.Props.C11_Bf
import GS.Spec.Basic
/-!
# C12 (export side): the clauses produced by `cnfRec` / `asCnf` / `Dimacs` have exactly the
formula's models on the problem variables.
-/
namespace GS.Bf
open GS

/-! ## Formulas built through the public API mention no dummy variable -/

mutual
/-- every variable of the tree has `dummy = false` (true of everything built from `Var`, the
    connectives and `Unique` on at most 4 names; `uniqueRec` is the only producer of dummies) -/
def userOnly : F → Bool
  | .var _ d => !d
  | .lit _ d _ => !d
  | .not f => userOnly f
  | .and fs => userOnlyAll fs
  | .or fs => userOnlyAll fs
  | .tt => true
  | .ff => true
def userOnlyAll : List F → Bool
  | [] => true
  | f :: fs => userOnly f && userOnlyAll fs
end

/-! ## The table invariant -/

/-- invariant of `vars.all` along `cnfRec`, started from the empty map:
    the `i`-th inserted variable has index `i+1`; a dummy entry is one created by `dummy()`
    (named after its index); `lookup` finds every entry (keys are pairwise distinct). -/
structure TblInv (t : Tbl) : Prop where
  idx : ∀ (i : Nat) (k : Key) (v : Nat), t[i]? = some (k, v) → v = i + 1
  dum : ∀ (k : Key) (v : Nat), (k, v) ∈ t → k.2 = true → k.1 = v
  look : ∀ (k : Key) (v : Nat), (k, v) ∈ t → t.lookup k = some v

theorem TblInv.nil : TblInv [] := ⟨by simp, by simp, by simp⟩

theorem TblInv.bound {t : Tbl} (hi : TblInv t) {k : Key} {v : Nat} (h : (k, v) ∈ t) :
    1 ≤ v ∧ v ≤ t.length := by
  obtain ⟨i, hlt, hget⟩ := List.getElem_of_mem h
  have := hi.idx i k v (by simp [List.getElem?_eq_getElem hlt, hget])
  omega

theorem TblInv.snoc {t : Tbl} (hi : TblInv t) (k : Key) (hnone : t.lookup k = none)
    (hd : k.2 = true → k.1 = t.length + 1) : TblInv (t ++ [(k, t.length + 1)]) := by
  constructor
  · intro i k' v h
    rw [List.getElem?_append] at h
    split at h
    · exact hi.idx i k' v h
    · rename_i hge
      have : i - t.length = 0 ∨ 0 < i - t.length := by omega
      rcases this with h0 | h0
      · rw [h0] at h; simp at h; omega
      · rw [List.getElem?_eq_none (by simp; omega)] at h; simp at h
  · intro k' v h hk
    simp only [List.mem_append, List.mem_singleton, Prod.mk.injEq] at h
    rcases h with h | ⟨rfl, rfl⟩
    · exact hi.dum k' v h hk
    · exact hd hk
  · intro k' v h
    simp only [List.mem_append, List.mem_singleton, Prod.mk.injEq] at h
    rw [List.lookup_append]
    rcases h with h | ⟨rfl, rfl⟩
    · simp [hi.look k' v h]
    · simp [hnone]

/-- `vars.litValue` -/
theorem litValue_spec (t : Tbl) (k : Key) (s : Bool) (hi : TblInv t) (hk : k.2 = false) :
    ∃ v : Nat, (litValue t k s).1 = (if s then -(v : Int) else (v : Int)) ∧
      (k, v) ∈ (litValue t k s).2 ∧ t <+: (litValue t k s).2 ∧ TblInv (litValue t k s).2 ∧
      ((litValue t k s).2 = t ∨ ((litValue t k s).2 = t ++ [(k, t.length + 1)] ∧ v = t.length + 1)) := by
  unfold litValue
  cases hl : t.lookup k with
  | some v =>
    refine ⟨v, rfl, ?_, List.prefix_refl _, hi, Or.inl rfl⟩
    obtain ⟨l1, l2, rfl, _⟩ := List.lookup_eq_some_iff.1 hl
    simp
  | none =>
    refine ⟨t.length + 1, rfl, by simp, List.prefix_append _ _, ?_, Or.inr ⟨rfl, rfl⟩⟩
    exact hi.snoc k hl (by simp [hk])

/-- `vars.dummy` -/
theorem dummy_spec (t : Tbl) (hi : TblInv t) :
    (dummy t).1 = t.length + 1 ∧ (dummy t).2 = t ++ [((t.length + 1, true), t.length + 1)] ∧
      TblInv (dummy t).2 := by
  refine ⟨rfl, rfl, ?_⟩
  apply hi.snoc (t.length + 1, true)
  · rw [List.lookup_eq_none_iff]
    intro p hp
    have hb := hi.bound (k := p.1) (v := p.2) hp
    by_cases hpd : p.1.2 = true
    · have := hi.dum p.1 p.2 hp hpd
      simp only [bne_iff_ne, ne_eq]
      intro heq
      have : p.1.1 = t.length + 1 := by rw [← heq]
      omega
    · simp only [bne_iff_ne, ne_eq]
      intro heq
      apply hpd; rw [← heq]
  · intro _; rfl

/-! ## Structure of a `cnfRec` run: the table only grows, the invariant is kept, literals are in range -/

/-- literals are non-zero and within `1..n` -/
def LitsOk (n : Nat) (cs : List (List Int)) : Prop := ∀ c ∈ cs, ∀ l ∈ c, 1 ≤ l.natAbs ∧ l.natAbs ≤ n

theorem LitsOk.mono {n n' : Nat} {cs} (h : LitsOk n cs) (hn : n ≤ n') : LitsOk n' cs :=
  fun c hc l hl => ⟨(h c hc l hl).1, Nat.le_trans (h c hc l hl).2 hn⟩

theorem LitsOk.append {n : Nat} {xs ys} (hx : LitsOk n xs) (hy : LitsOk n ys) : LitsOk n (xs ++ ys) := by
  intro c hc
  rcases List.mem_append.1 hc with h | h
  · exact hx c h
  · exact hy c h

theorem lit_natAbs (v : Nat) (s : Bool) : (if s then -(v : Int) else (v : Int)).natAbs = v := by
  cases s <;> simp

mutual
theorem cnfRec_inv : ∀ (f : F) (t : Tbl) (cs : List (List Int)) (t' : Tbl), TblInv t → userOnly f = true →
    cnfRec f t = some (cs, t') → t <+: t' ∧ TblInv t' ∧ LitsOk t'.length cs
  | .lit n d s, t, cs, t', hi, hu, h => by
      simp only [userOnly, Bool.not_eq_true'] at hu
      obtain ⟨v, hl, hmem, hpre, hinv, _⟩ := litValue_spec t (n, d) s hi hu
      simp only [cnfRec, Option.some.injEq, Prod.mk.injEq] at h
      obtain ⟨rfl, rfl⟩ := h
      refine ⟨hpre, hinv, ?_⟩
      intro c hc l hl'
      simp only [List.mem_singleton] at hc
      subst hc
      simp only [List.mem_singleton] at hl'
      subst hl'
      rw [hl, lit_natAbs]
      exact hinv.bound hmem
  | .and fs, t, cs, t', hi, hu, h => by
      simp only [userOnly] at hu
      simp only [cnfRec] at h
      exact cnfAnd_inv fs t cs t' hi hu h
  | .or fs, t, cs, t', hi, hu, h => by
      simp only [userOnly] at hu
      simp only [cnfRec] at h
      cases h1 : cnfOr fs t with
      | none => simp [h1] at h
      | some r =>
        obtain ⟨res, lits, t1⟩ := r
        simp only [h1, Option.some.injEq, Prod.mk.injEq] at h
        obtain ⟨rfl, rfl⟩ := h
        obtain ⟨hp, hinv, hres, hlits⟩ := cnfOr_inv fs t res lits t1 hi hu h1
        refine ⟨hp, hinv, hres.append ?_⟩
        intro c hc
        simp only [List.mem_singleton] at hc
        subst hc
        exact hlits
  | .tt, t, cs, t', hi, _, h => by
      simp only [cnfRec, Option.some.injEq, Prod.mk.injEq] at h
      obtain ⟨rfl, rfl⟩ := h
      exact ⟨List.prefix_refl _, hi, by intro c hc; simp at hc⟩
  | .ff, t, cs, t', hi, _, h => by
      simp only [cnfRec, Option.some.injEq, Prod.mk.injEq] at h
      obtain ⟨rfl, rfl⟩ := h
      exact ⟨List.prefix_refl _, hi, by intro c hc l hl; simp at hc; subst hc; simp at hl⟩
  | .var _ _, _, _, _, _, _, h => by simp [cnfRec] at h
  | .not _, _, _, _, _, _, h => by simp [cnfRec] at h
theorem cnfAnd_inv : ∀ (fs : List F) (t : Tbl) (cs : List (List Int)) (t' : Tbl), TblInv t →
    userOnlyAll fs = true → cnfAnd fs t = some (cs, t') → t <+: t' ∧ TblInv t' ∧ LitsOk t'.length cs
  | [], t, cs, t', hi, _, h => by
      simp only [cnfAnd, Option.some.injEq, Prod.mk.injEq] at h
      obtain ⟨rfl, rfl⟩ := h
      exact ⟨List.prefix_refl _, hi, by intro c hc; simp at hc⟩
  | f :: fs, t, cs, t', hi, hu, h => by
      simp only [userOnlyAll, Bool.and_eq_true] at hu
      simp only [cnfAnd] at h
      cases h1 : cnfRec f t with
      | none => simp [h1] at h
      | some r1 =>
        obtain ⟨c1, t1⟩ := r1
        simp only [h1] at h
        cases h2 : cnfAnd fs t1 with
        | none => simp [h2] at h
        | some r2 =>
          obtain ⟨c2, t2⟩ := r2
          simp only [h2, Option.some.injEq, Prod.mk.injEq] at h
          obtain ⟨rfl, rfl⟩ := h
          obtain ⟨hp1, hi1, hl1⟩ := cnfRec_inv f t c1 t1 hi hu.1 h1
          obtain ⟨hp2, hi2, hl2⟩ := cnfAnd_inv fs t1 c2 t2 hi1 hu.2 h2
          exact ⟨hp1.trans hp2, hi2, (hl1.mono hp2.length_le).append hl2⟩
theorem cnfOr_inv : ∀ (fs : List F) (t : Tbl) (res : List (List Int)) (lits : List Int) (t' : Tbl), TblInv t →
    userOnlyAll fs = true → cnfOr fs t = some (res, lits, t') →
    t <+: t' ∧ TblInv t' ∧ LitsOk t'.length res ∧ (∀ l ∈ lits, 1 ≤ l.natAbs ∧ l.natAbs ≤ t'.length)
  | [], t, res, lits, t', hi, _, h => by
      simp only [cnfOr, Option.some.injEq, Prod.mk.injEq] at h
      obtain ⟨rfl, rfl, rfl⟩ := h
      exact ⟨List.prefix_refl _, hi, by intro c hc; simp at hc, by simp⟩
  | f :: fs, t, res, lits, t', hi, hu, h => by
      simp only [userOnlyAll, Bool.and_eq_true] at hu
      simp only [cnfOr] at h
      cases h1 : cnfOrChild f t with
      | none => simp [h1] at h
      | some r1 =>
        obtain ⟨c1, l, t1⟩ := r1
        simp only [h1] at h
        cases h2 : cnfOr fs t1 with
        | none => simp [h2] at h
        | some r2 =>
          obtain ⟨c2, ls, t2⟩ := r2
          simp only [h2, Option.some.injEq, Prod.mk.injEq] at h
          obtain ⟨rfl, rfl, rfl⟩ := h
          obtain ⟨hp1, hi1, hl1, hb1⟩ := cnfOrChild_inv f t c1 l t1 hi hu.1 h1
          obtain ⟨hp2, hi2, hl2, hb2⟩ := cnfOr_inv fs t1 c2 ls t2 hi1 hu.2 h2
          refine ⟨hp1.trans hp2, hi2, (hl1.mono hp2.length_le).append hl2, ?_⟩
          intro x hx
          simp only [List.mem_cons] at hx
          rcases hx with rfl | hx
          · exact ⟨hb1.1, Nat.le_trans hb1.2 hp2.length_le⟩
          · exact hb2 x hx
theorem cnfOrChild_inv : ∀ (f : F) (t : Tbl) (c : List (List Int)) (l : Int) (t' : Tbl), TblInv t →
    userOnly f = true → cnfOrChild f t = some (c, l, t') →
    t <+: t' ∧ TblInv t' ∧ LitsOk t'.length c ∧ (1 ≤ l.natAbs ∧ l.natAbs ≤ t'.length)
  | .lit n d s, t, c, l, t', hi, hu, h => by
      simp only [userOnly, Bool.not_eq_true'] at hu
      obtain ⟨v, hl, hmem, hpre, hinv, _⟩ := litValue_spec t (n, d) s hi hu
      simp only [cnfOrChild, Option.some.injEq, Prod.mk.injEq] at h
      obtain ⟨rfl, rfl, rfl⟩ := h
      refine ⟨hpre, hinv, by intro c hc; simp at hc, ?_⟩
      rw [hl, lit_natAbs]
      exact hinv.bound hmem
  | .and gs, t, c, l, t', hi, hu, h => by
      simp only [userOnly] at hu
      obtain ⟨hd1, hd2, hdi⟩ := dummy_spec t hi
      simp only [cnfOrChild] at h
      cases h1 : cnfAnd gs (dummy t).2 with
      | none => simp [h1] at h
      | some r =>
        obtain ⟨c1, t2⟩ := r
        simp only [h1, Option.some.injEq, Prod.mk.injEq] at h
        obtain ⟨rfl, rfl, rfl⟩ := h
        obtain ⟨hp, hi2, hl⟩ := cnfAnd_inv gs _ c1 t2 hdi hu h1
        have hpre : t <+: (dummy t).2 := by rw [hd2]; exact List.prefix_append _ _
        have hlen : t.length + 1 ≤ t2.length := by
          have := hp.length_le
          rw [hd2] at this; simpa using this
        refine ⟨hpre.trans hp, hi2, ?_, ?_⟩
        · intro c hc x hx
          simp only [List.mem_map] at hc
          obtain ⟨c0, hc0, rfl⟩ := hc
          simp only [List.mem_append, List.mem_singleton] at hx
          rcases hx with hx | rfl
          · exact hl c0 hc0 x hx
          · rw [hd1]; simp only [Int.natAbs_neg, Int.natAbs_natCast]; omega
        · rw [hd1]; simp only [Int.natAbs_natCast]; omega
  | .or _, _, _, _, _, _, _, h => by simp [cnfOrChild] at h
  | .var _ _, _, _, _, _, _, _, h => by simp [cnfOrChild] at h
  | .not _, _, _, _, _, _, _, h => by simp [cnfOrChild] at h
  | .tt, _, _, _, _, _, _, h => by simp [cnfOrChild] at h
  | .ff, _, _, _, _, _, _, h => by simp [cnfOrChild] at h
end

/-! ## `cnfRec_sound` -/

theorem litTrue_lit (a : Asg) (v : Nat) (hv : 1 ≤ v) (s : Bool) :
    litTrue a (if s then -(v : Int) else (v : Int)) = (a v != s) := by
  cases s
  · simp [litTrue]; omega
  · simp [litTrue]

theorem cnfTrue_append (a : Asg) (xs ys : List (List Int)) :
    cnfTrue a (xs ++ ys) = (cnfTrue a xs && cnfTrue a ys) := by
  simp [cnfTrue, List.all_append]

theorem cnfTrue_guard (a : Asg) (d : Nat) (hd : 1 ≤ d) (c : List (List Int)) :
    cnfTrue a (c.map (fun cl => cl ++ [-(d : Int)])) = (!a d || cnfTrue a c) := by
  have hl : litTrue a (-(d : Int)) = !a d := by
    have := litTrue_lit a d hd true
    simpa using this
  induction c with
  | nil => simp [cnfTrue]
  | cons x xs ih =>
    simp only [cnfTrue, List.map_cons, List.all_cons] at ih ⊢
    rw [ih]
    simp only [clauseTrue, List.any_append, List.any_cons, List.any_nil, Bool.or_false, hl]
    cases a d <;> simp

section sound
set_option linter.unusedSectionVars false
variable (a : Asg) (m : Key → Bool) (T : Tbl)
  (hm : ∀ (k : Key) (v : Nat), (k, v) ∈ T → k.2 = false → m k = a v)
include hm

mutual
theorem cnfRec_sound : ∀ (f : F) (t : Tbl) (cs : List (List Int)) (t' : Tbl), TblInv t → userOnly f = true →
    cnfRec f t = some (cs, t') → t' <+: T → cnfTrue a cs = true → eval m f = true
  | .lit n d s, t, cs, t', hi, hu, h, hT, hc => by
      simp only [userOnly, Bool.not_eq_true'] at hu
      obtain ⟨v, hl, hmem, hpre, hinv, _⟩ := litValue_spec t (n, d) s hi hu
      simp only [cnfRec, Option.some.injEq, Prod.mk.injEq] at h
      obtain ⟨rfl, rfl⟩ := h
      have hv := hinv.bound hmem
      have hmk := hm (n, d) v (hT.subset hmem) hu
      rw [hl] at hc
      simp only [cnfTrue, clauseTrue, List.all_cons, List.any_cons, List.any_nil, List.all_nil,
        Bool.or_false, Bool.and_true, litTrue_lit a v hv.1 s] at hc
      simp only [eval, hmk, hc]
  | .and fs, t, cs, t', hi, hu, h, hT, hc => by
      simp only [userOnly] at hu
      simp only [cnfRec] at h
      simpa only [eval] using cnfAnd_sound fs t cs t' hi hu h hT hc
  | .or fs, t, cs, t', hi, hu, h, hT, hc => by
      simp only [userOnly] at hu
      simp only [cnfRec] at h
      cases h1 : cnfOr fs t with
      | none => simp [h1] at h
      | some r =>
        obtain ⟨res, lits, t1⟩ := r
        simp only [h1, Option.some.injEq, Prod.mk.injEq] at h
        obtain ⟨rfl, rfl⟩ := h
        rw [cnfTrue_append] at hc
        simp only [Bool.and_eq_true] at hc
        have hl : clauseTrue a lits = true := by
          simpa [cnfTrue] using hc.2
        simpa only [eval] using cnfOr_sound fs t res lits t1 hi hu h1 hT hc.1 hl
  | .tt, _, _, _, _, _, _, _, _ => by simp [eval]
  | .ff, t, cs, t', _, _, h, _, hc => by
      simp only [cnfRec, Option.some.injEq, Prod.mk.injEq] at h
      obtain ⟨rfl, rfl⟩ := h
      simp [cnfTrue, clauseTrue] at hc
  | .var _ _, _, _, _, _, _, h, _, _ => by simp [cnfRec] at h
  | .not _, _, _, _, _, _, h, _, _ => by simp [cnfRec] at h
theorem cnfAnd_sound : ∀ (fs : List F) (t : Tbl) (cs : List (List Int)) (t' : Tbl), TblInv t →
    userOnlyAll fs = true → cnfAnd fs t = some (cs, t') → t' <+: T → cnfTrue a cs = true →
    evalAll m fs = true
  | [], _, _, _, _, _, _, _, _ => by simp [evalAll]
  | f :: fs, t, cs, t', hi, hu, h, hT, hc => by
      simp only [userOnlyAll, Bool.and_eq_true] at hu
      simp only [cnfAnd] at h
      cases h1 : cnfRec f t with
      | none => simp [h1] at h
      | some r1 =>
        obtain ⟨c1, t1⟩ := r1
        simp only [h1] at h
        cases h2 : cnfAnd fs t1 with
        | none => simp [h2] at h
        | some r2 =>
          obtain ⟨c2, t2⟩ := r2
          simp only [h2, Option.some.injEq, Prod.mk.injEq] at h
          obtain ⟨rfl, rfl⟩ := h
          obtain ⟨hp1, hi1, _⟩ := cnfRec_inv f t c1 t1 hi hu.1 h1
          obtain ⟨hp2, _, _⟩ := cnfAnd_inv fs t1 c2 t2 hi1 hu.2 h2
          rw [cnfTrue_append] at hc
          simp only [Bool.and_eq_true] at hc
          have e1 := cnfRec_sound f t c1 t1 hi hu.1 h1 (hp2.trans hT) hc.1
          have e2 := cnfAnd_sound fs t1 c2 t2 hi1 hu.2 h2 hT hc.2
          simp [evalAll, e1, e2]
theorem cnfOr_sound : ∀ (fs : List F) (t : Tbl) (res : List (List Int)) (lits : List Int) (t' : Tbl), TblInv t →
    userOnlyAll fs = true → cnfOr fs t = some (res, lits, t') → t' <+: T → cnfTrue a res = true →
    clauseTrue a lits = true → evalAny m fs = true
  | [], t, res, lits, t', _, _, h, _, _, hl => by
      simp only [cnfOr, Option.some.injEq, Prod.mk.injEq] at h
      obtain ⟨rfl, rfl, rfl⟩ := h
      simp [clauseTrue] at hl
  | f :: fs, t, res, lits, t', hi, hu, h, hT, hc, hl => by
      simp only [userOnlyAll, Bool.and_eq_true] at hu
      simp only [cnfOr] at h
      cases h1 : cnfOrChild f t with
      | none => simp [h1] at h
      | some r1 =>
        obtain ⟨c1, l, t1⟩ := r1
        simp only [h1] at h
        cases h2 : cnfOr fs t1 with
        | none => simp [h2] at h
        | some r2 =>
          obtain ⟨c2, ls, t2⟩ := r2
          simp only [h2, Option.some.injEq, Prod.mk.injEq] at h
          obtain ⟨rfl, rfl, rfl⟩ := h
          obtain ⟨hp1, hi1, _, _⟩ := cnfOrChild_inv f t c1 l t1 hi hu.1 h1
          obtain ⟨hp2, _, _, _⟩ := cnfOr_inv fs t1 c2 ls t2 hi1 hu.2 h2
          rw [cnfTrue_append] at hc
          simp only [Bool.and_eq_true] at hc
          simp only [clauseTrue, List.any_cons, Bool.or_eq_true] at hl
          rcases hl with hl | hl
          · have e1 := cnfOrChild_sound f t c1 l t1 hi hu.1 h1 (hp2.trans hT) hc.1 hl
            simp [evalAny, e1]
          · have e2 := cnfOr_sound fs t1 c2 ls t2 hi1 hu.2 h2 hT hc.2 (by simpa [clauseTrue] using hl)
            simp [evalAny, e2]
theorem cnfOrChild_sound : ∀ (f : F) (t : Tbl) (c : List (List Int)) (l : Int) (t' : Tbl), TblInv t →
    userOnly f = true → cnfOrChild f t = some (c, l, t') → t' <+: T → cnfTrue a c = true →
    litTrue a l = true → eval m f = true
  | .lit n d s, t, c, l, t', hi, hu, h, hT, _, hl => by
      simp only [userOnly, Bool.not_eq_true'] at hu
      obtain ⟨v, hlv, hmem, hpre, hinv, _⟩ := litValue_spec t (n, d) s hi hu
      simp only [cnfOrChild, Option.some.injEq, Prod.mk.injEq] at h
      obtain ⟨rfl, rfl, rfl⟩ := h
      have hv := hinv.bound hmem
      have hmk := hm (n, d) v (hT.subset hmem) hu
      rw [hlv, litTrue_lit a v hv.1 s] at hl
      simp only [eval, hmk, hl]
  | .and gs, t, c, l, t', hi, hu, h, hT, hc, hl => by
      simp only [userOnly] at hu
      obtain ⟨hd1, hd2, hdi⟩ := dummy_spec t hi
      simp only [cnfOrChild] at h
      cases h1 : cnfAnd gs (dummy t).2 with
      | none => simp [h1] at h
      | some r =>
        obtain ⟨c1, t2⟩ := r
        simp only [h1, Option.some.injEq, Prod.mk.injEq] at h
        obtain ⟨rfl, rfl, rfl⟩ := h
        have hpos : 1 ≤ (dummy t).1 := by rw [hd1]; omega
        have had : a (dummy t).1 = true := by
          have := litTrue_lit a (dummy t).1 hpos false
          simp only [Bool.false_eq_true, if_false] at this
          rw [this] at hl; simpa using hl
        rw [cnfTrue_guard a _ hpos, had] at hc
        simp only [Bool.not_true, Bool.false_or] at hc
        simpa only [eval] using cnfAnd_sound gs _ c1 t2 hdi hu h1 hT hc
  | .or _, _, _, _, _, _, _, h, _, _, _ => by simp [cnfOrChild] at h
  | .var _ _, _, _, _, _, _, _, h, _, _, _ => by simp [cnfOrChild] at h
  | .not _, _, _, _, _, _, _, h, _, _, _ => by simp [cnfOrChild] at h
  | .tt, _, _, _, _, _, _, h, _, _, _ => by simp [cnfOrChild] at h
  | .ff, _, _, _, _, _, _, h, _, _, _ => by simp [cnfOrChild] at h
end
end sound

/-! ## `cnfRec_complete` -/

/-- `a` and `a0` agree on the variables `≤ n` -/
def Agree (n : Nat) (a a0 : Asg) : Prop := ∀ v, v ≤ n → a v = a0 v

/-- `a` gives every problem variable of the table the value `m` gives to its name -/
def Ext (m : Key → Bool) (a : Asg) (t : Tbl) : Prop := ∀ (k : Key) (v : Nat), (k, v) ∈ t → k.2 = false → a v = m k

theorem litTrue_congr {n : Nat} {a a0 : Asg} (h : Agree n a a0) (l : Int) (hl : l.natAbs ≤ n) :
    litTrue a l = litTrue a0 l := by
  simp [litTrue, h _ hl]

theorem clauseTrue_congr {n : Nat} {a a0 : Asg} (h : Agree n a a0) (c : List Int)
    (hc : ∀ l ∈ c, 1 ≤ l.natAbs ∧ l.natAbs ≤ n) : clauseTrue a c = clauseTrue a0 c := by
  induction c with
  | nil => rfl
  | cons l ls ih =>
    have h1 := litTrue_congr h l (hc l (by simp)).2
    have h2 := ih (fun x hx => hc x (by simp [hx]))
    simp only [clauseTrue, List.any_cons] at h2 ⊢
    rw [h1, h2]

theorem cnfTrue_congr {n : Nat} {a a0 : Asg} (h : Agree n a a0) (cs : List (List Int)) (hcs : LitsOk n cs) :
    cnfTrue a cs = cnfTrue a0 cs := by
  induction cs with
  | nil => rfl
  | cons c cs ih =>
    have h1 := clauseTrue_congr h c (hcs c (by simp))
    have h2 := ih (fun x hx => hcs x (by simp [hx]))
    simp only [cnfTrue, List.all_cons] at h2 ⊢
    rw [h1, h2]

theorem Agree.trans {n n' : Nat} {a2 a1 a0 : Asg} (h2 : Agree n' a2 a1) (h1 : Agree n a1 a0) (hn : n ≤ n') :
    Agree n a2 a0 := fun v hv => (h2 v (Nat.le_trans hv hn)).trans (h1 v hv)

theorem litValue_complete (m : Key → Bool) (t : Tbl) (k : Key) (s : Bool) (hi : TblInv t) (hk : k.2 = false)
    (a0 : Asg) (h0 : Ext m a0 t) :
    ∃ a, Agree t.length a a0 ∧ Ext m a (litValue t k s).2 ∧ litTrue a (litValue t k s).1 = (m k != s) := by
  obtain ⟨v, hl, hmem, hpre, hinv, hcase⟩ := litValue_spec t k s hi hk
  have hv := hinv.bound hmem
  rcases hcase with he | ⟨he, hv'⟩
  · refine ⟨a0, fun _ _ => rfl, by rw [he]; exact h0, ?_⟩
    rw [he] at hmem
    rw [hl, litTrue_lit a0 v hv.1 s, h0 k v hmem hk]
  · refine ⟨fun x => if x = t.length + 1 then m k else a0 x, ?_, ?_, ?_⟩
    · intro x hx
      have : x ≠ t.length + 1 := by omega
      simp [this]
    · rw [he]
      intro k' v' hm' hk'
      simp only [List.mem_append, List.mem_singleton, Prod.mk.injEq] at hm'
      rcases hm' with hm' | ⟨rfl, rfl⟩
      · have := (hi.bound hm').2
        have hne : v' ≠ t.length + 1 := by omega
        simp only [hne, if_false]
        exact h0 k' v' hm' hk'
      · simp
    · rw [hl, litTrue_lit _ v hv.1 s, hv']
      simp

section complete
variable (m : Key → Bool)

mutual
theorem cnfRec_complete_aux : ∀ (f : F) (t : Tbl) (cs : List (List Int)) (t' : Tbl), TblInv t → userOnly f = true →
    cnfRec f t = some (cs, t') → ∀ a0, Ext m a0 t →
    ∃ a, Agree t.length a a0 ∧ Ext m a t' ∧ (eval m f = true → cnfTrue a cs = true)
  | .lit n d s, t, cs, t', hi, hu, h, a0, h0 => by
      simp only [userOnly, Bool.not_eq_true'] at hu
      obtain ⟨a, hag, hext, hlit⟩ := litValue_complete m t (n, d) s hi hu a0 h0
      simp only [cnfRec, Option.some.injEq, Prod.mk.injEq] at h
      obtain ⟨rfl, rfl⟩ := h
      refine ⟨a, hag, hext, ?_⟩
      intro he
      simp only [eval] at he
      simp [cnfTrue, clauseTrue, hlit, he]
  | .and fs, t, cs, t', hi, hu, h, a0, h0 => by
      simp only [userOnly] at hu
      simp only [cnfRec] at h
      simpa only [eval] using cnfAnd_complete_aux fs t cs t' hi hu h a0 h0
  | .or fs, t, cs, t', hi, hu, h, a0, h0 => by
      simp only [userOnly] at hu
      simp only [cnfRec] at h
      cases h1 : cnfOr fs t with
      | none => simp [h1] at h
      | some r =>
        obtain ⟨res, lits, t1⟩ := r
        simp only [h1, Option.some.injEq, Prod.mk.injEq] at h
        obtain ⟨rfl, rfl⟩ := h
        obtain ⟨a, hag, hext, hres, hlits⟩ := cnfOr_complete_aux fs t res lits t1 hi hu h1 a0 h0
        refine ⟨a, hag, hext, ?_⟩
        intro he
        simp only [eval] at he
        rw [cnfTrue_append, hres]
        simp [cnfTrue, hlits, he]
  | .tt, t, cs, t', _, _, h, a0, h0 => by
      simp only [cnfRec, Option.some.injEq, Prod.mk.injEq] at h
      obtain ⟨rfl, rfl⟩ := h
      exact ⟨a0, fun _ _ => rfl, h0, fun _ => by simp [cnfTrue]⟩
  | .ff, t, cs, t', _, _, h, a0, h0 => by
      simp only [cnfRec, Option.some.injEq, Prod.mk.injEq] at h
      obtain ⟨rfl, rfl⟩ := h
      exact ⟨a0, fun _ _ => rfl, h0, fun he => by simp [eval] at he⟩
  | .var _ _, _, _, _, _, _, h, _, _ => by simp [cnfRec] at h
  | .not _, _, _, _, _, _, h, _, _ => by simp [cnfRec] at h
theorem cnfAnd_complete_aux : ∀ (fs : List F) (t : Tbl) (cs : List (List Int)) (t' : Tbl), TblInv t →
    userOnlyAll fs = true → cnfAnd fs t = some (cs, t') → ∀ a0, Ext m a0 t →
    ∃ a, Agree t.length a a0 ∧ Ext m a t' ∧ (evalAll m fs = true → cnfTrue a cs = true)
  | [], t, cs, t', _, _, h, a0, h0 => by
      simp only [cnfAnd, Option.some.injEq, Prod.mk.injEq] at h
      obtain ⟨rfl, rfl⟩ := h
      exact ⟨a0, fun _ _ => rfl, h0, fun _ => by simp [cnfTrue]⟩
  | f :: fs, t, cs, t', hi, hu, h, a0, h0 => by
      simp only [userOnlyAll, Bool.and_eq_true] at hu
      simp only [cnfAnd] at h
      cases h1 : cnfRec f t with
      | none => simp [h1] at h
      | some r1 =>
        obtain ⟨c1, t1⟩ := r1
        simp only [h1] at h
        cases h2 : cnfAnd fs t1 with
        | none => simp [h2] at h
        | some r2 =>
          obtain ⟨c2, t2⟩ := r2
          simp only [h2, Option.some.injEq, Prod.mk.injEq] at h
          obtain ⟨rfl, rfl⟩ := h
          obtain ⟨hp1, hi1, hl1⟩ := cnfRec_inv f t c1 t1 hi hu.1 h1
          obtain ⟨a1, hag1, hext1, hc1⟩ := cnfRec_complete_aux f t c1 t1 hi hu.1 h1 a0 h0
          obtain ⟨a2, hag2, hext2, hc2⟩ := cnfAnd_complete_aux fs t1 c2 t2 hi1 hu.2 h2 a1 hext1
          refine ⟨a2, hag2.trans hag1 hp1.length_le, hext2, ?_⟩
          intro he
          simp only [evalAll, Bool.and_eq_true] at he
          rw [cnfTrue_append, cnfTrue_congr hag2 c1 hl1, hc1 he.1, hc2 he.2]
          rfl
theorem cnfOr_complete_aux : ∀ (fs : List F) (t : Tbl) (res : List (List Int)) (lits : List Int) (t' : Tbl),
    TblInv t → userOnlyAll fs = true → cnfOr fs t = some (res, lits, t') → ∀ a0, Ext m a0 t →
    ∃ a, Agree t.length a a0 ∧ Ext m a t' ∧ cnfTrue a res = true ∧ clauseTrue a lits = evalAny m fs
  | [], t, res, lits, t', _, _, h, a0, h0 => by
      simp only [cnfOr, Option.some.injEq, Prod.mk.injEq] at h
      obtain ⟨rfl, rfl, rfl⟩ := h
      exact ⟨a0, fun _ _ => rfl, h0, by simp [cnfTrue], by simp [clauseTrue, evalAny]⟩
  | f :: fs, t, res, lits, t', hi, hu, h, a0, h0 => by
      simp only [userOnlyAll, Bool.and_eq_true] at hu
      simp only [cnfOr] at h
      cases h1 : cnfOrChild f t with
      | none => simp [h1] at h
      | some r1 =>
        obtain ⟨c1, l, t1⟩ := r1
        simp only [h1] at h
        cases h2 : cnfOr fs t1 with
        | none => simp [h2] at h
        | some r2 =>
          obtain ⟨c2, ls, t2⟩ := r2
          simp only [h2, Option.some.injEq, Prod.mk.injEq] at h
          obtain ⟨rfl, rfl, rfl⟩ := h
          obtain ⟨hp1, hi1, hl1, hb1⟩ := cnfOrChild_inv f t c1 l t1 hi hu.1 h1
          obtain ⟨a1, hag1, hext1, hc1, hlit1⟩ := cnfOrChild_complete_aux f t c1 l t1 hi hu.1 h1 a0 h0
          obtain ⟨a2, hag2, hext2, hc2, hlits2⟩ := cnfOr_complete_aux fs t1 c2 ls t2 hi1 hu.2 h2 a1 hext1
          refine ⟨a2, hag2.trans hag1 hp1.length_le, hext2, ?_, ?_⟩
          · rw [cnfTrue_append, cnfTrue_congr hag2 c1 hl1, hc1, hc2]; rfl
          · have : clauseTrue a2 (l :: ls) = (litTrue a2 l || clauseTrue a2 ls) := by simp [clauseTrue]
            rw [this, litTrue_congr hag2 l hb1.2, hlit1, hlits2]
            simp [evalAny]
theorem cnfOrChild_complete_aux : ∀ (f : F) (t : Tbl) (c : List (List Int)) (l : Int) (t' : Tbl), TblInv t →
    userOnly f = true → cnfOrChild f t = some (c, l, t') → ∀ a0, Ext m a0 t →
    ∃ a, Agree t.length a a0 ∧ Ext m a t' ∧ cnfTrue a c = true ∧ litTrue a l = eval m f
  | .lit n d s, t, c, l, t', hi, hu, h, a0, h0 => by
      simp only [userOnly, Bool.not_eq_true'] at hu
      obtain ⟨a, hag, hext, hlit⟩ := litValue_complete m t (n, d) s hi hu a0 h0
      simp only [cnfOrChild, Option.some.injEq, Prod.mk.injEq] at h
      obtain ⟨rfl, rfl, rfl⟩ := h
      exact ⟨a, hag, hext, by simp [cnfTrue], by simp [hlit, eval]⟩
  | .and gs, t, c, l, t', hi, hu, h, a0, h0 => by
      simp only [userOnly] at hu
      obtain ⟨hd1, hd2, hdi⟩ := dummy_spec t hi
      simp only [cnfOrChild] at h
      cases h1 : cnfAnd gs (dummy t).2 with
      | none => simp [h1] at h
      | some r =>
        obtain ⟨c1, t2⟩ := r
        simp only [h1, Option.some.injEq, Prod.mk.injEq] at h
        obtain ⟨rfl, rfl, rfl⟩ := h
        have hpos : 1 ≤ (dummy t).1 := by rw [hd1]; omega
        have hlen1 : (dummy t).2.length = t.length + 1 := by rw [hd2]; simp
        -- the dummy takes the truth value of its conjunction
        have h0' : Ext m (fun x => if x = t.length + 1 then evalAll m gs else a0 x) (dummy t).2 := by
          rw [hd2]
          intro k' v' hm' hk'
          simp only [List.mem_append, List.mem_singleton, Prod.mk.injEq] at hm'
          rcases hm' with hm' | ⟨rfl, rfl⟩
          · have := (hi.bound hm').2
            have hne : v' ≠ t.length + 1 := by omega
            simp only [hne, if_false]
            exact h0 k' v' hm' hk'
          · simp at hk'
        obtain ⟨a, hag, hext, hc⟩ := cnfAnd_complete_aux gs _ c1 t2 hdi hu h1 _ h0'
        have had : a (dummy t).1 = evalAll m gs := by
          rw [hag (dummy t).1 (by rw [hd1, hlen1]; omega), hd1]; simp
        refine ⟨a, ?_, hext, ?_, ?_⟩
        · intro x hx
          rw [hag x (by rw [hlen1]; omega)]
          have : x ≠ t.length + 1 := by omega
          simp [this]
        · rw [cnfTrue_guard a _ hpos, had]
          cases he : evalAll m gs
          · rfl
          · simp [hc he]
        · have := litTrue_lit a (dummy t).1 hpos false
          simp only [Bool.false_eq_true, if_false] at this
          rw [this, had]; simp [eval]
  | .or _, _, _, _, _, _, _, h, _, _ => by simp [cnfOrChild] at h
  | .var _ _, _, _, _, _, _, _, h, _, _ => by simp [cnfOrChild] at h
  | .not _, _, _, _, _, _, _, h, _, _ => by simp [cnfOrChild] at h
  | .tt, _, _, _, _, _, _, h, _, _ => by simp [cnfOrChild] at h
  | .ff, _, _, _, _, _, _, h, _, _ => by simp [cnfOrChild] at h
end
end complete

/-! ## `userOnly` is kept by `nnf` and holds of every formula built from a spec formula -/

theorem userOnlyAll_append (xs ys : List F) : userOnlyAll (xs ++ ys) = (userOnlyAll xs && userOnlyAll ys) := by
  induction xs with
  | nil => simp [userOnlyAll]
  | cons x xs ih => simp [userOnlyAll, ih, Bool.and_assoc]

theorem andFold_user : ∀ (xs acc : List F), userOnlyAll xs = true → userOnlyAll acc = true →
    userOnly (andFold xs acc) = true := by
  intro xs
  induction xs with
  | nil =>
    intro acc _ h
    match acc with
    | [] => simp [andFold, userOnly]
    | [x] => simpa [andFold, userOnlyAll] using h
    | x :: y :: r => rw [andFold_nil_two]; simpa [userOnly] using h
  | cons x xs ih =>
    intro acc hx hacc
    simp only [userOnlyAll, Bool.and_eq_true] at hx
    cases x with
    | and gs => simp only [andFold]; apply ih _ hx.2; simp [userOnlyAll_append, hacc]; simpa [userOnly] using hx.1
    | tt => simp only [andFold]; exact ih _ hx.2 hacc
    | ff => simp [andFold, userOnly]
    | var n d => simp only [andFold]; apply ih _ hx.2; simp [userOnlyAll_append, hacc, userOnlyAll, hx.1]
    | lit n d s => simp only [andFold]; apply ih _ hx.2; simp [userOnlyAll_append, hacc, userOnlyAll, hx.1]
    | not f => simp only [andFold]; apply ih _ hx.2; simp [userOnlyAll_append, hacc, userOnlyAll, hx.1]
    | or gs => simp only [andFold]; apply ih _ hx.2; simp [userOnlyAll_append, hacc, userOnlyAll, hx.1]

theorem orFold_user : ∀ (xs acc : List F), userOnlyAll xs = true → userOnlyAll acc = true →
    userOnly (orFold xs acc) = true := by
  intro xs
  induction xs with
  | nil =>
    intro acc _ h
    match acc with
    | [] => simp [orFold, userOnly]
    | [x] => simpa [orFold, userOnlyAll] using h
    | x :: y :: r => rw [orFold_nil_two]; simpa [userOnly] using h
  | cons x xs ih =>
    intro acc hx hacc
    simp only [userOnlyAll, Bool.and_eq_true] at hx
    cases x with
    | or gs => simp only [orFold]; apply ih _ hx.2; simp [userOnlyAll_append, hacc]; simpa [userOnly] using hx.1
    | ff => simp only [orFold]; exact ih _ hx.2 hacc
    | tt => simp [orFold, userOnly]
    | var n d => simp only [orFold]; apply ih _ hx.2; simp [userOnlyAll_append, hacc, userOnlyAll, hx.1]
    | lit n d s => simp only [orFold]; apply ih _ hx.2; simp [userOnlyAll_append, hacc, userOnlyAll, hx.1]
    | not f => simp only [orFold]; apply ih _ hx.2; simp [userOnlyAll_append, hacc, userOnlyAll, hx.1]
    | and gs => simp only [orFold]; apply ih _ hx.2; simp [userOnlyAll_append, hacc, userOnlyAll, hx.1]

mutual
theorem nnfP_user : ∀ (b : Bool) (f : F), userOnly f = true → userOnly (nnfP b f) = true
  | false, .var n d, h => by simpa [nnfP, userOnly] using h
  | true, .var n d, h => by simpa [nnfP, userOnly] using h
  | b, .lit n d neg, h => by simpa [nnfP, userOnly] using h
  | false, .not f, h => by simpa [nnfP] using nnfP_user true f (by simpa [userOnly] using h)
  | true, .not f, h => by simpa [nnfP] using nnfP_user false f (by simpa [userOnly] using h)
  | false, .and fs, h => by
      simp only [nnfP]; exact andFold_user _ _ (nnfPs_user false fs (by simpa [userOnly] using h)) rfl
  | true, .and fs, h => by
      simp only [nnfP]; exact orFold_user _ _ (nnfPs_user true fs (by simpa [userOnly] using h)) rfl
  | false, .or fs, h => by
      simp only [nnfP]; exact orFold_user _ _ (nnfPs_user false fs (by simpa [userOnly] using h)) rfl
  | true, .or fs, h => by
      simp only [nnfP]; exact andFold_user _ _ (nnfPs_user true fs (by simpa [userOnly] using h)) rfl
  | false, .tt, _ => by simp [nnfP, userOnly]
  | true, .tt, _ => by simp [nnfP, userOnly]
  | false, .ff, _ => by simp [nnfP, userOnly]
  | true, .ff, _ => by simp [nnfP, userOnly]
theorem nnfPs_user : ∀ (b : Bool) (fs : List F), userOnlyAll fs = true → userOnlyAll (nnfPs b fs) = true
  | _, [], _ => by simp [nnfPs, userOnlyAll]
  | b, f :: fs, h => by
      simp only [userOnlyAll, Bool.and_eq_true] at h
      simp [nnfPs, userOnlyAll, nnfP_user b f h.1, nnfPs_user b fs h.2]
end

theorem nnf_user (f : F) (h : userOnly f = true) : userOnly (nnf f) = true := nnfP_user false f h

theorem userOnlyAll_mapNot (v : F) (hv : userOnly v = true) : ∀ vs : List F, userOnlyAll vs = true →
    userOnlyAll (vs.map (fun w => F.or [.not v, .not w])) = true
  | [], _ => by simp [userOnlyAll]
  | w :: vs, h => by
      simp only [userOnlyAll, Bool.and_eq_true] at h
      simp [userOnlyAll, userOnly, hv, h.1, userOnlyAll_mapNot v hv vs h.2]

theorem pairsNot_user : ∀ vs : List F, userOnlyAll vs = true → userOnlyAll (pairsNot vs) = true
  | [], _ => by simp [pairsNot, userOnlyAll]
  | v :: vs, h => by
      simp only [userOnlyAll, Bool.and_eq_true] at h
      simp [pairsNot, userOnlyAll_append, userOnlyAll_mapNot v h.1 vs h.2, pairsNot_user vs h.2]

theorem uniqueSmall_user (ns : List Nat) : userOnly (uniqueSmall ns) = true := by
  have h : userOnlyAll (ns.map pbVar) = true := by
    induction ns with
    | nil => simp [userOnlyAll]
    | cons n ns ih => simp [userOnlyAll, pbVar, userOnly, ih]
  simp [uniqueSmall, uniqueSmallV, userOnly, userOnlyAll, h, pairsNot_user _ h]

mutual
theorem ofSF_user : ∀ g : SF, userOnly (ofSF g) = true
  | .var n => by simp [ofSF, pbVar, userOnly]
  | .tt => by simp [ofSF, userOnly]
  | .ff => by simp [ofSF, userOnly]
  | .not f => by simp [ofSF, userOnly, ofSF_user f]
  | .and fs => by simp [ofSF, userOnly, ofSFs_user fs]
  | .or fs => by simp [ofSF, userOnly, ofSFs_user fs]
  | .imp a b => by simp [ofSF, implies, userOnly, userOnlyAll, ofSF_user a, ofSF_user b]
  | .iff a b => by simp [ofSF, eq, userOnly, userOnlyAll, ofSF_user a, ofSF_user b]
  | .xor a b => by simp [ofSF, xor, userOnly, userOnlyAll, ofSF_user a, ofSF_user b]
  | .unique ns => by simp [ofSF, uniqueSmall_user]
theorem ofSFs_user : ∀ fs : List SF, userOnlyAll (ofSFs fs) = true
  | [] => by simp [ofSFs, userOnlyAll]
  | f :: fs => by simp [ofSFs, userOnlyAll, ofSF_user f, ofSFs_user fs]
end

/-! ## Main statements (C12) -/

/-- **`cnfRec_complete`** (any starting table satisfying the invariant): every model `m` of `g`
    extends — on the variables created by this run, dummies included — to a model of the
    clauses; the dummy of a conjunction takes the truth value of that conjunction. -/
theorem cnfRec_complete (m : Key → Bool) (g : F) (t : Tbl) (cs : List (List Int)) (t' : Tbl)
    (hi : TblInv t) (hu : userOnly g = true) (h : cnfRec g t = some (cs, t'))
    (a0 : Asg) (h0 : Ext m a0 t) (hg : eval m g = true) :
    ∃ a, Agree t.length a a0 ∧ Ext m a t' ∧ cnfTrue a cs = true := by
  obtain ⟨a, h1, h2, h3⟩ := cnfRec_complete_aux m g t cs t' hi hu h a0 h0
  exact ⟨a, h1, h2, h3 hg⟩

/-- **C12, soundness of the export.** A model of the clauses of `asCnf f`, read back through the
    table on the problem variables, is a model of `f`. -/
theorem asCnf_sound (f : F) (hu : userOnly f = true) (cs : List (List Int)) (T : Tbl)
    (h : asCnf f = some (cs, T)) (a : Asg) (hc : cnfTrue a cs = true)
    (m : Key → Bool) (hm : ∀ (k : Key) (v : Nat), (k, v) ∈ T → k.2 = false → m k = a v) :
    eval m f = true := by
  rw [← nnf_eval]
  exact cnfRec_sound a m T hm (nnf f) [] cs T TblInv.nil (nnf_user f hu) h (List.prefix_refl _) hc

/-- **C12, completeness of the export.** Every model of `f` extends to a model of the clauses. -/
theorem asCnf_complete (f : F) (hu : userOnly f = true) (cs : List (List Int)) (T : Tbl)
    (h : asCnf f = some (cs, T)) (m : Key → Bool) (hf : eval m f = true) :
    ∃ a : Asg, cnfTrue a cs = true ∧ ∀ (k : Key) (v : Nat), (k, v) ∈ T → k.2 = false → a v = m k := by
  rw [← nnf_eval] at hf
  obtain ⟨a, _, h2, h3⟩ := cnfRec_complete m (nnf f) [] cs T TblInv.nil (nnf_user f hu) h (fun _ => false)
    (by intro k v hkv; simp at hkv) hf
  exact ⟨a, h3, h2⟩

/-- **`table_injective`.** In the table of `asCnf f`: the `i`-th entry has index `i+1` (so the
    indices are exactly `1..len`), a key has one index and an index has one key. -/
theorem table_injective (f : F) (hu : userOnly f = true) (cs : List (List Int)) (T : Tbl)
    (h : asCnf f = some (cs, T)) :
    (∀ (i : Nat) (k : Key) (v : Nat), T[i]? = some (k, v) → v = i + 1) ∧
    (∀ v : Nat, (1 ≤ v ∧ v ≤ T.length) ↔ ∃ k, (k, v) ∈ T) ∧
    (∀ (k : Key) (v v' : Nat), (k, v) ∈ T → (k, v') ∈ T → v = v') ∧
    (∀ (k k' : Key) (v : Nat), (k, v) ∈ T → (k', v) ∈ T → k = k') := by
  obtain ⟨_, hinv, _⟩ := cnfRec_inv (nnf f) [] cs T TblInv.nil (nnf_user f hu) h
  refine ⟨hinv.idx, ?_, ?_, ?_⟩
  · intro v
    constructor
    · intro hv
      have hlt : v - 1 < T.length := by omega
      refine ⟨(T[v - 1]).1, ?_⟩
      have hget : T[v - 1]? = some ((T[v - 1]).1, (T[v - 1]).2) := by
        simp [List.getElem?_eq_getElem hlt]
      have := hinv.idx _ _ _ hget
      have hv' : (T[v - 1]).2 = v := by omega
      have hmem : ((T[v - 1]).1, (T[v - 1]).2) ∈ T := List.getElem_mem hlt
      rw [hv'] at hmem
      exact hmem
    · rintro ⟨k, hk⟩
      exact hinv.bound hk
  · intro k v v' h1 h2
    have e1 := hinv.look k v h1
    have e2 := hinv.look k v' h2
    rw [e1] at e2
    exact Option.some.inj e2
  · intro k k' v h1 h2
    obtain ⟨i, hi, hgi⟩ := List.getElem_of_mem h1
    obtain ⟨j, hj, hgj⟩ := List.getElem_of_mem h2
    have e1 := hinv.idx i k v (by simp [List.getElem?_eq_getElem hi, hgi])
    have e2 := hinv.idx j k' v (by simp [List.getElem?_eq_getElem hj, hgj])
    have : i = j := by omega
    subst this
    rw [hgi] at hgj
    exact (Prod.mk.inj hgj).1

theorem mem_insertByName (x p : Nat × Nat) : ∀ l : List (Nat × Nat), p ∈ insertByName x l ↔ p = x ∨ p ∈ l
  | [] => by simp [insertByName]
  | y :: ys => by
      simp only [insertByName]
      split
      · simp
      · simp only [List.mem_cons, mem_insertByName x p ys]
        constructor
        · rintro (h | h | h) <;> simp [h]
        · rintro (h | h | h) <;> simp [h]

theorem mem_sortByName (p : Nat × Nat) : ∀ l : List (Nat × Nat), p ∈ sortByName l ↔ p ∈ l
  | [] => by simp [sortByName]
  | x :: xs => by simp [sortByName, mem_insertByName, mem_sortByName p xs]

theorem length_insertByName (x : Nat × Nat) : ∀ l : List (Nat × Nat), (insertByName x l).length = l.length + 1
  | [] => by simp [insertByName]
  | y :: ys => by
      simp only [insertByName]
      split
      · simp
      · simp [length_insertByName x ys]

theorem length_sortByName : ∀ l : List (Nat × Nat), (sortByName l).length = l.length
  | [] => by simp [sortByName]
  | x :: xs => by simp [sortByName, length_insertByName, length_sortByName xs]

/-- the `c name=idx` comment lines list exactly the non-dummy entries of the table -/
theorem pbVars_mem (T : Tbl) (n v : Nat) : (n, v) ∈ pbVars T ↔ ((n, false), v) ∈ T := by
  simp only [pbVars, mem_sortByName, List.mem_map, List.mem_filter, Bool.not_eq_true']
  constructor
  · rintro ⟨⟨⟨n', d⟩, v'⟩, ⟨hm, hd⟩, he⟩
    simp only [Prod.mk.injEq] at he hd
    obtain ⟨rfl, rfl⟩ := he
    subst hd
    exact hm
  · intro h
    exact ⟨((n, false), v), ⟨h, rfl⟩, rfl⟩

/-- **`header_counts`.** The text of `Dimacs` is the header `p cnf <len(vars.all)> <len(clauses)>`,
    one comment per problem variable, one line per clause; the announced variable count bounds
    every literal (all literals are non-zero and within `1..nbVars`) and the announced clause
    count is the number of clause lines. -/
theorem header_counts (f : F) (hu : userOnly f = true) (cs : List (List Int)) (T : Tbl)
    (h : asCnf f = some (cs, T)) :
    dimacs f = some ("p cnf " ++ toString T.length ++ " " ++ toString cs.length ++ "\n"
        ++ String.join ((pbVars T).map (fun p => "c " ++ nameOf p.1 ++ "=" ++ toString p.2 ++ "\n"))
        ++ String.join (cs.map clauseLine)) ∧
    (cs.map clauseLine).length = cs.length ∧
    LitsOk T.length cs ∧
    (pbVars T).length = (T.filter (fun e => !e.1.2)).length := by
  obtain ⟨_, _, hl⟩ := cnfRec_inv (nnf f) [] cs T TblInv.nil (nnf_user f hu) h
  refine ⟨by simp [dimacs, h, dimacsOf], by simp, hl, ?_⟩
  simp [pbVars, length_sortByName]

/-- **C12 for spec formulas.** For every spec formula `g` (on `supported g` the Go value is
    `ofSF g`): the export exists, and an assignment `m` of the names satisfies `g` iff some model
    of the clauses gives every exported name `n ↦ v` the value `a v = m n`. Names that do not
    occur in the table are unconstrained. -/
theorem export_models (g : SF) :
    ∃ cs T, asCnf (ofSF g) = some (cs, T) ∧
      ∀ m : Nat → Bool, SF.eval m g = true ↔
        ∃ a : Asg, cnfTrue a cs = true ∧ ∀ (n v : Nat), ((n, false), v) ∈ T → a v = m n := by
  obtain ⟨_, ⟨cs, T⟩, h⟩ := nnf_grammar (ofSF g)
  refine ⟨cs, T, h, ?_⟩
  intro m
  constructor
  · intro hg
    rw [← ofSF_eval] at hg
    obtain ⟨a, hc, hext⟩ := asCnf_complete (ofSF g) (ofSF_user g) cs T h (lift m) hg
    exact ⟨a, hc, fun n v hm => by simpa [lift] using hext (n, false) v hm rfl⟩
  · rintro ⟨a, hc, hext⟩
    rw [← ofSF_eval]
    apply asCnf_sound (ofSF g) (ofSF_user g) cs T h a hc (lift m)
    intro k v hk hd
    obtain ⟨n, d⟩ := k
    simp only at hd
    subst hd
    simp [lift, hext n v hk]

/-! ## Back to C11: what `Solve` returns -/

/-- `cnf.solve()` reads the solver model back through the table: `vars[v.name] = m[idx-1]`
    (names that are not in the table are absent from the Go map; here they read `false`) -/
def readBack (T : Tbl) (a : Asg) : Key → Bool := fun k =>
  match T.lookup k with
  | some v => a v
  | none => false

/-- **C11, solver side.** If the SAT solver is right on the clauses of `asCnf f` — it returns a
    model `a` of `cs`, or reports UNSAT only when there is none — then `Solve(f)` returns a model
    of `f` (read back through the table), and returns `nil` only when `f` has no model. -/
theorem solve_agrees (f : F) (hu : userOnly f = true) (cs : List (List Int)) (T : Tbl)
    (h : asCnf f = some (cs, T)) :
    (∀ a : Asg, cnfTrue a cs = true → eval (readBack T a) f = true) ∧
    ((∃ m, eval m f = true) ↔ CnfSat cs) := by
  obtain ⟨_, hinv, _⟩ := cnfRec_inv (nnf f) [] cs T TblInv.nil (nnf_user f hu) h
  have hs : ∀ a : Asg, cnfTrue a cs = true → eval (readBack T a) f = true := by
    intro a hc
    apply asCnf_sound f hu cs T h a hc
    intro k v hk _
    simp [readBack, hinv.look k v hk]
  refine ⟨hs, ?_, ?_⟩
  · rintro ⟨m, hm⟩
    obtain ⟨a, hc, _⟩ := asCnf_complete f hu cs T h m hm
    exact ⟨a, hc⟩
  · rintro ⟨a, hc⟩
    exact ⟨_, hs a hc⟩

/-! ## Concrete instances -/

/-- `Eq(a, And(b, Not(c)))`: one dummy (index 2) for the conjunction inside the first `or` -/
example : asCnf (ofSF (.iff (.var 0) (.and [.var 1, .not (.var 2)]))) =
    some ([[3, -2], [-4, -2], [-1, 2], [1, -3, 4]],
      [((0, false), 1), ((2, true), 2), ((1, false), 3), ((2, false), 4)]) := by decide

example : userOnly (ofSF (.iff (.var 0) (.and [.var 1, .not (.var 2)]))) = true := ofSF_user _

example : dimacs (ofSF (.iff (.var 0) (.and [.var 1, .not (.var 2)]))) =
    some "p cnf 4 4\nc a=1\nc b=3\nc c=4\n3 -2 0\n-4 -2 0\n-1 2 0\n1 -3 4 0\n" := by decide

/-- constants: `and{}` is true (no clause), `or{}` is false (the empty clause) -/
example : asCnf (.and []) = some ([], []) := by decide
example : asCnf (.or []) = some ([[]], []) := by decide

/-- Why `userOnly` is a hypothesis of the C12 theorems: in the *model* a formula variable carrying
    the dummy flag and the number of a dummy created by `dummy()` are the same key — here the
    formula's `(2, true)` is identified with the dummy of its own conjunction (clause `[2, -2]`).
    In Go the created dummies are named `dummy-<n>` and the only formula-level dummies
    (`uniqueRec`) are named `line-…` / `col-…`, and `variable` is unexported: no such clash. -/
example : cnfRec (.or [.lit 0 false false, .and [.lit 2 true false, .lit 1 false false]]) [] =
    some ([[2, -2], [3, -2], [1, 2]], [((0, false), 1), ((2, true), 2), ((1, false), 3)]) := by decide

end GS.Bf
