import GS.Props.C11_Bf
import GS.Spec.Basic
import GS.Check.FormulaBrute
/-!
# C12 (export side): the clauses produced by `cnfRec` / `asCnf` / `Dimacs` have exactly the
formula's models on the problem variables.
-/
namespace GS.Bf
open GS

/-! The theorems about `cnfRec` are stated for a class `p` of variables (`allK p f`: every
variable of `f` satisfies `p`) contained in the formula-level variables `isFK` — problem
variables and `line-…` / `col-…` dummies of `uniqueRec`, as opposed to the `dummy-<n>` created by
`cnfRec` itself. `p = fun k => !k.2` (problem variables only) gives the statements for formulas
built without `uniqueRec`; `p = isFK` is what `asCnf` needs, since `f.nnf()` mentions
`line-…` / `col-…` dummies for the groups of more than 4 names in positive position. -/

/-! ## The table invariant -/

/-- invariant of `vars.all` along `cnfRec`, started from the empty map:
    the `i`-th inserted variable has index `i+1`; a dummy entry with an even number is one created
    by `dummy()` (named after its index); `lookup` finds every entry (keys are pairwise distinct). -/
structure TblInv (t : Tbl) : Prop where
  idx : ∀ (i : Nat) (k : Key) (v : Nat), t[i]? = some (k, v) → v = i + 1
  dum : ∀ (k : Key) (v : Nat), (k, v) ∈ t → k.2 = true → k.1 % 2 = 0 → k.1 = 2 * v
  look : ∀ (k : Key) (v : Nat), (k, v) ∈ t → t.lookup k = some v

theorem TblInv.nil : TblInv [] := ⟨by simp, by simp, by simp⟩

theorem TblInv.bound {t : Tbl} (hi : TblInv t) {k : Key} {v : Nat} (h : (k, v) ∈ t) :
    1 ≤ v ∧ v ≤ t.length := by
  obtain ⟨i, hlt, hget⟩ := List.getElem_of_mem h
  have := hi.idx i k v (by simp [List.getElem?_eq_getElem hlt, hget])
  omega

theorem TblInv.snoc {t : Tbl} (hi : TblInv t) (k : Key) (hnone : t.lookup k = none)
    (hd : k.2 = true → k.1 % 2 = 0 → k.1 = 2 * (t.length + 1)) : TblInv (t ++ [(k, t.length + 1)]) := by
  constructor
  · intro i k' v h
    rw [List.getElem?_append] at h
    split at h
    · exact hi.idx i k' v h
    · rename_i hge
      have : i - t.length = 0 ∨ 0 < i - t.length := by omega
      rcases this with h0 | h0
      · rw [h0] at h; simp at h; omega
      · rw [List.getElem?_eq_none (by simp; omega)] at h; simp at h
  · intro k' v h hk he
    simp only [List.mem_append, List.mem_singleton, Prod.mk.injEq] at h
    rcases h with h | ⟨rfl, rfl⟩
    · exact hi.dum k' v h hk he
    · exact hd hk he
  · intro k' v h
    simp only [List.mem_append, List.mem_singleton, Prod.mk.injEq] at h
    rw [List.lookup_append]
    rcases h with h | ⟨rfl, rfl⟩
    · simp [hi.look k' v h]
    · simp [hnone]

/-- `vars.litValue` -/
theorem litValue_spec (t : Tbl) (k : Key) (s : Bool) (hi : TblInv t) (hk : isFK k = true) :
    ∃ v : Nat, (litValue t k s).1 = (if s then -(v : Int) else (v : Int)) ∧
      (k, v) ∈ (litValue t k s).2 ∧ t <+: (litValue t k s).2 ∧ TblInv (litValue t k s).2 ∧
      ((litValue t k s).2 = t ∨ ((litValue t k s).2 = t ++ [(k, t.length + 1)] ∧ v = t.length + 1)) := by
  unfold litValue
  cases hl : t.lookup k with
  | some v =>
    refine ⟨v, rfl, ?_, List.prefix_refl _, hi, Or.inl rfl⟩
    obtain ⟨l1, l2, rfl, _⟩ := List.lookup_eq_some_iff.1 hl
    simp
  | none =>
    refine ⟨t.length + 1, rfl, by simp, List.prefix_append _ _, ?_, Or.inr ⟨rfl, rfl⟩⟩
    exact hi.snoc k hl (by
      intro h1 h2
      simp only [isFK, h1, Bool.not_true, Bool.false_or, beq_iff_eq] at hk
      omega)

/-- `vars.dummy` -/
theorem dummy_spec (t : Tbl) (hi : TblInv t) :
    (dummy t).1 = t.length + 1 ∧ (dummy t).2 = t ++ [((2 * (t.length + 1), true), t.length + 1)] ∧
      TblInv (dummy t).2 := by
  refine ⟨rfl, rfl, ?_⟩
  apply hi.snoc (2 * (t.length + 1), true)
  · rw [List.lookup_eq_none_iff]
    intro q hq
    have hb := hi.bound (k := q.1) (v := q.2) hq
    simp only [bne_iff_ne, ne_eq]
    intro heq
    have h1 : q.1.2 = true := by rw [← heq]
    have h2 : q.1.1 = 2 * (t.length + 1) := by rw [← heq]
    have := hi.dum q.1 q.2 hq h1 (by omega)
    omega
  · intro _ _; rfl

/-! ## Structure of a `cnfRec` run: the table only grows, the invariant is kept, literals are in range -/

/-- literals are non-zero and within `1..n` -/
def LitsOk (n : Nat) (cs : List (List Int)) : Prop := ∀ c ∈ cs, ∀ l ∈ c, 1 ≤ l.natAbs ∧ l.natAbs ≤ n

theorem LitsOk.mono {n n' : Nat} {cs} (h : LitsOk n cs) (hn : n ≤ n') : LitsOk n' cs :=
  fun c hc l hl => ⟨(h c hc l hl).1, Nat.le_trans (h c hc l hl).2 hn⟩

theorem LitsOk.append {n : Nat} {xs ys} (hx : LitsOk n xs) (hy : LitsOk n ys) : LitsOk n (xs ++ ys) := by
  intro c hc
  rcases List.mem_append.1 hc with h | h
  · exact hx c h
  · exact hy c h

theorem lit_natAbs (v : Nat) (s : Bool) : (if s then -(v : Int) else (v : Int)).natAbs = v := by
  cases s <;> simp

section inv
set_option linter.unusedSectionVars false
variable (p : Key → Bool) (hpk : ∀ k, p k = true → isFK k = true)
include hpk

mutual
theorem cnfRec_inv : ∀ (f : F) (t : Tbl) (cs : List (List Int)) (t' : Tbl), TblInv t → allK p f = true →
    cnfRec f t = some (cs, t') → t <+: t' ∧ TblInv t' ∧ LitsOk t'.length cs
  | .lit n d s, t, cs, t', hi, hu, h => by
      simp only [allK] at hu
      obtain ⟨v, hl, hmem, hpre, hinv, _⟩ := litValue_spec t (n, d) s hi (hpk _ hu)
      simp only [cnfRec, Option.some.injEq, Prod.mk.injEq] at h
      obtain ⟨rfl, rfl⟩ := h
      refine ⟨hpre, hinv, ?_⟩
      intro c hc l hl'
      simp only [List.mem_singleton] at hc
      subst hc
      simp only [List.mem_singleton] at hl'
      subst hl'
      rw [hl, lit_natAbs]
      exact hinv.bound hmem
  | .and fs, t, cs, t', hi, hu, h => by
      simp only [allK] at hu
      simp only [cnfRec] at h
      exact cnfAnd_inv fs t cs t' hi hu h
  | .or fs, t, cs, t', hi, hu, h => by
      simp only [allK] at hu
      simp only [cnfRec] at h
      cases h1 : cnfOr fs t with
      | none => simp [h1] at h
      | some r =>
        obtain ⟨res, lits, t1⟩ := r
        simp only [h1, Option.some.injEq, Prod.mk.injEq] at h
        obtain ⟨rfl, rfl⟩ := h
        obtain ⟨hp, hinv, hres, hlits⟩ := cnfOr_inv fs t res lits t1 hi hu h1
        refine ⟨hp, hinv, hres.append ?_⟩
        intro c hc
        simp only [List.mem_singleton] at hc
        subst hc
        exact hlits
  | .tt, t, cs, t', hi, _, h => by
      simp only [cnfRec, Option.some.injEq, Prod.mk.injEq] at h
      obtain ⟨rfl, rfl⟩ := h
      exact ⟨List.prefix_refl _, hi, by intro c hc; simp at hc⟩
  | .ff, t, cs, t', hi, _, h => by
      simp only [cnfRec, Option.some.injEq, Prod.mk.injEq] at h
      obtain ⟨rfl, rfl⟩ := h
      exact ⟨List.prefix_refl _, hi, by intro c hc l hl; simp at hc; subst hc; simp at hl⟩
  | .var _ _, _, _, _, _, _, h => by simp [cnfRec] at h
  | .not _, _, _, _, _, _, h => by simp [cnfRec] at h
  | .unique _, _, _, _, _, _, h => by simp [cnfRec] at h
theorem cnfAnd_inv : ∀ (fs : List F) (t : Tbl) (cs : List (List Int)) (t' : Tbl), TblInv t →
    allKs p fs = true → cnfAnd fs t = some (cs, t') → t <+: t' ∧ TblInv t' ∧ LitsOk t'.length cs
  | [], t, cs, t', hi, _, h => by
      simp only [cnfAnd, Option.some.injEq, Prod.mk.injEq] at h
      obtain ⟨rfl, rfl⟩ := h
      exact ⟨List.prefix_refl _, hi, by intro c hc; simp at hc⟩
  | f :: fs, t, cs, t', hi, hu, h => by
      simp only [allKs, Bool.and_eq_true] at hu
      simp only [cnfAnd] at h
      cases h1 : cnfRec f t with
      | none => simp [h1] at h
      | some r1 =>
        obtain ⟨c1, t1⟩ := r1
        simp only [h1] at h
        cases h2 : cnfAnd fs t1 with
        | none => simp [h2] at h
        | some r2 =>
          obtain ⟨c2, t2⟩ := r2
          simp only [h2, Option.some.injEq, Prod.mk.injEq] at h
          obtain ⟨rfl, rfl⟩ := h
          obtain ⟨hp1, hi1, hl1⟩ := cnfRec_inv f t c1 t1 hi hu.1 h1
          obtain ⟨hp2, hi2, hl2⟩ := cnfAnd_inv fs t1 c2 t2 hi1 hu.2 h2
          exact ⟨hp1.trans hp2, hi2, (hl1.mono hp2.length_le).append hl2⟩
theorem cnfOr_inv : ∀ (fs : List F) (t : Tbl) (res : List (List Int)) (lits : List Int) (t' : Tbl), TblInv t →
    allKs p fs = true → cnfOr fs t = some (res, lits, t') →
    t <+: t' ∧ TblInv t' ∧ LitsOk t'.length res ∧ (∀ l ∈ lits, 1 ≤ l.natAbs ∧ l.natAbs ≤ t'.length)
  | [], t, res, lits, t', hi, _, h => by
      simp only [cnfOr, Option.some.injEq, Prod.mk.injEq] at h
      obtain ⟨rfl, rfl, rfl⟩ := h
      exact ⟨List.prefix_refl _, hi, by intro c hc; simp at hc, by simp⟩
  | f :: fs, t, res, lits, t', hi, hu, h => by
      simp only [allKs, Bool.and_eq_true] at hu
      simp only [cnfOr] at h
      cases h1 : cnfOrChild f t with
      | none => simp [h1] at h
      | some r1 =>
        obtain ⟨c1, l, t1⟩ := r1
        simp only [h1] at h
        cases h2 : cnfOr fs t1 with
        | none => simp [h2] at h
        | some r2 =>
          obtain ⟨c2, ls, t2⟩ := r2
          simp only [h2, Option.some.injEq, Prod.mk.injEq] at h
          obtain ⟨rfl, rfl, rfl⟩ := h
          obtain ⟨hp1, hi1, hl1, hb1⟩ := cnfOrChild_inv f t c1 l t1 hi hu.1 h1
          obtain ⟨hp2, hi2, hl2, hb2⟩ := cnfOr_inv fs t1 c2 ls t2 hi1 hu.2 h2
          refine ⟨hp1.trans hp2, hi2, (hl1.mono hp2.length_le).append hl2, ?_⟩
          intro x hx
          simp only [List.mem_cons] at hx
          rcases hx with rfl | hx
          · exact ⟨hb1.1, Nat.le_trans hb1.2 hp2.length_le⟩
          · exact hb2 x hx
theorem cnfOrChild_inv : ∀ (f : F) (t : Tbl) (c : List (List Int)) (l : Int) (t' : Tbl), TblInv t →
    allK p f = true → cnfOrChild f t = some (c, l, t') →
    t <+: t' ∧ TblInv t' ∧ LitsOk t'.length c ∧ (1 ≤ l.natAbs ∧ l.natAbs ≤ t'.length)
  | .lit n d s, t, c, l, t', hi, hu, h => by
      simp only [allK] at hu
      obtain ⟨v, hl, hmem, hpre, hinv, _⟩ := litValue_spec t (n, d) s hi (hpk _ hu)
      simp only [cnfOrChild, Option.some.injEq, Prod.mk.injEq] at h
      obtain ⟨rfl, rfl, rfl⟩ := h
      refine ⟨hpre, hinv, by intro c hc; simp at hc, ?_⟩
      rw [hl, lit_natAbs]
      exact hinv.bound hmem
  | .and gs, t, c, l, t', hi, hu, h => by
      simp only [allK] at hu
      obtain ⟨hd1, hd2, hdi⟩ := dummy_spec t hi
      simp only [cnfOrChild] at h
      cases h1 : cnfAnd gs (dummy t).2 with
      | none => simp [h1] at h
      | some r =>
        obtain ⟨c1, t2⟩ := r
        simp only [h1, Option.some.injEq, Prod.mk.injEq] at h
        obtain ⟨rfl, rfl, rfl⟩ := h
        obtain ⟨hp, hi2, hl⟩ := cnfAnd_inv gs _ c1 t2 hdi hu h1
        have hpre : t <+: (dummy t).2 := by rw [hd2]; exact List.prefix_append _ _
        have hlen : t.length + 1 ≤ t2.length := by
          have := hp.length_le
          rw [hd2] at this; simpa using this
        refine ⟨hpre.trans hp, hi2, ?_, ?_⟩
        · intro c hc x hx
          simp only [List.mem_map] at hc
          obtain ⟨c0, hc0, rfl⟩ := hc
          simp only [List.mem_append, List.mem_singleton] at hx
          rcases hx with hx | rfl
          · exact hl c0 hc0 x hx
          · rw [hd1]; simp only [Int.natAbs_neg, Int.natAbs_natCast]; omega
        · rw [hd1]; simp only [Int.natAbs_natCast]; omega
  | .or _, _, _, _, _, _, _, h => by simp [cnfOrChild] at h
  | .var _ _, _, _, _, _, _, _, h => by simp [cnfOrChild] at h
  | .not _, _, _, _, _, _, _, h => by simp [cnfOrChild] at h
  | .tt, _, _, _, _, _, _, h => by simp [cnfOrChild] at h
  | .ff, _, _, _, _, _, _, h => by simp [cnfOrChild] at h
  | .unique _, _, _, _, _, _, _, h => by simp [cnfOrChild] at h
end
end inv

/-! ## `cnfRec_sound` -/

theorem litTrue_lit (a : Asg) (v : Nat) (hv : 1 ≤ v) (s : Bool) :
    litTrue a (if s then -(v : Int) else (v : Int)) = (a v != s) := by
  cases s
  · simp [litTrue]; omega
  · simp [litTrue]

theorem cnfTrue_append (a : Asg) (xs ys : List (List Int)) :
    cnfTrue a (xs ++ ys) = (cnfTrue a xs && cnfTrue a ys) := by
  simp [cnfTrue, List.all_append]

theorem cnfTrue_guard (a : Asg) (d : Nat) (hd : 1 ≤ d) (c : List (List Int)) :
    cnfTrue a (c.map (fun cl => cl ++ [-(d : Int)])) = (!a d || cnfTrue a c) := by
  have hl : litTrue a (-(d : Int)) = !a d := by
    have := litTrue_lit a d hd true
    simpa using this
  induction c with
  | nil => simp [cnfTrue]
  | cons x xs ih =>
    simp only [cnfTrue, List.map_cons, List.all_cons] at ih ⊢
    rw [ih]
    simp only [clauseTrue, List.any_append, List.any_cons, List.any_nil, Bool.or_false, hl]
    cases a d <;> simp

section sound
set_option linter.unusedSectionVars false
variable (p : Key → Bool) (hpk : ∀ k, p k = true → isFK k = true) (a : Asg) (m : Key → Bool) (T : Tbl)
  (hm : ∀ (k : Key) (v : Nat), (k, v) ∈ T → p k = true → m k = a v)
include hpk hm

mutual
theorem cnfRec_sound : ∀ (f : F) (t : Tbl) (cs : List (List Int)) (t' : Tbl), TblInv t → allK p f = true →
    cnfRec f t = some (cs, t') → t' <+: T → cnfTrue a cs = true → eval m f = true
  | .lit n d s, t, cs, t', hi, hu, h, hT, hc => by
      simp only [allK] at hu
      obtain ⟨v, hl, hmem, hpre, hinv, _⟩ := litValue_spec t (n, d) s hi (hpk _ hu)
      simp only [cnfRec, Option.some.injEq, Prod.mk.injEq] at h
      obtain ⟨rfl, rfl⟩ := h
      have hv := hinv.bound hmem
      have hmk := hm (n, d) v (hT.subset hmem) hu
      rw [hl] at hc
      simp only [cnfTrue, clauseTrue, List.all_cons, List.any_cons, List.any_nil, List.all_nil,
        Bool.or_false, Bool.and_true, litTrue_lit a v hv.1 s] at hc
      simp only [eval, hmk, hc]
  | .and fs, t, cs, t', hi, hu, h, hT, hc => by
      simp only [allK] at hu
      simp only [cnfRec] at h
      simpa only [eval] using cnfAnd_sound fs t cs t' hi hu h hT hc
  | .or fs, t, cs, t', hi, hu, h, hT, hc => by
      simp only [allK] at hu
      simp only [cnfRec] at h
      cases h1 : cnfOr fs t with
      | none => simp [h1] at h
      | some r =>
        obtain ⟨res, lits, t1⟩ := r
        simp only [h1, Option.some.injEq, Prod.mk.injEq] at h
        obtain ⟨rfl, rfl⟩ := h
        rw [cnfTrue_append] at hc
        simp only [Bool.and_eq_true] at hc
        have hl : clauseTrue a lits = true := by
          simpa [cnfTrue] using hc.2
        simpa only [eval] using cnfOr_sound fs t res lits t1 hi hu h1 hT hc.1 hl
  | .tt, _, _, _, _, _, _, _, _ => by simp [eval]
  | .ff, t, cs, t', _, _, h, _, hc => by
      simp only [cnfRec, Option.some.injEq, Prod.mk.injEq] at h
      obtain ⟨rfl, rfl⟩ := h
      simp [cnfTrue, clauseTrue] at hc
  | .var _ _, _, _, _, _, _, h, _, _ => by simp [cnfRec] at h
  | .not _, _, _, _, _, _, h, _, _ => by simp [cnfRec] at h
  | .unique _, _, _, _, _, _, h, _, _ => by simp [cnfRec] at h
theorem cnfAnd_sound : ∀ (fs : List F) (t : Tbl) (cs : List (List Int)) (t' : Tbl), TblInv t →
    allKs p fs = true → cnfAnd fs t = some (cs, t') → t' <+: T → cnfTrue a cs = true →
    evalAll m fs = true
  | [], _, _, _, _, _, _, _, _ => by simp [evalAll]
  | f :: fs, t, cs, t', hi, hu, h, hT, hc => by
      simp only [allKs, Bool.and_eq_true] at hu
      simp only [cnfAnd] at h
      cases h1 : cnfRec f t with
      | none => simp [h1] at h
      | some r1 =>
        obtain ⟨c1, t1⟩ := r1
        simp only [h1] at h
        cases h2 : cnfAnd fs t1 with
        | none => simp [h2] at h
        | some r2 =>
          obtain ⟨c2, t2⟩ := r2
          simp only [h2, Option.some.injEq, Prod.mk.injEq] at h
          obtain ⟨rfl, rfl⟩ := h
          obtain ⟨hp1, hi1, _⟩ := cnfRec_inv p hpk f t c1 t1 hi hu.1 h1
          obtain ⟨hp2, _, _⟩ := cnfAnd_inv p hpk fs t1 c2 t2 hi1 hu.2 h2
          rw [cnfTrue_append] at hc
          simp only [Bool.and_eq_true] at hc
          have e1 := cnfRec_sound f t c1 t1 hi hu.1 h1 (hp2.trans hT) hc.1
          have e2 := cnfAnd_sound fs t1 c2 t2 hi1 hu.2 h2 hT hc.2
          simp [evalAll, e1, e2]
theorem cnfOr_sound : ∀ (fs : List F) (t : Tbl) (res : List (List Int)) (lits : List Int) (t' : Tbl), TblInv t →
    allKs p fs = true → cnfOr fs t = some (res, lits, t') → t' <+: T → cnfTrue a res = true →
    clauseTrue a lits = true → evalAny m fs = true
  | [], t, res, lits, t', _, _, h, _, _, hl => by
      simp only [cnfOr, Option.some.injEq, Prod.mk.injEq] at h
      obtain ⟨rfl, rfl, rfl⟩ := h
      simp [clauseTrue] at hl
  | f :: fs, t, res, lits, t', hi, hu, h, hT, hc, hl => by
      simp only [allKs, Bool.and_eq_true] at hu
      simp only [cnfOr] at h
      cases h1 : cnfOrChild f t with
      | none => simp [h1] at h
      | some r1 =>
        obtain ⟨c1, l, t1⟩ := r1
        simp only [h1] at h
        cases h2 : cnfOr fs t1 with
        | none => simp [h2] at h
        | some r2 =>
          obtain ⟨c2, ls, t2⟩ := r2
          simp only [h2, Option.some.injEq, Prod.mk.injEq] at h
          obtain ⟨rfl, rfl, rfl⟩ := h
          obtain ⟨hp1, hi1, _, _⟩ := cnfOrChild_inv p hpk f t c1 l t1 hi hu.1 h1
          obtain ⟨hp2, _, _, _⟩ := cnfOr_inv p hpk fs t1 c2 ls t2 hi1 hu.2 h2
          rw [cnfTrue_append] at hc
          simp only [Bool.and_eq_true] at hc
          simp only [clauseTrue, List.any_cons, Bool.or_eq_true] at hl
          rcases hl with hl | hl
          · have e1 := cnfOrChild_sound f t c1 l t1 hi hu.1 h1 (hp2.trans hT) hc.1 hl
            simp [evalAny, e1]
          · have e2 := cnfOr_sound fs t1 c2 ls t2 hi1 hu.2 h2 hT hc.2 (by simpa [clauseTrue] using hl)
            simp [evalAny, e2]
theorem cnfOrChild_sound : ∀ (f : F) (t : Tbl) (c : List (List Int)) (l : Int) (t' : Tbl), TblInv t →
    allK p f = true → cnfOrChild f t = some (c, l, t') → t' <+: T → cnfTrue a c = true →
    litTrue a l = true → eval m f = true
  | .lit n d s, t, c, l, t', hi, hu, h, hT, _, hl => by
      simp only [allK] at hu
      obtain ⟨v, hlv, hmem, hpre, hinv, _⟩ := litValue_spec t (n, d) s hi (hpk _ hu)
      simp only [cnfOrChild, Option.some.injEq, Prod.mk.injEq] at h
      obtain ⟨rfl, rfl, rfl⟩ := h
      have hv := hinv.bound hmem
      have hmk := hm (n, d) v (hT.subset hmem) hu
      rw [hlv, litTrue_lit a v hv.1 s] at hl
      simp only [eval, hmk, hl]
  | .and gs, t, c, l, t', hi, hu, h, hT, hc, hl => by
      simp only [allK] at hu
      obtain ⟨hd1, hd2, hdi⟩ := dummy_spec t hi
      simp only [cnfOrChild] at h
      cases h1 : cnfAnd gs (dummy t).2 with
      | none => simp [h1] at h
      | some r =>
        obtain ⟨c1, t2⟩ := r
        simp only [h1, Option.some.injEq, Prod.mk.injEq] at h
        obtain ⟨rfl, rfl, rfl⟩ := h
        have hpos : 1 ≤ (dummy t).1 := by rw [hd1]; omega
        have had : a (dummy t).1 = true := by
          have := litTrue_lit a (dummy t).1 hpos false
          simp only [Bool.false_eq_true, if_false] at this
          rw [this] at hl; simpa using hl
        rw [cnfTrue_guard a _ hpos, had] at hc
        simp only [Bool.not_true, Bool.false_or] at hc
        simpa only [eval] using cnfAnd_sound gs _ c1 t2 hdi hu h1 hT hc
  | .or _, _, _, _, _, _, _, h, _, _, _ => by simp [cnfOrChild] at h
  | .var _ _, _, _, _, _, _, _, h, _, _, _ => by simp [cnfOrChild] at h
  | .not _, _, _, _, _, _, _, h, _, _, _ => by simp [cnfOrChild] at h
  | .tt, _, _, _, _, _, _, h, _, _, _ => by simp [cnfOrChild] at h
  | .ff, _, _, _, _, _, _, h, _, _, _ => by simp [cnfOrChild] at h
  | .unique _, _, _, _, _, _, _, h, _, _, _ => by simp [cnfOrChild] at h
end
end sound

/-! ## `cnfRec_complete` -/

/-- `a` and `a0` agree on the variables `≤ n` -/
def Agree (n : Nat) (a a0 : Asg) : Prop := ∀ v, v ≤ n → a v = a0 v

/-- `a` gives every variable of the table that is in the class `p` the value `m` gives to it -/
def Ext (p : Key → Bool) (m : Key → Bool) (a : Asg) (t : Tbl) : Prop :=
  ∀ (k : Key) (v : Nat), (k, v) ∈ t → p k = true → a v = m k

theorem litTrue_congr {n : Nat} {a a0 : Asg} (h : Agree n a a0) (l : Int) (hl : l.natAbs ≤ n) :
    litTrue a l = litTrue a0 l := by
  simp [litTrue, h _ hl]

theorem clauseTrue_congr {n : Nat} {a a0 : Asg} (h : Agree n a a0) (c : List Int)
    (hc : ∀ l ∈ c, 1 ≤ l.natAbs ∧ l.natAbs ≤ n) : clauseTrue a c = clauseTrue a0 c := by
  induction c with
  | nil => rfl
  | cons l ls ih =>
    have h1 := litTrue_congr h l (hc l (by simp)).2
    have h2 := ih (fun x hx => hc x (by simp [hx]))
    simp only [clauseTrue, List.any_cons] at h2 ⊢
    rw [h1, h2]

theorem cnfTrue_congr {n : Nat} {a a0 : Asg} (h : Agree n a a0) (cs : List (List Int)) (hcs : LitsOk n cs) :
    cnfTrue a cs = cnfTrue a0 cs := by
  induction cs with
  | nil => rfl
  | cons c cs ih =>
    have h1 := clauseTrue_congr h c (hcs c (by simp))
    have h2 := ih (fun x hx => hcs x (by simp [hx]))
    simp only [cnfTrue, List.all_cons] at h2 ⊢
    rw [h1, h2]

theorem Agree.trans {n n' : Nat} {a2 a1 a0 : Asg} (h2 : Agree n' a2 a1) (h1 : Agree n a1 a0) (hn : n ≤ n') :
    Agree n a2 a0 := fun v hv => (h2 v (Nat.le_trans hv hn)).trans (h1 v hv)

theorem litValue_complete (p : Key → Bool) (hpk : ∀ k, p k = true → isFK k = true)
    (m : Key → Bool) (t : Tbl) (k : Key) (s : Bool) (hi : TblInv t) (hk : p k = true)
    (a0 : Asg) (h0 : Ext p m a0 t) :
    ∃ a, Agree t.length a a0 ∧ Ext p m a (litValue t k s).2 ∧ litTrue a (litValue t k s).1 = (m k != s) := by
  obtain ⟨v, hl, hmem, hpre, hinv, hcase⟩ := litValue_spec t k s hi (hpk _ hk)
  have hv := hinv.bound hmem
  rcases hcase with he | ⟨he, hv'⟩
  · refine ⟨a0, fun _ _ => rfl, by rw [he]; exact h0, ?_⟩
    rw [he] at hmem
    rw [hl, litTrue_lit a0 v hv.1 s, h0 k v hmem hk]
  · refine ⟨fun x => if x = t.length + 1 then m k else a0 x, ?_, ?_, ?_⟩
    · intro x hx
      have : x ≠ t.length + 1 := by omega
      simp [this]
    · rw [he]
      intro k' v' hm' hk'
      simp only [List.mem_append, List.mem_singleton, Prod.mk.injEq] at hm'
      rcases hm' with hm' | ⟨rfl, rfl⟩
      · have := (hi.bound hm').2
        have hne : v' ≠ t.length + 1 := by omega
        simp only [hne, if_false]
        exact h0 k' v' hm' hk'
      · simp
    · rw [hl, litTrue_lit _ v hv.1 s, hv']
      simp

section complete
set_option linter.unusedSectionVars false
variable (p : Key → Bool) (hpk : ∀ k, p k = true → isFK k = true) (m : Key → Bool)
include hpk

mutual
theorem cnfRec_complete_aux : ∀ (f : F) (t : Tbl) (cs : List (List Int)) (t' : Tbl), TblInv t → allK p f = true →
    cnfRec f t = some (cs, t') → ∀ a0, Ext p m a0 t →
    ∃ a, Agree t.length a a0 ∧ Ext p m a t' ∧ (eval m f = true → cnfTrue a cs = true)
  | .lit n d s, t, cs, t', hi, hu, h, a0, h0 => by
      simp only [allK] at hu
      obtain ⟨a, hag, hext, hlit⟩ := litValue_complete p hpk m t (n, d) s hi hu a0 h0
      simp only [cnfRec, Option.some.injEq, Prod.mk.injEq] at h
      obtain ⟨rfl, rfl⟩ := h
      refine ⟨a, hag, hext, ?_⟩
      intro he
      simp only [eval] at he
      simp [cnfTrue, clauseTrue, hlit, he]
  | .and fs, t, cs, t', hi, hu, h, a0, h0 => by
      simp only [allK] at hu
      simp only [cnfRec] at h
      simpa only [eval] using cnfAnd_complete_aux fs t cs t' hi hu h a0 h0
  | .or fs, t, cs, t', hi, hu, h, a0, h0 => by
      simp only [allK] at hu
      simp only [cnfRec] at h
      cases h1 : cnfOr fs t with
      | none => simp [h1] at h
      | some r =>
        obtain ⟨res, lits, t1⟩ := r
        simp only [h1, Option.some.injEq, Prod.mk.injEq] at h
        obtain ⟨rfl, rfl⟩ := h
        obtain ⟨a, hag, hext, hres, hlits⟩ := cnfOr_complete_aux fs t res lits t1 hi hu h1 a0 h0
        refine ⟨a, hag, hext, ?_⟩
        intro he
        simp only [eval] at he
        rw [cnfTrue_append, hres]
        simp [cnfTrue, hlits, he]
  | .tt, t, cs, t', _, _, h, a0, h0 => by
      simp only [cnfRec, Option.some.injEq, Prod.mk.injEq] at h
      obtain ⟨rfl, rfl⟩ := h
      exact ⟨a0, fun _ _ => rfl, h0, fun _ => by simp [cnfTrue]⟩
  | .ff, t, cs, t', _, _, h, a0, h0 => by
      simp only [cnfRec, Option.some.injEq, Prod.mk.injEq] at h
      obtain ⟨rfl, rfl⟩ := h
      exact ⟨a0, fun _ _ => rfl, h0, fun he => by simp [eval] at he⟩
  | .var _ _, _, _, _, _, _, h, _, _ => by simp [cnfRec] at h
  | .not _, _, _, _, _, _, h, _, _ => by simp [cnfRec] at h
  | .unique _, _, _, _, _, _, h, _, _ => by simp [cnfRec] at h
theorem cnfAnd_complete_aux : ∀ (fs : List F) (t : Tbl) (cs : List (List Int)) (t' : Tbl), TblInv t →
    allKs p fs = true → cnfAnd fs t = some (cs, t') → ∀ a0, Ext p m a0 t →
    ∃ a, Agree t.length a a0 ∧ Ext p m a t' ∧ (evalAll m fs = true → cnfTrue a cs = true)
  | [], t, cs, t', _, _, h, a0, h0 => by
      simp only [cnfAnd, Option.some.injEq, Prod.mk.injEq] at h
      obtain ⟨rfl, rfl⟩ := h
      exact ⟨a0, fun _ _ => rfl, h0, fun _ => by simp [cnfTrue]⟩
  | f :: fs, t, cs, t', hi, hu, h, a0, h0 => by
      simp only [allKs, Bool.and_eq_true] at hu
      simp only [cnfAnd] at h
      cases h1 : cnfRec f t with
      | none => simp [h1] at h
      | some r1 =>
        obtain ⟨c1, t1⟩ := r1
        simp only [h1] at h
        cases h2 : cnfAnd fs t1 with
        | none => simp [h2] at h
        | some r2 =>
          obtain ⟨c2, t2⟩ := r2
          simp only [h2, Option.some.injEq, Prod.mk.injEq] at h
          obtain ⟨rfl, rfl⟩ := h
          obtain ⟨hp1, hi1, hl1⟩ := cnfRec_inv p hpk f t c1 t1 hi hu.1 h1
          obtain ⟨a1, hag1, hext1, hc1⟩ := cnfRec_complete_aux f t c1 t1 hi hu.1 h1 a0 h0
          obtain ⟨a2, hag2, hext2, hc2⟩ := cnfAnd_complete_aux fs t1 c2 t2 hi1 hu.2 h2 a1 hext1
          refine ⟨a2, hag2.trans hag1 hp1.length_le, hext2, ?_⟩
          intro he
          simp only [evalAll, Bool.and_eq_true] at he
          rw [cnfTrue_append, cnfTrue_congr hag2 c1 hl1, hc1 he.1, hc2 he.2]
          rfl
theorem cnfOr_complete_aux : ∀ (fs : List F) (t : Tbl) (res : List (List Int)) (lits : List Int) (t' : Tbl),
    TblInv t → allKs p fs = true → cnfOr fs t = some (res, lits, t') → ∀ a0, Ext p m a0 t →
    ∃ a, Agree t.length a a0 ∧ Ext p m a t' ∧ cnfTrue a res = true ∧ clauseTrue a lits = evalAny m fs
  | [], t, res, lits, t', _, _, h, a0, h0 => by
      simp only [cnfOr, Option.some.injEq, Prod.mk.injEq] at h
      obtain ⟨rfl, rfl, rfl⟩ := h
      exact ⟨a0, fun _ _ => rfl, h0, by simp [cnfTrue], by simp [clauseTrue, evalAny]⟩
  | f :: fs, t, res, lits, t', hi, hu, h, a0, h0 => by
      simp only [allKs, Bool.and_eq_true] at hu
      simp only [cnfOr] at h
      cases h1 : cnfOrChild f t with
      | none => simp [h1] at h
      | some r1 =>
        obtain ⟨c1, l, t1⟩ := r1
        simp only [h1] at h
        cases h2 : cnfOr fs t1 with
        | none => simp [h2] at h
        | some r2 =>
          obtain ⟨c2, ls, t2⟩ := r2
          simp only [h2, Option.some.injEq, Prod.mk.injEq] at h
          obtain ⟨rfl, rfl, rfl⟩ := h
          obtain ⟨hp1, hi1, hl1, hb1⟩ := cnfOrChild_inv p hpk f t c1 l t1 hi hu.1 h1
          obtain ⟨a1, hag1, hext1, hc1, hlit1⟩ := cnfOrChild_complete_aux f t c1 l t1 hi hu.1 h1 a0 h0
          obtain ⟨a2, hag2, hext2, hc2, hlits2⟩ := cnfOr_complete_aux fs t1 c2 ls t2 hi1 hu.2 h2 a1 hext1
          refine ⟨a2, hag2.trans hag1 hp1.length_le, hext2, ?_, ?_⟩
          · rw [cnfTrue_append, cnfTrue_congr hag2 c1 hl1, hc1, hc2]; rfl
          · have : clauseTrue a2 (l :: ls) = (litTrue a2 l || clauseTrue a2 ls) := by simp [clauseTrue]
            rw [this, litTrue_congr hag2 l hb1.2, hlit1, hlits2]
            simp [evalAny]
theorem cnfOrChild_complete_aux : ∀ (f : F) (t : Tbl) (c : List (List Int)) (l : Int) (t' : Tbl), TblInv t →
    allK p f = true → cnfOrChild f t = some (c, l, t') → ∀ a0, Ext p m a0 t →
    ∃ a, Agree t.length a a0 ∧ Ext p m a t' ∧ cnfTrue a c = true ∧ litTrue a l = eval m f
  | .lit n d s, t, c, l, t', hi, hu, h, a0, h0 => by
      simp only [allK] at hu
      obtain ⟨a, hag, hext, hlit⟩ := litValue_complete p hpk m t (n, d) s hi hu a0 h0
      simp only [cnfOrChild, Option.some.injEq, Prod.mk.injEq] at h
      obtain ⟨rfl, rfl, rfl⟩ := h
      exact ⟨a, hag, hext, by simp [cnfTrue], by simp [hlit, eval]⟩
  | .and gs, t, c, l, t', hi, hu, h, a0, h0 => by
      simp only [allK] at hu
      obtain ⟨hd1, hd2, hdi⟩ := dummy_spec t hi
      simp only [cnfOrChild] at h
      cases h1 : cnfAnd gs (dummy t).2 with
      | none => simp [h1] at h
      | some r =>
        obtain ⟨c1, t2⟩ := r
        simp only [h1, Option.some.injEq, Prod.mk.injEq] at h
        obtain ⟨rfl, rfl, rfl⟩ := h
        have hpos : 1 ≤ (dummy t).1 := by rw [hd1]; omega
        have hlen1 : (dummy t).2.length = t.length + 1 := by rw [hd2]; simp
        -- the dummy takes the truth value of its conjunction
        have h0' : Ext p m (fun x => if x = t.length + 1 then evalAll m gs else a0 x) (dummy t).2 := by
          rw [hd2]
          intro k' v' hm' hk'
          simp only [List.mem_append, List.mem_singleton, Prod.mk.injEq] at hm'
          rcases hm' with hm' | ⟨rfl, rfl⟩
          · have := (hi.bound hm').2
            have hne : v' ≠ t.length + 1 := by omega
            simp only [hne, if_false]
            exact h0 k' v' hm' hk'
          · have := hpk _ hk'
            simp [isFK] at this
        obtain ⟨a, hag, hext, hc⟩ := cnfAnd_complete_aux gs _ c1 t2 hdi hu h1 _ h0'
        have had : a (dummy t).1 = evalAll m gs := by
          rw [hag (dummy t).1 (by rw [hd1, hlen1]; omega), hd1]; simp
        refine ⟨a, ?_, hext, ?_, ?_⟩
        · intro x hx
          rw [hag x (by rw [hlen1]; omega)]
          have : x ≠ t.length + 1 := by omega
          simp [this]
        · rw [cnfTrue_guard a _ hpos, had]
          cases he : evalAll m gs
          · rfl
          · simp [hc he]
        · have := litTrue_lit a (dummy t).1 hpos false
          simp only [Bool.false_eq_true, if_false] at this
          rw [this, had]; simp [eval]
  | .or _, _, _, _, _, _, _, h, _, _ => by simp [cnfOrChild] at h
  | .var _ _, _, _, _, _, _, _, h, _, _ => by simp [cnfOrChild] at h
  | .not _, _, _, _, _, _, _, h, _, _ => by simp [cnfOrChild] at h
  | .tt, _, _, _, _, _, _, h, _, _ => by simp [cnfOrChild] at h
  | .ff, _, _, _, _, _, _, h, _, _ => by simp [cnfOrChild] at h
  | .unique _, _, _, _, _, _, _, h, _, _ => by simp [cnfOrChild] at h
end
end complete

/-! ## Main statements (C12) -/

/-- **`cnfRec_complete`** (any starting table satisfying the invariant): every model `m` of `g`
    extends — on the variables created by this run, dummies included — to a model of the
    clauses; the dummy of a conjunction takes the truth value of that conjunction. -/
theorem cnfRec_complete (p : Key → Bool) (hpk : ∀ k, p k = true → isFK k = true)
    (m : Key → Bool) (g : F) (t : Tbl) (cs : List (List Int)) (t' : Tbl)
    (hi : TblInv t) (hu : allK p g = true) (h : cnfRec g t = some (cs, t'))
    (a0 : Asg) (h0 : Ext p m a0 t) (hg : eval m g = true) :
    ∃ a, Agree t.length a a0 ∧ Ext p m a t' ∧ cnfTrue a cs = true := by
  obtain ⟨a, h1, h2, h3⟩ := cnfRec_complete_aux p hpk m g t cs t' hi hu h a0 h0
  exact ⟨a, h1, h2, h3 hg⟩

/-- `cnf.solve()` reads the solver model back through the table: `vars[v.name] = m[idx-1]`
    (names that are not in the table are absent from the Go map; here they read `false`) -/
def readBack (T : Tbl) (a : Asg) : Key → Bool := fun k =>
  match T.lookup k with
  | some v => a v
  | none => false

/-- the run of `asCnf` on a formula built through the API: table invariant, literals in range -/
theorem asCnf_inv (f : F) (hu : userOnly f = true) (cs : List (List Int)) (T : Tbl)
    (h : asCnf f = some (cs, T)) : TblInv T ∧ LitsOk T.length cs := by
  obtain ⟨_, h1, h2⟩ := cnfRec_inv isFK (fun _ h => h) (nnf f) [] cs T TblInv.nil (nnf_isFK_of_user f hu) h
  exact ⟨h1, h2⟩

/-- soundness of the export, all formula-level variables read back (the `line-…` / `col-…`
    dummies included): the assignment read through the table satisfies `f.nnf()` -/
theorem asCnf_sound_nnf (f : F) (hu : userOnly f = true) (cs : List (List Int)) (T : Tbl)
    (h : asCnf f = some (cs, T)) (a : Asg) (hc : cnfTrue a cs = true)
    (m : Key → Bool) (hm : ∀ (k : Key) (v : Nat), (k, v) ∈ T → isFK k = true → m k = a v) :
    eval m (nnf f) = true :=
  cnfRec_sound isFK (fun _ h => h) a m T hm (nnf f) [] cs T TblInv.nil (nnf_isFK_of_user f hu) h
    (List.prefix_refl _) hc

/-- **C12, soundness of the export.** A model of the clauses of `asCnf f`, read back through the
    table on the problem variables, is a model of `f` — for every formula built through the API:
    exactly-one groups of every size, at every polarity. -/
theorem asCnf_sound (f : F) (hu : userOnly f = true) (cs : List (List Int)) (T : Tbl)
    (h : asCnf f = some (cs, T)) (a : Asg) (hc : cnfTrue a cs = true)
    (m : Key → Bool) (hm : ∀ (k : Key) (v : Nat), (k, v) ∈ T → k.2 = false → m k = a v) :
    eval m f = true := by
  obtain ⟨hinv, _⟩ := asCnf_inv f hu cs T h
  -- the dummies of `uniqueRec` are read back through the table too
  have hm' : ∀ (k : Key) (v : Nat), (k, v) ∈ T → isFK k = true →
      (fun k : Key => if k.2 then readBack T a k else m k) k = a v := by
    intro k v hk _
    cases hd : k.2
    · simp only [hd, Bool.false_eq_true, if_false]; exact hm k v hk hd
    · simp only [hd, if_true, readBack, hinv.look k v hk]
  have h1 := nnf_sound _ f (asCnf_sound_nnf f hu cs T h a hc _ hm')
  have e := eval_congr_user m (fun k : Key => if k.2 then readBack T a k else m k) (fun n => rfl) f hu
  rw [← e]
  exact h1

/-- **C12, completeness of the export.** Every model of `f` extends to a model of the clauses —
    for every formula built through the API: exactly-one groups of every size, at every polarity
    (the `line-…` / `col-…` dummies take the disjunction of their members, the `dummy-<n>` of
    `cnfRec` the value of their conjunction). -/
theorem asCnf_complete (f : F) (hu : userOnly f = true) (cs : List (List Int)) (T : Tbl)
    (h : asCnf f = some (cs, T)) (m : Key → Bool) (hf : eval m f = true) :
    ∃ a : Asg, cnfTrue a cs = true ∧ ∀ (k : Key) (v : Nat), (k, v) ∈ T → k.2 = false → a v = m k := by
  obtain ⟨m', hm', _, hf'⟩ := nnf_complete m f hu hf
  obtain ⟨a, _, h2, h3⟩ := cnfRec_complete isFK (fun _ h => h) m' (nnf f) [] cs T TblInv.nil
    (nnf_isFK_of_user f hu) h (fun _ => false) (by intro k v hkv; simp at hkv) hf'
  refine ⟨a, h3, ?_⟩
  rintro ⟨n, d⟩ v hk hd
  simp only at hd
  subst hd
  rw [h2 (n, false) v hk (by simp [isFK]), hm' n]

/-- **`table_injective`.** In the table of `asCnf f`: the `i`-th entry has index `i+1` (so the
    indices are exactly `1..len`), a key has one index and an index has one key. -/
theorem table_injective (f : F) (hu : userOnly f = true) (cs : List (List Int)) (T : Tbl)
    (h : asCnf f = some (cs, T)) :
    (∀ (i : Nat) (k : Key) (v : Nat), T[i]? = some (k, v) → v = i + 1) ∧
    (∀ v : Nat, (1 ≤ v ∧ v ≤ T.length) ↔ ∃ k, (k, v) ∈ T) ∧
    (∀ (k : Key) (v v' : Nat), (k, v) ∈ T → (k, v') ∈ T → v = v') ∧
    (∀ (k k' : Key) (v : Nat), (k, v) ∈ T → (k', v) ∈ T → k = k') := by
  obtain ⟨hinv, _⟩ := asCnf_inv f hu cs T h
  refine ⟨hinv.idx, ?_, ?_, ?_⟩
  · intro v
    constructor
    · intro hv
      have hlt : v - 1 < T.length := by omega
      refine ⟨(T[v - 1]).1, ?_⟩
      have hget : T[v - 1]? = some ((T[v - 1]).1, (T[v - 1]).2) := by
        simp [List.getElem?_eq_getElem hlt]
      have := hinv.idx _ _ _ hget
      have hv' : (T[v - 1]).2 = v := by omega
      have hmem : ((T[v - 1]).1, (T[v - 1]).2) ∈ T := List.getElem_mem hlt
      rw [hv'] at hmem
      exact hmem
    · rintro ⟨k, hk⟩
      exact hinv.bound hk
  · intro k v v' h1 h2
    have e1 := hinv.look k v h1
    have e2 := hinv.look k v' h2
    rw [e1] at e2
    exact Option.some.inj e2
  · intro k k' v h1 h2
    obtain ⟨i, hi, hgi⟩ := List.getElem_of_mem h1
    obtain ⟨j, hj, hgj⟩ := List.getElem_of_mem h2
    have e1 := hinv.idx i k v (by simp [List.getElem?_eq_getElem hi, hgi])
    have e2 := hinv.idx j k' v (by simp [List.getElem?_eq_getElem hj, hgj])
    have : i = j := by omega
    subst this
    rw [hgi] at hgj
    exact (Prod.mk.inj hgj).1

theorem mem_insertByName (x p : Nat × Nat) : ∀ l : List (Nat × Nat), p ∈ insertByName x l ↔ p = x ∨ p ∈ l
  | [] => by simp [insertByName]
  | y :: ys => by
      simp only [insertByName]
      split
      · simp
      · simp only [List.mem_cons, mem_insertByName x p ys]
        constructor
        · rintro (h | h | h) <;> simp [h]
        · rintro (h | h | h) <;> simp [h]

theorem mem_sortByName (p : Nat × Nat) : ∀ l : List (Nat × Nat), p ∈ sortByName l ↔ p ∈ l
  | [] => by simp [sortByName]
  | x :: xs => by simp [sortByName, mem_insertByName, mem_sortByName p xs]

theorem length_insertByName (x : Nat × Nat) : ∀ l : List (Nat × Nat), (insertByName x l).length = l.length + 1
  | [] => by simp [insertByName]
  | y :: ys => by
      simp only [insertByName]
      split
      · simp
      · simp [length_insertByName x ys]

theorem length_sortByName : ∀ l : List (Nat × Nat), (sortByName l).length = l.length
  | [] => by simp [sortByName]
  | x :: xs => by simp [sortByName, length_insertByName, length_sortByName xs]

/-- the `c name=idx` comment lines list exactly the non-dummy entries of the table -/
theorem pbVars_mem (T : Tbl) (n v : Nat) : (n, v) ∈ pbVars T ↔ ((n, false), v) ∈ T := by
  simp only [pbVars, mem_sortByName, List.mem_map, List.mem_filter, Bool.not_eq_true']
  constructor
  · rintro ⟨⟨⟨n', d⟩, v'⟩, ⟨hm, hd⟩, he⟩
    simp only [Prod.mk.injEq] at he hd
    obtain ⟨rfl, rfl⟩ := he
    subst hd
    exact hm
  · intro h
    exact ⟨((n, false), v), ⟨h, rfl⟩, rfl⟩

/-- **`header_counts`.** The text of `Dimacs` is the header `p cnf <len(vars.all)> <len(clauses)>`,
    one comment per problem variable, one line per clause; the announced variable count bounds
    every literal (all literals are non-zero and within `1..nbVars`) and the announced clause
    count is the number of clause lines. -/
theorem header_counts (f : F) (hu : userOnly f = true) (cs : List (List Int)) (T : Tbl)
    (h : asCnf f = some (cs, T)) :
    dimacs f = some ("p cnf " ++ toString T.length ++ " " ++ toString cs.length ++ "\n"
        ++ String.join ((pbVars T).map (fun p => "c " ++ nameOf p.1 ++ "=" ++ toString p.2 ++ "\n"))
        ++ String.join (cs.map clauseLine)) ∧
    (cs.map clauseLine).length = cs.length ∧
    LitsOk T.length cs ∧
    (pbVars T).length = (T.filter (fun e => !e.1.2)).length := by
  obtain ⟨_, hl⟩ := asCnf_inv f hu cs T h
  refine ⟨by simp [dimacs, h, dimacsOf], by simp, hl, ?_⟩
  simp [pbVars, length_sortByName]

/-- **C12 for spec formulas.** For **every** spec formula `g` — exactly-one groups of every size,
    at every polarity: under negations, on the left of implications, inside equivalences and
    exclusive-ors — the export exists, and an assignment `m` of the names satisfies `g` iff some
    model of the clauses gives every exported name `n ↦ v` the value `a v = m n`. Names that do
    not occur in the table are unconstrained; the dummy variables (`line-…`, `col-…`, `dummy-<n>`)
    are existentially quantified. -/
theorem export_models (g : SF) :
    ∃ cs T, asCnf (ofSF g) = some (cs, T) ∧
      ∀ m : Nat → Bool, SF.eval m g = true ↔
        ∃ a : Asg, cnfTrue a cs = true ∧ ∀ (n v : Nat), ((n, false), v) ∈ T → a v = m n := by
  obtain ⟨_, ⟨cs, T⟩, h⟩ := nnf_grammar (ofSF g)
  refine ⟨cs, T, h, ?_⟩
  intro m
  constructor
  · intro hg
    rw [← ofSF_eval] at hg
    obtain ⟨a, hc, hext⟩ := asCnf_complete (ofSF g) (ofSF_user g) cs T h (lift m) hg
    exact ⟨a, hc, fun n v hm => by simpa [lift] using hext (n, false) v hm rfl⟩
  · rintro ⟨a, hc, hext⟩
    rw [← ofSF_eval]
    apply asCnf_sound (ofSF g) (ofSF_user g) cs T h a hc (lift m)
    intro k v hk hd
    obtain ⟨n, d⟩ := k
    simp only at hd
    subst hd
    simp [lift, hext n v hk]

/-! ## Back to C11: what `Solve` returns -/

/-- **C11, solver side.** If the SAT solver is right on the clauses of `asCnf f` — it returns a
    model `a` of `cs`, or reports UNSAT only when there is none — then `Solve(f)` returns a model
    of `f` (read back through the table), and returns `nil` only when `f` has no model: for every
    formula built through the API, exactly-one groups of every size at every polarity (no
    restriction on where the groups of 5 names or more occur any more). -/
theorem solve_agrees (f : F) (hu : userOnly f = true) (cs : List (List Int)) (T : Tbl)
    (h : asCnf f = some (cs, T)) :
    (∀ a : Asg, cnfTrue a cs = true → eval (readBack T a) f = true) ∧
    ((∃ m, eval m f = true) ↔ CnfSat cs) := by
  obtain ⟨hinv, _⟩ := asCnf_inv f hu cs T h
  have hs : ∀ a : Asg, cnfTrue a cs = true → eval (readBack T a) f = true := by
    intro a hc
    apply asCnf_sound f hu cs T h a hc
    intro k v hk _
    simp [readBack, hinv.look k v hk]
  refine ⟨hs, ?_, ?_⟩
  · rintro ⟨m, hm⟩
    obtain ⟨a, hc, _⟩ := asCnf_complete f hu cs T h m hm
    exact ⟨a, hc⟩
  · rintro ⟨a, hc⟩
    exact ⟨_, hs a hc⟩

/-! ## Concrete instances -/

/-- `Eq(a, And(b, Not(c)))`: one dummy (index 2) for the conjunction inside the first `or` -/
example : asCnf (ofSF (.iff (.var 0) (.and [.var 1, .not (.var 2)]))) =
    some ([[3, -2], [-4, -2], [-1, 2], [1, -3, 4]],
      [((0, false), 1), ((4, true), 2), ((1, false), 3), ((2, false), 4)]) := by decide

example : userOnly (ofSF (.iff (.var 0) (.and [.var 1, .not (.var 2)]))) = true := ofSF_user _

example : dimacs (ofSF (.iff (.var 0) (.and [.var 1, .not (.var 2)]))) =
    some "p cnf 4 4\nc a=1\nc b=3\nc c=4\n3 -2 0\n-4 -2 0\n-1 2 0\n1 -3 4 0\n" := by decide

/-- constants: `and{}` is true (no clause), `or{}` is false (the empty clause) -/
example : asCnf (.and []) = some ([], []) := by decide
example : asCnf (.or []) = some ([[]], []) := by decide

/-- Why "formula-level variables only" (`allK isFK`) is a hypothesis of the `cnfRec` theorems: in
    the *model* a formula variable carrying the dummy flag and the (even) number of a dummy created
    by `dummy()` are the same key — here the formula's `(4, true)` is identified with the dummy of
    its own conjunction (clause `[2, -2]`). In Go the created dummies are named `dummy-<n>` and
    the only formula-level dummies (`uniqueRec`) are named `line-…` / `col-…` (odd numbers in the
    model), and `variable` is unexported: no such clash. -/
example : cnfRec (.or [.lit 0 false false, .and [.lit 4 true false, .lit 1 false false]]) [] =
    some ([[2, -2], [3, -2], [1, 2]], [((0, false), 1), ((4, true), 2), ((1, false), 3)]) := by decide

/-! ## Exactly-one groups of 5 names or more outside positive positions (the repaired shapes) -/

/-- the table of `asCnf` contains no `line-…` / `col-…` dummy (odd number): only problem variables
    and the `dummy-<n>` of `cnfRec` -/
def noAux (r : Option (List (List Int) × Tbl)) : Bool :=
  match r with
  | some (_, T) => T.all (fun e => !e.1.2 || e.1.1 % 2 == 0)
  | none => false

/-- the truth table of the normal form (which mentions problem variables only) is the truth
    table of the spec formula, over the names `0..k-1` -/
def sameTable (k : Nat) (g : SF) : Bool :=
  (leaves k).all (fun bs => eval (lift (nameAsg bs)) (nnf (ofSF g)) == SF.eval (nameAsg bs) g)

/-- `Not(Unique(a,b,c,d,e))`: no auxiliary variable, same truth table -/
example : noAux (asCnf (ofSF (.not (.unique [0, 1, 2, 3, 4])))) = true ∧
    userOnly (nnf (ofSF (.not (.unique [0, 1, 2, 3, 4])))) = true ∧
    sameTable 5 (.not (.unique [0, 1, 2, 3, 4])) = true := by decide +kernel

/-- `Implies(Unique(a,b,c,d,e), f)`: the group is on the left of the implication -/
example : noAux (asCnf (ofSF (.imp (.unique [0, 1, 2, 3, 4]) (.var 5)))) = true ∧
    userOnly (nnf (ofSF (.imp (.unique [0, 1, 2, 3, 4]) (.var 5)))) = true ∧
    sameTable 6 (.imp (.unique [0, 1, 2, 3, 4]) (.var 5)) = true := by decide +kernel

/-- `Implies(Unique(6 names), Not(Unique(6 names)))`: both occurrences of the group are negative -/
example : noAux (asCnf (ofSF (.imp (.unique [0, 1, 2, 3, 4, 5]) (.not (.unique [0, 1, 2, 3, 4, 5]))))) = true ∧
    sameTable 6 (.imp (.unique [0, 1, 2, 3, 4, 5]) (.not (.unique [0, 1, 2, 3, 4, 5]))) = true := by decide +kernel

/-- `Eq(g, Unique(a,b,c,d,e,f))` has the group at both polarities (`Eq(x, U) = and{or{not x, U},
    or{x, not U}}`): the positive occurrence is expanded by `uniqueRec` (with `line-…` / `col-…`
    dummies, rightly: it must hold there), the negative one by `negation()`. It is outside the
    fragment of `nnf_eval` and covered by `nnf_models` / `export_models` / `solve_agrees`. -/
example : smallPos (ofSF (.iff (.var 6) (.unique [0, 1, 2, 3, 4, 5]))) = false ∧
    userOnly (ofSF (.iff (.var 6) (.unique [0, 1, 2, 3, 4, 5]))) = true := by decide

example (m : Nat → Bool) : SF.eval m (.iff (.var 6) (.unique [0, 1, 2, 3, 4, 5])) = true ↔
    ∃ m' : Key → Bool, (∀ n, m' (n, false) = m n) ∧
      eval m' (nnf (ofSF (.iff (.var 6) (.unique [0, 1, 2, 3, 4, 5])))) = true :=
  nnf_ofSF_models m _

/-- **The old failing shape.** Before the repair `Solve(Not(Unique(p,q,r,s,t)))` could answer
    `p` alone true (all the dummies false). Now no model of the exported clauses reads back as
    "`p` alone true": -/
example : ∃ cs T, asCnf (ofSF (.not (.unique [0, 1, 2, 3, 4]))) = some (cs, T) ∧
    ¬ ∃ a : Asg, cnfTrue a cs = true ∧ ∀ (n v : Nat), ((n, false), v) ∈ T → a v = (n == 0) := by
  obtain ⟨cs, T, h, hm⟩ := export_models (.not (.unique [0, 1, 2, 3, 4]))
  refine ⟨cs, T, h, ?_⟩
  intro hex
  have := (hm (fun n => n == 0)).2 hex
  revert this
  decide

/-- and `And(Not(Unique(p,q,r,s,t)), p, Not q, Not r, Not s, Not t)` is unsatisfiable -/
example : ∃ cs T, asCnf (ofSF (.and [.not (.unique [0, 1, 2, 3, 4]), .var 0, .not (.var 1), .not (.var 2),
      .not (.var 3), .not (.var 4)])) = some (cs, T) ∧ ¬ CnfSat cs := by
  obtain ⟨_, ⟨cs, T⟩, h⟩ := nnf_grammar (ofSF (.and [.not (.unique [0, 1, 2, 3, 4]), .var 0, .not (.var 1),
    .not (.var 2), .not (.var 3), .not (.var 4)]))
  refine ⟨cs, T, h, ?_⟩
  rw [← (solve_agrees _ (ofSF_user _) cs T h).2]
  rintro ⟨m, hm⟩
  rw [ofSF] at hm
  simp only [ofSFs, ofSF, eval, evalAll, pbVar, uniqueOf, List.map, countTrue, Bool.and_true,
    Bool.and_eq_true, Bool.not_eq_true', beq_eq_false_iff_ne, ne_eq] at hm
  obtain ⟨h0, h1, h2, h3, h4, h5⟩ := hm
  simp [h1, h2, h3, h4, h5] at h0

/-! ## Groups of 5 names or more in positive position: the text of `Dimacs`, as written by Go -/

/-- `natDims` with its values at 5, 6, 7 spelled out (`Nat.sqrt` is defined by well-founded
    recursion, which the kernel does not unfold) -/
theorem natDims_small : GS.BfUnique.natDims =
    fun n => if n = 5 then (2, 3) else if n = 6 then (2, 3) else if n = 7 then (3, 3) else GS.BfUnique.natDims n := by
  funext n
  split
  · subst n; rw [GS.BfUnique.natDims_eq 5 2 (by decide) (by decide)]; decide
  · split
    · subst n; rw [GS.BfUnique.natDims_eq 6 2 (by decide) (by decide)]; decide
    · split
      · subst n; rw [GS.BfUnique.natDims_eq 7 2 (by decide) (by decide)]; decide
      · rfl

/-- `Unique(a,b,c,d,e)`: a 2 × 3 grid, five `line-…` / `col-…` dummies (indices 1, 6, 10, 12, 14),
    four `dummy-<n>` of `cnfRec`; byte for byte the output of `bf.Dimacs` -/
example : dimacs (ofSF (.unique [0, 1, 2, 3, 4])) =
    some "p cnf 14 25\nc a=2\nc b=3\nc c=4\nc d=7\nc e=8\n-1 2 3 4 0\n-2 -5 0\n-3 -5 0\n-4 -5 0\n1 5 0\n-6 7 8 0\n-7 -9 0\n-8 -9 0\n6 9 0\n-10 2 7 0\n-2 -11 0\n-7 -11 0\n10 11 0\n-12 3 8 0\n-3 -13 0\n-8 -13 0\n12 13 0\n-14 4 0\n14 -4 0\n1 6 0\n-1 -6 0\n10 12 14 0\n-10 -12 0\n-10 -14 0\n-12 -14 0\n" := by
  simp only [dimacs, asCnf, nnf, nnfP, uniqueX]
  rw [natDims_small]
  decide +kernel

/-- `Eq(i, Unique(a,b,c,d,e,f))`: the positive occurrence of the group (`i → U`) is expanded by
    `uniqueRec` under the guard `-2` (the `dummy-2` of the conjunction inside `or{not i, …}`), the
    negative one (`U → i`, last clause) by `negation()` without `line-…` / `col-…` dummy; the clauses,
    the `c name=index` lines and the variable count of the output of `bf.Dimacs` (the text itself
    is compared byte for byte by the harness; the kernel is slow on long strings) -/
example : (asCnf (ofSF (.iff (.var 8) (.unique [0, 1, 2, 3, 4, 5])))).map (fun r => (r.1, pbVars r.2, r.2.length)) =
    some ([[-3, 4, 5, 6, -2], [-4, -7, -2], [-5, -7, -2], [-6, -7, -2], [3, 7, -2], [-8, 9, 10, 11, -2], [-9,
      -12, -2], [-10, -12, -2], [-11, -12, -2], [8, 12, -2], [-13, 4, 9, -2], [-4, -14, -2], [-9, -14,
      -2], [13, 14, -2], [-15, 5, 10, -2], [-5, -16, -2], [-10, -16, -2], [15, 16, -2], [-17, 6, 11, -2],
      [-6, -18, -2], [-11, -18, -2], [17, 18, -2], [3, 8, -2], [-3, -8, -2], [13, 15, 17, -2], [-13, -15,
      -2], [-13, -17, -2], [-15, -17, -2], [-1, 2], [-4, -19], [-5, -19], [-6, -19], [-9, -19], [-10,
      -19], [-11, -19], [4, -20], [5, -20], [4, -21], [6, -21], [4, -22], [9, -22], [4, -23], [10, -23],
      [4, -24], [11, -24], [5, -25], [6, -25], [5, -26], [9, -26], [5, -27], [10, -27], [5, -28], [11,
      -28], [6, -29], [9, -29], [6, -30], [10, -30], [6, -31], [11, -31], [9, -32], [10, -32], [9, -33],
      [11, -33], [10, -34], [11, -34], [1, 19, 20, 21, 22, 23, 24, 25, 26, 27, 28, 29, 30, 31, 32, 33,
      34]],
      [(0, 4), (1, 5), (2, 6), (3, 9), (4, 10), (5, 11), (8, 1)], 34) := by
  simp only [asCnf, nnf, nnfP, uniqueX]
  rw [natDims_small]
  decide +kernel

#print axioms nnf_eval
#print axioms nnf_sound
#print axioms nnf_eval_coh
#print axioms nnf_complete
#print axioms nnf_models
#print axioms nnf_grammar
#print axioms nnf_idem
#print axioms nnf_not_and
#print axioms nnf_not_or
#print axioms nnf_and
#print axioms nnf_or
#print axioms nnf_unique
#print axioms nnf_not_unique
#print axioms nnf_user
#print axioms builders_eval
#print axioms negation_eval
#print axioms ofSF_eval
#print axioms nnf_ofSF_eval
#print axioms nnf_ofSF_models
#print axioms cnfRec_inv
#print axioms cnfRec_sound
#print axioms cnfRec_complete
#print axioms asCnf_sound
#print axioms asCnf_complete
#print axioms table_injective
#print axioms header_counts
#print axioms pbVars_mem
#print axioms export_models
#print axioms solve_agrees

end GS.Bf
