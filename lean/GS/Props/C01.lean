import GS.Check.Brute
import GS.Check.Rup
/-!
# C01 — CNF satisfiability verdicts and models are correct

What is proved here (kernel-checked, for all inputs):

* the oracles that judge every answer of the implementation are *exactly* the spec:
  `bruteSat_iff` (exhaustive verdict), `Problem.holds_congr` (a model only matters on the
  declared variables), `rupRefutes_sound` (an accepted refutation means no model exists);
* `C01_sat_answer_sound` / `C01_unsat_answer_sound`: the two judgements the harness applies
  to an answer are sound for **every** formula and answer, not only the sampled ones.

What ties it to /repo: every generated formula is solved by the implementation and its
answer is judged by these functions running in the compiled driver (DESIGN.md §3, §7 C01).
-/
namespace GS

/-- Judgement applied to a `Sat` answer: the model has one value per declared variable and
    satisfies every clause as written. -/
def judgeSat (n : Nat) (f : List (List Int)) (m : List Bool) : Bool :=
  m.length == n && cnfTrue (asgOf m) f

theorem C01_sat_answer_sound (n : Nat) (f : List (List Int)) (m : List Bool)
    (h : judgeSat n f m = true) : m.length = n ∧ CnfSat f := by
  unfold judgeSat at h
  simp only [Bool.and_eq_true, beq_iff_eq] at h
  exact ⟨h.1, asgOf m, h.2⟩

/-- Judgement applied to an `Unsat` answer that comes with certificate lines. -/
theorem C01_unsat_answer_sound (n : Nat) (f lines : List (List Int))
    (h : rupRefutes n f lines = true) : ¬ CnfSat f := rupRefutes_sound n f lines h

/-- Judgement applied to any verdict on a formula over at most `n` variables. -/
theorem C01_verdict_oracle (n : Nat) (f : List (List Int)) (hw : cnfWf n f = true) :
    (bruteCnfSat n f = true ↔ CnfSat f) := bruteCnfSat_iff n f hw

/-- The clause-as-linear-constraint reading used by the driver agrees with the clause reading. -/
theorem lhs_ofClause (a : Asg) : ∀ c : List Int,
    0 ≤ lhs a (c.map (fun l => ((1:Int), l))) ∧ (1 ≤ lhs a (c.map (fun l => ((1:Int), l))) ↔ clauseTrue a c = true) := by
  intro c
  induction c with
  | nil => simp [lhs, clauseTrue]
  | cons l c ih =>
    simp only [List.map_cons, lhs, termVal, clauseTrue, List.any_cons, Bool.or_eq_true]
    unfold clauseTrue at ih
    obtain ⟨ih0, ih1⟩ := ih
    cases hl : litTrue a l
    · simp only [Bool.false_eq_true, if_false, false_or]
      constructor
      · omega
      · constructor
        · intro h; exact ih1.1 (by omega)
        · intro h; have := ih1.2 h; omega
    · simp only [if_true, true_or, iff_true]
      omega

theorem ofClause_holds (a : Asg) (c : List Int) : (Lin.ofClause c).holds a = clauseTrue a c := by
  have := (lhs_ofClause a c).2
  unfold Lin.holds Lin.ofClause
  simp only
  cases h : clauseTrue a c
  · simp only [decide_eq_false_iff_not]
    intro h1; have := this.1 h1; rw [h] at this; cases this
  · simp only [decide_eq_true_eq]; exact this.2 h

theorem ofCnf_holds (a : Asg) : ∀ f : List (List Int), Problem.holds a (Problem.ofCnf f) = cnfTrue a f := by
  intro f
  induction f with
  | nil => rfl
  | cons c f ih =>
    unfold Problem.ofCnf Problem.holds cnfTrue at *
    simp only [List.map_cons, List.all_cons, ofClause_holds, ih]

-- non-vacuity: a concrete formula meets the hypotheses
example : judgeSat 3 [[1, -2], [2, 3], [-1, -1, 3]] [true, true, true] = true := by decide
example : rupRefutes 2 [[1, 2], [-1, 2], [1, -2], [-1, -2]] [[2], []] = true := by decide

end GS
