import GS.Model.Formats
import GS.Props.C02_Constr
import GS.Props.C04_MaxSat
/-!
# C13 / C18 — texts mean what their formats say; printed problems read back

Everything is stated on *lines of tokens* (`GS.Model.Formats`): byte-level lexing is trusted.

* `parseCnf_render`      : `solver.ParseCNF` reads every rendering of a well-formed DIMACS file
                            (any line cuts, clauses sharing lines, comment lines between clauses)
                            as exactly its clause list; `parseCnf_render_sem`: same models.
* `explainParse_render`  : same for the streaming `explain.ParseCNF`, and `units` is what the
                            checker mirror `GS.Explain.mkPb` starts from.
* `parseOpb_render`      : `solver.ParseOPB` never fails on a rendering of a well-formed OPB file;
                            the constraints it builds have exactly the models of the file, the
                            front-end case analysis keeps these models, the objective has the same
                            value under every assignment.
* `parseWcnf_render`, `wcnf_answer_rendered` : `maxsat.ParseWCNF` builds `wcnfEncode`.
* `cnf_print_parse`, `pb_print_parse` (C18).
-/
namespace GS.Formats
open GS GS.Constr

/-! ## Sequencing -/

@[simp] theorem andThen_ok {α β : Type} (a : α) (f : α → Except String β) : andThen (.ok a) f = f a := rfl
@[simp] theorem andThen_error {α β : Type} (e : String) (f : α → Except String β) :
    andThen (.error e) f = .error e := rfl

theorem andThen_eq_ok {α β : Type} (x : Except String α) (f : α → Except String β) (b : β)
    (h : andThen x f = .ok b) : ∃ a, x = .ok a ∧ f a = .ok b := by
  cases x with
  | error e => simp at h
  | ok a => exact ⟨a, rfl, h⟩

/-! ## A generic reader of clause streams

Both CNF parsers read integers one at a time (`step`) and treat a line of integer fields as
the sequence of its integers. -/

def feedG {σ : Type} (step : σ → Int → Except String σ) (st : σ) : List Int → Except String σ
  | [] => .ok st
  | v :: vs => andThen (step st v) (fun st' => feedG step st' vs)

def linesG {σ : Type} (toks : σ → Line → Except String σ) (st : σ) : List Line → Except String σ
  | [] => .ok st
  | l :: ls => andThen (toks st l) (fun st' => linesG toks st' ls)

theorem feedG_append {σ : Type} (step : σ → Int → Except String σ) :
    ∀ (xs ys : List Int) (st : σ),
      feedG step st (xs ++ ys) = andThen (feedG step st xs) (fun st' => feedG step st' ys) := by
  intro xs
  induction xs with
  | nil => intro ys st; rfl
  | cons x xs ih =>
    intro ys st
    simp only [List.cons_append, feedG]
    cases step st x with
    | error e => rfl
    | ok st' => simp only [andThen_ok]; exact ih ys st'

theorem linesG_append {σ : Type} (toks : σ → Line → Except String σ) :
    ∀ (xs ys : List Line) (st : σ),
      linesG toks st (xs ++ ys) = andThen (linesG toks st xs) (fun st' => linesG toks st' ys) := by
  intro xs
  induction xs with
  | nil => intro ys st; rfl
  | cons x xs ih =>
    intro ys st
    simp only [List.cons_append, linesG]
    cases toks st x with
    | error e => rfl
    | ok st' => simp only [andThen_ok]; exact ih ys st'

/-- Lines of integer fields: only the sequence of integers matters, not the line cuts. -/
theorem linesG_intLines {σ : Type} (toks : σ → Line → Except String σ) (step : σ → Int → Except String σ)
    (h_int : ∀ st is, toks st (intLine is) = feedG step st is) :
    ∀ (A : List (List Int)) (rest : List Line) (st : σ),
      linesG toks st (A.map intLine ++ rest) =
        andThen (feedG step st A.flatten) (fun st' => linesG toks st' rest) := by
  intro A
  induction A with
  | nil => intro rest st; rfl
  | cons x A ih =>
    intro rest st
    simp only [List.map_cons, List.cons_append, linesG, List.flatten_cons, h_int, feedG_append]
    cases feedG step st x with
    | error e => rfl
    | ok st' => simp only [andThen_ok]; exact ih rest st'

theorem linesG_skip {σ α : Type} (toks : σ → Line → Except String σ) (good : σ → Prop) (mk : α → Line)
    (h_skip : ∀ st ts, good st → toks st (mk ts) = .ok st) :
    ∀ (cms : List α) (rest : List Line) (st : σ), good st →
      linesG toks st (cms.map mk ++ rest) = linesG toks st rest := by
  intro cms
  induction cms with
  | nil => intro rest st _; rfl
  | cons c cms ih =>
    intro rest st hg
    simp only [List.map_cons, List.cons_append, linesG, h_skip st c hg, andThen_ok]
    exact ih rest st hg

theorem cutFrom_flatten : ∀ (cuts : List Nat) (opn ts : List Int),
    (cutFrom opn cuts ts).1.flatten ++ (cutFrom opn cuts ts).2 = opn ++ ts := by
  intro cuts
  induction cuts with
  | nil => intro opn ts; simp [cutFrom]
  | cons n ns ih =>
    intro opn ts
    simp only [cutFrom, List.flatten_cons, List.append_assoc]
    rw [ih [] (ts.drop n)]
    simp

/-- **Layout independence.** A reader that (1) treats a line of integers as their sequence,
    (2) skips comment lines in a good state and (3) turns the integers of an acceptable clause
    followed by 0, read from a good state, into `add` (reaching a good state again) reads
    every rendering of acceptable clauses as the clauses, one `add` each. -/
theorem render_generic {σ : Type} (toks : σ → Line → Except String σ) (step : σ → Int → Except String σ)
    (good : σ → Prop) (okc : List Int → Prop) (add : σ → List Int → σ)
    (h_int : ∀ st is, toks st (intLine is) = feedG step st is)
    (h_comment : ∀ st ts, good st → toks st (commentLine ts) = .ok st)
    (h_clause : ∀ st c, good st → okc c → feedG step st (c ++ [0]) = .ok (add st c) ∧ good (add st c)) :
    ∀ (cs : List (List Int)) (ls : List ClauseLayout) (opn : List Int) (st st1 : σ),
      feedG step st opn = .ok st1 → good st1 → (∀ c ∈ cs, okc c) →
      linesG toks st (renderClauses cs ls opn) = .ok (cs.foldl add st1) := by
  intro cs
  induction cs with
  | nil =>
    intro ls opn st st1 hf _ _
    simp only [renderClauses, List.foldl_nil]
    cases opn with
    | nil =>
      simp only [feedG, Except.ok.injEq] at hf
      subst hf
      simp [linesG]
    | cons x xs =>
      simp only [List.isEmpty_cons, Bool.false_eq_true, if_false, linesG, h_int, hf, andThen_ok]
  | cons c cs ih =>
    intro ls opn st st1 hf hg hok
    have hc := h_clause st1 c hg (hok c (by simp))
    have hcs : ∀ c' ∈ cs, okc c' := fun c' h' => hok c' (by simp [h'])
    have hflat := cutFrom_flatten (ls.headD {}).cuts opn (c ++ [0])
    have hall : feedG step st (opn ++ (c ++ [0])) = .ok (add st1 c) := by
      rw [feedG_append, hf, andThen_ok]; exact hc.1
    rw [← hflat, feedG_append] at hall
    obtain ⟨stm, hm1, hm2⟩ := andThen_eq_ok _ _ _ hall
    simp only [renderClauses, List.foldl_cons]
    by_cases hj : (ls.headD {}).join = true
    · rw [if_pos hj, linesG_intLines toks step h_int, hm1, andThen_ok]
      exact ih ls.tail _ stm (add st1 c) hm2 hc.2 hcs
    · rw [if_neg hj, linesG_intLines toks step h_int, hm1, andThen_ok]
      simp only [linesG, h_int, hm2, andThen_ok]
      rw [linesG_skip toks good commentLine h_comment _ _ _ hc.2]
      exact ih ls.tail [] (add st1 c) (add st1 c) rfl hc.2 hcs

/-! ## DIMACS CNF read by `solver.ParseCNF` -/

theorem cnfLines_eq_linesG : ∀ (ls : List Line) (st : CnfState), cnfLines st ls = linesG cnfToks st ls := by
  intro ls
  induction ls with
  | nil => intro st; rfl
  | cons l ls ih =>
    intro st
    simp only [cnfLines, linesG]
    cases cnfToks st l with
    | error e => rfl
    | ok st' => simp only [andThen_ok]; exact ih st'

theorem cnfToks_intLine : ∀ (is : List Int) (st : CnfState), cnfToks st (intLine is) = feedG cnfInt st is := by
  intro is
  induction is with
  | nil => intro st; rfl
  | cons v vs ih =>
    intro st
    simp only [intLine, List.map_cons, cnfToks, feedG]
    cases cnfInt st v with
    | error e => rfl
    | ok st' => simp only [andThen_ok]; exact ih st'

theorem cnfToks_comment (st : CnfState) (ts : List Tok) (h : st.cur = []) :
    cnfToks st (commentLine ts) = .ok st := by
  have : firstChar "c" = some 'c' := by decide
  simp [commentLine, cnfToks, h, this]

/-- The literals of a well-formed clause are appended to the clause under construction. -/
theorem feed_cnf_lits (n : Nat) : ∀ (c : List Int) (st : CnfState), st.nbVars = (n : Int) →
    clauseWf n c = true → feedG cnfInt st c = .ok { st with cur := st.cur ++ c } := by
  intro c
  induction c with
  | nil => intro st _ _; simp [feedG]
  | cons l c ih =>
    intro st hn hwf
    simp only [clauseWf, List.all_cons, Bool.and_eq_true, litOk, bne_iff_ne, ne_eq, decide_eq_true_eq] at hwf
    obtain ⟨⟨hl0, hln⟩, hrest⟩ := hwf
    have h1 : ¬ (l > st.nbVars ∨ -l > st.nbVars) := by rw [hn]; omega
    simp only [feedG, cnfInt, hl0, if_false, h1, andThen_ok]
    have := ih { st with cur := st.cur ++ [l] } hn (by simpa [clauseWf] using hrest)
    rw [this]
    simp

theorem feed_cnf_clause (n : Nat) (c : List Int) (st : CnfState) (hn : st.nbVars = (n : Int))
    (hcur : st.cur = []) (hwf : clauseWf n c = true) :
    feedG cnfInt st (c ++ [0]) = .ok { st with clauses := st.clauses ++ [c] } := by
  rw [feedG_append, feed_cnf_lits n c st hn hwf]
  simp [feedG, cnfInt, hcur]

theorem foldl_addClause : ∀ (cs : List (List Int)) (st : CnfState),
    cs.foldl (fun (s : CnfState) c => { s with clauses := s.clauses ++ [c] }) st =
      { st with clauses := st.clauses ++ cs } := by
  intro cs
  induction cs with
  | nil => intro st; simp
  | cons c cs ih => intro st; simp [ih]

theorem cnfToks_header (st : CnfState) (n m : Nat) (h : st.cur = []) :
    cnfToks st (cnfHeaderLine n m) = .ok { nbVars := n, clauses := [], cur := [] } := by
  have h1 : firstChar "p" = some 'p' := by decide
  have h4 : ¬ ((n : Int) < 0 ∨ (m : Int) < 0) := by omega
  simp [cnfHeaderLine, cnfToks, h, h1, cnfHeader, h4]

/-- The clause lines of a rendering, read from the state reached after the header. -/
theorem cnfLines_renderClauses (n : Nat) (cs : List (List Int)) (ls : List ClauseLayout)
    (st : CnfState) (hn : st.nbVars = (n : Int)) (hcur : st.cur = []) (hwf : cnfWf n cs = true) :
    linesG cnfToks st (renderClauses cs ls []) = .ok { st with clauses := st.clauses ++ cs } := by
  have := render_generic cnfToks cnfInt (fun s => s.cur = [] ∧ s.nbVars = (n : Int))
    (fun c => clauseWf n c = true) (fun s c => { s with clauses := s.clauses ++ [c] })
    (fun st is => cnfToks_intLine is st)
    (fun st ts hg => cnfToks_comment st ts hg.1)
    (fun st c hg hc => ⟨feed_cnf_clause n c st hg.2 hg.1 hc, hg.1, hg.2⟩)
    cs ls [] st st rfl ⟨hcur, hn⟩
    (by intro c hc; unfold cnfWf at hwf; rw [List.all_eq_true] at hwf; exact hwf c hc)
  rw [this, foldl_addClause]

/-- **C13, DIMACS CNF.** `solver.ParseCNF` never fails on a rendering of a well-formed file,
    whatever the layout, and reads exactly its declared variables and its clauses. -/
theorem parseCnf_render (d : Dimacs) (lay : CnfLayout) (hwf : d.wf = true) :
    parseCnfTokens (d.renderLines lay) = .ok (d.nbVars, d.clauses) := by
  unfold parseCnfTokens Dimacs.renderLines
  rw [cnfLines_eq_linesG]
  rw [linesG_skip cnfToks (fun s => s.cur = []) commentLine cnfToks_comment _ _ _ rfl]
  simp only [linesG, cnfToks_header {} _ _ rfl, andThen_ok]
  rw [linesG_skip cnfToks (fun s => s.cur = []) commentLine cnfToks_comment _ _ _ rfl]
  rw [cnfLines_renderClauses d.nbVars d.clauses lay.clauses _ rfl rfl hwf]
  simp [cnfFinish]

/-- Same models as the published semantics of the file. -/
theorem parseCnf_render_sem (d : Dimacs) (lay : CnfLayout) (hwf : d.wf = true) :
    ∃ r, parseCnfTokens (d.renderLines lay) = .ok r ∧ r.1 = d.nbVars ∧ ∀ a, cnfTrue a r.2 = d.sem a :=
  ⟨_, parseCnf_render d lay hwf, rfl, fun _ => rfl⟩

/-- `c hi` / `p cnf 3 4` / `c` / `1` / `` / `-2` / `0 3 0` / `0` / `c 5` / `2 3 -1 0`. -/
example :
    let d : Dimacs := ⟨3, [[1, -2], [3], [], [2, 3, -1]]⟩
    let lay : CnfLayout :=
      { beforeHeader := [[.word "hi"]], afterHeader := [[]],
        clauses := [{ cuts := [1, 0, 1], join := true }, { join := true }, { cuts := [0], comments := [[.int 5]] }] }
    d.wf = true ∧
    d.renderLines lay =
      [[.word "c", .word "hi"], [.word "p", .word "cnf", .int 3, .int 4], [.word "c"], [.int 1], [],
       [.int (-2)], [.int 0, .int 3, .int 0], [.int 0], [.word "c", .int 5],
       [.int 2, .int 3, .int (-1), .int 0]] := by decide

/-! ### Why the hypotheses: a literal beyond the header, a comment line inside a clause -/

example : parseCnfTokens [[.word "p", .word "cnf", .int 1, .int 1], [.int 2, .int 0]] =
    .error "invalid literal" := by rfl
example : parseCnfTokens [[.word "p", .word "cnf", .int 2, .int 1], [.int 1], [.word "c", .word "x"], [.int 2, .int 0]] =
    .error "cannot parse clause: not a digit" := by rfl

/-! ## DIMACS CNF read by `explain.ParseCNF` -/

theorem exLines_eq_linesG : ∀ (ls : List Line) (st : ExState), exLines st ls = linesG exLine st ls := by
  intro ls
  induction ls with
  | nil => intro st; rfl
  | cons l ls ih =>
    intro st
    simp only [exLines, linesG]
    cases exLine st l with
    | error e => rfl
    | ok st' => simp only [andThen_ok]; exact ih st'

/-- One field of `parseClauses`. -/
def exInt (st : ExState) (lit : Int) : Except String ExState :=
  if lit ≠ 0 then .ok { st with cur := st.cur ++ [lit] }
  else andThen (exAddClause st st.cur) (fun st' => .ok { st' with cur := [] })

theorem exFields_intLine : ∀ (is : List Int) (st : ExState), exFields st (intLine is) = feedG exInt st is := by
  intro is
  induction is with
  | nil => intro st; rfl
  | cons v vs ih =>
    intro st
    simp only [intLine, List.map_cons, exFields, feedG, exInt]
    by_cases hv : v ≠ 0
    · rw [if_pos hv, if_pos hv, andThen_ok]; exact ih _
    · rw [if_neg hv, if_neg hv]
      cases exAddClause st st.cur with
      | error e => rfl
      | ok st' => simp only [andThen_ok]; exact ih _

theorem exLine_intLine (is : List Int) (st : ExState) : exLine st (intLine is) = feedG exInt st is := by
  cases is with
  | nil => rfl
  | cons v vs =>
    exact exFields_intLine (v :: vs) st

theorem exLine_comment (st : ExState) (ts : List Tok) : exLine st (commentLine ts) = .ok st := by
  simp [commentLine, exLine]

/-- What `explain.ParseCNF` accepts: non-zero literals, and a unit clause within the header's
    variables (the only place where the header is checked). -/
def exClauseOk (n : Nat) (c : List Int) : Prop :=
  (∀ l ∈ c, l ≠ 0) ∧ (∀ l, c = [l] → l.natAbs ≤ n)

theorem feed_ex_lits : ∀ (c : List Int) (st : ExState), (∀ l ∈ c, l ≠ 0) →
    feedG exInt st c = .ok { st with cur := st.cur ++ c } := by
  intro c
  induction c with
  | nil => intro st _; simp [feedG]
  | cons l c ih =>
    intro st h
    have hl : l ≠ 0 := h l (by simp)
    simp only [feedG, exInt, hl, ne_eq, not_false_eq_true, if_true, andThen_ok]
    rw [ih _ (fun l' h' => h l' (by simp [h']))]
    simp

/-- `addClause` on a clause accepted by the parser. -/
theorem exAddClause_ok (n : Nat) (st : ExState) (c : List Int) (hn : st.nbVars = (n : Int))
    (hsz : st.units.size = n) (hc : exClauseOk n c) :
    exAddClause st c = .ok { st with clauses := st.clauses ++ [c], units := GS.Explain.addUnit st.units c } := by
  unfold exAddClause GS.Explain.addUnit
  match c, hc with
  | [], _ => rfl
  | [l], hc =>
    have hl0 : l ≠ 0 := hc.1 l (by simp)
    have hln : l.natAbs ≤ n := hc.2 l rfl
    have h1 : ¬ ((if l < 0 then -l else l) > st.nbVars) := by rw [hn]; split <;> omega
    have h2 : (if l < 0 then -l else l).toNat - 1 < st.units.size ∧ 0 < (if l < 0 then -l else l) := by
      rw [hsz]; split <;> omega
    simp only [h1, if_false, h2, and_self, if_true]
  | _ :: _ :: _, _ => rfl

theorem feed_ex_clause (n : Nat) (c : List Int) (st : ExState) (hn : st.nbVars = (n : Int))
    (hsz : st.units.size = n) (hcur : st.cur = []) (hc : exClauseOk n c) :
    feedG exInt st (c ++ [0]) =
      .ok { st with clauses := st.clauses ++ [c], units := GS.Explain.addUnit st.units c } := by
  rw [feedG_append, feed_ex_lits c st hc.1]
  have h := exAddClause_ok n { st with cur := st.cur ++ c } c hn hsz hc
  simp only [andThen_ok, feedG, exInt, ne_eq, not_true_eq_false, if_false, hcur, List.nil_append] at h ⊢
  rw [h]
  simp

theorem addUnit_size (u : Array Int) (c : List Int) : (GS.Explain.addUnit u c).size = u.size := by
  unfold GS.Explain.addUnit
  split <;> simp [setLit]

theorem foldl_exAdd : ∀ (cs : List (List Int)) (st : ExState),
    cs.foldl (fun (s : ExState) c =>
        { s with clauses := s.clauses ++ [c], units := GS.Explain.addUnit s.units c }) st =
      { st with clauses := st.clauses ++ cs, units := cs.foldl GS.Explain.addUnit st.units } := by
  intro cs
  induction cs with
  | nil => intro st; simp
  | cons c cs ih => intro st; simp [ih]

theorem exLine_header (st : ExState) (n m : Nat) :
    exLine st (cnfHeaderLine n m) =
      .ok { st with nbVars := n, nbClauses := m, units := Array.replicate n 0, clauses := [] } := by
  have h4 : ¬ ((n : Int) < 0) := by omega
  have h5 : ¬ ((m : Int) < 0) := by omega
  simp [cnfHeaderLine, exLine, exHeader, h4, h5]

/-- **C13, `explain.ParseCNF`.** The streaming parser returns exactly the clause list of a
    rendered file (comment lines may even sit inside a clause for this parser; the renderings
    considered are those of `Dimacs.renderLines`), with `NbClauses` the header's count and
    `units` the array `GS.Explain.mkPb` starts from. -/
theorem explainParse_render (d : Dimacs) (lay : CnfLayout) (hok : ∀ c ∈ d.clauses, exClauseOk d.nbVars c) :
    explainParseTokens (d.renderLines lay) = .ok (d.nbVars, GS.Explain.mkPb d.nbVars d.clauses) := by
  unfold explainParseTokens Dimacs.renderLines
  rw [exLines_eq_linesG]
  rw [linesG_skip exLine (fun _ => True) commentLine (fun st ts _ => exLine_comment st ts) _ _ _ trivial]
  simp only [linesG, exLine_header, andThen_ok]
  rw [linesG_skip exLine (fun _ => True) commentLine (fun st ts _ => exLine_comment st ts) _ _ _ trivial]
  have := render_generic exLine exInt
    (fun s => s.cur = [] ∧ s.nbVars = (d.nbVars : Int) ∧ s.units.size = d.nbVars)
    (exClauseOk d.nbVars)
    (fun s c => { s with clauses := s.clauses ++ [c], units := GS.Explain.addUnit s.units c })
    (fun st is => exLine_intLine is st)
    (fun st ts _ => exLine_comment st ts)
    (fun st c hg hc => ⟨feed_ex_clause d.nbVars c st hg.2.1 hg.2.2 hg.1 hc, hg.1, hg.2.1,
      by simp only [addUnit_size]; exact hg.2.2⟩)
    d.clauses lay.clauses []
    { nbVars := d.nbVars, nbClauses := d.clauses.length, clauses := [], units := Array.replicate d.nbVars 0, cur := [] }
    _ rfl ⟨rfl, rfl, by simp⟩ hok
  rw [this, foldl_exAdd]
  simp [GS.Explain.mkPb, GS.Explain.initUnits]

/-- A well-formed file (`Dimacs.wf`) is accepted by `explain.ParseCNF`. -/
theorem exClauseOk_of_wf (d : Dimacs) (hwf : d.wf = true) : ∀ c ∈ d.clauses, exClauseOk d.nbVars c := by
  intro c hc
  unfold Dimacs.wf cnfWf at hwf
  rw [List.all_eq_true] at hwf
  have h := hwf c hc
  unfold clauseWf at h
  rw [List.all_eq_true] at h
  refine ⟨fun l hl => ?_, fun l hl => ?_⟩
  · have := h l hl; simp [litOk] at this; exact this.1
  · subst hl; have := h l (by simp); simp [litOk] at this; exact this.2

example :
    explainParseTokens [[.word "p", .word "cnf", .int 2, .int 2], [.int 1], [.word "c", .word "x"], [.int 2, .int 0, .int (-1)], [.int 0]] =
      .ok (2, GS.Explain.mkPb 2 [[1, 2], [-1]]) := by rfl

/-! ## OPB: variable names -/

theorem atoiDigits_toDigits (n : Nat) : atoiDigits (Nat.toDigits 10 n) = some n := by
  unfold atoiDigits
  have h1 : (Nat.toDigits 10 n).isEmpty = false := by
    cases h : Nat.toDigits 10 n with
    | nil => exact absurd h Nat.toDigits_ne_nil
    | cons _ _ => rfl
  have h2 : (Nat.toDigits 10 n).all Char.isDigit = true := by
    rw [List.all_eq_true]
    intro c hc
    exact Nat.isDigit_of_mem_toDigits (by decide) (by decide) hc
  simp [h1, h2]

/-- `strconv.Atoi` reads back the decimal digits of a natural number. -/
theorem atoi_toDigits (n : Nat) : atoi (Nat.toDigits 10 n) = some (n : Int) := by
  have hd := atoiDigits_toDigits n
  cases h : Nat.toDigits 10 n with
  | nil => exact absurd h Nat.toDigits_ne_nil
  | cons c ds =>
    have hc : c.isDigit = true :=
      Nat.isDigit_of_mem_toDigits (b := 10) (n := n) (by decide) (by decide) (by rw [h]; simp)
    rw [h] at hd
    have hm : c ≠ '-' := by intro e; subst e; simp at hc
    have hp : c ≠ '+' := by intro e; subst e; simp at hc
    unfold atoi
    split
    · rename_i heq; simp at heq; exact absurd heq.1 hm
    · rename_i heq; simp at heq; exact absurd heq.1 hp
    · simp [hd]

theorem varName_toList (l : Int) :
    (varName l).toList =
      if l < 0 then '~' :: 'x' :: Nat.toDigits 10 l.natAbs else 'x' :: Nat.toDigits 10 l.natAbs := by
  unfold varName
  split <;> simp [String.toList_append]

/-- The name of a literal is recognised as a variable and read back as that literal. -/
theorem varName_spec (l : Int) :
    hasVarPrefix (varName l).toList = true ∧ varLit (varName l).toList = some ((l.natAbs : Int), l) ∧
    ¬ (varName l).toList.length < 2 ∧ firstChar (varName l) ≠ some '*' := by
  rw [firstChar, varName_toList]
  by_cases h : l < 0
  · simp only [h, if_true, hasVarPrefix, varLit, List.drop_succ_cons, List.drop_zero, atoi_toDigits]
    refine ⟨trivial, ?_, by simp, by simp⟩
    simp; omega
  · simp only [h, if_false, hasVarPrefix]
    refine ⟨trivial, ?_, ?_, by simp⟩
    · simp [varLit, atoi_toDigits]; omega
    · have := @Nat.length_toDigits_pos 10 l.natAbs
      simp; omega

/-! ## OPB: `parseTerms` on rendered sums -/

theorem zip_map_fst_snd : ∀ ts : List (Int × Int), (ts.map (·.1)).zip (ts.map (·.2)) = ts := by
  intro ts
  induction ts with
  | nil => rfl
  | cons t ts ih => simp [ih]

/-- `parseTerms` on a rendered sum returns its coefficients and literals (for any position
    `i`, any `len`: these only select between error and panic). -/
theorem opbTerms_render (len : Nat) : ∀ (ts : List (Int × Int)) (os : List Bool) (i : Nat) (nb : Int),
    ∃ nb', opbTerms len i nb (renderTerms ts os) = .ok (ts.map (·.1), ts.map (·.2), nb') := by
  intro ts
  induction ts with
  | nil => intro os i nb; exact ⟨nb, rfl⟩
  | cons t ts ih =>
    intro os i nb
    obtain ⟨hp, hv, hlen, _⟩ := varName_spec t.2
    simp only [renderTerms, renderTerm]
    by_cases hom : (os.headD false && t.1 == 1) = true
    · rw [if_pos hom]
      obtain ⟨nb', h'⟩ := ih os.tail (i + 1) (if (t.2.natAbs : Int) > nb then (t.2.natAbs : Int) else nb)
      refine ⟨nb', ?_⟩
      have h1 : t.1 = 1 := by simp at hom; exact hom.2
      simp only [varTok, List.cons_append, List.nil_append, opbTerms, hp, hv, h', Bool.not_true,
        Bool.false_eq_true, if_false, List.map_cons, h1]
    · rw [if_neg hom]
      obtain ⟨nb', h'⟩ := ih os.tail (i + 2) (if (t.2.natAbs : Int) > nb then (t.2.natAbs : Int) else nb)
      refine ⟨nb', ?_⟩
      simp only [varTok, List.cons_append, List.nil_append, opbTerms, hp, hv, h', Bool.not_true,
        Bool.false_eq_true, if_false, List.map_cons, hlen, decide_false, Bool.or_self]

theorem renderTerms_ne_nil (ts : List (Int × Int)) (os : List Bool) (h : ts ≠ []) : renderTerms ts os ≠ [] := by
  cases ts with
  | nil => exact absurd rfl h
  | cons t ts =>
    simp only [renderTerms, renderTerm]
    split <;> simp

/-- The first field of a rendered sum is not a comment marker. -/
theorem renderTerms_not_star (ts : List (Int × Int)) (os : List Bool) (rest : List Tok) :
    isStarLine (renderTerms ts os ++ Tok.word ">=" :: rest) = false ∧
    isStarLine (renderTerms ts os ++ Tok.word "=" :: rest) = false := by
  cases ts with
  | nil => simp only [renderTerms, List.nil_append, isStarLine]; constructor <;> decide
  | cons t ts =>
    obtain ⟨_, _, _, hs⟩ := varName_spec t.2
    simp only [renderTerms, renderTerm]
    split <;> simp [isStarLine, varTok, hs]

/-! ## OPB: the front-end case analysis keeps the models -/

theorem opbFront_spec (a : Asg) : ∀ (cs : List PBC) (st : OpbState), (∀ c ∈ cs, c.normal = true) →
    (opbFront st cs).frontSem a = (st.frontSem a && cs.all (·.sem a)) ∧
    (opbFront st cs).constrs = st.constrs ∧ (opbFront st cs).obj = st.obj := by
  intro cs
  induction cs with
  | nil => intro st _; simp [opbFront]
  | cons c cs ih =>
    intro st hn
    have hs := frontPB_sound a c (hn c (by simp))
    have hcs : ∀ c' ∈ cs, c'.normal = true := fun c' h' => hn c' (by simp [h'])
    simp only [opbFront, List.all_cons]
    cases hf : frontPB c with
    | dropped =>
      rw [hf] at hs
      simp only at hs ⊢
      obtain ⟨i1, i2, i3⟩ := ih st hcs
      exact ⟨by rw [i1, hs, Bool.true_and], i2, i3⟩
    | unsat =>
      rw [hf] at hs
      simp only at hs ⊢
      simp [OpbState.frontSem, hs]
    | units ls =>
      rw [hf] at hs
      simp only at hs ⊢
      obtain ⟨i1, i2, i3⟩ := ih { st with units := st.units ++ ls } hcs
      refine ⟨?_, i2, i3⟩
      rw [i1]
      have : ls.all (litTrue a) = c.sem a := by
        rw [Bool.eq_iff_iff, hs, List.all_eq_true]
      simp only [OpbState.frontSem, List.all_append, this]
      cases st.unsat <;> cases List.all st.units (litTrue a) <;> cases c.sem a <;>
        cases List.all st.kept (fun x => x.sem a) <;> simp
    | kept =>
      simp only
      obtain ⟨i1, i2, i3⟩ := ih { st with kept := st.kept ++ [c] } hcs
      refine ⟨?_, i2, i3⟩
      rw [i1]
      simp only [OpbState.frontSem, List.all_append, List.all_cons, List.all_nil, Bool.and_true]
      cases st.unsat <;> cases List.all st.units (litTrue a) <;> cases c.sem a <;>
        cases List.all st.kept (fun x => x.sem a) <;> simp

/-! ## OPB: one constraint line -/

/-- The `PBConstr` values `parsePBConstrLine` obtains from `GtEq` / `Eq` for a constraint. -/
def pbcsOf (c : OpbConstr) : List PBC :=
  match c.rel with
  | .ge => ((gtEq (c.terms.map (·.2)) (some (c.terms.map (·.1))) c.rhs).map (fun p => [p])).getD []
  | .eq => (eq (c.terms.map (·.2)) (some (c.terms.map (·.1))) c.rhs).getD []

theorem lhs_eq_wsum (a : Asg) (ts : List (Int × Int)) :
    wsum a (ts.map (·.2)) (ts.map (·.1)) = lhs a ts := by
  unfold wsum; rw [zip_map_fst_snd]

/-- `GtEq` / `Eq` do not panic on a parsed line, and what they return means the constraint. -/
theorem pbcsOf_spec (c : OpbConstr) (hz : ∀ t ∈ c.terms, t.2 ≠ 0) :
    (c.rel = .ge → (gtEq (c.terms.map (·.2)) (some (c.terms.map (·.1))) c.rhs).map (fun p => [p]) = some (pbcsOf c)) ∧
    (c.rel = .eq → eq (c.terms.map (·.2)) (some (c.terms.map (·.1))) c.rhs = some (pbcsOf c)) ∧
    (∀ a, (pbcsOf c).all (·.sem a) = c.sem a) ∧ (∀ p ∈ pbcsOf c, p.normal = true) := by
  have hlen : (c.terms.map (·.2)).length = (c.terms.map (·.1)).length := by simp
  have hz' : ∀ l ∈ c.terms.map (·.2), l ≠ 0 := by
    intro l hl
    simp only [List.mem_map] at hl
    obtain ⟨t, ht, rfl⟩ := hl
    exact hz t ht
  unfold pbcsOf OpbConstr.sem
  cases hrel : c.rel with
  | ge =>
    obtain ⟨p, hp⟩ := gtEq_isSome _ _ c.rhs hlen
    refine ⟨fun _ => ?_, fun h => ?_, fun a => ?_, fun q hq => ?_⟩
    · simp only [hp, Option.map_some, Option.getD_some]
    · cases h
    · simp only [hp, Option.map_some, Option.getD_some]
      have := (gtEq_sem a _ _ c.rhs p hlen hz' hp).1
      rw [lhs_eq_wsum] at this
      simp only [List.all_cons, List.all_nil, Bool.and_true]
      rw [Bool.eq_iff_iff, this]; simp
    · simp only [hp, Option.map_some, Option.getD_some, List.mem_cons, List.not_mem_nil, or_false] at hq
      subst hq
      exact (gtEq_sem (fun _ => false) _ _ c.rhs q hlen hz' hp).2
  | eq =>
    cases he : eq (c.terms.map (·.2)) (some (c.terms.map (·.1))) c.rhs with
    | none => rw [eq_eq_none] at he; simp [slen] at he
    | some ps =>
      refine ⟨fun h => ?_, fun _ => ?_, fun a => ?_, fun q hq => ?_⟩
      · cases h
      · simp only [Option.getD_some]
      · simp only [Option.getD_some]
        have := (eq_sem a _ _ c.rhs ps hlen hz' he).1
        rw [lhs_eq_wsum] at this
        rw [Bool.eq_iff_iff, this]; simp
      · simp only [Option.getD_some] at hq
        exact ((eq_sem (fun _ => false) _ _ c.rhs ps hlen hz' he).2 q hq).1

theorem reverse_concat2 {α : Type} (xs : List α) (a b : α) : (xs ++ [a, b]).reverse = b :: a :: xs.reverse := by
  simp

/-- `parsePBLine` on the fields `f0 … ;` of a line that is neither empty nor a comment. -/
theorem opbLine_fields (st : OpbState) (f0 : Tok) (rest : List Tok)
    (hstar : isStarLine (f0 :: (rest ++ [Tok.word ";"])) = false) :
    opbLine st (f0 :: (rest ++ [Tok.word ";"])) =
      if f0 = Tok.word "min:" then
        match opbTerms rest.length 0 st.nbVars rest with
        | .error e => .error e
        | .ok (ws, ls, nb) => .ok { st with nbVars := nb, obj := some (ws.zip ls) }
      else opbConstrLine st (f0 :: rest) := by
  have hr : (f0 :: (rest ++ [Tok.word ";"])).reverse = Tok.word ";" :: (rest.reverse ++ [f0]) := by simp
  unfold opbLine
  rw [hr]
  simp only [hstar, Bool.false_eq_true, if_false, ne_eq, not_true_eq_false, List.reverse_append,
    List.reverse_cons, List.reverse_nil, List.nil_append, List.reverse_reverse, List.cons_append]
  split <;> rfl

/-- **One constraint line.** -/
theorem opbLine_constr (st : OpbState) (c : OpbConstr) (os : List Bool) (hwf : c.wf = true) :
    ∃ st', opbLine st (c.renderLine os) = .ok st' ∧ st'.constrs = st.constrs ++ pbcsOf c ∧
      st'.obj = st.obj ∧ ∀ a, st'.frontSem a = (st.frontSem a && c.sem a) := by
  simp only [OpbConstr.wf, Bool.and_eq_true, List.all_eq_true, bne_iff_ne, ne_eq, Bool.not_eq_true',
    List.isEmpty_eq_false_iff] at hwf
  obtain ⟨hz, hne⟩ := hwf
  obtain ⟨hmk1, hmk2, hsem, hnorm⟩ := pbcsOf_spec c hz
  have hrne := renderTerms_ne_nil c.terms os hne
  obtain ⟨nb, hterms⟩ := opbTerms_render (renderTerms c.terms os).length c.terms os 0 st.nbVars
  -- shape of the line
  obtain ⟨f0, rest0, hshape⟩ : ∃ f0 rest0, renderTerms c.terms os = f0 :: rest0 := by
    cases h : renderTerms c.terms os with
    | nil => exact absurd h hrne
    | cons x xs => exact ⟨x, xs, rfl⟩
  have hline : c.renderLine os = f0 :: ((rest0 ++ [relTok c.rel, Tok.int c.rhs]) ++ [Tok.word ";"]) := by
    simp [OpbConstr.renderLine, hshape]
  have hstar : isStarLine (f0 :: ((rest0 ++ [relTok c.rel, Tok.int c.rhs]) ++ [Tok.word ";"])) = false := by
    have := renderTerms_not_star c.terms os [Tok.int c.rhs, Tok.word ";"]
    rw [hshape] at this
    cases hrel : c.rel <;> simp [relTok] <;> simp [isStarLine] at this ⊢ <;> first | exact this.1 | exact this.2
  have hmin : f0 ≠ Tok.word "min:" := by
    intro e
    cases hc : c.terms with
    | nil => exact absurd hc hne
    | cons t ts =>
      rw [hc] at hshape
      simp only [renderTerms, renderTerm] at hshape
      obtain ⟨hp, _⟩ := varName_spec t.2
      split at hshape
      · simp only [List.cons_append, List.nil_append, List.cons.injEq] at hshape
        rw [← hshape.1, varTok] at e
        simp only [Tok.word.injEq] at e
        rw [e] at hp
        exact absurd hp (by decide)
      · simp only [List.cons_append, List.cons.injEq] at hshape
        rw [← hshape.1] at e
        cases e
  rw [hline, opbLine_fields st f0 _ hstar, if_neg hmin]
  -- `parsePBConstrLine`
  obtain ⟨x, xs, hx⟩ : ∃ x xs, (renderTerms c.terms os).reverse = x :: xs := by
    cases h : (renderTerms c.terms os).reverse with
    | nil => simp at h; exact absurd h hrne
    | cons x xs => exact ⟨x, xs, rfl⟩
  have hrev : (f0 :: (rest0 ++ [relTok c.rel, Tok.int c.rhs])).reverse =
      Tok.int c.rhs :: relTok c.rel :: x :: xs := by
    rw [← List.cons_append, ← hshape, reverse_concat2, hx]
  have hback : (x :: xs).reverse = renderTerms c.terms os := by rw [← hx, List.reverse_reverse]
  unfold opbConstrLine
  rw [hrev]
  simp only [hback, hterms]
  have hop : (if relTok c.rel = Tok.word ">=" then some Rel.ge
      else if relTok c.rel = Tok.word "=" then some Rel.eq else none) = some c.rel := by
    cases c.rel <;> simp [relTok]
  rw [hop]
  have hgoal : ∀ (r : Rel), c.rel = r →
      (match (match r with
          | .ge => (gtEq (c.terms.map (·.2)) (some (c.terms.map (·.1))) c.rhs).map (fun p => [p])
          | .eq => eq (c.terms.map (·.2)) (some (c.terms.map (·.1))) c.rhs) with
        | none => (Except.error "panic: not as many lits as weights" : Except String OpbState)
        | some cs => .ok (opbFront { st with nbVars := nb, constrs := st.constrs ++ cs } cs)) =
      .ok (opbFront { st with nbVars := nb, constrs := st.constrs ++ pbcsOf c } (pbcsOf c)) := by
    intro r hr
    cases r with
    | ge => simp only [hmk1 hr]
    | eq => simp only [hmk2 hr]
  have hgoal' := hgoal c.rel rfl
  obtain ⟨f1, f2, f3⟩ := opbFront_spec (fun _ => false) (pbcsOf c)
    { st with nbVars := nb, constrs := st.constrs ++ pbcsOf c } hnorm
  refine ⟨_, hgoal', f2, f3, fun a => ?_⟩
  rw [(opbFront_spec a (pbcsOf c) _ hnorm).1, hsem a]
  rfl

/-! ## OPB: whole files -/

theorem opbLines_eq_linesG : ∀ (ls : List Line) (st : OpbState), opbLines st ls = linesG opbLine st ls := by
  intro ls
  induction ls with
  | nil => intro st; rfl
  | cons l ls ih =>
    intro st
    simp only [opbLines, linesG]
    cases opbLine st l with
    | error e => rfl
    | ok st' => simp only [andThen_ok]; exact ih st'

/-- Empty lines and comment lines are skipped. -/
theorem opbLine_skip (st : OpbState) (s : Option (List Tok)) : opbLine st (skipLine s) = .ok st := by
  cases s with
  | none => rfl
  | some ts =>
    have hs : isStarLine (skipLine (some ts)) = true := by simp [skipLine, isStarLine]; decide
    unfold opbLine
    cases h : (skipLine (some ts)).reverse with
    | nil => rfl
    | cons x xs => simp only [hs, if_true]

/-- **The objective line.** -/
theorem opbLine_objective (st : OpbState) (ts : List (Int × Int)) (os : List Bool) :
    ∃ nb, opbLine st (renderObjective ts os) = .ok { st with nbVars := nb, obj := some ts } := by
  obtain ⟨nb, hterms⟩ := opbTerms_render (renderTerms ts os).length ts os 0 st.nbVars
  refine ⟨nb, ?_⟩
  have hstar : isStarLine (Tok.word "min:" :: (renderTerms ts os ++ [Tok.word ";"])) = false := by
    simp only [isStarLine]; decide
  unfold renderObjective
  rw [opbLine_fields st _ _ hstar, if_pos rfl]
  simp only [hterms, zip_map_fst_snd]

theorem opbLines_constrs : ∀ (cs : List OpbConstr) (ls : List OpbLineLayout) (tail : List Line) (st : OpbState),
    (∀ c ∈ cs, c.wf = true) →
    ∃ st', linesG opbLine st (renderConstrs cs ls ++ tail) = linesG opbLine st' tail ∧
      st'.constrs = st.constrs ++ cs.flatMap pbcsOf ∧ st'.obj = st.obj ∧
      ∀ a, st'.frontSem a = (st.frontSem a && cs.all (·.sem a)) := by
  intro cs
  induction cs with
  | nil => intro ls tail st _; exact ⟨st, rfl, by simp, rfl, by simp⟩
  | cons c cs ih =>
    intro ls tail st hwf
    obtain ⟨st1, h1, h2, h3, h4⟩ := opbLine_constr st c (ls.headD {}).omits (hwf c (by simp))
    obtain ⟨st2, g1, g2, g3, g4⟩ := ih ls.tail tail st1 (fun c' h' => hwf c' (by simp [h']))
    refine ⟨st2, ?_, ?_, ?_, fun a => ?_⟩
    · simp only [renderConstrs, List.append_assoc, List.cons_append]
      rw [linesG_skip opbLine (fun _ => True) skipLine (fun st s _ => opbLine_skip st s) _ _ _ trivial]
      simp only [linesG, h1, andThen_ok]
      exact g1
    · rw [g2, h2]; simp
    · rw [g3, h3]
    · rw [g4, h4]; simp [Bool.and_assoc]

theorem all_flatMap_pbcsOf (a : Asg) : ∀ (cs : List OpbConstr), (∀ c ∈ cs, c.wf = true) →
    (cs.flatMap pbcsOf).all (·.sem a) = cs.all (·.sem a) ∧ ∀ p ∈ cs.flatMap pbcsOf, p.normal = true := by
  intro cs
  induction cs with
  | nil => intro _; simp
  | cons c cs ih =>
    intro hwf
    have hc := hwf c (by simp)
    simp only [OpbConstr.wf, Bool.and_eq_true, List.all_eq_true, bne_iff_ne, ne_eq] at hc
    obtain ⟨_, _, hs, hn⟩ := pbcsOf_spec c hc.1
    obtain ⟨i1, i2⟩ := ih (fun c' h' => hwf c' (by simp [h']))
    refine ⟨by simp only [List.flatMap_cons, List.all_append, List.all_cons, hs a, i1], ?_⟩
    intro p hp
    simp only [List.flatMap_cons, List.mem_append] at hp
    rcases hp with hp | hp
    · exact hn p hp
    · exact i2 p hp

/-- **C13, OPB.** `solver.ParseOPB` never fails (error or panic) on a rendering of a
    well-formed OPB file, whatever the layout. The objective it stores is the file's; the
    `PBConstr` values it obtains from `GtEq` / `Eq` are in normal form and have, together, exactly
    the models of the file; so has what its per-constraint case analysis keeps (`units`,
    `pb.Clauses`, `Status`); and the stored objective has the file's value under every assignment. -/
theorem parseOpb_render (o : Opb) (lay : OpbLayout) (hwf : o.wf = true) :
    ∃ r, parseOpbLines (o.renderLines lay) = .ok r ∧
      r.obj = o.objective ∧ r.constrs = o.constrs.flatMap pbcsOf ∧
      (∀ c ∈ r.constrs, c.normal = true) ∧
      (∀ a, r.constrs.all (·.sem a) = o.sem a) ∧
      (∀ a, r.frontSem a = o.sem a) ∧
      (∀ a, cost (r.obj.getD []) a = o.cost a) := by
  have hwf' : ∀ c ∈ o.constrs, c.wf = true := by
    unfold Opb.wf at hwf; rw [List.all_eq_true] at hwf; exact hwf
  -- the objective part
  have hobj : ∃ st0 : OpbState, ∀ tail,
        linesG opbLine {} (renderObjectiveLines o.objective lay.objective ++ tail) = linesG opbLine st0 tail ∧
        st0.obj = o.objective ∧ st0.constrs = [] ∧ ∀ a, st0.frontSem a = true := by
    unfold renderObjectiveLines
    cases o.objective with
    | none =>
      refine ⟨{}, fun tail => ⟨?_, rfl, rfl, fun a => rfl⟩⟩
      simp only [List.append_nil]
      rw [linesG_skip opbLine (fun _ => True) skipLine (fun st s _ => opbLine_skip st s) _ _ _ trivial]
    | some ts =>
      obtain ⟨nb, hnb⟩ := opbLine_objective {} ts lay.objective.omits
      refine ⟨{ ({} : OpbState) with nbVars := nb, obj := some ts }, fun tail => ⟨?_, rfl, rfl, fun a => rfl⟩⟩
      simp only [List.append_assoc]
      rw [linesG_skip opbLine (fun _ => True) skipLine (fun st s _ => opbLine_skip st s) _ _ _ trivial]
      simp only [List.cons_append, List.nil_append, linesG, hnb, andThen_ok]
  obtain ⟨st0, h0⟩ := hobj
  obtain ⟨st1, h1, h2, h3, h4⟩ := opbLines_constrs o.constrs lay.constrs (lay.trailing.map skipLine) st0 hwf'
  obtain ⟨e0, e1, e2, e3⟩ := h0 (renderConstrs o.constrs lay.constrs ++ lay.trailing.map skipLine)
  have hfin : linesG opbLine st1 (lay.trailing.map skipLine) = .ok st1 := by
    have := linesG_skip opbLine (fun _ => True) skipLine (fun st s _ => opbLine_skip st s)
      lay.trailing [] st1 trivial
    simpa [linesG] using this
  have hall := fun a => all_flatMap_pbcsOf a o.constrs hwf'
  refine ⟨st1, ?_, by rw [h3, e1], by rw [h2, e2]; simp, ?_, ?_, ?_, ?_⟩
  · unfold parseOpbLines Opb.renderLines
    rw [opbLines_eq_linesG, e0, h1, hfin]
  · intro c hc
    rw [h2, e2] at hc
    exact (hall (fun _ => false)).2 c (by simpa using hc)
  · intro a
    rw [h2, e2]
    simpa [Opb.sem] using (hall a).1
  · intro a; rw [h4, e3]; simp [Opb.sem]
  · intro a
    rw [h3, e1]
    unfold Opb.cost cost
    cases o.objective <;> simp [lhs]

/-- `min: 3 x1 -2 ~x2 x3 ;` / `x1 1 x2 -3 ~x3 >= 1 ;` / `1 x1 2 x2 = 2 ;` with comment and empty lines. -/
example :
    let o : Opb := ⟨some [(3, 1), (-2, -2), (1, 3)], [⟨[(1, 1), (1, 2), (-3, -3)], .ge, 1⟩, ⟨[(1, 1), (2, 2)], .eq, 2⟩]⟩
    let lay : OpbLayout :=
      { objective := { skips := [none, some [.word "x"]], omits := [false, false, true] },
        constrs := [{ omits := [true, false] }], trailing := [none] }
    o.wf = true ∧
    o.renderLines lay =
      [[], [.word "*", .word "x"],
       [.word "min:", .int 3, .word "x1", .int (-2), .word "~x2", .word "x3", .word ";"],
       [.word "x1", .int 1, .word "x2", .int (-3), .word "~x3", .word ">=", .int 1, .word ";"],
       [.int 1, .word "x1", .int 2, .word "x2", .word "=", .int 2, .word ";"], []] := by
  refine ⟨by decide, by rfl⟩

/-! ### Why the hypothesis: a constraint without terms is a syntax error for `ParseOPB`
(the OPB grammar requires at least one term); ill-formed lines can make it panic. -/

example : parseOpbLines [[.word ">=", .int 0, .word ";"]] = .error "invalid syntax" := by rfl
example : parseOpbLines [[.int 3, .word ">=", .int 2, .word ";"]] = .error "panic: index out of range" := by rfl
example : parseOpbLines [[.word "min:", .int 3, .word ";"]] = .error "panic: index out of range" := by rfl
example : parseOpbLines [[.int 1, .word "x1", .word "foo", .word ">=", .int 1, .word ";"]] =
    .error "panic: index out of range" := by rfl

/-! ## WCNF read by `maxsat.ParseWCNF` -/

open GS.MaxSatEnc in
theorem wcnfLine_skip (st : WcnfState) (s : Option (List Tok)) : wcnfLine st (wcnfSkipLine s) = .ok st := by
  cases s with
  | none => rfl
  | some ts =>
    have h2 : firstChar "c" = some 'c' := by decide
    simp [wcnfSkipLine, commentLine, wcnfLine, h2]

theorem wcnfLines_eq_linesG : ∀ (ls : List Line) (st : WcnfState), wcnfLines st ls = linesG wcnfLine st ls := by
  intro ls
  induction ls with
  | nil => intro st; rfl
  | cons l ls ih =>
    intro st
    simp only [wcnfLines, linesG]
    cases wcnfLine st l with
    | error e => rfl
    | ok st' => simp only [andThen_ok]; exact ih st'

theorem allInts_intLine : ∀ is : List Int, allInts (intLine is) = some is := by
  intro is
  induction is with
  | nil => rfl
  | cons i is ih =>
    have : allInts (Tok.int i :: intLine is) = some (i :: is) := by simp [allInts, ih]
    exact this

/-- One clause line: `parseWCNFClause` and the bookkeeping of `ParseWCNF`. -/
theorem wcnfLine_clause (st : WcnfState) (w : Int) (c : List Int) :
    wcnfLine st (wcnfClauseLine (w, c)) =
      if st.top = 0 ∨ w < st.top then
        .ok { st with clauses := st.clauses ++ [c ++ [st.relaxLit]], weights := st.weights ++ [w],
                      relaxLit := st.relaxLit + 1 }
      else .ok { st with clauses := st.clauses ++ [c] } := by
  have h : wcnfLine st (Tok.int w :: intLine (c ++ [0])) =
      if st.top = 0 ∨ w < st.top then
        .ok { st with clauses := st.clauses ++ [c ++ [st.relaxLit]], weights := st.weights ++ [w],
                      relaxLit := st.relaxLit + 1 }
      else .ok { st with clauses := st.clauses ++ [c] } := by
    simp [wcnfLine, allInts_intLine]
  exact h

/-- The clause lines, read from a state whose relax literal is `k`, are the loop `wcnfGo`. -/
theorem wcnfLines_clauses (top : Int) : ∀ (cls : List (Int × List Int)) (skips : List (List (Option (List Tok))))
    (k : Nat) (st : WcnfState), st.top = top → st.relaxLit = (k : Int) →
    linesG wcnfLine st (wcnfRenderClauses cls skips) =
      .ok { st with clauses := st.clauses ++ (GS.MaxSatEnc.wcnfGo top k cls).1,
                    weights := st.weights ++ (GS.MaxSatEnc.wcnfGo top k cls).2.1,
                    relaxLit := ((GS.MaxSatEnc.wcnfGo top k cls).2.2 : Nat) } := by
  intro cls
  induction cls with
  | nil =>
    intro skips k st _ hk
    simp only [wcnfRenderClauses, linesG, GS.MaxSatEnc.wcnfGo, List.append_nil]
    rw [← hk]
  | cons wc cls ih =>
    intro skips k st ht hk
    obtain ⟨w, c⟩ := wc
    simp only [wcnfRenderClauses]
    rw [linesG_skip wcnfLine (fun _ => True) wcnfSkipLine (fun st s _ => wcnfLine_skip st s) _ _ _ trivial]
    simp only [linesG, wcnfLine_clause, ht]
    by_cases hsoft : top = 0 ∨ w < top
    · simp only [hsoft, if_true, andThen_ok, GS.MaxSatEnc.wcnfGo]
      rw [ih skips.tail (k + 1) _ (by rfl) (by simp only [hk]; omega)]
      simp [hk]
    · simp only [hsoft, if_false, andThen_ok, GS.MaxSatEnc.wcnfGo]
      rw [ih skips.tail k _ (by rfl) (by simp only [hk])]
      simp

theorem wcnfLine_header (w : Wcnf) :
    wcnfLine {} (wcnfHeaderLine w) =
      .ok { nbVars := w.nbVars, top := w.topVal, clauses := [], weights := [], relaxLit := (w.nbVars : Int) + 1 } := by
  have h1 : firstChar "p" = some 'p' := by decide
  have h2 : ¬ ((w.clauses.length : Int) < 0) := by omega
  cases ht : w.top with
  | none => simp [wcnfHeaderLine, wcnfLine, h1, h2, ht, Wcnf.topVal]
  | some t => simp [wcnfHeaderLine, wcnfLine, h1, h2, ht, Wcnf.topVal]

/-- **C13, WCNF.** `maxsat.ParseWCNF` never fails on a rendered WCNF file (header, one clause per
    line: weight, literals, 0; comment and empty lines anywhere) and hands to the optimiser
    exactly `wcnfEncode` of the `(weight, clause)` list: the clauses with their relax literals,
    the cost terms, `relaxLit - 1` variables and `firstRelax = nbVars`. -/
theorem parseWcnf_render (w : Wcnf) (before : List (Option (List Tok))) (skips : List (List (Option (List Tok)))) :
    parseWcnfLines (wcnfRenderLines w before skips) =
      .ok (GS.MaxSatEnc.wcnfEncode w.nbVars w.topVal w.clauses) := by
  unfold parseWcnfLines wcnfRenderLines
  rw [wcnfLines_eq_linesG]
  rw [linesG_skip wcnfLine (fun _ => True) wcnfSkipLine (fun st s _ => wcnfLine_skip st s) _ _ _ trivial]
  simp only [linesG, wcnfLine_header, andThen_ok]
  rw [wcnfLines_clauses w.topVal w.clauses skips (w.nbVars + 1) _ rfl (by simp)]
  have hw := GS.MaxSatEnc.wcnfGo_weights w.topVal w.clauses (w.nbVars + 1)
  have hlen : (GS.MaxSatEnc.wcnfGo w.topVal (w.nbVars + 1) w.clauses).2.2 =
      w.nbVars + 1 + (GS.MaxSatEnc.wcnfGo w.topVal (w.nbVars + 1) w.clauses).2.1.length := by
    rw [hw.2, hw.1]; simp
  have hcond : ¬ (((GS.MaxSatEnc.wcnfGo w.topVal (w.nbVars + 1) w.clauses).2.2 : Int) - (w.nbVars : Int) - 1 ≠
      (((GS.MaxSatEnc.wcnfGo w.topVal (w.nbVars + 1) w.clauses).2.1.length : Nat) : Int)) := by
    rw [hlen]; simp; omega
  simp only [List.nil_append, hcond, if_false, GS.MaxSatEnc.wcnfEncode, Int.toNat_natCast]
  have h1 : (((GS.MaxSatEnc.wcnfGo w.topVal (w.nbVars + 1) w.clauses).2.2 : Int) - 1).toNat =
      (GS.MaxSatEnc.wcnfGo w.topVal (w.nbVars + 1) w.clauses).2.2 - 1 := by omega
  rw [h1]

/-- `wcnf_answer` (C04) for rendered files: an optimum of what `ParseWCNF` built from the text,
    cut at `firstRelax`, is a MaxSAT optimum of the instance the text denotes. -/
theorem wcnf_answer_rendered (w : Wcnf) (before : List (Option (List Tok)))
    (skips : List (List (Option (List Tok)))) (m : List Bool)
    (hwf : GS.MaxSatEnc.wcnfWf w.nbVars w.clauses = true)
    (hwt : GS.MaxSatEnc.weightsNonneg (GS.MaxSatEnc.wcnfSoft w.topVal w.clauses) = true)
    (hlen : w.nbVars ≤ m.length) :
    ∃ out, parseWcnfLines (wcnfRenderLines w before skips) = .ok out ∧
      (IsOptimum (Problem.ofCnf out.clauses) out.costFn (asgOf m) →
        (m.take out.firstRelax).length = w.nbVars ∧
        IsMaxSatOpt (Problem.ofCnf (GS.MaxSatEnc.wcnfHard w.topVal w.clauses))
          (GS.MaxSatEnc.wcnfSoft w.topVal w.clauses) (asgOf (m.take out.firstRelax)) ∧
        cost out.costFn (asgOf m) =
          violated (asgOf (m.take out.firstRelax)) (GS.MaxSatEnc.wcnfSoft w.topVal w.clauses)) :=
  ⟨_, parseWcnf_render w before skips, fun hopt =>
    GS.MaxSatEnc.wcnf_answer w.nbVars w.topVal w.clauses m hwf hwt hlen hopt⟩

/-- `c` / `p wcnf 3 4 10` / `` / `10 1 2 0` / `3 -1 0` / `10 -2 3 0` / `2 -3 0`. -/
example :
    let w : Wcnf := ⟨3, some 10, [(10, [1, 2]), (3, [-1]), (10, [-2, 3]), (2, [-3])]⟩
    wcnfRenderLines w [some []] [[none]] =
      [[.word "c"], [.word "p", .word "wcnf", .int 3, .int 4, .int 10], [],
       [.int 10, .int 1, .int 2, .int 0], [.int 3, .int (-1), .int 0], [.int 10, .int (-2), .int 3, .int 0],
       [.int 2, .int (-3), .int 0]] ∧
    GS.MaxSatEnc.wcnfWf w.nbVars w.clauses = true ∧
    GS.MaxSatEnc.weightsNonneg (GS.MaxSatEnc.wcnfSoft w.topVal w.clauses) = true := by
  refine ⟨by rfl, by decide, by decide⟩

/-- A clause line without any literal field makes `parseWCNFClause` panic; so does a file
    without a header line. -/
example : parseWcnfLines [[.word "p", .word "wcnf", .int 2, .int 1, .int 10], [.int 3]] =
    .error "panic: index out of range [-1]" := by rfl

/-! ## C18 — printed problems read back -/

theorem renderClauses_default : ∀ cs : List (List Int), renderClauses cs [] [] = cs.map clauseLine := by
  intro cs
  induction cs with
  | nil => rfl
  | cons c cs ih => simp [renderClauses, cutFrom, clauseLine, ih]

/-- `Problem.CNF()` is the default rendering of the file whose clauses are the units, as unit
    clauses, followed by the clauses. -/
theorem printCnf_eq_render (n : Nat) (us : List Int) (cs : List (List Int)) :
    printCnf n us cs = (Dimacs.mk n (us.map (fun u => [u]) ++ cs)).renderLines {} := by
  simp only [printCnf, Dimacs.renderLines, List.map_nil, List.nil_append, renderClauses_default,
    List.map_append, List.map_map, List.length_append, List.length_map]
  rw [Nat.add_comm]
  rfl

/-- **C18, DIMACS.** What `Problem.CNF()` prints is read back by `solver.ParseCNF` as the same
    number of variables and the same clause list (units as unit clauses, then the clauses). -/
theorem cnf_print_parse (n : Nat) (us : List Int) (cs : List (List Int))
    (hu : ∀ u ∈ us, litOk n u = true) (hc : cnfWf n cs = true) :
    parseCnfTokens (printCnf n us cs) = .ok (n, us.map (fun u => [u]) ++ cs) := by
  rw [printCnf_eq_render]
  apply parseCnf_render
  simp only [Dimacs.wf, cnfWf, List.all_append, Bool.and_eq_true, List.all_map]
  refine ⟨?_, hc⟩
  rw [List.all_eq_true]
  intro u hu'
  simp [clauseWf, hu u hu']

example : printCnf 3 [1, -2] [[1, 2, 3]] =
    [[.word "p", .word "cnf", .int 3, .int 3], [.int 1, .int 0], [.int (-2), .int 0],
     [.int 1, .int 2, .int 3, .int 0]] ∧
    (∀ u ∈ [(1 : Int), -2], litOk 3 u = true) ∧ cnfWf 3 [[1, 2, 3]] = true := by
  refine ⟨by rfl, by decide, by decide⟩

/-- A printed unit, as an OPB constraint. -/
def unitC (u : Int) : OpbConstr := ⟨[(1, u)], .eq, 1⟩

/-- A printed clause, as an OPB constraint. -/
def clauseC (c : PBC) : OpbConstr := ⟨c.terms, .ge, c.atLeast⟩

theorem renderTerms_default : ∀ ts : List (Int × Int),
    renderTerms ts [] = ts.flatMap (fun t => [Tok.int t.1, varTok t.2]) := by
  intro ts
  induction ts with
  | nil => rfl
  | cons t ts ih => simp [renderTerms, renderTerm, ih]

theorem pbTermsRest_eq : ∀ ts : List (Int × Int), (∀ t ∈ ts, 0 ≤ t.1) →
    pbTermsRest ts = renderTerms ts [] := by
  intro ts
  induction ts with
  | nil => intro _; rfl
  | cons t ts ih =>
    intro h
    have h0 : 0 ≤ t.1 := h t (by simp)
    simp [pbTermsRest, plusTok, h0, renderTerms, renderTerm, ih (fun t' h' => h t' (by simp [h']))]

theorem pbTermsToks_eq (ts : List (Int × Int)) (h : ∀ t ∈ ts.tail, 0 ≤ t.1) :
    pbTermsToks ts = renderTerms ts [] := by
  cases ts with
  | nil => rfl
  | cons t ts => simp [pbTermsToks, renderTerms, renderTerm, pbTermsRest_eq ts h]

theorem renderConstrs_default : ∀ cs : List OpbConstr, renderConstrs cs [] = cs.map (fun c => c.renderLine []) := by
  intro cs
  induction cs with
  | nil => rfl
  | cons c cs ih => simp [renderConstrs, ih]

/-- `Problem.PBString()` is the default rendering of an OPB file. -/
theorem printPB_eq_render (obj : Option (List (Int × Int))) (units : List Int) (clauses : List PBC)
    (hc : ∀ c ∈ clauses, ∀ t ∈ c.terms.tail, 0 ≤ t.1) :
    printPB obj units clauses = (Opb.mk obj (units.map unitC ++ clauses.map clauseC)).renderLines {} := by
  have h1 : clauses.map pbClauseLine = clauses.map (fun c => (clauseC c).renderLine []) := by
    apply List.map_congr_left
    intro c hcm
    simp [pbClauseLine, clauseC, OpbConstr.renderLine, relTok, pbTermsToks_eq c.terms (hc c hcm)]
  have h2 : units.map pbUnitLine = units.map (fun u => (unitC u).renderLine []) := by
    apply List.map_congr_left
    intro u _
    simp [pbUnitLine, unitC, OpbConstr.renderLine, relTok, renderTerms, renderTerm]
  simp only [printPB, Opb.renderLines, renderObjectiveLines, renderConstrs_default, List.map_nil,
    List.nil_append, List.append_nil, List.map_append, List.map_map, h1, h2]
  cases obj with
  | none => rfl
  | some ts => simp [costLine, renderObjective, renderTerms_default]; rfl

theorem unitC_sem (a : Asg) (u : Int) : (unitC u).sem a = litTrue a u := by
  simp only [unitC, OpbConstr.sem, lhs, termVal]
  cases litTrue a u <;> simp

/-- **C18, OPB.** What `Problem.PBString()` prints (cost function line, one line per unit, one
    line per clause) is read back by `solver.ParseOPB` without error as: the same cost terms,
    constraints with exactly the models "every unit true and every clause satisfied" (also after
    the per-constraint case analysis), hence the same cost under every assignment. -/
theorem pb_print_parse (obj : Option (List (Int × Int))) (units : List Int) (clauses : List PBC)
    (hu : ∀ u ∈ units, u ≠ 0)
    (hc : ∀ c ∈ clauses, c.terms ≠ [] ∧ (∀ t ∈ c.terms, t.2 ≠ 0) ∧ (∀ t ∈ c.terms.tail, 0 ≤ t.1)) :
    ∃ r, parseOpbLines (printPB obj units clauses) = .ok r ∧ r.obj = obj ∧
      (∀ p ∈ r.constrs, p.normal = true) ∧
      (∀ a, r.constrs.all (·.sem a) = (units.all (litTrue a) && clauses.all (·.sem a))) ∧
      (∀ a, r.frontSem a = (units.all (litTrue a) && clauses.all (·.sem a))) ∧
      (∀ a, cost (r.obj.getD []) a = cost (obj.getD []) a) := by
  rw [printPB_eq_render obj units clauses (fun c h => (hc c h).2.2)]
  have hwf : (Opb.mk obj (units.map unitC ++ clauses.map clauseC)).wf = true := by
    simp only [Opb.wf, List.all_append, List.all_map, Bool.and_eq_true, List.all_eq_true]
    refine ⟨fun u hu' => ?_, fun c hc' => ?_⟩
    · simp [OpbConstr.wf, unitC, hu u hu']
    · obtain ⟨h1, h2, _⟩ := hc c hc'
      simp only [Function.comp, OpbConstr.wf, clauseC, Bool.and_eq_true, List.all_eq_true, bne_iff_ne, ne_eq,
        Bool.not_eq_true', List.isEmpty_eq_false_iff]
      exact ⟨h2, h1⟩
  obtain ⟨r, h1, h2, _, h4, h5, h6, _⟩ := parseOpb_render _ {} hwf
  have hsem : ∀ a, (Opb.mk obj (units.map unitC ++ clauses.map clauseC)).sem a =
      (units.all (litTrue a) && clauses.all (·.sem a)) := by
    intro a
    simp only [Opb.sem, List.all_append, List.all_map, Function.comp_def, unitC_sem]
    rfl
  refine ⟨r, h1, h2, h4, fun a => by rw [h5, hsem], fun a => by rw [h6, hsem], fun a => by rw [h2]⟩

/-- `min: 3 x1 -2 ~x2 +0 x3 ;` / `1 x1 = 1 ;` / `1 ~x2 = 1 ;` / `4 x3 +3 x2 +2 x1 >= 5 ;` / `1 x1 +1 ~x2 >= 1 ;` -/
example :
    let obj := some (costTerms [1, -2, 3] (some [3, -2, 0]))
    let clauses : List PBC := [⟨[3, 2, 1], some [4, 3, 2], 5⟩, ⟨[1, -2], none, 1⟩]
    printPB obj [1, -2] clauses =
      [[.word "min:", .int 3, .word "x1", .int (-2), .word "~x2", .int 0, .word "x3", .word ";"],
       [.int 1, .word "x1", .word "=", .int 1, .word ";"], [.int 1, .word "~x2", .word "=", .int 1, .word ";"],
       [.int 4, .word "x3", .int 3, .word "x2", .int 2, .word "x1", .word ">=", .int 5, .word ";"],
       [.int 1, .word "x1", .int 1, .word "~x2", .word ">=", .int 1, .word ";"]] ∧
    (∀ c ∈ clauses, c.terms ≠ [] ∧ (∀ t ∈ c.terms, t.2 ≠ 0) ∧ (∀ t ∈ c.terms.tail, 0 ≤ t.1)) := by
  refine ⟨by rfl, by decide⟩

/-! ### Why the hypotheses: the empty clause is printed as ` >= 1 ;`, which `ParseOPB` rejects;
a negative weight after the first term is printed as `+-2`, on which `parseTerms` panics. -/

example : parseOpbLines (printPB none [] [⟨[], none, 1⟩]) = .error "invalid syntax" := by rfl
example : parseOpbLines (printPB none [] [⟨[1, 2], some [1, -2], 1⟩]) = .error "panic: index out of range" := by rfl

end GS.Formats

#print axioms GS.Formats.parseCnf_render
#print axioms GS.Formats.parseCnf_render_sem
#print axioms GS.Formats.explainParse_render
#print axioms GS.Formats.parseOpb_render
#print axioms GS.Formats.parseWcnf_render
#print axioms GS.Formats.wcnf_answer_rendered
#print axioms GS.Formats.cnf_print_parse
#print axioms GS.Formats.pb_print_parse
