import GS.Model.Explain
/-!
# C08 — the certificate checker of package `explain` (mirror `GS.Model.Explain`)

Proved for all inputs (no size bound), about the line-by-line mirror of `explain/check.go`,
`explain/problem.go` and the `units` initialisation of `explain/parser.go`:

* `units_entailed` — the initial `units` hold 0/±1 and bind a variable only to a value that is
  a unit clause of the problem; every assignment satisfying the unit clauses agrees with them.
* `checker_sound`, `checker_sound_unsat`, `checkChan_sound` (`C08_checker_sound` for a parsed
  problem) — every line of an accepted certificate is a consequence of the problem; an
  accepted certificate with the empty clause refutes it.
* `checker_restores`, `checker_rerun` (`C08_checker_restores`) — clause list, `NbClauses` and
  `units` are the initial ones after a run, and a second run answers as on a fresh problem.
* `tagged_unsat`, `tagged_unsat_chan` (`C08_tagged_unsat`) — the tagged original clauses are a
  sub-list of the input and unsatisfiable after an accepted certificate with the empty clause.
* `propagate_fuel_suffices` — the fuel `NbVars + 2` of the fix-point never runs out.
* `checkChan_eq` — `UnsatChan` = `Unsat` on the certificate cut after its first empty clause.
* `scanGo_eq_scan` — the (repaired) literal scan of `(*Problem).unsat` is `GS.scan`.
* `checker_complete_up_statement` (a `Prop`; proved in `GS/Props/C08_Complete.lean`) with the witness
  `complete_needs_no_compl`; `repeat_now_accepted`, `repeat_line_now_accepted`,
  `repeat_unit_now_accepted`, `repeat_subset_now_accepted` (inputs with repeated literals that the code before the repair of the
  scan rejected: the former witnesses `complete_needs_no_repeat`, `complete_needs_no_repeat_line`).

Hypotheses (`Pb.Ok`, established by `mkPb_ok` for parsed problems): `NbClauses = len(Clauses)`
(ParseCNF trusts the header: with `p cnf 2 3` followed by 2 clauses the learned clauses stay in
the problem after `Unsat`; with `p cnf 2 1` followed by 2 clauses `initTagged` panics),
literals non-zero and within `1..NbVars` (otherwise the Go code panics on `units[v-1]`).
-/
namespace GS.Explain
open GS

/-! ## 1. the Go clause scan versus `GS.scan` -/

/-- From the states the Go loop can be in (`unbound` is 0 or 1 while it runs) the Go scan *is*
    `GS.scan`: the first unbound literal is remembered, a repetition of it is skipped, any other
    unbound literal ends the scan with `.many`.  (Before the repair of `problem.go` a repetition
    of the first unbound literal also ended the scan.) -/
theorem scanGo_eq_scan (u : Array Int) : ∀ (c : List Int) (n : Nat) (ul : Int), n ≤ 1 →
    scanGo u c n ul = scan u c n ul := by
  intro c
  induction c with
  | nil => intro n ul _; cases n <;> simp [scan, scanGo]
  | cons x xs ih =>
    intro n ul hn
    unfold scanGo scan
    simp only
    by_cases hb : bind u x.natAbs = 0
    · simp only [hb, if_true]
      by_cases h0 : n = 0
      · subst h0
        simp only [Nat.zero_ne_one, false_and, if_false, if_true]
        exact ih 1 x (Nat.le_refl 1)
      · have h1 : n = 1 := by omega
        subst h1
        by_cases he : x = ul
        · simp only [he, and_self, if_true, Nat.one_ne_zero, if_false]
          exact ih 1 ul (Nat.le_refl 1)
        · simp [he]
    · simp only [hb, if_false]
      by_cases hs : bind u x.natAbs * x = (x.natAbs : Int)
      · simp [hs]
      · simp only [hs, if_false]
        exact ih n ul hn

/-- Whenever the Go scan does not give up at a second unbound literal, `GS.scan` returns the
    same answer (from any counter value); so the soundness lemmas of `GS.Check.Rup` apply to it. -/
theorem scanGo_scan (u : Array Int) : ∀ (c : List Int) (n : Nat) (ul : Int),
    scanGo u c n ul ≠ .many → scan u c n ul = scanGo u c n ul := by
  intro c
  induction c with
  | nil => intro n ul _; cases n <;> simp [scan, scanGo]
  | cons x xs ih =>
    intro n ul h
    unfold scanGo at h ⊢
    unfold scan
    simp only at h ⊢
    by_cases hb : bind u x.natAbs = 0
    · simp only [hb, if_true] at h ⊢
      by_cases hn : n = 0
      · subst hn
        simp only [Nat.zero_ne_one, false_and, if_false, if_true] at h ⊢
        exact ih 1 x h
      · simp only [hn, if_false] at h ⊢
        by_cases he : n = 1 ∧ x = ul
        · simp only [he, and_self, if_true] at h ⊢
          exact ih 1 ul h
        · simp [he] at h
    · simp only [hb, if_false] at h ⊢
      by_cases hs : bind u x.natAbs * x = (x.natAbs : Int)
      · simp [hs]
      · simp only [hs, if_false] at h ⊢
        exact ih n ul h

theorem scanGo_zero (u : Array Int) (a : Asg) (hwf : WF u) (h : Agrees u a)
    (c : List Int) (ul : Int) (hnz : ∀ l ∈ c, l ≠ 0) :
    (scanGo u c 0 ul = .conflict → clauseTrue a c = false) ∧
    (∀ l, scanGo u c 0 ul = .unit l →
      l ≠ 0 ∧ bind u l.natAbs = 0 ∧ (clauseTrue a c = true → litTrue a l = true)) := by
  have hz := scan_zero u a hwf h c ul hnz
  constructor
  · intro hc
    apply hz.1
    rw [scanGo_scan u c 0 ul (by rw [hc]; simp), hc]
  · intro l hl
    apply hz.2
    rw [scanGo_scan u c 0 ul (by rw [hl]; simp), hl]

/-! ## 2. tags only grow -/

/-- every tag set in `tg` is set in `tg'` -/
def TagLe (tg tg' : List Bool) : Prop := ∀ k : Nat, tg[k]? = some true → tg'[k]? = some true

theorem TagLe.refl (tg : List Bool) : TagLe tg tg := fun _ h => h
theorem TagLe.trans {a b c : List Bool} (h1 : TagLe a b) (h2 : TagLe b c) : TagLe a c :=
  fun k h => h2 k (h1 k h)

theorem tag_len (nbC i : Nat) (tg : List Bool) : (tag nbC i tg).length = tg.length := by
  unfold tag; split <;> simp

theorem tag_le (nbC i : Nat) (tg : List Bool) : TagLe tg (tag nbC i tg) := by
  intro k h
  unfold tag
  split
  · rw [List.getElem?_set]
    split
    · rename_i hik
      subst hik
      have : i < tg.length := by
        rcases Nat.lt_or_ge i tg.length with h' | h'
        · exact h'
        · rw [List.getElem?_eq_none h'] at h; cases h
      simp [this]
    · exact h
  · exact h

theorem tag_self (nbC i : Nat) (tg : List Bool) (h1 : i < nbC) (h2 : i < tg.length) :
    (tag nbC i tg)[i]? = some true := by
  unfold tag
  simp [h1, h2]

theorem pass_len (nbC : Nat) : ∀ (cs : List (List Int)) (i : Nat) (u : Array Int) (d : Array Bool)
    (tg : List Bool) (m : Bool), (pass nbC cs i u d tg m).tagged.length = tg.length := by
  intro cs
  induction cs with
  | nil => intros; rfl
  | cons c cs ih =>
    intro i u d tg m
    unfold pass
    split
    · exact ih _ _ _ _ _
    · split
      · exact ih _ _ _ _ _
      · simp [tag_len]
      · rw [ih, tag_len]
      · exact ih _ _ _ _ _

theorem pass_le (nbC : Nat) : ∀ (cs : List (List Int)) (i : Nat) (u : Array Int) (d : Array Bool)
    (tg : List Bool) (m : Bool), TagLe tg (pass nbC cs i u d tg m).tagged := by
  intro cs
  induction cs with
  | nil => intro i u d tg m; exact TagLe.refl tg
  | cons c cs ih =>
    intro i u d tg m
    unfold pass
    split
    · exact ih _ _ _ _ _
    · split
      · exact ih _ _ _ _ _
      · exact tag_le nbC i tg
      · exact TagLe.trans (tag_le nbC i tg) (ih _ _ _ _ _)
      · exact ih _ _ _ _ _

theorem loop_len (nbC : Nat) (cs : List (List Int)) : ∀ (fuel : Nat) (u : Array Int) (d : Array Bool)
    (tg : List Bool), (loop nbC cs fuel u d tg).2.2.1.length = tg.length := by
  intro fuel
  induction fuel with
  | zero => intros; rfl
  | succ n ih =>
    intro u d tg
    unfold loop
    simp only
    split
    · exact pass_len ..
    · split
      · rw [ih, pass_len]
      · exact pass_len ..

theorem loop_le (nbC : Nat) (cs : List (List Int)) : ∀ (fuel : Nat) (u : Array Int) (d : Array Bool)
    (tg : List Bool), TagLe tg (loop nbC cs fuel u d tg).2.2.1 := by
  intro fuel
  induction fuel with
  | zero => intro u d tg; exact TagLe.refl tg
  | succ n ih =>
    intro u d tg
    unfold loop
    simp only
    split
    · exact pass_le _ _ _ _ _ _ _
    · split
      · exact TagLe.trans (pass_le _ _ _ _ _ _ _) (ih _ _ _)
      · exact pass_le _ _ _ _ _ _ _

/-! ## 3. soundness of one propagation, relative to the clauses it uses

`Good a nbC tg i cs`: the assignment `a` satisfies those clauses of `cs` (numbered from `i`)
that are learned (index `≥ nbC`) or original and tagged in `tg`.  The propagation only ever
*uses* (for a binding or for the conflict) clauses that are learned or that it tags; hence,
for an `a` that is `Good` for the tags at the end, bindings stay in agreement with `a` and no
conflict is found. -/

def Good (a : Asg) (nbC : Nat) (tg : List Bool) (i : Nat) (cs : List (List Int)) : Prop :=
  ∀ (j : Nat) (c : List Int), cs[j]? = some c → (nbC ≤ i + j ∨ tg[i + j]? = some true) →
    clauseTrue a c = true

theorem Good.tail {a : Asg} {nbC : Nat} {tg : List Bool} {i : Nat} {c : List Int}
    {cs : List (List Int)} (h : Good a nbC tg i (c :: cs)) : Good a nbC tg (i+1) cs := by
  intro j c' hj hor
  apply h (j+1) c' (by simpa using hj)
  have : i + (j + 1) = i + 1 + j := by omega
  rw [this]; exact hor

theorem Good.anti {a : Asg} {nbC : Nat} {tg tg' : List Bool} {i : Nat} {cs : List (List Int)}
    (h : Good a nbC tg' i cs) (hle : TagLe tg tg') : Good a nbC tg i cs := by
  intro j c hj hor
  apply h j c hj
  rcases hor with h1 | h1
  · exact Or.inl h1
  · exact Or.inr (hle _ h1)

theorem pass_sound (a : Asg) (nbC : Nat) : ∀ (cs : List (List Int)) (i : Nat) (u : Array Int)
    (d : Array Bool) (tg : List Bool) (m : Bool),
    tg.length = nbC → WF u → Agrees u a → (∀ c ∈ cs, ∀ l ∈ c, l ≠ 0) →
    Good a nbC (pass nbC cs i u d tg m).tagged i cs →
    (pass nbC cs i u d tg m).conflict = false ∧ WF (pass nbC cs i u d tg m).units ∧
      Agrees (pass nbC cs i u d tg m).units a := by
  intro cs
  induction cs with
  | nil => intro i u d tg m _ hwf hag _ _; exact ⟨rfl, hwf, hag⟩
  | cons c cs ih =>
    intro i u d tg m hlen hwf hag hnz
    have hnzc : ∀ l ∈ c, l ≠ 0 := hnz c (by simp)
    have hnzcs : ∀ c' ∈ cs, ∀ l ∈ c', l ≠ 0 := fun c' hc' => hnz c' (by simp [hc'])
    have hz := scanGo_zero u a hwf hag c 0 hnzc
    unfold pass
    split
    · intro hg; exact ih _ _ _ _ _ hlen hwf hag hnzcs hg.tail
    · split
      · intro hg; exact ih _ _ _ _ _ hlen hwf hag hnzcs hg.tail
      · rename_i hs
        intro hg
        exfalso
        have hf := hz.1 hs
        have ht : clauseTrue a c = true := by
          apply hg 0 c (by simp)
          rcases Nat.lt_or_ge i nbC with h' | h'
          · exact Or.inr (tag_self nbC i tg h' (by omega))
          · exact Or.inl (by omega)
        rw [hf] at ht; cases ht
      · rename_i l hs
        intro hg
        have hu := hz.2 l hs
        have ht : clauseTrue a c = true := by
          apply hg 0 c (by simp)
          rcases Nat.lt_or_ge i nbC with h' | h'
          · exact Or.inr (pass_le _ _ _ _ _ _ _ _ (tag_self nbC i tg h' (by omega)))
          · exact Or.inl (by omega)
        exact ih _ _ _ _ _ (by rw [tag_len]; exact hlen) (wf_setLit u l hu.1 hwf)
          (agrees_setLit u a l hu.1 hag (hu.2.2 ht)) hnzcs hg.tail
      · intro hg; exact ih _ _ _ _ _ hlen hwf hag hnzcs hg.tail

theorem loop_sound (a : Asg) (nbC : Nat) (cs : List (List Int)) (hnz : ∀ c ∈ cs, ∀ l ∈ c, l ≠ 0) :
    ∀ (fuel : Nat) (u : Array Int) (d : Array Bool) (tg : List Bool),
    tg.length = nbC → WF u → Agrees u a →
    Good a nbC (loop nbC cs fuel u d tg).2.2.1 0 cs → (loop nbC cs fuel u d tg).1 = false := by
  intro fuel
  induction fuel with
  | zero => intros; rfl
  | succ n ih =>
    intro u d tg hlen hwf hag
    unfold loop
    simp only
    split
    · rename_i hc
      intro hg
      have := (pass_sound a nbC cs 0 u d tg false hlen hwf hag hnz hg).1
      rw [this] at hc; cases hc
    · split
      · intro hg
        have hp := pass_sound a nbC cs 0 u d tg false hlen hwf hag hnz
          (hg.anti (loop_le _ _ _ _ _ _))
        exact ih _ _ _ (by rw [pass_len]; exact hlen) hp.2.1 hp.2.2 hg
      · intros; rfl

/-! ## 4. one certificate line -/

theorem installNeg_agrees (a : Asg) : ∀ (c : List Int) (u : Array Int), WF u → Agrees u a →
    clauseTrue a c = false → (∀ l ∈ c, l ≠ 0) → WF (installNeg u c) ∧ Agrees (installNeg u c) a := by
  intro c
  induction c with
  | nil => intro u hwf hag _ _; exact ⟨hwf, hag⟩
  | cons l c ih =>
    intro u hwf hag hf hnz
    have hl : l ≠ 0 := hnz l (by simp)
    simp only [clauseTrue, List.any_cons, Bool.or_eq_false_iff] at hf
    have hnl : -l ≠ 0 := by omega
    have ht : litTrue a (-l) = true := by rw [litTrue_neg a l hl, hf.1]; rfl
    exact ih (setLit u (-l)) (wf_setLit u (-l) hnl hwf) (agrees_setLit u a (-l) hnl hag ht)
      (by unfold clauseTrue; exact hf.2) (fun x hx => hnz x (by simp [hx]))

theorem checkLine_units (pb : Pb) (c : List Int) : (checkLine pb c).2.units = pb.units := rfl
theorem checkLine_clauses (pb : Pb) (c : List Int) : (checkLine pb c).2.clauses = pb.clauses := rfl
theorem checkLine_nb (pb : Pb) (c : List Int) : (checkLine pb c).2.nbClauses = pb.nbClauses := rfl

theorem checkLine_len (pb : Pb) (c : List Int) :
    (checkLine pb c).2.tagged.length = pb.tagged.length := by
  unfold checkLine propagate
  exact loop_len ..

theorem checkLine_le (pb : Pb) (c : List Int) : TagLe pb.tagged (checkLine pb c).2.tagged := by
  unfold checkLine propagate
  exact loop_le _ _ _ _ _ _

/-- An accepted line is true in every assignment that agrees with `units`, satisfies the learned
    clauses and satisfies the original clauses tagged after the check. -/
theorem checkLine_sound (a : Asg) (pb : Pb) (c : List Int)
    (hlen : pb.tagged.length = pb.nbClauses) (hwf : WF pb.units) (hag : Agrees pb.units a)
    (hnz : ∀ c' ∈ pb.clauses, ∀ l ∈ c', l ≠ 0) (hnzc : ∀ l ∈ c, l ≠ 0)
    (hg : Good a pb.nbClauses (checkLine pb c).2.tagged 0 pb.clauses)
    (hacc : (checkLine pb c).1 = true) : clauseTrue a c = true := by
  cases hct : clauseTrue a c with
  | true => rfl
  | false =>
    exfalso
    have hi := installNeg_agrees a c pb.units hwf hag hct hnzc
    have := loop_sound a pb.nbClauses pb.clauses hnz (pb.units.size + 2) (installNeg pb.units c)
      (Array.replicate pb.clauses.length false) pb.tagged hlen hi.1 hi.2
    unfold checkLine propagate at hg hacc
    simp only at hg hacc
    have hsz : (installNeg pb.units c).size = pb.units.size := by
      clear hg hacc this hi hct hnzc hag hwf
      generalize pb.units = u
      induction c generalizing u with
      | nil => rfl
      | cons l c ih => unfold installNeg; rw [ih]; simp [setLit]
    rw [hsz] at hg hacc
    rw [this hg] at hacc
    cases hacc

/-! ## 5. the two certificate loops -/

/-- all literals non-zero -/
def Nz (cs : List (List Int)) : Prop := ∀ c ∈ cs, ∀ l ∈ c, l ≠ 0

theorem nz_of_cnfWf (n : Nat) (cs : List (List Int)) (h : cnfWf n cs = true) : Nz cs := by
  intro c hc l hl
  unfold cnfWf at h
  rw [List.all_eq_true] at h
  have := h c hc
  unfold clauseWf at this
  rw [List.all_eq_true] at this
  have := this l hl
  unfold litOk at this
  simp at this
  exact this.1

/-- the problem handed to the next line after `c` was accepted -/
def learn (pb : Pb) (c : List Int) : Pb :=
  { (checkLine pb c).2 with clauses := (checkLine pb c).2.clauses ++ [c] }

theorem allLoop_acc (pb : Pb) (c : List Int) (rest : List (List Int)) (i : Nat)
    (h : (checkLine pb c).1 = true) : allLoop pb (c :: rest) i = allLoop (learn pb c) rest (i+1) := by
  simp [allLoop, h, learn]

theorem allLoop_rej (pb : Pb) (c : List Int) (rest : List (List Int)) (i : Nat)
    (h : (checkLine pb c).1 = false) : allLoop pb (c :: rest) i = ⟨false, i, (checkLine pb c).2⟩ := by
  simp [allLoop, h]

theorem chanLoop_acc (pb : Pb) (c : List Int) (rest : List (List Int)) (i : Nat)
    (h : (checkLine pb c).1 = true) (hne : c.isEmpty = false) :
    chanLoop pb (c :: rest) i = chanLoop (learn pb c) rest (i+1) := by
  simp [chanLoop, h, learn, hne]

theorem chanLoop_stop (pb : Pb) (c : List Int) (rest : List (List Int)) (i : Nat)
    (h : (checkLine pb c).1 = true) (hne : c.isEmpty = true) :
    chanLoop pb (c :: rest) i = ⟨true, i, (checkLine pb c).2⟩ := by
  simp [chanLoop, h, hne]

theorem chanLoop_rej (pb : Pb) (c : List Int) (rest : List (List Int)) (i : Nat)
    (h : (checkLine pb c).1 = false) : chanLoop pb (c :: rest) i = ⟨false, i, (checkLine pb c).2⟩ := by
  simp [chanLoop, h]

/-- facts preserved by the loop of `Unsat`: `units`, `NbClauses`, the length of `tagged`, tags
    only grow, clauses are only appended -/
theorem allLoop_frame : ∀ (lines : List (List Int)) (pb : Pb) (i : Nat),
    (allLoop pb lines i).pb.units = pb.units ∧ (allLoop pb lines i).pb.nbClauses = pb.nbClauses ∧
    (allLoop pb lines i).pb.tagged.length = pb.tagged.length ∧
    TagLe pb.tagged (allLoop pb lines i).pb.tagged ∧
    ∃ ex, (allLoop pb lines i).pb.clauses = pb.clauses ++ ex := by
  intro lines
  induction lines with
  | nil => intro pb i; exact ⟨rfl, rfl, rfl, TagLe.refl _, [], by simp [allLoop]⟩
  | cons c rest ih =>
    intro pb i
    cases h : (checkLine pb c).1 with
    | false =>
      rw [allLoop_rej pb c rest i h]
      exact ⟨rfl, rfl, checkLine_len pb c, checkLine_le pb c, [], by simp [checkLine_clauses]⟩
    | true =>
      rw [allLoop_acc pb c rest i h]
      obtain ⟨h1, h2, h3, h4, ex, h5⟩ := ih (learn pb c) (i+1)
      refine ⟨h1, h2, ?_, ?_, c :: ex, ?_⟩
      · rw [h3]; exact checkLine_len pb c
      · exact TagLe.trans (checkLine_le pb c) h4
      · rw [h5]; simp [learn, checkLine_clauses]

theorem chanLoop_frame : ∀ (lines : List (List Int)) (pb : Pb) (i : Nat),
    (chanLoop pb lines i).pb.units = pb.units ∧ (chanLoop pb lines i).pb.nbClauses = pb.nbClauses ∧
    ∃ ex, (chanLoop pb lines i).pb.clauses = pb.clauses ++ ex := by
  intro lines
  induction lines with
  | nil => intro pb i; exact ⟨rfl, rfl, [], by simp [chanLoop]⟩
  | cons c rest ih =>
    intro pb i
    cases h : (checkLine pb c).1 with
    | false =>
      rw [chanLoop_rej pb c rest i h]
      exact ⟨rfl, rfl, [], by simp [checkLine_clauses]⟩
    | true =>
      cases hne : c.isEmpty with
      | true =>
        rw [chanLoop_stop pb c rest i h hne]
        exact ⟨rfl, rfl, [], by simp [checkLine_clauses]⟩
      | false =>
        rw [chanLoop_acc pb c rest i h hne]
        obtain ⟨h1, h2, ex, h5⟩ := ih (learn pb c) (i+1)
        refine ⟨h1, h2, c :: ex, ?_⟩
        rw [h5]; simp [learn, checkLine_clauses]

theorem cutAtEmpty_cons (c : List Int) (rest : List (List Int)) :
    cutAtEmpty (c :: rest) = if c.isEmpty then [c] else c :: cutAtEmpty rest := by
  rw [cutAtEmpty]

/-- `UnsatChan` on a certificate = `Unsat` on the certificate cut after its first empty clause
    (same verdict, same tags). -/
theorem chanLoop_eq_allLoop : ∀ (lines : List (List Int)) (pb : Pb) (i : Nat),
    (chanLoop pb lines i).valid = (allLoop pb (cutAtEmpty lines) i).valid ∧
    (chanLoop pb lines i).pb.tagged = (allLoop pb (cutAtEmpty lines) i).pb.tagged := by
  intro lines
  induction lines with
  | nil => intro pb i; exact ⟨rfl, rfl⟩
  | cons c rest ih =>
    intro pb i
    cases h : (checkLine pb c).1 with
    | false =>
      have : cutAtEmpty (c :: rest) = c :: (if c.isEmpty then [] else cutAtEmpty rest) := by
        rw [cutAtEmpty_cons]; split <;> rfl
      rw [chanLoop_rej pb c rest i h, this, allLoop_rej pb c _ i h]
      exact ⟨rfl, rfl⟩
    | true =>
      cases hne : c.isEmpty with
      | true =>
        have : cutAtEmpty (c :: rest) = [c] := by rw [cutAtEmpty_cons]; simp [hne]
        rw [chanLoop_stop pb c rest i h hne, this, allLoop_acc pb c [] i h]
        exact ⟨rfl, rfl⟩
      | false =>
        have : cutAtEmpty (c :: rest) = c :: cutAtEmpty rest := by rw [cutAtEmpty_cons]; simp [hne]
        rw [chanLoop_acc pb c rest i h hne, this, allLoop_acc pb c _ i h]
        exact ih (learn pb c) (i+1)

/-- Core invariant.  Let `a` agree with `units`, satisfy the clauses learned so far and satisfy
    the original clauses that carry a tag *at the end of the run*.  Then `a` satisfies every
    line of an accepted certificate. -/
theorem allLoop_sound (a : Asg) : ∀ (lines : List (List Int)) (pb : Pb) (i : Nat),
    pb.tagged.length = pb.nbClauses → pb.nbClauses ≤ pb.clauses.length →
    WF pb.units → Agrees pb.units a → Nz pb.clauses → Nz lines →
    (allLoop pb lines i).valid = true →
    Good a pb.nbClauses (allLoop pb lines i).pb.tagged 0 pb.clauses →
    ∀ c ∈ lines, clauseTrue a c = true := by
  intro lines
  induction lines with
  | nil => intro pb i _ _ _ _ _ _ _ _ c hc; cases hc
  | cons c rest ih =>
    intro pb i hlen hnb hwf hag hnz hnzl
    have hnzc : ∀ l ∈ c, l ≠ 0 := hnzl c (by simp)
    have hnzr : Nz rest := fun c' hc' => hnzl c' (by simp [hc'])
    cases h : (checkLine pb c).1 with
    | false => rw [allLoop_rej pb c rest i h]; intro hv; cases hv
    | true =>
      rw [allLoop_acc pb c rest i h]
      intro hv hg
      have hfr := allLoop_frame rest (learn pb c) (i+1)
      have hc : clauseTrue a c = true :=
        checkLine_sound a pb c hlen hwf hag hnz hnzc (hg.anti hfr.2.2.2.1) h
      have hg' : Good a (learn pb c).nbClauses (allLoop (learn pb c) rest (i+1)).pb.tagged 0
          (learn pb c).clauses := by
        intro j c' hj hor
        have hcl : (learn pb c).clauses = pb.clauses ++ [c] := rfl
        rw [hcl] at hj
        rcases Nat.lt_or_ge j pb.clauses.length with hlt | hge
        · rw [List.getElem?_append_left hlt] at hj
          exact hg j c' hj hor
        · rw [List.getElem?_append_right hge] at hj
          have : j - pb.clauses.length = 0 := by
            rcases Nat.eq_zero_or_pos (j - pb.clauses.length) with h0 | h0
            · exact h0
            · rw [List.getElem?_eq_none (by simp; omega)] at hj; cases hj
          rw [this] at hj
          simp at hj
          rw [← hj]; exact hc
      have hrest := ih (learn pb c) (i+1) (by
          show (checkLine pb c).2.tagged.length = pb.nbClauses
          rw [checkLine_len]; exact hlen)
        (by show pb.nbClauses ≤ (pb.clauses ++ [c]).length; simp; omega)
        hwf hag
        (by
          intro c' hc'
          have : c' ∈ pb.clauses ++ [c] := hc'
          rw [List.mem_append] at this
          rcases this with h' | h'
          · exact hnz c' h'
          · simp at h'; rw [h']; exact hnzc)
        hnzr hv hg'
      intro x hx
      simp at hx
      rcases hx with rfl | hx
      · exact hc
      · exact hrest x hx

/-! ## 6. `units` as the parser initialises it -/

/-- the bindings in `u` are 0/±1 and each non-zero one is forced by a unit clause of `cs` -/
def UnitsFrom (cs : List (List Int)) (u : Array Int) : Prop :=
  WF u ∧ ∀ v, 0 < v → (bind u v = 1 → [(v : Int)] ∈ cs) ∧ (bind u v = -1 → [-(v : Int)] ∈ cs)

theorem addUnit_from (cs : List (List Int)) (u : Array Int) (c : List Int) (hc : c ∈ cs)
    (hnz : ∀ l ∈ c, l ≠ 0) (h : UnitsFrom cs u) : UnitsFrom cs (addUnit u c) := by
  unfold addUnit
  split
  · rename_i l
    have hl : l ≠ 0 := hnz l (by simp)
    refine ⟨wf_setLit u l hl h.1, ?_⟩
    intro v hv
    rcases bind_setLit u l hl v hv with hb | ⟨hvl, hb⟩
    · rw [hb]; exact h.2 v hv
    · rw [hb]
      by_cases hp : l > 0
      · simp only [hp, if_true]
        refine ⟨fun _ => ?_, fun h' => by omega⟩
        have : (v : Int) = l := by omega
        rw [this]; exact hc
      · simp only [hp, if_false]
        refine ⟨fun h' => by omega, fun _ => ?_⟩
        have : -(v : Int) = l := by omega
        rw [this]; exact hc
  · exact h

theorem foldl_addUnit_from (all : List (List Int)) (hnz : Nz all) :
    ∀ (cs : List (List Int)) (u : Array Int), (∀ c ∈ cs, c ∈ all) → UnitsFrom all u →
      UnitsFrom all (cs.foldl addUnit u) := by
  intro cs
  induction cs with
  | nil => intro u _ h; exact h
  | cons c cs ih =>
    intro u hsub h
    simp only [List.foldl_cons]
    exact ih _ (fun c' hc' => hsub c' (by simp [hc']))
      (addUnit_from all u c (hsub c (by simp)) (hnz c (hsub c (by simp))) h)

/-- **units_entailed (syntactic form)**: `units` as `ParseCNF` computes it holds only 0/±1 and
    binds a variable only to a value that is a unit clause of the problem. -/
theorem initUnits_from (n : Nat) (cs : List (List Int)) (hnz : Nz cs) : UnitsFrom cs (initUnits n cs) := by
  unfold initUnits
  apply foldl_addUnit_from cs hnz cs _ (fun c hc => hc)
  refine ⟨wf_empty n, ?_⟩
  intro v _
  have : bind (Array.replicate n 0) v = 0 := by
    have := wf_empty n
    unfold bind
    simp [Array.getElem?_replicate]
    split <;> rfl
  rw [this]
  exact ⟨fun h => by omega, fun h => by omega⟩

theorem agrees_of_unitsFrom (cs : List (List Int)) (u : Array Int) (h : UnitsFrom cs u) (a : Asg)
    (ha : ∀ c ∈ cs, c.length = 1 → clauseTrue a c = true) : Agrees u a := by
  intro v hv
  constructor
  · intro hb
    have := ha _ ((h.2 v hv).1 hb) rfl
    simp only [clauseTrue, litTrue, List.any_cons, List.any_nil, Bool.or_false] at this
    have hp : (v : Int) > 0 := by omega
    rw [if_pos hp] at this
    simpa using this
  · intro hb
    have := ha _ ((h.2 v hv).2 hb) rfl
    simp only [clauseTrue, litTrue, List.any_cons, List.any_nil, Bool.or_false] at this
    have hp : ¬ (-(v : Int) > 0) := by omega
    rw [if_neg hp] at this
    simpa using this

/-- **units_entailed**: every assignment that satisfies the unit clauses of the problem (in
    particular every model of the problem) agrees with the initial `units`; a problem with two
    contradictory unit clauses has no model, so the statement is then vacuous. -/
theorem units_entailed (n : Nat) (cs : List (List Int)) (hnz : Nz cs) :
    UnitsFrom cs (initUnits n cs) ∧
    (∀ a, (∀ c ∈ cs, c.length = 1 → clauseTrue a c = true) → Agrees (initUnits n cs) a) ∧
    (∀ a, cnfTrue a cs = true → Agrees (initUnits n cs) a) := by
  have h := initUnits_from n cs hnz
  refine ⟨h, fun a ha => agrees_of_unitsFrom cs _ h a ha, fun a ha => ?_⟩
  apply agrees_of_unitsFrom cs _ h a
  intro c hc _
  unfold cnfTrue at ha
  rw [List.all_eq_true] at ha
  exact ha c hc

example : initUnits 3 [[1, 2], [-2], [3], [-3]] = #[0, -1, -1] := by decide

/-! ## 7. tags and the extracted subset -/

theorem initTagged_len (pb : Pb) : (initTagged pb).tagged.length = pb.nbClauses := by
  simp [initTagged]

theorem initTagged_unit (pb : Pb) (i : Nat) (c : List Int) (hi : i < pb.nbClauses)
    (hc : pb.clauses[i]? = some c) (h1 : c.length = 1) : (initTagged pb).tagged[i]? = some true := by
  simp [initTagged, List.getElem?_map, List.getElem?_range, hi, hc, h1]

/-- `a` satisfies the original clauses whose tag is set -/
def TaggedTrue (a : Asg) (cs : List (List Int)) (tg : List Bool) : Prop :=
  ∀ (i : Nat) (c : List Int), cs[i]? = some c → tg[i]? = some true → clauseTrue a c = true

theorem taggedTrue_of_subset (a : Asg) : ∀ (cs : List (List Int)) (tg : List Bool),
    cnfTrue a (subsetOf cs tg) = true → TaggedTrue a cs tg := by
  intro cs
  induction cs with
  | nil => intro tg _ i c hc; simp at hc
  | cons x xs ih =>
    intro tg h i c hc ht
    cases tg with
    | nil => simp at ht
    | cons t ts =>
      cases i with
      | zero =>
        simp at hc ht
        subst hc; subst ht
        simp [subsetOf, cnfTrue] at h
        exact h.1
      | succ k =>
        simp at hc ht
        apply ih ts _ k c hc ht
        cases t with
        | true => simp [subsetOf, cnfTrue] at h ⊢; exact h.2
        | false => simpa [subsetOf] using h

theorem subsetOf_sublist : ∀ (cs : List (List Int)) (tg : List Bool), (subsetOf cs tg).Sublist cs := by
  intro cs
  induction cs with
  | nil => intro tg; simp [subsetOf]
  | cons x xs ih =>
    intro tg
    cases tg with
    | nil => simp [subsetOf]
    | cons t ts =>
      cases t with
      | true => simp [subsetOf]; exact ih ts
      | false => simp [subsetOf]; exact (ih ts).cons x

theorem good_of_taggedTrue (a : Asg) (cs : List (List Int)) (tg : List Bool) (h : TaggedTrue a cs tg) :
    Good a cs.length tg 0 cs := by
  intro j c hj hor
  have hlt : j < cs.length := by
    rcases Nat.lt_or_ge j cs.length with h' | h'
    · exact h'
    · rw [List.getElem?_eq_none h'] at hj; cases hj
  rcases hor with h1 | h1
  · omega
  · rw [Nat.zero_add] at h1; exact h j c hj h1

/-! ## 8. main theorems -/

/-- Hypotheses on a problem between two calls: `NbClauses = len(Clauses)`, literals non-zero
    and within `1..NbVars` (`NbVars = units.size`; the Go code indexes `units[v-1]` unchecked,
    the proofs below only use "non-zero"), `units` produced from the unit clauses. -/
structure Pb.Ok (pb : Pb) : Prop where
  nb : pb.nbClauses = pb.clauses.length
  wf : cnfWf pb.units.size pb.clauses = true
  units : UnitsFrom pb.clauses pb.units

theorem mkPb_ok (n : Nat) (cs : List (List Int)) (h : cnfWf n cs = true) : (mkPb n cs).Ok := by
  have hsz : ∀ (cs' : List (List Int)) (u : Array Int), (cs'.foldl addUnit u).size = u.size := by
    intro cs'
    induction cs' with
    | nil => intro u; rfl
    | cons c cs' ih =>
      intro u
      simp only [List.foldl_cons]; rw [ih]
      unfold addUnit; split <;> simp [setLit]
  refine ⟨rfl, ?_, initUnits_from n cs (nz_of_cnfWf n cs h)⟩
  show cnfWf (initUnits n cs).size cs = true
  unfold initUnits; rw [hsz]; simpa using h

/-- generic form of soundness: an assignment satisfying the tagged original clauses satisfies
    every line of an accepted certificate -/
theorem runAll_sound (pb : Pb) (hok : pb.Ok) (lines : List (List Int)) (hl : Nz lines)
    (h : checkAll pb lines = true) (a : Asg)
    (ha : TaggedTrue a pb.clauses (runAll pb lines).pb.tagged) : ∀ c ∈ lines, clauseTrue a c = true := by
  have hnz := nz_of_cnfWf _ _ hok.wf
  have hfr := allLoop_frame lines (initTagged pb) 0
  have hlen : (initTagged pb).tagged.length = (initTagged pb).nbClauses := initTagged_len pb
  -- every unit clause is tagged at the end, hence true under `a`
  have hag : Agrees pb.units a := by
    apply agrees_of_unitsFrom pb.clauses pb.units hok.units a
    intro c hc h1
    obtain ⟨i, hi, hci⟩ := List.getElem_of_mem hc
    have hci' : pb.clauses[i]? = some c := by rw [List.getElem?_eq_getElem hi, hci]
    apply ha i c hci'
    exact hfr.2.2.2.1 i (initTagged_unit pb i c (by rw [hok.nb]; exact hi) hci' h1)
  have hg := good_of_taggedTrue a pb.clauses _ ha
  rw [← hok.nb] at hg
  exact allLoop_sound a lines (initTagged pb) 0 hlen (by show pb.nbClauses ≤ pb.clauses.length; rw [hok.nb]; exact Nat.le_refl _)
    hok.units.1 hag hnz hl h hg

/-- **checker_sound**: every line of a certificate accepted by `Unsat` is a logical
    consequence of the problem. -/
theorem checker_sound (pb : Pb) (hok : pb.Ok) (lines : List (List Int))
    (hl : cnfWf pb.units.size lines = true) (h : checkAll pb lines = true) :
    ∀ c ∈ lines, CnfEntails pb.clauses c := by
  intro c hc a ha
  apply runAll_sound pb hok lines (nz_of_cnfWf _ _ hl) h a _ c hc
  intro i c' hc' _
  unfold cnfTrue at ha
  rw [List.all_eq_true] at ha
  exact ha c' (List.mem_of_getElem? hc')

/-- … consequently an accepted certificate containing the empty clause refutes the problem. -/
theorem checker_sound_unsat (pb : Pb) (hok : pb.Ok) (lines : List (List Int))
    (hl : cnfWf pb.units.size lines = true) (h : checkAll pb lines = true) (he : [] ∈ lines) :
    ¬ CnfSat pb.clauses := by
  rintro ⟨a, ha⟩
  have := checker_sound pb hok lines hl h [] he a ha
  simp [clauseTrue] at this

theorem checkChan_eq (pb : Pb) (lines : List (List Int)) :
    checkChan pb lines = checkAll pb (cutAtEmpty lines) ∧
    (runChan pb lines).pb.tagged = (runAll pb (cutAtEmpty lines)).pb.tagged :=
  chanLoop_eq_allLoop lines (initTagged pb) 0

theorem cutAtEmpty_sub : ∀ (lines : List (List Int)), ∀ c ∈ cutAtEmpty lines, c ∈ lines := by
  intro lines
  induction lines with
  | nil => intro c hc; simp [cutAtEmpty] at hc
  | cons x xs ih =>
    intro c hc
    rw [cutAtEmpty_cons] at hc
    split at hc
    · simp at hc; simp [hc]
    · simp at hc
      rcases hc with rfl | hc
      · simp
      · simp [ih c hc]

theorem cutAtEmpty_empty : ∀ (lines : List (List Int)), [] ∈ lines → [] ∈ cutAtEmpty lines := by
  intro lines
  induction lines with
  | nil => intro h; cases h
  | cons x xs ih =>
    intro h
    rw [cutAtEmpty_cons]
    cases x with
    | nil => simp
    | cons y ys =>
      simp at h
      simp [ih h]

/-- **checker_sound, channel entry point**: the lines read by `UnsatChan` (up to and including
    the first empty clause) are consequences; with an empty clause the problem is unsatisfiable. -/
theorem checkChan_sound (pb : Pb) (hok : pb.Ok) (lines : List (List Int))
    (hl : cnfWf pb.units.size lines = true) (h : checkChan pb lines = true) :
    (∀ c ∈ cutAtEmpty lines, CnfEntails pb.clauses c) ∧ ([] ∈ lines → ¬ CnfSat pb.clauses) := by
  rw [(checkChan_eq pb lines).1] at h
  have hl' : cnfWf pb.units.size (cutAtEmpty lines) = true := by
    unfold cnfWf at hl ⊢
    rw [List.all_eq_true] at hl ⊢
    exact fun c hc => hl c (cutAtEmpty_sub lines c hc)
  exact ⟨checker_sound pb hok _ hl' h,
    fun he => checker_sound_unsat pb hok _ hl' h (cutAtEmpty_empty lines he)⟩

/-- **checker_restores**: after `Unsat` / `UnsatChan` (accepted or not) the clause list,
    `NbClauses` and `units` are the initial ones. -/
theorem checker_restores (pb : Pb) (hnb : pb.nbClauses = pb.clauses.length) (lines : List (List Int)) :
    ((runAll pb lines).pb.clauses = pb.clauses ∧ (runAll pb lines).pb.units = pb.units ∧
      (runAll pb lines).pb.nbClauses = pb.nbClauses) ∧
    ((runChan pb lines).pb.clauses = pb.clauses ∧ (runChan pb lines).pb.units = pb.units ∧
      (runChan pb lines).pb.nbClauses = pb.nbClauses) := by
  constructor
  · obtain ⟨h1, h2, _, _, ex, h5⟩ := allLoop_frame lines (initTagged pb) 0
    refine ⟨?_, h1, h2⟩
    show ((allLoop (initTagged pb) lines 0).pb.clauses).take (allLoop (initTagged pb) lines 0).pb.nbClauses = _
    rw [h2, h5]
    show (pb.clauses ++ ex).take pb.nbClauses = pb.clauses
    rw [hnb]; simp
  · obtain ⟨h1, h2, ex, h5⟩ := chanLoop_frame lines (initTagged pb) 0
    refine ⟨?_, h1, h2⟩
    show ((chanLoop (initTagged pb) lines 0).pb.clauses).take (chanLoop (initTagged pb) lines 0).pb.nbClauses = _
    rw [h2, h5]
    show (pb.clauses ++ ex).take pb.nbClauses = pb.clauses
    rw [hnb]; simp

theorem initTagged_congr (p q : Pb) (h1 : p.clauses = q.clauses) (h2 : p.units = q.units)
    (h3 : p.nbClauses = q.nbClauses) : initTagged p = initTagged q := by
  cases p; cases q
  simp only at h1 h2 h3
  subst h1; subst h2; subst h3
  rfl

/-- … so a second run (of either entry point, on any certificate) answers as on the fresh problem. -/
theorem checker_rerun (pb : Pb) (hnb : pb.nbClauses = pb.clauses.length) (lines lines' : List (List Int)) :
    runAll (runAll pb lines).pb lines' = runAll pb lines' ∧
    runChan (runAll pb lines).pb lines' = runChan pb lines' ∧
    runAll (runChan pb lines).pb lines' = runAll pb lines' ∧
    runChan (runChan pb lines).pb lines' = runChan pb lines' := by
  obtain ⟨⟨a1, a2, a3⟩, ⟨b1, b2, b3⟩⟩ := checker_restores pb hnb lines
  have e1 := initTagged_congr _ _ a1 a2 a3
  have e2 := initTagged_congr _ _ b1 b2 b3
  unfold runAll runChan at *
  simp only [e1, e2]
  trivial

/-- **tagged_unsat**: after a certificate accepted by `Unsat` that contains the empty clause,
    the tagged original clauses (what `UnsatSubset` returns) are a sub-list of the input and are
    unsatisfiable. -/
theorem tagged_unsat (pb : Pb) (hok : pb.Ok) (lines : List (List Int))
    (hl : cnfWf pb.units.size lines = true) (h : checkAll pb lines = true) (he : [] ∈ lines) :
    (subsetOf pb.clauses (runAll pb lines).pb.tagged).Sublist pb.clauses ∧
    ¬ CnfSat (subsetOf pb.clauses (runAll pb lines).pb.tagged) := by
  refine ⟨subsetOf_sublist _ _, ?_⟩
  rintro ⟨a, ha⟩
  have := runAll_sound pb hok lines (nz_of_cnfWf _ _ hl) h a (taggedTrue_of_subset a _ _ ha) [] he
  simp [clauseTrue] at this

/-- **tagged_unsat, channel entry point** (the one `UnsatSubset` uses). -/
theorem tagged_unsat_chan (pb : Pb) (hok : pb.Ok) (lines : List (List Int))
    (hl : cnfWf pb.units.size lines = true) (h : checkChan pb lines = true) (he : [] ∈ lines) :
    (subsetOf pb.clauses (runChan pb lines).pb.tagged).Sublist pb.clauses ∧
    ¬ CnfSat (subsetOf pb.clauses (runChan pb lines).pb.tagged) := by
  rw [(checkChan_eq pb lines).2]
  rw [(checkChan_eq pb lines).1] at h
  have hl' : cnfWf pb.units.size (cutAtEmpty lines) = true := by
    unfold cnfWf at hl ⊢
    rw [List.all_eq_true] at hl ⊢
    exact fun c hc => hl c (cutAtEmpty_sub lines c hc)
  exact tagged_unsat pb hok _ hl' h (cutAtEmpty_empty lines he)

/-! ### concrete instances of the hypotheses and of the results -/

/-- the running example: `(1∨2)(¬1∨2)(¬2∨3)(¬3)(1∨3)` with certificate `2, 3, ⊥` -/
def exPb : Pb := mkPb 3 [[1, 2], [-1, 2], [-2, 3], [-3], [1, 3]]

example : exPb.Ok := mkPb_ok 3 _ (by decide)
example : cnfWf exPb.units.size [[2], [3], []] = true := by decide
example : checkAll exPb [[2], [3], []] = true := by decide
example : checkChan exPb [[2], [], [1]] = true := by decide
example : checkAll (mkPb 3 [[1, 2], [-1, 2], [-2, 3]]) [[1]] = false := by decide
example : (runAll exPb [[2], [3], []]).pb.tagged = [true, true, true, true, true] := by decide
example : (runAll (mkPb 2 [[1, 2], [-1], [-2], [1, -2]]) [[]]).pb.tagged = [true, true, true, false] := by decide
example : subsetOf [[1, 2], [-1], [-2], [1, -2]] [true, true, true, false] = [[1, 2], [-1], [-2]] := by decide
example : ((runAll exPb [[2], [3], []]).pb.clauses = exPb.clauses ∧
    (runAll exPb [[2], [3], []]).pb.units = exPb.units) := by decide

/-! ## 9. completeness w.r.t. unit propagation (statement, witnesses) -/

/-- Every certificate accepted by the verified RUP checker `GS.rupValid` is accepted by the
    mirror, provided no line contains complementary literals (`complete_needs_no_compl`).
    Clauses of the problem and lines may repeat literals: since the repair of the literal scan of
    `(*Problem).unsat` (`if unbound == 1 && lit == unit { continue }`) the Go scan is `GS.scan`
    (`scanGo_eq_scan`), which tolerates a repetition of the unbound literal of a unit clause.
    Proved in `GS/Props/C08_Complete.lean` (`checker_complete_up`), not here (it needs confluence
    of unit propagation between the two scan orders / start bindings, on top of
    `propagate_fuel_suffices` below). -/
def checker_complete_up_statement : Prop :=
  ∀ (n : Nat) (cs lines : List (List Int)), cnfWf n cs = true → cnfWf n lines = true →
    (∀ c ∈ lines, ∀ l ∈ c, -l ∉ c) →
    rupValid n cs lines = true → checkAll (mkPb n cs) lines = true

/-- The statement as it had to be before the repair: additionally no clause of the problem and
    no line repeats a literal (`checker_complete_up_nodup` in `GS/Props/C08_Complete.lean`). -/
def checker_complete_up_nodup_statement : Prop :=
  ∀ (n : Nat) (cs lines : List (List Int)), cnfWf n cs = true → cnfWf n lines = true →
    (∀ c ∈ cs, c.Nodup) → (∀ c ∈ lines, c.Nodup) → (∀ c ∈ lines, ∀ l ∈ c, -l ∉ c) →
    rupValid n cs lines = true → checkAll (mkPb n cs) lines = true

/-- The former witness `complete_needs_no_repeat` ("no clause repeats a literal" was needed):
    `(1∨1)(¬1∨2)(¬1∨¬2)` is refuted by unit propagation; the scan before the repair counted the
    repeated literal of `1 1` as two unbound literals, never propagated it and rejected the
    empty clause.  The repaired scan skips the repetition: the certificate is accepted. -/
theorem repeat_now_accepted :
    rupLine 2 [[1, 1], [-1, 2], [-1, -2]] [] = true ∧
    checkAll (mkPb 2 [[1, 1], [-1, 2], [-1, -2]]) [[]] = true ∧
    checkAll (mkPb 2 [[1], [-1, 2], [-1, -2]]) [[]] = true := by decide

/-- The former witness `complete_needs_no_repeat_line` ("no line repeats a literal"): the
    accepted line `1 1` is appended as is; it is now a usable unit clause. -/
theorem repeat_line_now_accepted :
    rupValid 2 [[1, 2], [1, -2], [-1, 2], [-1, -2]] [[1, 1], []] = true ∧
    checkAll (mkPb 2 [[1, 2], [1, -2], [-1, 2], [-1, -2]]) [[1, 1], []] = true ∧
    checkAll (mkPb 2 [[1, 2], [1, -2], [-1, 2], [-1, -2]]) [[1], []] = true := by decide

/-- The input of the defect report: the refutation needs `1 2 1` to become unit once `2` is
    false (`units` binds 2 from the unit clause `¬2`; 1 is unbound, 2 false, 1 again).  Both
    entry points accept the certificate `⊥` and every clause is tagged (`UnsatSubset` returns the
    whole problem); before the repair both answered "not UNSAT". -/
theorem repeat_unit_now_accepted :
    rupValid 3 [[1, 2, 1], [-2], [-1, 3], [-1, -3]] [[]] = true ∧
    checkAll (mkPb 3 [[1, 2, 1], [-2], [-1, 3], [-1, -3]]) [[]] = true ∧
    checkChan (mkPb 3 [[1, 2, 1], [-2], [-1, 3], [-1, -3]]) [[]] = true ∧
    (runChan (mkPb 3 [[1, 2, 1], [-2], [-1, 3], [-1, -3]]) [[]]).pb.tagged = [true, true, true, true] := by
  decide

/-- The same defect through `UnsatSubset` (validated on the Go side): all 8 sign patterns over 3
    variables, each clause repeating its first literal at the end; the certificate is the one the
    solver emits (`3 1`, `1`, `-3 -1`, `⊥`).  Before the repair `UnsatChan` rejected the line `1`
    (tags `10100000`) and `UnsatSubset` answered "problem is not UNSAT"; now the certificate is
    accepted and all clauses are tagged. -/
theorem repeat_subset_now_accepted :
    let cs : List (List Int) := [[1, 2, 3, 1], [2, 1, -3, 2], [3, 1, -2, 3], [-2, 1, -3, -2],
      [-1, 2, 3, -1], [2, -1, -3, 2], [-2, -1, 3, -2], [-3, -1, -2, -3]]
    let lines : List (List Int) := [[3, 1], [1], [-3, -1], []]
    rupValid 3 cs lines = true ∧ checkAll (mkPb 3 cs) lines = true ∧
    checkChan (mkPb 3 cs) lines = true ∧
    (runChan (mkPb 3 cs) lines).pb.tagged = [true, true, true, true, true, true, true, true] := by
  decide

/-- Only a repetition of the *first* unbound literal is skipped, and only while it is the only
    one: with 1 and 2 unbound the scan of `1 2 1` (and of `1 2 1 2`, `1 1 2`) stops at `2` as
    before — rightly, such a clause is not unit — and so does `GS.scan`.  Once 2 is false,
    `1 2 1 2` and `1 1 2` are units (`1`), `1 1` alone is a unit, and with 1 false `1 1` is a conflict. -/
theorem scan_repeat_cases :
    scanGo #[0, 0] [1, 2, 1] 0 0 = .many ∧ scanGo #[0, 0] [1, 2, 1, 2] 0 0 = .many ∧
    scanGo #[0, 0] [1, 1, 2] 0 0 = .many ∧
    scanGo #[0, -1] [1, 2, 1, 2] 0 0 = .unit 1 ∧ scanGo #[0, -1] [1, 1, 2] 0 0 = .unit 1 ∧
    scanGo #[0, -1] [2, 1, 2, 1] 0 0 = .unit 1 ∧
    scanGo #[0, 0] [1, 1] 0 0 = .unit 1 ∧ scanGo #[-1, 0] [1, 1] 0 0 = .conflict ∧
    scanGo #[0, 0] [1, -1] 0 0 = .many := by decide

/-- Witness for "no complementary literals in a line": the tautology `1 ¬1` is a consequence of
    anything; the Go code binds variable 1 twice (last literal wins) and then usually finds no
    conflict. -/
theorem complete_needs_no_compl :
    rupLine 1 [] [1, -1] = true ∧ checkAll (mkPb 1 []) [[1, -1]] = false := by decide

/-! ## 10. the fuel `NbVars + 2` suffices -/

/-- number of unbound variables -/
def zeros (u : Array Int) : Nat := u.toList.count 0

theorem count_set_zero (u : Array Int) (i : Nat) (x : Int) (hx : x ≠ 0) (h : i < u.size) (h0 : u[i] = 0) :
    (u.setIfInBounds i x).toList.count 0 + 1 = u.toList.count 0 := by
  have hl : i < u.toList.length := by simpa using h
  have h0' : u.toList[i] = 0 := by simpa using h0
  rw [Array.toList_setIfInBounds, List.count_set hl, h0']
  have hx' : (x == 0) = false := by simpa using hx
  have : 0 < u.toList.count 0 := by
    apply List.count_pos_iff.2
    rw [← h0']; exact List.getElem_mem hl
  simp only [hx', BEq.rfl, if_true, Bool.false_eq_true, if_false]
  omega

theorem zeros_setLit (u : Array Int) (l : Int) (hl : l ≠ 0) (hr : l.natAbs ≤ u.size)
    (hb : bind u l.natAbs = 0) : zeros (setLit u l) + 1 = zeros u := by
  have hpos : 0 < l.natAbs := Int.natAbs_pos.mpr hl
  have hi : l.natAbs - 1 < u.size := by omega
  unfold bind at hb
  rw [Array.getElem?_eq_getElem hi] at hb
  simp only [Option.getD_some] at hb
  unfold zeros setLit
  apply count_set_zero u _ _ _ hi hb
  split <;> omega

/-- a unit reported by the Go scan is an unbound literal of the clause -/
theorem scanGo_unit_mem (u : Array Int) : ∀ (c : List Int) (n : Nat) (ul l : Int),
    scanGo u c n ul = .unit l → (n ≠ 0 ∧ l = ul) ∨ (l ∈ c ∧ bind u l.natAbs = 0) := by
  intro c
  induction c with
  | nil =>
    intro n ul l h
    cases n with
    | zero => simp [scanGo] at h
    | succ k => simp [scanGo] at h; exact Or.inl ⟨by omega, h.symm⟩
  | cons x xs ih =>
    intro n ul l h
    unfold scanGo at h
    simp only at h
    by_cases hb : bind u x.natAbs = 0
    · simp only [hb, if_true] at h
      by_cases hn : n = 0
      · subst hn
        simp only [Nat.zero_ne_one, false_and, if_false, if_true] at h
        rcases ih 1 x l h with ⟨_, h2⟩ | ⟨h1, h2⟩
        · right; rw [h2]; exact ⟨by simp, hb⟩
        · right; exact ⟨by simp [h1], h2⟩
      · simp only [hn, if_false] at h
        by_cases he : n = 1 ∧ x = ul
        · simp only [he, and_self, if_true] at h
          rcases ih 1 ul l h with h' | ⟨h1, h2⟩
          · exact Or.inl ⟨hn, h'.2⟩
          · right; exact ⟨by simp [h1], h2⟩
        · simp [he] at h
    · simp only [hb, if_false] at h
      by_cases hs : bind u x.natAbs * x = (x.natAbs : Int)
      · simp [hs] at h
      · simp only [hs, if_false] at h
        rcases ih n ul l h with h' | ⟨h1, h2⟩
        · exact Or.inl h'
        · right; exact ⟨by simp [h1], h2⟩

/-- every literal is non-zero and its variable is within the bindings array -/
def InRange (n : Nat) (cs : List (List Int)) : Prop := ∀ c ∈ cs, ∀ l ∈ c, l ≠ 0 ∧ l.natAbs ≤ n

theorem inRange_of_cnfWf (n : Nat) (cs : List (List Int)) (h : cnfWf n cs = true) : InRange n cs := by
  intro c hc l hl
  unfold cnfWf at h
  rw [List.all_eq_true] at h
  have := h c hc
  unfold clauseWf at this
  rw [List.all_eq_true] at this
  have := this l hl
  unfold litOk at this
  simpa using this

/-- a pass never unbinds, and a pass that sets `modified` binds at least one more variable -/
theorem pass_zeros (nbC : Nat) : ∀ (cs : List (List Int)) (i : Nat) (u : Array Int) (d : Array Bool)
    (tg : List Bool) (m : Bool), InRange u.size cs →
    (pass nbC cs i u d tg m).units.size = u.size ∧
    zeros (pass nbC cs i u d tg m).units ≤ zeros u ∧
    ((pass nbC cs i u d tg m).modified = true → m = true ∨ zeros (pass nbC cs i u d tg m).units < zeros u) := by
  intro cs
  induction cs with
  | nil => intro i u d tg m _; exact ⟨rfl, Nat.le_refl _, fun h => Or.inl h⟩
  | cons c cs ih =>
    intro i u d tg m hr
    have hrc := hr c (by simp)
    have hrcs : InRange u.size cs := fun c' hc' => hr c' (by simp [hc'])
    unfold pass
    split
    · exact ih _ _ _ _ _ hrcs
    · split
      · exact ih _ _ _ _ _ hrcs
      · exact ⟨rfl, Nat.le_refl _, fun h => Or.inl h⟩
      · rename_i l hs
        rcases scanGo_unit_mem u c 0 0 l hs with ⟨h0, _⟩ | ⟨hm, hb⟩
        · exact absurd rfl h0
        · have hz := zeros_setLit u l (hrc l hm).1 (hrc l hm).2 hb
          have hsz : (setLit u l).size = u.size := by simp [setLit]
          have := ih (i+1) (setLit u l) (d.setIfInBounds i true) (tag nbC i tg) true (by rw [hsz]; exact hrcs)
          refine ⟨by rw [this.1, hsz], by omega, fun _ => Or.inr (by omega)⟩
      · exact ih _ _ _ _ _ hrcs

/-- with more fuel than unbound variables the loop ends by itself (conflict or unproductive pass) -/
theorem loop_fuel_suffices (nbC : Nat) (cs : List (List Int)) : ∀ (fuel : Nat) (u : Array Int)
    (d : Array Bool) (tg : List Bool), InRange u.size cs → zeros u < fuel →
    (loop nbC cs fuel u d tg).2.2.2 = false := by
  intro fuel
  induction fuel with
  | zero => intro u d tg _ h; omega
  | succ n ih =>
    intro u d tg hr hz
    have hp := pass_zeros nbC cs 0 u d tg false hr
    unfold loop
    simp only
    split
    · rfl
    · split
      · rename_i hm
        rcases hp.2.2 hm with h' | h'
        · cases h'
        · exact ih _ _ _ (by rw [hp.1]; exact hr) (by omega)
      · rfl

/-- once the loop ends by itself, any additional fuel changes nothing: the result is the one of
    the unbounded Go loop -/
theorem loop_fuel_stable (nbC : Nat) (cs : List (List Int)) : ∀ (fuel : Nat) (u : Array Int)
    (d : Array Bool) (tg : List Bool), (loop nbC cs fuel u d tg).2.2.2 = false →
    ∀ k, loop nbC cs (fuel + k) u d tg = loop nbC cs fuel u d tg := by
  intro fuel
  induction fuel with
  | zero => intro u d tg h; simp [loop] at h
  | succ n ih =>
    intro u d tg h k
    have : n + 1 + k = (n + k) + 1 := by omega
    rw [this]
    unfold loop at h ⊢
    simp only at h ⊢
    split
    · rfl
    · split
      · rename_i hc hm
        simp only [hc, hm, if_true, Bool.false_eq_true, if_false] at h
        exact ih _ _ _ h k
      · rfl

/-- **fuel sufficiency**: on literal-well-formed input `(*Problem).unsat` as modelled by
    `propagate` (fuel `NbVars + 2`) never stops for lack of fuel, and gives the same result with
    any larger fuel. -/
theorem propagate_fuel_suffices (pb : Pb) (hwf : cnfWf pb.units.size pb.clauses = true) :
    (loop pb.nbClauses pb.clauses (pb.units.size + 2) pb.units
      (Array.replicate pb.clauses.length false) pb.tagged).2.2.2 = false ∧
    ∀ k, loop pb.nbClauses pb.clauses (pb.units.size + 2 + k) pb.units
      (Array.replicate pb.clauses.length false) pb.tagged =
      loop pb.nbClauses pb.clauses (pb.units.size + 2) pb.units
      (Array.replicate pb.clauses.length false) pb.tagged := by
  have hz : zeros pb.units < pb.units.size + 2 := by
    have : zeros pb.units ≤ pb.units.toList.length := List.count_le_length
    simp at this; omega
  have h := loop_fuel_suffices pb.nbClauses pb.clauses _ pb.units
    (Array.replicate pb.clauses.length false) pb.tagged (inRange_of_cnfWf _ _ hwf) hz
  exact ⟨h, loop_fuel_stable _ _ _ _ _ _ h⟩

/-! ## 11. the same theorems for a problem as `ParseCNF` builds it -/

theorem initUnits_size (n : Nat) (cs : List (List Int)) : (initUnits n cs).size = n := by
  have hsz : ∀ (cs' : List (List Int)) (u : Array Int), (cs'.foldl addUnit u).size = u.size := by
    intro cs'
    induction cs' with
    | nil => intro u; rfl
    | cons c cs' ih =>
      intro u
      simp only [List.foldl_cons]; rw [ih]
      unfold addUnit; split <;> simp [setLit]
  unfold initUnits; rw [hsz]; simp

theorem C08_checker_sound (n : Nat) (cs lines : List (List Int)) (hcs : cnfWf n cs = true)
    (hl : cnfWf n lines = true) :
    (checkAll (mkPb n cs) lines = true → (∀ c ∈ lines, CnfEntails cs c) ∧ ([] ∈ lines → ¬ CnfSat cs)) ∧
    (checkChan (mkPb n cs) lines = true →
      (∀ c ∈ cutAtEmpty lines, CnfEntails cs c) ∧ ([] ∈ lines → ¬ CnfSat cs)) := by
  have hok := mkPb_ok n cs hcs
  have hl' : cnfWf (mkPb n cs).units.size lines = true := by
    show cnfWf (initUnits n cs).size lines = true
    rw [initUnits_size]; exact hl
  exact ⟨fun h => ⟨checker_sound _ hok lines hl' h, checker_sound_unsat _ hok lines hl' h⟩,
    fun h => checkChan_sound _ hok lines hl' h⟩

theorem C08_checker_restores (n : Nat) (cs lines lines' : List (List Int)) :
    (runAll (mkPb n cs) lines).pb.clauses = cs ∧
    (runAll (mkPb n cs) lines).pb.units = initUnits n cs ∧
    (runChan (mkPb n cs) lines).pb.clauses = cs ∧
    (runChan (mkPb n cs) lines).pb.units = initUnits n cs ∧
    checkAll (runAll (mkPb n cs) lines).pb lines' = checkAll (mkPb n cs) lines' ∧
    checkChan (runChan (mkPb n cs) lines).pb lines' = checkChan (mkPb n cs) lines' := by
  have h := checker_restores (mkPb n cs) rfl lines
  have r := checker_rerun (mkPb n cs) rfl lines lines'
  refine ⟨h.1.1, h.1.2.1, h.2.1, h.2.2.1, ?_, ?_⟩
  · unfold checkAll; rw [r.1]
  · unfold checkChan; rw [r.2.2.2]

theorem C08_tagged_unsat (n : Nat) (cs lines : List (List Int)) (hcs : cnfWf n cs = true)
    (hl : cnfWf n lines = true) (he : [] ∈ lines) :
    (checkAll (mkPb n cs) lines = true →
      (subsetOf cs (runAll (mkPb n cs) lines).pb.tagged).Sublist cs ∧
      ¬ CnfSat (subsetOf cs (runAll (mkPb n cs) lines).pb.tagged)) ∧
    (checkChan (mkPb n cs) lines = true →
      (subsetOf cs (runChan (mkPb n cs) lines).pb.tagged).Sublist cs ∧
      ¬ CnfSat (subsetOf cs (runChan (mkPb n cs) lines).pb.tagged)) := by
  have hok := mkPb_ok n cs hcs
  have hl' : cnfWf (mkPb n cs).units.size lines = true := by
    show cnfWf (initUnits n cs).size lines = true
    rw [initUnits_size]; exact hl
  exact ⟨fun h => tagged_unsat _ hok lines hl' h he, fun h => tagged_unsat_chan _ hok lines hl' h he⟩

example : cnfWf 3 [[1, 2], [-1, 2], [-2, 3], [-3], [1, 3]] = true ∧ cnfWf 3 [[2], [3], []] = true ∧
    checkAll (mkPb 3 [[1, 2], [-1, 2], [-2, 3], [-3], [1, 3]]) [[2], [3], []] = true := by decide

end GS.Explain
