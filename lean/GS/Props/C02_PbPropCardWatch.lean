import GS.Props.C02_PbPropWatch
/-!
# C02 (support) — the watch invariant of a cardinality constraint across calls and backjumps

A cardinality constraint is watched by its first `card+1` positions (`watchClause`; `swapFalse` moves
false literals out of them).  Invariant `CInv`: no literal among the first `card+1` positions is false,
or `card` literals are true.  `simplifyCardConstr` answering `true` re-establishes it at the current
level and at every level below (`card_call_levelInv`); bindings that falsify none of the first `card+1`
literals keep it (`cinv_extend`); under it the constraint is not violated (`card_no_missed_conflict`)
and holds at a total assignment (`cinv_total_holds`).
-/
namespace GS.PbProp
open GS

/-- No literal among the first `c` positions is false. -/
def FirstNF (m : Nat → Int) (ls : List Int) (c : Nat) : Prop :=
  ∀ (k : Nat) (l : Int), k < c → ls[k]? = some l → litStatus m l ≠ .unsat

/-- THE WATCH INVARIANT of a cardinality constraint. -/
def CInv (card : Int) (m : Nat → Int) (ls : List Int) : Prop :=
  (FirstNF m ls (card + 1).toNat ∧ card + 1 ≤ ls.length) ∨ card ≤ cnt m .sat ls

theorem nfc_ge_of_firstNF {m : Nat → Int} :
    ∀ (c : Nat) (ls : List Int), c ≤ ls.length → FirstNF m ls c → (c : Int) ≤ nfc m ls := by
  intro c
  induction c with
  | zero =>
    intro ls _ _
    have := nfc_eq m ls
    have := cnt_nonneg m .sat ls
    have := cnt_nonneg m .indet ls
    omega
  | succ c ih =>
    intro ls hlen h
    cases ls with
    | nil => simp at hlen
    | cons l ls =>
      simp only [nfc]
      have h0 := h 0 l (by omega) (by simp)
      have := ih ls (by simpa using hlen) (fun k l' hk hl' => h (k + 1) l' (by omega) (by simpa using hl'))
      simp only [h0, if_false]
      omega

/-- NO MISSED CONFLICT for a cardinality constraint: under the invariant at least `card` literals are
    not false. -/
theorem card_no_missed_conflict {card : Int} {m : Nat → Int} {ls : List Int} (hc0 : 0 ≤ card)
    (h : CInv card m ls) : card ≤ cnt m .sat ls + cnt m .indet ls := by
  rcases h with ⟨h, hlen⟩ | h
  · have := nfc_ge_of_firstNF (card + 1).toNat ls (by omega) h
    rw [nfc_eq] at this
    omega
  · have := cnt_nonneg m .indet ls; omega

/-- … and at a total assignment the constraint holds. -/
theorem cinv_total_holds {card : Int} {m : Nat → Int} {ls : List Int} (hc0 : 0 ≤ card)
    (h : CInv card m ls) (htot : ∀ l ∈ ls, m l.natAbs ≠ 0) : ∀ a, Ext a m → CardHolds a ls card := by
  intro a ha
  have h1 := card_no_missed_conflict hc0 h
  have hU : cnt m .indet ls = 0 := by
    have : ∀ xs : List Int, (∀ l ∈ xs, m l.natAbs ≠ 0) → cnt m .indet xs = 0 := by
      intro xs
      induction xs with
      | nil => intro _; rfl
      | cons x xs ih =>
        intro hx
        simp only [cnt]
        have h1 : litStatus m x ≠ .indet := fun h => hx x List.mem_cons_self (status_indet_iff.1 h)
        simp [h1, ih (fun l hl => hx l (List.mem_cons_of_mem _ hl))]
    exact this _ htot
  have hT := sat_le_nTrue ha ls
  unfold CardHolds; unfold nTrue at hT
  omega

theorem cnt_sat_mono {m m' : Nat → Int} (hext : ∀ v, m v ≠ 0 → m' v = m v) :
    ∀ ls : List Int, cnt m .sat ls ≤ cnt m' .sat ls := by
  intro ls
  induction ls with
  | nil => simp [cnt]
  | cons l ls ih =>
    simp only [cnt]
    by_cases hs : litStatus m l = .sat
    · simp [hs, status_sat_mono hext hs]; omega
    · simp only [hs, if_false]; split <;> omega

/-- BETWEEN CALLS: a binding that falsifies none of the first `card+1` literals keeps the invariant. -/
theorem cinv_extend {card : Int} {m m' : Nat → Int} {ls : List Int}
    (hext : ∀ v, m v ≠ 0 → m' v = m v)
    (hG : ∀ (k : Nat) (l : Int), k < (card + 1).toNat → ls[k]? = some l → litStatus m l ≠ .unsat →
      litStatus m' l ≠ .unsat)
    (h : CInv card m ls) : CInv card m' ls := by
  rcases h with ⟨h, hlen⟩ | h
  · exact Or.inl ⟨fun k l hk hl => hG k l hk hl (h k l hk hl), hlen⟩
  · right; have := cnt_sat_mono hext ls; omega

theorem firstNF_restrict {m : Nat → Int} {ls : List Int} {c : Nat} (k : Int) (h : FirstNF m ls c) :
    FirstNF (restrict m k) ls c :=
  fun i l hi hl hs => h i l hi hl (status_unsat_of_restrict hs)

theorem cardPropLoop_reached {lvl : Int} (hlvl : lvl ≠ 0) {m0 : Nat → Int} {L : List Int} :
    ∀ (fuel : Nat) (st : St) (i : Nat) (nb : Int) (st' : St), cardPropLoop lvl fuel st i nb = .ok st' →
      st.lits = L → Reached m0 st.m L lvl → Reached m0 st'.m L lvl ∧ st'.lits = L := by
  intro fuel
  induction fuel with
  | zero =>
    intro st i nb st' h hL hR
    unfold cardPropLoop at h
    split at h
    · cases h
    · cases h; exact ⟨hR, hL⟩
  | succ fuel ih =>
    intro st i nb st' h hL hR
    unfold cardPropLoop at h
    split at h
    · simp only at h
      split at h
      · cases h
      · rename_i lit hlit
        have hmem : lit ∈ L := by rw [← hL]; exact List.mem_of_getElem? hlit
        split at h
        · rename_i hu
          exact ih _ _ _ _ h hL (Reached.bind hlvl hR hmem hu)
        · exact ih _ _ _ _ h hL hR
    · cases h; exact ⟨hR, hL⟩

/-- When the loop `for nbUnb > 0` ends, every literal from position `i` on is bound (distinct variables,
    `nbUnb` = number of unbound literals from `i` on). -/
theorem cardPropLoop_all_bound {lvl : Int} (hlvl : lvl ≠ 0) :
    ∀ (fuel : Nat) (st : St) (i : Nat) (nb : Int) (st' : St), cardPropLoop lvl fuel st i nb = .ok st' →
      (st.lits.map Int.natAbs).Nodup → nb = cnt st.m .indet (st.lits.drop i) →
      cnt st'.m .indet (st'.lits.drop i) = 0 := by
  intro fuel
  induction fuel with
  | zero =>
    intro st i nb st' h hnd hnb
    unfold cardPropLoop at h
    split at h
    · cases h
    · cases h
      have := cnt_nonneg st.m .indet (st.lits.drop i)
      omega
  | succ fuel ih =>
    intro st i nb st' h hnd hnb
    unfold cardPropLoop at h
    split at h
    · rename_i hpos
      simp only at h
      split at h
      · cases h
      · rename_i lit hlit
        have hd := drop_of_getElem? hlit
        split at h
        · rename_i hu
          have hnd' : ((st.lits.drop i).map Int.natAbs).Nodup :=
            List.Nodup.sublist ((List.drop_sublist i st.lits).map _) hnd
          have h1 := cnt_indet_bind_ge (m := st.m) (l := lit) (lvl := lvl) _ hnd'
          have h2 := cnt_indet_bind_lt (m := st.m) (l := lit) (lvl := lvl) hlvl hu (st.lits.drop i)
            (by rw [hd]; exact List.mem_cons_self)
          exact ih (propagateUnit st lvl lit) i (nb - 1) st' h hnd (by simp only [propagateUnit]; omega)
        · rename_i hb
          have hs : litStatus st.m lit ≠ .indet := fun h => hb (status_indet_iff.1 h)
          have hfr := cardPropLoop_reached (m0 := st.m) (L := st.lits) hlvl _ _ _ _ _ h rfl (Reached.refl _ _ _)
          have := ih st (i + 1) nb st' h hnd (by rw [hnb, hd]; simp [cnt, hs])
          -- position i itself: bound before, still bound
          have hd' : st'.lits.drop i = lit :: st'.lits.drop (i + 1) := by
            rw [hfr.2]; exact hd
          rw [hd']
          have hb' : st'.m lit.natAbs ≠ 0 := by
            rw [hfr.1.ext _ hb]; exact hb
          have hs' : litStatus st'.m lit ≠ .indet := fun h => hb' (status_indet_iff.1 h)
          simp [cnt, hs', this]
    · rename_i hnb0
      cases h
      have := cnt_nonneg st.m .indet (st.lits.drop i)
      omega

/-- `m'` reached from `m` by binding literals of `L` (distinct variables) at a level `> 0`, with every
    literal of `L` bound in `m'`: every literal that was not false is true. -/
theorem all_true_of_reached {m m' : Nat → Int} {L : List Int} {lvl : Int} (hlvl : 0 < lvl)
    (hr : Reached m m' L lvl) (hnd : (L.map Int.natAbs).Nodup) (hb : ∀ l ∈ L, m' l.natAbs ≠ 0) :
    ∀ l ∈ L, litStatus m l ≠ .unsat → litStatus m' l = .sat := by
  intro l hl hs
  have hlvl' : lvl ≠ 0 := by omega
  have hbl := hb l hl
  rcases hr l.natAbs with h1 | ⟨h1, p, hp, hpl, h4⟩
  · unfold litStatus at hs ⊢
    rw [h1] at hbl ⊢
    simp only [hbl, if_false] at hs ⊢
    split
    · rfl
    · rename_i hne; simp [hne] at hs
  · have hpeq : p = l := eq_of_nodup_map hnd hp hl hpl.symm
    subst hpeq
    unfold litStatus
    rw [h4]
    have := signedLvl_ne_zero (l := p) hlvl'
    simp only [this, if_false]
    unfold signedLvl
    by_cases hpos : p > 0
    · simp [hpos]; omega
    · simp [hpos]; omega

theorem cnt_sat_ge_of_all_true {m m' : Nat → Int} :
    ∀ ls : List Int, (∀ l ∈ ls, litStatus m l ≠ .unsat → litStatus m' l = .sat) →
      cnt m .sat ls + cnt m .indet ls ≤ cnt m' .sat ls := by
  intro ls
  induction ls with
  | nil => intro _; simp [cnt]
  | cons l ls ih =>
    intro h
    simp only [cnt]
    have := ih (fun x hx => h x (List.mem_cons_of_mem _ hx))
    cases hs : litStatus m l
    · have := h l List.mem_cons_self (by rw [hs]; decide)
      simp [this]; omega
    · have := h l List.mem_cons_self (by rw [hs]; decide)
      simp [this]; omega
    · simp; split <;> omega

theorem cnt_indet_zero_bound {m : Nat → Int} :
    ∀ ls : List Int, cnt m .indet ls = 0 → ∀ l ∈ ls, m l.natAbs ≠ 0 := by
  intro ls
  induction ls with
  | nil => intro _ l hl; cases hl
  | cons x xs ih =>
    intro h l hl
    simp only [cnt] at h
    have hn := cnt_nonneg m .indet xs
    rcases List.mem_cons.1 hl with rfl | hl
    · intro h0
      rw [status_indet_iff.2 h0] at h
      simp at h; omega
    · exact ih (by split at h <;> omega) l hl

/-- THE INVARIANT IS RE-ESTABLISHED BY EVERY CALL of `simplifyCardConstr` that answers `true`, at the
    current level and at every level below (the assignment after any later `cleanupBindings`), given
    only that it held for the levels below (nothing is assumed at the current level). Distinct
    variables, `0 ≤ card < len`, the first `card+1` positions watched. -/
theorem card_call_levelInv {lvl card : Int} (hlvl : 0 < lvl) {st st' : St}
    (hnd : (st.lits.map Int.natAbs).Nodup) (hc0 : 0 ≤ card) (hlen : card + 1 ≤ st.lits.length)
    (hw : ∀ k : Nat, (k : Int) < card + 1 → st.watched[k]? = some true)
    (hbelow : ∀ k, k < lvl → CInv card (restrict st.m k) st.lits)
    (h : simplifyCard lvl card st = .ok (true, st')) :
    CInv card st'.m st'.lits ∧ ∀ k, k < lvl → CInv card (restrict st'.m k) st'.lits := by
  have hlvl' : lvl ≠ 0 := by omega
  have htotal := cnt_total st.m st.lits
  unfold simplifyCard at h
  split at h
  · rename_i hcl
    cases h
    have := countLoop_sat _ _ _ _ hcl
    exact ⟨Or.inr (by omega), hbelow⟩
  · cases h
  · rename_i t f u hcl
    have hfin := countLoop_fin _ _ _ _ _ _ _ hcl
    split at h
    · rename_i heq
      cases hq : cardPropLoop lvl (u.toNat + st.lits.length + 1) st 0 u with
      | ok st1 =>
        rw [hq] at h; cases h
        have hu : u = cnt st.m .indet (st.lits.drop 0) := by simp only [List.drop_zero]; omega
        have hR := cardPropLoop_reached (m0 := st.m) (L := st.lits) hlvl' _ _ _ _ _ hq rfl (Reached.refl _ _ _)
        have hz := cardPropLoop_all_bound hlvl' _ _ _ _ _ hq hnd hu
        rw [hR.2, List.drop_zero] at hz
        have hb := cnt_indet_zero_bound st.lits hz
        have hall := all_true_of_reached hlvl hR.1 hnd hb
        have := cnt_sat_ge_of_all_true st.lits hall
        rw [hR.2]
        refine ⟨Or.inr (by omega), fun k hk => ?_⟩
        rw [hR.1.restrict hk]; exact hbelow k hk
      | panic => rw [hq] at h; cases h
      | fuel => rw [hq] at h; cases h
    · rename_i hne
      cases hq : swapFalse card st with
      | ok st1 =>
        rw [hq] at h; cases h
        obtain ⟨st2, h2, hprop⟩ := swapFalse_ok_and_watches hc0 hlen
          (swapFalse_precondition (by omega) hcl hne) hw
        rw [hq] at h2; cases h2
        have hperm := (swapFalse_perm hq).1
        have hfirst : FirstNF st'.m st'.lits (card + 1).toNat :=
          fun k l hk hl => hprop k (by omega) l hl
        have hlen' : card + 1 ≤ st'.lits.length := by rw [hperm.length_eq]; exact hlen
        exact ⟨Or.inl ⟨hfirst, hlen'⟩, fun k _ => Or.inl ⟨firstNF_restrict k hfirst, hlen'⟩⟩
      | panic => rw [hq] at h; cases h
      | fuel => rw [hq] at h; cases h

/-- Non-vacuity of the hypotheses of `card_call_levelInv`: `x1 + x2 + x3 + x4 ≥ 2`, `x1` false at level 2,
    call at level 2: at level 1 nothing is bound and no literal among the first three is false. -/
example : CInv 2 (restrict (mOf [-2, 0, 0, 0]) 1) [1, 2, 3, 4] := by
  left
  refine ⟨?_, by decide⟩
  intro k l hk hl
  have hk' : k < 3 := hk
  have : l ∈ [1, 2, 3, 4] := List.mem_of_getElem? hl
  simp only [List.mem_cons, List.not_mem_nil, or_false] at this
  rcases this with rfl | rfl | rfl | rfl <;> decide

end GS.PbProp

#print axioms GS.PbProp.card_call_levelInv
#print axioms GS.PbProp.card_no_missed_conflict
#print axioms GS.PbProp.cinv_extend
#print axioms GS.PbProp.cinv_total_holds
