import GS.Generated.Facts
/-!
# GS.Props.Facts — expectations about the facts regenerated from /repo's source

`GS/Generated/Facts.lean` is rewritten by `/verif/facts` (a go/ast walk over the working tree
of /repo) on every run. The Lean protocol models (`GS.Model.Chan`), the non-interference
argument of C16 and the "certificate flag only guards output" argument of C01/C06 were
instantiated with the values below. Each theorem is closed by `decide`: a source edit that
changes a fact breaks the build of this file, which the check reports as a broken obligation
(and then searches for a failing input).
-/
namespace GS.Facts
open GS.Generated

/-- C16: the library packages have no package-level variable that any function writes
    (before the fix of `bufLits` this list was not empty). -/
theorem no_package_level_state : pkgVarWrites = [] := by decide

/-- The only package-level variables are constants in disguise. -/
theorem package_vars : pkgVars = ["bf.False", "bf.True", "explain.ErrNotUnsat"] := by decide

/-- C01/C06: the certificate flag is only read by the three emission points … -/
theorem cert_readers : certReaders = ["Solver.addLearned", "Solver.addLearnedUnit", "Solver.setUnsat"] := by decide

/-- … and always as the guard of an output statement: it cannot influence the search. -/
theorem cert_guarded : certAllGuarded = true := by decide

def expectedChanOps : List (String × List String) := [
  ("solver.Solver.Optimal", ["defer-close results", "send results", "send results", "send results"]),
  ("solver.Solver.Enumerate", ["defer-close models"]),
  ("solver.Solver.addCurrentModels", ["send ch"]),
  ("solver.Solver.addLearned", ["send s.CertChan"]),
  ("solver.Solver.addLearnedUnit", ["send s.CertChan"]),
  ("solver.Solver.setUnsat", ["send s.CertChan"]),
  ("solver.Solver.Minimize", []),
  ("maxsat.Solver.Optimal", ["make chan solver.Result cap 0", "defer-close results", "go s.solver.Optimal(localRes,stop)", "range localRes", "send results"]),
  ("explain.Problem.UnsatSubset", ["make chan string cap 0", "make chan solver.Status cap 1", "go func", "goroutine: close s.CertChan", "goroutine: send done", "range s.CertChan", "recv done"]),
  ("explain.Problem.UnsatChan", ["range ch"]),
  ("main.solve", ["make chan solver.Result cap 0", "go s.Optimal(results,nil)"]),
  ("main.countModels", ["make chan []bool cap 0", "go s.Enumerate(models,nil)", "range models"]),
  ("main.parseAndSolveWCNF", ["make chan solver.Result cap 0", "go s.Optimal(results,nil)"])
]

/-- C16/C20: who creates, sends on, closes and drains each channel, in program order: the
    producer closes by a deferred close and nobody else closes; the forwarder ranges over the
    inner channel and re-sends; UnsatSubset hands the status over `done` after closing the
    certificate channel and the caller drains before receiving it. -/
theorem chan_ops : chanOps = expectedChanOps := by decide

/-- C19: the flags and the suffix dispatch of the command line tool. -/
theorem cli_flags : cliFlags = ["certified", "count", "cp", "help", "mus", "verbose"] := by decide
theorem cli_suffixes : cliSuffixes = [".bf", ".cnf", ".opb", ".wcnf"] := by decide

end GS.Facts
