import GS.Props.C20_Chan
/-!
# C20 — the executable trace checker `acceptsTrace` is exact

`acceptsTrace cap evs = true` iff `evs` is the event sequence of some execution of
`producerSystem cap vals` for some `vals` (`acceptsTrace_iff_trace`).
-/
namespace GS.Chan
set_option linter.unusedSimpArgs false

/-- Executions with the first step at the front. -/
inductive LPath : State → List Event → State → Prop
  | nil {s : State} : LPath s [] s
  | cons {s s1 s' : State} {l evs : List Event} : LStep s l s1 → LPath s1 evs s' → LPath s (l ++ evs) s'

theorem LPath.snoc {s s1 s' : State} {tr l : List Event} (h : LPath s tr s1) (hs : LStep s1 l s') :
    LPath s (tr ++ l) s' := by
  induction h with
  | nil => simpa using LPath.cons hs LPath.nil
  | cons h1 _ ih => rw [List.append_assoc]; exact LPath.cons h1 (ih hs)

theorem LReach.prepend {s s1 s' : State} {tr l : List Event} (hs : LStep s l s1) (h : LReach s1 tr s') :
    LReach s (l ++ tr) s' := by
  induction h with
  | init => simpa using LReach.step LReach.init hs
  | step _ h2 ih => rw [← List.append_assoc]; exact LReach.step ih h2

theorem lreach_iff_lpath {s0 s : State} {tr : List Event} : LReach s0 tr s ↔ LPath s0 tr s := by
  constructor
  · intro h
    induction h with
    | init => exact .nil
    | step _ hs ih => exact ih.snoc hs
  · intro h
    induction h with
    | nil => exact .init
    | cons h1 _ ih => exact LReach.prepend h1 ih

/-- Every step emits at least one event. -/
theorem lstep_label_ne_nil {s s' : State} {l : List Event} (h : LStep s l s') : l ≠ [] := by
  cases h <;> simp

theorem run_nil (fuel : Nat) (s : State) : run fuel s [] = true := by
  cases fuel <;> rfl

/-- `run` decides the existence of an execution with exactly the given events. -/
theorem run_iff : ∀ (fuel : Nat) (s : State) (evs : List Event), evs.length ≤ fuel →
    (run fuel s evs = true ↔ ∃ s', LPath s evs s') := by
  intro fuel
  induction fuel with
  | zero =>
    intro s evs hl
    cases evs with
    | nil => simp [run_nil]; exact ⟨s, .nil⟩
    | cons e r => simp at hl
  | succ fuel ih =>
    intro s evs hl
    cases evs with
    | nil => simp [run_nil]; exact ⟨s, .nil⟩
    | cons e r =>
      simp only [run, List.any_eq_true]
      constructor
      · rintro ⟨⟨l, s1⟩, hm, hc⟩
        simp only [Bool.and_eq_true, decide_eq_true_eq] at hc
        rcases hc with ⟨⟨hne, hpre⟩, hrun⟩
        rcases List.isPrefixOf_iff_prefix.mp hpre with ⟨t, ht⟩
        rw [← ht, List.drop_left] at hrun
        have hlen : t.length ≤ fuel := by
          have h1 : (l ++ t).length = (e :: r).length := by rw [ht]
          have h2 : 0 < l.length := List.length_pos_iff.mpr hne
          simp at h1 hl; omega
        rcases (ih s1 t hlen).mp hrun with ⟨s', hp⟩
        exact ⟨s', ht ▸ LPath.cons (lstep_iff_mem.mpr hm) hp⟩
      · rintro ⟨s', hp⟩
        generalize hx : e :: r = x at hp
        cases hp with
        | nil => cases hx
        | @cons _ s1 _ l t h1 h2 =>
          refine ⟨(l, s1), lstep_iff_mem.mp h1, ?_⟩
          have hne := lstep_label_ne_nil h1
          have hlen : t.length ≤ fuel := by
            have h1 : (l ++ t).length = (e :: r).length := by rw [hx]
            have h2 : 0 < l.length := List.length_pos_iff.mpr hne
            simp at h1 hl; omega
          simp only [Bool.and_eq_true, decide_eq_true_eq]
          rw [List.drop_left]
          exact ⟨⟨hne, List.isPrefixOf_iff_prefix.mpr ⟨t, rfl⟩⟩, (ih s1 t hlen).mpr ⟨s', h2⟩⟩

/-- The checker is exact for the candidate `vals` = the values sent in the trace. -/
theorem acceptsTrace_iff {cap : Nat} {evs : List Event} :
    acceptsTrace cap evs = true ↔ ∃ s, LReach (producerSystem cap (sentVals evs)) evs s := by
  unfold acceptsTrace
  rw [run_iff _ _ _ (Nat.le_refl _)]
  constructor
  · rintro ⟨s, h⟩; exact ⟨s, lreach_iff_lpath.mpr h⟩
  · rintro ⟨s, h⟩; exact ⟨s, lreach_iff_lpath.mp h⟩

theorem Abs.lreach_of {α : Type} (A : Abs α) {a0 a : α} {tr : List Event}
    (h : AReach A a0 tr a) : LReach (A.st a0) tr (A.st a) := by
  induction h with
  | init => exact .init
  | step _ hm ih => exact .step ih (A.lstep.mpr ⟨_, hm, rfl⟩)

/-- While the channel is open, the behaviour does not depend on the values not yet sent
    (nor on the value that will be returned). -/
theorem pa_prefix {cap : Nat} {r : Option Nat} {vals : List Nat} {tr : List Event} {a : PA}
    (h : AReach (PAbs cap r) (pinit vals) tr a) :
    a.pc = .run → ∀ (w : List Nat) (r' : Option Nat),
      AReach (PAbs cap r') (pinit (sentVals tr ++ w)) tr { a with todo := w } := by
  induction h with
  | init => intro _ w r'; exact .init
  | @step tr l a a' h1 hm ih =>
    intro hpc w r'
    rcases a with ⟨got, buf, todo, pc, saw⟩
    simp only [PAbs, pnext, List.mem_append] at hm
    rcases hm with hm | hm | hm
    · cases pc <;> rcases todo with _ | ⟨v, t⟩ <;> simp [pnext0] at hm
      · rcases hm with ⟨rfl, rfl⟩; simp at hpc
      · rcases hm with ⟨hlt, rfl, rfl⟩
        have := ih rfl (v :: w) r'
        rw [sentVals_append]
        simp only [sentVals, List.append_assoc, List.singleton_append]
        refine .step this ?_
        simp [PAbs, pnext, pnext0, hlt]
      · rcases hm with ⟨rfl, rfl⟩; simp at hpc
      · rcases hm with ⟨rfl, rfl⟩; simp at hpc
    · cases pc <;> rcases todo with _ | ⟨v, t⟩ <;> cases saw <;> simp [pnext01] at hm
      rcases hm with ⟨⟨rfl, rfl⟩, rfl, rfl⟩
      have := ih rfl (v :: w) r'
      rw [sentVals_append]
      simp only [sentVals, List.append_assoc, List.singleton_append]
      refine .step this ?_
      simp [PAbs, pnext, pnext01]
    · cases saw <;> cases buf <;> simp [pnext1] at hm
      · rcases hm with ⟨hne, rfl, rfl⟩
        exact absurd hpc hne
      · rcases hm with ⟨rfl, rfl⟩
        have := ih hpc w r'
        rw [sentVals_append]
        simp only [sentVals, List.append_nil]
        refine .step this ?_
        simp [PAbs, pnext, pnext1]

/-- A trace of `producerSystem cap vals` is also a trace of `producerSystem cap (sentVals tr)`. -/
theorem trace_of_sent {cap : Nat} {vals : List Nat} {tr : List Event} {s : State}
    (h : LReach (producerSystem cap vals) tr s) :
    ∃ s', LReach (producerSystem cap (sentVals tr)) tr s' := by
  have h0 := h
  rw [producerSystem_eq] at h
  rcases (PAbs cap vals.getLast?).lreach h with ⟨a, _, ha⟩
  have hinv := AReach.inv (A := PAbs cap vals.getLast?) (PInv cap vals) (pinv_init cap vals)
    (pinv_step cap vals) ha
  by_cases hpc : a.pc = .run
  · have := pa_prefix ha hpc [] (sentVals tr).getLast?
    simp only [List.append_nil] at this
    have h2 : LReach (producerSystem cap (sentVals tr)) tr
        (pstate cap (sentVals tr).getLast? { a with todo := [] }) := by
      rw [producerSystem_eq]
      exact (PAbs cap (sentVals tr).getLast?).lreach_of this
    exact ⟨_, h2⟩
  · have ht := hinv.closedTodo hpc
    have : sentVals tr = vals := by rw [hinv.sent, hinv.split, ht]; simp
    rw [this]; exact ⟨s, h0⟩

/-- **Trace checker correctness**: `acceptsTrace cap evs` holds exactly when `evs` is the event
    sequence of an execution of `producerSystem cap vals` for some `vals`. -/
theorem acceptsTrace_iff_trace {cap : Nat} {evs : List Event} :
    acceptsTrace cap evs = true ↔ ∃ vals s, LReach (producerSystem cap vals) evs s := by
  rw [acceptsTrace_iff]
  constructor
  · rintro ⟨s, h⟩; exact ⟨_, s, h⟩
  · rintro ⟨vals, s, h⟩; exact trace_of_sent h

/-- Consequently every accepted trace enjoys all the properties proved for executions, e.g.: -/
theorem acceptsTrace_props {cap : Nat} {evs : List Event} (h : acceptsTrace cap evs = true) :
    Event.panicked ∉ evs ∧ recvVals evs <+: sentVals evs ∧ closeCount 0 evs ≤ 1 ∧
      (∀ v, Event.returned v ∈ evs → v = (sentVals evs).getLast?) := by
  rcases acceptsTrace_iff.mp h with ⟨s, hs⟩
  rcases producer_reach hs with ⟨a, rfl, ha, hret⟩
  refine ⟨ha.panics, ?_, ?_, ?_⟩
  · rw [ha.recv, ha.sent]; exact ⟨a.buf, rfl⟩
  · rw [ha.closes]; split <;> omega
  · intro v hv; exact (hret v hv).1

example : acceptsTrace 1 [.sent 0 1, .received 0 1, .sent 0 2, .closed 0, .received 0 2,
    .returned (some 2), .sawClosed 0] = true := by decide
example : acceptsTrace 0 [.sent 0 1, .received 0 1, .sent 0 2, .received 0 2, .closed 0,
    .sawClosed 0, .returned (some 2)] = true := by decide
/-- with an unbuffered channel a second send cannot precede the first receive -/
example : acceptsTrace 0 [.sent 0 1, .sent 0 2] = false := by decide
/-- a send after the close is rejected -/
example : acceptsTrace 2 [.sent 0 1, .closed 0, .sent 0 2] = false := by decide
/-- a double close is rejected -/
example : acceptsTrace 2 [.sent 0 1, .closed 0, .closed 0] = false := by decide
/-- reordering is rejected -/
example : acceptsTrace 2 [.sent 0 1, .sent 0 2, .received 0 2] = false := by decide
/-- returning something else than the last result is rejected -/
example : acceptsTrace 2 [.sent 0 1, .sent 0 2, .closed 0, .returned (some 1)] = false := by decide

end GS.Chan
