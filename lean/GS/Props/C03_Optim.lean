import GS.Model.Optim
/-!
# C03 — the optimisation loop of `Optimal` / `Minimize` returns the true minimum

Model: `GS/Model/Optim.lean`. Main results
* `bound_sem`            : the appended constraint means exactly `cost < current cost`, for **all**
                           integer weights (also negative), repeated variables allowed, literals non-zero.
* `goBound_holds`        : sorting the terms and dropping zero-weight terms (what Go does) is irrelevant.
* `loop_result`          : (all integer weights) what each way of leaving the loop guarantees.
* `minimize_optimal`     : non-negative weights, any oracle meeting the contract, fuel `≥ Σw + 2`:
                           the loop returns an optimum; the streamed costs strictly decrease.
* `minimize_unsat`       : unsatisfiable problem ↦ `Outcome.unsat`.
* `minimize_early_exit`  : leaving at `cost == 0` is right for non-negative weights.
* `negative_weight_counterexample` : with a negative weight the `cost == 0` exit returns a non-optimum.
-/
namespace GS.Optim
open GS

/-! ### hypotheses used below -/

/-- All literals of the cost function are non-zero (always true for Go `Lit`s built from DIMACS ints). -/
def LitsNZ (f : List (Int × Int)) : Prop := ∀ t ∈ f, t.2 ≠ 0

/-- All weights are non-negative. -/
def NonNeg (f : List (Int × Int)) : Prop := ∀ t ∈ f, 0 ≤ t.1

instance (f : List (Int × Int)) : Decidable (LitsNZ f) := by unfold LitsNZ; infer_instance
instance (f : List (Int × Int)) : Decidable (NonNeg f) := by unfold NonNeg; infer_instance

/-- Contract of the solving oracle on the problems satisfying `Q`:
    an answer `some a` is a model, an answer `none` means there is no model. -/
structure Contract (Q : Problem → Prop) (solveFn : Problem → Option Asg) : Prop where
  sound : ∀ q a, Q q → solveFn q = some a → Problem.holds a q = true
  complete : ∀ q, Q q → solveFn q = none → ¬ Satisfiable q

/-! ### the bound constraint -/

theorem lhs_negTerms (a : Asg) : ∀ f : List (Int × Int), LitsNZ f →
    lhs a (negTerms f) = sumW f - cost f a := by
  intro f
  induction f with
  | nil => intro _; rfl
  | cons t ts ih =>
    intro h
    have ht : t.2 ≠ 0 := h t (by simp)
    have ih' := ih (fun u hu => h u (by simp [hu]))
    unfold negTerms at ih' ⊢
    unfold cost at ih' ⊢
    simp only [List.map_cons, lhs, termVal, sumW, litTrue_neg a t.2 ht, ih']
    cases litTrue a t.2 <;> simp <;> omega

/-- **bound_sem.** For arbitrary integer weights (negative ones included), arbitrary repetition of
    variables (even `l` and `¬l` both present) and non-zero literals: the constraint appended at
    cost `c` holds exactly for the assignments of cost `≤ c − 1`. -/
theorem bound_sem (f : List (Int × Int)) (c : Int) (a : Asg) (hnz : LitsNZ f) :
    (boundConstr f c).holds a = true ↔ cost f a ≤ c - 1 := by
  unfold Lin.holds boundConstr
  simp only [decide_eq_true_eq, lhs_negTerms a f hnz]
  omega

example : LitsNZ [(3, 1), (-2, -1), (0, 2), (5, 2)] := by decide

/-- The non-zero-literal hypothesis is needed: for the "literal" `0`, `[¬0] = [0]`. -/
example : ¬ ((boundConstr [(1, 0)] 1).holds (fun _ => true) = true ↔
    cost [(1, 0)] (fun _ => true) ≤ 1 - 1) := by decide

theorem lhs_insertDesc (a : Asg) (t : Int × Int) : ∀ l, lhs a (insertDesc t l) = termVal a t + lhs a l := by
  intro l
  induction l with
  | nil => rfl
  | cons u us ih =>
    simp only [insertDesc]
    split
    · simp only [lhs, ih]; omega
    · simp only [lhs]

theorem lhs_sortDesc (a : Asg) : ∀ l, lhs a (sortDesc l) = lhs a l := by
  intro l
  induction l with
  | nil => rfl
  | cons t ts ih => simp only [sortDesc, lhs_insertDesc, lhs, ih]

theorem lhs_stripZeros (a : Asg) : ∀ l, lhs a (stripZeros l) = lhs a l := by
  intro l
  induction l with
  | nil => rfl
  | cons t ts ih =>
    simp only [stripZeros]
    split
    · rename_i h
      rw [h] at ih
      split
      · rename_i h0
        simp only [lhs, termVal, h0] at ih ⊢
        split <;> omega
      · simp only [lhs] at ih ⊢; omega
    · rename_i r rs h
      rw [h] at ih
      simp only [lhs] at ih ⊢
      omega

/-- Dropping *all* zero-weight terms does not change the left-hand side either. -/
theorem lhs_filter_nonzero (a : Asg) : ∀ l : List (Int × Int),
    lhs a (l.filter (fun t => t.1 != 0)) = lhs a l := by
  intro l
  induction l with
  | nil => rfl
  | cons t ts ih =>
    by_cases h : t.1 = 0
    · simp only [List.filter, h, bne_self_eq_false, lhs, termVal, ih]
      split <;> omega
    · have : (t.1 != 0) = true := by simp [h]
      simp only [List.filter, this, lhs, ih]

/-- What Go appends (sorted by decreasing weight, trailing zero weights dropped) is equivalent to
    `boundConstr` — for all integer weights, no hypothesis at all. -/
theorem goBound_holds (f : List (Int × Int)) (c : Int) (a : Asg) :
    (goBound f c).holds a = (boundConstr f c).holds a := by
  unfold Lin.holds goBound boundConstr hypothesis
  simp only [lhs_stripZeros, lhs_sortDesc]

theorem goBound_sem (f : List (Int × Int)) (c : Int) (a : Asg) (hnz : LitsNZ f) :
    (goBound f c).holds a = true ↔ cost f a ≤ c - 1 := by
  rw [goBound_holds, bound_sem f c a hnz]

/-! ### elementary facts on costs -/

theorem cost_nonneg (f : List (Int × Int)) (a : Asg) (h : NonNeg f) : 0 ≤ cost f a := by
  unfold cost
  induction f with
  | nil => simp [lhs]
  | cons t ts ih =>
    have h1 := h t (by simp)
    have h2 := ih (fun u hu => h u (by simp [hu]))
    simp only [lhs, termVal]
    split <;> omega

theorem cost_le_sumW (f : List (Int × Int)) (a : Asg) (h : NonNeg f) : cost f a ≤ sumW f := by
  unfold cost
  induction f with
  | nil => simp [lhs, sumW]
  | cons t ts ih =>
    have h1 := h t (by simp)
    have h2 := ih (fun u hu => h u (by simp [hu]))
    simp only [lhs, termVal, sumW]
    split <;> omega

/-- **minimize_early_exit.** With non-negative weights a model of cost 0 is optimal:
    the `if cost == 0 { break }` exit is correct. -/
theorem minimize_early_exit (p : Problem) (f : List (Int × Int)) (a : Asg) (hnn : NonNeg f)
    (ha : Problem.holds a p = true) (h0 : cost f a = 0) : IsOptimum p f a :=
  ⟨ha, fun b _ => by have := cost_nonneg f b hnn; omega⟩

example : NonNeg [(3, 1), (0, -2), (2, 2)] := by decide

/-! ### one round of the loop -/

theorem holds_append (a : Asg) (p : Problem) (c : Lin) :
    Problem.holds a (p ++ [c]) = (Problem.holds a p && c.holds a) := by
  simp [Problem.holds, List.all_append]

theorem holds_step (f : List (Int × Int)) (hnz : LitsNZ f) (q : Problem) (c : Int) (b : Asg) :
    Problem.holds b (q ++ [goBound f c]) = true ↔ Problem.holds b q = true ∧ cost f b ≤ c - 1 := by
  rw [holds_append, Bool.and_eq_true, goBound_sem f c b hnz]

/-- An optimum of the strengthened problem, when that problem has a model, is an optimum of the
    original one. -/
theorem isOptimum_of_step (f : List (Int × Int)) (hnz : LitsNZ f) (q : Problem) (c : Int) (m : Asg)
    (h : IsOptimum (q ++ [goBound f c]) f m) : IsOptimum q f m := by
  obtain ⟨hm, hmin⟩ := h
  have hm' := (holds_step f hnz q c m).1 hm
  refine ⟨hm'.1, ?_⟩
  intro x hx
  by_cases hlt : cost f x ≤ c - 1
  · exact hmin x ((holds_step f hnz q c x).2 ⟨hx, hlt⟩)
  · omega

/-! ### the loop, for arbitrary integer weights -/

section
variable (solveFn : Problem → Option Asg) (f : List (Int × Int)) (Q : Problem → Prop)
variable (hQ : ∀ q c, Q q → Q (q ++ [goBound f c]))
include hQ

/-- Everything streamed is a model of the problem with its true cost, and the streamed costs are
    strictly decreasing. Needs only soundness of the oracle; any integer weights; any fuel. -/
theorem loop_stream (hs : ∀ q a, Q q → solveFn q = some a → Problem.holds a q = true)
    (hnz : LitsNZ f) : ∀ (k : Nat) (q : Problem) (a : Asg), Q q → Problem.holds a q = true →
    (∀ x ∈ (loop solveFn f k q a).stream, Problem.holds x.1 q = true ∧ x.2 = cost f x.1) ∧
    ((loop solveFn f k q a).stream.map (·.2)).Pairwise (· > ·) := by
  intro k
  induction k with
  | zero => intro q a _ _; simp [loop]
  | succ k ih =>
    intro q a hq ha
    unfold loop
    simp only
    split
    · simp [ha]
    · split
      · simp [ha]
      · split
        · simp [ha]
        · rename_i b hb
          have hb' := hs _ b (hQ q (cost f a) hq) hb
          obtain ⟨h1, h2⟩ := ih _ b (hQ q (cost f a) hq) hb'
          constructor
          · intro x hx
            simp only [List.mem_cons] at hx
            rcases hx with rfl | hx
            · exact ⟨ha, rfl⟩
            · have := h1 x hx
              exact ⟨((holds_step f hnz q _ x.1).1 this.1).1, this.2⟩
          · simp only [List.map_cons, List.pairwise_cons]
            refine ⟨?_, h2⟩
            intro c' hc'
            simp only [List.mem_map] at hc'
            obtain ⟨x, hx, rfl⟩ := hc'
            have := h1 x hx
            have := ((holds_step f hnz q _ x.1).1 this.1).2
            omega

omit hQ in
/-- The returned result is the last element streamed (unless the model ran out of fuel). -/
theorem loop_last : ∀ (k : Nat) (q : Problem) (a : Asg),
    (loop solveFn f k q a).stop ≠ .fuel →
    (loop solveFn f k q a).stream.getLast? = some (loop solveFn f k q a).last := by
  intro k
  induction k with
  | zero => intro q a h; simp [loop] at h
  | succ k ih =>
    intro q a
    unfold loop
    simp only
    split
    · simp
    · split
      · simp
      · split
        · simp
        · rename_i b hb
          intro h
          have := ih (q ++ [goBound f (cost f a)]) b h
          simp only [List.getLast?_cons, this]
          simp

/-- **What each exit of the loop guarantees, for arbitrary integer weights.**
    The result is always a model with its true cost. Leaving because the solver answered Unsat
    yields a true optimum (even with negative weights). Leaving at `cost == 0` only yields cost 0.
    A panic of `NewPBClause` happens only when the current cost exceeds `Σ w`. -/
theorem loop_result (hc : Contract Q solveFn) (hnz : LitsNZ f) :
    ∀ (k : Nat) (q : Problem) (a : Asg), Q q → Problem.holds a q = true →
    Problem.holds (loop solveFn f k q a).last.1 q = true ∧
    (loop solveFn f k q a).last.2 = cost f (loop solveFn f k q a).last.1 ∧
    ((loop solveFn f k q a).stop = .unsat → IsOptimum q f (loop solveFn f k q a).last.1) ∧
    ((loop solveFn f k q a).stop = .exit0 → (loop solveFn f k q a).last.2 = 0) ∧
    ((loop solveFn f k q a).stop = .panic → sumW f < (loop solveFn f k q a).last.2) := by
  intro k
  induction k with
  | zero => intro q a _ ha; simp [loop, ha]
  | succ k ih =>
    intro q a hq ha
    unfold loop
    simp only
    split
    · rename_i h0
      simp [ha, h0]
    · split
      · rename_i hp
        simp only [ha, true_and, reduceCtorEq, false_implies, forall_const]
        omega
      · split
        · rename_i hn
          simp only [ha, true_and, reduceCtorEq, false_implies, and_true, forall_const]
          refine ⟨ha, ?_⟩
          intro x hx
          by_cases hlt : cost f x ≤ cost f a - 1
          · exact absurd ⟨x, (holds_step f hnz q _ x).2 ⟨hx, hlt⟩⟩
              (hc.complete _ (hQ q _ hq) hn)
          · omega
        · rename_i b hb
          have hq' := hQ q (cost f a) hq
          have hb' := hc.sound _ b hq' hb
          obtain ⟨h1, h2, h3, h4, h5⟩ := ih _ b hq' hb'
          refine ⟨((holds_step f hnz q _ _).1 h1).1, h2, ?_, h4, h5⟩
          intro hu
          exact isOptimum_of_step f hnz q _ _ (h3 hu)

/-! ### non-negative weights: no panic, the fuel suffices -/

theorem loop_no_panic (hc : Contract Q solveFn) (hnz : LitsNZ f) (hnn : NonNeg f)
    (k : Nat) (q : Problem) (a : Asg) (hq : Q q) (ha : Problem.holds a q = true) :
    (loop solveFn f k q a).stop ≠ .panic := by
  intro h
  obtain ⟨_, h2, _, _, h5⟩ := loop_result solveFn f Q hQ hc hnz k q a hq ha
  have := h5 h
  have := cost_le_sumW f (loop solveFn f k q a).last.1 hnn
  omega

/-- The cost strictly decreases and stays `≥ 0`: `cost + 1` rounds are enough. -/
theorem loop_fuel (hs : ∀ q a, Q q → solveFn q = some a → Problem.holds a q = true)
    (hnz : LitsNZ f) (hnn : NonNeg f) :
    ∀ (k : Nat) (q : Problem) (a : Asg), Q q → Problem.holds a q = true →
    (cost f a).toNat < k → (loop solveFn f k q a).stop ≠ .fuel := by
  intro k
  induction k with
  | zero => intro q a _ _ h; omega
  | succ k ih =>
    intro q a hq ha hk
    unfold loop
    simp only
    split
    · simp
    · split
      · simp
      · split
        · simp
        · rename_i h0 _ b hb
          have hq' := hQ q (cost f a) hq
          have hb' := hs _ b hq' hb
          have hlt := ((holds_step f hnz q _ b).1 hb').2
          have h1 := cost_nonneg f a hnn
          have h2 := cost_nonneg f b hnn
          exact ih _ b hq' hb' (by omega)

/-- Generic form of the main theorem (contract restricted to the problems satisfying `Q`). -/
theorem optimal_spec (hc : Contract Q solveFn) (hnz : LitsNZ f) (hnn : NonNeg f)
    (p : Problem) (hp : Q p) (fuel : Nat) (hfuel : enoughFuel f ≤ fuel) (hsat : Satisfiable p) :
    ∃ a c s, optimal solveFn p f fuel = .ok a c s ∧ IsOptimum p f a ∧ c = cost f a ∧
      s.getLast? = some (a, c) ∧ (s.map (·.2)).Pairwise (· > ·) ∧
      ∀ x ∈ s, Problem.holds x.1 p = true ∧ x.2 = cost f x.1 := by
  unfold optimal
  cases hsol : solveFn p with
  | none => exact absurd hsat (hc.complete p hp hsol)
  | some a0 =>
    dsimp only
    have ha0 := hc.sound p a0 hp hsol
    have hk : (cost f a0).toNat < fuel := by
      have := cost_le_sumW f a0 hnn
      unfold enoughFuel at hfuel
      omega
    have hfu := loop_fuel solveFn f Q hQ hc.sound hnz hnn fuel p a0 hp ha0 hk
    have hpa := loop_no_panic solveFn f Q hQ hc hnz hnn fuel p a0 hp ha0
    obtain ⟨h1, h2, h3, h4, _⟩ := loop_result solveFn f Q hQ hc hnz fuel p a0 hp ha0
    obtain ⟨hs1, hs2⟩ := loop_stream solveFn f Q hQ hc.sound hnz fuel p a0 hp ha0
    have hl := loop_last solveFn f fuel p a0 hfu
    generalize loop solveFn f fuel p a0 = r at *
    obtain ⟨s, ⟨m, c⟩, st⟩ := r
    simp only at *
    cases st with
    | fuel => exact absurd rfl hfu
    | panic => exact absurd rfl hpa
    | unsat => exact ⟨m, c, s, rfl, h3 rfl, h2, hl, hs2, hs1⟩
    | exit0 =>
      refine ⟨m, c, s, rfl, ?_, h2, hl, hs2, hs1⟩
      exact minimize_early_exit p f m hnn h1 (by have := h4 rfl; omega)

omit hQ in
theorem optimal_unsat_spec (hs : ∀ q a, Q q → solveFn q = some a → Problem.holds a q = true)
    (p : Problem) (hp : Q p) (fuel : Nat) (hun : ¬ Satisfiable p) :
    optimal solveFn p f fuel = .unsat := by
  unfold optimal
  cases hsol : solveFn p with
  | none => rfl
  | some a0 => exact absurd ⟨a0, hs p a0 hp hsol⟩ hun

end

/-! ### main theorems, oracle with the unrestricted contract -/

/-- **minimize_optimal.** Non-negative weights, non-zero literals, any oracle that returns a model
    when there is one and `none` otherwise, fuel at least `Σ w + 2`: on a satisfiable problem the
    loop returns `(a, c)` where `a` is an optimum, `c` its cost; the result is the last pair streamed;
    the streamed costs are strictly decreasing and every streamed pair is a model with its cost. -/
theorem minimize_optimal (solveFn : Problem → Option Asg) (p : Problem) (f : List (Int × Int))
    (fuel : Nat) (hc : Contract (fun _ => True) solveFn) (hnz : LitsNZ f) (hnn : NonNeg f)
    (hfuel : enoughFuel f ≤ fuel) (hsat : Satisfiable p) :
    ∃ a c s, optimal solveFn p f fuel = .ok a c s ∧ IsOptimum p f a ∧ c = cost f a ∧
      s.getLast? = some (a, c) ∧ (s.map (·.2)).Pairwise (· > ·) ∧
      ∀ x ∈ s, Problem.holds x.1 p = true ∧ x.2 = cost f x.1 :=
  optimal_spec solveFn f (fun _ => True) (fun _ _ _ => trivial) hc hnz hnn p trivial fuel hfuel hsat

/-- The contract is not vacuous: the exhaustive oracle meets it on the problems over `1..n`
    (`bruteSolve_contract`, used through the `Q`-relative form `optimal_spec` in `optimalBrute_spec`). -/
example : Contract (fun q => q.wf 3 = true) (bruteSolve 3) := by
  constructor
  · intro q a _ h
    unfold bruteSolve bruteWitness at h
    cases hf : (leaves 3).find? (fun bs => Problem.holds (asgOf bs) q) with
    | none => rw [hf] at h; simp at h
    | some bs =>
      rw [hf] at h
      simp at h
      subst h
      have := List.find?_some hf
      simpa using this
  · intro q hq h hsat
    unfold bruteSolve bruteWitness at h
    simp only [Option.map_eq_none_iff, List.find?_eq_none] at h
    have := (bruteSat_iff 3 q hq).2 hsat
    unfold bruteSat at this
    rw [List.any_eq_true] at this
    obtain ⟨bs, hbs, hh⟩ := this
    exact h bs hbs hh

/-- The same, phrased on `minimize : Option (Asg × Int)`. -/
theorem minimize_optimal' (solveFn : Problem → Option Asg) (p : Problem) (f : List (Int × Int))
    (fuel : Nat) (hc : Contract (fun _ => True) solveFn) (hnz : LitsNZ f) (hnn : NonNeg f)
    (hfuel : enoughFuel f ≤ fuel) (hsat : Satisfiable p) :
    ∃ a c, minimize solveFn p f fuel = some (a, c) ∧ Problem.holds a p = true ∧ c = cost f a ∧
      (∀ b, Problem.holds b p = true → c ≤ cost f b) ∧ IsOptimum p f a := by
  obtain ⟨a, c, s, h, hopt, hcost, _⟩ := minimize_optimal solveFn p f fuel hc hnz hnn hfuel hsat
  refine ⟨a, c, ?_, hopt.1, hcost, ?_, hopt⟩
  · unfold minimize; rw [h]
  · intro b hb; rw [hcost]; exact hopt.2 b hb

/-- **minimize_unsat.** On an unsatisfiable problem the result is `Unsat` (`Minimize` returns -1). -/
theorem minimize_unsat (solveFn : Problem → Option Asg) (p : Problem) (f : List (Int × Int))
    (fuel : Nat) (hc : Contract (fun _ => True) solveFn) (hun : ¬ Satisfiable p) :
    optimal solveFn p f fuel = .unsat ∧ minimize solveFn p f fuel = none ∧
      (optimal solveFn p f fuel).minimizeResult = some (-1) := by
  have h := optimal_unsat_spec solveFn f (fun _ => True)
    (fun q a hq => hc.sound q a hq) p trivial fuel hun
  refine ⟨h, ?_, ?_⟩
  · unfold minimize; rw [h]
  · rw [h]; rfl

/-- Conversely `Unsat` is only reported for unsatisfiable problems. -/
theorem optimal_unsat_only (solveFn : Problem → Option Asg) (p : Problem) (f : List (Int × Int))
    (fuel : Nat) (hc : Contract (fun _ => True) solveFn)
    (h : optimal solveFn p f fuel = .unsat) : ¬ Satisfiable p := by
  unfold optimal at h
  cases hsol : solveFn p with
  | none => exact hc.complete p trivial hsol
  | some a0 =>
    rw [hsol] at h
    simp only at h
    split at h <;> cases h

/-- **C20.** The costs sent on the `results` channel are strictly decreasing — for arbitrary
    integer weights, any fuel, and an oracle that is merely sound. -/
theorem stream_strictly_decreasing (solveFn : Problem → Option Asg) (p : Problem)
    (f : List (Int × Int)) (fuel : Nat)
    (hs : ∀ q a, solveFn q = some a → Problem.holds a q = true) (hnz : LitsNZ f) :
    (optimal solveFn p f fuel).costs.Pairwise (· > ·) := by
  unfold optimal
  cases hsol : solveFn p with
  | none => simp [Outcome.costs]
  | some a0 =>
    have := (loop_stream solveFn f (fun _ => True) (fun _ _ _ => trivial)
      (fun q a _ => hs q a) hnz fuel p a0 trivial (hs p a0 hsol)).2
    simp only
    split <;> simpa [Outcome.costs] using this

/-- No cost function (`s.minLits == nil`, or an empty one): the first model, cost 0. -/
theorem loop_nil (solveFn : Problem → Option Asg) (k : Nat) (p : Problem) (a : Asg) :
    (loop solveFn [] (k + 1) p a).last = (a, 0) ∧ (loop solveFn [] (k + 1) p a).stop = .exit0 := by
  simp [loop, cost, lhs]

/-! ### the exhaustive oracle meets the contract on well-formed problems -/

theorem mem_insertDesc (t x : Int × Int) : ∀ l, x ∈ insertDesc t l → x = t ∨ x ∈ l := by
  intro l
  induction l with
  | nil => intro h; simp [insertDesc] at h; exact Or.inl h
  | cons u us ih =>
    simp only [insertDesc]
    split
    · intro h
      simp only [List.mem_cons] at h ⊢
      rcases h with h | h
      · exact Or.inr (Or.inl h)
      · rcases ih h with h | h
        · exact Or.inl h
        · exact Or.inr (Or.inr h)
    · intro h
      simpa using h

theorem mem_sortDesc (x : Int × Int) : ∀ l, x ∈ sortDesc l → x ∈ l := by
  intro l
  induction l with
  | nil => intro h; simp [sortDesc] at h
  | cons t ts ih =>
    intro h
    rcases mem_insertDesc t x _ h with h | h
    · simp [h]
    · simp [ih h]

theorem mem_stripZeros (x : Int × Int) : ∀ l, x ∈ stripZeros l → x ∈ l := by
  intro l
  induction l with
  | nil => intro h; simp [stripZeros] at h
  | cons t ts ih =>
    simp only [stripZeros]
    split
    · split
      · intro h; simp at h
      · intro h; simp at h; simp [h]
    · rename_i r rs hr
      rw [hr] at ih
      intro h
      simp only [List.mem_cons] at h ⊢
      rcases h with h | h
      · exact Or.inl h
      · exact Or.inr (ih (by simpa using h))

theorem litOk_neg (n : Nat) (l : Int) : litOk n (-l) = litOk n l := by
  unfold litOk
  have : (-l != 0) = (l != 0) := by
    by_cases h : l = 0
    · subst h; rfl
    · have h' : -l ≠ 0 := by omega
      have a : (l != 0) = true := by simpa using h
      have b : (-l != 0) = true := bne_iff_ne.2 h'
      rw [a, b]
  rw [this, Int.natAbs_neg]

theorem goBound_wf (n : Nat) (f : List (Int × Int)) (c : Int) (hf : termsWf n f = true) :
    (goBound f c).wf n = true := by
  unfold Lin.wf goBound
  unfold termsWf at hf
  rw [List.all_eq_true] at hf ⊢
  intro x hx
  have hx := mem_sortDesc x _ (mem_stripZeros x _ hx)
  unfold negTerms at hx
  rw [List.mem_map] at hx
  obtain ⟨t, ht, rfl⟩ := hx
  simp only [litOk_neg]
  exact hf t ht

theorem wf_append (n : Nat) (q : Problem) (c : Lin) (hq : q.wf n = true) (hc : c.wf n = true) :
    Problem.wf n (q ++ [c]) = true := by
  unfold Problem.wf at *
  simp [List.all_append, hq, hc]

theorem bruteSolve_contract (n : Nat) : Contract (fun q => q.wf n = true) (bruteSolve n) := by
  constructor
  · intro q a _ h
    unfold bruteSolve bruteWitness at h
    cases hf : (leaves n).find? (fun bs => Problem.holds (asgOf bs) q) with
    | none => rw [hf] at h; simp at h
    | some bs =>
      rw [hf] at h
      simp at h
      subst h
      have := List.find?_some hf
      simpa using this
  · intro q hq h hsat
    unfold bruteSolve bruteWitness at h
    simp only [Option.map_eq_none_iff, List.find?_eq_none] at h
    have := (bruteSat_iff n q hq).2 hsat
    unfold bruteSat at this
    rw [List.any_eq_true] at this
    obtain ⟨bs, hbs, hh⟩ := this
    exact h bs hbs hh

theorem litsNZ_of_wf (n : Nat) (f : List (Int × Int)) (hf : termsWf n f = true) : LitsNZ f := by
  intro t ht
  unfold termsWf at hf
  rw [List.all_eq_true] at hf
  have := hf t ht
  unfold litOk at this
  simp at this
  exact this.1

/-- The executable loop (exhaustive oracle over `1..n`) returns an optimum on every well-formed
    satisfiable input with non-negative weights… -/
theorem optimalBrute_spec (n : Nat) (p : Problem) (f : List (Int × Int)) (hp : p.wf n = true)
    (hf : termsWf n f = true) (hnn : NonNeg f) (hsat : Satisfiable p) :
    ∃ a c s, optimalBrute n p f = .ok a c s ∧ IsOptimum p f a ∧ c = cost f a ∧
      s.getLast? = some (a, c) ∧ (s.map (·.2)).Pairwise (· > ·) ∧
      ∀ x ∈ s, Problem.holds x.1 p = true ∧ x.2 = cost f x.1 :=
  optimal_spec (bruteSolve n) f (fun q => q.wf n = true)
    (fun q c hq => wf_append n q _ hq (goBound_wf n f c hf))
    (bruteSolve_contract n) (litsNZ_of_wf n f hf) hnn p hp _ (Nat.le_refl _) hsat

/-- … hence agrees with the verified oracle `bruteOpt` on all such inputs. -/
theorem minimizeBrute_eq_bruteOpt (n : Nat) (p : Problem) (f : List (Int × Int))
    (hp : p.wf n = true) (hf : termsWf n f = true) (hnn : NonNeg f) :
    minimizeBruteCost n p f = bruteOpt n p f := by
  by_cases hsat : Satisfiable p
  · obtain ⟨a, c, s, h, hopt, hc, _⟩ := optimalBrute_spec n p f hp hf hnn hsat
    have h1 : minimizeBruteCost n p f = some c := by
      unfold minimizeBruteCost minimizeBrute minimize
      unfold optimalBrute at h
      rw [h]; rfl
    cases hb : bruteOpt n p f with
    | none => exact absurd hsat ((bruteOpt_none n p f hp).1 hb)
    | some m =>
      have := bruteOpt_unique n p f m hp hf hb a hopt
      rw [h1, hc, this]
  · have h := optimal_unsat_spec (bruteSolve n) f (fun q => q.wf n = true)
      (bruteSolve_contract n).sound p hp (enoughFuel f) hsat
    have h1 : minimizeBruteCost n p f = none := by
      unfold minimizeBruteCost minimizeBrute minimize
      rw [h]; rfl
    rw [h1, (bruteOpt_none n p f hp).2 hsat]


/-! ### shape of what Go appends: sorted, and (non-negative weights) all weights positive, degree ≥ 1

`NewPBClause` / the PB propagation code expect weights sorted in decreasing order, strictly
positive, and a degree `≥ 1`. For non-negative cost weights the loop always provides that. -/

theorem insertDesc_sorted (t : Int × Int) : ∀ l : List (Int × Int),
    l.Pairwise (fun x y => x.1 ≥ y.1) → (insertDesc t l).Pairwise (fun x y => x.1 ≥ y.1) := by
  intro l
  induction l with
  | nil => intro _; simp [insertDesc]
  | cons u us ih =>
    intro h
    rw [List.pairwise_cons] at h
    simp only [insertDesc]
    split
    · rename_i hgt
      rw [List.pairwise_cons]
      refine ⟨?_, ih h.2⟩
      intro x hx
      rcases mem_insertDesc t x us hx with rfl | hx
      · omega
      · exact h.1 x hx
    · rename_i hle
      rw [List.pairwise_cons, List.pairwise_cons]
      refine ⟨?_, h⟩
      intro x hx
      simp only [List.mem_cons] at hx
      rcases hx with rfl | hx
      · omega
      · have := h.1 x hx; omega

theorem sortDesc_sorted : ∀ l : List (Int × Int), (sortDesc l).Pairwise (fun x y => x.1 ≥ y.1) := by
  intro l
  induction l with
  | nil => simp [sortDesc]
  | cons t ts ih => exact insertDesc_sorted t _ ih

theorem stripZeros_sublist : ∀ l : List (Int × Int), (stripZeros l).Sublist l := by
  intro l
  induction l with
  | nil => simp [stripZeros]
  | cons t ts ih =>
    simp only [stripZeros]
    split
    · split
      · exact List.nil_sublist _
      · exact List.Sublist.cons_cons t (List.nil_sublist _)
    · rename_i r rs hr
      rw [hr] at ih
      exact List.Sublist.cons_cons t ih

theorem hypothesis_sorted (f : List (Int × Int)) :
    (hypothesis f).Pairwise (fun x y => x.1 ≥ y.1) :=
  List.Pairwise.sublist (stripZeros_sublist _) (sortDesc_sorted _)

theorem stripZeros_pos : ∀ l : List (Int × Int), l.Pairwise (fun x y => x.1 ≥ y.1) →
    (∀ t ∈ l, 0 ≤ t.1) → ∀ x ∈ stripZeros l, 0 < x.1 := by
  intro l
  induction l with
  | nil => intro _ _ x hx; simp [stripZeros] at hx
  | cons t ts ih =>
    intro hs hnn
    rw [List.pairwise_cons] at hs
    have ih' := ih hs.2 (fun u hu => hnn u (by simp [hu]))
    have ht := hnn t (by simp)
    simp only [stripZeros]
    split
    · split
      · intro x hx; simp at hx
      · intro x hx
        simp at hx
        subst hx
        omega
    · rename_i r rs hr
      rw [hr] at ih'
      intro x hx
      simp only [List.mem_cons] at hx
      have hr0 : 0 < r.1 := ih' r (by simp)
      have hrm : r ∈ ts := mem_stripZeros r ts (by rw [hr]; simp)
      rcases hx with rfl | hx
      · have := hs.1 r hrm; omega
      · exact ih' x (by simpa using hx)

/-- For non-negative cost weights every weight of the appended constraint is strictly positive
    (all zero weights are dropped). -/
theorem hypothesis_pos (f : List (Int × Int)) (hnn : NonNeg f) : ∀ x ∈ hypothesis f, 0 < x.1 := by
  apply stripZeros_pos _ (sortDesc_sorted _)
  intro t ht
  have := mem_sortDesc t _ ht
  unfold negTerms at this
  rw [List.mem_map] at this
  obtain ⟨u, hu, rfl⟩ := this
  exact hnn u hu

/-- For non-negative cost weights the degree passed to `NewPBClause` is always `≥ 1`
    whatever the current model (so `NewPBClause` cannot panic; cf. `loop_no_panic`). -/
theorem goBound_degree_pos (f : List (Int × Int)) (a : Asg) (hnn : NonNeg f) :
    1 ≤ (goBound f (cost f a)).degree := by
  have := cost_le_sumW f a hnn
  unfold goBound
  simp only
  omega

/-! ### concrete instances -/

/-- hypotheses of `minimize_optimal` / `minimizeBrute_eq_bruteOpt` on a non-trivial input:
    `x1 ∨ x2`, `¬x1 ∨ x3`, cost `3·x1 + 2·x2 + 0·x3 + 2·¬x3`. -/
example : Problem.wf 3 [Lin.ofClause [1, 2], Lin.ofClause [-1, 3]] = true ∧
    termsWf 3 [(3, 1), (2, 2), (0, 3), (2, -3)] = true ∧ NonNeg [(3, 1), (2, 2), (0, 3), (2, -3)] ∧
    LitsNZ [(3, 1), (2, 2), (0, 3), (2, -3)] := by decide

example : minimizeBruteCost 3 [Lin.ofClause [1, 2], Lin.ofClause [-1, 3]]
      [(3, 1), (2, 2), (0, 3), (2, -3)] = some 2 ∧
    (optimalBrute 3 [Lin.ofClause [1, 2], Lin.ofClause [-1, 3]]
      [(3, 1), (2, 2), (0, 3), (2, -3)]).costs = [4, 2] ∧
    bruteOpt 3 [Lin.ofClause [1, 2], Lin.ofClause [-1, 3]] [(3, 1), (2, 2), (0, 3), (2, -3)] = some 2 := by
  decide

/-- What Go appends for that cost function at cost 4: sorted, zero weight dropped, degree 7-4+1. -/
example : goBound [(3, 1), (2, 2), (0, 3), (2, -3)] 4 = ⟨[(3, -1), (2, -2), (2, 3)], 4⟩ := by decide

/-- **negative_weight_counterexample.** Cost function `−1·x1`, no constraint, one variable.
    The first model found by the exhaustive oracle is `x1 = false`, of cost 0: the loop leaves
    through `cost == 0` and reports 0, whereas the minimum is −1 (`x1 = true`).
    The oracle used satisfies the contract (`bruteSolve_contract`), so this is a defect of the
    loop, not of the oracle. Observed on the Go code as well: `ParsePBConstrs([PropClause(1,-1)])`,
    `SetCostFunc([x1], [-1])`, `Minimize()` returns 0. -/
theorem negative_weight_counterexample :
    minimizeBruteCost 1 [] [(-1, 1)] = some 0 ∧ bruteOpt 1 [] [(-1, 1)] = some (-1) ∧
    minimizeBruteCost 1 [] [(-1, 1)] ≠ bruteOpt 1 [] [(-1, 1)] := by decide

/-- Second defect with negative weights: cost `−1·x1 + 1·x2` under the clause `x2`.
    `maxCost = 0`, the first model `x1 = false, x2 = true` costs 1, so the degree passed to
    `NewPBClause` is `0 − 1 + 1 = 0 < 1`: panic ("Invalid cardinality value"). -/
theorem negative_weight_panic :
    (optimalBrute 2 [Lin.ofClause [2]] [(-1, 1), (1, 2)]).minimizeResult = none ∧
    (optimalBrute 2 [Lin.ofClause [2]] [(-1, 1), (1, 2)]).costs = [1] ∧
    (goBound [(-1, 1), (1, 2)] 1).degree = 0 ∧
    bruteOpt 2 [Lin.ofClause [2]] [(-1, 1), (1, 2)] = some 0 := by decide

/-- With negative weights the zero-stripping of Go does not remove all zero weights
    (they are no longer at the end after sorting) — harmless for the semantics (`goBound_holds`). -/
example : hypothesis [(0, 1), (-1, 2)] = [(0, -1), (-1, -2)] := by decide

end GS.Optim
