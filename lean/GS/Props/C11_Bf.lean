import GS.Model.Bf
import GS.Props.C11_Unique
/-!
# C11 (formula side): `nnf` and the truth table; `nnf` lands in the grammar `cnfRec` accepts

`Unique(names...)` is the node `F.unique`. `nnf` replaces it by `uniqueRec(u...).nnf()` where it
must hold and by `u.negation().nnf()` where it must not (`GS/Model/Bf.lean`). Hence:

* `nnf_eval` — *same truth value under every assignment* — holds on the formulas whose groups in
  positive position have at most 4 names (`smallPos`; no restriction on the groups in negative
  position): there `nnf` introduces no dummy variable;
* for every formula: `nnf_sound` (a model of `f.nnf()`, whatever it gives to the dummies, is a
  model of `f`), `nnf_eval_coh` (same truth value under every assignment whose line / column
  dummies are the disjunctions of their members) and `nnf_complete` / `nnf_models` (the models
  of `f` are the restrictions to the problem variables of the models of `f.nnf()`).
-/
namespace GS.Bf
open GS.BfUnique (uniqueRec uniqueRecN uniqueRecF natDims natName)

/-! ## `nnf` and `Eval` -/

theorem andFold_eval (m) : ∀ (xs acc : List F), eval m (andFold xs acc) = (evalAll m acc && evalAll m xs) := by
  intro xs
  induction xs with
  | nil =>
    intro acc
    unfold andFold
    split <;> simp [eval, evalAll]
  | cons x xs ih =>
    intro acc
    cases x <;> simp [andFold, ih, eval, evalAll, evalAll_append, Bool.and_assoc]

theorem orFold_eval (m) : ∀ (xs acc : List F), eval m (orFold xs acc) = (evalAny m acc || evalAny m xs) := by
  intro xs
  induction xs with
  | nil =>
    intro acc
    unfold orFold
    split <;> simp [eval, evalAny]
  | cons x xs ih =>
    intro acc
    cases x <;> simp [orFold, ih, eval, evalAny, evalAny_append, Bool.or_assoc]

/-! ### the recursion, for an arbitrary treatment `X` of the `unique` nodes -/

section evalX
set_option linter.unusedSectionVars false
variable (m : Key → Bool) (X : Bool → List Key → F) (q : Bool → List Key → Bool)
  (hX : ∀ b ks, q b ks = true → eval m (X b ks) = (eval m (.unique ks) != b))
include hX

mutual
theorem nnfPX_eval : ∀ (b : Bool) (f : F), allU q b f = true → eval m (nnfPX X b f) = (eval m f != b)
  | false, .var n d, _ => by simp [nnfPX, eval]
  | true, .var n d, _ => by simp [nnfPX, eval]
  | b, .lit n d neg, _ => by cases b <;> cases neg <;> simp [nnfPX, eval]
  | false, .not f, h => by
      have := nnfPX_eval true f (by simpa [allU] using h)
      simp [nnfPX, eval, this]
  | true, .not f, h => by
      have := nnfPX_eval false f (by simpa [allU] using h)
      simp [nnfPX, eval, this]
  | false, .and fs, h => by
      simp [nnfPX, andFold_eval, eval, evalAll, nnfPsX_all fs (by simpa [allU] using h)]
  | true, .and fs, h => by
      simp [nnfPX, orFold_eval, eval, evalAny, nnfPsX_any_neg fs (by simpa [allU] using h)]
  | false, .or fs, h => by
      simp [nnfPX, orFold_eval, eval, evalAny, nnfPsX_any fs (by simpa [allU] using h)]
  | true, .or fs, h => by
      simp [nnfPX, andFold_eval, eval, evalAll, nnfPsX_all_neg fs (by simpa [allU] using h)]
  | false, .tt, _ => by simp [nnfPX, eval]
  | true, .tt, _ => by simp [nnfPX, eval]
  | false, .ff, _ => by simp [nnfPX, eval]
  | true, .ff, _ => by simp [nnfPX, eval]
  | b, .unique ks, h => by
      simp only [nnfPX]; exact hX b ks (by simpa [allU] using h)
theorem nnfPsX_all : ∀ fs : List F, allUs q false fs = true → evalAll m (nnfPsX X false fs) = evalAll m fs
  | [], _ => by simp [nnfPsX, evalAll]
  | f :: fs, h => by
      simp only [allUs, Bool.and_eq_true] at h
      simp [nnfPsX, evalAll, nnfPX_eval false f h.1, nnfPsX_all fs h.2]
theorem nnfPsX_any : ∀ fs : List F, allUs q false fs = true → evalAny m (nnfPsX X false fs) = evalAny m fs
  | [], _ => by simp [nnfPsX, evalAny]
  | f :: fs, h => by
      simp only [allUs, Bool.and_eq_true] at h
      simp [nnfPsX, evalAny, nnfPX_eval false f h.1, nnfPsX_any fs h.2]
theorem nnfPsX_any_neg : ∀ fs : List F, allUs q true fs = true → evalAny m (nnfPsX X true fs) = !evalAll m fs
  | [], _ => by simp [nnfPsX, evalAny, evalAll]
  | f :: fs, h => by
      simp only [allUs, Bool.and_eq_true] at h
      simp [nnfPsX, evalAny, evalAll, nnfPX_eval true f h.1, nnfPsX_any_neg fs h.2, Bool.not_and]
theorem nnfPsX_all_neg : ∀ fs : List F, allUs q true fs = true → evalAll m (nnfPsX X true fs) = !evalAny m fs
  | [], _ => by simp [nnfPsX, evalAny, evalAll]
  | f :: fs, h => by
      simp only [allUs, Bool.and_eq_true] at h
      simp [nnfPsX, evalAny, evalAll, nnfPX_eval true f h.1, nnfPsX_all_neg fs h.2, Bool.not_or]
end
end evalX

section soundX
set_option linter.unusedSectionVars false
variable (m : Key → Bool) (X : Bool → List Key → F)
  (hX : ∀ b ks, eval m (X b ks) = true → (eval m (.unique ks) != b) = true)
include hX

mutual
/-- one direction only, but for every tree: a model of the normal form is a model of the formula -/
theorem nnfPX_sound : ∀ (b : Bool) (f : F), eval m (nnfPX X b f) = true → (eval m f != b) = true
  | false, .var n d, h => by simpa [nnfPX, eval] using h
  | true, .var n d, h => by simpa [nnfPX, eval] using h
  | b, .lit n d neg, h => by cases b <;> cases neg <;> simpa [nnfPX, eval] using h
  | false, .not f, h => by
      have := nnfPX_sound true f (by simpa [nnfPX] using h)
      simpa [eval] using this
  | true, .not f, h => by
      have := nnfPX_sound false f (by simpa [nnfPX] using h)
      simpa [eval] using this
  | false, .and fs, h => by
      simp only [nnfPX, andFold_eval, evalAll, Bool.true_and] at h
      simpa [eval] using nnfPsX_all_s fs h
  | true, .and fs, h => by
      simp only [nnfPX, orFold_eval, evalAny, Bool.false_or] at h
      simpa [eval] using nnfPsX_any_neg_s fs h
  | false, .or fs, h => by
      simp only [nnfPX, orFold_eval, evalAny, Bool.false_or] at h
      simpa [eval] using nnfPsX_any_s fs h
  | true, .or fs, h => by
      simp only [nnfPX, andFold_eval, evalAll, Bool.true_and] at h
      simpa [eval] using nnfPsX_all_neg_s fs h
  | false, .tt, _ => by simp [eval]
  | true, .tt, h => by simp [nnfPX, eval] at h
  | false, .ff, h => by simp [nnfPX, eval] at h
  | true, .ff, _ => by simp [eval]
  | b, .unique ks, h => by
      simp only [nnfPX] at h; exact hX b ks h
theorem nnfPsX_all_s : ∀ fs : List F, evalAll m (nnfPsX X false fs) = true → evalAll m fs = true
  | [], _ => by simp [evalAll]
  | f :: fs, h => by
      simp only [nnfPsX, evalAll, Bool.and_eq_true] at h
      have h1 := nnfPX_sound false f h.1
      simp only [evalAll, nnfPsX_all_s fs h.2, Bool.and_true]
      simpa using h1
theorem nnfPsX_any_s : ∀ fs : List F, evalAny m (nnfPsX X false fs) = true → evalAny m fs = true
  | [], h => by simp [nnfPsX, evalAny] at h
  | f :: fs, h => by
      simp only [nnfPsX, evalAny, Bool.or_eq_true] at h
      simp only [evalAny, Bool.or_eq_true]
      rcases h with h | h
      · left; simpa using nnfPX_sound false f h
      · right; exact nnfPsX_any_s fs h
theorem nnfPsX_any_neg_s : ∀ fs : List F, evalAny m (nnfPsX X true fs) = true → evalAll m fs = false
  | [], h => by simp [nnfPsX, evalAny] at h
  | f :: fs, h => by
      simp only [nnfPsX, evalAny, Bool.or_eq_true] at h
      simp only [evalAll, Bool.and_eq_false_iff]
      rcases h with h | h
      · left; simpa using nnfPX_sound true f h
      · right; exact nnfPsX_any_neg_s fs h
theorem nnfPsX_all_neg_s : ∀ fs : List F, evalAll m (nnfPsX X true fs) = true → evalAny m fs = false
  | [], _ => by simp [evalAny]
  | f :: fs, h => by
      simp only [nnfPsX, evalAll, Bool.and_eq_true] at h
      have h1 := nnfPX_sound true f h.1
      simp only [evalAny, nnfPsX_all_neg_s fs h.2, Bool.or_false]
      simpa using h1
end
end soundX

/-! ### the two steps: `nnf0P` (formulas without `unique` node), `uniqueX`, `nnfP` -/

/-- on a formula without `unique` node, `nnf` keeps the truth table (this is the statement before
    `unique` became a node) -/
theorem nnf0P_eval (m : Key → Bool) (b : Bool) (f : F) (h : noU f = true) :
    eval m (nnf0P b f) = (eval m f != b) :=
  nnfPX_eval m _ (fun _ _ => false) (by intro b ks hq; simp at hq) b f (allU_of_noU _ b f h)

/-- **negative position: exact.** The case `unique` of `not.nnf`, `f.negation().nnf()`, is true
    iff *not* exactly one position of the group is true — any number of variables, repeated or
    not, under every assignment. -/
theorem uniqueX_true_eval (m : Key → Bool) (ks : List Key) :
    eval m (uniqueX true ks) = !eval m (.unique ks) := by
  simp only [uniqueX, uniqueXD, if_true]
  rw [nnf0P_eval m false _ (negation_noU ks), negation_eval_unique]; simp

/-- positive position: `unique.nnf()` has the truth table of `uniqueRec(u...)` -/
theorem uniqueX_false_eval (m : Key → Bool) (ks : List Key) :
    eval m (uniqueX false ks) = eval m (uniqueRec natDims ks) := by
  simp only [uniqueX, uniqueXD, Bool.false_eq_true, if_false]
  rw [nnf0P_eval m false _ (show noU (uniqueRec natDims ks) = true from GS.BfUnique.uniqueRecF_noU _ _ _ _)]; simp

/-- positive position, at most 4 variables (`uniqueSmall`): exact -/
theorem uniqueX_false_small (m : Key → Bool) (ks : List Key) (h : ks.length ≤ 4) :
    eval m (uniqueX false ks) = eval m (.unique ks) := by
  rw [uniqueX_false_eval]
  exact GS.BfUnique.uniqueRecF_small natDims natName m _ ks h

/-- positive position, any size, any values of the dummies: the clauses of `uniqueRec` *imply*
    that exactly one position is true -/
theorem uniqueX_false_sound (m : Key → Bool) (ks : List Key) (h : eval m (uniqueX false ks) = true) :
    eval m (.unique ks) = true := by
  rw [uniqueX_false_eval] at h
  have := GS.BfUnique.uniqueRecN_sound natDims natName GS.BfUnique.natDims_ok m ks h
  simp [eval, this]

theorem uniqueX_sound (m : Key → Bool) (b : Bool) (ks : List Key) (h : eval m (uniqueX b ks) = true) :
    (eval m (.unique ks) != b) = true := by
  cases b
  · simpa using uniqueX_false_sound m ks h
  · rw [uniqueX_true_eval] at h; simpa using h

/-- `nnfP` on the fragment where it keeps the truth table under every assignment -/
theorem nnfP_eval (m : Key → Bool) (b : Bool) (f : F)
    (h : allU (fun b ks => b || decide (ks.length ≤ 4)) b f = true) : eval m (nnfP b f) = (eval m f != b) := by
  refine nnfPX_eval m uniqueX _ ?_ b f h
  intro b ks hq
  cases b
  · simp only [Bool.false_or, decide_eq_true_eq] at hq
    simpa using uniqueX_false_small m ks hq
  · rw [uniqueX_true_eval]; simp

/-- **C11, first half.** `f.nnf()` has the truth table of `f`, under every assignment, for every
    tree whose exactly-one groups *in positive position* have at most 4 names (groups in negative
    position: any size): empty `and` (true), empty `or` (false), constants at any depth, nested
    negations, negated groups. (With a larger group in positive position `f.nnf()` mentions dummy
    variables: see `nnf_sound`, `nnf_eval_coh`, `nnf_models`.) -/
theorem nnf_eval (m : Key → Bool) (f : F) (h : smallPos f = true) : eval m (nnf f) = eval m f := by
  simp [nnf, nnfP_eval m false f h]

/-- the formulas of before the repair (no `unique` node) are in the fragment -/
theorem smallPos_of_noU (f : F) (h : noU f = true) : smallPos f = true := allU_of_noU _ _ f h

theorem nnfP_sound (m : Key → Bool) (b : Bool) (f : F) (h : eval m (nnfP b f) = true) :
    (eval m f != b) = true :=
  nnfPX_sound m uniqueX (uniqueX_sound m) b f h

/-- **`nnf_sound`.** Every model of `f.nnf()` — whatever it gives to the dummy variables — is a
    model of `f`: every tree, groups of every size at every polarity. -/
theorem nnf_sound (m : Key → Bool) (f : F) (h : eval m (nnf f) = true) : eval m f = true := by
  simpa using nnfP_sound m false f h

example : nnf (.and [.or [], .not (.not (.var 0 false)), .and []]) = .ff := by
  simp [nnf, nnfP, nnfPX, nnfPsX, andFold, orFold]
example : nnf (.not (.and [.var 0 false, .or [.tt, .var 1 false], .not (.or [])])) = .lit 0 false true := by
  simp [nnf, nnfP, nnfPX, nnfPsX, andFold, orFold]
example : smallPos (.not (uniqueOf [0, 1, 2, 3, 4, 5])) = true := by decide
example : smallPos (implies (uniqueOf [0, 1, 2, 3, 4]) (uniqueOf [5, 6, 7])) = true := by decide
example : smallPos (eq (.var 9 false) (uniqueOf [0, 1, 2, 3, 4])) = false := by decide

/-! ### assignments whose dummies are coherent: same truth value for every formula -/

/-- the keys `uniqueRec` can generate from the problem variables -/
def Gen (k : Key) : Prop := ∃ d, GS.BfUnique.D.name natName d = k

/-- `m` gives every line / column dummy (at every level) the disjunction of its members -/
def Coherent (m : Key → Bool) : Prop := GS.BfUnique.Coh natDims natName Gen m

theorem uniqueX_false_coh (m : Key → Bool) (hc : Coherent m) (ks : List Key)
    (hk : ks.all (fun k => !k.2) = true) : eval m (uniqueX false ks) = eval m (.unique ks) := by
  rw [uniqueX_false_eval, Bool.eq_iff_iff]
  constructor
  · intro h
    have := GS.BfUnique.uniqueRecN_sound natDims natName GS.BfUnique.natDims_ok m ks h
    simp [eval, this]
  · intro h
    refine GS.BfUnique.uniqueRecF_coherent natDims natName GS.BfUnique.natDims_ok Gen m hc _ ks (Nat.le_refl _) ?_ ?_
    · intro k hkm
      have := List.all_eq_true.1 hk k hkm
      obtain ⟨n, d⟩ := k
      simp only [Bool.not_eq_true'] at this
      subst this
      exact ⟨.base n, rfl⟩
    · simpa [eval] using h

mutual
theorem allU_of_allK (p : Key → Bool) : ∀ (b : Bool) (f : F), allK p f = true → allU (fun _ ks => ks.all p) b f = true
  | _, .var _ _, _ => by simp [allU]
  | _, .lit _ _ _, _ => by simp [allU]
  | b, .not f, h => by simp only [allU]; exact allU_of_allK p (!b) f (by simpa [allK] using h)
  | b, .and fs, h => by simp only [allU]; exact allUs_of_allKs p b fs (by simpa [allK] using h)
  | b, .or fs, h => by simp only [allU]; exact allUs_of_allKs p b fs (by simpa [allK] using h)
  | _, .tt, _ => by simp [allU]
  | _, .ff, _ => by simp [allU]
  | _, .unique ks, h => by simpa [allU, allK] using h
theorem allUs_of_allKs (p : Key → Bool) : ∀ (b : Bool) (fs : List F), allKs p fs = true → allUs (fun _ ks => ks.all p) b fs = true
  | _, [], _ => by simp [allUs]
  | b, f :: fs, h => by
      simp only [allKs, Bool.and_eq_true] at h
      simp [allUs, allU_of_allK p b f h.1, allUs_of_allKs p b fs h.2]
end

theorem nnfP_eval_coh (m : Key → Bool) (hc : Coherent m) (b : Bool) (f : F) (hu : userOnly f = true) :
    eval m (nnfP b f) = (eval m f != b) := by
  refine nnfPX_eval m uniqueX (fun _ ks => ks.all (fun k => !k.2)) ?_ b f (allU_of_allK _ b f hu)
  intro b ks hq
  cases b
  · simpa using uniqueX_false_coh m hc ks hq
  · rw [uniqueX_true_eval]; simp

/-- **`nnf_eval_coh`.** Under an assignment whose dummies are coherent, `f.nnf()` has the truth
    value of `f`: every formula built through the API, groups of every size at every polarity. -/
theorem nnf_eval_coh (m : Key → Bool) (hc : Coherent m) (f : F) (hu : userOnly f = true) :
    eval m (nnf f) = eval m f := by
  simp [nnf, nnfP_eval_coh m hc false f hu]

mutual
theorem eval_congr (p : Key → Bool) (m m' : Key → Bool) (hm : ∀ k, p k = true → m' k = m k) :
    ∀ f : F, allK p f = true → eval m' f = eval m f
  | .var n d, h => by simp only [eval]; exact hm _ (by simpa [allK] using h)
  | .lit n d s, h => by simp only [eval]; rw [hm _ (by simpa [allK] using h)]
  | .not f, h => by simp only [eval]; rw [eval_congr p m m' hm f (by simpa [allK] using h)]
  | .and fs, h => by simp only [eval]; exact evalAll_congr p m m' hm fs (by simpa [allK] using h)
  | .or fs, h => by simp only [eval]; exact evalAny_congr p m m' hm fs (by simpa [allK] using h)
  | .tt, _ => rfl
  | .ff, _ => rfl
  | .unique ks, h => by
      simp only [allK, List.all_eq_true] at h
      simp only [eval]
      rw [List.map_congr_left (fun k hk => hm k (h k hk))]
theorem evalAll_congr (p : Key → Bool) (m m' : Key → Bool) (hm : ∀ k, p k = true → m' k = m k) :
    ∀ fs : List F, allKs p fs = true → evalAll m' fs = evalAll m fs
  | [], _ => rfl
  | f :: fs, h => by
      simp only [allKs, Bool.and_eq_true] at h
      simp only [evalAll, eval_congr p m m' hm f h.1, evalAll_congr p m m' hm fs h.2]
theorem evalAny_congr (p : Key → Bool) (m m' : Key → Bool) (hm : ∀ k, p k = true → m' k = m k) :
    ∀ fs : List F, allKs p fs = true → evalAny m' fs = evalAny m fs
  | [], _ => rfl
  | f :: fs, h => by
      simp only [allKs, Bool.and_eq_true] at h
      simp only [evalAny, eval_congr p m m' hm f h.1, evalAny_congr p m m' hm fs h.2]
end

/-- a formula built through the API only reads the problem variables -/
theorem eval_congr_user (m m' : Key → Bool) (hm : ∀ n, m' (n, false) = m (n, false)) (f : F)
    (hu : userOnly f = true) : eval m' f = eval m f := by
  refine eval_congr (fun k => !k.2) m m' ?_ f hu
  rintro ⟨n, d⟩ hd
  simp only [Bool.not_eq_true'] at hd
  subst hd
  exact hm n

/-- **`nnf_complete`.** Every model of `f` extends to a model of `f.nnf()`: same values on the
    problem variables, every line / column dummy the disjunction of its members. -/
theorem nnf_complete (m : Key → Bool) (f : F) (hu : userOnly f = true) (h : eval m f = true) :
    ∃ m' : Key → Bool, (∀ n, m' (n, false) = m (n, false)) ∧ Coherent m' ∧ eval m' (nnf f) = true := by
  have hu' := GS.BfUnique.ext_user natDims natName GS.BfUnique.natName_inj m
  have hc : Coherent (GS.BfUnique.ext natDims natName m) := GS.BfUnique.ext_coh natDims natName GS.BfUnique.natName_inj m
  refine ⟨_, hu', hc, ?_⟩
  rw [nnf_eval_coh _ hc f hu, eval_congr_user m _ hu' f hu, h]

/-- **`nnf_models`.** For every formula built through the API — exactly-one groups of every size
    at every polarity — the models of `f` are exactly the restrictions to the problem variables
    of the models of `f.nnf()`: the dummy variables are existentially quantified, and since the
    repair they only occur where that is right. -/
theorem nnf_models (m : Key → Bool) (f : F) (hu : userOnly f = true) :
    eval m f = true ↔ ∃ m' : Key → Bool, (∀ n, m' (n, false) = m (n, false)) ∧ eval m' (nnf f) = true := by
  constructor
  · intro h
    obtain ⟨m', h1, _, h3⟩ := nnf_complete m f hu h
    exact ⟨m', h1, h3⟩
  · rintro ⟨m', h1, h2⟩
    rw [← eval_congr_user m m' h1 f hu]
    exact nnf_sound m' f h2

/-! ## `nnf_grammar`: the image of `nnf` is the input grammar of `cnfRec` -/

mutual
/-- `nnfOk noAnd noOr f`: `f` is a proper NNF node — `lit` leaves only, every `and` / `or` has at
    least two children, no `and` directly inside an `and`, no `or` directly inside an `or`, no
    constant; `noAnd` / `noOr` forbid an `and` / `or` at the root of `f` (because the parent is one). -/
def nnfOk : Bool → Bool → F → Bool
  | _, _, .lit _ _ _ => true
  | noAnd, _, .and fs => !noAnd && decide (2 ≤ fs.length) && nnfOkAll true false fs
  | _, noOr, .or fs => !noOr && decide (2 ≤ fs.length) && nnfOkAll false true fs
  | _, _, .var _ _ => false
  | _, _, .not _ => false
  | _, _, .tt => false
  | _, _, .ff => false
  | _, _, .unique _ => false
def nnfOkAll : Bool → Bool → List F → Bool
  | _, _, [] => true
  | a, o, f :: fs => nnfOk a o f && nnfOkAll a o fs
end

/-- the grammar of NNF formulas: a constant alone, or a proper NNF node -/
def IsNNF (f : F) : Prop := f = .tt ∨ f = .ff ∨ nnfOk false false f = true

theorem nnfOkAll_append (a o : Bool) (xs ys : List F) :
    nnfOkAll a o (xs ++ ys) = (nnfOkAll a o xs && nnfOkAll a o ys) := by
  induction xs with
  | nil => simp [nnfOkAll]
  | cons x xs ih => simp [nnfOkAll, ih, Bool.and_assoc]

theorem nnfOk_weaken (a o : Bool) (f : F) (h : nnfOk a o f = true) : nnfOk false false f = true := by
  cases f <;> simp_all [nnfOk]

theorem andFold_nil_two (x y : F) (r : List F) : andFold [] (x :: y :: r) = .and (x :: y :: r) := by
  simp [andFold]
theorem orFold_nil_two (x y : F) (r : List F) : orFold [] (x :: y :: r) = .or (x :: y :: r) := by
  simp [orFold]

theorem andFold_nil_isNNF (acc : List F) (h : nnfOkAll true false acc = true) : IsNNF (andFold [] acc) := by
  match acc with
  | [] => simp [andFold, IsNNF]
  | [x] =>
    simp [nnfOkAll] at h
    simp only [andFold]; exact Or.inr (Or.inr (nnfOk_weaken _ _ _ h))
  | x :: y :: r =>
    rw [andFold_nil_two]
    refine Or.inr (Or.inr ?_)
    simp [nnfOk, h]

theorem orFold_nil_isNNF (acc : List F) (h : nnfOkAll false true acc = true) : IsNNF (orFold [] acc) := by
  match acc with
  | [] => simp [orFold, IsNNF]
  | [x] =>
    simp [nnfOkAll] at h
    simp only [orFold]; exact Or.inr (Or.inr (nnfOk_weaken _ _ _ h))
  | x :: y :: r =>
    rw [orFold_nil_two]
    refine Or.inr (Or.inr ?_)
    simp [nnfOk, h]

theorem andFold_isNNF : ∀ (xs acc : List F), (∀ x ∈ xs, IsNNF x) → nnfOkAll true false acc = true →
    IsNNF (andFold xs acc) := by
  intro xs
  induction xs with
  | nil => intro acc _ h; exact andFold_nil_isNNF acc h
  | cons x xs ih =>
    intro acc hx hacc
    have hx0 : IsNNF x := hx x (by simp)
    have hxs : ∀ y ∈ xs, IsNNF y := fun y hy => hx y (by simp [hy])
    cases x with
    | var n d => simp [IsNNF, nnfOk] at hx0
    | not f => simp [IsNNF, nnfOk] at hx0
    | lit n d s =>
      simp only [andFold]; apply ih _ hxs; simp [nnfOkAll_append, hacc, nnfOkAll, nnfOk]
    | and gs =>
      simp only [andFold]; apply ih _ hxs
      simp [IsNNF, nnfOk] at hx0
      simp [nnfOkAll_append, hacc, hx0]
    | or gs =>
      simp only [andFold]; apply ih _ hxs
      simp [IsNNF, nnfOk] at hx0
      simp [nnfOkAll_append, hacc, nnfOkAll, nnfOk, hx0]
    | tt => simp only [andFold]; exact ih _ hxs hacc
    | ff => simp [andFold, IsNNF]
    | unique ks => simp [IsNNF, nnfOk] at hx0

theorem orFold_isNNF : ∀ (xs acc : List F), (∀ x ∈ xs, IsNNF x) → nnfOkAll false true acc = true →
    IsNNF (orFold xs acc) := by
  intro xs
  induction xs with
  | nil => intro acc _ h; exact orFold_nil_isNNF acc h
  | cons x xs ih =>
    intro acc hx hacc
    have hx0 : IsNNF x := hx x (by simp)
    have hxs : ∀ y ∈ xs, IsNNF y := fun y hy => hx y (by simp [hy])
    cases x with
    | var n d => simp [IsNNF, nnfOk] at hx0
    | not f => simp [IsNNF, nnfOk] at hx0
    | lit n d s =>
      simp only [orFold]; apply ih _ hxs; simp [nnfOkAll_append, hacc, nnfOkAll, nnfOk]
    | or gs =>
      simp only [orFold]; apply ih _ hxs
      simp [IsNNF, nnfOk] at hx0
      simp [nnfOkAll_append, hacc, hx0]
    | and gs =>
      simp only [orFold]; apply ih _ hxs
      simp [IsNNF, nnfOk] at hx0
      simp [nnfOkAll_append, hacc, nnfOkAll, nnfOk, hx0]
    | ff => simp only [orFold]; exact ih _ hxs hacc
    | tt => simp [orFold, IsNNF]
    | unique ks => simp [IsNNF, nnfOk] at hx0

section nnfX
set_option linter.unusedSectionVars false
variable (X : Bool → List Key → F) (hX : ∀ b ks, IsNNF (X b ks))
include hX
mutual
theorem nnfPX_isNNF : ∀ (b : Bool) (f : F), IsNNF (nnfPX X b f)
  | false, .var n d => by simp [nnfPX, IsNNF, nnfOk]
  | true, .var n d => by simp [nnfPX, IsNNF, nnfOk]
  | b, .lit n d neg => by simp [nnfPX, IsNNF, nnfOk]
  | false, .not f => by simpa [nnfPX] using nnfPX_isNNF true f
  | true, .not f => by simpa [nnfPX] using nnfPX_isNNF false f
  | false, .and fs => by
      simp only [nnfPX]; exact andFold_isNNF _ _ (nnfPsX_isNNF false fs) (by simp [nnfOkAll])
  | true, .and fs => by
      simp only [nnfPX]; exact orFold_isNNF _ _ (nnfPsX_isNNF true fs) (by simp [nnfOkAll])
  | false, .or fs => by
      simp only [nnfPX]; exact orFold_isNNF _ _ (nnfPsX_isNNF false fs) (by simp [nnfOkAll])
  | true, .or fs => by
      simp only [nnfPX]; exact andFold_isNNF _ _ (nnfPsX_isNNF true fs) (by simp [nnfOkAll])
  | false, .tt => by simp [nnfPX, IsNNF]
  | true, .tt => by simp [nnfPX, IsNNF]
  | false, .ff => by simp [nnfPX, IsNNF]
  | true, .ff => by simp [nnfPX, IsNNF]
  | b, .unique ks => by simp only [nnfPX]; exact hX b ks
theorem nnfPsX_isNNF : ∀ (b : Bool) (fs : List F), ∀ x ∈ nnfPsX X b fs, IsNNF x
  | _, [] => by simp [nnfPsX]
  | b, f :: fs => by
      intro x hx
      simp only [nnfPsX, List.mem_cons] at hx
      rcases hx with rfl | hx
      · exact nnfPX_isNNF b f
      · exact nnfPsX_isNNF b fs x hx
end
end nnfX

theorem nnf0P_isNNF (b : Bool) (f : F) : IsNNF (nnf0P b f) :=
  nnfPX_isNNF _ (fun _ _ => Or.inr (Or.inl rfl)) b f

theorem uniqueX_isNNF (b : Bool) (ks : List Key) : IsNNF (uniqueX b ks) := nnf0P_isNNF false _

theorem nnfP_isNNF (b : Bool) (f : F) : IsNNF (nnfP b f) := nnfPX_isNNF uniqueX uniqueX_isNNF b f

theorem nnfPs_isNNF (b : Bool) (fs : List F) : ∀ x ∈ nnfPs b fs, IsNNF x := nnfPsX_isNNF uniqueX uniqueX_isNNF b fs

/-- **`nnf_grammar`, part 1.** `f.nnf()` is always in the NNF grammar (in particular it contains no
    `unique` node any more). -/
theorem nnf_isNNF (f : F) : IsNNF (nnf f) := nnfP_isNNF false f

example : IsNNF (nnf (.not (.and [.var 0 false, .or [.var 1 false, .not (.var 2 false)]]))) := nnf_isNNF _
example : ¬ IsNNF (.or [.lit 0 false false, .or [.lit 1 false false, .lit 2 false false]]) := by
  simp [IsNNF, nnfOk, nnfOkAll]
example : ¬ IsNNF (.and [.lit 0 false false, .tt]) := by simp [IsNNF, nnfOk, nnfOkAll]
example : ¬ IsNNF (.and [.lit 0 false false]) := by simp [IsNNF, nnfOk, nnfOkAll]
example : ¬ IsNNF (.unique [(0, false)]) := by simp [IsNNF, nnfOk]

/-! ### `cnfRec` does not panic on the NNF grammar -/

mutual
theorem cnfRec_some_of_ok : ∀ (a o : Bool) (f : F), nnfOk a o f = true → ∀ t, ∃ r, cnfRec f t = some r
  | _, _, .lit n d s, _, t => by simp [cnfRec]
  | a, o, .and fs, h, t => by
      simp [nnfOk] at h
      simpa [cnfRec] using cnfAnd_some_of_ok true false fs h.2 t
  | a, o, .or fs, h, t => by
      simp [nnfOk] at h
      obtain ⟨r, hr⟩ := cnfOr_some_of_ok fs h.2 t
      simp [cnfRec, hr]
  | _, _, .var _ _, h, _ => by simp [nnfOk] at h
  | _, _, .not _, h, _ => by simp [nnfOk] at h
  | _, _, .tt, h, _ => by simp [nnfOk] at h
  | _, _, .ff, h, _ => by simp [nnfOk] at h
  | _, _, .unique _, h, _ => by simp [nnfOk] at h
theorem cnfAnd_some_of_ok : ∀ (a o : Bool) (fs : List F), nnfOkAll a o fs = true → ∀ t, ∃ r, cnfAnd fs t = some r
  | _, _, [], _, t => by simp [cnfAnd]
  | a, o, f :: fs, h, t => by
      simp [nnfOkAll] at h
      obtain ⟨r1, h1⟩ := cnfRec_some_of_ok a o f h.1 t
      obtain ⟨r2, h2⟩ := cnfAnd_some_of_ok a o fs h.2 r1.2
      simp [cnfAnd, h1, h2]
theorem cnfOr_some_of_ok : ∀ (fs : List F), nnfOkAll false true fs = true → ∀ t, ∃ r, cnfOr fs t = some r
  | [], _, t => by simp [cnfOr]
  | f :: fs, h, t => by
      simp [nnfOkAll] at h
      obtain ⟨r1, h1⟩ := cnfOrChild_some_of_ok f h.1 t
      obtain ⟨r2, h2⟩ := cnfOr_some_of_ok fs h.2 r1.2.2
      simp [cnfOr, h1, h2]
theorem cnfOrChild_some_of_ok : ∀ (f : F), nnfOk false true f = true → ∀ t, ∃ r, cnfOrChild f t = some r
  | .lit n d s, _, t => by simp [cnfOrChild]
  | .and gs, h, t => by
      simp [nnfOk] at h
      obtain ⟨r, hr⟩ := cnfAnd_some_of_ok true false gs h.2 (dummy t).2
      simp [cnfOrChild, hr]
  | .or fs, h, _ => by simp [nnfOk] at h
  | .var _ _, h, _ => by simp [nnfOk] at h
  | .not _, h, _ => by simp [nnfOk] at h
  | .tt, h, _ => by simp [nnfOk] at h
  | .ff, h, _ => by simp [nnfOk] at h
  | .unique _, h, _ => by simp [nnfOk] at h
end

theorem cnfRec_some_of_isNNF (g : F) (h : IsNNF g) (t : Tbl) : ∃ r, cnfRec g t = some r := by
  rcases h with rfl | rfl | h
  · simp [cnfRec]
  · simp [cnfRec]
  · exact cnfRec_some_of_ok _ _ g h t

/-- **`nnf_grammar`.** `cnfRec(f.nnf(), vars)` never reaches one of its `panic`s: `asCnf` (hence
    `Dimacs` and `Solve`'s conversion) is total — for every tree, `unique` nodes included. -/
theorem nnf_grammar (f : F) : IsNNF (nnf f) ∧ ∃ r, asCnf f = some r :=
  ⟨nnf_isNNF f, cnfRec_some_of_isNNF _ (nnf_isNNF f) []⟩

/-- the panic is real on trees outside the grammar (they are never produced by `nnf`) -/
example : cnfRec (.or [.lit 0 false false, .or [.lit 1 false false, .lit 2 false false]]) [] = none := by
  simp [cnfRec, cnfOr, cnfOrChild, litValue]
example : cnfRec (.unique [(0, false)]) [] = none := by simp [cnfRec]

/-! ## `nnf_idem`: the polarity recursion agrees with Go's double normalisation

Go's `not{and(fs)}.nnf()` computes `or(subs).nnf()` with `subs[i] = not{fs[i]}.nnf()`, so every
child is normalised a second time by `or.nnf`. `nnfP` normalises once (likewise `unique.nnf()` normalises
`uniqueRec(u...)` and the whole is normalised again by the parent); both agree because `nnf`
is the identity on NNF trees. -/

theorem andFold_of_ok : ∀ (xs acc : List F), nnfOkAll true false xs = true →
    andFold xs acc = andFold [] (acc ++ xs) := by
  intro xs
  induction xs with
  | nil => intro acc _; simp
  | cons x xs ih =>
    intro acc h
    simp only [nnfOkAll, Bool.and_eq_true] at h
    cases x with
    | lit n d s =>
      have e : andFold (F.lit n d s :: xs) acc = andFold xs (acc ++ [F.lit n d s]) := by simp only [andFold]
      rw [e, ih _ h.2, List.append_assoc]; rfl
    | or gs =>
      have e : andFold (F.or gs :: xs) acc = andFold xs (acc ++ [F.or gs]) := by simp only [andFold]
      rw [e, ih _ h.2, List.append_assoc]; rfl
    | and gs => simp [nnfOk] at h
    | var n d => simp [nnfOk] at h
    | not f => simp [nnfOk] at h
    | tt => simp [nnfOk] at h
    | ff => simp [nnfOk] at h
    | unique ks => simp [nnfOk] at h

theorem orFold_of_ok : ∀ (xs acc : List F), nnfOkAll false true xs = true →
    orFold xs acc = orFold [] (acc ++ xs) := by
  intro xs
  induction xs with
  | nil => intro acc _; simp
  | cons x xs ih =>
    intro acc h
    simp only [nnfOkAll, Bool.and_eq_true] at h
    cases x with
    | lit n d s =>
      have e : orFold (F.lit n d s :: xs) acc = orFold xs (acc ++ [F.lit n d s]) := by simp only [orFold]
      rw [e, ih _ h.2, List.append_assoc]; rfl
    | and gs =>
      have e : orFold (F.and gs :: xs) acc = orFold xs (acc ++ [F.and gs]) := by simp only [orFold]
      rw [e, ih _ h.2, List.append_assoc]; rfl
    | or gs => simp [nnfOk] at h
    | var n d => simp [nnfOk] at h
    | not f => simp [nnfOk] at h
    | tt => simp [nnfOk] at h
    | ff => simp [nnfOk] at h
    | unique ks => simp [nnfOk] at h

mutual
theorem nnfPX_fix (X : Bool → List Key → F) : ∀ (a o : Bool) (f : F), nnfOk a o f = true → nnfPX X false f = f
  | _, _, .lit n d s, _ => by simp [nnfPX]
  | a, o, .and fs, h => by
      simp [nnfOk] at h
      have hfix := nnfPsX_fix X true false fs h.2
      simp only [nnfPX, hfix]
      rw [andFold_of_ok _ _ h.2]
      match fs, h.1.2 with
      | x :: y :: r, _ => simp [andFold]
  | a, o, .or fs, h => by
      simp [nnfOk] at h
      have hfix := nnfPsX_fix X false true fs h.2
      simp only [nnfPX, hfix]
      rw [orFold_of_ok _ _ h.2]
      match fs, h.1.2 with
      | x :: y :: r, _ => simp [orFold]
  | _, _, .var _ _, h => by simp [nnfOk] at h
  | _, _, .not _, h => by simp [nnfOk] at h
  | _, _, .tt, h => by simp [nnfOk] at h
  | _, _, .ff, h => by simp [nnfOk] at h
  | _, _, .unique _, h => by simp [nnfOk] at h
theorem nnfPsX_fix (X : Bool → List Key → F) : ∀ (a o : Bool) (fs : List F), nnfOkAll a o fs = true → nnfPsX X false fs = fs
  | _, _, [], _ => by simp [nnfPsX]
  | a, o, f :: fs, h => by
      simp [nnfOkAll] at h
      simp [nnfPsX, nnfPX_fix X a o f h.1, nnfPsX_fix X a o fs h.2]
end

theorem nnfPX_fix' (X : Bool → List Key → F) (g : F) (h : IsNNF g) : nnfPX X false g = g := by
  rcases h with rfl | rfl | h
  · simp [nnfPX]
  · simp [nnfPX]
  · exact nnfPX_fix X _ _ g h

theorem nnf_fix (g : F) (h : IsNNF g) : nnf g = g := nnfPX_fix' uniqueX g h

/-- **`nnf_idem`.** Normalising twice is normalising once. -/
theorem nnf_idem (f : F) : nnf (nnf f) = nnf f := nnf_fix _ (nnf_isNNF f)

theorem nnfPs_false_map (b : Bool) : ∀ fs : List F, nnfPs false (fs.map (nnfP b)) = nnfPs b fs
  | [] => by simp [nnfPs, nnfPsX]
  | f :: fs => by
      have h := nnf_fix _ (nnfP_isNNF b f)
      have ih := nnfPs_false_map b fs
      simp only [nnf, nnfP] at h
      simp only [nnfPs, nnfP] at ih ⊢
      simp [nnfPsX, h, ih]

/-- the Go text of `not.nnf`, case `and`: `subs[i] = not{sub}.nnf(); return or(subs).nnf()` -/
theorem nnf_not_and (fs : List F) :
    nnf (.not (.and fs)) = nnf (.or (fs.map (fun s => nnf (.not s)))) := by
  have h := nnfPs_false_map true fs
  simp only [nnfPs, nnfP] at h
  simp only [nnf, nnfP, nnfPX, Bool.not_false]
  rw [← h]

/-- the Go text of `not.nnf`, case `or`: `subs[i] = not{sub}.nnf(); return and(subs).nnf()` -/
theorem nnf_not_or (fs : List F) :
    nnf (.not (.or fs)) = nnf (.and (fs.map (fun s => nnf (.not s)))) := by
  have h := nnfPs_false_map true fs
  simp only [nnfPs, nnfP] at h
  simp only [nnf, nnfP, nnfPX, Bool.not_false]
  rw [← h]

theorem nnfPs_eq_map (b : Bool) : ∀ fs : List F, nnfPs b fs = fs.map (nnfP b)
  | [] => by simp [nnfPs, nnfPsX]
  | f :: fs => by
      have ih := nnfPs_eq_map b fs
      simp only [nnfPs, nnfP] at ih ⊢
      simp [nnfPsX, ih]

/-- the Go text of `and.nnf` / `or.nnf`: normalise every child, then run the loop -/
theorem nnf_and (fs : List F) : nnf (.and fs) = andFold (fs.map nnf) [] := by
  have h := nnfPs_eq_map false fs
  simp only [nnfPs, nnfP] at h
  simp only [nnf, nnfP, nnfPX, h]; rfl
theorem nnf_or (fs : List F) : nnf (.or fs) = orFold (fs.map nnf) [] := by
  have h := nnfPs_eq_map false fs
  simp only [nnfPs, nnfP] at h
  simp only [nnf, nnfP, nnfPX, h]; rfl
theorem nnf_not_not (f : F) : nnf (.not (.not f)) = nnf f := by simp [nnf, nnfP, nnfPX]

mutual
/-- on a formula without `unique` node the treatment of these nodes is irrelevant -/
theorem nnfPX_indep (X X' : Bool → List Key → F) : ∀ (b : Bool) (f : F), noU f = true → nnfPX X b f = nnfPX X' b f
  | false, .var _ _, _ => by simp [nnfPX]
  | true, .var _ _, _ => by simp [nnfPX]
  | _, .lit _ _ _, _ => by simp [nnfPX]
  | b, .not f, h => by simp only [nnfPX]; exact nnfPX_indep X X' (!b) f (by simpa [noU] using h)
  | false, .and fs, h => by simp only [nnfPX, nnfPsX_indep X X' false fs (by simpa [noU] using h)]
  | true, .and fs, h => by simp only [nnfPX, nnfPsX_indep X X' true fs (by simpa [noU] using h)]
  | false, .or fs, h => by simp only [nnfPX, nnfPsX_indep X X' false fs (by simpa [noU] using h)]
  | true, .or fs, h => by simp only [nnfPX, nnfPsX_indep X X' true fs (by simpa [noU] using h)]
  | false, .tt, _ => by simp [nnfPX]
  | true, .tt, _ => by simp [nnfPX]
  | false, .ff, _ => by simp [nnfPX]
  | true, .ff, _ => by simp [nnfPX]
  | _, .unique _, h => by simp [noU] at h
theorem nnfPsX_indep (X X' : Bool → List Key → F) : ∀ (b : Bool) (fs : List F), noUs fs = true → nnfPsX X b fs = nnfPsX X' b fs
  | _, [], _ => by simp [nnfPsX]
  | b, f :: fs, h => by
      simp only [noUs, Bool.and_eq_true] at h
      simp only [nnfPsX, nnfPX_indep X X' b f h.1, nnfPsX_indep X X' b fs h.2]
end

/-- the Go text of `unique.nnf`: `uniqueRec(u...).nnf()` -/
theorem nnf_unique (ks : List Key) : nnf (.unique ks) = nnf (uniqueRec natDims ks) := by
  simp only [nnf, nnfP, nnfPX, uniqueX, uniqueXD, Bool.false_eq_true, if_false, nnf0P]
  exact nnfPX_indep _ _ false _ (GS.BfUnique.uniqueRecF_noU _ _ _ _)

/-- the Go text of `not.nnf`, case `unique`: `f.negation().nnf()` -/
theorem nnf_not_unique (ks : List Key) : nnf (.not (.unique ks)) = nnf (negation ks) := by
  simp only [nnf, nnfP, nnfPX, uniqueX, uniqueXD, Bool.not_false, if_true, nnf0P]
  exact nnfPX_indep _ _ false _ (negation_noU ks)

/-! ## the variables of `f.nnf()` -/

theorem andFold_allK (p : Key → Bool) : ∀ (xs acc : List F), allKs p xs = true → allKs p acc = true →
    allK p (andFold xs acc) = true := by
  intro xs
  induction xs with
  | nil =>
    intro acc _ h
    match acc with
    | [] => simp [andFold, allK]
    | [x] => simpa [andFold, allKs] using h
    | x :: y :: r => rw [andFold_nil_two]; simpa [allK] using h
  | cons x xs ih =>
    intro acc hx hacc
    simp only [allKs, Bool.and_eq_true] at hx
    cases x with
    | and gs => simp only [andFold]; apply ih _ hx.2; simp [allKs_append, hacc]; simpa [allK] using hx.1
    | tt => simp only [andFold]; exact ih _ hx.2 hacc
    | ff => simp [andFold, allK]
    | var n d => simp only [andFold]; apply ih _ hx.2; simp [allKs_append, hacc, allKs, hx.1]
    | lit n d s => simp only [andFold]; apply ih _ hx.2; simp [allKs_append, hacc, allKs, hx.1]
    | not f => simp only [andFold]; apply ih _ hx.2; simp [allKs_append, hacc, allKs, hx.1]
    | or gs => simp only [andFold]; apply ih _ hx.2; simp [allKs_append, hacc, allKs, hx.1]
    | unique ks => simp only [andFold]; apply ih _ hx.2; simp [allKs_append, hacc, allKs, hx.1]

theorem orFold_allK (p : Key → Bool) : ∀ (xs acc : List F), allKs p xs = true → allKs p acc = true →
    allK p (orFold xs acc) = true := by
  intro xs
  induction xs with
  | nil =>
    intro acc _ h
    match acc with
    | [] => simp [orFold, allK]
    | [x] => simpa [orFold, allKs] using h
    | x :: y :: r => rw [orFold_nil_two]; simpa [allK] using h
  | cons x xs ih =>
    intro acc hx hacc
    simp only [allKs, Bool.and_eq_true] at hx
    cases x with
    | or gs => simp only [orFold]; apply ih _ hx.2; simp [allKs_append, hacc]; simpa [allK] using hx.1
    | ff => simp only [orFold]; exact ih _ hx.2 hacc
    | tt => simp [orFold, allK]
    | var n d => simp only [orFold]; apply ih _ hx.2; simp [allKs_append, hacc, allKs, hx.1]
    | lit n d s => simp only [orFold]; apply ih _ hx.2; simp [allKs_append, hacc, allKs, hx.1]
    | not f => simp only [orFold]; apply ih _ hx.2; simp [allKs_append, hacc, allKs, hx.1]
    | and gs => simp only [orFold]; apply ih _ hx.2; simp [allKs_append, hacc, allKs, hx.1]
    | unique ks => simp only [orFold]; apply ih _ hx.2; simp [allKs_append, hacc, allKs, hx.1]

section keysX
set_option linter.unusedSectionVars false
variable (p : Key → Bool) (X : Bool → List Key → F)
  (hX : ∀ b ks, ks.all p = true → allK p (X b ks) = true)
include hX
mutual
theorem nnfPX_allK : ∀ (b : Bool) (f : F), allK p f = true → allK p (nnfPX X b f) = true
  | false, .var n d, h => by simpa [nnfPX, allK] using h
  | true, .var n d, h => by simpa [nnfPX, allK] using h
  | b, .lit n d neg, h => by simpa [nnfPX, allK] using h
  | false, .not f, h => by simpa [nnfPX] using nnfPX_allK true f (by simpa [allK] using h)
  | true, .not f, h => by simpa [nnfPX] using nnfPX_allK false f (by simpa [allK] using h)
  | false, .and fs, h => by
      simp only [nnfPX]; exact andFold_allK p _ _ (nnfPsX_allK false fs (by simpa [allK] using h)) rfl
  | true, .and fs, h => by
      simp only [nnfPX]; exact orFold_allK p _ _ (nnfPsX_allK true fs (by simpa [allK] using h)) rfl
  | false, .or fs, h => by
      simp only [nnfPX]; exact orFold_allK p _ _ (nnfPsX_allK false fs (by simpa [allK] using h)) rfl
  | true, .or fs, h => by
      simp only [nnfPX]; exact andFold_allK p _ _ (nnfPsX_allK true fs (by simpa [allK] using h)) rfl
  | false, .tt, _ => by simp [nnfPX, allK]
  | true, .tt, _ => by simp [nnfPX, allK]
  | false, .ff, _ => by simp [nnfPX, allK]
  | true, .ff, _ => by simp [nnfPX, allK]
  | b, .unique ks, h => by simp only [nnfPX]; exact hX b ks (by simpa [allK] using h)
theorem nnfPsX_allK : ∀ (b : Bool) (fs : List F), allKs p fs = true → allKs p (nnfPsX X b fs) = true
  | _, [], _ => by simp [nnfPsX, allKs]
  | b, f :: fs, h => by
      simp only [allKs, Bool.and_eq_true] at h
      simp [nnfPsX, allKs, nnfPX_allK b f h.1, nnfPsX_allK b fs h.2]
end
end keysX

theorem nnf0P_allK (p : Key → Bool) (b : Bool) (f : F) (h : allK p f = true) : allK p (nnf0P b f) = true :=
  nnfPX_allK p _ (fun _ _ _ => rfl) b f h

/-- the variables of the normal form of a group of formula-level variables are formula-level
    variables: those of the group, and `line-…` / `col-…` dummies in positive position only -/
theorem uniqueX_isFK (b : Bool) (ks : List Key) (h : ks.all isFK = true) : allK isFK (uniqueX b ks) = true := by
  unfold uniqueX uniqueXD
  apply nnf0P_allK
  cases b
  · simp only [Bool.false_eq_true, if_false]
    exact GS.BfUnique.uniqueRecF_allK natDims natName _ ks h
  · simp only [if_true]
    exact negation_allK isFK ks h

theorem uniqueRecF_small_eq (dims : Nat → Nat × Nat) (nm : Bool → Nat → List Key → Nat) (fuel : Nat)
    (ks : List Key) (h : ks.length ≤ 4) : uniqueRecF dims nm fuel ks = uniqueSmallV (ks.map keyVar) := by
  cases fuel with
  | zero => simp only [uniqueRecF]
  | succ n => simp only [uniqueRecF, h, if_true]

/-- in negative position (and for at most 4 names in positive position) no dummy at all -/
theorem uniqueX_user (b : Bool) (ks : List Key) (hb : b = true ∨ ks.length ≤ 4)
    (h : ks.all (fun k => !k.2) = true) : userOnly (uniqueX b ks) = true := by
  unfold uniqueX uniqueXD userOnly
  apply nnf0P_allK
  cases b
  · have h4 : ks.length ≤ 4 := by rcases hb with hb | hb; cases hb; exact hb
    simp only [Bool.false_eq_true, if_false, uniqueRec, uniqueRecN]
    rw [uniqueRecF_small_eq _ _ _ ks h4]; exact uniqueSmallV_allK _ ks h
  · simp only [if_true]
    exact negation_allK _ ks h

/-- `f.nnf()` only mentions formula-level variables (no `dummy-<n>` of `cnfRec`) when `f` does -/
theorem nnf_isFK (f : F) (h : allK isFK f = true) : allK isFK (nnf f) = true :=
  nnfPX_allK isFK uniqueX uniqueX_isFK false f h

theorem nnf_isFK_of_user (f : F) (h : userOnly f = true) : allK isFK (nnf f) = true :=
  nnf_isFK f (allK_mono _ _ isFK_of_user f h)

section smallX
mutual
/-- on the fragment of `nnf_eval` (groups in positive position of at most 4 names) the normal
    form mentions no dummy variable at all -/
theorem nnfP_user : ∀ (b : Bool) (f : F), userOnly f = true →
    allU (fun b ks => b || decide (ks.length ≤ 4)) b f = true → userOnly (nnfP b f) = true
  | false, .var n d, h, _ => by simpa [nnfP, nnfPX, userOnly, allK] using h
  | true, .var n d, h, _ => by simpa [nnfP, nnfPX, userOnly, allK] using h
  | b, .lit n d neg, h, _ => by simpa [nnfP, nnfPX, userOnly, allK] using h
  | false, .not f, h, hs => by
      simpa [nnfP, nnfPX] using nnfP_user true f (by simpa [userOnly, allK] using h) (by simpa [allU] using hs)
  | true, .not f, h, hs => by
      simpa [nnfP, nnfPX] using nnfP_user false f (by simpa [userOnly, allK] using h) (by simpa [allU] using hs)
  | false, .and fs, h, hs => by
      simp only [nnfP, nnfPX]
      exact andFold_allK _ _ _ (nnfPs_user false fs (by simpa [userOnly, userOnlyAll, allK] using h) (by simpa [allU] using hs)) rfl
  | true, .and fs, h, hs => by
      simp only [nnfP, nnfPX]
      exact orFold_allK _ _ _ (nnfPs_user true fs (by simpa [userOnly, userOnlyAll, allK] using h) (by simpa [allU] using hs)) rfl
  | false, .or fs, h, hs => by
      simp only [nnfP, nnfPX]
      exact orFold_allK _ _ _ (nnfPs_user false fs (by simpa [userOnly, userOnlyAll, allK] using h) (by simpa [allU] using hs)) rfl
  | true, .or fs, h, hs => by
      simp only [nnfP, nnfPX]
      exact andFold_allK _ _ _ (nnfPs_user true fs (by simpa [userOnly, userOnlyAll, allK] using h) (by simpa [allU] using hs)) rfl
  | false, .tt, _, _ => by simp [nnfP, nnfPX, userOnly, allK]
  | true, .tt, _, _ => by simp [nnfP, nnfPX, userOnly, allK]
  | false, .ff, _, _ => by simp [nnfP, nnfPX, userOnly, allK]
  | true, .ff, _, _ => by simp [nnfP, nnfPX, userOnly, allK]
  | b, .unique ks, h, hs => by
      simp only [nnfP, nnfPX]
      apply uniqueX_user b ks _ (by simpa [userOnly, allK] using h)
      cases b
      · right; simpa [allU] using hs
      · left; rfl
theorem nnfPs_user : ∀ (b : Bool) (fs : List F), userOnlyAll fs = true →
    allUs (fun b ks => b || decide (ks.length ≤ 4)) b fs = true → allKs (fun k => !k.2) (nnfPsX uniqueX b fs) = true
  | _, [], _, _ => by simp [nnfPsX, allKs]
  | b, f :: fs, h, hs => by
      simp only [userOnlyAll, allKs, Bool.and_eq_true] at h
      simp only [allUs, Bool.and_eq_true] at hs
      have h1 := nnfP_user b f h.1 hs.1
      have h2 := nnfPs_user b fs h.2 hs.2
      simp only [userOnly, nnfP] at h1
      simp [nnfPsX, allKs, h1, h2]
end
end smallX

/-- **no auxiliary variable outside the positive large groups**: if every exactly-one group in
    positive position has at most 4 names, `f.nnf()` mentions problem variables only. -/
theorem nnf_user (f : F) (h : userOnly f = true) (hs : smallPos f = true) : userOnly (nnf f) = true :=
  nnfP_user false f h hs

/-! ## `ofSF` -/

/-- a spec assignment of names as an assignment of Go variables (dummies take the value of
    their number; no formula in the image of `ofSF` mentions one) -/
def lift (m : Nat → Bool) : Key → Bool := fun k => m k.1

mutual
theorem ofSF_eval (m : Nat → Bool) : ∀ g : SF, eval (lift m) (ofSF g) = SF.eval m g
  | .var n => by simp [ofSF, pbVar, eval, SF.eval, lift]
  | .tt => by simp [ofSF, eval, SF.eval]
  | .ff => by simp [ofSF, eval, SF.eval]
  | .not f => by simp [ofSF, eval, SF.eval, ofSF_eval m f]
  | .and fs => by simp [ofSF, eval, SF.eval, ofSFs_all m fs]
  | .or fs => by simp [ofSF, eval, SF.eval, ofSFs_any m fs]
  | .imp a b => by simp [ofSF, implies_eval, SF.eval, ofSF_eval m a, ofSF_eval m b]
  | .iff a b => by simp [ofSF, eq_eval, SF.eval, ofSF_eval m a, ofSF_eval m b]
  | .xor a b => by simp [ofSF, xor_eval, SF.eval, ofSF_eval m a, ofSF_eval m b]
  | .unique ns => by simp [ofSF, uniqueOf_eval, SF.eval, lift]
theorem ofSFs_all (m : Nat → Bool) : ∀ fs : List SF, evalAll (lift m) (ofSFs fs) = SF.evalAll m fs
  | [] => by simp [ofSFs, evalAll, SF.evalAll]
  | f :: fs => by simp [ofSFs, evalAll, SF.evalAll, ofSF_eval m f, ofSFs_all m fs]
theorem ofSFs_any (m : Nat → Bool) : ∀ fs : List SF, evalAny (lift m) (ofSFs fs) = SF.evalAny m fs
  | [] => by simp [ofSFs, evalAny, SF.evalAny]
  | f :: fs => by simp [ofSFs, evalAny, SF.evalAny, ofSF_eval m f, ofSFs_any m fs]
end

mutual
theorem ofSF_user : ∀ g : SF, userOnly (ofSF g) = true
  | .var n => by simp [ofSF, pbVar, userOnly, allK]
  | .tt => by simp [ofSF, userOnly, allK]
  | .ff => by simp [ofSF, userOnly, allK]
  | .not f => by have := ofSF_user f; simp only [userOnly] at this; simp [ofSF, userOnly, allK, this]
  | .and fs => by have := ofSFs_user fs; simp only [userOnlyAll] at this; simp [ofSF, userOnly, allK, this]
  | .or fs => by have := ofSFs_user fs; simp only [userOnlyAll] at this; simp [ofSF, userOnly, allK, this]
  | .imp a b => by
      have h1 := ofSF_user a; have h2 := ofSF_user b; simp only [userOnly] at h1 h2
      simp [ofSF, implies, userOnly, allK, allKs, h1, h2]
  | .iff a b => by
      have h1 := ofSF_user a; have h2 := ofSF_user b; simp only [userOnly] at h1 h2
      simp [ofSF, eq, userOnly, allK, allKs, h1, h2]
  | .xor a b => by
      have h1 := ofSF_user a; have h2 := ofSF_user b; simp only [userOnly] at h1 h2
      simp [ofSF, xor, userOnly, allK, allKs, h1, h2]
  | .unique ns => by simp [ofSF, uniqueOf, userOnly, allK]
theorem ofSFs_user : ∀ fs : List SF, userOnlyAll (ofSFs fs) = true
  | [] => by simp [ofSFs, userOnlyAll, allKs]
  | f :: fs => by
      have h1 := ofSF_user f; have h2 := ofSFs_user fs; simp only [userOnly, userOnlyAll] at h1 h2
      simp [ofSFs, userOnlyAll, allKs, h1, h2]
end

/-- the polarity-aware size condition on spec formulas: every exactly-one group in positive
    position has at most `k` names (`Implies` negates its left side; both sides of `Eq` / `Xor`
    occur at both polarities) -/
def posGroupsLe (k : Nat) (g : SF) : Bool := allU (fun b ks => b || decide (ks.length ≤ k)) false (ofSF g)

/-- **C11, formula side, equality form.** The NNF that `Solve` / `Dimacs` hand to `cnfRec` has
    the truth table of the formula the user wrote, for every spec formula whose exactly-one groups
    in positive position have at most 4 names (any size in negative position). -/
theorem nnf_ofSF_eval (m : Nat → Bool) (g : SF) (h : posGroupsLe 4 g = true) :
    eval (lift m) (nnf (ofSF g)) = SF.eval m g := by
  rw [nnf_eval _ _ h, ofSF_eval]

/-- **C11, formula side, every formula.** For every spec formula — exactly-one groups of every
    size at every polarity — an assignment `m` of the names satisfies `g` iff it extends (on the
    dummy variables) to a model of the NNF handed to `cnfRec`. -/
theorem nnf_ofSF_models (m : Nat → Bool) (g : SF) :
    SF.eval m g = true ↔
      ∃ m' : Key → Bool, (∀ n, m' (n, false) = m n) ∧ eval m' (nnf (ofSF g)) = true := by
  rw [← ofSF_eval, nnf_models (lift m) (ofSF g) (ofSF_user g)]
  rfl

mutual
theorem supportedP_eq : ∀ (b : Bool) (g : SF),
    supportedP b g = allU (fun b ks => b || decide (ks.length ≤ maxPosGroup)) b (ofSF g)
  | _, .var _ => by simp [supportedP, ofSF, pbVar, allU]
  | _, .tt => by simp [supportedP, ofSF, allU]
  | _, .ff => by simp [supportedP, ofSF, allU]
  | b, .not f => by simp [supportedP, ofSF, allU, supportedP_eq (!b) f]
  | b, .and fs => by simp [supportedP, ofSF, allU, supportedAllP_eq b fs]
  | b, .or fs => by simp [supportedP, ofSF, allU, supportedAllP_eq b fs]
  | b, .imp x y => by simp [supportedP, ofSF, implies, allU, allUs, supportedP_eq (!b) x, supportedP_eq b y]
  | b, .iff x y => by
      simp [supportedP, ofSF, eq, allU, allUs, supportedP_eq (!b) x, supportedP_eq b y, supportedP_eq b x,
        supportedP_eq (!b) y]
  | b, .xor x y => by
      simp [supportedP, ofSF, xor, allU, allUs, supportedP_eq (!b) x, supportedP_eq b y, supportedP_eq b x,
        supportedP_eq (!b) y]
  | b, .unique ns => by simp [supportedP, ofSF, uniqueOf, allU]
theorem supportedAllP_eq : ∀ (b : Bool) (fs : List SF),
    supportedAllP b fs = allUs (fun b ks => b || decide (ks.length ≤ maxPosGroup)) b (ofSFs fs)
  | _, [] => by simp [supportedAllP, ofSFs, allUs]
  | b, f :: fs => by simp [supportedAllP, ofSFs, allUs, supportedP_eq b f, supportedAllP_eq b fs]
end

/-- **what `supported` means**: every exactly-one group *in positive position* of the Go formula
    has at most `maxPosGroup = 16` names (up to 16 names `uniqueRec` does not nest: the line and
    column groups have at most 4 members). No condition on the groups in negative position. -/
theorem supported_eq (g : SF) : supported g = posGroupsLe maxPosGroup g := supportedP_eq false g

example : posGroupsLe 4 (.and [.unique [0, 1, 2, 3], .iff (.var 0) (.xor (.var 1) (.not (.var 2)))]) = true := by
  decide
example : posGroupsLe 4 (.imp (.unique [0, 1, 2, 3, 4, 5]) (.not (.unique [0, 1, 2, 3, 4]))) = true := by decide
example : supported (.and [.unique [0, 1, 2, 3, 4, 5, 6], .not (.unique (List.range 30))]) = true := by decide

end GS.Bf
