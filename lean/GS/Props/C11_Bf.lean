import GS.Model.Bf
/-!
# C11 (formula side): `nnf` preserves the truth table and lands in the grammar `cnfRec` accepts;
the builders `Implies`, `Eq`, `Xor`, `uniqueSmall` have the standard semantics.
-/
namespace GS.Bf

/-! ## `nnf_eval` -/

theorem evalAll_append (m) (xs ys : List F) : evalAll m (xs ++ ys) = (evalAll m xs && evalAll m ys) := by
  induction xs with
  | nil => simp [evalAll]
  | cons x xs ih => simp [evalAll, ih, Bool.and_assoc]

theorem evalAny_append (m) (xs ys : List F) : evalAny m (xs ++ ys) = (evalAny m xs || evalAny m ys) := by
  induction xs with
  | nil => simp [evalAny]
  | cons x xs ih => simp [evalAny, ih, Bool.or_assoc]

theorem andFold_eval (m) : ∀ (xs acc : List F), eval m (andFold xs acc) = (evalAll m acc && evalAll m xs) := by
  intro xs
  induction xs with
  | nil =>
    intro acc
    unfold andFold
    split <;> simp [eval, evalAll]
  | cons x xs ih =>
    intro acc
    cases x <;> simp [andFold, ih, eval, evalAll, evalAll_append, Bool.and_assoc]

theorem orFold_eval (m) : ∀ (xs acc : List F), eval m (orFold xs acc) = (evalAny m acc || evalAny m xs) := by
  intro xs
  induction xs with
  | nil =>
    intro acc
    unfold orFold
    split <;> simp [eval, evalAny]
  | cons x xs ih =>
    intro acc
    cases x <;> simp [orFold, ih, eval, evalAny, evalAny_append, Bool.or_assoc]

mutual
theorem nnfP_eval (m) : ∀ (b : Bool) (f : F), eval m (nnfP b f) = (eval m f != b)
  | false, .var n d => by simp [nnfP, eval]
  | true, .var n d => by simp [nnfP, eval]
  | b, .lit n d neg => by cases b <;> cases neg <;> simp [nnfP, eval]
  | false, .not f => by
      have := nnfP_eval m true f
      simp [nnfP, eval, this]
  | true, .not f => by
      have := nnfP_eval m false f
      simp [nnfP, eval, this]
  | false, .and fs => by simp [nnfP, andFold_eval, eval, evalAll, nnfPs_all m fs]
  | true, .and fs => by simp [nnfP, orFold_eval, eval, evalAny, nnfPs_any_neg m fs]
  | false, .or fs => by simp [nnfP, orFold_eval, eval, evalAny, nnfPs_any m fs]
  | true, .or fs => by simp [nnfP, andFold_eval, eval, evalAll, nnfPs_all_neg m fs]
  | false, .tt => by simp [nnfP, eval]
  | true, .tt => by simp [nnfP, eval]
  | false, .ff => by simp [nnfP, eval]
  | true, .ff => by simp [nnfP, eval]
theorem nnfPs_all (m) : ∀ fs : List F, evalAll m (nnfPs false fs) = evalAll m fs
  | [] => by simp [nnfPs, evalAll]
  | f :: fs => by simp [nnfPs, evalAll, nnfP_eval m false f, nnfPs_all m fs]
theorem nnfPs_any (m) : ∀ fs : List F, evalAny m (nnfPs false fs) = evalAny m fs
  | [] => by simp [nnfPs, evalAny]
  | f :: fs => by simp [nnfPs, evalAny, nnfP_eval m false f, nnfPs_any m fs]
theorem nnfPs_any_neg (m) : ∀ fs : List F, evalAny m (nnfPs true fs) = !evalAll m fs
  | [] => by simp [nnfPs, evalAny, evalAll]
  | f :: fs => by simp [nnfPs, evalAny, evalAll, nnfP_eval m true f, nnfPs_any_neg m fs, Bool.not_and]
theorem nnfPs_all_neg (m) : ∀ fs : List F, evalAll m (nnfPs true fs) = !evalAny m fs
  | [] => by simp [nnfPs, evalAny, evalAll]
  | f :: fs => by simp [nnfPs, evalAny, evalAll, nnfP_eval m true f, nnfPs_all_neg m fs, Bool.not_or]
end

/-- **C11, first half.** `f.nnf()` has the truth table of `f`, for every tree: empty `and` (true),
    empty `or` (false), constants at any depth, nested negations. -/
theorem nnf_eval (m : Key → Bool) (f : F) : eval m (nnf f) = eval m f := by
  simp [nnf, nnfP_eval]

example : nnf (.and [.or [], .not (.not (.var 0 false)), .and []]) = .ff := by
  simp [nnf, nnfP, nnfPs, andFold, orFold]
example : nnf (.not (.and [.var 0 false, .or [.tt, .var 1 false], .not (.or [])])) = .lit 0 false true := by
  simp [nnf, nnfP, nnfPs, andFold, orFold]

/-! ## `nnf_grammar`: the image of `nnf` is the input grammar of `cnfRec` -/

mutual
/-- `nnfOk noAnd noOr f`: `f` is a proper NNF node — `lit` leaves only, every `and` / `or` has at
    least two children, no `and` directly inside an `and`, no `or` directly inside an `or`, no
    constant; `noAnd` / `noOr` forbid an `and` / `or` at the root of `f` (because the parent is one). -/
def nnfOk : Bool → Bool → F → Bool
  | _, _, .lit _ _ _ => true
  | noAnd, _, .and fs => !noAnd && decide (2 ≤ fs.length) && nnfOkAll true false fs
  | _, noOr, .or fs => !noOr && decide (2 ≤ fs.length) && nnfOkAll false true fs
  | _, _, .var _ _ => false
  | _, _, .not _ => false
  | _, _, .tt => false
  | _, _, .ff => false
def nnfOkAll : Bool → Bool → List F → Bool
  | _, _, [] => true
  | a, o, f :: fs => nnfOk a o f && nnfOkAll a o fs
end

/-- the grammar of NNF formulas: a constant alone, or a proper NNF node -/
def IsNNF (f : F) : Prop := f = .tt ∨ f = .ff ∨ nnfOk false false f = true

theorem nnfOkAll_append (a o : Bool) (xs ys : List F) :
    nnfOkAll a o (xs ++ ys) = (nnfOkAll a o xs && nnfOkAll a o ys) := by
  induction xs with
  | nil => simp [nnfOkAll]
  | cons x xs ih => simp [nnfOkAll, ih, Bool.and_assoc]

theorem nnfOk_weaken (a o : Bool) (f : F) (h : nnfOk a o f = true) : nnfOk false false f = true := by
  cases f <;> simp_all [nnfOk]

theorem andFold_nil_two (x y : F) (r : List F) : andFold [] (x :: y :: r) = .and (x :: y :: r) := by
  simp [andFold]
theorem orFold_nil_two (x y : F) (r : List F) : orFold [] (x :: y :: r) = .or (x :: y :: r) := by
  simp [orFold]

theorem andFold_nil_isNNF (acc : List F) (h : nnfOkAll true false acc = true) : IsNNF (andFold [] acc) := by
  match acc with
  | [] => simp [andFold, IsNNF]
  | [x] =>
    simp [nnfOkAll] at h
    simp only [andFold]; exact Or.inr (Or.inr (nnfOk_weaken _ _ _ h))
  | x :: y :: r =>
    rw [andFold_nil_two]
    refine Or.inr (Or.inr ?_)
    simp [nnfOk, h]

theorem orFold_nil_isNNF (acc : List F) (h : nnfOkAll false true acc = true) : IsNNF (orFold [] acc) := by
  match acc with
  | [] => simp [orFold, IsNNF]
  | [x] =>
    simp [nnfOkAll] at h
    simp only [orFold]; exact Or.inr (Or.inr (nnfOk_weaken _ _ _ h))
  | x :: y :: r =>
    rw [orFold_nil_two]
    refine Or.inr (Or.inr ?_)
    simp [nnfOk, h]

theorem andFold_isNNF : ∀ (xs acc : List F), (∀ x ∈ xs, IsNNF x) → nnfOkAll true false acc = true →
    IsNNF (andFold xs acc) := by
  intro xs
  induction xs with
  | nil => intro acc _ h; exact andFold_nil_isNNF acc h
  | cons x xs ih =>
    intro acc hx hacc
    have hx0 : IsNNF x := hx x (by simp)
    have hxs : ∀ y ∈ xs, IsNNF y := fun y hy => hx y (by simp [hy])
    cases x with
    | var n d => simp [IsNNF, nnfOk] at hx0
    | not f => simp [IsNNF, nnfOk] at hx0
    | lit n d s =>
      simp only [andFold]; apply ih _ hxs; simp [nnfOkAll_append, hacc, nnfOkAll, nnfOk]
    | and gs =>
      simp only [andFold]; apply ih _ hxs
      simp [IsNNF, nnfOk] at hx0
      simp [nnfOkAll_append, hacc, hx0]
    | or gs =>
      simp only [andFold]; apply ih _ hxs
      simp [IsNNF, nnfOk] at hx0
      simp [nnfOkAll_append, hacc, nnfOkAll, nnfOk, hx0]
    | tt => simp only [andFold]; exact ih _ hxs hacc
    | ff => simp [andFold, IsNNF]

theorem orFold_isNNF : ∀ (xs acc : List F), (∀ x ∈ xs, IsNNF x) → nnfOkAll false true acc = true →
    IsNNF (orFold xs acc) := by
  intro xs
  induction xs with
  | nil => intro acc _ h; exact orFold_nil_isNNF acc h
  | cons x xs ih =>
    intro acc hx hacc
    have hx0 : IsNNF x := hx x (by simp)
    have hxs : ∀ y ∈ xs, IsNNF y := fun y hy => hx y (by simp [hy])
    cases x with
    | var n d => simp [IsNNF, nnfOk] at hx0
    | not f => simp [IsNNF, nnfOk] at hx0
    | lit n d s =>
      simp only [orFold]; apply ih _ hxs; simp [nnfOkAll_append, hacc, nnfOkAll, nnfOk]
    | or gs =>
      simp only [orFold]; apply ih _ hxs
      simp [IsNNF, nnfOk] at hx0
      simp [nnfOkAll_append, hacc, hx0]
    | and gs =>
      simp only [orFold]; apply ih _ hxs
      simp [IsNNF, nnfOk] at hx0
      simp [nnfOkAll_append, hacc, nnfOkAll, nnfOk, hx0]
    | ff => simp only [orFold]; exact ih _ hxs hacc
    | tt => simp [orFold, IsNNF]

mutual
theorem nnfP_isNNF : ∀ (b : Bool) (f : F), IsNNF (nnfP b f)
  | false, .var n d => by simp [nnfP, IsNNF, nnfOk]
  | true, .var n d => by simp [nnfP, IsNNF, nnfOk]
  | b, .lit n d neg => by simp [nnfP, IsNNF, nnfOk]
  | false, .not f => by simpa [nnfP] using nnfP_isNNF true f
  | true, .not f => by simpa [nnfP] using nnfP_isNNF false f
  | false, .and fs => by
      simp only [nnfP]; exact andFold_isNNF _ _ (nnfPs_isNNF false fs) (by simp [nnfOkAll])
  | true, .and fs => by
      simp only [nnfP]; exact orFold_isNNF _ _ (nnfPs_isNNF true fs) (by simp [nnfOkAll])
  | false, .or fs => by
      simp only [nnfP]; exact orFold_isNNF _ _ (nnfPs_isNNF false fs) (by simp [nnfOkAll])
  | true, .or fs => by
      simp only [nnfP]; exact andFold_isNNF _ _ (nnfPs_isNNF true fs) (by simp [nnfOkAll])
  | false, .tt => by simp [nnfP, IsNNF]
  | true, .tt => by simp [nnfP, IsNNF]
  | false, .ff => by simp [nnfP, IsNNF]
  | true, .ff => by simp [nnfP, IsNNF]
theorem nnfPs_isNNF : ∀ (b : Bool) (fs : List F), ∀ x ∈ nnfPs b fs, IsNNF x
  | _, [] => by simp [nnfPs]
  | b, f :: fs => by
      intro x hx
      simp only [nnfPs, List.mem_cons] at hx
      rcases hx with rfl | hx
      · exact nnfP_isNNF b f
      · exact nnfPs_isNNF b fs x hx
end

/-- **`nnf_grammar`, part 1.** `f.nnf()` is always in the NNF grammar. -/
theorem nnf_isNNF (f : F) : IsNNF (nnf f) := nnfP_isNNF false f

example : IsNNF (nnf (.not (.and [.var 0 false, .or [.var 1 false, .not (.var 2 false)]]))) := nnf_isNNF _
example : ¬ IsNNF (.or [.lit 0 false false, .or [.lit 1 false false, .lit 2 false false]]) := by
  simp [IsNNF, nnfOk, nnfOkAll]
example : ¬ IsNNF (.and [.lit 0 false false, .tt]) := by simp [IsNNF, nnfOk, nnfOkAll]
example : ¬ IsNNF (.and [.lit 0 false false]) := by simp [IsNNF, nnfOk, nnfOkAll]

/-! ### `cnfRec` does not panic on the NNF grammar -/

mutual
theorem cnfRec_some_of_ok : ∀ (a o : Bool) (f : F), nnfOk a o f = true → ∀ t, ∃ r, cnfRec f t = some r
  | _, _, .lit n d s, _, t => by simp [cnfRec]
  | a, o, .and fs, h, t => by
      simp [nnfOk] at h
      simpa [cnfRec] using cnfAnd_some_of_ok true false fs h.2 t
  | a, o, .or fs, h, t => by
      simp [nnfOk] at h
      obtain ⟨r, hr⟩ := cnfOr_some_of_ok fs h.2 t
      simp [cnfRec, hr]
  | _, _, .var _ _, h, _ => by simp [nnfOk] at h
  | _, _, .not _, h, _ => by simp [nnfOk] at h
  | _, _, .tt, h, _ => by simp [nnfOk] at h
  | _, _, .ff, h, _ => by simp [nnfOk] at h
theorem cnfAnd_some_of_ok : ∀ (a o : Bool) (fs : List F), nnfOkAll a o fs = true → ∀ t, ∃ r, cnfAnd fs t = some r
  | _, _, [], _, t => by simp [cnfAnd]
  | a, o, f :: fs, h, t => by
      simp [nnfOkAll] at h
      obtain ⟨r1, h1⟩ := cnfRec_some_of_ok a o f h.1 t
      obtain ⟨r2, h2⟩ := cnfAnd_some_of_ok a o fs h.2 r1.2
      simp [cnfAnd, h1, h2]
theorem cnfOr_some_of_ok : ∀ (fs : List F), nnfOkAll false true fs = true → ∀ t, ∃ r, cnfOr fs t = some r
  | [], _, t => by simp [cnfOr]
  | f :: fs, h, t => by
      simp [nnfOkAll] at h
      obtain ⟨r1, h1⟩ := cnfOrChild_some_of_ok f h.1 t
      obtain ⟨r2, h2⟩ := cnfOr_some_of_ok fs h.2 r1.2.2
      simp [cnfOr, h1, h2]
theorem cnfOrChild_some_of_ok : ∀ (f : F), nnfOk false true f = true → ∀ t, ∃ r, cnfOrChild f t = some r
  | .lit n d s, _, t => by simp [cnfOrChild]
  | .and gs, h, t => by
      simp [nnfOk] at h
      obtain ⟨r, hr⟩ := cnfAnd_some_of_ok true false gs h.2 (dummy t).2
      simp [cnfOrChild, hr]
  | .or fs, h, _ => by simp [nnfOk] at h
  | .var _ _, h, _ => by simp [nnfOk] at h
  | .not _, h, _ => by simp [nnfOk] at h
  | .tt, h, _ => by simp [nnfOk] at h
  | .ff, h, _ => by simp [nnfOk] at h
end

theorem cnfRec_some_of_isNNF (g : F) (h : IsNNF g) (t : Tbl) : ∃ r, cnfRec g t = some r := by
  rcases h with rfl | rfl | h
  · simp [cnfRec]
  · simp [cnfRec]
  · exact cnfRec_some_of_ok _ _ g h t

/-- **`nnf_grammar`.** `cnfRec(f.nnf(), vars)` never reaches one of its `panic`s: `asCnf` (hence
    `Dimacs` and `Solve`'s conversion) is total. -/
theorem nnf_grammar (f : F) : IsNNF (nnf f) ∧ ∃ r, asCnf f = some r :=
  ⟨nnf_isNNF f, cnfRec_some_of_isNNF _ (nnf_isNNF f) []⟩

/-- the panic is real on trees outside the grammar (they are never produced by `nnf`) -/
example : cnfRec (.or [.lit 0 false false, .or [.lit 1 false false, .lit 2 false false]]) [] = none := by
  simp [cnfRec, cnfOr, cnfOrChild, litValue]

/-! ## `nnf_idem`: the polarity recursion agrees with Go's double normalisation

Go's `not{and(fs)}.nnf()` computes `or(subs).nnf()` with `subs[i] = not{fs[i]}.nnf()`, so every
child is normalised a second time by `or.nnf`. `nnfP` normalises once; both agree because `nnf`
is the identity on NNF trees. -/

theorem andFold_of_ok : ∀ (xs acc : List F), nnfOkAll true false xs = true →
    andFold xs acc = andFold [] (acc ++ xs) := by
  intro xs
  induction xs with
  | nil => intro acc _; simp
  | cons x xs ih =>
    intro acc h
    simp only [nnfOkAll, Bool.and_eq_true] at h
    cases x with
    | lit n d s =>
      have e : andFold (F.lit n d s :: xs) acc = andFold xs (acc ++ [F.lit n d s]) := by simp only [andFold]
      rw [e, ih _ h.2, List.append_assoc]; rfl
    | or gs =>
      have e : andFold (F.or gs :: xs) acc = andFold xs (acc ++ [F.or gs]) := by simp only [andFold]
      rw [e, ih _ h.2, List.append_assoc]; rfl
    | and gs => simp [nnfOk] at h
    | var n d => simp [nnfOk] at h
    | not f => simp [nnfOk] at h
    | tt => simp [nnfOk] at h
    | ff => simp [nnfOk] at h

theorem orFold_of_ok : ∀ (xs acc : List F), nnfOkAll false true xs = true →
    orFold xs acc = orFold [] (acc ++ xs) := by
  intro xs
  induction xs with
  | nil => intro acc _; simp
  | cons x xs ih =>
    intro acc h
    simp only [nnfOkAll, Bool.and_eq_true] at h
    cases x with
    | lit n d s =>
      have e : orFold (F.lit n d s :: xs) acc = orFold xs (acc ++ [F.lit n d s]) := by simp only [orFold]
      rw [e, ih _ h.2, List.append_assoc]; rfl
    | and gs =>
      have e : orFold (F.and gs :: xs) acc = orFold xs (acc ++ [F.and gs]) := by simp only [orFold]
      rw [e, ih _ h.2, List.append_assoc]; rfl
    | or gs => simp [nnfOk] at h
    | var n d => simp [nnfOk] at h
    | not f => simp [nnfOk] at h
    | tt => simp [nnfOk] at h
    | ff => simp [nnfOk] at h

mutual
theorem nnfP_fix : ∀ (a o : Bool) (f : F), nnfOk a o f = true → nnfP false f = f
  | _, _, .lit n d s, _ => by simp [nnfP]
  | a, o, .and fs, h => by
      simp [nnfOk] at h
      have hfix := nnfPs_fix true false fs h.2
      simp only [nnfP, hfix]
      rw [andFold_of_ok _ _ h.2]
      match fs, h.1.2 with
      | x :: y :: r, _ => simp [andFold]
  | a, o, .or fs, h => by
      simp [nnfOk] at h
      have hfix := nnfPs_fix false true fs h.2
      simp only [nnfP, hfix]
      rw [orFold_of_ok _ _ h.2]
      match fs, h.1.2 with
      | x :: y :: r, _ => simp [orFold]
  | _, _, .var _ _, h => by simp [nnfOk] at h
  | _, _, .not _, h => by simp [nnfOk] at h
  | _, _, .tt, h => by simp [nnfOk] at h
  | _, _, .ff, h => by simp [nnfOk] at h
theorem nnfPs_fix : ∀ (a o : Bool) (fs : List F), nnfOkAll a o fs = true → nnfPs false fs = fs
  | _, _, [], _ => by simp [nnfPs]
  | a, o, f :: fs, h => by
      simp [nnfOkAll] at h
      simp [nnfPs, nnfP_fix a o f h.1, nnfPs_fix a o fs h.2]
end

theorem nnf_fix (g : F) (h : IsNNF g) : nnf g = g := by
  rcases h with rfl | rfl | h
  · simp [nnf, nnfP]
  · simp [nnf, nnfP]
  · exact nnfP_fix _ _ g h

/-- **`nnf_idem`.** Normalising twice is normalising once. -/
theorem nnf_idem (f : F) : nnf (nnf f) = nnf f := nnf_fix _ (nnf_isNNF f)

theorem nnfPs_false_map (b : Bool) : ∀ fs : List F, nnfPs false (fs.map (nnfP b)) = nnfPs b fs
  | [] => by simp [nnfPs]
  | f :: fs => by
      have h := nnf_fix _ (nnfP_isNNF b f)
      simp only [nnf] at h
      simp [nnfPs, h, nnfPs_false_map b fs]

/-- the Go text of `not.nnf`, case `and`: `subs[i] = not{sub}.nnf(); return or(subs).nnf()` -/
theorem nnf_not_and (fs : List F) :
    nnf (.not (.and fs)) = nnf (.or (fs.map (fun s => nnf (.not s)))) := by
  simp [nnf, nnfP, nnfPs_false_map]

/-- the Go text of `not.nnf`, case `or`: `subs[i] = not{sub}.nnf(); return and(subs).nnf()` -/
theorem nnf_not_or (fs : List F) :
    nnf (.not (.or fs)) = nnf (.and (fs.map (fun s => nnf (.not s)))) := by
  simp [nnf, nnfP, nnfPs_false_map]

theorem nnfPs_eq_map (b : Bool) : ∀ fs : List F, nnfPs b fs = fs.map (nnfP b)
  | [] => by simp [nnfPs]
  | f :: fs => by simp [nnfPs, nnfPs_eq_map b fs]

/-- the Go text of `and.nnf` / `or.nnf`: normalise every child, then run the loop -/
theorem nnf_and (fs : List F) : nnf (.and fs) = andFold (fs.map nnf) [] := by
  simp only [nnf, nnfP, nnfPs_eq_map]; rfl
theorem nnf_or (fs : List F) : nnf (.or fs) = orFold (fs.map nnf) [] := by
  simp only [nnf, nnfP, nnfPs_eq_map]; rfl
theorem nnf_not_not (f : F) : nnf (.not (.not f)) = nnf f := by simp [nnf, nnfP]

/-! ## `builders_eval` -/

theorem implies_eval (m) (a b : F) : eval m (implies a b) = (!eval m a || eval m b) := by
  simp [implies, eval, evalAny]

theorem eq_eval (m) (a b : F) : eval m (eq a b) = (eval m a == eval m b) := by
  cases ha : eval m a <;> cases hb : eval m b <;> simp [eq, eval, evalAny, evalAll, ha, hb]

theorem xor_eval (m) (a b : F) : eval m (xor a b) = (eval m a != eval m b) := by
  cases ha : eval m a <;> cases hb : eval m b <;> simp [xor, eval, evalAny, evalAll, ha, hb]

theorem evalAll_mapNot (m) (v : F) : ∀ vs : List F,
    evalAll m (vs.map (fun w => F.or [.not v, .not w])) = (!eval m v || !evalAny m vs)
  | [] => by simp [evalAll, evalAny]
  | w :: vs => by
      cases hv : eval m v <;> cases hw : eval m w <;>
        simp [evalAll, evalAny, eval, evalAll_mapNot m v vs, hv, hw]

theorem evalAny_count (m) : ∀ vs : List F, evalAny m vs = decide (1 ≤ countTrue (vs.map (eval m)))
  | [] => by simp [evalAny, countTrue]
  | v :: vs => by
      cases hv : eval m v <;> simp [evalAny, countTrue, evalAny_count m vs, hv]

theorem pairsNot_count (m) : ∀ vs : List F,
    evalAll m (pairsNot vs) = decide (countTrue (vs.map (eval m)) ≤ 1)
  | [] => by simp [pairsNot, evalAll, countTrue]
  | v :: vs => by
      simp only [pairsNot, evalAll_append, evalAll_mapNot, pairsNot_count m vs, evalAny_count m vs,
        List.map_cons, countTrue]
      generalize countTrue (vs.map (eval m)) = c
      cases hv : eval m v
      · simp
      · rw [Bool.eq_iff_iff]
        simp only [Bool.not_eq_true', Bool.and_eq_true, decide_eq_true_eq,
          decide_eq_false_iff_not, if_true, Bool.not_true, Bool.false_or]
        omega

/-- `uniqueSmall` on arbitrary sub-formulas: exactly one *position* is true -/
theorem uniqueSmallV_eval (m) (vs : List F) :
    eval m (uniqueSmallV vs) = (countTrue (vs.map (eval m)) == 1) := by
  simp only [uniqueSmallV, eval, evalAll, evalAny_count, pairsNot_count]
  generalize countTrue (vs.map (eval m)) = c
  rw [Bool.eq_iff_iff]
  simp only [Bool.and_eq_true, decide_eq_true_eq, beq_iff_eq]
  omega

/-- **`uniqueSmall`.** Exactly one of the listed names is true, counted by position — which is
    the spec's `SF.unique`, *without* a distinctness hypothesis: with a repeated name `x` the
    Go formula contains `or{not x, not x}` and forces `x` false, and so does "exactly one
    position true" (e.g. `Unique("a","a")` is unsatisfiable on both sides). -/
theorem uniqueSmall_eval (m : Key → Bool) (ns : List Nat) :
    eval m (uniqueSmall ns) = (countTrue (ns.map (fun n => m (n, false))) == 1) := by
  simp only [uniqueSmall, uniqueSmallV_eval, List.map_map]
  rfl

theorem builders_eval (m : Key → Bool) (a b : F) (ns : List Nat) :
    eval m (implies a b) = (!eval m a || eval m b) ∧
    eval m (eq a b) = (eval m a == eval m b) ∧
    eval m (xor a b) = (eval m a != eval m b) ∧
    eval m (uniqueSmall ns) = (countTrue (ns.map (fun n => m (n, false))) == 1) :=
  ⟨implies_eval m a b, eq_eval m a b, xor_eval m a b, uniqueSmall_eval m ns⟩

example : ∀ x : Bool, eval (fun _ => x) (uniqueSmall [0, 0]) = false := by
  intro x; cases x <;> simp [uniqueSmall_eval, countTrue]
example : eval (fun k => k.1 == 1) (uniqueSmall [0, 0, 1]) = true := by
  simp [uniqueSmall_eval, countTrue]

/-! ## `ofSF_eval` -/

/-- a spec assignment of names as an assignment of Go variables (dummies take the value of
    their number; no formula in the image of `ofSF` mentions one) -/
def lift (m : Nat → Bool) : Key → Bool := fun k => m k.1

mutual
theorem ofSF_eval (m : Nat → Bool) : ∀ g : SF, eval (lift m) (ofSF g) = SF.eval m g
  | .var n => by simp [ofSF, pbVar, eval, SF.eval, lift]
  | .tt => by simp [ofSF, eval, SF.eval]
  | .ff => by simp [ofSF, eval, SF.eval]
  | .not f => by simp [ofSF, eval, SF.eval, ofSF_eval m f]
  | .and fs => by simp [ofSF, eval, SF.eval, ofSFs_all m fs]
  | .or fs => by simp [ofSF, eval, SF.eval, ofSFs_any m fs]
  | .imp a b => by simp [ofSF, implies_eval, SF.eval, ofSF_eval m a, ofSF_eval m b]
  | .iff a b => by simp [ofSF, eq_eval, SF.eval, ofSF_eval m a, ofSF_eval m b]
  | .xor a b => by simp [ofSF, xor_eval, SF.eval, ofSF_eval m a, ofSF_eval m b]
  | .unique ns => by simp [ofSF, uniqueSmall_eval, SF.eval, lift]
theorem ofSFs_all (m : Nat → Bool) : ∀ fs : List SF, evalAll (lift m) (ofSFs fs) = SF.evalAll m fs
  | [] => by simp [ofSFs, evalAll, SF.evalAll]
  | f :: fs => by simp [ofSFs, evalAll, SF.evalAll, ofSF_eval m f, ofSFs_all m fs]
theorem ofSFs_any (m : Nat → Bool) : ∀ fs : List SF, evalAny (lift m) (ofSFs fs) = SF.evalAny m fs
  | [] => by simp [ofSFs, evalAny, SF.evalAny]
  | f :: fs => by simp [ofSFs, evalAny, SF.evalAny, ofSF_eval m f, ofSFs_any m fs]
end

/-- **C11, formula side.** The NNF that `Solve` / `Dimacs` hand to `cnfRec` has the truth table
    of the formula the user wrote (for every spec formula; the Go `Unique` is `uniqueSmall` only
    when `supported g`). -/
theorem nnf_ofSF_eval (m : Nat → Bool) (g : SF) : eval (lift m) (nnf (ofSF g)) = SF.eval m g := by
  rw [nnf_eval, ofSF_eval]

example : supported (.and [.unique [0, 1, 2, 3], .iff (.var 0) (.xor (.var 1) (.not (.var 2)))]) = true := by
  simp [supported, supportedAll]

end GS.Bf
