import GS.Props.C01_Watch
/-!
# C01 (support) — the two-watched-literal invariant is preserved by `propagate` (dynamic part)

Building blocks: the elementary state changes of `simplifyPropClauses` / `propagate`
(`bindSt`: bind a literal and push it; exchange of the literals 0/1 of a clause; replacement of a
watcher in place; move of a watcher to another list together with the exchange of the literals 1/k)
each preserve `WatchInv`.
-/
namespace GS.Watch

/-! ## Binding an unbound literal -/

/-- the state after `bind` -/
def bindSt (st : State) (l : Int) (lvl : Int) (cid : Nat) : State :=
  { st with
    reasons := st.reasons.set (l.natAbs - 1) (some cid)
    model := st.model.set (l.natAbs - 1) (signedLvl l lvl)
    trail := st.trail ++ [l] }

theorem bind_eq {st : State} {l : Int} (lvl : Int) (cid : Nat) (hl : l ≠ 0)
    (h1 : l.natAbs - 1 < st.reasons.length) (h2 : l.natAbs - 1 < st.model.length) :
    bind st l lvl cid = some (bindSt st l lvl cid) := by
  unfold bind bindSt
  simp [hl, h1, h2]

theorem signedLvl_ne_zero {l lvl : Int} (h : lvl ≠ 0) : signedLvl l lvl ≠ 0 := by
  unfold signedLvl; split <;> omega

theorem signedLvl_pos_iff {l lvl : Int} (hl : l ≠ 0) (h : 0 < lvl) : (signedLvl l lvl > 0 ↔ l > 0) := by
  unfold signedLvl; split <;> omega

/-- bound literals keep their value when an unbound variable gets bound -/
theorem litStatus_set_mono {m : List Int} {l x : Int} {v : Int} {s : Status}
    (hu : litUnboundB m l = true) (hs : litStatus m x = some s) (hne : s ≠ .indet) :
    litStatus (m.set (l.natAbs - 1) v) x = some s := by
  obtain ⟨hl0, hm0⟩ := litUnboundB_iff.mp hu
  unfold litStatus modelAt at hs ⊢
  by_cases hx : x = 0
  · simp [hx] at hs
  · simp only [hx, if_false] at hs ⊢
    cases hmx : m[x.natAbs - 1]? with
    | none => simp [hmx] at hs
    | some a =>
      have hidx : l.natAbs - 1 ≠ x.natAbs - 1 := by
        intro heq
        rw [heq, hmx] at hm0
        cases hm0
        simp [hmx] at hs
        exact hne hs.symm
      rw [List.getElem?_set_ne hidx, hmx]
      simpa [hmx] using hs

theorem litTrueB_set_mono {m : List Int} {l x : Int} {v : Int}
    (hu : litUnboundB m l = true) (h : litTrueB m x = true) :
    litTrueB (m.set (l.natAbs - 1) v) x = true := by
  unfold litTrueB at h ⊢
  have : litStatus m x = some .sat := by simpa using h
  rw [litStatus_set_mono hu this (by simp)]
  simp

theorem litFalseB_set_mono {m : List Int} {l x : Int} {v : Int}
    (hu : litUnboundB m l = true) (h : litFalseB m x = true) :
    litFalseB (m.set (l.natAbs - 1) v) x = true := by
  unfold litFalseB at h ⊢
  have : litStatus m x = some .unsat := by simpa using h
  rw [litStatus_set_mono hu this (by simp)]
  simp

theorem litTrueB_set_self {m : List Int} {l lvl : Int} (hu : litUnboundB m l = true) (hlvl : 0 < lvl) :
    litTrueB (m.set (l.natAbs - 1) (signedLvl l lvl)) l = true := by
  obtain ⟨hl0, hm0⟩ := litUnboundB_iff.mp hu
  have hlt : l.natAbs - 1 < m.length := by
    rcases Nat.lt_or_ge (l.natAbs - 1) m.length with h | h
    · exact h
    · rw [List.getElem?_eq_none h] at hm0; cases hm0
  apply litTrueB_iff.mpr
  refine ⟨hl0, signedLvl l lvl, ?_, signedLvl_ne_zero (by omega), signedLvl_pos_iff hl0 hlvl⟩
  rw [List.getElem?_set_self hlt]

theorem natAbs_notMem_trail {st : State} {ptr : Nat} (h : WatchInv st ptr) {l : Int}
    (hu : litUnboundB st.model l = true) : l.natAbs ∉ st.trail.map Int.natAbs := by
  intro hmem
  obtain ⟨t, ht, htv⟩ := List.mem_map.mp hmem
  obtain ⟨_, a, ha, ha0, _⟩ := litTrueB_iff.mp (h.trail_true t ht)
  obtain ⟨_, hm0⟩ := litUnboundB_iff.mp hu
  rw [htv, hm0] at ha
  cases ha
  exact ha0 rfl

/-- **Binding preserves the invariant** (binary branch of `propagate`, `propagateUnit`). -/
theorem bindSt_inv {st : State} {ptr : Nat} {l lvl : Int} (cid : Nat) (h : WatchInv st ptr)
    (hu : litUnboundB st.model l = true) (hlvl : 0 < lvl) :
    WatchInv (bindSt st l lvl cid) ptr := by
  obtain ⟨hl0, hm0⟩ := litUnboundB_iff.mp hu
  have hlt : l.natAbs - 1 < st.model.length := by
    rcases Nat.lt_or_ge (l.natAbs - 1) st.model.length with h | h
    · exact h
    · rw [List.getElem?_eq_none h] at hm0; cases hm0
  have hpos : 0 < l.natAbs := Int.natAbs_pos.mpr hl0
  have htake : (st.trail ++ [l]).take ptr = st.trail.take ptr :=
    List.take_append_of_le_length h.ptr_le
  refine ⟨?_, ?_, ?_, ?_, ?_, ?_, ?_, ?_, ?_, ?_, ?_⟩
  · simpa [bindSt] using h.shape
  · simpa [bindSt] using h.clauses
  · have := h.ptr_le
    simp [bindSt]; omega
  · intro x hx
    simp only [bindSt, List.mem_append, List.mem_singleton] at hx
    rcases hx with hx | hx
    · exact litTrueB_set_mono hu (h.trail_true x hx)
    · subst hx; exact litTrueB_set_self hu hlvl
  · simp only [bindSt, List.map_append, List.map_cons, List.map_nil]
    rw [List.nodup_append]
    refine ⟨h.trail_nodup, by simp, ?_⟩
    intro a ha b hb
    simp only [List.mem_singleton] at hb
    subst hb
    intro heq
    subst heq
    exact natAbs_notMem_trail h hu ha
  · intro v hv
    simp only [bindSt, List.length_set] at hv
    simp only [bindSt, List.map_append, List.mem_append]
    by_cases hvl : v = l.natAbs - 1
    · right; right
      subst hvl
      have : l.natAbs - 1 + 1 = l.natAbs := by omega
      simp [this]
    · rw [List.getElem?_set_ne (Ne.symm hvl)]
      rcases h.bound_on_trail v hv with h1 | h1
      · exact Or.inl h1
      · exact Or.inr (Or.inl h1)
  · exact h.wbin
  · exact h.wlong
  · exact h.count
  · intro i ws hws hin w hw
    simp only [bindSt] at hin
    rw [htake] at hin
    exact litTrueB_set_mono hu (h.semBin i ws hws hin w hw)
  · intro i ws hws hin w hw
    simp only [bindSt] at hin
    rw [htake] at hin
    rcases h.semLong i ws hws hin w hw with h1 | ⟨c, hc, h2⟩
    · exact Or.inl (litTrueB_set_mono hu h1)
    · right
      refine ⟨c, hc, ?_⟩
      rcases h2 with ⟨a, ha, hat⟩ | ⟨b, hb, hbt⟩
      · exact Or.inl ⟨a, ha, litTrueB_set_mono hu hat⟩
      · exact Or.inr ⟨b, hb, litTrueB_set_mono hu hbt⟩

/-! ## Exchange of the literals 0 and 1 of a clause of length ≥ 3 (`c.swap(0, 1)`) -/

theorem set_get {α} {cl : List α} {cid : Nat} {c : α} (c' : α) (j : Nat) (hc : cl[cid]? = some c) :
    (cl.set cid c')[j]? = if j = cid then some c' else cl[j]? := by
  have hlt : cid < cl.length := by
    rcases Nat.lt_or_ge cid cl.length with h | h
    · exact h
    · rw [List.getElem?_eq_none h] at hc; cases hc
  rw [List.getElem?_set]
  by_cases hj : j = cid
  · subst hj; simp [hlt]
  · have : cid ≠ j := fun h => hj h.symm
    simp [hj, this]

theorem clauseCond_perm {n : Nat} {c c' : List Int} (hp : c'.Perm c)
    (h : 2 ≤ c.length ∧ (∀ l ∈ c, l ≠ 0 ∧ l.natAbs ≤ n) ∧ (c.map Int.natAbs).Nodup) :
    2 ≤ c'.length ∧ (∀ l ∈ c', l ≠ 0 ∧ l.natAbs ≤ n) ∧ (c'.map Int.natAbs).Nodup := by
  refine ⟨by rw [hp.length_eq]; exact h.1, fun l hl => h.2.1 l (hp.mem_iff.mp hl), ?_⟩
  exact ((hp.map Int.natAbs).nodup_iff).mpr h.2.2

theorem swap01_inv {st : State} {ptr cid : Nat} {a b : Int} {r : List Int} (h : WatchInv st ptr)
    (hc : st.clauses[cid]? = some (a :: b :: r)) (hr : r ≠ []) :
    WatchInv { st with clauses := st.clauses.set cid (b :: a :: r) } ptr := by
  have hold := h.clauses _ (mem_of_getElem?_eq hc)
  refine ⟨h.shape, ?_, h.ptr_le, h.trail_true, h.trail_nodup, h.bound_on_trail, ?_, ?_, ?_,
    h.semBin, ?_⟩
  · intro c hcm
    rcases List.mem_or_eq_of_mem_set hcm with hcm | hcm
    · exact h.clauses c hcm
    · subst hcm
      exact clauseCond_perm (List.Perm.swap a b r) hold
  · intro i ws hws w hw
    obtain ⟨c, hcw, hshape⟩ := h.wbin i ws hws w hw
    refine ⟨c, ?_, hshape⟩
    show (st.clauses.set cid (b :: a :: r))[w.cid]? = some c
    rw [set_get _ _ hc]
    by_cases hwc : w.cid = cid
    · rw [hwc, hc] at hcw
      cases hcw
      cases r with
      | nil => exact absurd rfl hr
      | cons y r' => rcases hshape with hs | hs <;> simp at hs
    · simp [hwc, hcw]
  · intro i ws hws w hw
    obtain ⟨c, hcw, hlen, h01, hoc⟩ := h.wlong i ws hws w hw
    show ∃ c, (st.clauses.set cid (b :: a :: r))[w.cid]? = some c ∧ _
    rw [set_get _ _ hc]
    by_cases hwc : w.cid = cid
    · rw [hwc, hc] at hcw
      cases hcw
      refine ⟨b :: a :: r, by simp [hwc], by simpa using hlen, ?_, ?_⟩
      · simp only [List.getElem?_cons_zero, List.getElem?_cons_succ] at h01 ⊢
        exact h01.symm
      · exact (List.Perm.swap a b r).mem_iff.mpr hoc
    · exact ⟨c, by simp [hwc, hcw], hlen, h01, hoc⟩
  · intro cid' c' hc'
    change (st.clauses.set cid (b :: a :: r))[cid']? = some c' at hc'
    rw [set_get _ _ hc] at hc'
    by_cases hcc : cid' = cid
    · simp only [hcc, if_true, Option.some.injEq] at hc'
      subst hc'
      obtain ⟨a', b', h0, h1, la, lb, hla, hca, hlb, hcb⟩ := h.count cid _ hc
      simp only [List.getElem?_cons_zero, List.getElem?_cons_succ, Option.some.injEq] at h0 h1
      subst h0 h1
      have hlen : (b :: a :: r).length = (a :: b :: r).length := by simp
      refine ⟨b, a, by simp, by simp, lb, la, ?_, ?_, ?_, ?_⟩
      · rw [hlen]; exact hlb
      · rw [hcc]; exact hcb
      · rw [hlen]; exact hla
      · rw [hcc]; exact hca
    · simp only [hcc, if_false] at hc'
      exact h.count cid' c' hc'
  · intro i ws hws hin w hw
    rcases h.semLong i ws hws hin w hw with h1 | ⟨c, hcw, h2⟩
    · exact Or.inl h1
    · right
      show ∃ c, (st.clauses.set cid (b :: a :: r))[w.cid]? = some c ∧ _
      rw [set_get _ _ hc]
      by_cases hwc : w.cid = cid
      · rw [hwc, hc] at hcw
        cases hcw
        refine ⟨b :: a :: r, by simp [hwc], ?_⟩
        simp only [List.getElem?_cons_zero, List.getElem?_cons_succ, Option.some.injEq,
          exists_eq_left'] at h2 ⊢
        exact h2.symm
      · exact ⟨c, by simp [hwc, hcw], h2⟩

/-! ## Replacement of a watcher in place (`wl[j] = w2`) -/

theorem litIdx_idxLit (i : Nat) : litIdx (idxLit i) = i := by
  unfold idxLit litIdx
  by_cases h : i % 2 = 0
  · simp only [h, if_true]
    have : ¬ (((i / 2 + 1 : Nat) : Int) < 0) := by omega
    simp only [this, if_false]
    have : (((i / 2 + 1 : Nat) : Int)).natAbs = i / 2 + 1 := by omega
    omega
  · simp only [h, if_false]
    have : (-((i / 2 + 1 : Nat) : Int) < 0) := by omega
    simp only [this, if_true]
    have : (-((i / 2 + 1 : Nat) : Int)).natAbs = i / 2 + 1 := by omega
    omega

theorem idxLit_ne_zero (i : Nat) : idxLit i ≠ 0 := by
  unfold idxLit; split <;> omega

theorem countW_append (l1 l2 : List Watcher) (cid : Nat) :
    countW (l1 ++ l2) cid = countW l1 cid + countW l2 cid := by
  unfold countW; simp [List.countP_append]

theorem countW_cons (w : Watcher) (l : List Watcher) (cid : Nat) :
    countW (w :: l) cid = countW l cid + (if w.cid = cid then 1 else 0) := by
  unfold countW; simp [List.countP_cons]

theorem countW_nil (cid : Nat) : countW [] cid = 0 := rfl

theorem countW_zero_of {l : List Watcher} {cid : Nat} (h : countW l cid = 0) :
    ∀ w ∈ l, w.cid ≠ cid := by
  intro w hw hc
  unfold countW at h
  have := List.countP_eq_zero.mp h w hw
  simp [hc] at this

theorem zero_countW_of {l : List Watcher} {cid : Nat} (h : ∀ w ∈ l, w.cid ≠ cid) :
    countW l cid = 0 := by
  unfold countW
  apply List.countP_eq_zero.mpr
  intro w hw
  simpa using h w hw

/-- `wget` after one list has been replaced -/
theorem wget_set {ws : List (List Watcher)} {i : Nat} {L : List Watcher} (L' : List Watcher)
    (hi : ws[i]? = some L) (l : Int) :
    wget (ws.set i L') l = if l ≠ 0 ∧ litIdx l = i then some L' else wget ws l := by
  unfold wget
  by_cases hl : l = 0
  · simp [hl]
  · simp only [hl, if_false, ne_eq, not_false_eq_true, true_and]
    rw [set_get _ _ hi]

theorem replaceW_inv {st : State} {ptr i : Nat} {pre post : List Watcher} {w w2 : Watcher}
    (h : WatchInv st ptr) (hi : st.wlong[i]? = some (pre ++ w :: post)) (hcid : w2.cid = w.cid)
    (hother : ∀ c, st.clauses[w.cid]? = some c → w2.other ∈ c)
    (hnot : idxLit i ∉ st.trail.take ptr) :
    WatchInv { st with wlong := st.wlong.set i (pre ++ w2 :: post) } ptr := by
  refine ⟨?_, h.clauses, h.ptr_le, h.trail_true, h.trail_nodup, h.bound_on_trail, h.wbin, ?_, ?_,
    h.semBin, ?_⟩
  · simpa using h.shape
  · intro j ws hws w' hw'
    change (st.wlong.set i (pre ++ w2 :: post))[j]? = some ws at hws
    rw [set_get _ _ hi] at hws
    by_cases hj : j = i
    · simp only [hj, if_true, Option.some.injEq] at hws
      subst hws
      have hmem : w' = w2 ∨ w' ∈ pre ++ w :: post := by
        simp only [List.mem_append, List.mem_cons] at hw' ⊢
        rcases hw' with h1 | h1 | h1
        · exact Or.inr (Or.inl h1)
        · exact Or.inl h1
        · exact Or.inr (Or.inr (Or.inr h1))
      rcases hmem with hm | hm
      · subst hm
        obtain ⟨c, hcw, hlen, h01, _⟩ := h.wlong i _ hi w (by simp)
        rw [hj, hcid]
        exact ⟨c, hcw, hlen, h01, hother c hcw⟩
      · rw [hj]; exact h.wlong i _ hi w' hm
    · simp only [hj, if_false] at hws
      exact h.wlong j ws hws w' hw'
  · intro cid c hc
    obtain ⟨a, b, h0, h1, la, lb, hla, hca, hlb, hcb⟩ := h.count cid c hc
    refine ⟨a, b, h0, h1, ?_⟩
    by_cases h2 : c.length = 2
    · simp only [h2, if_true] at hla hlb ⊢
      exact ⟨la, lb, hla, hca, hlb, hcb⟩
    · simp only [h2, if_false] at hla hlb ⊢
      have hcount : countW (pre ++ w2 :: post) cid = countW (pre ++ w :: post) cid := by
        simp [countW_append, countW_cons, hcid]
      have key : ∀ (l : Int) (lx : List Watcher), wget st.wlong l = some lx → countW lx cid = 1 →
          ∃ lx', wget (st.wlong.set i (pre ++ w2 :: post)) l = some lx' ∧ countW lx' cid = 1 := by
        intro l lx hlx hcx
        rw [wget_set _ hi]
        by_cases hl : l ≠ 0 ∧ litIdx l = i
        · rw [if_pos hl]
          refine ⟨_, rfl, ?_⟩
          rw [hcount]
          unfold wget at hlx
          simp only [hl.1, if_false] at hlx
          rw [hl.2, hi] at hlx
          cases hlx
          exact hcx
        · rw [if_neg hl]
          exact ⟨lx, hlx, hcx⟩
      obtain ⟨la', hla', hca'⟩ := key _ la hla hca
      obtain ⟨lb', hlb', hcb'⟩ := key _ lb hlb hcb
      exact ⟨la', lb', hla', hca', hlb', hcb'⟩
  · intro j ws hws hin w' hw'
    change (st.wlong.set i (pre ++ w2 :: post))[j]? = some ws at hws
    rw [set_get _ _ hi] at hws
    by_cases hj : j = i
    · subst hj; exact absurd hin hnot
    · simp only [hj, if_false] at hws
      exact h.semLong j ws hws hin w' hw'

/-! ## Move of a watcher to the list of another literal (`c.swap(1, k)`, `wlist[neg] = append(…)`) -/

theorem set_perm {b x : Int} : ∀ {r : List Int} {j : Nat}, r[j]? = some x →
    (x :: r.set j b).Perm (b :: r)
  | [], _, h => by simp at h
  | y :: r', 0, h => by
    simp only [List.getElem?_cons_zero, Option.some.injEq] at h
    subst h
    simpa using List.Perm.swap b y r'
  | y :: r', j + 1, h => by
    simp only [List.getElem?_cons_succ] at h
    have ih := set_perm (b := b) h
    simp only [List.set_cons_succ]
    exact (List.Perm.swap y x _).trans ((ih.cons y).trans (List.Perm.swap b y r'))

theorem natAbs_ne_of_nodup_cons {a : Int} {l : List Int} {x : Int}
    (h : ((a :: l).map Int.natAbs).Nodup) (hx : x ∈ l) : x.natAbs ≠ a.natAbs := by
  simp only [List.map_cons, List.nodup_cons, List.mem_map] at h
  intro heq
  exact h.1 ⟨x, hx, heq⟩

theorem litIdx_ne_of_natAbs_ne {a b : Int} (ha : a ≠ 0) (hb : b ≠ 0) (h : a.natAbs ≠ b.natAbs) :
    litIdx a ≠ litIdx b := by
  intro heq
  exact h (by rw [litIdx_inj ha hb heq])

theorem moveW_inv {st : State} {ptr : Nat} {lit first litK : Int} {r : List Int} {j : Nat}
    {pre post Lk : List Watcher} {w : Watcher}
    (h : WatchInv st ptr) (hlit : lit ≠ 0)
    (hi : st.wlong[litIdx lit]? = some (pre ++ w :: post))
    (hc : st.clauses[w.cid]? = some (first :: (-lit) :: r))
    (hk : r[j]? = some litK)
    (hLk : st.wlong[litIdx (-litK)]? = some Lk)
    (hnot : lit ∉ st.trail.take ptr)
    (hnk : litTrueB st.model (-litK) = false)
    (hnl : litTrueB st.model (-lit) = false) :
    WatchInv { st with
      clauses := st.clauses.set w.cid (first :: litK :: r.set j (-lit))
      wlong := (st.wlong.set (litIdx (-litK)) (Lk ++ [⟨w.cid, first⟩])).set (litIdx lit) (pre ++ post) }
      ptr := by
  have hold := h.clauses _ (mem_of_getElem?_eq hc)
  obtain ⟨_, hlits, hnd⟩ := hold
  have hKr : litK ∈ r := mem_of_getElem?_eq hk
  have hK0 : litK ≠ 0 := (hlits litK (by simp [hKr])).1
  have hf0 : first ≠ 0 := (hlits first (by simp)).1
  have hnK0 : -litK ≠ 0 := by omega
  have hnf0 : -first ≠ 0 := by omega
  -- distinct variables
  have hKf : litK.natAbs ≠ first.natAbs := natAbs_ne_of_nodup_cons hnd (by simp [hKr])
  have hnd' : (((-lit) :: r).map Int.natAbs).Nodup := by
    simp only [List.map_cons, List.nodup_cons] at hnd ⊢; exact hnd.2
  have hKl : litK.natAbs ≠ lit.natAbs := by
    have := natAbs_ne_of_nodup_cons hnd' hKr
    simpa using this
  have hfl : first.natAbs ≠ lit.natAbs := by
    simp only [List.map_cons, List.nodup_cons, List.mem_cons, Int.natAbs_neg] at hnd
    intro heq; exact hnd.1 (Or.inl heq)
  have hik : litIdx (-litK) ≠ litIdx lit := litIdx_ne_of_natAbs_ne hnK0 hlit (by simpa using hKl)
  have hif : litIdx (-first) ≠ litIdx lit := litIdx_ne_of_natAbs_ne hnf0 hlit (by simpa using hfl)
  have hkf : litIdx (-first) ≠ litIdx (-litK) := litIdx_ne_of_natAbs_ne hnf0 hnK0 (by simpa using hKf.symm)
  have hr3 : 3 ≤ (first :: (-lit) :: r).length := by
    cases r with
    | nil => simp at hk
    | cons y r' => simp
  have hperm : (first :: litK :: r.set j (-lit)).Perm (first :: (-lit) :: r) :=
    (set_perm hk).cons first
  -- lookups in the new lists
  have hi' : (st.wlong.set (litIdx (-litK)) (Lk ++ [⟨w.cid, first⟩]))[litIdx lit]? =
      some (pre ++ w :: post) := by
    rw [set_get _ _ hLk]; simp [Ne.symm hik, hi]
  have hnew : ∀ j', ((st.wlong.set (litIdx (-litK)) (Lk ++ [⟨w.cid, first⟩])).set (litIdx lit)
      (pre ++ post))[j']? =
      if j' = litIdx lit then some (pre ++ post)
      else if j' = litIdx (-litK) then some (Lk ++ [⟨w.cid, first⟩]) else st.wlong[j']? := by
    intro j'
    rw [set_get _ _ hi', set_get _ _ hLk]
  have hcl : ∀ j', (st.clauses.set w.cid (first :: litK :: r.set j (-lit)))[j']? =
      if j' = w.cid then some (first :: litK :: r.set j (-lit)) else st.clauses[j']? :=
    fun j' => set_get _ _ hc
  -- no other watcher of the clause in the two lists that change
  have hcnt := h.count w.cid _ hc
  obtain ⟨a', b', h0', h1', la, lb, hla, hca, hlb, hcb⟩ := hcnt
  simp only [List.getElem?_cons_zero, List.getElem?_cons_succ, Option.some.injEq] at h0' h1'
  subst h0' h1'
  have hne2 : ¬ (first :: (-lit) :: r).length = 2 := by omega
  simp only [hne2, if_false, Int.neg_neg] at hla hlb
  have hlb' : lb = pre ++ w :: post := by
    unfold wget at hlb
    simp only [hlit, if_false] at hlb
    rw [hi] at hlb
    exact (Option.some.inj hlb).symm
  subst hlb'
  have hla' : st.wlong[litIdx (-first)]? = some la := by
    unfold wget at hla
    simpa [hnf0] using hla
  have F1 : ∀ w' ∈ pre ++ post, w'.cid ≠ w.cid := by
    apply countW_zero_of
    simp only [countW_append, countW_cons, if_true] at hcb ⊢
    omega
  have F2 : ∀ w' ∈ Lk, w'.cid ≠ w.cid := by
    intro w' hw' hcid
    obtain ⟨c, hcw, _, h01, _⟩ := h.wlong _ Lk hLk w' hw'
    rw [hcid, hc] at hcw
    cases hcw
    rw [idxLit_litIdx hnK0] at h01
    simp only [List.getElem?_cons_zero, List.getElem?_cons_succ, Option.some.injEq, Int.neg_neg] at h01
    rcases h01 with h01 | h01
    · exact hKf (by rw [h01])
    · exact hKl (by rw [← h01]; simp)
  refine ⟨?_, ?_, h.ptr_le, h.trail_true, h.trail_nodup, h.bound_on_trail, ?_, ?_, ?_,
    h.semBin, ?_⟩
  · simpa using h.shape
  · intro c hcm
    rcases List.mem_or_eq_of_mem_set hcm with hcm | hcm
    · exact h.clauses c hcm
    · subst hcm
      exact clauseCond_perm hperm (h.clauses _ (mem_of_getElem?_eq hc))
  · -- wbin
    intro i ws hws w' hw'
    obtain ⟨c, hcw, hshape⟩ := h.wbin i ws hws w' hw'
    refine ⟨c, ?_, hshape⟩
    show (st.clauses.set w.cid _)[w'.cid]? = some c
    rw [hcl]
    by_cases hwc : w'.cid = w.cid
    · rw [hwc, hc] at hcw
      cases hcw
      rcases hshape with hs | hs <;> rw [hs] at hr3 <;> simp at hr3
    · simp [hwc, hcw]
  · -- wlong
    intro i ws hws w' hw'
    change ((st.wlong.set _ _).set _ _)[i]? = some ws at hws
    show ∃ c, (st.clauses.set w.cid _)[w'.cid]? = some c ∧ _
    rw [hnew] at hws
    rw [hcl]
    by_cases hii : i = litIdx lit
    · simp only [hii, if_true, Option.some.injEq] at hws
      subst hws
      have hne := F1 w' hw'
      have hmem : w' ∈ pre ++ w :: post := by
        simp only [List.mem_append, List.mem_cons] at hw' ⊢
        rcases hw' with h1 | h1
        · exact Or.inl h1
        · exact Or.inr (Or.inr h1)
      obtain ⟨c, hcw, rest⟩ := h.wlong _ _ hi w' hmem
      rw [hii]
      exact ⟨c, by simp [hne, hcw], rest⟩
    · simp only [hii, if_false] at hws
      by_cases hik' : i = litIdx (-litK)
      · simp only [hik', if_true, Option.some.injEq] at hws
        subst hws
        simp only [List.mem_append, List.mem_singleton] at hw'
        rcases hw' with hw' | hw'
        · have hne := F2 w' hw'
          obtain ⟨c, hcw, rest⟩ := h.wlong _ Lk hLk w' hw'
          rw [hik']
          exact ⟨c, by simp [hne, hcw], rest⟩
        · subst hw'
          refine ⟨first :: litK :: r.set j (-lit), by simp, ?_, ?_, by simp⟩
          · rw [hperm.length_eq]; exact hr3
          · right
            rw [hik', idxLit_litIdx hnK0]
            simp
      · simp only [hik', if_false] at hws
        obtain ⟨c, hcw, hlen, h01, hoc⟩ := h.wlong i ws hws w' hw'
        by_cases hwc : w'.cid = w.cid
        · rw [hwc, hc] at hcw
          cases hcw
          refine ⟨first :: litK :: r.set j (-lit), by simp [hwc], by rw [hperm.length_eq]; exact hr3, ?_, hperm.mem_iff.mpr hoc⟩
          simp only [List.getElem?_cons_zero, List.getElem?_cons_succ, Option.some.injEq] at h01 ⊢
          rcases h01 with h01 | h01
          · exact Or.inl h01
          · exfalso
            have : idxLit i = lit := by omega
            apply hii
            rw [← this, litIdx_idxLit]
        · exact ⟨c, by simp [hwc, hcw], hlen, h01, hoc⟩
  · -- count
    intro cid c hc'
    change (st.clauses.set w.cid _)[cid]? = some c at hc'
    rw [hcl] at hc'
    show ∃ a b, c[0]? = some a ∧ c[1]? = some b ∧ ∃ la lb,
      wget (if c.length = 2 then st.wbin else
        (st.wlong.set (litIdx (-litK)) (Lk ++ [⟨w.cid, first⟩])).set (litIdx lit) (pre ++ post)) (-a)
          = some la ∧ countW la cid = 1 ∧
      wget (if c.length = 2 then st.wbin else
        (st.wlong.set (litIdx (-litK)) (Lk ++ [⟨w.cid, first⟩])).set (litIdx lit) (pre ++ post)) (-b)
          = some lb ∧ countW lb cid = 1
    by_cases hcc : cid = w.cid
    · simp only [hcc, if_true, Option.some.injEq] at hc'
      subst hc'
      have hne2' : ¬ (first :: litK :: r.set j (-lit)).length = 2 := by
        rw [hperm.length_eq]; exact hne2
      simp only [hne2', if_false]
      refine ⟨first, litK, by simp, by simp, la, Lk ++ [⟨w.cid, first⟩], ?_, ?_, ?_, ?_⟩
      · unfold wget
        simp only [hnf0, if_false]
        rw [hnew]
        simp [hif, hkf, hla']
      · rw [hcc]; exact hca
      · unfold wget
        simp only [hnK0, if_false]
        rw [hnew]
        simp [hik]
      · rw [hcc, countW_append, countW_cons, countW_nil, zero_countW_of F2]
        simp
    · simp only [hcc, if_false] at hc'
      obtain ⟨a, b, h0, h1, la', lb', hla2, hca2, hlb2, hcb2⟩ := h.count cid c hc'
      refine ⟨a, b, h0, h1, ?_⟩
      by_cases h2 : c.length = 2
      · simp only [h2, if_true] at hla2 hlb2 ⊢
        exact ⟨la', lb', hla2, hca2, hlb2, hcb2⟩
      · simp only [h2, if_false] at hla2 hlb2 ⊢
        have key : ∀ (l : Int) (lx : List Watcher), wget st.wlong l = some lx → countW lx cid = 1 →
            ∃ lx', wget ((st.wlong.set (litIdx (-litK)) (Lk ++ [⟨w.cid, first⟩])).set (litIdx lit)
              (pre ++ post)) l = some lx' ∧ countW lx' cid = 1 := by
          intro l lx hlx hcx
          unfold wget at hlx ⊢
          by_cases hl : l = 0
          · simp [hl] at hlx
          · simp only [hl, if_false] at hlx ⊢
            rw [hnew]
            by_cases hli : litIdx l = litIdx lit
            · simp only [hli, if_true]
              refine ⟨_, rfl, ?_⟩
              rw [hli, hi] at hlx
              cases hlx
              simp only [countW_append, countW_cons] at hcx ⊢
              have : ¬ w.cid = cid := fun h => hcc h.symm
              simp only [this, if_false] at hcx
              omega
            · simp only [hli, if_false]
              by_cases hlk : litIdx l = litIdx (-litK)
              · simp only [hlk, if_true]
                refine ⟨_, rfl, ?_⟩
                rw [hlk, hLk] at hlx
                cases hlx
                have : ¬ w.cid = cid := fun h => hcc h.symm
                simp [countW_append, countW_cons, countW_nil, this, hcx]
              · simp only [hlk, if_false]
                exact ⟨lx, hlx, hcx⟩
        obtain ⟨la'', hla'', hca''⟩ := key _ la' hla2 hca2
        obtain ⟨lb'', hlb'', hcb''⟩ := key _ lb' hlb2 hcb2
        exact ⟨la'', lb'', hla'', hca'', hlb'', hcb''⟩
  · -- semLong
    intro i ws hws hin w' hw'
    change ((st.wlong.set _ _).set _ _)[i]? = some ws at hws
    show _ ∨ ∃ c, (st.clauses.set w.cid _)[w'.cid]? = some c ∧ _
    rw [hnew] at hws
    rw [hcl]
    by_cases hii : i = litIdx lit
    · exfalso
      rw [hii, idxLit_litIdx hlit] at hin
      exact hnot hin
    · simp only [hii, if_false] at hws
      by_cases hik' : i = litIdx (-litK)
      · exfalso
        rw [hik', idxLit_litIdx hnK0] at hin
        have := h.trail_true _ (List.mem_of_mem_take hin)
        rw [this] at hnk
        cases hnk
      · simp only [hik', if_false] at hws
        rcases h.semLong i ws hws hin w' hw' with h1 | ⟨c, hcw, h2⟩
        · exact Or.inl h1
        · by_cases hwc : w'.cid = w.cid
          · rw [hwc, hc] at hcw
            cases hcw
            simp only [List.getElem?_cons_zero, List.getElem?_cons_succ, Option.some.injEq,
              exists_eq_left'] at h2
            rcases h2 with h2 | h2
            · right
              exact ⟨first :: litK :: r.set j (-lit), by simp [hwc], Or.inl ⟨first, by simp, h2⟩⟩
            · rw [h2] at hnl; cases hnl
          · right
            exact ⟨c, by simp [hwc, hcw], h2⟩

end GS.Watch
