import GS.Model.Append
import GS.Props.C01_Simplify
/-!
# C09 — the simplification prologue of `(*Solver).AppendClause` is semantically correct

About the mirror `GS.Append.appendSimplify` (`GS/Model/Append.lean`) of `/repo/solver/solver.go`.

* `appendSimplify_sem` (all inputs): for every top-level model `m`, every constraint `c` with
  `WfInput c` (weights as many as literals, no null literal, weights `≥ 0`) and every assignment
  `a` agreeing with `m`: `c` holds under `a` **iff** the outcome is right for `a` (`Result.holds`:
  `trivial ↦ True`, `unsat ↦ False`, `units ls ↦` all of `ls` true, `attach c' ↦ c'` holds). In the unit
  case this is an equivalence: Go drops the constraint and keeps only the units, and that is enough.
* `appendSimplify_units`, `appendSimplify_attach`: the literals handed to `propagateUnits` /
  `appendClause` come from the constraint and are unbound in `m`; the unit list is non-empty; the
  attached constraint is well-formed, of the same kind, with strictly positive weights and
  `1 ≤ card < Σ weights`.
* `appendSimplify_clause_nodup` (no hypothesis): a propositional clause is attached / propagated
  without repeated literal (the duplicate-removal loops are complete).
* `scan_spec` also shows that the fuel `Len()` of the main loop suffices (`len - i ≤ fuel`), and
  `dedupInner_lits` / `dedupOuter_nodup` the same for the duplicate-removal loops.

Hypotheses and their witnesses are discussed at `WfInput`. Null weights are inside the contract since
the Go repair (`if clause.Weight(i) == 0 { clause.removeLit(i); continue }`); the former witness is
among the examples at the end of the file.
-/
namespace GS.Append
open GS GS.Simplify

/-! ## `removeAt` -/

theorem removeAt_nil {α : Type} (i : Nat) : removeAt ([] : List α) i = [] := rfl

theorem removeAt_cons_zero {α : Type} (x : α) (xs : List α) : removeAt (x :: xs) 0 = rot xs := by
  cases xs with
  | nil => simp [removeAt, rot]
  | cons y ys =>
    simp only [removeAt, rot, List.getLast?_cons_cons]
    cases h : (y :: ys).getLast? with
    | none => simp at h
    | some z => simp

theorem removeAt_cons_succ {α : Type} (x : α) (xs : List α) (i : Nat) (h : i < xs.length) :
    removeAt (x :: xs) (i + 1) = x :: removeAt xs i := by
  cases xs with
  | nil => simp at h
  | cons y ys =>
    simp only [removeAt, List.getLast?_cons_cons]
    cases hl : (y :: ys).getLast? with
    | none => simp at hl
    | some z =>
      simp only [List.set_cons_succ]
      cases hs : (y :: ys).set i z with
      | nil => simp at hs
      | cons a as => simp [List.dropLast]

theorem removeAt_perm {α : Type} : ∀ (xs : List α) (i : Nat) (x : α), xs[i]? = some x →
    (x :: removeAt xs i).Perm xs := by
  intro xs
  induction xs with
  | nil => intro i x h; simp at h
  | cons y ys ih =>
    intro i x h
    cases i with
    | zero =>
      simp at h; subst h
      rw [removeAt_cons_zero]
      exact List.Perm.cons _ (rot_perm ys)
    | succ i =>
      simp at h
      have hi : i < ys.length := by
        rcases Nat.lt_or_ge i ys.length with h' | h'
        · exact h'
        · rw [List.getElem?_eq_none h'] at h; cases h
      rw [removeAt_cons_succ _ _ _ hi]
      exact (List.Perm.swap y x _).trans (List.Perm.cons _ (ih i x h))

theorem removeAt_take {α : Type} : ∀ (xs : List α) (i : Nat), i < xs.length →
    (removeAt xs i).take i = xs.take i := by
  intro xs
  induction xs with
  | nil => intro i h; simp at h
  | cons y ys ih =>
    intro i h
    cases i with
    | zero => simp
    | succ i =>
      have hi : i < ys.length := by simpa using h
      rw [removeAt_cons_succ _ _ _ hi]
      simp [ih i hi]

theorem getElem?_removeAt_lt {α : Type} : ∀ (xs : List α) (k j : Nat), k < j → j < xs.length →
    (removeAt xs j)[k]? = xs[k]? := by
  intro xs
  induction xs with
  | nil => intro k j _ h; simp at h
  | cons y ys ih =>
    intro k j hkj h
    cases j with
    | zero => omega
    | succ j =>
      have hj : j < ys.length := by simpa using h
      rw [removeAt_cons_succ _ _ _ hj]
      cases k with
      | zero => simp
      | succ k => simp; exact ih k j (by omega) hj

theorem map_removeAt {α β : Type} (f : α → β) (xs : List α) (i : Nat) :
    (removeAt xs i).map f = removeAt (xs.map f) i := by
  unfold removeAt
  rw [List.getLast?_map]
  cases xs.getLast? with
  | none => simp
  | some y => simp [List.map_set, List.map_dropLast]

theorem zip_rot {α β : Type} (ws : List α) (ls : List β) (h : ws.length = ls.length) :
    (rot ws).zip (rot ls) = rot (ws.zip ls) := by
  rcases List.eq_nil_or_concat ws with h1 | ⟨wi, wl, h1⟩
  · subst h1
    have : ls = [] := by simpa using h.symm
    subst this; simp [rot]
  · rcases List.eq_nil_or_concat ls with h2 | ⟨li, ll, h2⟩
    · subst h1 h2; simp at h
    · subst h1 h2
      simp only [List.concat_eq_append] at h ⊢
      have hl : wi.length = li.length := by simpa using h
      rw [List.zip_append hl]
      simp [rot]

theorem zip_removeAt {α β : Type} : ∀ (ws : List α) (ls : List β) (i : Nat), ws.length = ls.length →
    i < ws.length → (removeAt ws i).zip (removeAt ls i) = removeAt (ws.zip ls) i := by
  intro ws
  induction ws with
  | nil => intro ls i h hi; simp at hi
  | cons w ws ih =>
    intro ls i h hi
    cases ls with
    | nil => simp at h
    | cons l ls =>
      have h' : ws.length = ls.length := by simpa using h
      cases i with
      | zero => simp only [List.zip_cons_cons, removeAt_cons_zero]; exact zip_rot ws ls h'
      | succ i =>
        have hi : i < ws.length := by simpa using hi
        simp only [List.zip_cons_cons]
        rw [removeAt_cons_succ _ _ _ hi, removeAt_cons_succ _ _ _ (h' ▸ hi),
            removeAt_cons_succ _ _ _ (by simp [List.length_zip]; omega), List.zip_cons_cons,
            ih ls i h' hi]

theorem length_removeAt {α : Type} (xs : List α) (i : Nat) (h : i < xs.length) :
    (removeAt xs i).length + 1 = xs.length := by
  have := (removeAt_perm xs i xs[i] (by simp [h])).length_eq
  simpa using this

theorem mem_removeAt {α : Type} {xs : List α} {i : Nat} {y : α} (h : y ∈ removeAt xs i) : y ∈ xs := by
  by_cases hi : i < xs.length
  · exact (removeAt_perm xs i xs[i] (by simp [hi])).mem_iff.mp (List.mem_cons_of_mem _ h)
  · unfold removeAt at h
    cases hl : xs.getLast? with
    | none => rw [hl] at h; exact h
    | some z =>
      rw [hl] at h
      simp only [] at h
      rw [List.set_eq_of_length_le (by omega)] at h
      exact List.dropLast_subset _ h

/-! ## Semantics: `lhs`, `wsum` -/

theorem lhs_perm (a : Asg) {xs ys : List (Int × Int)} (h : xs.Perm ys) : lhs a xs = lhs a ys := by
  induction h with
  | nil => rfl
  | cons x _ ih => simp [lhs, ih]
  | swap x y l => simp only [lhs]; omega
  | trans _ _ ih1 ih2 => exact ih1.trans ih2

theorem wsum_nil : wsum [] = 0 := rfl
theorem wsum_cons (t : Int × Int) (ts : List (Int × Int)) : wsum (t :: ts) = t.1 + wsum ts := by
  simp [wsum]
theorem wsum_append (xs ys : List (Int × Int)) : wsum (xs ++ ys) = wsum xs + wsum ys := by
  induction xs with
  | nil => simp [wsum_nil]
  | cons x xs ih => simp only [List.cons_append, wsum_cons, ih]; omega

theorem wsum_perm {xs ys : List (Int × Int)} (h : xs.Perm ys) : wsum xs = wsum ys := by
  induction h with
  | nil => rfl
  | cons x _ ih => simp [wsum_cons, ih]
  | swap x y l => simp only [wsum_cons]; omega
  | trans _ _ ih1 ih2 => exact ih1.trans ih2

theorem lhs_bounds (a : Asg) : ∀ ts : List (Int × Int), (∀ t ∈ ts, 0 ≤ t.1) →
    0 ≤ lhs a ts ∧ lhs a ts ≤ wsum ts := by
  intro ts
  induction ts with
  | nil => intro _; simp [lhs, wsum_nil]
  | cons t ts ih =>
    intro h
    have h1 := h t (List.mem_cons_self ..)
    have h2 := ih (fun t' ht' => h t' (List.mem_cons_of_mem _ ht'))
    simp only [lhs, termVal, wsum_cons]
    split <;> omega

theorem lhs_full (a : Asg) : ∀ ts : List (Int × Int), (∀ t ∈ ts, 0 < t.1) →
    (wsum ts ≤ lhs a ts ↔ ∀ t ∈ ts, litTrue a t.2 = true) := by
  intro ts
  induction ts with
  | nil => intro _; simp [lhs, wsum_nil]
  | cons t ts ih =>
    intro h
    have h1 := h t (List.mem_cons_self ..)
    have hts : ∀ t' ∈ ts, 0 < t'.1 := fun t' ht' => h t' (List.mem_cons_of_mem _ ht')
    have h2 := lhs_bounds a ts (fun t' ht' => Int.le_of_lt (hts t' ht'))
    have ih' := ih hts
    simp only [lhs, termVal, wsum_cons, List.forall_mem_cons]
    by_cases ht : litTrue a t.2 = true
    · simp only [ht, if_true, true_and]
      rw [← ih']; omega
    · have ht' : litTrue a t.2 = false := by simpa using ht
      rw [if_neg ht]
      constructor
      · intro hh; omega
      · intro hh; rw [ht'] at hh; exact absurd hh.1 (by simp)

/-! ## The clause accessors -/

/-- `len(pbData.weights) == len(lits)` whenever `pbData != nil`. -/
def WfCl (c : Cl) : Prop := ∀ ws, c.weights = some ws → ws.length = c.lits.length

theorem terms_length {c : Cl} (h : WfCl c) : c.terms.length = c.lits.length := by
  unfold Cl.terms
  cases hw : c.weights with
  | none => simp
  | some ws => simp [List.length_zip, h ws hw]

theorem terms_getElem? {c : Cl} (h : WfCl c) {i : Nat} (hi : i < c.lits.length) :
    c.terms[i]? = some (weight c i, get c i) := by
  unfold Cl.terms weight get
  cases hw : c.weights with
  | none => simp [hi]
  | some ws =>
    have := h ws hw
    simp only []
    rw [List.getElem?_eq_getElem (by simp [List.length_zip]; omega)]
    simp [hi, this]

theorem terms_removeLit {c : Cl} (h : WfCl c) {i : Nat} (hi : i < c.lits.length) :
    (removeLit c i).terms = removeAt c.terms i := by
  unfold Cl.terms removeLit
  cases hw : c.weights with
  | none => simp [map_removeAt]
  | some ws =>
    have := h ws hw
    simp only [Option.map_some]
    exact zip_removeAt ws c.lits i this (by omega)

theorem wf_removeLit {c : Cl} (h : WfCl c) {i : Nat} (hi : i < c.lits.length) : WfCl (removeLit c i) := by
  intro ws hws
  unfold removeLit at hws ⊢
  cases hw : c.weights with
  | none => rw [hw] at hws; simp at hws
  | some ws0 =>
    rw [hw] at hws
    simp at hws
    subst hws
    have e := h ws0 hw
    have l1 := length_removeAt ws0 i (by omega)
    have l2 := length_removeAt c.lits i hi
    simp only []
    omega

theorem terms_updateCardinality (c : Cl) (k : Int) : (updateCardinality c k).terms = c.terms := rfl

theorem terms_snd {c : Cl} (h : WfCl c) : c.terms.map (·.2) = c.lits := by
  unfold Cl.terms
  cases hw : c.weights with
  | none => simp [Function.comp_def]
  | some ws =>
    simp only []
    rw [List.map_snd_zip]
    have := h ws hw; omega

/-! ## `litStatus` against an assignment -/

/-- `a` gives every variable bound in `m` the value `m` binds it to. -/
def Agrees (a : Asg) (m : List Int) : Prop :=
  ∀ v, (mget m v > 0 → a (v + 1) = true) ∧ (mget m v < 0 → a (v + 1) = false)

theorem litStatus_sat {a : Asg} {m : List Int} {l : Int} (hA : Agrees a m) (hl : l ≠ 0)
    (h : litStatus m l = .sat) : litTrue a l = true := by
  unfold litStatus at h
  simp only [] at h
  split at h
  · cases h
  · split at h
    · rename_i h0 h1
      unfold litTrue
      rw [natAbs_varOf hl]
      by_cases hp : l > 0
      · simp [hp, (hA (varOf l)).1 (h1.mpr hp)]
      · have : mget m (varOf l) < 0 := by
          have : ¬ mget m (varOf l) > 0 := fun hh => hp (h1.mp hh)
          omega
        simp [hp, (hA (varOf l)).2 this]
    · cases h

theorem litStatus_unsat {a : Asg} {m : List Int} {l : Int} (hA : Agrees a m) (hl : l ≠ 0)
    (h : litStatus m l = .unsat) : litTrue a l = false := by
  unfold litStatus at h
  simp only [] at h
  split at h
  · cases h
  · split at h
    · cases h
    · rename_i h0 h1
      unfold litTrue
      rw [natAbs_varOf hl]
      by_cases hp : l > 0
      · have : mget m (varOf l) < 0 := by
          have : ¬ mget m (varOf l) > 0 := fun hh => h1 ⟨fun _ => hp, fun _ => hh⟩
          omega
        simp [hp, (hA (varOf l)).2 this]
      · have : mget m (varOf l) > 0 := by
          rcases Int.lt_trichotomy (mget m (varOf l)) 0 with h' | h' | h'
          · exact absurd ⟨fun hh => by omega, fun hh => absurd hh hp⟩ h1
          · exact absurd h' h0
          · exact h'
        simp [hp, (hA (varOf l)).1 this]

/-! ## The main loop -/

/-- What the `for i < clause.Len()` loop establishes (`K` is the cardinality read before the loop,
    `c`, `mn` the clause and `minW` at the current iteration, `r` the state at the exit). -/
structure ScanSpec (m : List Int) (K : Int) (c : Cl) (mn : Int) (r : ScanR) : Prop where
  wf : WfCl r.clause
  wnone : r.clause.weights = none ↔ c.weights = none
  sub : ∀ t ∈ r.clause.terms, t ∈ c.terms
  val : ∀ a, Agrees a m → lhs a c.terms + mn = lhs a r.clause.terms + r.minW
  mx : r.maxW - r.minW = wsum r.clause.terms
  mono : mn ≤ r.minW
  card : r.minW < K → r.clause.card = K - r.minW
  indet : ∀ l ∈ r.clause.lits, litStatus m l = .indet
  wnz : ∀ t ∈ r.clause.terms, t.1 ≠ 0

theorem get_removeLit_lt {c : Cl} {k i : Nat} (hk : k < i) (hi : i < c.lits.length) :
    get (removeLit c i) k = get c k := by
  unfold get removeLit
  simp only []
  rw [getElem?_removeAt_lt _ _ _ hk hi]

theorem lits_nonzero_removeLit {c : Cl} (hnz : ∀ l ∈ c.lits, l ≠ 0) (i : Nat) :
    ∀ l ∈ (removeLit c i).lits, l ≠ 0 := fun l hl => hnz l (mem_removeAt hl)

theorem get_mem {c : Cl} {i : Nat} (hi : i < c.lits.length) : get c i ∈ c.lits := by
  unfold get
  rw [List.getElem?_eq_getElem hi]
  simp

theorem scan_spec (m : List Int) (K : Int) : ∀ (n : Nat) (c : Cl) (i : Nat) (mn mx : Int),
    WfCl c → (∀ t ∈ c.terms, 0 ≤ t.1) → (∀ l ∈ c.lits, l ≠ 0) →
    c.lits.length - i ≤ n →
    mx - mn = wsum (c.terms.take i) →
    (mn < K → c.card = K - mn) →
    (∀ k, k < i → litStatus m (get c k) = .indet) →
    (∀ t ∈ c.terms.take i, t.1 ≠ 0) →
    ScanSpec m K c mn (scan m n c i mn mx) := by
  intro n
  induction n with
  | zero =>
    intro c i mn mx hwf hnn hnz hfuel hmx hcard hind hwz
    have hlen : c.lits.length ≤ i := by omega
    simp only [scan]
    refine ⟨hwf, Iff.rfl, fun t ht => ht, fun a _ => rfl, ?_, Int.le_refl _, hcard, ?_, ?_⟩
    · rw [hmx, List.take_of_length_le (by rw [terms_length hwf]; exact hlen)]
    rotate_left
    · rwa [List.take_of_length_le (by rw [terms_length hwf]; exact hlen)] at hwz
    · intro l hl
      obtain ⟨k, hk, rfl⟩ := List.getElem_of_mem hl
      have hk : k < c.lits.length := hk
      have := hind k (by omega)
      unfold get at this
      rw [List.getElem?_eq_getElem hk] at this
      simpa using this
  | succ n ih =>
    intro c i mn mx hwf hnn hnz hfuel hmx hcard hind hwz
    simp only [scan]
    by_cases hi : i < c.lits.length
    · rw [if_pos hi]
      have hti := terms_getElem? hwf hi
      have hperm := removeAt_perm c.terms i _ hti
      have hlitnz : get c i ≠ 0 := hnz _ (get_mem hi)
      have hw0 : 0 ≤ weight c i := hnn _ (List.mem_of_getElem? hti)
      have hlen' := length_removeAt c.lits i hi
      have hwf' := wf_removeLit hwf hi
      have hterms' := terms_removeLit hwf hi
      have hnn' : ∀ t ∈ (removeLit c i).terms, 0 ≤ t.1 := by
        intro t ht; rw [hterms'] at ht; exact hnn t (mem_removeAt ht)
      have hsub' : ∀ t ∈ (removeLit c i).terms, t ∈ c.terms := by
        intro t ht; rw [hterms'] at ht; exact mem_removeAt ht
      have htake : ((removeLit c i).terms).take i = c.terms.take i := by
        rw [hterms']; exact removeAt_take _ _ (by rw [terms_length hwf]; exact hi)
      have hind' : ∀ k, k < i → litStatus m (get (removeLit c i) k) = .indet := by
        intro k hk; rw [get_removeLit_lt hk hi]; exact hind k hk
      have hwn' : (removeLit c i).weights = none ↔ c.weights = none := by
        unfold removeLit; simp
      have hwz' : ∀ t ∈ ((removeLit c i).terms).take i, t.1 ≠ 0 := by rw [htake]; exact hwz
      by_cases hz : weight c i = 0
      · rw [if_pos hz]
        have r := ih (removeLit c i) i mn mx hwf' hnn' (lits_nonzero_removeLit hnz i)
          (by show (removeAt c.lits i).length - i ≤ n
              omega)
          (by rw [htake]; exact hmx)
          hcard hind' hwz'
        refine ⟨r.wf, r.wnone.trans hwn', fun t ht => hsub' t (r.sub t ht), ?_, r.mx, r.mono, r.card,
          r.indet, r.wnz⟩
        intro a hA
        have h1 := r.val a hA
        rw [hterms'] at h1
        have h2 := lhs_perm a hperm
        simp only [lhs, termVal, hz] at h2
        simp at h2
        omega
      rw [if_neg hz]
      cases hst : litStatus m (get c i) with
      | sat =>
        simp only []
        have r := ih (updateCardinality (removeLit c i) (-weight c i)) i (mn + weight c i) (mx + weight c i)
          hwf' hnn' (lits_nonzero_removeLit hnz i)
          (by show (removeLit c i).lits.length - i ≤ n
              show (removeAt c.lits i).length - i ≤ n
              omega)
          (by rw [terms_updateCardinality, htake]; omega)
          (by intro hlt
              show updCard c.card (-weight c i) = K - (mn + weight c i)
              have := hcard (by omega)
              unfold updCard
              split <;> omega)
          hind' (by rw [terms_updateCardinality]; exact hwz')
        refine ⟨r.wf, r.wnone.trans hwn', fun t ht => hsub' t (r.sub t ht), ?_, r.mx, ?_, r.card, r.indet, r.wnz⟩
        · intro a hA
          have h1 := r.val a hA
          rw [terms_updateCardinality, hterms'] at h1
          have h2 := lhs_perm a hperm
          have h3 := litStatus_sat hA hlitnz hst
          simp only [lhs, termVal, h3, if_true] at h2
          omega
        · have := r.mono; omega
      | unsat =>
        simp only []
        have r := ih (removeLit c i) i mn mx hwf' hnn' (lits_nonzero_removeLit hnz i)
          (by show (removeAt c.lits i).length - i ≤ n
              omega)
          (by rw [htake]; exact hmx)
          hcard hind' hwz'
        refine ⟨r.wf, r.wnone.trans hwn', fun t ht => hsub' t (r.sub t ht), ?_, r.mx, r.mono, r.card, r.indet, r.wnz⟩
        intro a hA
        have h1 := r.val a hA
        rw [hterms'] at h1
        have h2 := lhs_perm a hperm
        have h3 := litStatus_unsat hA hlitnz hst
        simp only [lhs, termVal, h3] at h2
        simp at h2
        omega
      | indet =>
        simp only []
        have r := ih c (i + 1) mn (mx + weight c i) hwf hnn hnz (by omega)
          (by rw [List.take_add_one, hti, wsum_append]
              simp only [Option.toList_some, wsum_cons, wsum_nil]
              omega)
          hcard
          (by intro k hk
              rcases Nat.lt_or_ge k i with h' | h'
              · exact hind k h'
              · have : k = i := by omega
                subst this; exact hst)
          (by intro t ht
              rw [List.take_add_one, hti] at ht
              rcases List.mem_append.mp ht with h' | h'
              · exact hwz t h'
              · simp at h'; subst h'; exact hz)
        exact r
    · rw [if_neg hi]
      have hlen : c.lits.length ≤ i := by omega
      refine ⟨hwf, Iff.rfl, fun t ht => ht, fun a _ => rfl, ?_, Int.le_refl _, hcard, ?_, ?_⟩
      · show mx - mn = wsum c.terms
        rw [hmx, List.take_of_length_le (by rw [terms_length hwf]; exact hlen)]
      rotate_left
      · show ∀ t ∈ c.terms, t.1 ≠ 0
        rwa [List.take_of_length_le (by rw [terms_length hwf]; exact hlen)] at hwz
      · intro l hl
        obtain ⟨k, hk, rfl⟩ := List.getElem_of_mem hl
        have hk : k < c.lits.length := hk
        have := hind k (by omega)
        unfold get at this
        rw [List.getElem?_eq_getElem hk] at this
        simpa using this

/-! ## The duplicate-removal loops -/

structure DedupSpec (c c' : Cl) : Prop where
  weights : c'.weights = none
  card : c'.card = c.card
  mem : ∀ l, l ∈ c'.lits ↔ l ∈ c.lits

theorem DedupSpec.refl {c : Cl} (h : c.weights = none) : DedupSpec c c := ⟨h, rfl, fun _ => Iff.rfl⟩

theorem DedupSpec.trans {c1 c2 c3 : Cl} (h1 : DedupSpec c1 c2) (h2 : DedupSpec c2 c3) : DedupSpec c1 c3 :=
  ⟨h2.weights, h2.card.trans h1.card, fun l => (h2.mem l).trans (h1.mem l)⟩

theorem removeLit_dup {c : Cl} (hw : c.weights = none) {i j : Nat} (hij : i < j) (hj : j < c.lits.length)
    (heq : get c j = get c i) : DedupSpec c (removeLit c j) := by
  refine ⟨by simp [removeLit, hw], rfl, fun l => ⟨fun h => mem_removeAt h, fun h => ?_⟩⟩
  show l ∈ removeAt c.lits j
  have hp := removeAt_perm c.lits j c.lits[j] (by simp [hj])
  rcases List.mem_cons.mp (hp.mem_iff.mpr h) with h1 | h1
  · have e : c.lits[j] = c.lits[i] := by
      unfold get at heq
      rw [List.getElem?_eq_getElem hj, List.getElem?_eq_getElem (by omega)] at heq
      simpa using heq
    have := getElem?_removeAt_lt c.lits i j hij hj
    rw [List.getElem?_eq_getElem (show i < c.lits.length by omega)] at this
    rw [h1, e]
    exact List.mem_of_getElem? this
  · exact h1

theorem dedupInner_spec (i : Nat) : ∀ (n : Nat) (c : Cl) (j : Nat), c.weights = none → i < j →
    DedupSpec c (dedupInner i n c j) := by
  intro n
  induction n with
  | zero => intro c j hw _; exact DedupSpec.refl hw
  | succ n ih =>
    intro c j hw hij
    simp only [dedupInner]
    by_cases hj : j < c.lits.length
    · rw [if_pos hj]
      by_cases heq : get c j = get c i
      · rw [if_pos heq]
        have h1 := removeLit_dup hw hij hj heq
        exact h1.trans (ih _ j h1.weights hij)
      · rw [if_neg heq]
        exact ih c (j + 1) hw (by omega)
    · rw [if_neg hj]; exact DedupSpec.refl hw

theorem dedupOuter_spec : ∀ (n : Nat) (c : Cl) (i : Nat), c.weights = none →
    DedupSpec c (dedupOuter n c i) := by
  intro n
  induction n with
  | zero => intro c i hw; exact DedupSpec.refl hw
  | succ n ih =>
    intro c i hw
    simp only [dedupOuter]
    by_cases hi : i < c.lits.length
    · rw [if_pos hi]
      have h1 := dedupInner_spec i c.lits.length c (i + 1) hw (by omega)
      exact h1.trans (ih _ (i + 1) h1.weights)
    · rw [if_neg hi]; exact DedupSpec.refl hw

theorem dedup_spec (c : Cl) (hw : c.weights = none) : DedupSpec c (dedup c) :=
  dedupOuter_spec _ c 0 hw

/-- A propositional clause (`pbData == nil`, cardinality 1) only depends on its set of literals. -/
theorem one_le_cnt (a : Asg) : ∀ ls : List Int, (1 ≤ cnt a ls ↔ ∃ l ∈ ls, litTrue a l = true) := by
  intro ls
  induction ls with
  | nil => simp [cnt_nil]
  | cons l ls ih =>
    rw [cnt_cons]
    have b := cnt_bounds a ls
    by_cases h : litTrue a l = true
    · simp only [h, if_true]
      constructor
      · intro _; exact ⟨l, List.mem_cons_self .., h⟩
      · intro _; omega
    · have h' : litTrue a l = false := by simpa using h
      rw [if_neg h]
      simp only [List.mem_cons, exists_eq_or_imp, h', Bool.false_eq_true, false_or]
      rw [← ih]; omega

theorem dedup_holds (a : Asg) {c c' : Cl} (h : DedupSpec c c') (hw : c.weights = none) (hc : c.card = 1) :
    (c'.lin.holds a = true ↔ c.lin.holds a = true) := by
  rw [holds_card h.weights, holds_card hw, h.card, hc, one_le_cnt, one_le_cnt]
  constructor
  · rintro ⟨l, hl, ht⟩; exact ⟨l, (h.mem l).mp hl, ht⟩
  · rintro ⟨l, hl, ht⟩; exact ⟨l, (h.mem l).mpr hl, ht⟩

/-! ## The prologue as a whole -/

/-- Meaning of what `AppendClause` does with the result of its prologue: nothing is added;
    the solver becomes `Unsat`; the literals are made top-level facts; the constraint is attached. -/
def Result.holds (a : Asg) : Result → Prop
  | .trivial => True
  | .unsat => False
  | .units ls => ∀ l ∈ ls, litTrue a l = true
  | .attach c => c.lin.holds a = true

/-- Well-formedness of the constraint handed to `AppendClause`. -/
structure WfInput (c : Cl) : Prop where
  /-- `len(pbData.weights) == len(lits)` when `pbData != nil` -/
  len : WfCl c
  /-- no null literal -/
  nz : ∀ l ∈ c.lits, l ≠ 0
  /-- no weight is negative (automatic when `pbData == nil`); null weights are allowed: the main loop
      drops their literals -/
  pos : ∀ t ∈ c.terms, 0 ≤ t.1

theorem holds_iff (a : Asg) (c : Cl) : c.lin.holds a = true ↔ c.card ≤ lhs a c.terms := by
  simp only [Cl.lin, Lin.holds]
  exact ⟨of_decide_eq_true, decide_eq_true⟩

/-- The clause the main loop starts from. -/
def afterDedup (c : Cl) : Cl := if c.card = 1 ∧ c.weights = none then dedup c else c

theorem appendSimplify_eq (m : List Int) (c : Cl) :
    appendSimplify m c =
      (let r := scan m (afterDedup c).lits.length (afterDedup c) 0 0 0
       if r.minW ≥ c.card then .trivial
       else if r.maxW < c.card then .unsat
       else if r.maxW = c.card then .units r.clause.lits
       else .attach r.clause) := rfl

theorem terms_none {c : Cl} (h : c.weights = none) : c.terms = c.lits.map (fun l => (1, l)) := by
  simp [Cl.terms, h]

theorem afterDedup_spec (c : Cl) (h : WfInput c) :
    WfInput (afterDedup c) ∧ (afterDedup c).card = c.card ∧
    ((afterDedup c).weights = none ↔ c.weights = none) ∧
    (∀ l ∈ (afterDedup c).lits, l ∈ c.lits) ∧
    (∀ t ∈ (afterDedup c).terms, t ∈ c.terms) ∧
    ∀ a, ((afterDedup c).lin.holds a = true ↔ c.lin.holds a = true) := by
  unfold afterDedup
  by_cases hc : c.card = 1 ∧ c.weights = none
  · rw [if_pos hc]
    have d := dedup_spec c hc.2
    refine ⟨⟨?_, ?_, ?_⟩, d.card, ?_, fun l hl => (d.mem l).mp hl, ?_, fun a => dedup_holds a d hc.2 hc.1⟩
    · intro ws hws; rw [d.weights] at hws; cases hws
    · intro l hl; exact h.nz l ((d.mem l).mp hl)
    · intro t ht; rw [terms_none d.weights] at ht
      obtain ⟨l, _, rfl⟩ := List.mem_map.mp ht
      show (0 : Int) ≤ 1
      omega
    · simp [d.weights, hc.2]
    · intro t ht
      rw [terms_none d.weights] at ht; rw [terms_none hc.2]
      obtain ⟨l, hl, rfl⟩ := List.mem_map.mp ht
      exact List.mem_map.mpr ⟨l, (d.mem l).mp hl, rfl⟩
  · rw [if_neg hc]
    exact ⟨h, rfl, Iff.rfl, fun _ hl => hl, fun _ ht => ht, fun _ => Iff.rfl⟩

theorem scan_afterDedup (m : List Int) (c : Cl) (h : WfInput c) :
    ScanSpec m c.card (afterDedup c) 0 (scan m (afterDedup c).lits.length (afterDedup c) 0 0 0) := by
  obtain ⟨h1, hcard, _, _, _, _⟩ := afterDedup_spec c h
  exact scan_spec m c.card _ _ 0 0 0 h1.len h1.pos h1.nz
    (by omega) (by simp [wsum_nil]) (by intro _; omega) (by intro k hk; omega) (by simp)

/-- **Semantic correctness of the prologue of `AppendClause`.** For every top-level model `m`,
    every well-formed constraint `c` (clause, cardinality or PB constraint with weights `≥ 0`)
    and every assignment `a` that agrees with `m` on the variables bound in `m`:
    `c` holds under `a` iff what `AppendClause` does next is right for `a` —
    nothing to add (`c` is true), `Unsat` (`c` is false), all the unit literals are true
    (an equivalence: the constraint itself is dropped), the attached constraint holds. -/
theorem appendSimplify_sem (m : List Int) (c : Cl) (a : Asg) (hc : WfInput c) (hA : Agrees a m) :
    (c.lin.holds a = true ↔ (appendSimplify m c).holds a) := by
  obtain ⟨h1, hcard, _, _, _, hsem⟩ := afterDedup_spec c hc
  have sp := scan_afterDedup m c hc
  rw [appendSimplify_eq, ← hsem a, holds_iff, hcard]
  generalize scan m (afterDedup c).lits.length (afterDedup c) 0 0 0 = r at sp
  have hval := sp.val a hA
  have hpos : ∀ t ∈ r.clause.terms, 0 < t.1 := fun t ht => by
    have := h1.pos t (sp.sub t ht); have := sp.wnz t ht; omega
  have hb := lhs_bounds a r.clause.terms (fun t ht => Int.le_of_lt (hpos t ht))
  have hmx := sp.mx
  have hmono := sp.mono
  simp only []
  by_cases c1 : r.minW ≥ c.card
  · rw [if_pos c1]; simp only [Result.holds, iff_true]; omega
  · rw [if_neg c1]
    by_cases c2 : r.maxW < c.card
    · rw [if_pos c2]; simp only [Result.holds, iff_false]; omega
    · rw [if_neg c2]
      by_cases c3 : r.maxW = c.card
      · rw [if_pos c3]
        simp only [Result.holds]
        have hf := lhs_full a r.clause.terms hpos
        rw [← terms_snd sp.wf]
        simp only [List.mem_map, forall_exists_index, and_imp, forall_apply_eq_imp_iff₂]
        rw [← hf]; omega
      · rw [if_neg c3]
        simp only [Result.holds]
        rw [holds_iff, sp.card (by omega)]; omega

#print axioms appendSimplify_sem

/-! ## Shape of the result (no assignment involved) -/

theorem mem_lits_of_terms {c : Cl} (h : WfCl c) {l : Int} : l ∈ c.lits ↔ ∃ t ∈ c.terms, t.2 = l := by
  rw [← terms_snd h]; simp

theorem scan_lits_sub (m : List Int) (c : Cl) (hc : WfInput c) :
    let r := scan m (afterDedup c).lits.length (afterDedup c) 0 0 0
    (∀ l ∈ r.clause.lits, l ∈ c.lits ∧ litStatus m l = .indet) ∧ ∀ t ∈ r.clause.terms, t ∈ c.terms := by
  obtain ⟨h1, _, _, _, hts, _⟩ := afterDedup_spec c hc
  have sp := scan_afterDedup m c hc
  refine ⟨fun l hl => ⟨?_, sp.indet l hl⟩, fun t ht => hts t (sp.sub t ht)⟩
  obtain ⟨t, ht, rfl⟩ := (mem_lits_of_terms sp.wf).mp hl
  exact (mem_lits_of_terms hc.len).mpr ⟨t, hts t (sp.sub t ht), rfl⟩

/-- The unit case: there is at least one literal, every literal comes from the constraint and is
    unbound at the top level. -/
theorem appendSimplify_units (m : List Int) (c : Cl) (hc : WfInput c) {ls : List Int}
    (h : appendSimplify m c = .units ls) :
    ls ≠ [] ∧ ∀ l ∈ ls, l ∈ c.lits ∧ litStatus m l = .indet := by
  have sp := scan_afterDedup m c hc
  have hs := scan_lits_sub m c hc
  rw [appendSimplify_eq] at h
  simp only [] at h hs
  generalize scan m (afterDedup c).lits.length (afterDedup c) 0 0 0 = r at sp h hs
  split at h
  · cases h
  · split at h
    · cases h
    · split at h
      · rename_i c1 c2 c3
        injection h with h; subst h
        refine ⟨?_, hs.1⟩
        intro he
        have : r.clause.terms = [] := by
          have := terms_length sp.wf
          rw [he] at this
          exact List.eq_nil_of_length_eq_zero this
        have hmx := sp.mx
        rw [this, wsum_nil] at hmx
        omega
      · cases h

/-- The attach case: the constraint is well-formed, of the same kind (`pbData == nil` or not), **all
    its weights are strictly positive**, its literals come from the original one and are unbound at the
    top level, its cardinality is at least 1 and strictly below the sum of its weights (it is neither
    unit nor falsified, nor trivially true). -/
theorem appendSimplify_attach (m : List Int) (c : Cl) (hc : WfInput c) {c' : Cl}
    (h : appendSimplify m c = .attach c') :
    WfInput c' ∧ (∀ t ∈ c'.terms, 0 < t.1) ∧
    (c'.weights = none ↔ c.weights = none) ∧ 1 ≤ c'.card ∧ c'.card < wsum c'.terms ∧
    (∀ l ∈ c'.lits, l ∈ c.lits ∧ litStatus m l = .indet) ∧ ∀ t ∈ c'.terms, t ∈ c.terms := by
  have sp := scan_afterDedup m c hc
  have hs := scan_lits_sub m c hc
  obtain ⟨_, _, hwn, _, _, _⟩ := afterDedup_spec c hc
  rw [appendSimplify_eq] at h
  simp only [] at h hs
  generalize scan m (afterDedup c).lits.length (afterDedup c) 0 0 0 = r at sp h hs
  split at h
  · cases h
  · split at h
    · cases h
    · split at h
      · cases h
      · rename_i c1 c2 c3
        injection h with h; subst h
        have hcard := sp.card (by omega)
        have hmx := sp.mx
        have hmono := sp.mono
        refine ⟨⟨sp.wf, fun l hl => hc.nz l (hs.1 l hl).1, fun t ht => hc.pos t (hs.2 t ht)⟩,
          fun t ht => by have := hc.pos t (hs.2 t ht); have := sp.wnz t ht; omega,
          sp.wnone.trans hwn, by omega, by omega, hs.1, hs.2⟩

#print axioms appendSimplify_units
#print axioms appendSimplify_attach

/-! ## The duplicate removal is complete: the attached propositional clause has no repeated literal -/

theorem removeAt_append_cons {α : Type} : ∀ (pre : List α) (y : α) (suf : List α),
    removeAt (pre ++ y :: suf) pre.length = pre ++ rot suf := by
  intro pre
  induction pre with
  | nil => intro y suf; simp [removeAt_cons_zero]
  | cons p pre ih =>
    intro y suf
    simp only [List.cons_append, List.length_cons]
    rw [removeAt_cons_succ _ _ _ (by simp), ih]

theorem split_at {α : Type} (xs : List α) (j : Nat) (hj : j < xs.length) :
    ∃ pre y suf, xs = pre ++ y :: suf ∧ pre.length = j ∧ pre = xs.take j ∧ y :: suf = xs.drop j := by
  refine ⟨xs.take j, xs[j], xs.drop (j + 1), ?_, ?_, rfl, ?_⟩
  · rw [List.getElem_cons_drop]; simp
  · simp; omega
  · rw [List.getElem_cons_drop]

/-- The inner loop keeps positions `< j` and removes from the rest exactly the copies of `lits[i]`. -/
theorem dedupInner_lits (i : Nat) : ∀ (n : Nat) (c : Cl) (j : Nat), i < j → c.lits.length - j ≤ n →
    ∃ S, (dedupInner i n c j).lits = c.lits.take j ++ S ∧
      S.Perm ((c.lits.drop j).filter (fun y => y ≠ get c i)) := by
  intro n
  induction n with
  | zero =>
    intro c j hij hn
    refine ⟨[], ?_, ?_⟩
    · simp only [dedupInner]; rw [List.take_of_length_le (by omega)]; simp
    · rw [List.drop_eq_nil_of_le (by omega)]; simp
  | succ n ih =>
    intro c j hij hn
    simp only [dedupInner]
    by_cases hj : j < c.lits.length
    · rw [if_pos hj]
      obtain ⟨pre, y, suf, hxs, hpl, hpre, hsuf⟩ := split_at c.lits j hj
      have hyj : get c j = y := by
        unfold get; rw [hxs, List.getElem?_append_right (by omega)]; rw [hpl, Nat.sub_self]; rfl
      by_cases heq : get c j = get c i
      · rw [if_pos heq]
        have hl : (removeLit c j).lits = pre ++ rot suf := by
          show removeAt c.lits j = _
          rw [hxs, ← hpl, removeAt_append_cons]
        have hgi : get (removeLit c j) i = get c i := get_removeLit_lt hij hj
        obtain ⟨S, h1, h2⟩ := ih (removeLit c j) j hij (by
          rw [hl]; rw [hxs] at hn; simp [length_rot] at hn ⊢; omega)
        refine ⟨S, ?_, ?_⟩
        · rw [h1, hl, ← hpre, ← hpl]; simp
        · rw [hgi, hl, ← hpl] at h2
          simp only [List.drop_left] at h2
          rw [← hsuf, List.filter_cons, if_neg (by simp [← hyj, heq])]
          exact h2.trans ((rot_perm suf).filter _)
      · rw [if_neg heq]
        obtain ⟨S, h1, h2⟩ := ih c (j + 1) (by omega) (by omega)
        refine ⟨y :: S, ?_, ?_⟩
        · rw [h1, ← hpre]
          have : c.lits.take (j + 1) = pre ++ [y] := by
            rw [hxs, show pre ++ y :: suf = (pre ++ [y]) ++ suf by simp, List.take_left' (by simp [hpl])]
          rw [this]; simp
        · have hd : c.lits.drop (j + 1) = suf := by
            rw [hxs, ← hpl]; simp
          rw [hd] at h2
          rw [← hsuf, List.filter_cons, if_pos (by simp [← hyj, heq])]
          exact List.Perm.cons _ h2
    · rw [if_neg hj]
      refine ⟨[], ?_, ?_⟩
      · rw [List.take_of_length_le (by omega)]; simp
      · rw [List.drop_eq_nil_of_le (by omega)]; simp

/-- Outer-loop invariant: the first `i` literals are pairwise distinct and do not occur later. -/
def Distinct (xs : List Int) (i : Nat) : Prop :=
  (xs.take i).Nodup ∧ ∀ y ∈ xs.take i, y ∉ xs.drop i

theorem dedupOuter_nodup : ∀ (n : Nat) (c : Cl) (i : Nat), c.lits.length - i ≤ n →
    Distinct c.lits i → (dedupOuter n c i).lits.Nodup := by
  intro n
  induction n with
  | zero =>
    intro c i hn hd
    simp only [dedupOuter]
    have := hd.1
    rwa [List.take_of_length_le (by omega)] at this
  | succ n ih =>
    intro c i hn hd
    simp only [dedupOuter]
    by_cases hi : i < c.lits.length
    · rw [if_pos hi]
      obtain ⟨S, h1, h2⟩ := dedupInner_lits i c.lits.length c (i + 1) (by omega) (by omega)
      obtain ⟨pre, x, suf, hxs, hpl, hpre, hsuf⟩ := split_at c.lits i hi
      have hx : get c i = x := by
        unfold get; rw [hxs, List.getElem?_append_right (by omega)]; rw [hpl, Nat.sub_self]; rfl
      have htk : c.lits.take (i + 1) = pre ++ [x] := by
        rw [hxs, show pre ++ x :: suf = (pre ++ [x]) ++ suf by simp, List.take_left' (by simp [hpl])]
      have hdr : c.lits.drop (i + 1) = suf := by
        rw [hxs, show pre ++ x :: suf = (pre ++ [x]) ++ suf by simp, List.drop_left' (by simp [hpl])]
      rw [htk] at h1
      rw [hdr, hx] at h2
      have hS : ∀ y ∈ S, y ∈ suf ∧ y ≠ x := by
        intro y hy
        have := h2.mem_iff.mp hy
        simpa using this
      obtain ⟨hd1, hd2⟩ := hd
      rw [← hpre] at hd1 hd2
      rw [← hsuf] at hd2
      apply ih
      · rw [h1]
        have : S.length ≤ suf.length := by
          rw [h2.length_eq]; exact List.length_filter_le _ _
        rw [hxs] at hn; simp at hn ⊢; omega
      · rw [h1]
        have e1 : (pre ++ [x] ++ S).take (i + 1) = pre ++ [x] := by
          rw [List.take_left' (by simp [hpl])]
        have e2 : (pre ++ [x] ++ S).drop (i + 1) = S := by
          rw [List.drop_left' (by simp [hpl])]
        constructor
        · rw [e1]
          rw [List.nodup_append]
          refine ⟨hd1, by simp, ?_⟩
          intro a ha b hb
          simp at hb; subst hb
          intro hab; subst hab
          exact hd2 a ha (List.mem_cons_self ..)
        · rw [e1, e2]
          intro y hy hyS
          rcases List.mem_append.mp hy with h | h
          · exact hd2 y h (List.mem_cons_of_mem _ (hS y hyS).1)
          · simp at h; subst h; exact (hS y hyS).2 rfl
    · rw [if_neg hi]
      have := hd.1
      rwa [List.take_of_length_le (by omega)] at this

theorem dedup_nodup (c : Cl) : (dedup c).lits.Nodup :=
  dedupOuter_nodup _ c 0 (by omega) ⟨by simp, by simp⟩

theorem nodup_removeAt {xs : List Int} {i : Nat} (hi : i < xs.length) (h : xs.Nodup) :
    (removeAt xs i).Nodup := by
  have hp := removeAt_perm xs i xs[i] (by simp [hi])
  exact (List.nodup_cons.mp (hp.nodup_iff.mpr h)).2

theorem scan_nodup (m : List Int) : ∀ (n : Nat) (c : Cl) (i : Nat) (mn mx : Int), c.lits.Nodup →
    (scan m n c i mn mx).clause.lits.Nodup := by
  intro n
  induction n with
  | zero => intro c i mn mx h; exact h
  | succ n ih =>
    intro c i mn mx h
    simp only [scan]
    by_cases hi : i < c.lits.length
    · rw [if_pos hi]
      have h' : (removeLit c i).lits.Nodup := nodup_removeAt hi h
      by_cases hz : weight c i = 0
      · rw [if_pos hz]; exact ih _ _ _ _ h'
      rw [if_neg hz]
      cases litStatus m (get c i) with
      | sat => exact ih _ _ _ _ h'
      | unsat => exact ih _ _ _ _ h'
      | indet => exact ih _ _ _ _ h
    · rw [if_neg hi]; exact h

/-- A propositional clause (`Cardinality() == 1`, `pbData == nil`) is attached, or propagated,
    without any repeated literal — whatever the input (no hypothesis). -/
theorem appendSimplify_clause_nodup (m : List Int) (c : Cl) (hc : c.card = 1) (hw : c.weights = none) :
    match appendSimplify m c with
    | .attach c' => c'.lits.Nodup
    | .units ls => ls.Nodup
    | _ => True := by
  have hn : (scan m (afterDedup c).lits.length (afterDedup c) 0 0 0).clause.lits.Nodup := by
    apply scan_nodup
    unfold afterDedup
    rw [if_pos ⟨hc, hw⟩]
    exact dedup_nodup c
  rw [appendSimplify_eq]
  simp only []
  generalize scan m (afterDedup c).lits.length (afterDedup c) 0 0 0 = r at hn
  by_cases c1 : r.minW ≥ c.card
  · rw [if_pos c1]; trivial
  · rw [if_neg c1]
    by_cases c2 : r.maxW < c.card
    · rw [if_pos c2]; trivial
    · rw [if_neg c2]
      by_cases c3 : r.maxW = c.card
      · rw [if_pos c3]; exact hn
      · rw [if_neg c3]; exact hn

#print axioms appendSimplify_clause_nodup

/-! ## Concrete runs (each one observed identically on the Go code, see the report)

`s.model` is written as the array (`modelOfLits [1, -3] = some [1, 0, -1]`). -/

example : modelOfLits [1, -3] = some [1, 0, -1] := by decide
-- a true literal: nothing to add
example : appendSimplify [1, 0, -1] ⟨[1, 2, 3], none, 1⟩ = .trivial := by decide
-- duplicates and a false literal are removed, order as in Go
example : appendSimplify [0, 0, -1] ⟨[1, 2, 3, 2, 1], none, 1⟩ = .attach ⟨[1, 2], none, 1⟩ := by decide
-- without the duplicate removal this would be attached as `2 2`
example : appendSimplify [0, 0, -1] ⟨[3, 2, 3, 2], none, 1⟩ = .units [2] := by decide
example : appendSimplify [0, 0, -1] ⟨[3, 3], none, 1⟩ = .unsat := by decide
-- PB: 5 ¬x3… : x3 false (weight 5 dropped), x4 true (weight 1, cardinality 6 → 5), literal 7 is a new variable
example : appendSimplify [0, 0, -1, 1] ⟨[3, 1, 2, 4, 7], some [5, 3, 2, 1, 1], 6⟩
    = .attach ⟨[7, 1, 2], some [1, 3, 2], 5⟩ := by decide
-- cardinality constraints
example : appendSimplify [-1] ⟨[1, 2, 3, 4], none, 3⟩ = .units [4, 2, 3] := by decide
example : appendSimplify [1] ⟨[1, 2, 3, 4], none, 3⟩ = .attach ⟨[4, 2, 3], none, 2⟩ := by decide
-- `x2 + ¬x2 ≥ 2`: both are propagated, `propagateUnits` then finds the conflict
example : appendSimplify [] ⟨[2, -2], none, 2⟩ = .units [2, -2] := by decide

/-- The hypotheses of `appendSimplify_sem` on a concrete PB constraint and model. -/
example : WfInput ⟨[3, 1, 2, 4, 7], some [5, 3, 2, 1, 1], 6⟩ :=
  ⟨by intro ws h; cases h; rfl, by decide, by decide⟩

example : Agrees (fun v => v == 4) [0, 0, -1, 1] := by
  intro v
  match v with
  | 0 => decide
  | 1 => decide
  | 2 => decide
  | 3 => decide
  | v + 4 => simp [mget]

/-! ### Null weights (since the repair `if clause.Weight(i) == 0 { clause.removeLit(i); continue }`)

The literal of a null weight is dropped whatever its status, the cardinality is untouched. -/

-- the former witness `NewPBClause([x1,x2],[1,0],1)`: `x2` is no longer asserted
example : appendSimplify [] ⟨[1, 2], some [1, 0], 1⟩ = .units [1] := by decide
example : (⟨[1, 2], some [1, 0], 1⟩ : Cl).lin.holds (fun v => v == 1) = true := by decide
example : WfInput ⟨[1, 2], some [1, 0], 1⟩ := ⟨by intro ws h; cases h; rfl, by decide, by decide⟩
-- a null-weight literal on a new variable (9 > nbVars): dropped (Go still calls `newVar(9)`)
example : appendSimplify [0, 0, -1, 1] ⟨[3, 1, 2, 4, 9], some [5, 3, 2, 1, 0], 5⟩
    = .attach ⟨[2, 1], some [2, 3], 4⟩ := by decide
example : appendSimplify [0, 0, -1, 1] ⟨[3, 1, 2, 4, 9], some [5, 3, 2, 1, 0], 6⟩
    = .units [2, 1] := by decide
-- null weights on a true, a false and an unbound literal; removal by swap with the last element
example : appendSimplify [1, -1, 0, 0, 0] ⟨[4, 5, 1, 2, 3], some [2, 2, 0, 0, 0], 3⟩
    = .attach ⟨[4, 5], some [2, 2], 3⟩ := by decide
-- only null weights: `maxW = 0 < card`
example : appendSimplify [] ⟨[1, 2], some [0, 0], 1⟩ = .unsat := by decide
-- a true literal of weight 0 does not lower the cardinality
example : appendSimplify [1] ⟨[2, 3, 1], some [2, 1, 0], 2⟩ = .attach ⟨[2, 3], some [2, 1], 2⟩ := by decide

end GS.Append
