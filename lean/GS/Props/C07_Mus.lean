import GS.Model.Mus
/-!
# C07 — extracted MUSes are unsatisfiable, minimal sub-multisets of the input

Theorems about the mirrors `GS.Mus.deletion` / `GS.Mus.insertion` (of `MUSDeletion` = `MUS`
and `MUSInsertion`, `/repo/explain/mus.go`) for **every** clause list — unit clauses, repeated
clauses, several cores, the empty clause — over an abstract satisfiability oracle `sat`.

The oracle contract is only needed on clause lists drawn from the input
(`f ⊆ cs`, i.e. every clause of `f` is a clause of `cs`):

    hsat : ∀ f, f ⊆ cs → (sat f = true ↔ CnfSat f)

This is weaker than `∀ f, sat f = true ↔ CnfSat f` (corollaries `deletion_mus'`,
`insertion_mus'`), and it is met by the executable instance `GS.bruteCnfSat n` whenever the
input is well formed over `n` variables (`deletionBrute_mus`, `insertionBrute_mus`).

`MUSMaxSat` is *not* minimal: `maxsat_mus_counterexample`.
-/
namespace GS.Mus
open GS

/-! ### satisfiability is antitone -/

theorem cnfTrue_subset (a : Asg) {f g : List (List Int)} (h : f ⊆ g) :
    cnfTrue a g = true → cnfTrue a f = true := by
  unfold cnfTrue
  simp only [List.all_eq_true]
  intro hg c hc
  exact hg c (h hc)

/-- A CNF all of whose clauses occur in a satisfiable CNF is satisfiable. -/
theorem sat_subset {f g : List (List Int)} (h : f ⊆ g) : CnfSat g → CnfSat f :=
  fun ⟨a, ha⟩ => ⟨a, cnfTrue_subset a h ha⟩

theorem sat_mono {f g : List (List Int)} (h : List.Sublist f g) : CnfSat g → CnfSat f :=
  sat_subset h.subset

/-! ### `dropNth` -/

theorem dropNth_sublist {α} (xs : List α) (i : Nat) : List.Sublist (dropNth xs i) xs := by
  unfold dropNth
  have h : List.Sublist (xs.take i ++ xs.drop (i + 1)) (xs.take i ++ xs.drop i) :=
    List.Sublist.append (List.Sublist.refl _) (List.drop_sublist_drop_left xs (Nat.le_succ i))
  rwa [List.take_append_drop] at h

theorem dropNth_append_lt {α} (xs ys : List α) (i : Nat) (h : i < xs.length) :
    dropNth (xs ++ ys) i = dropNth xs i ++ ys := by
  unfold dropNth
  rw [List.take_append_of_le_length (Nat.le_of_lt h), List.drop_append_of_le_length h,
    List.append_assoc]

theorem dropNth_append_length {α} (xs : List α) (c : α) :
    dropNth (xs ++ [c]) xs.length = xs := by
  unfold dropNth
  simp

/-! ### `subMultiset` -/

theorem subMultiset_iff_count : ∀ (m cs : List (List Int)),
    subMultiset m cs = true ↔ ∀ x, m.count x ≤ cs.count x
  | [], cs => by simp [subMultiset]
  | x :: xs, cs => by
    unfold subMultiset
    by_cases hx : x ∈ cs
    · rw [if_pos hx, subMultiset_iff_count xs (cs.erase x)]
      have hpos : 0 < cs.count x := List.count_pos_iff.2 hx
      constructor
      · intro h y
        have hy := h y
        rw [List.count_erase] at hy
        rw [List.count_cons]
        by_cases hxy : x = y
        · subst hxy; simp at hy ⊢; omega
        · have : (x == y) = false := by simpa using hxy
          simp [this] at hy ⊢; exact hy
      · intro h y
        have hy := h y
        rw [List.count_cons] at hy
        rw [List.count_erase]
        by_cases hxy : x = y
        · subst hxy; simp at hy ⊢; omega
        · have : (x == y) = false := by simpa using hxy
          simp [this] at hy ⊢; exact hy
    · rw [if_neg hx]
      constructor
      · intro h; cases h
      · intro h
        have := h x
        rw [List.count_cons_self, List.count_eq_zero_of_not_mem hx] at this
        omega

theorem sublist_subMultiset {m cs : List (List Int)} (h : List.Sublist m cs) :
    subMultiset m cs = true :=
  (subMultiset_iff_count m cs).2 (fun x => h.count_le x)

theorem reverse_sublist_subMultiset {m cs : List (List Int)} (h : List.Sublist m.reverse cs) :
    subMultiset m cs = true :=
  (subMultiset_iff_count m cs).2 (fun x => by
    have := h.count_le x
    rwa [List.count_reverse] at this)

/-! ### MUSDeletion -/

/-- Loop invariant of `delLoop`, for an oracle that is correct on clause lists drawn from `U`. -/
theorem delLoop_spec (sat : List (List Int) → Bool) (U : List (List Int))
    (hU : ∀ f, f ⊆ U → (sat f = true ↔ CnfSat f)) :
    ∀ (l kept : List (List Int)), kept ++ l ⊆ U → ¬ CnfSat (kept ++ l) →
      (∀ i, i < kept.length → CnfSat (dropNth kept i ++ l)) →
      (∃ t, List.Sublist t l ∧ delLoop sat kept l = kept ++ t) ∧
      ¬ CnfSat (delLoop sat kept l) ∧
      ∀ i, i < (delLoop sat kept l).length → CnfSat (dropNth (delLoop sat kept l) i)
  | [], kept, _, hun, hmin => by
    simp only [delLoop, List.append_nil] at *
    exact ⟨⟨[], List.Sublist.refl _, by simp⟩, hun, hmin⟩
  | c :: rest, kept, hsub, hun, hmin => by
    have hsub' : kept ++ rest ⊆ U := by
      intro x hx
      apply hsub
      simp only [List.mem_append, List.mem_cons] at hx ⊢
      rcases hx with hx | hx
      · exact Or.inl hx
      · exact Or.inr (Or.inr hx)
    unfold delLoop
    by_cases hs : sat (kept ++ rest) = true
    · rw [if_pos hs]
      have hS : CnfSat (kept ++ rest) := (hU _ hsub').1 hs
      have e : kept ++ [c] ++ rest = kept ++ c :: rest := by simp
      have ih := delLoop_spec sat U hU rest (kept ++ [c]) (by rw [e]; exact hsub)
        (by rw [e]; exact hun)
        (by
          intro i hi
          rw [List.length_append, List.length_singleton] at hi
          by_cases hlt : i < kept.length
          · rw [dropNth_append_lt _ _ _ hlt]
            have := hmin i hlt
            simpa using this
          · have : i = kept.length := by omega
            subst this
            rw [dropNth_append_length]
            exact hS)
      rcases ih with ⟨⟨t, ht, het⟩, h2, h3⟩
      refine ⟨⟨c :: t, ht.cons_cons c, ?_⟩, h2, h3⟩
      rw [het]; simp
    · rw [if_neg hs]
      have hS : ¬ CnfSat (kept ++ rest) := fun h => hs ((hU _ hsub').2 h)
      have ih := delLoop_spec sat U hU rest kept hsub' hS
        (by
          intro i hi
          refine sat_mono ?_ (hmin i hi)
          exact List.Sublist.append (List.Sublist.refl _) (List.sublist_cons_self c rest))
      rcases ih with ⟨⟨t, ht, het⟩, h2, h3⟩
      exact ⟨⟨t, ht.cons c, het⟩, h2, h3⟩

/-- The deletion loop started on **any** unsatisfiable clause list `s` (what `UnsatSubset`
returned) yields a MUS that is a sub-list of `s`. -/
theorem delLoop_mus (sat : List (List Int) → Bool) (s : List (List Int))
    (hsat : ∀ f, f ⊆ s → (sat f = true ↔ CnfSat f)) (hun : ¬ CnfSat s) :
    List.Sublist (delLoop sat [] s) s ∧ IsMUS (delLoop sat [] s) := by
  have h := delLoop_spec sat s hsat s [] (by simp) (by simpa using hun)
    (by intro i hi; simp at hi)
  rcases h with ⟨⟨t, ht, het⟩, h2, h3⟩
  refine ⟨?_, h2, h3⟩
  rw [het]; simpa using ht

/-- `MUSDeletion` over an arbitrary `UnsatSubset` that returns an unsatisfiable sub-list of the
input, or an error exactly when the input is satisfiable. -/
theorem deletionWith_mus (sat : List (List Int) → Bool)
    (sub : List (List Int) → Option (List (List Int))) (cs : List (List Int))
    (hsat : ∀ f, f ⊆ cs → (sat f = true ↔ CnfSat f))
    (hsome : ∀ s, sub cs = some s → List.Sublist s cs ∧ ¬ CnfSat s)
    (hnone : sub cs = none ↔ CnfSat cs) :
    (¬ CnfSat cs → ∃ m, deletionWith sat sub cs = some m ∧ List.Sublist m cs ∧
        subMultiset m cs = true ∧ ¬ CnfSat m ∧ IsMUS m) ∧
    (CnfSat cs → deletionWith sat sub cs = none) := by
  unfold deletionWith
  constructor
  · intro hun
    cases hs : sub cs with
    | none => exact absurd (hnone.1 hs) hun
    | some s =>
      obtain ⟨hsl, hsu⟩ := hsome s hs
      have h := delLoop_mus sat s (fun f hf => hsat f (fun x hx => hsl.subset (hf hx))) hsu
      have hsl' : List.Sublist (delLoop sat [] s) cs := h.1.trans hsl
      exact ⟨_, rfl, hsl', sublist_subMultiset hsl', h.2.1, h.2⟩
  · intro hS
    rw [hnone.2 hS]

theorem unsatSubsetId_some (sat : List (List Int) → Bool) (cs : List (List Int))
    (hsat : ∀ f, f ⊆ cs → (sat f = true ↔ CnfSat f)) :
    (∀ s, unsatSubsetId sat cs = some s → List.Sublist s cs ∧ ¬ CnfSat s) ∧
    (unsatSubsetId sat cs = none ↔ CnfSat cs) := by
  have h := hsat cs (List.Subset.refl cs)
  unfold unsatSubsetId
  by_cases hs : sat cs = true
  · simp [hs, h.1 hs]
  · have : ¬ CnfSat cs := fun hc => hs (h.2 hc)
    simp only [hs, Bool.false_eq_true, if_false, Option.some.injEq, reduceCtorEq, false_iff]
    exact ⟨fun s e => e ▸ ⟨List.Sublist.refl _, this⟩, this⟩

/-- **C07, deletion strategy (`MUSDeletion`, `MUS`).** -/
theorem deletion_mus (sat : List (List Int) → Bool) (cs : List (List Int))
    (hsat : ∀ f, f ⊆ cs → (sat f = true ↔ CnfSat f)) :
    (¬ CnfSat cs → ∃ m, deletion sat cs = some m ∧ List.Sublist m cs ∧
        subMultiset m cs = true ∧ ¬ CnfSat m ∧ IsMUS m) ∧
    (CnfSat cs → deletion sat cs = none) :=
  deletionWith_mus sat _ cs hsat (unsatSubsetId_some sat cs hsat).1 (unsatSubsetId_some sat cs hsat).2

/-- The same under the unrestricted oracle contract. -/
theorem deletion_mus' (sat : List (List Int) → Bool) (hsat : ∀ f, sat f = true ↔ CnfSat f)
    (cs : List (List Int)) :
    (¬ CnfSat cs → ∃ m, deletion sat cs = some m ∧ List.Sublist m cs ∧
        subMultiset m cs = true ∧ ¬ CnfSat m ∧ IsMUS m) ∧
    (CnfSat cs → deletion sat cs = none) :=
  deletion_mus sat cs (fun f _ => hsat f)

theorem mus_mus (sat : List (List Int) → Bool) (cs : List (List Int))
    (hsat : ∀ f, f ⊆ cs → (sat f = true ↔ CnfSat f)) :
    (¬ CnfSat cs → ∃ m, mus sat cs = some m ∧ List.Sublist m cs ∧
        subMultiset m cs = true ∧ ¬ CnfSat m ∧ IsMUS m) ∧
    (CnfSat cs → mus sat cs = none) :=
  deletion_mus sat cs hsat

/-! ### MUSInsertion -/

/-- The inner loop finds the first prefix of the candidates that makes `mus` unsatisfiable;
it never runs past the end (no index-out-of-range panic). -/
theorem addUntil_spec (sat : List (List Int) → Bool) (U : List (List Int))
    (hU : ∀ f, f ⊆ U → (sat f = true ↔ CnfSat f)) (mus : List (List Int)) :
    ∀ (l added : List (List Int)), mus ++ added ++ l ⊆ U → CnfSat (mus ++ added) →
      ¬ CnfSat (mus ++ added ++ l) →
      ∃ b c after, addUntil sat mus added l = some (b, c) ∧ added ++ l = b ++ c :: after ∧
        CnfSat (mus ++ b) ∧ ¬ CnfSat (mus ++ b ++ [c])
  | [], added, _, hS, hun => by
    rw [List.append_nil] at hun
    exact absurd hS hun
  | c :: rest, added, hsub, hS, hun => by
    have hsub1 : mus ++ added ++ [c] ⊆ U := by
      intro x hx
      apply hsub
      simp only [List.mem_append, List.mem_cons, List.not_mem_nil, or_false] at hx ⊢
      rcases hx with hx | hx
      · exact Or.inl hx
      · exact Or.inr (Or.inl hx)
    unfold addUntil
    by_cases hs : sat (mus ++ added ++ [c]) = true
    · rw [if_pos hs]
      have e1 : mus ++ (added ++ [c]) = mus ++ added ++ [c] := by simp
      have e2 : mus ++ (added ++ [c]) ++ rest = mus ++ added ++ c :: rest := by simp
      have ih := addUntil_spec sat U hU mus rest (added ++ [c]) (by rw [e2]; exact hsub)
        (by rw [e1]; exact (hU _ hsub1).1 hs) (by rw [e2]; exact hun)
      rcases ih with ⟨b, c', after, h1, h2, h3, h4⟩
      refine ⟨b, c', after, h1, ?_, h3, h4⟩
      rw [← h2]; simp
    · rw [if_neg hs]
      exact ⟨added, c, rest, rfl, rfl, hS, fun h => hs ((hU _ hsub1).2 h)⟩

/-- Loop invariant of `insLoop`; fuel larger than the number of candidates suffices. -/
theorem insLoop_spec (sat : List (List Int) → Bool) (U : List (List Int))
    (hU : ∀ f, f ⊆ U → (sat f = true ↔ CnfSat f)) :
    ∀ (fuel : Nat) (mus cands : List (List Int)), cands.length < fuel → mus ++ cands ⊆ U →
      ¬ CnfSat (mus ++ cands) →
      (∀ i, i < mus.length → CnfSat (dropNth mus i ++ cands)) →
      ∃ m, insLoop sat fuel mus cands = some m ∧
        (∃ t, List.Sublist t cands ∧ m = mus ++ t.reverse) ∧
        ¬ CnfSat m ∧ ∀ i, i < m.length → CnfSat (dropNth m i)
  | 0, _, _, hf, _, _, _ => by omega
  | fuel + 1, mus, cands, hf, hsub, hun, hmin => by
    have hsubm : mus ⊆ U := fun x hx => hsub (List.mem_append_left _ hx)
    unfold insLoop
    by_cases hs : sat mus = true
    · rw [if_pos hs]
      have hS : CnfSat mus := (hU _ hsubm).1 hs
      obtain ⟨b, c, after, h1, h2, h3, h4⟩ :=
        addUntil_spec sat U hU mus cands [] (by simpa using hsub) (by simpa using hS)
          (by simpa using hun)
      rw [List.nil_append] at h2
      rw [h1]
      simp only
      have hmem : ∀ x, x ∈ mus ++ [c] ++ b → x ∈ mus ++ b ++ [c] := by
        intro x hx
        simp only [List.mem_append, List.mem_singleton] at hx ⊢
        rcases hx with (hx | hx) | hx
        · exact Or.inl (Or.inl hx)
        · exact Or.inr hx
        · exact Or.inl (Or.inr hx)
      have hmem' : ∀ x, x ∈ mus ++ b ++ [c] → x ∈ mus ++ [c] ++ b := by
        intro x hx
        simp only [List.mem_append, List.mem_singleton] at hx ⊢
        rcases hx with (hx | hx) | hx
        · exact Or.inl (Or.inl hx)
        · exact Or.inr hx
        · exact Or.inl (Or.inr hx)
      have ih := insLoop_spec sat U hU fuel (mus ++ [c]) b
        (by rw [h2] at hf; simp at hf; omega)
        (by
          intro x hx
          apply hsub
          have := hmem x hx
          rw [h2]
          simp only [List.mem_append, List.mem_cons, List.not_mem_nil, or_false] at this ⊢
          rcases this with (hx | hx) | hx
          · exact Or.inl hx
          · exact Or.inr (Or.inl hx)
          · exact Or.inr (Or.inr (Or.inl hx)))
        (fun h => h4 (sat_subset hmem' h))
        (by
          intro i hi
          rw [List.length_append, List.length_singleton] at hi
          by_cases hlt : i < mus.length
          · rw [dropNth_append_lt _ _ _ hlt]
            refine sat_subset ?_ (hmin i hlt)
            intro x hx
            rw [h2]
            simp only [List.mem_append, List.mem_cons, List.not_mem_nil, or_false] at hx ⊢
            rcases hx with (hx | hx) | hx
            · exact Or.inl hx
            · exact Or.inr (Or.inr (Or.inl hx))
            · exact Or.inr (Or.inl hx)
          · have : i = mus.length := by omega
            subst this
            rw [dropNth_append_length]
            exact h3)
      obtain ⟨m, hm1, ⟨t, ht, het⟩, hm3, hm4⟩ := ih
      refine ⟨m, hm1, ⟨t ++ [c], ?_, ?_⟩, hm3, hm4⟩
      · rw [h2]
        exact List.Sublist.append ht ((List.nil_sublist after).cons_cons c)
      · rw [het]; simp
    · rw [if_neg hs]
      have hS : ¬ CnfSat mus := fun h => hs ((hU _ hsubm).2 h)
      refine ⟨mus, rfl, ⟨[], List.nil_sublist _, by simp⟩, hS, ?_⟩
      intro i hi
      exact sat_mono (List.sublist_append_left _ _) (hmin i hi)

/-- The insertion loop started on **any** unsatisfiable clause list `s` terminates within
`|s| + 1` iterations and yields a MUS whose reverse is a sub-list of `s`
(the clauses join the MUS from the last needed candidate backwards). -/
theorem insLoop_mus (sat : List (List Int) → Bool) (s : List (List Int))
    (hsat : ∀ f, f ⊆ s → (sat f = true ↔ CnfSat f)) (hun : ¬ CnfSat s) :
    ∃ m, insLoop sat (s.length + 1) [] s = some m ∧ List.Sublist m.reverse s ∧ IsMUS m := by
  obtain ⟨m, h1, ⟨t, ht, het⟩, h3, h4⟩ :=
    insLoop_spec sat s hsat (s.length + 1) [] s (by omega) (by simp) (by simpa using hun)
      (by intro i hi; simp at hi)
  refine ⟨m, h1, ?_, h3, h4⟩
  rw [het]; simpa using ht

/-- `MUSInsertion` over an arbitrary `UnsatSubset` (same contract as in `deletionWith_mus`). -/
theorem insertionWith_mus (sat : List (List Int) → Bool)
    (sub : List (List Int) → Option (List (List Int))) (cs : List (List Int))
    (hsat : ∀ f, f ⊆ cs → (sat f = true ↔ CnfSat f))
    (hsome : ∀ s, sub cs = some s → List.Sublist s cs ∧ ¬ CnfSat s)
    (hnone : sub cs = none ↔ CnfSat cs) :
    (¬ CnfSat cs → ∃ m, insertionWith sat sub cs = some m ∧ List.Sublist m.reverse cs ∧
        subMultiset m cs = true ∧ ¬ CnfSat m ∧ IsMUS m) ∧
    (CnfSat cs → insertionWith sat sub cs = none) := by
  unfold insertionWith
  constructor
  · intro hun
    cases hs : sub cs with
    | none => exact absurd (hnone.1 hs) hun
    | some s =>
      obtain ⟨hsl, hsu⟩ := hsome s hs
      obtain ⟨m, h1, h2, h3⟩ :=
        insLoop_mus sat s (fun f hf => hsat f (fun x hx => hsl.subset (hf hx))) hsu
      have hsl' : List.Sublist m.reverse cs := h2.trans hsl
      exact ⟨m, h1, hsl', reverse_sublist_subMultiset hsl', h3.1, h3⟩
  · intro hS
    rw [hnone.2 hS]

/-- **C07, insertion strategy (`MUSInsertion`).** Termination is part of the statement:
`insertion` runs `insLoop` with fuel `|cs| + 1` and the result is `some`. -/
theorem insertion_mus (sat : List (List Int) → Bool) (cs : List (List Int))
    (hsat : ∀ f, f ⊆ cs → (sat f = true ↔ CnfSat f)) :
    (¬ CnfSat cs → ∃ m, insertion sat cs = some m ∧ List.Sublist m.reverse cs ∧
        subMultiset m cs = true ∧ ¬ CnfSat m ∧ IsMUS m) ∧
    (CnfSat cs → insertion sat cs = none) :=
  insertionWith_mus sat _ cs hsat (unsatSubsetId_some sat cs hsat).1
    (unsatSubsetId_some sat cs hsat).2

theorem insertion_mus' (sat : List (List Int) → Bool) (hsat : ∀ f, sat f = true ↔ CnfSat f)
    (cs : List (List Int)) :
    (¬ CnfSat cs → ∃ m, insertion sat cs = some m ∧ List.Sublist m.reverse cs ∧
        subMultiset m cs = true ∧ ¬ CnfSat m ∧ IsMUS m) ∧
    (CnfSat cs → insertion sat cs = none) :=
  insertion_mus sat cs (fun f _ => hsat f)

/-! ### The executable instance `sat := bruteCnfSat n` -/

theorem cnfWf_subset (n : Nat) {f cs : List (List Int)} (h : f ⊆ cs) (hw : cnfWf n cs = true) :
    cnfWf n f = true := by
  unfold cnfWf at *
  rw [List.all_eq_true] at hw ⊢
  exact fun c hc => hw c (h hc)

theorem brute_contract (n : Nat) (cs : List (List Int)) (hw : cnfWf n cs = true) :
    ∀ f, f ⊆ cs → (bruteCnfSat n f = true ↔ CnfSat f) :=
  fun f hf => bruteCnfSat_iff n f (cnfWf_subset n hf hw)

/-- The hypotheses of `deletion_mus` / `insertion_mus` are met by a concrete oracle on a concrete
unsatisfiable input with two cores and a repeated clause. -/
example : (∀ f, f ⊆ [[1], [-1], [2], [1], [-2]] → (bruteCnfSat 2 f = true ↔ CnfSat f)) ∧
    ¬ CnfSat [[1], [-1], [2], [1], [-2]] :=
  ⟨brute_contract 2 _ (by decide),
   fun h => by
    have := (bruteCnfSat_iff 2 [[1], [-1], [2], [1], [-2]] (by decide)).2 h
    revert this; decide⟩

theorem deletionBrute_mus (n : Nat) (cs : List (List Int)) (hw : cnfWf n cs = true) :
    (¬ CnfSat cs → ∃ m, deletionBrute n cs = some m ∧ List.Sublist m cs ∧
        subMultiset m cs = true ∧ ¬ CnfSat m ∧ IsMUS m) ∧
    (CnfSat cs → deletionBrute n cs = none) :=
  deletion_mus _ cs (brute_contract n cs hw)

theorem insertionBrute_mus (n : Nat) (cs : List (List Int)) (hw : cnfWf n cs = true) :
    (¬ CnfSat cs → ∃ m, insertionBrute n cs = some m ∧ List.Sublist m.reverse cs ∧
        subMultiset m cs = true ∧ ¬ CnfSat m ∧ IsMUS m) ∧
    (CnfSat cs → insertionBrute n cs = none) :=
  insertion_mus _ cs (brute_contract n cs hw)

/-! ### Concrete inputs: two cores, a repeated clause, the empty clause, a satisfiable input.
The outputs coincide (including clause order) with what the Go functions return. -/

example : cnfWf 3 [[1, 2], [-1, 2], [3], [1, -2], [-1, -2], [-3]] = true := by decide
example : deletionBrute 3 [[1, 2], [-1, 2], [3], [1, -2], [-1, -2], [-3]] = some [[3], [-3]] := by
  decide
example : insertionBrute 3 [[1, 2], [-1, 2], [3], [1, -2], [-1, -2], [-3]]
    = some [[-1, -2], [1, -2], [-1, 2], [1, 2]] := by decide
example : isMUSB 3 [[-1, -2], [1, -2], [-1, 2], [1, 2]] = true := by decide
example : deletionBrute 1 [[1], [1], [-1]] = some [[1], [-1]] := by decide
example : insertionBrute 1 [[1], [1], [-1]] = some [[-1], [1]] := by decide
example : deletionBrute 2 [[1, 2], [], [1]] = some [[]] := by decide
example : insertionBrute 2 [[1, 2], [], [1]] = some [[]] := by decide
example : deletionBrute 2 [[1, 2]] = none ∧ insertionBrute 2 [[1, 2]] = none := by decide

/-! ### MUSMaxSat is not minimal (recorded defect)

On two disjoint cores `{x₁, ¬x₁}`, `{x₂, ¬x₂}` every optimal model falsifies exactly one clause
of each core, so the first round hardens one clause per core and the second round the other
two: whatever optimal models the solver picks, all four clauses are returned
(Go: `[[-1] [-2] [1] [2]]`). That set is unsatisfiable but not minimal. -/

theorem maxsat_mus_counterexample :
    bruteCnfSat 2 [[1], [-1], [2], [-2]] = false ∧
    isMUSB 2 [[1], [-1], [2], [-2]] = false ∧
    ¬ IsMUS [[1], [-1], [2], [-2]] ∧
    (∃ m, maxsatStrategy 2 [[1], [-1], [2], [-2]] = some m ∧ m.length = 4 ∧
      subMultiset m [[1], [-1], [2], [-2]] = true ∧ isMUSB 2 m = false) ∧
    -- the other two strategies are fine on this input
    deletionBrute 2 [[1], [-1], [2], [-2]] = some [[2], [-2]] ∧
    insertionBrute 2 [[1], [-1], [2], [-2]] = some [[-1], [1]] := by
  refine ⟨by decide, by decide, ?_, ⟨[[1], [2], [-1], [-2]], by decide, by decide, by decide,
    by decide⟩, by decide, by decide⟩
  intro h
  have := (isMUSB_iff 2 [[1], [-1], [2], [-2]] (by decide)).2 h
  revert this
  decide

/-- A second witness: a repeated clause. The MaxSat strategy returns both copies of `[1]`
(Go: `[[-1] [1] [1]]`). -/
theorem maxsat_mus_counterexample_dup :
    maxsatStrategy 1 [[1], [1], [-1]] = some [[-1], [1], [1]] ∧
    isMUSB 1 [[-1], [1], [1]] = false := by
  constructor <;> decide

/-! ### Remark: the caller's problem is left unchanged

In the model this is structural: `deletion`, `insertion`, `maxsatStrategy` are pure functions of
an immutable `cs`; nothing can be written back. What it stands for in the Go code (checked by
reading, and by the differential harness comparing `pb.Clauses` before and after):
`UnsatSubset` returns `pb.clone()` (deep copy) on the trivially-unsat path and a fresh outer
slice otherwise; `MUSDeletion` writes the relaxed clauses into fresh `newClause` slices of
`pb2`; `MUSInsertion` only reads (the returned MUS aliases the caller's inner clause slices but
nothing writes to them); `MUSMaxSat` appends relax literals to the clauses of a deep clone.
`UnsatChan` appends learned clauses to `pb.Clauses` and `restore` truncates them again;
`pb.units` is saved/restored by `unsat`; only the unexported `pb.tagged` is overwritten.
There is deliberately no Lean theorem for this part: it would be `rfl`. -/

end GS.Mus
