import GS.Model.IntCodeSem
/-!
# C01_IntCode — theorems about the GENERATED integer / bit code (translator route)

`GS/Generated/IntCode.lean` is rewritten from `/repo/solver/{types,clause,watcher,queue,solver}.go`
by `/verif/trans` on every run.  Every statement below is about those generated definitions and
holds for ALL bit patterns in the stated range (no testing, no `bv_decide`, no `native_decide`).
A changed operator or constant in the Go source changes the definition and breaks a named theorem.

Findings recorded as theorems:
* the DIMACS round trip holds exactly for `0 < |i| ≤ 2^30` (`roundtrip_fails_above`, `…_below`,
  `IntToLit_minInt`): 2^30 is the hard limit on the number of variables, `IntToLit` does not check it;
* `Negation` keeps the variable only for non-negative codes (`Negation_Var_fails_neg`);
* `incLbd` carries into the locked flag at lbd = 2^30-1 (`incLbd_overflow`);
* `right i` overflows at `i = 2^62-1` (`left_lt_right_fails`); `abs` of the minimum is negative.
-/
namespace GS.Props.C01IntCode
open GS.Gen.IntCode GS.IntCodeSem

/-- the Go `int32` range in which a DIMACS literal is usable: `i ≠ 0`, `-2^30 ≤ i ≤ 2^30` -/
def LitRange (i : BitVec 32) : Prop := i ≠ 0#32 ∧ -2^30 ≤ i.toInt ∧ i.toInt ≤ 2^30

instance (i : BitVec 32) : Decidable (LitRange i) := by unfold LitRange; exact inferInstance

/-- `|i|` as the Go code would compute it (`abs` at int32) -/
def abs32 (i : BitVec 32) : BitVec 32 := if BitVec.slt i 0#32 then -i else i

/-! ## DIMACS round trip -/

theorem IntToLit_nonneg (i : BitVec 32) (h : LitRange i) :
    0 ≤ (IntToLit i).toInt ∧ (IntToLit i).toInt ≤ 2^31 - 1 := by
  obtain ⟨h0, hlo, hhi⟩ := h
  have hne := toInt_ne_zero h0
  rw [toInt_IntToLit i h0 hlo hhi]; unfold litCode
  split <;> omega

/-- `Lit.Int (IntToLit i) = i` for every `i` with `0 < |i| ≤ 2^30` -/
theorem Lit_Int_IntToLit (i : BitVec 32) (h : LitRange i) : Lit_Int (IntToLit i) = i := by
  have hnn := (IntToLit_nonneg i h).1
  obtain ⟨h0, hlo, hhi⟩ := h
  apply BitVec.toInt_inj.mp
  rw [toInt_Lit_Int _ hnn, toInt_IntToLit i h0 hlo hhi]
  exact litDecode_litCode _ (toInt_ne_zero h0)

/-- the semantic form asked for: on the range, the code of `i` is `2(i-1)` / `2(-i-1)+1` -/
theorem IntToLit_toInt (i : BitVec 32) (h : LitRange i) :
    (IntToLit i).toInt = if i.toInt > 0 then 2 * (i.toInt - 1) else 2 * (-i.toInt - 1) + 1 := by
  rw [toInt_IntToLit i h.1 h.2.1 h.2.2]; rfl

/-- `IntToLit` is injective on ALL 32-bit patterns (also outside the range, also at 0) -/
theorem IntToLit_toNat (i : BitVec 32) : (IntToLit i).toNat =
    if 2^31 ≤ i.toNat then (2 * (2^32 - i.toNat - 1) + 1) % 2^32 else (2 * (i.toNat + 2^32 - 1)) % 2^32 := by
  have hi := i.isLt
  have ci := BitVec.toInt_eq_toNat_cond i
  unfold IntToLit
  simp only [BitVec.slt_eq_decide, decide_eq_true_eq, BitVec.toInt_zero]
  split <;> split <;> split at ci <;>
    simp only [BitVec.toNat_add, BitVec.toNat_mul, BitVec.toNat_sub, BitVec.toNat_neg, BitVec.toNat_ofNat] <;> omega

theorem IntToLit_injective (i j : BitVec 32) (h : IntToLit i = IntToLit j) : i = j := by
  have hi := i.isLt; have hj := j.isLt
  have hN := congrArg BitVec.toNat h
  rw [IntToLit_toNat, IntToLit_toNat] at hN
  apply BitVec.eq_of_toNat_eq
  split at hN <;> split at hN <;> omega

theorem Lit_Var_IntToLit (i : BitVec 32) (h : LitRange i) : Lit_Var (IntToLit i) = IntToVar (abs32 i) := by
  have hnn := (IntToLit_nonneg i h).1
  obtain ⟨h0, hlo, hhi⟩ := h
  have hne := toInt_ne_zero h0
  have hb := toInt_bounds32 i
  apply BitVec.toInt_inj.mp
  rw [toInt_Lit_Var _ hnn, toInt_IntToLit i h0 hlo hhi]
  have habs : (abs32 i).toInt = if i.toInt < 0 then -i.toInt else i.toInt := by
    unfold abs32; simp only [BitVec.slt_eq_decide, decide_eq_true_eq, BitVec.toInt_zero]
    split
    · rw [BitVec.toInt_neg]; simp [Int.bmod_def] at *; omega
    · rfl
  rw [toInt_IntToVar _ (by rw [habs]; split <;> omega), habs]
  unfold litCode; split <;> split <;> omega

/-- holds for every `i ≠ 0` (also outside the range: wrap-around keeps the parity) -/
theorem Lit_IsPositive_IntToLit (i : BitVec 32) (h0 : i ≠ 0#32) :
    Lit_IsPositive (IntToLit i) = true ↔ 0 < i.toInt := by
  have hne := toInt_ne_zero h0
  have hb := toInt_bounds32 i
  rw [Lit_IsPositive_eq, decide_eq_true_eq]
  unfold IntToLit
  simp only [BitVec.slt_eq_decide, decide_eq_true_eq, BitVec.toInt_zero]
  split <;> simp only [BitVec.toInt_add, BitVec.toInt_mul, BitVec.toInt_sub, BitVec.toInt_neg] <;>
    simp [Int.bmod_def] <;> omega

/-! ### boundary: what happens outside the range -/

/-- at `i = 2^30+1`, `2*(i-1)` overflows: the code is `-2^31` and decodes to `-2^30+1` -/
theorem roundtrip_fails_above :
    IntToLit 1073741825#32 = BitVec.intMin 32 ∧ (IntToLit 1073741825#32).toInt = -2147483648 ∧
    (Lit_Int (IntToLit 1073741825#32)).toInt = -1073741823 := by decide
/-- at `i = -2^30-1` the code is `-2^31+1` and decodes to `2^30-1` … with the wrong sign -/
theorem roundtrip_fails_below :
    (IntToLit (BitVec.ofInt 32 (-1073741825))).toInt = -2147483647 ∧
    (Lit_Int (IntToLit (BitVec.ofInt 32 (-1073741825)))).toInt = 1073741822 := by decide
/-- at `-2^31`, `-i` wraps to itself: the code is `-1` (all bits set) -/
theorem IntToLit_minInt : (IntToLit (BitVec.intMin 32)).toInt = -1 ∧
    (Lit_Int (IntToLit (BitVec.intMin 32))).toInt = -1 := by decide
/-- `IntToLit 0 = -2`: a negative code (an index panic later), "positive" -/
theorem IntToLit_zero : (IntToLit 0#32).toInt = -2 ∧ Lit_IsPositive (IntToLit 0#32) = true := by decide
/-- the two ends of the range do round-trip -/
example : LitRange 1073741824#32 ∧ Lit_Int (IntToLit 1073741824#32) = 1073741824#32 := by decide
example : LitRange (BitVec.ofInt 32 (-1073741824)) ∧
    Lit_Int (IntToLit (BitVec.ofInt 32 (-1073741824))) = BitVec.ofInt 32 (-1073741824) := by decide
example : LitRange (BitVec.ofInt 32 (-3)) ∧ IntToLit (BitVec.ofInt 32 (-3)) = 5#32 := by decide

/-! ## Negation -/

theorem Negation_involution (l : BitVec 32) : Lit_Negation (Lit_Negation l) = l := by
  unfold Lit_Negation; rw [BitVec.xor_assoc]; simp

theorem Negation_IsPositive (l : BitVec 32) : Lit_IsPositive (Lit_Negation l) = !Lit_IsPositive l := by
  rw [Lit_IsPositive_eq, Lit_IsPositive_eq, toInt_Lit_Negation]
  by_cases hp : l.toInt % 2 = 0
  · have : ¬ (l.toInt + 1) % 2 = 0 := by omega
    simp [hp, this]
  · have : (l.toInt - 1) % 2 = 0 := by omega
    simp [hp, this]

theorem Negation_Var (l : BitVec 32) (h : 0 ≤ l.toInt) : Lit_Var (Lit_Negation l) = Lit_Var l := by
  have hn := toInt_Lit_Negation l
  apply BitVec.toInt_inj.mp
  rw [toInt_Lit_Var _ (by rw [hn]; split <;> omega), toInt_Lit_Var _ h, hn]
  split <;> omega

/-- for a negative code the truncated division separates `l` and `l ^ 1` -/
theorem Negation_Var_fails_neg :
    Lit_Var (Lit_Negation (BitVec.ofInt 32 (-1))) ≠ Lit_Var (BitVec.ofInt 32 (-1)) := by decide

theorem Negation_Int (l : BitVec 32) (h : 0 ≤ l.toInt) : Lit_Int (Lit_Negation l) = -Lit_Int l := by
  have hn := toInt_Lit_Negation l
  have hb := toInt_bounds32 l
  apply BitVec.toInt_inj.mp
  rw [BitVec.toInt_neg, toInt_Lit_Int _ (by rw [hn]; split <;> omega), toInt_Lit_Int _ h, hn]
  unfold litDecode
  split <;> split <;> split <;> simp [Int.bmod_def] <;> omega

example : Lit_Negation 4#32 = 5#32 ∧ Lit_Int 4#32 = 3#32 ∧ Lit_Int 5#32 = BitVec.ofInt 32 (-3) := by decide

/-! ## Var ↔ Lit ↔ DIMACS -/

theorem Var_Lit_eq (v : BitVec 32) (h0 : 0 ≤ v.toInt) (h1 : v.toInt < 2^31 - 1) :
    Var_Lit v = IntToLit (v + 1#32) := by
  have hv := v.isLt
  have cv := BitVec.toInt_eq_toNat_cond v
  apply BitVec.eq_of_toNat_eq
  rw [IntToLit_toNat]; unfold Var_Lit
  simp only [BitVec.toNat_add, BitVec.toNat_mul, BitVec.toNat_ofNat]
  split at cv <;> split <;> omega

theorem Var_SignedLit_eq (v : BitVec 32) (b : Bool) (h0 : 0 ≤ v.toInt) (h1 : v.toInt < 2^31 - 1) :
    Var_SignedLit v b = IntToLit (if b then -(v + 1#32) else v + 1#32) := by
  cases b
  · simpa [Var_SignedLit, Var_Lit] using Var_Lit_eq v h0 h1
  · have hv := v.isLt
    have cv := BitVec.toInt_eq_toNat_cond v
    apply BitVec.eq_of_toNat_eq
    rw [IntToLit_toNat]; unfold Var_SignedLit
    simp only [BitVec.toNat_add, BitVec.toNat_mul, BitVec.toNat_neg, BitVec.toNat_ofNat, if_true]
    split at cv <;> split <;> omega

theorem Var_Int_IntToVar (i : BitVec 32) : Var_Int (IntToVar i) = i := by
  unfold Var_Int IntToVar; bv_omega
theorem IntToVar_Var_Int (v : BitVec 32) : IntToVar (Var_Int v) = v := by
  unfold Var_Int IntToVar; bv_omega

/-- `v.Lit().Int() = v.Int()` and `v.Lit().Var() = v` for `0 ≤ v < 2^30` -/
theorem Var_Lit_Int (v : BitVec 32) (h0 : 0 ≤ v.toInt) (h1 : v.toInt < 2^30) :
    Lit_Int (Var_Lit v) = Var_Int v ∧ Lit_Var (Var_Lit v) = v := by
  have hb := toInt_bounds32 v
  have hv : (Var_Lit v).toInt = 2 * v.toInt := by
    unfold Var_Lit; rw [BitVec.toInt_mul]; simp [Int.bmod_def]; omega
  constructor <;> apply BitVec.toInt_inj.mp
  · rw [toInt_Lit_Int _ (by omega), hv]; unfold litDecode Var_Int
    rw [BitVec.toInt_add]; simp [Int.bmod_def]; omega
  · rw [toInt_Lit_Var _ (by omega), hv]; omega

/-- at `v = 2^30` (variable number 2^30+1) `v*2` overflows -/
theorem Var_Lit_overflow : (Var_Lit 1073741824#32).toInt = -2147483648 := by decide

/-! ## the flag word -/

theorem lbd_setLbd (x : BitVec 32) (n : BitVec 64) (hn : n.toNat < 2^30) : Clause_lbd (Clause_setLbd x n) = n := by
  apply BitVec.eq_of_toNat_eq
  rw [Clause_lbd_toNat, Clause_setLbd_toNat x n hn]; omega

theorem setLbd_keeps_flags (x : BitVec 32) (n : BitVec 64) (hn : n.toNat < 2^30) :
    Clause_Learned (Clause_setLbd x n) = Clause_Learned x ∧
    Clause_isLocked (Clause_setLbd x n) = Clause_isLocked x := by
  have hx := x.isLt
  simp only [Clause_Learned_eq, Clause_isLocked_eq, Clause_setLbd_toNat x n hn]
  constructor <;> apply decide_eq_decide.mpr <;> omega

/-- `setLbd` with `lbd ≥ 2^30` writes into the flag bits (the solver calls `setLbd(1)` only) -/
theorem setLbd_overflow : Clause_isLocked (Clause_setLbd learnedMask 1073741824#64) = true ∧
    Clause_isLocked learnedMask = false := by decide

theorem lock_keeps (x : BitVec 32) :
    Clause_lbd (Clause_lock x) = Clause_lbd x ∧ Clause_Learned (Clause_lock x) = Clause_Learned x := by
  have hx := x.isLt
  constructor
  · apply BitVec.eq_of_toNat_eq; rw [Clause_lbd_toNat, Clause_lbd_toNat, Clause_lock_toNat]; split <;> omega
  · simp only [Clause_Learned_eq, Clause_lock_toNat]; apply decide_eq_decide.mpr; split <;> omega

theorem unlock_keeps (x : BitVec 32) :
    Clause_lbd (Clause_unlock x) = Clause_lbd x ∧ Clause_Learned (Clause_unlock x) = Clause_Learned x := by
  have hx := x.isLt
  constructor
  · apply BitVec.eq_of_toNat_eq; rw [Clause_lbd_toNat, Clause_lbd_toNat, Clause_unlock_toNat]; split <;> omega
  · simp only [Clause_Learned_eq, Clause_unlock_toNat]; apply decide_eq_decide.mpr; split <;> omega

/-- `isLocked` tests BOTH bits: a locked non-learned clause does not report as locked -/
theorem isLocked_lock (x : BitVec 32) : Clause_isLocked (Clause_lock x) = Clause_Learned x := by
  have hx := x.isLt
  simp only [Clause_Learned_eq, Clause_isLocked_eq, Clause_lock_toNat]
  apply decide_eq_decide.mpr; split <;> omega

theorem isLocked_unlock (x : BitVec 32) : Clause_isLocked (Clause_unlock x) = false := by
  have hx := x.isLt
  simp only [Clause_isLocked_eq, Clause_unlock_toNat]
  apply decide_eq_false; split <;> omega

theorem unlock_lock (x : BitVec 32) (h : Clause_isLocked x = false) (hl : Clause_Learned x = true) :
    Clause_unlock (Clause_lock x) = x := by
  have hx := x.isLt
  simp only [Clause_Learned_eq, Clause_isLocked_eq, decide_eq_true_eq, decide_eq_false_iff_not] at h hl
  apply BitVec.eq_of_toNat_eq
  rw [Clause_unlock_toNat, Clause_lock_toNat]; split <;> split <;> omega

theorem incLbd_keeps (x : BitVec 32) (h : (Clause_lbd x).toNat ≠ 2^30 - 1) :
    Clause_lbd (Clause_incLbd x) = Clause_lbd x + 1#64 ∧
    Clause_Learned (Clause_incLbd x) = Clause_Learned x ∧
    Clause_isLocked (Clause_incLbd x) = Clause_isLocked x := by
  have hx := x.isLt
  rw [Clause_lbd_toNat] at h
  refine ⟨?_, ?_, ?_⟩
  · apply BitVec.eq_of_toNat_eq
    rw [BitVec.toNat_add, Clause_lbd_toNat, Clause_lbd_toNat, Clause_incLbd_toNat]
    have : (1#64).toNat = 1 := rfl
    omega
  · simp only [Clause_Learned_eq, Clause_incLbd_toNat]; apply decide_eq_decide.mpr; omega
  · simp only [Clause_isLocked_eq, Clause_incLbd_toNat]; apply decide_eq_decide.mpr; omega

/-- at lbd = 2^30-1 the increment carries into bit 30: a learned unlocked clause becomes locked with
lbd 0.  Not reachable in the solver: `incLbd` is called at most once per literal of the clause
(`learn.go`, `computeLbd`), and a clause has fewer than 2^30 literals of distinct levels. -/
theorem incLbd_overflow :
    let x : BitVec 32 := learnedMask ||| 1073741823#32
    Clause_isLocked x = false ∧ (Clause_lbd x).toNat = 2^30 - 1 ∧
    Clause_isLocked (Clause_incLbd x) = true ∧ Clause_lbd (Clause_incLbd x) = 0#64 := by decide

theorem Cardinality_nonlearned (x : BitVec 32) (h : Clause_Learned x = false) :
    Clause_Cardinality x = Clause_lbd x + 1#64 := by
  unfold Clause_Cardinality Clause_lbd; simp [h]

theorem Cardinality_learned (x : BitVec 32) (h : Clause_Learned x = true) : Clause_Cardinality x = 1#64 := by
  unfold Clause_Cardinality; simp [h]

/-- `NewCardClause(lits, card)` stores `uint32(card-1)`: for `1 ≤ card ≤ 2^30` the cardinality reads back -/
theorem Cardinality_of_card (card : BitVec 64) (h1 : 1 ≤ card.toNat) (h2 : card.toNat ≤ 2^30) :
    Clause_Cardinality (BitVec.setWidth 32 (card - 1#64)) = card := by
  apply BitVec.eq_of_toNat_eq
  have hc : (BitVec.setWidth 32 (card - 1#64)).toNat = card.toNat - 1 := by
    rw [BitVec.toNat_setWidth, BitVec.toNat_sub]
    have : (1#64).toNat = 1 := rfl
    omega
  rw [Clause_Cardinality_toNat, hc]; split <;> omega

/-- a cardinality above 2^30 is silently misread (2^31+1 literals would be needed: not reachable) -/
theorem Cardinality_overflow : Clause_Cardinality (BitVec.setWidth 32 (2147483649#64 - 1#64)) = 1#64 := by decide

example : Clause_lbd (Clause_setLbd learnedMask 7#64) = 7#64 ∧ Clause_Learned (Clause_setLbd learnedMask 7#64) = true := by decide
example : Clause_isLocked (Clause_lock learnedMask) = true ∧ Clause_isLocked (Clause_lock 2#32) = false := by decide
example : Clause_Cardinality 2#32 = 3#64 := by decide

/-! ## `lvlToSignedLvl` against the test of `litStatus` -/

/-- hand mirror of the test in `Solver.litStatus`: `assign > 0 == l.IsPositive()` (with `assign ≠ 0`) -/
def litStatusSat (assign : BitVec 64) (l : BitVec 32) : Bool := (BitVec.slt 0#64 assign) == Lit_IsPositive l

theorem toInt_neg64 (x : BitVec 64) (h : x ≠ BitVec.intMin 64) : (-x).toInt = -x.toInt := by
  have hb := toInt_bounds64 x
  have : x.toInt ≠ -9223372036854775808 := by
    intro e; apply h; apply BitVec.toInt_inj.mp; rw [e]; decide
  rw [BitVec.toInt_neg]; simp [Int.bmod_def]; omega

/-- a literal bound at level `lvl > 0` is Sat, its negation is Unsat, and `abs` gives the level back -/
theorem lvlToSignedLvl_spec (l : BitVec 32) (lvl : BitVec 64) (h : 0 < lvl.toInt) :
    lvlToSignedLvl l lvl ≠ 0#64 ∧
    litStatusSat (lvlToSignedLvl l lvl) l = true ∧
    litStatusSat (lvlToSignedLvl l lvl) (Lit_Negation l) = false ∧
    abs_decLevel (lvlToSignedLvl l lvl) = lvl := by
  have hm : lvl ≠ BitVec.intMin 64 := by
    intro e; rw [e] at h; revert h; decide
  have hn := toInt_neg64 lvl hm
  have hneg : (BitVec.slt 0#64 (-lvl)) = false := by
    simp only [BitVec.slt_eq_decide, hn]; apply decide_eq_false; simp; omega
  have hpos : (BitVec.slt 0#64 lvl) = true := by
    simp only [BitVec.slt_eq_decide]; apply decide_eq_true; simpa using h
  have hnz : lvl ≠ 0#64 := by intro e; rw [e] at h; simp at h
  have hnnz : -lvl ≠ 0#64 := by
    intro e; have := congrArg BitVec.toInt e; rw [hn] at this; simp at this; omega
  unfold lvlToSignedLvl litStatusSat abs_decLevel
  rw [Negation_IsPositive]
  cases hp : Lit_IsPositive l
  · have : BitVec.slt (-lvl) 0#64 = true := by
      simp only [BitVec.slt_eq_decide, hn]; apply decide_eq_true; simp; omega
    simp [hneg, hnnz, this]
  · have : BitVec.slt lvl 0#64 = false := by
      simp only [BitVec.slt_eq_decide]; apply decide_eq_false; simp; omega
    simp [hpos, hnz, this]

example : lvlToSignedLvl 5#32 3#64 = BitVec.ofInt 64 (-3) ∧ litStatusSat (BitVec.ofInt 64 (-3)) 5#32 = true := by decide

/-- `abs` of the minimum is the minimum (negative); decision levels never get there -/
theorem abs_minInt : abs_decLevel (BitVec.intMin 64) = BitVec.intMin 64 ∧ abs_int (BitVec.intMin 64) = BitVec.intMin 64 := by decide

theorem abs_nonneg (x : BitVec 64) (h : x ≠ BitVec.intMin 64) :
    0 ≤ (abs_decLevel x).toInt ∧ (abs_decLevel x).toInt = x.toInt.natAbs ∧ abs_int x = abs_decLevel x := by
  have hn := toInt_neg64 x h
  unfold abs_decLevel abs_int
  simp only [BitVec.slt_eq_decide, decide_eq_true_eq]
  have : (0#64).toInt = 0 := rfl
  split <;> simp [hn] <;> omega

theorem min_int_spec (a b : BitVec 64) : (min_int a b).toInt = min a.toInt b.toInt := by
  unfold min_int; simp only [BitVec.slt_eq_decide, decide_eq_true_eq]; split <;> omega

/-! ## heap index arithmetic (`queue.go`), Go `int` = 64 bits -/

theorem toInt_left (i : BitVec 64) (h0 : 0 ≤ i.toInt) (h1 : i.toInt < 2^62) : (left i).toInt = 2 * i.toInt + 1 := by
  unfold left; rw [BitVec.toInt_add, BitVec.toInt_mul]; simp [Int.bmod_def]; omega

theorem toInt_right (i : BitVec 64) (h0 : 0 ≤ i.toInt) (h1 : i.toInt < 2^62 - 1) : (right i).toInt = 2 * i.toInt + 2 := by
  unfold right; rw [BitVec.toInt_mul, BitVec.toInt_add]; simp [Int.bmod_def]; omega

theorem toInt_parent (i : BitVec 64) (h : -2^63 < i.toInt) : (parent i).toInt = (i.toInt - 1) / 2 := by
  have hb := toInt_bounds64 i
  unfold parent; rw [BitVec.toInt_sshiftRight, BitVec.toInt_sub, Int.shiftRight_eq_div_pow]
  simp [Int.bmod_def]; omega

theorem parent_left (i : BitVec 64) (h0 : 0 ≤ i.toInt) (h1 : i.toInt < 2^62) : parent (left i) = i := by
  apply BitVec.toInt_inj.mp
  have := toInt_left i h0 h1
  rw [toInt_parent _ (by omega), this]; omega

theorem parent_right (i : BitVec 64) (h0 : 0 ≤ i.toInt) (h1 : i.toInt < 2^62 - 1) : parent (right i) = i := by
  apply BitVec.toInt_inj.mp
  have := toInt_right i h0 h1
  rw [toInt_parent _ (by omega), this]; omega

theorem left_lt_right (i : BitVec 64) (h0 : 0 ≤ i.toInt) (h1 : i.toInt < 2^62 - 1) :
    BitVec.slt (left i) (right i) = true ∧ BitVec.slt i (left i) = true := by
  have := toInt_left i h0 (by omega); have := toInt_right i h0 h1
  simp only [BitVec.slt_eq_decide, decide_eq_true_eq]; omega

/-- at `i = 2^62-1`, `right i = 2^63` wraps to the minimum: `left i < right i` fails
(`parent (right i) = i` still holds there, by a second wrap-around) -/
theorem left_lt_right_fails :
    BitVec.slt (left 4611686018427387903#64) (right 4611686018427387903#64) = false ∧
    parent (right 4611686018427387903#64) = 4611686018427387903#64 := by decide

/-- `parent 0 = -1`: `percolateUp` must (and does) stop at the root before using it -/
theorem parent_zero : (parent 0#64).toInt = -1 := by decide

example : left 3#64 = 7#64 ∧ right 3#64 = 8#64 ∧ parent 7#64 = 3#64 ∧ parent 8#64 = 3#64 := by decide

/-! ## axioms -/
#print axioms IntToLit_nonneg
#print axioms Lit_Int_IntToLit
#print axioms IntToLit_toInt
#print axioms IntToLit_toNat
#print axioms IntToLit_injective
#print axioms Lit_Var_IntToLit
#print axioms Lit_IsPositive_IntToLit
#print axioms roundtrip_fails_above
#print axioms roundtrip_fails_below
#print axioms IntToLit_minInt
#print axioms IntToLit_zero
#print axioms Negation_involution
#print axioms Negation_IsPositive
#print axioms Negation_Var
#print axioms Negation_Var_fails_neg
#print axioms Negation_Int
#print axioms Var_Lit_eq
#print axioms Var_SignedLit_eq
#print axioms Var_Int_IntToVar
#print axioms IntToVar_Var_Int
#print axioms Var_Lit_Int
#print axioms Var_Lit_overflow
#print axioms lbd_setLbd
#print axioms setLbd_keeps_flags
#print axioms setLbd_overflow
#print axioms lock_keeps
#print axioms unlock_keeps
#print axioms isLocked_lock
#print axioms isLocked_unlock
#print axioms unlock_lock
#print axioms incLbd_keeps
#print axioms incLbd_overflow
#print axioms Cardinality_nonlearned
#print axioms Cardinality_learned
#print axioms Cardinality_of_card
#print axioms Cardinality_overflow
#print axioms toInt_neg64
#print axioms lvlToSignedLvl_spec
#print axioms abs_minInt
#print axioms abs_nonneg
#print axioms min_int_spec
#print axioms toInt_left
#print axioms toInt_right
#print axioms toInt_parent
#print axioms parent_left
#print axioms parent_right
#print axioms left_lt_right
#print axioms left_lt_right_fails
#print axioms parent_zero

end GS.Props.C01IntCode
