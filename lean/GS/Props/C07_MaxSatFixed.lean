import GS.Props.C07_Mus
import GS.Model.MusFixed
/-!
# C07 — the repaired MaxSat strategy (`MUSMaxSat` after the fix) returns a MUS

`GS.Mus.maxsatFixed` (`GS/Model/MusFixed.lean`) mirrors the repaired `MUSMaxSat` of
`explain/mus.go`: the clauses gathered by the MaxSat rounds (`maxsatStrategy`, the old result,
recorded as non-minimal in `maxsat_mus_counterexample(_dup)`) are now minimized by `MUSDeletion`.

* `maxsatLoop_spec` — loop invariant: the clause list of the state is constant, `musClauses` is a
  permutation of the hardened clauses, and the loop only answers `some` when the hard clauses have
  no model among `leaves n`.
* `maxsatStrategy_unsat_sub` — the gathered set is an unsatisfiable sub-multiset of the input
  (`cnfWf n cs` makes the enumeration `leaves n` exhaustive: `bruteCnfSat_iff`).
* `maxsatLoop_progress`, `maxsatStrategy_progress` — fuel `|cs| + 1` suffices: each round hardens
  `cost ≥ 1` clauses, and `cost == 0` is impossible on an unsatisfiable input.
* `maxsatFixed_mus`, `maxsatFixed_progress` (and `maxsatFixedWith_mus` over an arbitrary
  `UnsatSubset`) — the property.
-/
namespace GS.Mus
open GS

/-! ### `argmin`, `optModel` -/

theorem argmin_none (f : List Bool → Nat) : ∀ l, argmin f l = none ↔ l = []
  | [] => by simp [argmin]
  | b :: bs => by
    unfold argmin
    cases argmin f bs with
    | none => simp
    | some b' => by_cases h : f b ≤ f b' <;> simp [h]

theorem argmin_mem (f : List Bool → Nat) : ∀ l b, argmin f l = some b → b ∈ l
  | [], b, h => by simp [argmin] at h
  | x :: xs, b, h => by
    unfold argmin at h
    cases ha : argmin f xs with
    | none => rw [ha] at h; simp at h; subst h; simp
    | some b' =>
      rw [ha] at h
      have := argmin_mem f xs b' ha
      by_cases hle : f x ≤ f b'
      · simp [hle] at h; subst h; simp
      · simp [hle] at h; subst h; simp [this]

/-- `cost == -1`: no assignment over the declared variables satisfies the hard clauses. -/
theorem optModel_none (n : Nat) (st : MState) :
    optModel n st = none ↔ bruteCnfSat n (hardOf st) = false := by
  unfold optModel bruteCnfSat
  rw [argmin_none, List.filter_eq_nil_iff, List.any_eq_false]

/-- `s.Model()` satisfies the hard clauses. -/
theorem optModel_some (n : Nat) (st : MState) (bs : List Bool) (h : optModel n st = some bs) :
    cnfTrue (asgOf bs) (hardOf st) = true := by
  unfold optModel at h
  have := argmin_mem _ _ _ h
  rw [List.mem_filter] at this
  exact this.2

/-! ### one round: `markFalsified` -/

/-- The clauses of the state never change (only the `done` flags do). -/
theorem markFalsified_map_fst (a : Asg) :
    ∀ st : MState, (markFalsified a st).1.map (·.1) = st.map (·.1)
  | [] => rfl
  | (c, d) :: rest => by
    have ih := markFalsified_map_fst a rest
    simp only [markFalsified]
    split <;> simp [ih]

theorem hardOf_cons_true (c : List Int) (st : MState) : hardOf ((c, true) :: st) = c :: hardOf st := by
  simp [hardOf]

theorem hardOf_cons_false (c : List Int) (st : MState) : hardOf ((c, false) :: st) = hardOf st := by
  simp [hardOf]

/-- The clauses appended to `musClauses` in a round are exactly the newly hardened ones. -/
theorem markFalsified_hardOf (a : Asg) :
    ∀ st : MState, (hardOf (markFalsified a st).1).Perm (hardOf st ++ (markFalsified a st).2)
  | [] => by simp [markFalsified, hardOf]
  | (c, d) :: rest => by
    have ih := markFalsified_hardOf a rest
    simp only [markFalsified]
    cases d with
    | true =>
      simp only [Bool.not_true, Bool.false_and, Bool.false_eq_true, if_false, hardOf_cons_true]
      exact ih.cons c
    | false =>
      by_cases hc : clauseTrue a c = true
      · simp only [hc, Bool.not_false, Bool.not_true, Bool.and_false, Bool.false_eq_true, if_false,
          hardOf_cons_false]
        exact ih
      · have hc' : clauseTrue a c = false := by simpa using hc
        simp only [hc', Bool.not_false, Bool.and_self, if_true, hardOf_cons_true, hardOf_cons_false]
        exact (ih.cons c).trans List.perm_middle.symm

/-- Clauses not yet hardened. -/
def undone (st : MState) : Nat := (st.filter (fun p => !p.2)).length

/-- Every round hardens exactly `cost` clauses. -/
theorem markFalsified_undone (a : Asg) :
    ∀ st : MState, undone (markFalsified a st).1 + costOf a st = undone st
  | [] => rfl
  | (c, d) :: rest => by
    have ih := markFalsified_undone a rest
    unfold undone costOf at *
    simp only [markFalsified]
    cases d with
    | true => simpa using ih
    | false =>
      by_cases hc : clauseTrue a c = true
      · simp [hc]; omega
      · have hc' : clauseTrue a c = false := by simpa using hc
        simp [hc']; omega

theorem hardOf_sublist (st : MState) : List.Sublist (hardOf st) (st.map (·.1)) := by
  unfold hardOf
  exact List.Sublist.map _ List.filter_sublist

/-- `cost == 0`: the model of the hard clauses satisfies every clause of the input. -/
theorem cost_zero_sat (a : Asg) (st : MState) (h0 : costOf a st = 0)
    (hh : cnfTrue a (hardOf st) = true) : cnfTrue a (st.map (·.1)) = true := by
  unfold costOf at h0
  rw [List.length_eq_zero_iff, List.filter_eq_nil_iff] at h0
  unfold cnfTrue hardOf at *
  rw [List.all_eq_true] at hh ⊢
  intro c hc
  rw [List.mem_map] at hc
  obtain ⟨⟨c', d⟩, hp, rfl⟩ := hc
  cases d with
  | true =>
    apply hh
    rw [List.mem_map]
    exact ⟨(c', true), by simp [hp], rfl⟩
  | false =>
    have := h0 _ hp
    simpa using this

/-! ### the loop -/

/-- Loop invariant of `maxsatLoop`: the clause list of the state stays the same, and `musClauses`
is a permutation of the hardened clauses. When the loop stops with `some m`, `m` is a permutation
of the hard clauses of a final state whose hard part has no model (`cost == -1`). -/
theorem maxsatLoop_spec (n : Nat) : ∀ (fuel : Nat) (st : MState) (mc m : List (List Int)),
    mc.Perm (hardOf st) → maxsatLoop n fuel st mc = some m →
    ∃ st' : MState, st'.map (·.1) = st.map (·.1) ∧ m.Perm (hardOf st') ∧ optModel n st' = none
  | 0, _, _, _, _, h => by simp [maxsatLoop] at h
  | fuel + 1, st, mc, m, hp, h => by
    unfold maxsatLoop at h
    cases ho : optModel n st with
    | none =>
      rw [ho] at h
      simp only [Option.some.injEq] at h
      subst h
      exact ⟨st, rfl, hp, ho⟩
    | some bs =>
      rw [ho] at h
      simp only at h
      by_cases h0 : costOf (asgOf bs) st = 0
      · rw [if_pos h0] at h; cases h
      · rw [if_neg h0] at h
        obtain ⟨st', h1, h2, h3⟩ := maxsatLoop_spec n fuel _ _ m
          ((hp.append_right _).trans (markFalsified_hardOf (asgOf bs) st).symm) h
        exact ⟨st', h1.trans (markFalsified_map_fst _ st), h2, h3⟩

/-- Termination: fuel larger than the number of clauses not yet hardened suffices, because
every round hardens at least one clause; on an unsatisfiable input the loop never takes the
`cost == 0` exit. -/
theorem maxsatLoop_progress (n : Nat) : ∀ (fuel : Nat) (st : MState) (mc : List (List Int)),
    ¬ CnfSat (st.map (·.1)) → undone st < fuel → ∃ m, maxsatLoop n fuel st mc = some m
  | 0, _, _, _, hf => by omega
  | fuel + 1, st, mc, hun, hf => by
    unfold maxsatLoop
    cases ho : optModel n st with
    | none => exact ⟨mc, rfl⟩
    | some bs =>
      simp only
      have hne : costOf (asgOf bs) st ≠ 0 := fun h0 =>
        hun ⟨asgOf bs, cost_zero_sat _ st h0 (optModel_some n st bs ho)⟩
      rw [if_neg hne]
      have hu := markFalsified_undone (asgOf bs) st
      apply maxsatLoop_progress n fuel
      · rw [markFalsified_map_fst]; exact hun
      · omega

/-! ### the MaxSat rounds (`maxsatStrategy`): what the unrepaired function returned -/

theorem hardOf_init (cs : List (List Int)) : hardOf (cs.map (fun c => (c, false))) = [] := by
  simp [hardOf]

theorem undone_init (cs : List (List Int)) : undone (cs.map (fun c => (c, false))) = cs.length := by
  induction cs with
  | nil => rfl
  | cons c cs ih => unfold undone at *; simp at ih ⊢; exact ih

theorem map_fst_init (cs : List (List Int)) :
    (cs.map (fun c => (c, false))).map (·.1) = cs := by
  induction cs with
  | nil => rfl
  | cons c cs ih => simp at ih ⊢; exact ih

/-- The set gathered by the MaxSat rounds is an unsatisfiable sub-multiset of the input
(but need not be minimal: `maxsat_mus_counterexample`). -/
theorem maxsatStrategy_unsat_sub (n : Nat) (cs : List (List Int)) (hw : cnfWf n cs = true)
    (m : List (List Int)) (h : maxsatStrategy n cs = some m) :
    subMultiset m cs = true ∧ m ⊆ cs ∧ ¬ CnfSat m := by
  unfold maxsatStrategy at h
  obtain ⟨st', h1, h2, h3⟩ := maxsatLoop_spec n _ _ [] m (by rw [hardOf_init]) h
  rw [map_fst_init] at h1
  have hsl : List.Sublist (hardOf st') cs := h1 ▸ hardOf_sublist st'
  have hsub : m ⊆ cs := fun x hx => hsl.subset (h2.subset hx)
  refine ⟨?_, hsub, ?_⟩
  · rw [subMultiset_iff_count]
    intro x
    rw [h2.count_eq]
    exact hsl.count_le x
  · intro hs
    have hs' : CnfSat (hardOf st') := sat_subset h2.symm.subset hs
    have := (bruteCnfSat_iff n _ (cnfWf_subset n hsl.subset hw)).2 hs'
    rw [(optModel_none n st').1 h3] at this
    cases this

/-- On an unsatisfiable input the MaxSat rounds stop with `cost == -1` within `|cs| + 1` rounds
(no well-formedness needed). -/
theorem maxsatStrategy_progress (n : Nat) (cs : List (List Int)) (hun : ¬ CnfSat cs) :
    ∃ m, maxsatStrategy n cs = some m := by
  unfold maxsatStrategy
  apply maxsatLoop_progress
  · rw [map_fst_init]; exact hun
  · rw [undone_init]; omega

theorem maxsatStrategy_sat (n : Nat) (cs : List (List Int)) (hw : cnfWf n cs = true)
    (hs : CnfSat cs) : maxsatStrategy n cs = none := by
  cases h : maxsatStrategy n cs with
  | none => rfl
  | some m =>
    obtain ⟨_, hsub, hun⟩ := maxsatStrategy_unsat_sub n cs hw m h
    exact absurd (sat_subset hsub hs) hun

theorem subMultiset_trans {a b c : List (List Int)} (h1 : subMultiset a b = true)
    (h2 : subMultiset b c = true) : subMultiset a c = true := by
  rw [subMultiset_iff_count] at *
  exact fun x => Nat.le_trans (h1 x) (h2 x)

/-! ### the repaired `MUSMaxSat` -/

/-- **C07, repaired MaxSat strategy**, over an arbitrary `UnsatSubset` honouring its contract
on the sub-lists of the input. -/
theorem maxsatFixedWith_mus (n : Nat) (sub : List (List Int) → Option (List (List Int)))
    (cs : List (List Int)) (hw : cnfWf n cs = true)
    (hsome : ∀ f s, f ⊆ cs → sub f = some s → List.Sublist s f ∧ ¬ CnfSat s)
    (hnone : ∀ f, f ⊆ cs → (sub f = none ↔ CnfSat f)) :
    (∀ m, maxsatFixedWith n sub cs = some m → subMultiset m cs = true ∧ ¬ CnfSat m ∧ IsMUS m) ∧
    (CnfSat cs → maxsatFixedWith n sub cs = none) ∧
    (¬ CnfSat cs → ∃ m, maxsatFixedWith n sub cs = some m) := by
  unfold maxsatFixedWith
  refine ⟨?_, ?_, ?_⟩
  · intro m hm
    cases h : maxsatStrategy n cs with
    | none => rw [h] at hm; cases hm
    | some g =>
      rw [h] at hm
      simp only [Option.bind_some] at hm
      obtain ⟨hsm, hsub, hun⟩ := maxsatStrategy_unsat_sub n cs hw g h
      have hd := (deletionWith_mus (bruteCnfSat n) sub g
        (brute_contract n g (cnfWf_subset n hsub hw)) (fun s => hsome g s hsub) (hnone g hsub)).1 hun
      obtain ⟨m', e, _, h2, h3, h4⟩ := hd
      rw [hm] at e
      cases e
      exact ⟨subMultiset_trans h2 hsm, h3, h4⟩
  · intro hs
    rw [maxsatStrategy_sat n cs hw hs]; rfl
  · intro hun
    obtain ⟨g, h⟩ := maxsatStrategy_progress n cs hun
    rw [h]
    simp only [Option.bind_some]
    obtain ⟨_, hsub, hung⟩ := maxsatStrategy_unsat_sub n cs hw g h
    obtain ⟨m', e, _⟩ := (deletionWith_mus (bruteCnfSat n) sub g
      (brute_contract n g (cnfWf_subset n hsub hw)) (fun s => hsome g s hsub) (hnone g hsub)).1 hung
    exact ⟨m', e⟩

/-- **C07, repaired MaxSat strategy (`MUSMaxSat` after the fix).** -/
theorem maxsatFixed_mus (n : Nat) (cs : List (List Int)) (hw : cnfWf n cs = true) :
    (∀ m, maxsatFixed n cs = some m → subMultiset m cs = true ∧ ¬ CnfSat m ∧ IsMUS m) ∧
    (CnfSat cs → maxsatFixed n cs = none) := by
  have h := maxsatFixedWith_mus n (unsatSubsetId (bruteCnfSat n)) cs hw
    (fun f s hf => (unsatSubsetId_some _ f (brute_contract n f (cnfWf_subset n hf hw))).1 s)
    (fun f hf => (unsatSubsetId_some _ f (brute_contract n f (cnfWf_subset n hf hw))).2)
  exact ⟨h.1, h.2.1⟩

/-- Progress: on an unsatisfiable input the repaired function returns a set (the fuel
`|cs| + 1` of the MaxSat rounds suffices). -/
theorem maxsatFixed_progress (n : Nat) (cs : List (List Int)) (hw : cnfWf n cs = true) :
    ¬ CnfSat cs → ∃ m, maxsatFixed n cs = some m :=
  (maxsatFixedWith_mus n (unsatSubsetId (bruteCnfSat n)) cs hw
    (fun f s hf => (unsatSubsetId_some _ f (brute_contract n f (cnfWf_subset n hf hw))).1 s)
    (fun f hf => (unsatSubsetId_some _ f (brute_contract n f (cnfWf_subset n hf hw))).2)).2.2

/-! ### Concrete inputs

The hypothesis `cnfWf` holds on non-trivial inputs; the two inputs on which the unrepaired
function returned a non-minimal set (`maxsat_mus_counterexample`, `maxsat_mus_counterexample_dup`)
now give a MUS; a satisfiable input gives `none` (the Go function returns the error
"cannot extract MUS from satisfiable problem"). -/

example : cnfWf 2 [[1], [-1], [2], [-2]] = true ∧ cnfWf 1 [[1], [1], [-1]] = true := by decide

/-- Two disjoint cores: the rounds gather all four clauses, the deletion pass keeps `{x₂, ¬x₂}`
(Go: `[[-2] [2]]`, the same MUS in another order). -/
example : maxsatStrategy 2 [[1], [-1], [2], [-2]] = some [[1], [2], [-1], [-2]] ∧
    maxsatFixed 2 [[1], [-1], [2], [-2]] = some [[2], [-2]] ∧
    isMUSB 2 [[2], [-2]] = true := by decide

/-- A repeated clause: only one copy of `[1]` is kept (Go: `[[-1] [1]]`, identical). -/
example : maxsatStrategy 1 [[1], [1], [-1]] = some [[-1], [1], [1]] ∧
    maxsatFixed 1 [[1], [1], [-1]] = some [[-1], [1]] ∧
    isMUSB 1 [[-1], [1]] = true := by decide

/-- A satisfiable input. -/
example : maxsatFixed 2 [[1, 2], [-1]] = none := by decide

/-- The empty clause; an implication chain next to a two-clause core; an over-constrained square. -/
example : maxsatFixed 2 [[1, 2], [], [1]] = some [[]] := by decide
example : maxsatFixed 3 [[1], [-1, 2], [-2, 3], [-3], [2], [-2]] = some [[2], [-2]] := by decide
example : maxsatFixed 2 [[1, 2], [-1, 2], [1, -2], [-1, -2], [1]]
    = some [[-1, 2], [-1, -2], [1]] := by decide

/-- The statement instantiated: the answer on the first old counterexample is a MUS of the spec. -/
example : IsMUS [[2], [-2]] ∧ subMultiset [[2], [-2]] [[1], [-1], [2], [-2]] = true :=
  let h := (maxsatFixed_mus 2 [[1], [-1], [2], [-2]] (by decide)).1 [[2], [-2]] (by decide)
  ⟨h.2.2, h.1⟩

end GS.Mus

#print axioms GS.Mus.maxsatLoop_spec
#print axioms GS.Mus.maxsatLoop_progress
#print axioms GS.Mus.maxsatStrategy_unsat_sub
#print axioms GS.Mus.maxsatStrategy_progress
#print axioms GS.Mus.maxsatFixedWith_mus
#print axioms GS.Mus.maxsatFixed_mus
#print axioms GS.Mus.maxsatFixed_progress
