import GS.Model.Queue
/-!
# C01 — the variable order heap never loses an unbound variable and never panics

Theorems about the mirror `GS.Queue` of `/repo/solver/queue.go` (validated against the Go code by
the differential tie `harness/x_queue.go`).
-/
namespace GS.Queue

/-! ## The invariant the real code maintains -/

/-- Every non-negative `indices[n]` is a position of `content` holding `n`; every element of `content`
    has an entry in `indices` and in `activity`. (`content` may hold duplicates and elements whose
    index entry is `-1`: see `queue_nodup_statement_false`.) -/
structure QInv (q : Q) : Prop where
  idx : ∀ (n : Nat) (k : Int), q.indices[n]? = some k → 0 ≤ k → q.content[k.toNat]? = some n
  bnd : ∀ y, y ∈ q.content → y < q.indices.length ∧ y < q.activity.length

/-- Invariant of the two percolate loops: position `i` is a hole (its content is stale), `x` is the
    element being moved (its index entry is arbitrary). -/
structure HInv (q : Q) (i x : Nat) : Prop where
  hi : i < q.content.length
  idx : ∀ (n : Nat) (k : Int), n ≠ x → q.indices[n]? = some k → 0 ≤ k →
          k.toNat ≠ i ∧ q.content[k.toNat]? = some n
  bnd : ∀ y, y ∈ q.content → y < q.indices.length ∧ y < q.activity.length
  xb : x < q.indices.length ∧ x < q.activity.length

/-- What an operation guarantees: the invariant, the same activities, the same number of index
    entries, and a content that is a permutation of `c`. -/
structure Res (q : Q) (c : List Nat) (q' : Q) : Prop where
  inv : QInv q'
  act : q'.activity = q.activity
  len : q'.indices.length = q.indices.length
  perm : q'.content.Perm c

theorem hinv_of_qinv {q : Q} {i x : Nat} (h : QInv q) (hx : q.content[i]? = some x) : HInv q i x := by
  have hi : i < q.content.length := by
    rcases List.getElem?_eq_some_iff.mp hx with ⟨h1, _⟩; exact h1
  refine ⟨hi, ?_, h.bnd, h.bnd x (List.mem_of_getElem? hx)⟩
  intro n k hn hk h0
  have := h.idx n k hk h0
  refine ⟨?_, this⟩
  intro he
  rw [he, hx] at this
  exact hn (Option.some.inj this).symm

theorem swap_perm {l : List Nat} {i p c x : Nat} (hi : i < l.length) (hp : l[p]? = some c)
    (hne : p ≠ i) : ((l.set i c).set p x).Perm (l.set i x) := by
  rcases List.getElem?_eq_some_iff.mp hp with ⟨hpl, hpc⟩
  rw [List.perm_iff_count]
  intro a
  have hp' : p < (l.set i c).length := by simpa using hpl
  rw [List.count_set hp', List.count_set hi, List.count_set hi]
  have h1 : (l.set i c)[p] = c := by
    rw [List.getElem_set_ne (by omega)]; exact hpc
  rw [h1]
  have h2 : (if (l[i] == a) = true then 1 else 0) ≤ l.count a := by
    split
    · rename_i h
      have : l[i] = a := by simpa using h
      have hm : a ∈ l := this ▸ List.getElem_mem hi
      exact List.count_pos_iff.mpr hm
    · omega
  omega

theorem lt_some (q : Q) {i j : Nat} (hi : i < q.activity.length) (hj : j < q.activity.length) :
    ∃ b, lt q i j = some b := by
  unfold lt
  rw [List.getElem?_eq_getElem hi, List.getElem?_eq_getElem hj]
  exact ⟨_, rfl⟩

theorem move_spec {q : Q} {i j x c : Nat} (h : HInv q i x) (hj : q.content[j]? = some c) (hne : j ≠ i) :
    ∃ q', move q i j = some q' ∧ HInv q' j x ∧ q'.activity = q.activity ∧
      q'.indices.length = q.indices.length ∧ q'.content = q.content.set i c := by
  have hjl : j < q.content.length := (List.getElem?_eq_some_iff.mp hj).1
  have hc := h.bnd c (List.mem_of_getElem? hj)
  refine ⟨{ q with content := q.content.set i c, indices := q.indices.set c (i : Int) }, ?_, ?_, rfl, by simp, rfl⟩
  · unfold move; rw [hj]; simp [h.hi, hc.1]
  · refine ⟨by simpa using hjl, ?_, ?_, by simpa using h.xb⟩
    · intro n k hn hk h0
      simp only [List.getElem?_set] at hk
      by_cases hcn : c = n
      · subst hcn
        simp [hc.1] at hk
        subst hk
        simp only [Int.toNat_natCast]
        refine ⟨fun e => hne e.symm, ?_⟩
        simp [h.hi]
      · simp [hcn] at hk
        have := h.idx n k hn hk h0
        refine ⟨?_, ?_⟩
        · intro e
          rw [e, hj] at this
          exact hcn (Option.some.inj this.2)
        · simp only [List.getElem?_set]
          rw [if_neg (fun e => this.1 e.symm)]
          exact this.2
    · intro y hy
      simp only [List.length_set]
      rcases List.mem_or_eq_of_mem_set hy with hy | hy
      · exact h.bnd y hy
      · exact hy ▸ hc

theorem place_spec {q : Q} {i x : Nat} (h : HInv q i x) :
    ∃ q', place q i x = some q' ∧ Res q (q.content.set i x) q' := by
  refine ⟨{ q with content := q.content.set i x, indices := q.indices.set x (i : Int) }, ?_, ?_, rfl, by simp, List.Perm.refl _⟩
  · unfold place; simp [h.hi, h.xb.1]
  · refine ⟨?_, ?_⟩
    · intro n k hk h0
      simp only [List.getElem?_set] at hk
      by_cases hxn : x = n
      · subst hxn
        simp [h.xb.1] at hk
        subst hk
        simp [h.hi]
      · simp [hxn] at hk
        have := h.idx n k (fun e => hxn e.symm) hk h0
        simp only [List.getElem?_set]
        rw [if_neg (fun e => this.1 e.symm)]
        exact this.2
    · intro y hy
      simp only [List.length_set]
      rcases List.mem_or_eq_of_mem_set hy with hy | hy
      · exact h.bnd y hy
      · exact hy ▸ h.xb

/-! ## percolateUp / percolateDown: no panic, invariant, same multiset -/

theorem upLoop_spec : ∀ (f : Nat) (q : Q) (x i : Nat), HInv q i x →
    ∃ q', upLoop f q x i = some q' ∧ Res q (q.content.set i x) q' := by
  intro f
  induction f with
  | zero => intro q x i h; exact place_spec h
  | succ f ih =>
    intro q x i h
    unfold upLoop
    by_cases hi0 : i = 0
    · rw [if_pos hi0]; exact place_spec h
    · rw [if_neg hi0]
      have hp : (i - 1) / 2 < q.content.length := by have := h.hi; omega
      have hpne : (i - 1) / 2 ≠ i := by omega
      have hcp : q.content[(i - 1) / 2]? = some (q.content[(i - 1) / 2]) := List.getElem?_eq_getElem hp
      rw [hcp]
      simp only []
      have hcb := h.bnd _ (List.getElem_mem hp)
      rcases lt_some q h.xb.2 hcb.2 with ⟨b, hb⟩
      rw [hb]
      cases b with
      | false => exact place_spec h
      | true =>
        rcases move_spec h hcp hpne with ⟨q1, hm, hh, ha, hl, hc⟩
        rw [hm]
        rcases ih q1 x _ hh with ⟨q', hq', r⟩
        refine ⟨q', hq', r.inv, r.act.trans ha, r.len.trans hl, ?_⟩
        refine r.perm.trans ?_
        rw [hc]
        exact swap_perm h.hi hcp hpne

theorem percolateUp_spec {q : Q} {i : Nat} (h : QInv q) (hi : i < q.content.length) :
    ∃ q', percolateUp q i = some q' ∧ Res q q.content q' := by
  have hx : q.content[i]? = some q.content[i] := List.getElem?_eq_getElem hi
  unfold percolateUp
  rw [hx]
  rcases upLoop_spec i q _ i (hinv_of_qinv h hx) with ⟨q', hq', r⟩
  refine ⟨q', hq', r.inv, r.act, r.len, ?_⟩
  have := r.perm
  rwa [List.set_getElem_self] at this

theorem pickChild_spec {q : Q} {i : Nat}
    (hb : ∀ y, y ∈ q.content → y < q.indices.length ∧ y < q.activity.length)
    (hl : 2 * i + 1 < q.content.length) :
    ∃ child, pickChild q i = some child ∧ i < child ∧ child < q.content.length := by
  unfold pickChild
  by_cases hr : 2 * i + 2 < q.content.length
  · rw [if_pos hr, List.getElem?_eq_getElem hr, List.getElem?_eq_getElem hl]
    simp only []
    rcases lt_some q (hb _ (List.getElem_mem hr)).2 (hb _ (List.getElem_mem hl)).2 with ⟨b, hb'⟩
    rw [hb']
    simp only []
    cases b
    · exact ⟨2 * i + 1, by simp, by omega, hl⟩
    · exact ⟨2 * i + 2, by simp, by omega, hr⟩
  · rw [if_neg hr]
    exact ⟨_, rfl, by omega, hl⟩

theorem downLoop_spec : ∀ (f : Nat) (q : Q) (x i : Nat), HInv q i x →
    ∃ q', downLoop f q x i = some q' ∧ Res q (q.content.set i x) q' := by
  intro f
  induction f with
  | zero => intro q x i h; exact place_spec h
  | succ f ih =>
    intro q x i h
    unfold downLoop
    by_cases hl : 2 * i + 1 < q.content.length
    · rw [if_pos hl]
      rcases pickChild_spec h.bnd hl with ⟨child, hpc, hci, hcl⟩
      rw [hpc]
      simp only []
      have hcc : q.content[child]? = some (q.content[child]) := List.getElem?_eq_getElem hcl
      rw [hcc]
      simp only []
      have hcb := h.bnd _ (List.getElem_mem hcl)
      rcases lt_some q hcb.2 h.xb.2 with ⟨b, hb⟩
      rw [hb]
      cases b with
      | false => exact place_spec h
      | true =>
        have hne : child ≠ i := by omega
        rcases move_spec h hcc hne with ⟨q1, hm, hh, ha, hl1, hc⟩
        rw [hm]
        rcases ih q1 x _ hh with ⟨q', hq', r⟩
        refine ⟨q', hq', r.inv, r.act.trans ha, r.len.trans hl1, ?_⟩
        refine r.perm.trans ?_
        rw [hc]
        exact swap_perm h.hi hcc hne
    · rw [if_neg hl]; exact place_spec h

theorem percolateDown_spec {q : Q} {i : Nat} (h : QInv q) (hi : i < q.content.length) :
    ∃ q', percolateDown q i = some q' ∧ Res q q.content q' := by
  have hx : q.content[i]? = some q.content[i] := List.getElem?_eq_getElem hi
  unfold percolateDown
  rw [hx]
  rcases downLoop_spec (q.content.length - i) q _ i (hinv_of_qinv h hx) with ⟨q', hq', r⟩
  refine ⟨q', hq', r.inv, r.act, r.len, ?_⟩
  have := r.perm
  rwa [List.set_getElem_self] at this

/-! ## contains / decrease / bump -/

theorem contains_iff {q : Q} {n : Nat} : contains q n = true ↔ ∃ k, q.indices[n]? = some k ∧ 0 ≤ k := by
  unfold contains
  cases h : q.indices[n]? with
  | none => simp
  | some k => simp

/-- `contains` is sound: a variable reported as contained occurs in `content`. (The converse fails:
    `removeMin` sets the index of the value it returns to `-1` even if another copy stays.) -/
theorem contains_mem {q : Q} {n : Nat} (h : QInv q) (hc : contains q n = true) : n ∈ q.content := by
  rcases contains_iff.mp hc with ⟨k, hk, h0⟩
  exact List.mem_of_getElem? (h.idx n k hk h0)

/-- `decrease n` under its precondition `contains n`. -/
theorem decrease_spec {q : Q} {n : Nat} (h : QInv q) (hc : contains q n = true) :
    ∃ q', decrease q n = some q' ∧ Res q q.content q' := by
  rcases contains_iff.mp hc with ⟨k, hk, h0⟩
  have hlt : k.toNat < q.content.length := (List.getElem?_eq_some_iff.mp (h.idx n k hk h0)).1
  unfold decrease
  rw [hk]
  simp only []
  rw [if_neg (by omega)]
  exact percolateUp_spec h hlt

theorem qinv_setActivity {q : Q} (h : QInv q) (n : Nat) (a : Int) :
    QInv { q with activity := q.activity.set n a } :=
  ⟨h.idx, fun y hy => by simpa using h.bnd y hy⟩

/-- The queue part of `varBumpActivity` (precondition: `n < len(activity)`), whatever the new activity. -/
theorem bump_spec {q : Q} {n : Nat} (a : Int) (h : QInv q) (hn : n < q.activity.length) :
    ∃ q', bump q n a = some q' ∧ QInv q' ∧ q'.activity = q.activity.set n a ∧
      q'.indices.length = q.indices.length ∧ q'.content.Perm q.content := by
  unfold bump
  rw [if_pos hn]
  simp only []
  split
  · rename_i hc
    rcases decrease_spec (qinv_setActivity h n a) hc with ⟨q', hq', r⟩
    exact ⟨q', hq', r.inv, r.act, r.len, r.perm⟩
  · exact ⟨_, rfl, qinv_setActivity h n a, rfl, rfl, List.Perm.refl _⟩

/-! ## insert -/

theorem grow_length (ind : List Int) (n : Nat) : (grow ind n).length = max ind.length (n + 1) := by
  unfold grow; simp; omega

theorem grow_get {ind : List Int} {n m : Nat} {k : Int} (h : (grow ind n)[m]? = some k) (h0 : 0 ≤ k) :
    ind[m]? = some k := by
  unfold grow at h
  by_cases hm : m < ind.length
  · rwa [List.getElem?_append_left hm] at h
  · rw [List.getElem?_append_right (by omega), List.getElem?_replicate] at h
    split at h
    · have := Option.some.inj h; omega
    · cases h

/-- `insert n` under its precondition `n < len(activity)`: no panic, invariant, `n` is added. -/
theorem insert_spec {q : Q} {n : Nat} (h : QInv q) (hn : n < q.activity.length) :
    ∃ q', insert q n = some q' ∧ QInv q' ∧ q'.activity = q.activity ∧
      q'.indices.length = max q.indices.length (n + 1) ∧ q'.content.Perm (q.content ++ [n]) := by
  have hgl := grow_length q.indices n
  have hq1 : QInv { q with indices := (grow q.indices n).set n (q.content.length : Int),
                           content := q.content ++ [n] } := by
    refine ⟨?_, ?_⟩
    · intro m k hk h0
      simp only [List.getElem?_set] at hk
      by_cases hnm : n = m
      · subst hnm
        rw [if_pos rfl, if_pos (by omega)] at hk
        have := Option.some.inj hk
        subst this
        simp
      · rw [if_neg hnm] at hk
        have := h.idx m k (grow_get hk h0) h0
        have hlt := (List.getElem?_eq_some_iff.mp this).1
        simp only []
        rw [List.getElem?_append_left hlt]
        exact this
    · intro y hy
      simp only [List.length_set, hgl]
      rcases List.mem_append.mp hy with hy | hy
      · have := h.bnd y hy
        exact ⟨by omega, this.2⟩
      · have : y = n := by simpa using hy
        subst this
        exact ⟨by omega, hn⟩
  unfold insert
  rcases percolateUp_spec hq1 (i := q.content.length) (by simp) with ⟨q', hq', r⟩
  refine ⟨q', hq', r.inv, r.act, ?_, r.perm⟩
  rw [r.len]
  simp [hgl]

theorem insertAll_spec : ∀ (ns : List Nat) (q : Q), QInv q → (∀ n ∈ ns, n < q.activity.length) →
    ∃ q', insertAll q ns = some q' ∧ QInv q' ∧ q'.activity = q.activity ∧
      q.indices.length ≤ q'.indices.length ∧ (∀ n ∈ ns, n < q'.indices.length) ∧
      q'.content.Perm (q.content ++ ns) := by
  intro ns
  induction ns with
  | nil => intro q h _; exact ⟨q, rfl, h, rfl, Nat.le_refl _, by simp, by simp⟩
  | cons n ns ih =>
    intro q h hb
    rcases insert_spec h (hb n (by simp)) with ⟨q1, h1, i1, a1, l1, p1⟩
    rcases ih q1 i1 (fun m hm => a1 ▸ hb m (by simp [hm])) with ⟨q', h2, i2, a2, l2, b2, p2⟩
    refine ⟨q', ?_, i2, a2.trans a1, by omega, ?_, ?_⟩
    · unfold insertAll; rw [h1]; exact h2
    · intro m hm
      rcases List.mem_cons.mp hm with hm | hm
      · subst hm; omega
      · exact b2 m hm
    · refine p2.trans ?_
      have := p1.append_right ns
      simpa using this

theorem qinv_nil (acts : List Int) : QInv ⟨acts, [], []⟩ :=
  ⟨fun n k hk _ => by simp at hk, fun y hy => by simp at hy⟩

/-- `newQueue` never panics; its content is a permutation of `0 … n-1`. -/
theorem newQueue_spec (acts : List Int) :
    ∃ q, newQueue acts = some q ∧ QInv q ∧ q.activity = acts ∧ q.indices.length = acts.length ∧
      q.content.Perm (List.range acts.length) := by
  rcases insertAll_spec (List.range acts.length) ⟨acts, [], []⟩ (qinv_nil acts)
    (fun n hn => by simpa using hn) with ⟨q, hq, hi, ha, _, hb, hp⟩
  refine ⟨q, hq, hi, ha, ?_, by simpa using hp⟩
  have hle : q.indices.length ≤ acts.length := by
    -- every index entry is reachable only through `grow`, which never goes beyond `n+1`
    clear hb
    suffices ∀ (ns : List Nat) (q0 q1 : Q) (m : Nat), (∀ n ∈ ns, n < m) → q0.indices.length ≤ m →
        QInv q0 → (∀ n ∈ ns, n < q0.activity.length) → insertAll q0 ns = some q1 → q1.indices.length ≤ m from
      this _ _ _ acts.length (fun n hn => by simpa using hn) (by simp) (qinv_nil acts)
        (fun n hn => by simpa using hn) hq
    intro ns
    induction ns with
    | nil => intro q0 q1 m _ h0 _ _ he; simp [insertAll] at he; subst he; exact h0
    | cons n ns ih =>
      intro q0 q1 m hb h0 hi0 ha0 he
      rcases insert_spec hi0 (ha0 n (by simp)) with ⟨q2, h2, i2, a2, l2, _⟩
      unfold insertAll at he
      rw [h2] at he
      have hnm := hb n (by simp)
      exact ih q2 q1 m (fun k hk => hb k (by simp [hk])) (by omega) i2
        (fun k hk => a2 ▸ ha0 k (by simp [hk])) he
  cases hlen : acts.length with
  | zero => omega
  | succ k =>
    have := hb k (by simp [hlen])
    omega

/-! ## removeMin -/

theorem take_set_perm {l : List Nat} {x y : Nat} (h0 : l[0]? = some x) (hl : l[l.length - 1]? = some y) :
    l.Perm (x :: (l.set 0 y).take (l.length - 1)) := by
  have hne : l ≠ [] := by intro e; subst e; simp at h0
  have hd : l.dropLast ++ [y] = l := by
    have := List.dropLast_concat_getLast hne
    rw [List.getLast_eq_getElem hne] at this
    have hy : l[l.length - 1]'(by have := List.length_pos_iff.mpr hne; omega) = y := by
      rcases List.getElem?_eq_some_iff.mp hl with ⟨_, e⟩; exact e
    rwa [hy] at this
  generalize l.dropLast = d at hd
  subst hd
  cases d with
  | nil =>
    have : y = x := by simpa using h0
    subst this
    simp
  | cons x' m =>
    have : x' = x := by simpa using h0
    subst this
    simp only [List.cons_append, List.set_cons_zero, List.length_cons, List.length_append, List.length_nil,
      Nat.add_sub_cancel, List.take_succ_cons]
    rw [List.take_left']
    · refine List.Perm.cons _ ?_
      exact List.perm_append_comm
    · rfl

/-- `removeMin` under its precondition (non-empty): no panic; it returns the root `x` of the heap and
    removes exactly ONE occurrence of `x` from the content. -/
theorem removeMin_spec {q : Q} (h : QInv q) (hne : q.content ≠ []) :
    ∃ q' x, removeMin q = some (q', x) ∧ q.content[0]? = some x ∧ QInv q' ∧ q'.activity = q.activity ∧
      q'.indices.length = q.indices.length ∧ q.content.Perm (x :: q'.content) := by
  have hL : 0 < q.content.length := List.length_pos_iff.mpr hne
  have hx : q.content[0]? = some q.content[0] := List.getElem?_eq_getElem hL
  have hlast : q.content.length - 1 < q.content.length := by omega
  have hy : q.content[q.content.length - 1]? = some (q.content[q.content.length - 1]) :=
    List.getElem?_eq_getElem hlast
  generalize hxe : q.content[0] = x at hx
  generalize hye : q.content[q.content.length - 1] = y at hy
  have hxb := h.bnd x (List.mem_of_getElem? hx)
  have hyb := h.bnd y (List.mem_of_getElem? hy)
  have hq2 : QInv { q with content := (q.content.set 0 y).take (q.content.length - 1),
                           indices := (q.indices.set y 0).set x (-1) } := by
    refine ⟨?_, ?_⟩
    · intro n k hk h0
      simp only [List.getElem?_set, List.length_set] at hk
      by_cases hxn : x = n
      · rw [if_pos hxn, if_pos hxb.1] at hk
        have := Option.some.inj hk; omega
      · rw [if_neg hxn] at hk
        simp only [List.getElem?_take, List.getElem?_set]
        by_cases hyn : y = n
        · rw [if_pos hyn, if_pos hyb.1] at hk
          have hk0 : k = 0 := (Option.some.inj hk).symm
          subst hk0
          have : 0 < q.content.length - 1 := by
            rcases Nat.lt_or_ge 0 (q.content.length - 1) with h1 | h1
            · exact h1
            · exfalso
              have e : q.content.length - 1 = 0 := by omega
              rw [e, hx] at hy
              exact hxn ((Option.some.inj hy).trans hyn)
          simp [this, hL, hyn]
        · rw [if_neg hyn] at hk
          have hc := h.idx n k hk h0
          have hlt := (List.getElem?_eq_some_iff.mp hc).1
          have hk0 : k.toNat ≠ 0 := by
            intro e; rw [e, hx] at hc; exact hxn (Option.some.inj hc)
          have hkl : k.toNat ≠ q.content.length - 1 := by
            intro e; rw [e, hy] at hc; exact hyn (Option.some.inj hc)
          rw [if_pos (by omega), if_neg (fun e => hk0 e.symm)]
          exact hc
    · intro z hz
      simp only [List.length_set]
      rcases List.mem_or_eq_of_mem_set (List.mem_of_mem_take hz) with hz | hz
      · exact h.bnd z hz
      · exact hz ▸ hyb
  have hperm := take_set_perm hx hy
  unfold removeMin
  rw [hx]
  simp only []
  rw [hy]
  simp only []
  rw [if_pos hyb.1, if_pos hxb.1]
  split
  · rename_i hgt
    rcases percolateDown_spec hq2 (i := 0) (Nat.lt_trans Nat.zero_lt_one hgt) with ⟨q3, hq3, r⟩
    refine ⟨q3, x, by rw [hq3]; rfl, rfl, r.inv, r.act, ?_, ?_⟩
    · rw [r.len]; simp
    · exact hperm.trans (List.Perm.cons _ r.perm.symm)
  · exact ⟨_, x, rfl, rfl, hq2, rfl, by simp, hperm⟩

/-! ## chooseLit — THE MAIN THEOREM -/

theorem chooseLoop_spec : ∀ (f : Nat) (q : Q) (model : List Int), QInv q → q.content.length ≤ f →
    (∀ x ∈ q.content, x < model.length) →
    ∃ q' r, chooseLoop f q model = some (q', r) ∧ QInv q' ∧ q'.activity = q.activity ∧
      q'.indices.length = q.indices.length ∧ (∀ u ∈ q'.content, u ∈ q.content) ∧
      (∀ v, r = some v → model[v]? = some 0 ∧ v ∈ q.content ∧
          ∀ u ∈ q.content, model[u]? = some 0 → u ≠ v → u ∈ q'.content) ∧
      (r = none → q'.content = [] ∧ ∀ u ∈ q.content, model[u]? ≠ some 0) := by
  intro f
  induction f with
  | zero =>
    intro q model h hl _
    have : q.content = [] := List.length_eq_zero_iff.mp (by omega)
    exact ⟨q, none, rfl, h, rfl, rfl, fun u hu => hu, (fun v hv => nomatch hv),
      fun _ => ⟨this, fun u hu => by simp [this] at hu⟩⟩
  | succ f ih =>
    intro q model h hl hm
    unfold chooseLoop
    by_cases he : empty q = true
    · rw [if_pos he]
      have : q.content = [] := by simpa [empty] using he
      exact ⟨q, none, rfl, h, rfl, rfl, fun u hu => hu, (fun v hv => nomatch hv),
        fun _ => ⟨this, fun u hu => by simp [this] at hu⟩⟩
    · rw [if_neg he]
      have hne : q.content ≠ [] := by simpa [empty] using he
      rcases removeMin_spec h hne with ⟨q1, x, hr, hx0, hi1, ha1, hl1, hp1⟩
      rw [hr]
      simp only []
      have hxm : x ∈ q.content := List.mem_of_getElem? hx0
      have hmx : model[x]? = some (model[x]'(hm x hxm)) := List.getElem?_eq_getElem (hm x hxm)
      generalize (model[x]'(hm x hxm)) = mx at hmx
      rw [hmx]
      simp only []
      have hsub : ∀ u ∈ q1.content, u ∈ q.content := fun u hu => hp1.mem_iff.mpr (List.mem_cons_of_mem _ hu)
      by_cases hz : mx = 0
      · rw [if_pos hz]
        refine ⟨q1, some x, rfl, hi1, ha1, hl1, hsub, ?_, fun e => by cases e⟩
        intro v hv
        cases hv
        refine ⟨by rw [hmx, hz], hxm, ?_⟩
        intro u hu _ hux
        rcases List.mem_cons.mp (hp1.mem_iff.mp hu) with e | e
        · exact absurd e hux
        · exact e
      · rw [if_neg hz]
        have hlen : q1.content.length ≤ f := by
          have := hp1.length_eq; simp at this; omega
        rcases ih q1 model hi1 hlen (fun u hu => hm u (hsub u hu)) with ⟨q', r, hc, hi', ha', hl', hs', hsome, hnone⟩
        refine ⟨q', r, hc, hi', ha'.trans ha1, hl'.trans hl1, fun u hu => hsub u (hs' u hu), ?_, ?_⟩
        · intro v hv
          rcases hsome v hv with ⟨h1, h2, h3⟩
          refine ⟨h1, hsub v h2, ?_⟩
          intro u hu hu0 huv
          rcases List.mem_cons.mp (hp1.mem_iff.mp hu) with e | e
          · exfalso
            rw [e, hmx] at hu0
            exact hz (Option.some.inj hu0)
          · exact h3 u e hu0 huv
        · intro hr'
          rcases hnone hr' with ⟨h1, h2⟩
          refine ⟨h1, ?_⟩
          intro u hu
          rcases List.mem_cons.mp (hp1.mem_iff.mp hu) with e | e
          · rw [e, hmx]; intro e'; exact hz (Option.some.inj e')
          · exact h2 u e

/-- "Every unbound variable occurs in content": `v < nbVars`, `model[v] = 0` ⟹ `v ∈ content`. -/
def Covers (q : Q) (nbVars : Nat) (model : List Int) : Prop :=
  ∀ v, v < nbVars → model[v]? = some 0 → v ∈ q.content

/-- MAIN THEOREM. Under `QInv`, "content only names variables of the model" and "every unbound
    variable occurs in content", the loop of `chooseLit`
    * never panics;
    * answers a variable `v` only if `v` is unbound, and does answer one whenever some variable
      `< nbVars` is unbound;
    * answers "no variable" (`-1`) only if every variable `< nbVars` is bound (and then the queue is empty);
    * leaves a queue satisfying `QInv` in which every unbound variable other than the chosen one still occurs. -/
theorem chooseLit_complete (q : Q) (nbVars : Nat) (model : List Int) (h : QInv q)
    (hm : ∀ x ∈ q.content, x < model.length) (hcov : Covers q nbVars model) :
    ∃ q' r, chooseLit q model = some (q', r) ∧ QInv q' ∧ q'.activity = q.activity ∧
      q'.indices.length = q.indices.length ∧ (∀ x ∈ q'.content, x < model.length) ∧
      (∀ v, r = some v → model[v]? = some 0 ∧
          ∀ u, u < nbVars → model[u]? = some 0 → u ≠ v → u ∈ q'.content) ∧
      (r = none → q'.content = [] ∧ ∀ u, u < nbVars → model[u]? ≠ some 0) ∧
      ((∃ u, u < nbVars ∧ model[u]? = some 0) → ∃ v, r = some v) := by
  rcases chooseLoop_spec q.content.length q model h (Nat.le_refl _) hm with ⟨q', r, hc, hi, ha, hl, hs, hsome, hnone⟩
  refine ⟨q', r, hc, hi, ha, hl, fun x hx => hm x (hs x hx), ?_, ?_, ?_⟩
  · intro v hv
    rcases hsome v hv with ⟨h1, _, h3⟩
    exact ⟨h1, fun u hu hu0 huv => h3 u (hcov u hu hu0) hu0 huv⟩
  · intro hr
    rcases hnone hr with ⟨h1, h2⟩
    exact ⟨h1, fun u hu hu0 => h2 u (hcov u hu hu0) hu0⟩
  · rintro ⟨u, hu, hu0⟩
    cases r with
    | some v => exact ⟨v, rfl⟩
    | none => exact absurd hu0 ((hnone rfl).2 u (hcov u hu hu0))

/-- After the chosen variable is bound (`model'` = `model` with a non-zero level at `v`), every unbound
    variable occurs in content again: the loop invariant of the search. -/
theorem chooseLit_covers_after {q' : Q} {nbVars : Nat} {model : List Int} {v : Nat} {lvl : Int}
    (hafter : ∀ u, u < nbVars → model[u]? = some 0 → u ≠ v → u ∈ q'.content) (hl : lvl ≠ 0) :
    Covers q' nbVars (model.set v lvl) := by
  intro u hu hu0
  rw [List.getElem?_set] at hu0
  by_cases e : v = u
  · rw [if_pos e] at hu0
    split at hu0
    · exact absurd (Option.some.inj hu0) hl
    · cases hu0
  · rw [if_neg e] at hu0
    exact hafter u hu hu0 (fun e' => e e'.symm)

/-! ## cleanupBindings re-establishes "every unbound variable occurs in content" -/

theorem cleanupLoop_spec : ∀ (vs : List Nat) (q : Q) (toIns : List Nat), QInv q →
    (∀ v ∈ vs, v < q.activity.length) →
    ∃ q' t, cleanupLoop q vs toIns = some (q', toIns ++ t) ∧ QInv q' ∧ q'.activity = q.activity ∧
      q.indices.length ≤ q'.indices.length ∧ q'.content.Perm (q.content ++ t) ∧
      (∀ v ∈ t, v ∈ vs) ∧ (∀ v ∈ vs, v ∈ q'.content) := by
  intro vs
  induction vs with
  | nil =>
    intro q toIns h _
    exact ⟨q, [], by simp [cleanupLoop], h, rfl, Nat.le_refl _, by simp, by simp, by simp⟩
  | cons v vs ih =>
    intro q toIns h hb
    unfold cleanupLoop
    by_cases hc : contains q v = true
    · rw [if_pos hc]
      rcases ih q toIns h (fun u hu => hb u (by simp [hu])) with ⟨q', t, he, hi, ha, hl, hp, ht, hv⟩
      refine ⟨q', t, he, hi, ha, hl, hp, fun u hu => by simp [ht u hu], ?_⟩
      intro u hu
      rcases List.mem_cons.mp hu with e | e
      · subst e
        exact hp.mem_iff.mpr (List.mem_append_left _ (contains_mem h hc))
      · exact hv u e
    · rw [if_neg hc]
      rcases insert_spec h (hb v (by simp)) with ⟨q1, h1, i1, a1, l1, p1⟩
      rw [h1]
      simp only []
      rcases ih q1 (toIns ++ [v]) i1 (fun u hu => a1 ▸ hb u (by simp [hu])) with ⟨q', t, he, hi, ha, hl, hp, ht, hv⟩
      refine ⟨q', v :: t, by simpa using he, hi, ha.trans a1, by omega, ?_, ?_, ?_⟩
      · refine hp.trans ?_
        have := p1.append_right t
        simpa using this
      · intro u hu
        rcases List.mem_cons.mp hu with e | e
        · simp [e]
        · simp [ht u e]
      · intro u hu
        rcases List.mem_cons.mp hu with e | e
        · subst e
          refine hp.mem_iff.mpr (List.mem_append_left _ (p1.mem_iff.mpr ?_))
          simp
        · exact hv u e

/-- Both loops of `cleanupBindings` (precondition: the trail variables are `< len(activity)`): no panic,
    invariant; every variable that was not contained is inserted TWICE (`t ++ t.reverse`); all trail
    variables occur in content afterwards and nothing is lost. -/
theorem cleanup_spec {q : Q} {vs : List Nat} (h : QInv q) (hb : ∀ v ∈ vs, v < q.activity.length) :
    ∃ q' t, cleanup q vs = some q' ∧ QInv q' ∧ q'.activity = q.activity ∧
      q'.content.Perm (q.content ++ (t ++ t.reverse)) ∧ (∀ v ∈ t, v ∈ vs) ∧
      (∀ v ∈ vs, v ∈ q'.content) ∧ (∀ x ∈ q.content, x ∈ q'.content) := by
  rcases cleanupLoop_spec vs q [] h hb with ⟨q1, t, he, h1, a1, _, p1, ht, hv⟩
  rcases insertAll_spec t.reverse q1 h1 (fun n hn => a1 ▸ hb n (ht n (by simpa using hn)))
    with ⟨q', h2, i2, a2, _, _, p2⟩
  have hp : q'.content.Perm (q.content ++ (t ++ t.reverse)) := by
    refine p2.trans ?_
    have := p1.append_right t.reverse
    simpa [List.append_assoc] using this
  refine ⟨q', t, ?_, i2, a2.trans a1, hp, ht, ?_, ?_⟩
  · unfold cleanup; rw [he]; simpa using h2
  · intro v hv'
    exact p2.mem_iff.mpr (List.mem_append_left _ (hv v hv'))
  · intro x hx
    exact hp.mem_iff.mpr (List.mem_append_left _ hx)

/-- `cleanupBindings` re-establishes the coverage: if the variables that become unbound are among the
    trail variables `vs` given to the loop, every unbound variable occurs in content afterwards. -/
theorem cleanup_covers {q : Q} {vs : List Nat} {nbVars : Nat} {model model' : List Int}
    (h : QInv q) (hb : ∀ v ∈ vs, v < q.activity.length) (hcov : Covers q nbVars model)
    (hmod : ∀ u, model'[u]? = some 0 → model[u]? = some 0 ∨ u ∈ vs) :
    ∃ q', cleanup q vs = some q' ∧ QInv q' ∧ q'.activity = q.activity ∧ Covers q' nbVars model' := by
  rcases cleanup_spec h hb with ⟨q', t, he, hi, ha, _, _, hv, hx⟩
  refine ⟨q', he, hi, ha, ?_⟩
  intro u hu hu0
  rcases hmod u hu0 with e | e
  · exact hx u (hcov u hu e)
  · exact hv u e

/-! ## build / rebuildOrderHeap -/

theorem clearLoop_spec : ∀ (cs : List Nat) (ind : List Int), (∀ c ∈ cs, c < ind.length) →
    ∃ ind', clearLoop cs ind = some ind' ∧ ind'.length = ind.length ∧
      ∀ (m : Nat) (k : Int), ind'[m]? = some k → 0 ≤ k → ind[m]? = some k ∧ m ∉ cs := by
  intro cs
  induction cs with
  | nil => intro ind _; exact ⟨ind, rfl, rfl, fun m k hk _ => ⟨hk, by simp⟩⟩
  | cons c cs ih =>
    intro ind hb
    have hc := hb c (by simp)
    rcases ih (ind.set c (-1)) (fun d hd => by simpa using hb d (by simp [hd])) with ⟨ind', he, hl, hg⟩
    refine ⟨ind', ?_, by simpa using hl, ?_⟩
    · unfold clearLoop; rw [if_pos hc]; exact he
    · intro m k hk h0
      rcases hg m k hk h0 with ⟨h1, h2⟩
      rw [List.getElem?_set] at h1
      by_cases e : c = m
      · rw [if_pos e, if_pos hc] at h1
        have := Option.some.inj h1; omega
      · rw [if_neg e] at h1
        refine ⟨h1, ?_⟩
        intro hm
        rcases List.mem_cons.mp hm with e' | e'
        · exact e e'.symm
        · exact h2 e'

theorem fillLoop_spec : ∀ (vs pre : List Nat) (ind : List Int), (∀ v ∈ vs, v < ind.length) →
    (∀ (m : Nat) (k : Int), ind[m]? = some k → 0 ≤ k → (pre ++ vs)[k.toNat]? = some m) →
    ∃ ind', fillLoop vs pre.length ind = some ind' ∧ ind'.length = ind.length ∧
      ∀ (m : Nat) (k : Int), ind'[m]? = some k → 0 ≤ k → (pre ++ vs)[k.toNat]? = some m := by
  intro vs
  induction vs with
  | nil => intro pre ind _ h; exact ⟨ind, rfl, rfl, h⟩
  | cons v vs ih =>
    intro pre ind hb h
    have hv := hb v (by simp)
    have hpre : pre ++ v :: vs = (pre ++ [v]) ++ vs := by simp
    rcases ih (pre ++ [v]) (ind.set v (pre.length : Int)) (fun d hd => by simpa using hb d (by simp [hd])) (by
      intro m k hk h0
      rw [List.getElem?_set] at hk
      rw [← hpre]
      by_cases e : v = m
      · rw [if_pos e, if_pos hv] at hk
        have := Option.some.inj hk
        subst this
        simp [e]
      · rw [if_neg e] at hk
        exact h m k hk h0) with ⟨ind', he, hl, hg⟩
    refine ⟨ind', ?_, by simpa using hl, ?_⟩
    · unfold fillLoop; rw [if_pos hv]
      have : (pre ++ [v]).length = pre.length + 1 := by simp
      rw [this] at he
      exact he
    · rw [hpre]; exact hg

theorem heapify_spec : ∀ (k : Nat) (q : Q), QInv q → k ≤ q.content.length →
    ∃ q', heapify k q = some q' ∧ Res q q.content q' := by
  intro k
  induction k with
  | zero => intro q h _; exact ⟨q, rfl, h, rfl, rfl, List.Perm.refl _⟩
  | succ k ih =>
    intro q h hk
    rcases percolateDown_spec h (i := k) (by omega) with ⟨q1, h1, r1⟩
    rcases ih q1 r1.inv (by have := r1.perm.length_eq; omega) with ⟨q', h2, r2⟩
    refine ⟨q', ?_, r2.inv, r2.act.trans r1.act, r2.len.trans r1.len, r2.perm.trans r1.perm⟩
    unfold heapify; rw [h1]; exact h2

/-- `build ns` (precondition: every element of `ns` has an entry in `indices` and `activity`): no panic,
    invariant, the content becomes a permutation of `ns` (with its repetitions). -/
theorem build_spec {q : Q} {ns : List Nat} (h : QInv q)
    (hb : ∀ v ∈ ns, v < q.indices.length ∧ v < q.activity.length) :
    ∃ q', build q ns = some q' ∧ Res q ns q' := by
  rcases clearLoop_spec q.content q.indices (fun c hc => (h.bnd c hc).1) with ⟨i1, h1, l1, g1⟩
  rcases fillLoop_spec ns [] i1 (fun v hv => l1 ▸ (hb v hv).1) (by
    intro m k hk h0
    rcases g1 m k hk h0 with ⟨h2, h3⟩
    exact absurd (List.mem_of_getElem? (h.idx m k h2 h0)) h3) with ⟨i2, h2, l2, g2⟩
  have hq1 : QInv { q with content := ns, indices := i2 } :=
    ⟨by simpa using g2, fun y hy => ⟨by simpa [l2, l1] using (hb y hy).1, (hb y hy).2⟩⟩
  rcases heapify_spec (ns.length / 2) _ hq1 (by simp; omega) with ⟨q', h3, r⟩
  refine ⟨q', ?_, r.inv, r.act, ?_, r.perm⟩
  · unfold build; rw [h1]; simp only []
    have : fillLoop ns 0 i1 = some i2 := h2
    rw [this]; exact h3
  · rw [r.len]; simp [l2, l1]

theorem rebuildLoop_spec : ∀ (vs : List Nat) (model : List Int) (acc : List Nat),
    (∀ v ∈ vs, v < model.length) →
    rebuildLoop vs model acc = some (acc ++ vs.filter (fun v => model[v]? == some 0)) := by
  intro vs
  induction vs with
  | nil => intro model acc _; simp [rebuildLoop]
  | cons v vs ih =>
    intro model acc hb
    have hv := hb v (by simp)
    unfold rebuildLoop
    rw [List.getElem?_eq_getElem hv]
    simp only []
    rw [ih model _ (fun u hu => hb u (by simp [hu]))]
    by_cases hz : model[v] = 0
    · simp [hz, List.getElem?_eq_getElem hv]
    · simp [hz, List.getElem?_eq_getElem hv]

/-- `rebuildOrderHeap` (precondition: `nbVars` does not exceed the lengths of `model`, `indices`,
    `activity`): no panic, invariant; the content is a permutation of `nbVars` zeros followed by the
    unbound variables (sic), so every unbound variable occurs in content. -/
theorem rebuildOrderHeap_spec {q : Q} {nbVars : Nat} {model : List Int} (h : QInv q)
    (hm : nbVars ≤ model.length) (hi : nbVars ≤ q.indices.length) (ha : nbVars ≤ q.activity.length) :
    ∃ q', rebuildOrderHeap q nbVars model = some q' ∧
      Res q (List.replicate nbVars 0 ++ (List.range nbVars).filter (fun v => model[v]? == some 0)) q' ∧
      Covers q' nbVars model := by
  have hl := rebuildLoop_spec (List.range nbVars) model (List.replicate nbVars 0)
    (fun v hv => by have := List.mem_range.mp hv; omega)
  have hb : ∀ v ∈ List.replicate nbVars 0 ++ (List.range nbVars).filter (fun v => model[v]? == some 0),
      v < q.indices.length ∧ v < q.activity.length := by
    intro v hv
    rcases List.mem_append.mp hv with e | e
    · rcases List.mem_replicate.mp e with ⟨e1, e2⟩
      subst e2; omega
    · have := List.mem_range.mp (List.mem_filter.mp e).1; omega
  rcases build_spec h hb with ⟨q', hq', r⟩
  refine ⟨q', ?_, r, ?_⟩
  · unfold rebuildOrderHeap; rw [hl]; exact hq'
  · intro v hv hv0
    refine r.perm.mem_iff.mpr (List.mem_append_right _ (List.mem_filter.mpr ⟨List.mem_range.mpr hv, ?_⟩))
    simp [hv0]

/-! ## The fuel given by the callers suffices -/

/-- Any fuel `≥ i` gives the same result as the fuel `i` used by `percolateUp`: the fuel-exhausted
    branch is only ever taken with `i = 0`, where the Go loop stops too. -/
theorem upLoop_fuel : ∀ (f g : Nat) (q : Q) (x i : Nat), i ≤ f → i ≤ g → upLoop f q x i = upLoop g q x i := by
  intro f
  induction f with
  | zero =>
    intro g q x i hf _
    have : i = 0 := by omega
    subst this
    cases g <;> simp [upLoop]
  | succ f ih =>
    intro g q x i hf hg
    cases g with
    | zero =>
      have : i = 0 := by omega
      subst this
      simp [upLoop]
    | succ g =>
      unfold upLoop
      by_cases hi0 : i = 0
      · simp [hi0]
      · simp only [if_neg hi0]
        cases q.content[(i - 1) / 2]? with
        | none => rfl
        | some cp =>
          simp only []
          cases lt q x cp with
          | none => rfl
          | some b =>
            cases b with
            | false => rfl
            | true =>
              simp only []
              cases move q i ((i - 1) / 2) with
              | none => rfl
              | some q' => exact ih g q' x _ (by omega) (by omega)

theorem move_length {q q' : Q} {i j : Nat} (h : move q i j = some q') : q'.content.length = q.content.length := by
  unfold move at h
  split at h
  · cases h
  · split at h
    · cases h; simp
    · cases h

theorem pickChild_gt {q : Q} {i c : Nat} (h : pickChild q i = some c) : i < c := by
  unfold pickChild at h
  split at h
  · split at h
    · split at h
      · cases h
      · rename_i b _
        cases h
        cases b <;> simp <;> omega
    · cases h
  · cases h; omega

/-- Any fuel `≥ len(content) - i` gives the same result as the fuel used by `percolateDown`: the
    fuel-exhausted branch is only ever taken with `left(i) ≥ len(content)`, where the Go loop stops too. -/
theorem downLoop_fuel : ∀ (f g : Nat) (q : Q) (x i : Nat), q.content.length - i ≤ f → q.content.length - i ≤ g →
    downLoop f q x i = downLoop g q x i := by
  intro f
  induction f with
  | zero =>
    intro g q x i hf _
    have hn : ¬ 2 * i + 1 < q.content.length := by omega
    cases g <;> simp [downLoop, hn]
  | succ f ih =>
    intro g q x i hf hg
    cases g with
    | zero =>
      have hn : ¬ 2 * i + 1 < q.content.length := by omega
      simp [downLoop, hn]
    | succ g =>
      unfold downLoop
      by_cases hl : 2 * i + 1 < q.content.length
      · simp only [if_pos hl]
        cases hpc : pickChild q i with
        | none => rfl
        | some child =>
          have hgt := pickChild_gt hpc
          simp only []
          cases q.content[child]? with
          | none => rfl
          | some cc =>
            simp only []
            cases lt q cc x with
            | none => rfl
            | some b =>
              cases b with
              | false => rfl
              | true =>
                simp only []
                cases hm : move q i child with
                | none => rfl
                | some q' =>
                  have := move_length hm
                  exact ih g q' x _ (by omega) (by omega)
      · simp only [if_neg hl]

/-! ## Reachable states; `content.Nodup` is NOT an invariant of the real code -/

/-- States the solver can reach: `newQueue`, then any operation under its precondition. -/
inductive Reach : Q → Prop
  | new {acts q} : newQueue acts = some q → Reach q
  | insert {q n q'} : Reach q → n < q.activity.length → insert q n = some q' → Reach q'
  | removeMin {q q' x} : Reach q → q.content ≠ [] → removeMin q = some (q', x) → Reach q'
  | bump {q n a q'} : Reach q → n < q.activity.length → bump q n a = some q' → Reach q'
  | build {q ns q'} : Reach q → (∀ v ∈ ns, v < q.indices.length ∧ v < q.activity.length) →
      build q ns = some q' → Reach q'
  | choose {q model q' r} : Reach q → (∀ x ∈ q.content, x < model.length) →
      chooseLit q model = some (q', r) → Reach q'
  | cleanup {q vs q'} : Reach q → (∀ v ∈ vs, v < q.activity.length) → cleanup q vs = some q' → Reach q'

theorem reach_qinv {q : Q} (h : Reach q) : QInv q := by
  induction h with
  | new he =>
    rcases newQueue_spec _ with ⟨q1, h1, i1, _⟩
    rw [h1] at he; cases he; exact i1
  | insert _ hn he ih =>
    rcases insert_spec ih hn with ⟨q1, h1, i1, _⟩
    rw [h1] at he; cases he; exact i1
  | removeMin _ hn he ih =>
    rcases removeMin_spec ih hn with ⟨q1, x1, h1, _, i1, _⟩
    rw [h1] at he; cases he; exact i1
  | bump _ hn he ih =>
    rcases bump_spec _ ih hn with ⟨q1, h1, i1, _⟩
    rw [h1] at he; cases he; exact i1
  | build _ hb he ih =>
    rcases build_spec ih hb with ⟨q1, h1, r⟩
    rw [h1] at he; cases he; exact r.inv
  | choose _ hm he ih =>
    rcases chooseLoop_spec _ _ _ ih (Nat.le_refl _) hm with ⟨q1, r1, h1, i1, _⟩
    unfold chooseLit at he
    rw [h1] at he; cases he; exact i1
  | cleanup _ hb he ih =>
    rcases cleanup_spec ih hb with ⟨q1, t, h1, i1, _⟩
    rw [h1] at he; cases he; exact i1

/-- No operation panics on a reachable state under its precondition (each `_spec` theorem gives the
    `some`); here for the two operations of the search loop. -/
theorem reach_no_panic {q : Q} (h : Reach q) :
    (∀ n, n < q.activity.length → (insert q n).isSome) ∧
    (q.content ≠ [] → (removeMin q).isSome) ∧
    (∀ n a, n < q.activity.length → (bump q n a).isSome) ∧
    (∀ model, (∀ x ∈ q.content, x < model.length) → (chooseLit q model).isSome) ∧
    (∀ vs, (∀ v ∈ vs, v < q.activity.length) → (cleanup q vs).isSome) := by
  have hi := reach_qinv h
  refine ⟨?_, ?_, ?_, ?_, ?_⟩
  · intro n hn; rcases insert_spec hi hn with ⟨_, e, _⟩; simp [e]
  · intro hn; rcases removeMin_spec hi hn with ⟨_, _, e, _⟩; simp [e]
  · intro n a hn; rcases bump_spec a hi hn with ⟨_, e, _⟩; simp [e]
  · intro model hm
    rcases chooseLoop_spec _ _ _ hi (Nat.le_refl _) hm with ⟨_, _, e, _⟩
    simp [chooseLit, e]
  · intro vs hb; rcases cleanup_spec hi hb with ⟨_, _, e, _⟩; simp [e]

def queue_nodup_statement : Prop := ∀ q, Reach q → q.content.Nodup

/-- One variable, decided and then unbound again by `cleanupBindings`: `content = [0, 0]`.
    (Replayed on the Go code: `queue 0 | 2 ; 9 0` answers `ok 0 0 | 1 | 0`.) -/
theorem queue_nodup_statement_false : ¬ queue_nodup_statement := by
  intro h
  have hr : Reach ⟨[0], [0, 0], [1]⟩ := by
    have h0 : Reach ⟨[0], [0], [0]⟩ := Reach.new (acts := [0]) (by decide)
    have h1 : Reach ⟨[0], [], [-1]⟩ := Reach.removeMin (x := 0) h0 (by decide) (by decide)
    exact Reach.cleanup (vs := [0]) h1 (by decide) (by decide)
  exact absurd (h _ hr) (by decide)

/-- The converse of `contains_mem` fails on a reachable state: after `removeMin`, the value returned has index
    `-1` although another copy of it is still in `content`. -/
theorem mem_not_contains_reachable : ∃ q n, Reach q ∧ n ∈ q.content ∧ contains q n = false := by
  refine ⟨⟨[0], [0], [-1]⟩, 0, ?_, by decide, by decide⟩
  have h0 : Reach ⟨[0], [0], [0]⟩ := Reach.new (acts := [0]) (by decide)
  have h1 : Reach ⟨[0], [], [-1]⟩ := Reach.removeMin (x := 0) h0 (by decide) (by decide)
  have h2 : Reach ⟨[0], [0, 0], [1]⟩ := Reach.cleanup (vs := [0]) h1 (by decide) (by decide)
  exact Reach.removeMin (x := 0) h2 (by decide) (by decide)

/-! ## Non-vacuity -/

/-- A reachable state with 4 variables (activities 1 3 2 3) meets the hypotheses of `chooseLit_complete`
    against the model "variables 1 and 3 bound", and the loop picks variable 2. -/
example : ∃ q, newQueue [1, 3, 2, 3] = some q ∧ QInv q ∧ (∀ x ∈ q.content, x < [0, 1, 0, -2].length) ∧
    Covers q 4 [0, 1, 0, -2] ∧ (chooseLit q [0, 1, 0, -2]).map Prod.snd = some (some 2) := by
  rcases newQueue_spec [1, 3, 2, 3] with ⟨q, hq, hi, _, _, hp⟩
  refine ⟨q, hq, hi, ?_, ?_, ?_⟩
  · intro x hx; have := List.mem_range.mp (hp.mem_iff.mp hx); simpa using this
  · intro v hv _; exact hp.mem_iff.mpr (List.mem_range.mpr hv)
  · have : q = ⟨[1, 3, 2, 3], [1, 3, 2, 0], [3, 0, 2, 1]⟩ := by
      have e : newQueue [1, 3, 2, 3] = some ⟨[1, 3, 2, 3], [1, 3, 2, 0], [3, 0, 2, 1]⟩ := by decide
      rw [e] at hq; exact (Option.some.inj hq).symm
    subst this
    decide

example : QInv ⟨[5, 5], [0, 1, 1], [0, 2]⟩ :=
  reach_qinv (Reach.cleanup (vs := [1]) (q := ⟨[5, 5], [0], [0, -1]⟩)
    (Reach.removeMin (x := 0) (q := ⟨[5, 5], [0, 1], [0, 1]⟩) (Reach.new (acts := [5, 5]) (by decide)) (by decide) (by decide)
      |> fun h => Reach.removeMin (x := 1) (q := ⟨[5, 5], [1], [-1, 0]⟩) h (by decide) (by decide)
      |> fun h => Reach.insert (n := 0) (q := ⟨[5, 5], [], [-1, -1]⟩) h (by decide) (by decide))
    (by decide) (by decide))

example : rebuildOrderHeap ⟨[1, 2, 3], [2, 0, 1], [1, 2, 0]⟩ 3 [0, 1, 0]
    = some ⟨[1, 2, 3], [2, 0, 0, 0, 0], [1, -1, 0]⟩ := by decide

/-! ## HEURISTIC PART (never affects answers): heap order. Only `heapOrd_root_max` is proved; the
preservation statements are kept as `def … _statement : Prop` and are NOT proved. -/

/-- Parent not `lt`-after child: `activity[content[parent(j)]] ≥ activity[content[j]]`. -/
def HeapOrd (q : Q) : Prop :=
  ∀ (j c p : Nat), 0 < j → q.content[j]? = some c → q.content[(j - 1) / 2]? = some p → lt q c p = some false

theorem lt_false_trans {q : Q} {a b c : Nat} (h1 : lt q a b = some false) (h2 : lt q b c = some false) :
    lt q a c = some false := by
  unfold lt at *
  cases ha : q.activity[a]? <;> cases hb : q.activity[b]? <;> cases hc : q.activity[c]? <;>
    simp [ha, hb, hc] at h1 h2 ⊢
  omega

/-- Under the heap order the root (the value `removeMin` returns, see `removeMin_spec`) has a maximal activity. -/
theorem heapOrd_root_max {q : Q} {x : Nat} (hb : ∀ y ∈ q.content, y < q.activity.length) (ho : HeapOrd q)
    (hx : q.content[0]? = some x) : ∀ y ∈ q.content, lt q y x = some false := by
  have key : ∀ (j : Nat) (y : Nat), q.content[j]? = some y → lt q y x = some false := by
    intro j
    induction j using Nat.strongRecOn with
    | _ j ih =>
      intro y hy
      by_cases hj : j = 0
      · subst hj
        rw [hx] at hy; cases hy
        have hxa := hb x (List.mem_of_getElem? hx)
        unfold lt
        rw [List.getElem?_eq_getElem hxa]
        simp
      · have hjl := (List.getElem?_eq_some_iff.mp hy).1
        have hp : (j - 1) / 2 < q.content.length := by omega
        have hpe := List.getElem?_eq_getElem hp
        exact lt_false_trans (ho j y _ (by omega) hy hpe) (ih _ (by omega) _ hpe)
  intro y hy
  rcases List.mem_iff_getElem?.mp hy with ⟨j, hj⟩
  exact key j y hj

def insert_heap_statement : Prop := ∀ q n q', QInv q → q.content.Nodup → n ∉ q.content → HeapOrd q →
  n < q.activity.length → insert q n = some q' → HeapOrd q'
def removeMin_heap_statement : Prop := ∀ q q' x, QInv q → q.content.Nodup → HeapOrd q →
  removeMin q = some (q', x) → HeapOrd q'
def bump_heap_statement : Prop := ∀ q n a a0 q', QInv q → q.content.Nodup → HeapOrd q →
  q.activity[n]? = some a0 → a0 ≤ a → bump q n a = some q' → HeapOrd q'
def build_heap_statement : Prop := ∀ q ns q', QInv q → ns.Nodup →
  (∀ v ∈ ns, v < q.indices.length ∧ v < q.activity.length) → build q ns = some q' → HeapOrd q'

section Axioms
#print axioms heapOrd_root_max
#print axioms percolateUp_spec
#print axioms percolateDown_spec
#print axioms decrease_spec
#print axioms bump_spec
#print axioms insert_spec
#print axioms newQueue_spec
#print axioms removeMin_spec
#print axioms chooseLit_complete
#print axioms chooseLit_covers_after
#print axioms cleanup_spec
#print axioms cleanup_covers
#print axioms build_spec
#print axioms rebuildOrderHeap_spec
#print axioms upLoop_fuel
#print axioms downLoop_fuel
#print axioms reach_qinv
#print axioms reach_no_panic
#print axioms queue_nodup_statement_false
#print axioms mem_not_contains_reachable
end Axioms

end GS.Queue
