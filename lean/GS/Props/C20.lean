import GS.Props.Facts
/-!
# C20 — the stream of intermediate results is valid, improving and always terminated

First layer: `GS.Facts.chan_ops` (regenerated from the source on every run): the producer of
each result / model channel closes it by a deferred `close`, nobody else closes it, the
MaxSAT forwarder ranges over the inner channel and re-sends on the outer one.
The protocol theorems (no send on a closed channel, closed exactly once, no deadlock for
every capacity and schedule) live in `GS.Props.C20_Chan` once integrated.
-/
namespace GS
theorem C20_chan_structure : GS.Generated.chanOps = GS.Facts.expectedChanOps := GS.Facts.chan_ops
end GS
