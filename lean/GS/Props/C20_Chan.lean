import GS.Model.Chan
/-!
# C20 / C16 — channel protocols of gophersat: safety, FIFO, single close, deadlock freedom, termination

All theorems are about the small-step semantics `GS.Chan.LStep` of `GS/Model/Chan.lean` and hold for
EVERY capacity, EVERY list of values and EVERY schedule (= every `LReach` execution).

Method: each concrete system is shown to be *exactly* (successor list = successor list) an explicit
abstract transition system over a few parameters (`lsucc_pstate`, `lsucc_fstate`, `lsucc_ustate`);
invariants, enabledness and the termination measure are then proved on the abstract system and
transported back.
-/
namespace GS.Chan
set_option linter.unusedSimpArgs false

/-! ## Generic tools -/

theorem syncStep_self (s : State) (i : Nat) : syncStep s i i = none := by simp [syncStep]

theorem lsucc2 {s : State} (hl : s.procs.length = 2) (hp : s.panic = false) :
    lsuccessors s = (localStep s 0).toList ++ ((syncStep s 0 1).toList ++
      ((localStep s 1).toList ++ (syncStep s 1 0).toList)) := by
  have r2 : List.range 2 = [0, 1] := rfl
  simp [lsuccessors, hl, hp, r2, syncStep_self]

theorem lsucc3 {s : State} (hl : s.procs.length = 3) (hp : s.panic = false) :
    lsuccessors s = (localStep s 0).toList ++ ((syncStep s 0 1).toList ++ ((syncStep s 0 2).toList ++
      ((localStep s 1).toList ++ ((syncStep s 1 0).toList ++ ((syncStep s 1 2).toList ++
      ((localStep s 2).toList ++ ((syncStep s 2 0).toList ++ (syncStep s 2 1).toList))))))) := by
  have r3 : List.range 3 = [0, 1, 2] := rfl
  simp [lsuccessors, hl, hp, r3, syncStep_self]

/-- An abstract presentation of (part of) the state space: `st a` has exactly the successors
    `st a'` for `a' ∈ next a`. -/
structure Abs (α : Type) where
  st : α → State
  next : α → List (List Event × α)
  ok : ∀ a, lsuccessors (st a) = (next a).map (fun x => (x.1, st x.2))

inductive AReach {α : Type} (A : Abs α) (a0 : α) : List Event → α → Prop
  | init : AReach A a0 [] a0
  | step {tr l : List Event} {a a' : α} : AReach A a0 tr a → (l, a') ∈ A.next a → AReach A a0 (tr ++ l) a'

theorem Abs.lstep {α : Type} (A : Abs α) {a : α} {l : List Event} {s' : State} :
    LStep (A.st a) l s' ↔ ∃ a', (l, a') ∈ A.next a ∧ s' = A.st a' := by
  rw [lstep_iff_mem, A.ok, List.mem_map]
  constructor
  · rintro ⟨⟨l', a'⟩, hm, he⟩
    simp only [Prod.mk.injEq] at he
    rcases he with ⟨rfl, rfl⟩
    exact ⟨a', hm, rfl⟩
  · rintro ⟨a', hm, rfl⟩
    exact ⟨(l, a'), hm, rfl⟩

theorem Abs.lreach {α : Type} (A : Abs α) {a0 : α} {tr : List Event} {s : State}
    (h : LReach (A.st a0) tr s) : ∃ a, s = A.st a ∧ AReach A a0 tr a := by
  induction h with
  | init => exact ⟨a0, rfl, .init⟩
  | step _ hs ih =>
    rcases ih with ⟨a, rfl, ha⟩
    rcases A.lstep.mp hs with ⟨a', hm, rfl⟩
    exact ⟨a', rfl, .step ha hm⟩

theorem AReach.inv {α : Type} {A : Abs α} {a0 : α} (I : List Event → α → Prop)
    (h0 : I [] a0)
    (hstep : ∀ tr a l a', I tr a → (l, a') ∈ A.next a → I (tr ++ l) a')
    {tr : List Event} {a : α} (h : AReach A a0 tr a) : I tr a := by
  induction h with
  | init => exact h0
  | step _ hm ih => exact hstep _ _ _ _ ih hm

/-- A measure that decreases along every step from a reachable state bounds the length of
    every execution. -/
theorem steps_bounded {s0 : State} (μ : State → Nat)
    (hdec : ∀ s s', Reachable s0 s → Step s s' → μ s' < μ s)
    {n : Nat} {s : State} (h : Steps n s0 s) : n + μ s ≤ μ s0 := by
  induction h with
  | zero => omega
  | @succ n s s' s'' h1 h2 ih =>
    have hr : Reachable s s' := reachable_iff_steps.mpr ⟨n, h1⟩
    have h3 := hdec _ _ hr h2
    have h4 := ih hdec
    omega


theorem steps_split {n k : Nat} {s s' : State} (h : Steps (n + k) s s') : ∃ m, Steps n s m := by
  induction k generalizing s' with
  | zero => exact ⟨s', h⟩
  | succ k ih =>
    cases h with
    | succ h1 _ => exact ih h1

/-- If the exploration dies out at depth `n`, `reachN n` is exactly the reachable set. -/
theorem reachable_iff_mem_reachN {n : Nat} {s0 : State} (hn : layer n [s0] = []) {s : State} :
    Reachable s0 s ↔ s ∈ reachN n [s0] := by
  rw [mem_reachN, reachable_iff_steps]
  constructor
  · rintro ⟨m, hm⟩
    by_cases hle : m ≤ n
    · exact ⟨m, hle, mem_layer.mpr ⟨s0, by simp, hm⟩⟩
    · exfalso
      have : m = n + (m - n) := by omega
      rw [this] at hm
      rcases steps_split hm with ⟨mid, hmid⟩
      have : mid ∈ layer n [s0] := mem_layer.mpr ⟨s0, by simp, hmid⟩
      rw [hn] at this; simp at this
  · rintro ⟨k, _, hk⟩
    rcases mem_layer.mp hk with ⟨s1, h1, hs⟩
    simp at h1; subst h1
    exact ⟨k, hs⟩

theorem exists_lreach_of_layer {n : Nat} {s0 : State} {P : State → Prop}
    (h : ∃ s ∈ layer n [s0], P s) : ∃ tr s, LReach s0 tr s ∧ P s := by
  rcases h with ⟨s, hs, hp⟩
  rcases mem_layer.mp hs with ⟨s1, h1, hst⟩
  simp at h1; subst h1
  rcases reachable_iff_steps.mpr ⟨n, hst⟩ with ⟨tr, htr⟩
  exact ⟨tr, s, htr, hp⟩

/-! ### Trace projections -/

def recvVals : List Event → List Nat
  | [] => []
  | .received _ v :: r => v :: recvVals r
  | _ :: r => recvVals r

def sentOn (c : Nat) : List Event → List Nat
  | [] => []
  | .sent c' v :: r => if c' = c then v :: sentOn c r else sentOn c r
  | _ :: r => sentOn c r

def recvOn (c : Nat) : List Event → List Nat
  | [] => []
  | .received c' v :: r => if c' = c then v :: recvOn c r else recvOn c r
  | _ :: r => recvOn c r

theorem sentVals_append (a b : List Event) : sentVals (a ++ b) = sentVals a ++ sentVals b := by
  induction a with
  | nil => rfl
  | cons e r ih => cases e <;> simp [sentVals, ih]

theorem recvVals_append (a b : List Event) : recvVals (a ++ b) = recvVals a ++ recvVals b := by
  induction a with
  | nil => rfl
  | cons e r ih => cases e <;> simp [recvVals, ih]

theorem sentOn_append (c : Nat) (a b : List Event) : sentOn c (a ++ b) = sentOn c a ++ sentOn c b := by
  induction a with
  | nil => rfl
  | cons e r ih =>
    cases e <;> simp [sentOn, ih]
    split <;> simp

theorem recvOn_append (c : Nat) (a b : List Event) : recvOn c (a ++ b) = recvOn c a ++ recvOn c b := by
  induction a with
  | nil => rfl
  | cons e r ih =>
    cases e <;> simp [recvOn, ih]
    split <;> simp

/-! ## (P)/(E) : `producerSystem` -/

inductive PPc | run | closed | returned
deriving DecidableEq, Repr

/-- Abstract state: `got` received by the consumer, `buf` in the channel, `todo` still to send. -/
structure PA where
  got : List Nat
  buf : List Nat
  todo : List Nat
  pc : PPc
  saw : Bool

def pproc (r : Option Nat) (a : PA) : Proc :=
  { code := match a.pc with
            | .run => a.todo.map (Instr.send 0) ++ [.close 0, .ret r]
            | .closed => [.ret r]
            | .returned => [] }

/-- consumer of channel `c` -/
def cproc (c : Nat) (got : List Nat) (saw : Bool) : Proc :=
  { code := if saw then [] else [.range c], got := got, sawClose := saw }

def pstate (cap : Nat) (r : Option Nat) (a : PA) : State :=
  { procs := [ pproc r a, cproc 0 a.got a.saw ],
    chans := [ ⟨cap, a.buf, decide (a.pc ≠ .run)⟩ ] }

def pnext0 (cap : Nat) (r : Option Nat) (a : PA) : List (List Event × PA) :=
  match a.pc, a.todo with
   | .run, v :: t =>
      if a.buf.length < cap then [([.sent 0 v], { a with buf := a.buf ++ [v], todo := t })] else []
   | .run, [] => [([.closed 0], { a with pc := .closed })]
   | .closed, _ => [([.returned r], { a with pc := .returned })]
   | .returned, _ => []

def pnext01 (cap : Nat) (a : PA) : List (List Event × PA) :=
  match a.pc, a.todo, a.saw with
   | .run, v :: t, false =>
      if cap = 0 ∧ a.buf = [] then
        [([.sent 0 v, .received 0 v], { a with got := a.got ++ [v], todo := t })] else []
   | _, _, _ => []

def pnext1 (a : PA) : List (List Event × PA) :=
  if a.saw then [] else
    match a.buf with
    | v :: b => [([.received 0 v], { a with got := a.got ++ [v], buf := b })]
    | [] => if a.pc ≠ .run then [([.sawClosed 0], { a with saw := true })] else []

def pnext (cap : Nat) (r : Option Nat) (a : PA) : List (List Event × PA) :=
  pnext0 cap r a ++ (pnext01 cap a ++ pnext1 a)

theorem p_local0 (cap : Nat) (r : Option Nat) (a : PA) :
    (localStep (pstate cap r a) 0).toList = (pnext0 cap r a).map (fun x => (x.1, pstate cap r x.2)) := by
  rcases a with ⟨got, buf, todo, pc, saw⟩
  cases pc <;> cases todo <;>
    simp [pstate, pproc, cproc, pnext0, localStep, Proc.act, State.setProc, State.setChan] <;>
    split <;> simp

theorem p_sync01 (cap : Nat) (r : Option Nat) (a : PA) :
    (syncStep (pstate cap r a) 0 1).toList = (pnext01 cap a).map (fun x => (x.1, pstate cap r x.2)) := by
  rcases a with ⟨got, buf, todo, pc, saw⟩
  cases pc <;> cases todo <;> cases saw <;>
    simp [pstate, pproc, cproc, pnext01, syncStep, Proc.act, State.setProc] <;>
    split <;> simp

theorem p_sync10 (cap : Nat) (r : Option Nat) (a : PA) :
    syncStep (pstate cap r a) 1 0 = none := by
  rcases a with ⟨got, buf, todo, pc, saw⟩
  cases saw <;> simp [pstate, pproc, cproc, syncStep, Proc.act]

theorem p_local1 (cap : Nat) (r : Option Nat) (a : PA) :
    (localStep (pstate cap r a) 1).toList = (pnext1 a).map (fun x => (x.1, pstate cap r x.2)) := by
  rcases a with ⟨got, buf, todo, pc, saw⟩
  cases saw <;> cases buf <;> cases pc <;>
    simp [pstate, pproc, cproc, pnext1, localStep, Proc.act, State.setProc, State.setChan]

/-- The producer system IS the abstract system `pnext`. -/
theorem lsucc_pstate (cap : Nat) (r : Option Nat) (a : PA) :
    lsuccessors (pstate cap r a) = (pnext cap r a).map (fun x => (x.1, pstate cap r x.2)) := by
  rw [lsucc2 rfl rfl, p_local0, p_sync01, p_sync10, p_local1]
  simp [pnext]

def PAbs (cap : Nat) (r : Option Nat) : Abs PA := ⟨pstate cap r, pnext cap r, lsucc_pstate cap r⟩

def pinit (vals : List Nat) : PA := ⟨[], [], vals, .run, false⟩

theorem producerSystem_eq (cap : Nat) (vals : List Nat) :
    producerSystem cap vals = pstate cap vals.getLast? (pinit vals) := by
  simp [producerSystem, pstate, pinit, pproc, cproc, producerCode]

def closeCount (c : Nat) (tr : List Event) : Nat := tr.count (.closed c)

/-- The inductive invariant (state part and trace part). -/
structure PInv (cap : Nat) (vals : List Nat) (tr : List Event) (a : PA) : Prop where
  split : vals = a.got ++ a.buf ++ a.todo
  capOk : a.buf.length ≤ cap
  closedTodo : a.pc ≠ .run → a.todo = []
  sawOk : a.saw = true → a.buf = [] ∧ a.pc ≠ .run
  sent : sentVals tr = a.got ++ a.buf
  recv : recvVals tr = a.got
  closes : closeCount 0 tr = if a.pc = .run then 0 else 1
  rets : a.pc = .returned → Event.returned vals.getLast? ∈ tr
  panics : Event.panicked ∉ tr

theorem pinv_init (cap : Nat) (vals : List Nat) : PInv cap vals [] (pinit vals) := by
  constructor <;> simp [pinit, sentVals, recvVals, closeCount]

theorem pinv_step (cap : Nat) (vals : List Nat) (tr : List Event) (a : PA) (l : List Event) (a' : PA)
    (h : PInv cap vals tr a) (hm : (l, a') ∈ pnext cap vals.getLast? a) : PInv cap vals (tr ++ l) a' := by
  rcases a with ⟨got, buf, todo, pc, saw⟩
  rcases h with ⟨h1, h2, h3, h4, h5, h6, h7, h8, h9⟩
  simp only at h1 h2 h3 h4 h5 h6 h7 h8
  simp only [pnext, List.mem_append] at hm
  rcases hm with hm | hm | hm
  · cases pc <;> cases todo <;> simp [pnext0] at hm
    · rcases hm with ⟨rfl, rfl⟩
      constructor <;> simp_all [sentVals_append, recvVals_append, sentVals, recvVals, closeCount, List.count_append]
    · rcases hm with ⟨hlt, rfl, rfl⟩
      constructor <;> simp_all [sentVals_append, recvVals_append, sentVals, recvVals, closeCount, List.count_append]
      omega
    · rcases hm with ⟨rfl, rfl⟩
      constructor <;> simp_all [sentVals_append, recvVals_append, sentVals, recvVals, closeCount, List.count_append]
    · simp at h3
  · cases pc <;> cases todo <;> cases saw <;> simp [pnext01] at hm
    rcases hm with ⟨⟨rfl, rfl⟩, rfl, rfl⟩
    constructor <;> simp_all [sentVals_append, recvVals_append, sentVals, recvVals, closeCount, List.count_append]
  · cases saw <;> cases buf <;> simp [pnext1] at hm
    · rcases hm with ⟨hpc, rfl, rfl⟩
      constructor <;> simp_all [sentVals_append, recvVals_append, sentVals, recvVals, closeCount, List.count_append]
    · rcases hm with ⟨rfl, rfl⟩
      constructor <;> simp_all [sentVals_append, recvVals_append, sentVals, recvVals, closeCount, List.count_append]
      omega

/-- Second invariant: the only `returned` event is the producer's, with value `r`. -/
def PRet (r : Option Nat) (tr : List Event) (a : PA) : Prop :=
  ∀ v, Event.returned v ∈ tr → v = r ∧ a.pc = .returned

theorem pret_aux {cap : Nat} {r : Option Nat} {a a' : PA} {l : List Event}
    (hm : (l, a') ∈ pnext cap r a) :
    (a.pc = .returned → a'.pc = .returned) ∧ (∀ v, Event.returned v ∈ l → v = r ∧ a'.pc = .returned) := by
  rcases a with ⟨got, buf, todo, pc, saw⟩
  simp only [pnext, List.mem_append] at hm
  rcases hm with hm | hm | hm
  · cases pc <;> cases todo <;> simp [pnext0] at hm
    · rcases hm with ⟨rfl, rfl⟩; simp
    · rcases hm with ⟨_, rfl, rfl⟩; simp
    · rcases hm with ⟨rfl, rfl⟩; simp
    · rcases hm with ⟨rfl, rfl⟩; simp
  · cases pc <;> cases todo <;> cases saw <;> simp [pnext01] at hm
    rcases hm with ⟨_, rfl, rfl⟩; simp
  · cases saw <;> cases buf <;> simp [pnext1] at hm
    · rcases hm with ⟨_, rfl, rfl⟩; simp
    · rcases hm with ⟨rfl, rfl⟩; simp

theorem pret_step (cap : Nat) (r : Option Nat) (tr : List Event) (a : PA) (l : List Event) (a' : PA)
    (h : PRet r tr a) (hm : (l, a') ∈ pnext cap r a) : PRet r (tr ++ l) a' := by
  intro v hv
  rcases pret_aux hm with ⟨h1, h2⟩
  rcases List.mem_append.mp hv with hv | hv
  · exact ⟨(h v hv).1, h1 (h v hv).2⟩
  · exact h2 v hv

theorem producer_reach {cap : Nat} {tr : List Event} {vals : List Nat} {s : State}
    (h : LReach (producerSystem cap vals) tr s) :
    ∃ a, s = pstate cap vals.getLast? a ∧ PInv cap vals tr a ∧ PRet vals.getLast? tr a := by
  rw [producerSystem_eq] at h
  rcases (PAbs cap vals.getLast?).lreach h with ⟨a, hs, ha⟩
  exact ⟨a, hs, AReach.inv (A := PAbs cap vals.getLast?) (PInv cap vals) (pinv_init cap vals)
    (pinv_step cap vals) ha,
    AReach.inv (A := PAbs cap vals.getLast?) (PRet vals.getLast?) (by intro v hv; simp at hv)
    (pret_step cap vals.getLast?) ha⟩

/-- Final state of the producer system: both processes have run to completion, the channel is
    closed and empty, the consumer has observed the close. -/
def pfinal (s : State) : Prop :=
  s.panic = false ∧ (∀ p ∈ s.procs, p.code = []) ∧ (∀ ch ∈ s.chans, ch.closed = true ∧ ch.buf = []) ∧
  ∃ c, s.procs[1]? = some c ∧ c.sawClose = true

/-- **no_panic** (P): no send on a closed channel, no double close, for every capacity, every list
    of results and every schedule. -/
theorem producer_no_panic {cap : Nat} {vals : List Nat} {tr : List Event} {s : State}
    (h : LReach (producerSystem cap vals) tr s) : s.panic = false ∧ Event.panicked ∉ tr := by
  rcases producer_reach h with ⟨a, rfl, ha, _⟩
  exact ⟨rfl, ha.panics⟩

/-- **fifo** (P): what the consumer has received is a prefix of `vals`, equal to `vals` once it has
    observed the close; the same holds for the `received` events of the trace. -/
theorem producer_fifo {cap : Nat} {vals : List Nat} {tr : List Event} {s : State}
    (h : LReach (producerSystem cap vals) tr s) :
    ∃ c, s.procs[1]? = some c ∧ c.got <+: vals ∧ recvVals tr = c.got ∧
      (c.sawClose = true → c.got = vals) := by
  rcases producer_reach h with ⟨a, rfl, ha, _⟩
  refine ⟨cproc 0 a.got a.saw, rfl, ?_, ha.recv, ?_⟩
  · exact ⟨a.buf ++ a.todo, by simp [cproc, ha.split]⟩
  · intro hs
    have hs' : a.saw = true := by simpa [cproc] using hs
    have h1 := ha.sawOk hs'
    have h2 := ha.closedTodo h1.2
    simp [cproc, ha.split, h1.1, h2]

/-- **closed_once_by_producer** (P): the number of `close` operations performed so far is 1 if the
    channel is closed and 0 otherwise (never 2); the channel is closed iff the producer has executed
    its `close` instruction; when it is closed every value has been sent (`sentVals tr = vals`) and the
    producer has no send left; the consumer never has a `close` instruction. -/
theorem producer_closed_once {cap : Nat} {vals : List Nat} {tr : List Event} {s : State}
    (h : LReach (producerSystem cap vals) tr s) :
    ∃ p c ch, s.procs = [p, c] ∧ s.chans = [ch] ∧
      closeCount 0 tr = (if ch.closed then 1 else 0) ∧
      (ch.closed = true ↔ Instr.close 0 ∉ p.code) ∧
      (ch.closed = true → sentVals tr = vals ∧ ∀ v, Instr.send 0 v ∉ p.code) ∧
      (∀ k, Instr.close k ∉ c.code) := by
  rcases producer_reach h with ⟨a, rfl, ha, _⟩
  refine ⟨_, _, _, rfl, rfl, ?_, ?_, ?_, ?_⟩
  · rw [ha.closes]; cases hpc : a.pc <;> simp
  · cases hpc : a.pc <;> simp [pproc, hpc]
  · intro hc
    have hpc : a.pc ≠ .run := by simpa using hc
    have ht := ha.closedTodo hpc
    refine ⟨by rw [ha.sent, ha.split, ht]; simp, ?_⟩
    intro v
    cases hp : a.pc <;> simp_all [pproc]
  · intro k
    cases a.saw <;> simp [cproc]

def pfinalA (a : PA) : Prop := a.pc = .returned ∧ a.saw = true

theorem pfinal_iff {cap : Nat} {r : Option Nat} {a : PA} (h : a.saw = true → a.buf = []) :
    pfinal (pstate cap r a) ↔ pfinalA a := by
  rcases a with ⟨got, buf, todo, pc, saw⟩
  cases pc <;> cases saw <;> simp_all [pfinal, pfinalA, pstate, pproc, cproc]

theorem pnext_enabled {cap : Nat} {vals : List Nat} {tr : List Event} {a : PA}
    (h : PInv cap vals tr a) : pfinalA a ∨ pnext cap vals.getLast? a ≠ [] := by
  rcases a with ⟨got, buf, todo, pc, saw⟩
  have h4 := h.sawOk
  have h3 := h.closedTodo
  simp only at h3 h4
  cases pc <;> cases saw <;> cases todo <;> cases buf <;>
    simp_all [pfinalA, pnext, pnext0, pnext01, pnext1]

/-- **no_deadlock** (P): every reachable state is final or has an enabled step — for every capacity
    (0 included), every `vals`, every schedule. -/
theorem producer_no_deadlock {cap : Nat} {vals : List Nat} {s : State}
    (h : Reachable (producerSystem cap vals) s) : pfinal s ∨ ∃ s', Step s s' := by
  rcases h with ⟨tr, h⟩
  rcases producer_reach h with ⟨a, rfl, ha, _⟩
  rcases pnext_enabled ha with hf | hne
  · exact Or.inl ((pfinal_iff (fun hs => (ha.sawOk hs).1)).mpr hf)
  · right
    cases hn : pnext cap vals.getLast? a with
    | nil => exact absurd hn hne
    | cons x rest =>
      exact ⟨pstate cap vals.getLast? x.2, x.1,
        ((PAbs cap vals.getLast?).lstep).mpr ⟨x.2, by show (x.1, x.2) ∈ pnext _ _ _; rw [hn]; simp, rfl⟩⟩

/-- A final state has no successor. -/
theorem producer_final_stuck {cap : Nat} {vals : List Nat} {s s' : State}
    (h : Reachable (producerSystem cap vals) s) (hf : pfinal s) : ¬ Step s s' := by
  rcases h with ⟨tr, h⟩
  rcases producer_reach h with ⟨a, rfl, ha, _⟩
  have hfa := (pfinal_iff (fun hs => (ha.sawOk hs).1)).mp hf
  rintro ⟨l, hl⟩
  rcases ((PAbs cap vals.getLast?).lstep).mp hl with ⟨a', hm, _⟩
  rcases a with ⟨got, buf, todo, pc, saw⟩
  rcases hfa with ⟨h1, h2⟩
  simp only at h1 h2
  have hb := (ha.sawOk h2).1
  simp only at hb
  subst h1 h2 hb
  simp [PAbs, pnext, pnext0, pnext01, pnext1] at hm

/-- Termination measure: `2·(instructions left in the producer) + buffered values + instructions
    left in the consumer`. -/
def pmeasure (s : State) : Nat :=
  match s.procs, s.chans with
  | [p, c], [ch] => 2 * p.code.length + ch.buf.length + c.code.length
  | _, _ => 0

def pmA (a : PA) : Nat :=
  2 * (match a.pc with | .run => a.todo.length + 2 | .closed => 1 | .returned => 0) +
    a.buf.length + (if a.saw then 0 else 1)

theorem pmeasure_pstate (cap : Nat) (r : Option Nat) (a : PA) : pmeasure (pstate cap r a) = pmA a := by
  rcases a with ⟨got, buf, todo, pc, saw⟩
  cases pc <;> cases saw <;> simp [pmeasure, pstate, pproc, cproc, pmA]

theorem pmA_dec {cap : Nat} {r : Option Nat} {a a' : PA} {l : List Event}
    (hm : (l, a') ∈ pnext cap r a) : pmA a' < pmA a := by
  rcases a with ⟨got, buf, todo, pc, saw⟩
  simp only [pnext, List.mem_append] at hm
  rcases hm with hm | hm | hm
  · cases pc <;> cases todo <;> simp [pnext0] at hm
    · rcases hm with ⟨rfl, rfl⟩; simp [pmA]
    · rcases hm with ⟨_, rfl, rfl⟩; simp [pmA]; omega
    · rcases hm with ⟨rfl, rfl⟩; simp [pmA]
    · rcases hm with ⟨rfl, rfl⟩; simp [pmA]
  · cases pc <;> cases todo <;> cases saw <;> simp [pnext01] at hm
    rcases hm with ⟨_, rfl, rfl⟩; simp [pmA]
  · cases saw <;> cases buf <;> simp [pnext1] at hm
    · rcases hm with ⟨_, rfl, rfl⟩; simp [pmA]
    · rcases hm with ⟨rfl, rfl⟩; simp [pmA]

/-- **terminates** (P), local form: every step from a reachable state strictly decreases `pmeasure`. -/
theorem producer_measure_dec {cap : Nat} {vals : List Nat} {s s' : State}
    (h : Reachable (producerSystem cap vals) s) (hs : Step s s') : pmeasure s' < pmeasure s := by
  rcases h with ⟨tr, h⟩
  rcases producer_reach h with ⟨a, rfl, _, _⟩
  rcases hs with ⟨l, hl⟩
  rcases ((PAbs cap vals.getLast?).lstep).mp hl with ⟨a', hm, rfl⟩
  show pmeasure (pstate _ _ _) < pmeasure (pstate _ _ _)
  rw [pmeasure_pstate, pmeasure_pstate]
  exact pmA_dec hm

/-- **terminates** (P), global form: every execution has at most `2·|vals| + 5` steps. -/
theorem producer_terminates {cap : Nat} {vals : List Nat} {n : Nat} {s : State}
    (h : Steps n (producerSystem cap vals) s) : n + pmeasure s ≤ 2 * vals.length + 5 := by
  have := steps_bounded pmeasure (fun s s' hr hs => producer_measure_dec (cap := cap) (vals := vals) hr hs) h
  simpa [pmeasure, producerSystem, producerCode, Nat.mul_add] using this

/-- ... and every maximal execution ends in the final state, where the consumer has received exactly
    `vals` and the value returned by the producer is the last value received. -/
theorem producer_final_result {cap : Nat} {vals : List Nat} {tr : List Event} {s : State}
    (h : LReach (producerSystem cap vals) tr s) (hf : pfinal s) :
    recvVals tr = vals ∧ Event.returned (recvVals tr).getLast? ∈ tr ∧ closeCount 0 tr = 1 := by
  rcases producer_reach h with ⟨a, rfl, ha, _⟩
  have hfa := (pfinal_iff (fun hs => (ha.sawOk hs).1)).mp hf
  have h1 := ha.sawOk hfa.2
  have h2 := ha.closedTodo h1.2
  have hr : recvVals tr = vals := by rw [ha.recv, ha.split, h1.1, h2]; simp
  refine ⟨hr, ?_, ?_⟩
  · rw [hr]; exact ha.rets hfa.1
  · rw [ha.closes]; simp [hfa.1]


/-! ### Exhaustive exploration of small producer instances (capacity 0, 1, 2; two or three values)

`mem_layer` / `reachable_iff_mem_reachN` (proved from `lstep_iff_mem`) make these checks cover every
schedule: the exploration dies out (`layer n = []`), so `reachN n` is the whole reachable set. -/

instance (s : State) : Decidable (pfinal s) :=
  decidable_of_iff (s.panic = false ∧ (∀ p ∈ s.procs, p.code = []) ∧
      (∀ ch ∈ s.chans, ch.closed = true ∧ ch.buf = []) ∧ s.procs[1]?.map (·.sawClose) = some true)
    (by unfold pfinal; simp [Option.map_eq_some_iff])

example : layer 7 [producerSystem 0 [1, 2]] = [] := by decide
example : ∀ s ∈ reachN 7 [producerSystem 0 [1, 2]],
    s.panic = false ∧ (pfinal s ∨ successors s ≠ []) := by decide
example : layer 9 [producerSystem 1 [1, 2]] = [] := by decide
example : ∀ s ∈ reachN 9 [producerSystem 1 [1, 2]],
    s.panic = false ∧ (pfinal s ∨ successors s ≠ []) := by decide
example : ∀ s ∈ reachN 12 [producerSystem 2 [1, 2, 3]],
    s.panic = false ∧ (pfinal s ∨ successors s ≠ []) := by decide
/-- the hypotheses of the producer theorems are satisfiable, including a reachable final state -/
example : ∃ tr s, LReach (producerSystem 1 [1, 2]) tr s ∧ pfinal s :=
  exists_lreach_of_layer (n := 7) (by decide)
example : ∃ tr s, LReach (producerSystem 0 [1, 2]) tr s ∧ pfinal s :=
  exists_lreach_of_layer (n := 5) (by decide)
/-- Enumerate on an unsatisfiable problem: no value at all -/
example : ∃ tr s, LReach (producerSystem 0 []) tr s ∧ pfinal s :=
  exists_lreach_of_layer (n := 3) (by decide)

/-! ## (F) : `forwarderSystem` -/

inductive FPc | fwd | closing | returning | done
deriving DecidableEq, Repr

/-- Abstract state of the forwarder system: `todo` not yet sent by the inner producer, `pdone` =
    inner producer has closed `localRes`, `hold` = value received by the forwarder and not yet
    re-sent, `fgot` = everything the forwarder received, `buf` = buffer of `results`,
    `got`/`saw` = consumer. -/
structure FA where
  todo : List Nat
  pdone : Bool
  hold : Option Nat
  fgot : List Nat
  fpc : FPc
  buf : List Nat
  got : List Nat
  saw : Bool

def FPc.outerClosed : FPc → Bool
  | .fwd => false | .closing => false | .returning => true | .done => true

def fproc0 (a : FA) : Proc :=
  { code := if a.pdone then [] else a.todo.map (Instr.send 0) ++ [.close 0] }

def fproc1 (a : FA) : Proc :=
  { code := match a.fpc with
            | .fwd => [.forward 0 1, .close 1, .retLast]
            | .closing => [.close 1, .retLast]
            | .returning => [.retLast]
            | .done => [],
    hold := a.hold, got := a.fgot, sawClose := decide (a.fpc ≠ .fwd) }

def fstate (cap : Nat) (a : FA) : State :=
  { procs := [ fproc0 a, fproc1 a, cproc 1 a.got a.saw ],
    chans := [ ⟨0, [], a.pdone⟩, ⟨cap, a.buf, a.fpc.outerClosed⟩ ] }

/-- inner producer alone: only its `close` (its sends are rendezvous) -/
def fnext0 (a : FA) : List (List Event × FA) :=
  if a.pdone then [] else
  match a.todo with
  | [] => [([.closed 0], { a with pdone := true })]
  | _ :: _ => []

/-- rendezvous inner producer → forwarder on `localRes` -/
def fnext01 (a : FA) : List (List Event × FA) :=
  match a.pdone, a.todo, a.fpc, a.hold with
  | false, v :: t, .fwd, none =>
      [([.sent 0 v, .received 0 v], { a with todo := t, hold := some v, fgot := a.fgot ++ [v] })]
  | _, _, _, _ => []

/-- forwarder alone -/
def fnext1 (cap : Nat) (a : FA) : List (List Event × FA) :=
  match a.fpc, a.hold with
  | .fwd, some v =>
      if a.buf.length < cap then [([.sent 1 v], { a with hold := none, buf := a.buf ++ [v] })] else []
  | .fwd, none => if a.pdone then [([.sawClosed 0], { a with fpc := .closing })] else []
  | .closing, _ => [([.closed 1], { a with fpc := .returning })]
  | .returning, _ => [([.returned a.fgot.getLast?], { a with fpc := .done })]
  | .done, _ => []

/-- rendezvous forwarder → consumer on `results` (capacity 0 only) -/
def fnext12 (cap : Nat) (a : FA) : List (List Event × FA) :=
  match a.fpc, a.hold, a.saw with
  | .fwd, some v, false =>
      if cap = 0 ∧ a.buf = [] then
        [([.sent 1 v, .received 1 v], { a with hold := none, got := a.got ++ [v] })] else []
  | _, _, _ => []

/-- consumer alone -/
def fnext2 (a : FA) : List (List Event × FA) :=
  if a.saw then [] else
    match a.buf with
    | v :: b => [([.received 1 v], { a with got := a.got ++ [v], buf := b })]
    | [] => if a.fpc.outerClosed then [([.sawClosed 1], { a with saw := true })] else []

def fnext (cap : Nat) (a : FA) : List (List Event × FA) :=
  fnext0 a ++ (fnext01 a ++ (fnext1 cap a ++ (fnext12 cap a ++ fnext2 a)))

theorem f_local0 (cap : Nat) (a : FA) :
    (localStep (fstate cap a) 0).toList = (fnext0 a).map (fun x => (x.1, fstate cap x.2)) := by
  rcases a with ⟨todo, pdone, hold, fgot, fpc, buf, got, saw⟩
  cases pdone <;> cases todo <;>
    simp [fstate, fproc0, fproc1, fnext0, localStep, Proc.act, State.setProc, State.setChan]

theorem f_sync01 (cap : Nat) (a : FA) :
    (syncStep (fstate cap a) 0 1).toList = (fnext01 a).map (fun x => (x.1, fstate cap x.2)) := by
  rcases a with ⟨todo, pdone, hold, fgot, fpc, buf, got, saw⟩
  cases pdone <;> cases todo <;> cases fpc <;> cases hold <;>
    simp [fstate, fproc0, fproc1, fnext01, syncStep, Proc.act, State.setProc]

theorem f_sync02 (cap : Nat) (a : FA) : syncStep (fstate cap a) 0 2 = none := by
  rcases a with ⟨todo, pdone, hold, fgot, fpc, buf, got, saw⟩
  cases pdone <;> cases todo <;> cases saw <;>
    simp [fstate, fproc0, cproc, syncStep, Proc.act]

theorem f_sync10 (cap : Nat) (a : FA) : syncStep (fstate cap a) 1 0 = none := by
  rcases a with ⟨todo, pdone, hold, fgot, fpc, buf, got, saw⟩
  cases pdone <;> cases todo <;> cases fpc <;> cases hold <;>
    simp [fstate, fproc0, fproc1, syncStep, Proc.act]

theorem f_local1 (cap : Nat) (a : FA) :
    (localStep (fstate cap a) 1).toList = (fnext1 cap a).map (fun x => (x.1, fstate cap x.2)) := by
  rcases a with ⟨todo, pdone, hold, fgot, fpc, buf, got, saw⟩
  cases fpc <;> cases hold <;> cases pdone <;>
    simp [fstate, fproc0, fproc1, fnext1, localStep, Proc.act, State.setProc, State.setChan,
      FPc.outerClosed] <;>
    split <;> simp

theorem f_sync12 (cap : Nat) (a : FA) :
    (syncStep (fstate cap a) 1 2).toList = (fnext12 cap a).map (fun x => (x.1, fstate cap x.2)) := by
  rcases a with ⟨todo, pdone, hold, fgot, fpc, buf, got, saw⟩
  cases fpc <;> cases hold <;> cases saw <;>
    simp [fstate, fproc0, fproc1, cproc, fnext12, syncStep, Proc.act, State.setProc, FPc.outerClosed] <;>
    split <;> simp

theorem f_local2 (cap : Nat) (a : FA) :
    (localStep (fstate cap a) 2).toList = (fnext2 a).map (fun x => (x.1, fstate cap x.2)) := by
  rcases a with ⟨todo, pdone, hold, fgot, fpc, buf, got, saw⟩
  cases saw <;> cases buf <;> cases h : fpc.outerClosed <;>
    simp [fstate, fproc0, fproc1, cproc, fnext2, localStep, Proc.act, State.setProc, State.setChan, h]

theorem f_sync20 (cap : Nat) (a : FA) : syncStep (fstate cap a) 2 0 = none := by
  rcases a with ⟨todo, pdone, hold, fgot, fpc, buf, got, saw⟩
  cases saw <;> simp [fstate, cproc, syncStep, Proc.act]

theorem f_sync21 (cap : Nat) (a : FA) : syncStep (fstate cap a) 2 1 = none := by
  rcases a with ⟨todo, pdone, hold, fgot, fpc, buf, got, saw⟩
  cases saw <;> simp [fstate, cproc, syncStep, Proc.act]

/-- The forwarder system IS the abstract system `fnext`. -/
theorem lsucc_fstate (cap : Nat) (a : FA) :
    lsuccessors (fstate cap a) = (fnext cap a).map (fun x => (x.1, fstate cap x.2)) := by
  rw [lsucc3 rfl rfl, f_local0, f_sync01, f_sync02, f_local1, f_sync10, f_sync12, f_local2,
    f_sync20, f_sync21]
  simp [fnext]

def FAbs (cap : Nat) : Abs FA := ⟨fstate cap, fnext cap, lsucc_fstate cap⟩

def finit (vals : List Nat) : FA := ⟨vals, false, none, [], .fwd, [], [], false⟩

theorem forwarderSystem_eq (cap : Nat) (vals : List Nat) :
    forwarderSystem cap vals = fstate cap (finit vals) := by
  simp [forwarderSystem, fstate, finit, fproc0, fproc1, cproc, FPc.outerClosed]

structure FInv (cap : Nat) (vals : List Nat) (tr : List Event) (a : FA) : Prop where
  split : vals = a.got ++ a.buf ++ a.hold.toList ++ a.todo
  fgotEq : a.fgot = a.got ++ a.buf ++ a.hold.toList
  capOk : a.buf.length ≤ cap
  pdoneTodo : a.pdone = true → a.todo = []
  fpcOk : a.fpc ≠ .fwd → a.pdone = true ∧ a.hold = none
  sawOk : a.saw = true → a.buf = [] ∧ a.fpc.outerClosed = true
  recv1 : recvOn 1 tr = a.got
  sent1 : sentOn 1 tr = a.got ++ a.buf
  recv0 : recvOn 0 tr = a.fgot
  sent0 : sentOn 0 tr = a.fgot
  closes1 : closeCount 1 tr = if a.fpc.outerClosed then 1 else 0
  closes0 : closeCount 0 tr = if a.pdone then 1 else 0
  rets : a.fpc = .done → Event.returned vals.getLast? ∈ tr
  panics : Event.panicked ∉ tr

theorem finv_init (cap : Nat) (vals : List Nat) : FInv cap vals [] (finit vals) := by
  constructor <;> simp [finit, sentOn, recvOn, closeCount, FPc.outerClosed]

theorem finv_step (cap : Nat) (vals : List Nat) (tr : List Event) (a : FA) (l : List Event) (a' : FA)
    (h : FInv cap vals tr a) (hm : (l, a') ∈ fnext cap a) : FInv cap vals (tr ++ l) a' := by
  rcases a with ⟨todo, pdone, hold, fgot, fpc, buf, got, saw⟩
  rcases h with ⟨h1, h2, h3, h4, h5, h6, h7, h8, h9, h10, h11, h12, h13, h14⟩
  simp only at h1 h2 h3 h4 h5 h6 h7 h8 h9 h10 h11 h12 h13
  simp only [fnext, List.mem_append] at hm
  rcases hm with hm | hm | hm | hm | hm
  · cases pdone <;> cases todo <;> simp [fnext0] at hm
    rcases hm with ⟨rfl, rfl⟩
    constructor <;> simp_all [sentOn_append, recvOn_append, sentOn, recvOn, closeCount, List.count_append]
  · cases pdone <;> cases todo <;> cases fpc <;> cases hold <;> simp [fnext01] at hm
    rcases hm with ⟨rfl, rfl⟩
    constructor <;> simp_all [sentOn_append, recvOn_append, sentOn, recvOn, closeCount, List.count_append, FPc.outerClosed]
  · cases fpc <;> cases hold <;> simp [fnext1] at hm
    · rcases hm with ⟨hpd, rfl, rfl⟩
      constructor <;> simp_all [sentOn_append, recvOn_append, sentOn, recvOn, closeCount, List.count_append, FPc.outerClosed]
    · rcases hm with ⟨hlt, rfl, rfl⟩
      constructor <;> simp_all [sentOn_append, recvOn_append, sentOn, recvOn, closeCount, List.count_append, FPc.outerClosed]
      omega
    · rcases hm with ⟨rfl, rfl⟩
      constructor <;> simp_all [sentOn_append, recvOn_append, sentOn, recvOn, closeCount, List.count_append, FPc.outerClosed]
    · rcases hm with ⟨rfl, rfl⟩
      constructor <;> simp_all [sentOn_append, recvOn_append, sentOn, recvOn, closeCount, List.count_append, FPc.outerClosed]
    · rcases hm with ⟨rfl, rfl⟩
      constructor <;> simp_all [sentOn_append, recvOn_append, sentOn, recvOn, closeCount, List.count_append, FPc.outerClosed]
    · rcases hm with ⟨rfl, rfl⟩
      constructor <;> simp_all [sentOn_append, recvOn_append, sentOn, recvOn, closeCount, List.count_append, FPc.outerClosed]
  · cases fpc <;> cases hold <;> cases saw <;> simp [fnext12] at hm
    rcases hm with ⟨⟨rfl, rfl⟩, rfl, rfl⟩
    constructor <;> simp_all [sentOn_append, recvOn_append, sentOn, recvOn, closeCount, List.count_append, FPc.outerClosed]
  · cases saw <;> cases buf <;> simp [fnext2] at hm
    · rcases hm with ⟨hpc, rfl, rfl⟩
      constructor <;> simp_all [sentOn_append, recvOn_append, sentOn, recvOn, closeCount, List.count_append]
    · rcases hm with ⟨rfl, rfl⟩
      constructor <;> simp_all [sentOn_append, recvOn_append, sentOn, recvOn, closeCount, List.count_append]
      omega

theorem forwarder_reach {cap : Nat} {tr : List Event} {vals : List Nat} {s : State}
    (h : LReach (forwarderSystem cap vals) tr s) :
    ∃ a, s = fstate cap a ∧ FInv cap vals tr a := by
  rw [forwarderSystem_eq] at h
  rcases (FAbs cap).lreach h with ⟨a, hs, ha⟩
  exact ⟨a, hs, AReach.inv (A := FAbs cap) (FInv cap vals) (finv_init cap vals) (finv_step cap vals) ha⟩

/-- Final state of the forwarder system: the three processes have run to completion, both channels
    are closed and empty, the consumer has observed the close of `results`. -/
def ffinal (s : State) : Prop :=
  s.panic = false ∧ (∀ p ∈ s.procs, p.code = []) ∧ (∀ ch ∈ s.chans, ch.closed = true ∧ ch.buf = []) ∧
  ∃ c, s.procs[2]? = some c ∧ c.sawClose = true

/-- **no_panic** (F). -/
theorem forwarder_no_panic {cap : Nat} {vals : List Nat} {tr : List Event} {s : State}
    (h : LReach (forwarderSystem cap vals) tr s) : s.panic = false ∧ Event.panicked ∉ tr := by
  rcases forwarder_reach h with ⟨a, rfl, ha⟩
  exact ⟨rfl, ha.panics⟩

/-- **fifo** (F): the consumer of `results` (process 2) has received a prefix of `vals` (the values
    produced by the inner `solver.Optimal`), all of `vals` once it has seen the close; the forwarder
    (process 1) itself has received a prefix of `vals`. -/
theorem forwarder_fifo {cap : Nat} {vals : List Nat} {tr : List Event} {s : State}
    (h : LReach (forwarderSystem cap vals) tr s) :
    ∃ f c, s.procs[1]? = some f ∧ s.procs[2]? = some c ∧
      c.got <+: f.got ∧ f.got <+: vals ∧ recvOn 1 tr = c.got ∧ recvOn 0 tr = f.got ∧
      (c.sawClose = true → c.got = vals) := by
  rcases forwarder_reach h with ⟨a, rfl, ha⟩
  refine ⟨fproc1 a, cproc 1 a.got a.saw, rfl, rfl, ?_, ?_, ha.recv1, ha.recv0, ?_⟩
  · exact ⟨a.buf ++ a.hold.toList, by simp [cproc, fproc1, ha.fgotEq]⟩
  · exact ⟨a.todo, by simp [fproc1, ha.fgotEq, ha.split]⟩
  · intro hs
    have hs' : a.saw = true := by simpa [cproc] using hs
    have h1 := ha.sawOk hs'
    have h2 : a.fpc ≠ .fwd := by
      intro hc; have := h1.2; rw [hc] at this; simp [FPc.outerClosed] at this
    have h3 := ha.fpcOk h2
    have h4 := ha.pdoneTodo h3.1
    simp [cproc, ha.split, h1.1, h3.2, h4]

/-- **closed_once_by_producer** (F): each channel has been closed once if it is closed and never
    otherwise; `results` (channel 1) is closed iff the forwarder has executed its `close(results)`;
    at that point everything has been forwarded (`sentOn 1 tr = vals`), nothing is held and the
    forwarding loop is over; nobody else has a `close 1` instruction; `localRes` (channel 0) is
    closed only by the inner producer. -/
theorem forwarder_closed_once {cap : Nat} {vals : List Nat} {tr : List Event} {s : State}
    (h : LReach (forwarderSystem cap vals) tr s) :
    ∃ p f c inner outer, s.procs = [p, f, c] ∧ s.chans = [inner, outer] ∧
      closeCount 1 tr = (if outer.closed then 1 else 0) ∧
      closeCount 0 tr = (if inner.closed then 1 else 0) ∧
      (outer.closed = true ↔ Instr.close 1 ∉ f.code) ∧
      (outer.closed = true → sentOn 1 tr = vals ∧ f.hold = none ∧ Instr.forward 0 1 ∉ f.code) ∧
      Instr.close 1 ∉ p.code ∧ Instr.close 1 ∉ c.code ∧
      (inner.closed = true ↔ Instr.close 0 ∉ p.code) ∧
      Instr.close 0 ∉ f.code ∧ Instr.close 0 ∉ c.code := by
  rcases forwarder_reach h with ⟨a, rfl, ha⟩
  refine ⟨_, _, _, _, _, rfl, rfl, ha.closes1, ha.closes0, ?_, ?_, ?_, ?_, ?_, ?_, ?_⟩
  · cases hpc : a.fpc <;> simp [fproc1, hpc, FPc.outerClosed]
  · intro hc
    have h2 : a.fpc ≠ .fwd := by
      intro hc'; rw [hc'] at hc; simp [FPc.outerClosed] at hc
    have h3 := ha.fpcOk h2
    have h4 := ha.pdoneTodo h3.1
    have h5 := ha.sent1
    have h6 := ha.split
    refine ⟨by rw [h5, h6, h3.2, h4]; simp, by simp [fproc1, h3.2], ?_⟩
    cases hp : a.fpc <;> simp_all [fproc1]
  · cases a.pdone <;> simp [fproc0]
  · cases a.saw <;> simp [cproc]
  · cases hpd : a.pdone <;> simp [fproc0, hpd]
  · cases hpc : a.fpc <;> simp [fproc1, hpc]
  · cases a.saw <;> simp [cproc]

def ffinalA (a : FA) : Prop := a.pdone = true ∧ a.fpc = .done ∧ a.saw = true

theorem ffinal_iff {cap : Nat} {a : FA} (h : a.saw = true → a.buf = []) :
    ffinal (fstate cap a) ↔ ffinalA a := by
  rcases a with ⟨todo, pdone, hold, fgot, fpc, buf, got, saw⟩
  cases pdone <;> cases fpc <;> cases saw <;>
    simp_all [ffinal, ffinalA, fstate, fproc0, fproc1, cproc, FPc.outerClosed]

theorem fnext_enabled {cap : Nat} {vals : List Nat} {tr : List Event} {a : FA}
    (h : FInv cap vals tr a) : ffinalA a ∨ fnext cap a ≠ [] := by
  rcases a with ⟨todo, pdone, hold, fgot, fpc, buf, got, saw⟩
  have h4 := h.pdoneTodo
  have h5 := h.fpcOk
  have h6 := h.sawOk
  simp only at h4 h5 h6
  cases pdone <;> cases fpc <;> cases saw <;> cases todo <;> cases hold <;> cases buf <;>
    simp_all [ffinalA, fnext, fnext0, fnext01, fnext1, fnext12, fnext2, FPc.outerClosed]

/-- **no_deadlock** (F): every reachable state is final or has an enabled step — for every capacity of
    `results` (0 included), every `vals`, every schedule. -/
theorem forwarder_no_deadlock {cap : Nat} {vals : List Nat} {s : State}
    (h : Reachable (forwarderSystem cap vals) s) : ffinal s ∨ ∃ s', Step s s' := by
  rcases h with ⟨tr, h⟩
  rcases forwarder_reach h with ⟨a, rfl, ha⟩
  rcases fnext_enabled ha with hf | hne
  · exact Or.inl ((ffinal_iff (fun hs => (ha.sawOk hs).1)).mpr hf)
  · right
    cases hn : fnext cap a with
    | nil => exact absurd hn hne
    | cons x rest =>
      exact ⟨fstate cap x.2, x.1,
        ((FAbs cap).lstep).mpr ⟨x.2, by show (x.1, x.2) ∈ fnext _ _; rw [hn]; simp, rfl⟩⟩

theorem forwarder_final_stuck {cap : Nat} {vals : List Nat} {s s' : State}
    (h : Reachable (forwarderSystem cap vals) s) (hf : ffinal s) : ¬ Step s s' := by
  rcases h with ⟨tr, h⟩
  rcases forwarder_reach h with ⟨a, rfl, ha⟩
  have hfa := (ffinal_iff (fun hs => (ha.sawOk hs).1)).mp hf
  rintro ⟨l, hl⟩
  rcases ((FAbs cap).lstep).mp hl with ⟨a', hm, _⟩
  rcases a with ⟨todo, pdone, hold, fgot, fpc, buf, got, saw⟩
  rcases hfa with ⟨h1, h2, h3⟩
  simp only at h1 h2 h3
  have hb := (ha.sawOk h3).1
  simp only at hb
  subst h1 h2 h3 hb
  cases hold <;> simp [FAbs, fnext, fnext0, fnext01, fnext1, fnext12, fnext2] at hm

/-- Termination measure of the forwarder system. -/
def fmeasure (s : State) : Nat :=
  match s.procs, s.chans with
  | [p, f, c], [_, o] =>
      4 * p.code.length + 3 * (if f.hold.isSome then 1 else 0) + 2 * o.buf.length +
        f.code.length + c.code.length
  | _, _ => 0

def fmA (a : FA) : Nat :=
  4 * (if a.pdone then 0 else a.todo.length + 1) + 3 * (if a.hold.isSome then 1 else 0) +
    2 * a.buf.length +
    (match a.fpc with | .fwd => 3 | .closing => 2 | .returning => 1 | .done => 0) +
    (if a.saw then 0 else 1)

theorem fmeasure_fstate (cap : Nat) (a : FA) : fmeasure (fstate cap a) = fmA a := by
  rcases a with ⟨todo, pdone, hold, fgot, fpc, buf, got, saw⟩
  cases pdone <;> cases fpc <;> cases saw <;> simp [fmeasure, fstate, fproc0, fproc1, cproc, fmA]

theorem fmA_dec {cap : Nat} {a a' : FA} {l : List Event}
    (hm : (l, a') ∈ fnext cap a) : fmA a' < fmA a := by
  rcases a with ⟨todo, pdone, hold, fgot, fpc, buf, got, saw⟩
  simp only [fnext, List.mem_append] at hm
  rcases hm with hm | hm | hm | hm | hm
  · cases pdone <;> cases todo <;> simp [fnext0] at hm
    rcases hm with ⟨rfl, rfl⟩; simp [fmA]
  · cases pdone <;> cases todo <;> cases fpc <;> cases hold <;> simp [fnext01] at hm
    rcases hm with ⟨rfl, rfl⟩; simp [fmA]; omega
  · cases fpc <;> cases hold <;> simp [fnext1] at hm
    · rcases hm with ⟨_, rfl, rfl⟩; simp [fmA]
    · rcases hm with ⟨_, rfl, rfl⟩; simp [fmA]; omega
    · rcases hm with ⟨rfl, rfl⟩; simp [fmA]
    · rcases hm with ⟨rfl, rfl⟩; simp [fmA]
    · rcases hm with ⟨rfl, rfl⟩; simp [fmA]
    · rcases hm with ⟨rfl, rfl⟩; simp [fmA]
  · cases fpc <;> cases hold <;> cases saw <;> simp [fnext12] at hm
    rcases hm with ⟨_, rfl, rfl⟩; simp [fmA]
  · cases saw <;> cases buf <;> simp [fnext2] at hm
    · rcases hm with ⟨_, rfl, rfl⟩; simp [fmA]
    · rcases hm with ⟨rfl, rfl⟩; simp [fmA]

/-- **terminates** (F), local form. -/
theorem forwarder_measure_dec {cap : Nat} {vals : List Nat} {s s' : State}
    (h : Reachable (forwarderSystem cap vals) s) (hs : Step s s') : fmeasure s' < fmeasure s := by
  rcases h with ⟨tr, h⟩
  rcases forwarder_reach h with ⟨a, rfl, _⟩
  rcases hs with ⟨l, hl⟩
  rcases ((FAbs cap).lstep).mp hl with ⟨a', hm, rfl⟩
  show fmeasure (fstate _ _) < fmeasure (fstate _ _)
  rw [fmeasure_fstate, fmeasure_fstate]
  exact fmA_dec hm

/-- **terminates** (F), global form: every execution has at most `4·|vals| + 8` steps. -/
theorem forwarder_terminates {cap : Nat} {vals : List Nat} {n : Nat} {s : State}
    (h : Steps n (forwarderSystem cap vals) s) : n + fmeasure s ≤ 4 * vals.length + 8 := by
  have := steps_bounded fmeasure (fun s s' hr hs => forwarder_measure_dec (cap := cap) (vals := vals) hr hs) h
  simpa [fmeasure, forwarderSystem, Nat.mul_add] using this

/-- In the final state the consumer has received exactly `vals`, the forwarder has returned the last
    value received by the consumer, each channel was closed exactly once. -/
theorem forwarder_final_result {cap : Nat} {vals : List Nat} {tr : List Event} {s : State}
    (h : LReach (forwarderSystem cap vals) tr s) (hf : ffinal s) :
    recvOn 1 tr = vals ∧ Event.returned (recvOn 1 tr).getLast? ∈ tr ∧
      closeCount 1 tr = 1 ∧ closeCount 0 tr = 1 := by
  rcases forwarder_reach h with ⟨a, rfl, ha⟩
  have hfa := (ffinal_iff (fun hs => (ha.sawOk hs).1)).mp hf
  have h1 := ha.sawOk hfa.2.2
  have h2 : a.fpc ≠ .fwd := by rw [hfa.2.1]; simp
  have h3 := ha.fpcOk h2
  have h4 := ha.pdoneTodo h3.1
  have hr : recvOn 1 tr = vals := by rw [ha.recv1, ha.split, h1.1, h3.2, h4]; simp
  refine ⟨hr, ?_, ?_, ?_⟩
  · rw [hr]; exact ha.rets hfa.2.1
  · rw [ha.closes1]; simp [hfa.2.1, FPc.outerClosed]
  · rw [ha.closes0]; simp [hfa.1]

/-! ### Exhaustive exploration of small forwarder instances -/

instance (s : State) : Decidable (ffinal s) :=
  decidable_of_iff (s.panic = false ∧ (∀ p ∈ s.procs, p.code = []) ∧
      (∀ ch ∈ s.chans, ch.closed = true ∧ ch.buf = []) ∧ s.procs[2]?.map (·.sawClose) = some true)
    (by unfold ffinal; simp [Option.map_eq_some_iff])

example : layer 11 [forwarderSystem 0 [1, 2]] = [] := by decide
example : ∀ s ∈ reachN 11 [forwarderSystem 0 [1, 2]],
    s.panic = false ∧ (ffinal s ∨ successors s ≠ []) := by decide
example : layer 13 [forwarderSystem 1 [1, 2]] = [] := by decide
example : ∀ s ∈ reachN 13 [forwarderSystem 1 [1, 2]],
    s.panic = false ∧ (ffinal s ∨ successors s ≠ []) := by decide
example : ∃ tr s, LReach (forwarderSystem 1 [1, 2]) tr s ∧ ffinal s :=
  exists_lreach_of_layer (n := 11) (by decide)
example : ∃ tr s, LReach (forwarderSystem 0 [1, 2]) tr s ∧ ffinal s :=
  exists_lreach_of_layer (n := 9) (by decide)

end GS.Chan
