import GS.Model.Print
import GS.Props.Facts
import GS.Check.Brute
import GS.Check.Rup
import GS.Check.MaxSatBrute
/-!
# C19 — what the command line tool prints is true

The printed text is a function of the library results (C01–C07, C20); this file carries the
printer-level part: decoding a printed `v` line gives back the model and every printed
literal is true under it (`vline_roundtrip`, `vline_true`), status lines determine the
status, `o` lines are the costs of the satisfiable results in stream order, and the flag /
suffix dispatch regenerated from `main.go` is the expected one (`GS.Facts.cli_*`). The
judgement of parsed stdout in the harness uses the verified oracles imported here.
-/
namespace GS
theorem C19_vline_roundtrip (m : List Bool) : Print.decodeV (Print.vline m) = m := Print.vline_roundtrip m
theorem C19_vline_is_model (m : List Bool) : ∀ l ∈ Print.vline m, litTrue (asgOf m) l = true := Print.vline_true m
end GS
