import GS.Props.C02_PbProp
import GS.Props.C02_PbPropSame
/-!
# C02 (support) — watch invariants of pseudo-boolean constraints across calls and backjumps

1. `pb_watch_invariant_call` proves `GS.PbProp.pb_watch_invariant_call_statement` (left open in
   `GS.Props.C02_PbProp`): the early returns of `simplifyPseudoBool` (`sat`, `slack == 0`) keep the old
   watches, and with watches as `updateWatchPB` left them and a slack `≥ 0` that is enough
   (`no_conflict_of_watchedAsUpdated`).
2. That statement assumes watches as `updateWatchPB` leaves them *for the assignment at the call*, which
   later calls do not get (the flags were computed for an older assignment, and a false literal stays
   watched after an early return).  The invariant that does hold at every fixpoint of `propagate` is
   `WInv card m`: **the watched literals that are not false weigh at least `card`, or the true literals
   do** (both disjuncts are needed: the harness check `XPBWATCH` fails 3 622 times in 10 000 walks with
   the first disjunct alone).
   * `pb_call_levelInv`: a call answering `true` at level `lvl` establishes `WInv` for the assignment it
     leaves and for its restriction to every level `k < lvl` (`restrict` = the assignment after
     `cleanupBindings(k)`), given `WInv` for the restrictions of the assignment at the call to the levels
     `< lvl` only (nothing at the current level: the call recomputes from scratch).  The trail-order
     argument is here: bindings made by the call are at level `lvl` (`Reached`), so restrictions below
     `lvl` do not see them; after `updateWatchPB` the watched literals are not false, hence not false
     under any restriction.
   * `winv_extend`: a binding that falsifies no watched literal that was not false keeps `WInv` (for every
     other binding `propagate` visits the constraint: it is in `wlistPb[lit]`).
   * `restrict_restrict`, `restrict_self`: a backjump is a restriction.
   * `winv_no_conflict`, `winv_total_holds`: under `WInv` the slack is `≥ 0`; at a total assignment the
     constraint holds.
   `harness/x_pbwatch.go` evaluates `WInv` (and `CInv`, see `C02_PbPropCardWatch`) on the real solver
   state after every `unifyLiteral` / `cleanupBindings` of random walks, for every level.
-/
namespace GS.PbProp
open GS

/-! ## 1. `pb_watch_invariant_call_statement` is true -/

theorem wT_le_wNF (m : Nat → Int) :
    ∀ (ws ls : List Int), (∀ w ∈ ws, 0 ≤ w) → wT m ws ls ≤ wNF m ws ls := by
  intro ws
  induction ws with
  | nil => intro ls _; simp [wT, wNF]
  | cons w ws ih =>
    intro ls hnn
    cases ls with
    | nil => simp [wT, wNF]
    | cons l ls =>
      simp only [wT, wNF]
      have := ih ls (fun w hw => hnn w (List.mem_cons_of_mem _ hw))
      have := hnn w List.mem_cons_self
      cases litStatus m l <;> simp <;> omega

/-- "No literal watched by the constraint is false under `m'`". -/
def NoWatchedFalse (m' : Nat → Int) (ls : List Int) (bs : List Bool) : Prop :=
  ∀ (k : Nat) (l : Int), ls[k]? = some l → bs[k]? = some true → litStatus m' l ≠ .unsat

/-- Watches as `updateWatchPB` leaves them, relative to the assignment `m`. -/
def WatchedAsUpdated (card : Int) (m : Nat → Int) (ws ls : List Int) (bs : List Bool) : Prop :=
  ∃ n, (∀ (k : Nat) (l : Int), ls[k]? = some l → bs[k]? = some (decide (k < n) && nfFlag m l)) ∧
    (card < wNF m (ws.take n) (ls.take n) ∨ n = ls.length)

/-- With watches as `updateWatchPB` leaves them and a slack `≥ 0`, no assignment that keeps the watched
    literals non-false violates the constraint. -/
theorem no_conflict_of_watchedAsUpdated {card : Int} {m : Nat → Int} {ws ls : List Int} {bs : List Bool}
    (hlen : ws.length = ls.length) (hnn : ∀ w ∈ ws, 0 ≤ w) (hW : WatchedAsUpdated card m ws ls bs)
    (h0 : card ≤ wNF m ws ls) (m' : Nat → Int) (hG : NoWatchedFalse m' ls bs) :
    card ≤ wNF m' ws ls := by
  obtain ⟨n, hH, hor⟩ := hW
  have hk := watched_weight_kept (m := m) (m' := m') ls ws bs n hnn hH hG
  rcases hor with h1 | h1
  · omega
  · subst h1
    rw [List.take_of_length_le (Nat.le_refl _), List.take_of_length_le (by omega)] at hk
    omega

theorem pbPassLoop_flag {lvl slack : Int} :
    ∀ (ls ws : List Int) (st : St) (fu : Bool) (st' : St) (fu' : Bool),
      pbPassLoop lvl slack ls ws st fu = .ok (st', fu') →
      (fu = true → fu' = true) ∧ (fu' = false → st' = st) := by
  intro ls
  induction ls with
  | nil =>
    intro ws st fu st' fu' h
    simp [pbPassLoop] at h
    obtain ⟨rfl, rfl⟩ := h
    exact ⟨fun h => h, fun _ => rfl⟩
  | cons l ls ih =>
    intro ws st fu st' fu' h
    simp only [pbPassLoop] at h
    split at h
    · cases ws with
      | nil => cases h
      | cons w ws' =>
        simp only at h
        split at h
        · have := ih _ _ _ _ _ h
          refine ⟨fun _ => this.1 rfl, fun hf => ?_⟩
          have := this.1 rfl
          rw [hf] at this; cases this
        · exact ih _ _ _ _ _ h
    · exact ih _ _ _ _ _ h

/-- A `true` answer means the slack at the call was `≥ 0`. -/
theorem pbLoop_true_slack {lvl card : Int} {fuel : Nat} {st st' : St}
    (hnn : ∀ w ∈ st.weights, 0 ≤ w) (h : pbLoop lvl card (fuel + 1) st = .ok (true, st')) :
    card ≤ wNF st.m st.weights st.lits := by
  simp only [pbLoop] at h
  split at h
  · rename_i slack sat hss
    unfold slackSum at hss
    have hspec := slackLoop_spec _ _ _ _ _ _ hss
    by_cases hsat : sat = true
    · have := hspec.2 hsat hnn
      have := wT_le_wNF st.m st.weights st.lits hnn
      omega
    · have hsat' : sat = false := by simpa using hsat
      have hsl := hspec.1 hsat'
      subst hsat'
      simp only [Bool.false_eq_true, if_false] at h
      by_cases hneg : slack < 0
      · simp [hneg] at h
      · omega
  · cases h
  · cases h

theorem pbLoop_watch {lvl card : Int} {W L : List Int} {B : List Bool}
    (hlen : W.length = L.length) (hblen : B.length = L.length) (hnn : ∀ w ∈ W, 0 ≤ w)
    (hE : ∀ m', NoWatchedFalse m' L B → card ≤ wNF m' W L) :
    ∀ (fuel : Nat) (sk st' : St), pbLoop lvl card fuel sk = .ok (true, st') →
      sk.lits = L → sk.weights = W → sk.watched = B →
      ∀ m', NoWatchedFalse m' st'.lits st'.watched → card ≤ wNF m' st'.weights st'.lits := by
  intro fuel
  induction fuel with
  | zero => intro sk st' h; simp [pbLoop] at h
  | succ fuel ih =>
    intro sk st' h hL hW hB
    have h0 := pbLoop_true_slack (by rw [hW]; exact hnn) h
    simp only [pbLoop] at h
    split at h
    · rename_i slack sat hss
      split at h
      · cases h; rw [hL, hW, hB]; exact hE
      · split at h
        · cases h
        · split at h
          · cases h
            have hf := propAllLoop_frame (lvl := lvl) sk.lits sk
            unfold propagateAll
            rw [hf.1, hf.2.1, hf.2.2.1, hL, hW, hB]; exact hE
          · split at h
            · rename_i st1 hpass
              have hf := pbPassLoop_frame _ _ _ _ _ _ hpass
              exact ih st1 st' h (hf.1.trans hL) (hf.2.1.trans hW) (hf.2.2.1.trans hB)
            · rename_i st1 hpass
              have hst : st1 = sk := (pbPassLoop_flag _ _ _ _ _ _ hpass).2 rfl
              subst hst
              split at h
              · rename_i st2 hu
                cases h
                intro m' hG
                have hf := updateWatchPB_frame hu
                rw [hf.2.2.1, hf.2.2.2.1]
                exact pb_no_missed_conflict (by rw [hL, hW]; exact hlen) (by rw [hL, hB]; exact hblen)
                  (by rw [hW]; exact hnn) hu h0 m' hG
              · cases h
              · cases h
            · cases h
            · cases h
    · cases h
    · cases h

/-- `GS.PbProp.pb_watch_invariant_call_statement` (left open in `GS.Props.C02_PbProp`) HOLDS: a call
    that starts from watches as `updateWatchPB` leaves them and answers `true` ends — whatever branch it
    takes, including the early returns on `sat` and `slack == 0` that keep the old watches — in a state
    from which no assignment that keeps the watched literals non-false violates the constraint.
    (The hypotheses `lvl > 0`, distinct variables and `m'` extending the final assignment are not used;
    weights `≥ 0` suffice.) -/
theorem pb_watch_invariant_call : pb_watch_invariant_call_statement := by
  intro card lvl st st' hlen hblen hpos _ _ hW h m' _ hG
  have hnn : ∀ w ∈ st.weights, 0 ≤ w := fun w hw => Int.le_of_lt (hpos w hw)
  have h0 := pbLoop_true_slack hnn h
  exact pbLoop_watch hlen hblen hnn
    (fun m'' hG'' => no_conflict_of_watchedAsUpdated hlen hnn hW h0 m'' hG'')
    _ st st' h rfl rfl rfl m' hG

/-! ## 2. The invariant that holds across calls and backjumps (pseudo-boolean constraints) -/

/-- Weight of the watched positions whose literal is not false. -/
def WW (m : Nat → Int) : List Int → List Int → List Bool → Int
  | w :: ws, l :: ls, b :: bs => (if b && nfFlag m l then w else 0) + WW m ws ls bs
  | _, _, _ => 0

/-- THE WATCH INVARIANT of a pseudo-boolean constraint under the assignment `m`: the watched literals
    that are not false weigh at least `card`, or the true literals do. -/
def WInv (card : Int) (m : Nat → Int) (ws ls : List Int) (bs : List Bool) : Prop :=
  card ≤ WW m ws ls bs ∨ card ≤ wT m ws ls

/-- The assignment after `cleanupBindings(k)`: bindings of level `> k` are undone. -/
def restrict (m : Nat → Int) (k : Int) : Nat → Int := fun v => if m v ≤ k ∧ -k ≤ m v then m v else 0

theorem WW_le_wNF (m : Nat → Int) :
    ∀ (ws ls : List Int) (bs : List Bool), (∀ w ∈ ws, 0 ≤ w) → WW m ws ls bs ≤ wNF m ws ls := by
  intro ws
  induction ws with
  | nil => intro ls bs _; simp [WW, wNF]
  | cons w ws ih =>
    intro ls bs hnn
    cases ls with
    | nil => simp [WW, wNF]
    | cons l ls =>
      cases bs with
      | nil =>
        simp only [WW]
        exact wNF_nonneg m _ _ hnn
      | cons b bs =>
        simp only [WW, wNF]
        have := ih ls bs (fun w hw => hnn w (List.mem_cons_of_mem _ hw))
        have := hnn w List.mem_cons_self
        by_cases hs : litStatus m l = .unsat
        · simp [nfFlag, hs]; omega
        · simp only [hs, if_false]; split <;> omega

/-- NO MISSED CONFLICT: under the invariant the constraint is not violated (`slack ≥ 0`). -/
theorem winv_no_conflict {card : Int} {m : Nat → Int} {ws ls : List Int} {bs : List Bool}
    (hnn : ∀ w ∈ ws, 0 ≤ w) (h : WInv card m ws ls bs) : card ≤ wNF m ws ls := by
  rcases h with h | h
  · have := WW_le_wNF m ws ls bs hnn; omega
  · have := wT_le_wNF m ws ls hnn; omega

/-- … and at a total assignment it holds. -/
theorem winv_total_holds {card : Int} {m : Nat → Int} {ws ls : List Int} {bs : List Bool}
    (hnn : ∀ w ∈ ws, 0 ≤ w) (h : WInv card m ws ls bs) (htot : ∀ l ∈ ls, m l.natAbs ≠ 0) :
    ∀ a, Ext a m → PbHolds a ws ls card := by
  intro a ha
  have h1 := winv_no_conflict hnn h
  have h2 := wNF_eq_wT_of_total (m := m) ws ls htot
  have h3 := wT_le_lhs ha ws ls hnn
  unfold PbHolds; omega

/-- The watched non-false weight does not decrease when every watched literal that was not false is
    still not false (later bindings that falsify no watched literal; any backjump). -/
theorem WW_mono {m m' : Nat → Int} :
    ∀ (ws ls : List Int) (bs : List Bool), (∀ w ∈ ws, 0 ≤ w) →
      (∀ (k : Nat) (l : Int), ls[k]? = some l → bs[k]? = some true → litStatus m l ≠ .unsat →
        litStatus m' l ≠ .unsat) →
      WW m ws ls bs ≤ WW m' ws ls bs := by
  intro ws
  induction ws with
  | nil => intro ls bs _ _; simp [WW]
  | cons w ws ih =>
    intro ls bs hnn hG
    cases ls with
    | nil => simp [WW]
    | cons l ls =>
      cases bs with
      | nil => simp [WW]
      | cons b bs =>
        simp only [WW]
        have := ih ls bs (fun w hw => hnn w (List.mem_cons_of_mem _ hw))
          (fun k l' hl' hb hs => hG (k + 1) l' (by simpa using hl') (by simpa using hb) hs)
        have hw := hnn w List.mem_cons_self
        by_cases hb : b = true
        · subst hb
          by_cases hs : litStatus m l = .unsat
          · simp only [nfFlag, hs]; simp; split <;> omega
          · have := hG 0 l (by simp) (by simp) hs
            simp [nfFlag, hs, this]; omega
        · have hb' : b = false := by simpa using hb
          subst hb'
          simp; omega

theorem status_sat_mono {m m' : Nat → Int} (hext : ∀ v, m v ≠ 0 → m' v = m v) {l : Int}
    (h : litStatus m l = .sat) : litStatus m' l = .sat := by
  unfold litStatus at h ⊢
  split at h
  · cases h
  · rename_i h0
    rw [hext _ h0]
    simp only [h0, if_false]
    split at h
    · rename_i h1; simp [h1]
    · cases h

theorem wT_mono {m m' : Nat → Int} (hext : ∀ v, m v ≠ 0 → m' v = m v) :
    ∀ (ws ls : List Int), (∀ w ∈ ws, 0 ≤ w) → wT m ws ls ≤ wT m' ws ls := by
  intro ws
  induction ws with
  | nil => intro ls _; simp [wT]
  | cons w ws ih =>
    intro ls hnn
    cases ls with
    | nil => simp [wT]
    | cons l ls =>
      simp only [wT]
      have := ih ls (fun w hw => hnn w (List.mem_cons_of_mem _ hw))
      have hw := hnn w List.mem_cons_self
      by_cases hs : litStatus m l = .sat
      · simp [hs, status_sat_mono hext hs]; omega
      · simp only [hs, if_false]; split <;> omega

/-- BETWEEN CALLS: a binding that falsifies no watched literal (that was not false) keeps the invariant;
    `propagate` visits the constraint for every other binding (`wlistPb[lit]`). -/
theorem winv_extend {card : Int} {m m' : Nat → Int} {ws ls : List Int} {bs : List Bool}
    (hnn : ∀ w ∈ ws, 0 ≤ w) (hext : ∀ v, m v ≠ 0 → m' v = m v)
    (hG : ∀ (k : Nat) (l : Int), ls[k]? = some l → bs[k]? = some true → litStatus m l ≠ .unsat →
      litStatus m' l ≠ .unsat)
    (h : WInv card m ws ls bs) : WInv card m' ws ls bs := by
  rcases h with h | h
  · left; have := WW_mono (m := m) (m' := m') ws ls bs hnn hG; omega
  · right; have := wT_mono hext ws ls hnn; omega

theorem status_unsat_of_restrict {m : Nat → Int} {k l : Int}
    (h : litStatus (restrict m k) l = .unsat) : litStatus m l = .unsat := by
  unfold litStatus restrict at h
  unfold litStatus
  by_cases hc : m l.natAbs ≤ k ∧ -k ≤ m l.natAbs
  · simpa [hc] using h
  · simp [hc] at h

theorem restrict_restrict (m : Nat → Int) {j k : Int} (hjk : j ≤ k) :
    restrict (restrict m k) j = restrict m j := by
  funext v
  unfold restrict
  by_cases h1 : m v ≤ k ∧ -k ≤ m v
  · simp [h1]
  · simp only [h1, if_false]
    by_cases h2 : m v ≤ j ∧ -j ≤ m v
    · exact absurd ⟨by omega, by omega⟩ h1
    · simp [h2]

theorem restrict_self {m : Nat → Int} {k : Int} (h : ∀ v, m v ≤ k ∧ -k ≤ m v) : restrict m k = m := by
  funext v; unfold restrict; simp [h v]

/-- `m'` is `m` plus bindings, at level `lvl`, of unbound variables to literals of `L`. -/
def Reached (m m' : Nat → Int) (L : List Int) (lvl : Int) : Prop :=
  ∀ v, m' v = m v ∨ (m v = 0 ∧ ∃ p ∈ L, v = p.natAbs ∧ m' v = signedLvl p lvl)

theorem Reached.refl (m : Nat → Int) (L : List Int) (lvl : Int) : Reached m m L lvl := fun _ => Or.inl rfl

theorem Reached.bind {m mc : Nat → Int} {L : List Int} {lvl p : Int} (hlvl : lvl ≠ 0)
    (h : Reached m mc L lvl) (hp : p ∈ L) (hu : mc p.natAbs = 0) : Reached m (bind mc p lvl) L lvl := by
  intro v
  unfold GS.PbProp.bind
  by_cases hv : v = p.natAbs
  · subst hv
    simp only [if_true]
    rcases h p.natAbs with h1 | ⟨_, q, _, _, h4⟩
    · exact Or.inr ⟨by omega, p, hp, rfl, rfl⟩
    · exact absurd (h4 ▸ hu) (signedLvl_ne_zero hlvl)
  · simp only [hv, if_false]; exact h v

theorem Reached.ext {m m' : Nat → Int} {L : List Int} {lvl : Int} (h : Reached m m' L lvl) :
    ∀ v, m v ≠ 0 → m' v = m v := by
  intro v hv
  rcases h v with h1 | ⟨h1, _⟩
  · exact h1
  · exact absurd h1 hv

theorem Reached.restrict {m m' : Nat → Int} {L : List Int} {lvl k : Int} (h : Reached m m' L lvl)
    (hk : k < lvl) : restrict m' k = restrict m k := by
  funext v
  unfold GS.PbProp.restrict
  rcases h v with h1 | ⟨h1, p, _, _, h4⟩
  · rw [h1]
  · rw [h1, h4]
    unfold signedLvl
    split <;> simp <;> omega

theorem propAllLoop_reached {lvl : Int} (hlvl : lvl ≠ 0) {m0 : Nat → Int} {L : List Int} :
    ∀ (ls : List Int) (st : St), (∀ l ∈ ls, l ∈ L) → Reached m0 st.m L lvl →
      Reached m0 (propAllLoop lvl ls st).m L lvl := by
  intro ls
  induction ls with
  | nil => intro st _ h; exact h
  | cons l ls ih =>
    intro st hsub h
    simp only [propAllLoop]
    have hsub' : ∀ x ∈ ls, x ∈ L := fun x hx => hsub x (List.mem_cons_of_mem _ hx)
    split
    · rename_i hind
      exact ih _ hsub' (Reached.bind hlvl h (hsub l List.mem_cons_self) (status_indet_iff.1 hind))
    · exact ih _ hsub' h

theorem pbPassLoop_reached {lvl slack : Int} (hlvl : lvl ≠ 0) {m0 : Nat → Int} {L : List Int} :
    ∀ (ls ws : List Int) (st : St) (fu : Bool) (st' : St) (fu' : Bool),
      pbPassLoop lvl slack ls ws st fu = .ok (st', fu') → (∀ l ∈ ls, l ∈ L) →
      Reached m0 st.m L lvl → Reached m0 st'.m L lvl := by
  intro ls
  induction ls with
  | nil => intro ws st fu st' fu' h _ hr; simp [pbPassLoop] at h; obtain ⟨rfl, rfl⟩ := h; exact hr
  | cons l ls ih =>
    intro ws st fu st' fu' h hsub hr
    have hsub' : ∀ x ∈ ls, x ∈ L := fun x hx => hsub x (List.mem_cons_of_mem _ hx)
    simp only [pbPassLoop] at h
    split at h
    · rename_i hind
      cases ws with
      | nil => cases h
      | cons w ws' =>
        simp only at h
        split at h
        · exact ih _ _ _ _ _ h hsub'
            (Reached.bind hlvl hr (hsub l List.mem_cons_self) (status_indet_iff.1 hind))
        · exact ih _ _ _ _ _ h hsub' hr
    · exact ih _ _ _ _ _ h hsub' hr

/-- After `propagateAll` every literal of the constraint is bound. -/
theorem propAllLoop_bound {lvl : Int} (hlvl : lvl ≠ 0) :
    ∀ (ls : List Int) (st : St), ∀ l ∈ ls, (propAllLoop lvl ls st).m l.natAbs ≠ 0 := by
  intro ls
  induction ls with
  | nil => intro st l hl; cases hl
  | cons x xs ih =>
    intro st l hl
    simp only [propAllLoop]
    have keep : ∀ (s : St), s.m x.natAbs ≠ 0 → (propAllLoop lvl xs s).m x.natAbs ≠ 0 := by
      intro s hs
      have := (propAllLoop_reached (m0 := s.m) (L := xs) hlvl xs s (fun _ h => h) (Reached.refl _ _ _)).ext _ hs
      rw [this]; exact hs
    rcases List.mem_cons.1 hl with rfl | hl
    · split
      · apply keep
        simp only [propagateUnit, GS.PbProp.bind, if_true]
        exact signedLvl_ne_zero hlvl
      · rename_i hni
        exact keep st (fun h => hni (status_indet_iff.2 h))
    · split
      · exact ih _ l hl
      · exact ih _ l hl

theorem wNF_le_wT_of {m m' : Nat → Int} :
    ∀ (ws ls : List Int), (∀ w ∈ ws, 0 ≤ w) →
      (∀ l ∈ ls, litStatus m l ≠ .unsat → litStatus m' l = .sat) → wNF m ws ls ≤ wT m' ws ls := by
  intro ws
  induction ws with
  | nil => intro ls _ _; simp [wNF, wT]
  | cons w ws ih =>
    intro ls hnn h
    cases ls with
    | nil => simp [wNF, wT]
    | cons l ls =>
      simp only [wNF, wT]
      have := ih ls (fun w hw => hnn w (List.mem_cons_of_mem _ hw)) (fun x hx => h x (List.mem_cons_of_mem _ hx))
      have hw := hnn w List.mem_cons_self
      by_cases hs : litStatus m l = .unsat
      · simp only [hs, if_true]; split <;> omega
      · have := h l List.mem_cons_self hs
        simp [hs, this]; omega

theorem eq_of_nodup_map {f : Int → Nat} :
    ∀ {L : List Int}, (L.map f).Nodup → ∀ {a b : Int}, a ∈ L → b ∈ L → f a = f b → a = b := by
  intro L
  induction L with
  | nil => intro _ a b ha; cases ha
  | cons x xs ih =>
    intro hnd a b ha hb hab
    simp only [List.map_cons, List.nodup_cons] at hnd
    rcases List.mem_cons.1 ha with rfl | ha' <;> rcases List.mem_cons.1 hb with rfl | hb'
    · rfl
    · exact absurd (by rw [hab]; exact List.mem_map_of_mem hb') hnd.1
    · exact absurd (by rw [← hab]; exact List.mem_map_of_mem ha') hnd.1
    · exact ih hnd.2 ha' hb' hab

/-- After `propagateAll` (distinct variables) every literal that was not false is true. -/
theorem propagateAll_all_true {lvl : Int} (hlvl : 0 < lvl) {st : St}
    (hnd : (st.lits.map Int.natAbs).Nodup) :
    ∀ l ∈ st.lits, litStatus st.m l ≠ .unsat → litStatus (propagateAll lvl st).m l = .sat := by
  intro l hl hs
  have hlvl' : lvl ≠ 0 := by omega
  have hr := propAllLoop_reached (m0 := st.m) (L := st.lits) hlvl' st.lits st (fun _ h => h) (Reached.refl _ _ _)
  have hb := propAllLoop_bound hlvl' st.lits st l hl
  unfold propagateAll
  rcases hr l.natAbs with h1 | ⟨h1, p, hp, hpl, h4⟩
  · -- unchanged: it was bound, hence true
    unfold litStatus at hs ⊢
    rw [h1] at hb ⊢
    simp only [hb, if_false] at hs ⊢
    split
    · rfl
    · rename_i hne; simp [hne] at hs
  · have hpeq : p = l := eq_of_nodup_map hnd hp hl hpl.symm
    subst hpeq
    unfold litStatus
    rw [h4]
    have := signedLvl_ne_zero (l := p) hlvl'
    simp only [this, if_false]
    unfold signedLvl
    by_cases hpos : p > 0
    · simp [hpos]; omega
    · simp [hpos]; omega


theorem WW_nonneg (m : Nat → Int) :
    ∀ (ws ls : List Int) (bs : List Bool), (∀ w ∈ ws, 0 ≤ w) → 0 ≤ WW m ws ls bs := by
  intro ws
  induction ws with
  | nil => intro ls bs _; simp [WW]
  | cons w ws ih =>
    intro ls bs hnn
    cases ls with
    | nil => simp [WW]
    | cons l ls =>
      cases bs with
      | nil => simp [WW]
      | cons b bs =>
        simp only [WW]
        have := ih ls bs (fun w hw => hnn w (List.mem_cons_of_mem _ hw))
        have := hnn w List.mem_cons_self
        split <;> omega

/-- With watches as `updateWatchPB` leaves them (relative to `m`), the watched weight that is not false
    under any `m''` that falsifies nothing `m` did not falsify is at least the weight that counted. -/
theorem WW_ge_of_char {m m'' : Nat → Int} :
    ∀ (ls ws : List Int) (bs : List Bool) (n : Nat), (∀ w ∈ ws, 0 ≤ w) →
      (∀ (k : Nat) (l : Int), ls[k]? = some l → bs[k]? = some (decide (k < n) && nfFlag m l)) →
      (∀ l ∈ ls, litStatus m l ≠ .unsat → litStatus m'' l ≠ .unsat) →
      wNF m (ws.take n) (ls.take n) ≤ WW m'' ws ls bs := by
  intro ls
  induction ls with
  | nil => intro ws bs n _ _ _; cases ws <;> cases n <;> simp [wNF, WW]
  | cons l ls ih =>
    intro ws bs n hnn hH hG
    cases ws with
    | nil => simp [wNF, WW]
    | cons w ws =>
      have hnn' : ∀ w ∈ ws, 0 ≤ w := fun w hw => hnn w (List.mem_cons_of_mem _ hw)
      have hw0 := hnn w List.mem_cons_self
      cases n with
      | zero =>
        simp only [List.take_zero, wNF]
        exact WW_nonneg m'' _ _ _ hnn
      | succ n =>
        have h0 := hH 0 l (by simp)
        cases bs with
        | nil => simp at h0
        | cons b bs =>
          simp only [List.take_succ_cons, wNF, WW]
          simp only [Nat.zero_lt_succ, decide_true, Bool.true_and, List.getElem?_cons_zero,
            Option.some.injEq] at h0
          have htail := ih ws bs n hnn'
            (fun k l' hl' => by
              have := hH (k + 1) l' (by simpa using hl')
              simpa using this)
            (fun l' hl' => hG l' (List.mem_cons_of_mem _ hl'))
          by_cases hs : litStatus m l = .unsat
          · simp only [hs, if_true]
            split <;> omega
          · have hf : nfFlag m l = true := by simp [nfFlag, hs]
            have hf'' : nfFlag m'' l = true := by
              have := hG l List.mem_cons_self hs
              simp [nfFlag, this]
            rw [h0, hf, hf'']
            simp only [hs, if_false, Bool.and_self, if_true]
            omega

/-- THE INVARIANT IS RE-ESTABLISHED BY EVERY CALL, at the current level and at every level below
    (i.e. for the assignment after any later `cleanupBindings`), whatever branch the call takes. -/
theorem pbLoop_levelInv {lvl card : Int} (hlvl : 0 < lvl) {W L : List Int} {B : List Bool}
    {m0 : Nat → Int} (hlen : W.length = L.length) (hblen : B.length = L.length)
    (hpos : ∀ w ∈ W, 0 < w) (hnd : (L.map Int.natAbs).Nodup)
    (hbelow : ∀ k, k < lvl → WInv card (restrict m0 k) W L B) :
    ∀ (fuel : Nat) (sk st' : St), pbLoop lvl card fuel sk = .ok (true, st') →
      sk.lits = L → sk.weights = W → sk.watched = B → Reached m0 sk.m L lvl →
      WInv card st'.m st'.weights st'.lits st'.watched ∧
      ∀ k, k < lvl → WInv card (restrict st'.m k) st'.weights st'.lits st'.watched := by
  have hnn : ∀ w ∈ W, 0 ≤ w := fun w hw => Int.le_of_lt (hpos w hw)
  have hlvl' : lvl ≠ 0 := by omega
  intro fuel
  induction fuel with
  | zero => intro sk st' h; simp [pbLoop] at h
  | succ fuel ih =>
    intro sk st' h hL hW hB hR
    simp only [pbLoop] at h
    split at h
    · rename_i slack sat hss
      unfold slackSum at hss
      rw [hL, hW] at hss
      have hspec := slackLoop_spec _ _ _ _ _ _ hss
      split at h
      · rename_i hsat
        cases h
        rw [hL, hW, hB]
        refine ⟨Or.inr ?_, fun k hk => ?_⟩
        · have := hspec.2 hsat hnn; omega
        · rw [hR.restrict hk]; exact hbelow k hk
      · rename_i hsat
        have hsl := hspec.1 (by simpa using hsat)
        split at h
        · cases h
        · split at h
          · rename_i hz
            cases h
            have hf := propAllLoop_frame (lvl := lvl) sk.lits sk
            have hR' : Reached m0 (propagateAll lvl sk).m L lvl := by
              unfold propagateAll
              exact propAllLoop_reached hlvl' sk.lits sk (by rw [hL]; exact fun _ h => h) hR
            have hlits : (propagateAll lvl sk).lits = L := by unfold propagateAll; rw [hf.1, hL]
            have hws : (propagateAll lvl sk).weights = W := by unfold propagateAll; rw [hf.2.1, hW]
            have hbs : (propagateAll lvl sk).watched = B := by unfold propagateAll; rw [hf.2.2.1, hB]
            rw [hlits, hws, hbs]
            refine ⟨Or.inr ?_, fun k hk => ?_⟩
            · have hall := propagateAll_all_true (lvl := lvl) hlvl (st := sk) (by rw [hL]; exact hnd)
              rw [hL] at hall
              have := wNF_le_wT_of (m := sk.m) (m' := (propagateAll lvl sk).m) W L hnn hall
              omega
            · rw [hR'.restrict hk]; exact hbelow k hk
          · split at h
            · rename_i st1 hpass
              have hf := pbPassLoop_frame _ _ _ _ _ _ hpass
              have hR1 := pbPassLoop_reached hlvl' _ _ _ _ _ _ hpass (by rw [hL]; exact fun _ h => h) hR
              exact ih st1 st' h (hf.1.trans hL) (hf.2.1.trans hW) (hf.2.2.1.trans hB) hR1
            · rename_i st1 hpass
              have hst : st1 = sk := (pbPassLoop_flag _ _ _ _ _ _ hpass).2 rfl
              subst hst
              split at h
              · rename_i st2 hu
                cases h
                have hf := updateWatchPB_frame hu
                obtain ⟨n, hn, hH, hor⟩ := watchedEnough_after_update (by rw [hL, hW]; exact hlen)
                  (by rw [hL, hB]; exact hblen) hu
                rw [hf.1, hf.2.2.1, hf.2.2.2.1, hL, hW]
                rw [hL] at hH hor
                rw [hW] at hor
                have hbig : card < wNF st1.m (W.take n) (L.take n) := by
                  rcases hor with h1 | h1
                  · exact h1
                  · subst h1
                    rw [List.take_of_length_le (Nat.le_refl _), List.take_of_length_le (by omega)]
                    omega
                refine ⟨Or.inl ?_, fun k _ => Or.inl ?_⟩
                · have := WW_ge_of_char (m := st1.m) (m'' := st1.m) L W _ n hnn hH (fun _ _ h => h)
                  omega
                · have := WW_ge_of_char (m := st1.m) (m'' := restrict st1.m k) L W _ n hnn hH
                    (fun l _ hs h' => hs (status_unsat_of_restrict h'))
                  omega
              · cases h
              · cases h
            · cases h
            · cases h
    · cases h
    · cases h

/-- `simplifyPseudoBool` answering `true` at level `lvl` re-establishes the watch invariant `WInv` for the
    assignment it leaves and for every assignment a later backjump can restore, given only that the
    invariant held for the levels below `lvl` (nothing is assumed about the current level: the call
    recomputes from scratch).  With `winv_extend` (bindings that falsify no watched literal keep `WInv`)
    and `restrict_restrict` (a backjump is a restriction) this is an invariant of the whole search at
    the fixpoints of `propagate`; `winv_no_conflict` / `winv_total_holds` are what it gives. -/
theorem pb_call_levelInv {lvl card : Int} (hlvl : 0 < lvl) {st st' : St}
    (hlen : st.weights.length = st.lits.length) (hblen : st.watched.length = st.lits.length)
    (hpos : ∀ w ∈ st.weights, 0 < w) (hnd : (st.lits.map Int.natAbs).Nodup)
    (hbelow : ∀ k, k < lvl → WInv card (restrict st.m k) st.weights st.lits st.watched)
    (h : simplifyPB lvl card st = .ok (true, st')) :
    WInv card st'.m st'.weights st'.lits st'.watched ∧
    ∀ k, k < lvl → WInv card (restrict st'.m k) st'.weights st'.lits st'.watched :=
  pbLoop_levelInv hlvl hlen hblen hpos hnd hbelow _ st st' h rfl rfl rfl (Reached.refl _ _ _)



end GS.PbProp

#print axioms GS.PbProp.pb_watch_invariant_call
#print axioms GS.PbProp.pb_call_levelInv
#print axioms GS.PbProp.winv_extend
#print axioms GS.PbProp.winv_total_holds
