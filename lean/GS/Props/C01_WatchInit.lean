import GS.Props.C01_WatchDyn
/-!
# C01 (support) — `watchClause` / `initWatcherList` establish the watch invariant

For a clause list in which every clause has at least two literals, non-zero, over pairwise distinct
variables `≤ nbVars` (what `parseSlice` + `simplify2` hand to `New`), the mirror of
`initWatcherList` does not panic and the state it builds (nothing bound) satisfies `watchInv`.
-/
namespace GS.Watch

/-- every watcher of the family has a clause id `< k` and satisfies `P` -/
def FamOk (P : Nat → Watcher → Prop) (k : Nat) (F : List (List Watcher)) : Prop :=
  ∀ i ws, F[i]? = some ws → ∀ w ∈ ws, w.cid < k ∧ P i w

/-- clause `cid` has exactly one watcher in the list of `¬a` and one in the list of `¬b` -/
def CountOk (F : List (List Watcher)) (cid : Nat) (a b : Int) : Prop :=
  ∃ la lb, wget F (-a) = some la ∧ countW la cid = 1 ∧ wget F (-b) = some lb ∧ countW lb cid = 1

/-- the two appends of `watchClause` -/
theorem push2 {F : List (List Watcher)} {n k : Nat} {a b : Int} (hlen : F.length = 2 * n)
    (ha0 : a ≠ 0) (hb0 : b ≠ 0) (han : a.natAbs ≤ n) (hbn : b.natAbs ≤ n)
    (hab : a.natAbs ≠ b.natAbs) :
    ∃ La Lb, F[litIdx (-a)]? = some La ∧ F[litIdx (-b)]? = some Lb ∧
      wpush F (-a) ⟨k, b⟩ = some (F.set (litIdx (-a)) (La ++ [⟨k, b⟩])) ∧
      wpush (F.set (litIdx (-a)) (La ++ [⟨k, b⟩])) (-b) ⟨k, a⟩ =
        some ((F.set (litIdx (-a)) (La ++ [⟨k, b⟩])).set (litIdx (-b)) (Lb ++ [⟨k, a⟩])) ∧
      ∀ i, ((F.set (litIdx (-a)) (La ++ [⟨k, b⟩])).set (litIdx (-b)) (Lb ++ [⟨k, a⟩]))[i]? =
        if i = litIdx (-b) then some (Lb ++ [⟨k, a⟩])
        else if i = litIdx (-a) then some (La ++ [⟨k, b⟩]) else F[i]? := by
  have hna0 : -a ≠ 0 := by omega
  have hnb0 : -b ≠ 0 := by omega
  have hia : litIdx (-a) < F.length := by rw [hlen]; exact litIdx_lt hna0 (by simpa using han)
  have hib : litIdx (-b) < F.length := by rw [hlen]; exact litIdx_lt hnb0 (by simpa using hbn)
  have hne : litIdx (-a) ≠ litIdx (-b) := litIdx_ne_of_natAbs_ne hna0 hnb0 (by simpa using hab)
  have hLa : F[litIdx (-a)]? = some F[litIdx (-a)] := List.getElem?_eq_getElem hia
  have hLb : F[litIdx (-b)]? = some F[litIdx (-b)] := List.getElem?_eq_getElem hib
  have hLb' : (F.set (litIdx (-a)) (F[litIdx (-a)] ++ [⟨k, b⟩]))[litIdx (-b)]? =
      some F[litIdx (-b)] := by
    rw [List.getElem?_set_ne hne]; exact hLb
  refine ⟨_, _, hLa, hLb, ?_, ?_, ?_⟩
  · unfold wpush wget; simp [hna0, hLa]
  · unfold wpush wget; simp only [hnb0, if_false, hLb']
  · intro i
    rw [set_get _ _ hLb', set_get _ _ hLa]

theorem push2_fam {P : Nat → Watcher → Prop} {F : List (List Watcher)} {k : Nat} {ia ib : Nat}
    {La Lb : List Watcher} {wa wb : Watcher} (h : FamOk P k F)
    (hLa : F[ia]? = some La) (hLb : F[ib]? = some Lb)
    (hwa : wa.cid = k ∧ P ia wa) (hwb : wb.cid = k ∧ P ib wb)
    {F2 : List (List Watcher)}
    (hF2 : ∀ i, F2[i]? = if i = ib then some (Lb ++ [wb]) else if i = ia then some (La ++ [wa])
      else F[i]?) : FamOk P (k + 1) F2 := by
  intro i ws hws w hw
  rw [hF2] at hws
  have lift : ∀ L, F[i]? = some L → w ∈ L → w.cid < k + 1 ∧ P i w := by
    intro L hL hwL
    have := h i L hL w hwL
    exact ⟨by omega, this.2⟩
  by_cases hib : i = ib
  · simp only [hib, if_true, Option.some.injEq] at hws
    subst hws
    simp only [List.mem_append, List.mem_singleton] at hw
    rcases hw with hw | hw
    · exact lift Lb (hib ▸ hLb) hw
    · subst hw; exact ⟨by omega, hib ▸ hwb.2⟩
  · simp only [hib, if_false] at hws
    by_cases hia : i = ia
    · simp only [hia, if_true, Option.some.injEq] at hws
      subst hws
      simp only [List.mem_append, List.mem_singleton] at hw
      rcases hw with hw | hw
      · exact lift La (hia ▸ hLa) hw
      · subst hw; exact ⟨by omega, hia ▸ hwa.2⟩
    · simp only [hia, if_false] at hws
      exact lift ws hws hw

theorem FamOk_mono {P : Nat → Watcher → Prop} {F : List (List Watcher)} {k : Nat}
    (h : FamOk P k F) : FamOk P (k + 1) F := by
  intro i ws hws w hw
  have := h i ws hws w hw
  exact ⟨by omega, this.2⟩

/-- counts of the older clauses do not change; the new clause is counted once in each of its lists -/
theorem push2_count {P : Nat → Watcher → Prop} {F F2 : List (List Watcher)} {k : Nat} {a b : Int}
    {La Lb : List Watcher} (h : FamOk P k F) (ha0 : a ≠ 0) (hb0 : b ≠ 0)
    (hab : a.natAbs ≠ b.natAbs)
    (hLa : F[litIdx (-a)]? = some La) (hLb : F[litIdx (-b)]? = some Lb)
    (hF2 : ∀ i, F2[i]? = if i = litIdx (-b) then some (Lb ++ [⟨k, a⟩])
      else if i = litIdx (-a) then some (La ++ [⟨k, b⟩]) else F[i]?) :
    CountOk F2 k a b ∧ ∀ cid x y, cid < k → CountOk F cid x y → CountOk F2 cid x y := by
  have hna0 : -a ≠ 0 := by omega
  have hnb0 : -b ≠ 0 := by omega
  have hne : litIdx (-a) ≠ litIdx (-b) := litIdx_ne_of_natAbs_ne hna0 hnb0 (by simpa using hab)
  have hzero : ∀ (i : Nat) (L : List Watcher), F[i]? = some L → countW L k = 0 := by
    intro i L hL
    apply zero_countW_of
    intro w hw hc
    have := (h i L hL w hw).1
    omega
  constructor
  · refine ⟨La ++ [⟨k, b⟩], Lb ++ [⟨k, a⟩], ?_, ?_, ?_, ?_⟩
    · unfold wget; simp only [hna0, if_false]; rw [hF2]; simp [hne]
    · rw [countW_append, countW_cons, countW_nil, hzero _ _ hLa]; simp
    · unfold wget; simp only [hnb0, if_false]; rw [hF2]; simp
    · rw [countW_append, countW_cons, countW_nil, hzero _ _ hLb]; simp
  · intro cid x y hcid ⟨lx, ly, hlx, hcx, hly, hcy⟩
    have key : ∀ (l : Int) (L : List Watcher), wget F l = some L → countW L cid = 1 →
        ∃ L', wget F2 l = some L' ∧ countW L' cid = 1 := by
      intro l L hL hc
      unfold wget at hL ⊢
      by_cases hl : l = 0
      · simp [hl] at hL
      · simp only [hl, if_false] at hL ⊢
        rw [hF2]
        have hk : ¬ k = cid := by omega
        by_cases h1 : litIdx l = litIdx (-b)
        · simp only [h1, if_true]
          refine ⟨_, rfl, ?_⟩
          rw [h1, hLb] at hL; cases hL
          simp [countW_append, countW_cons, countW_nil, hk, hc]
        · simp only [h1, if_false]
          by_cases h2 : litIdx l = litIdx (-a)
          · simp only [h2, if_true]
            refine ⟨_, rfl, ?_⟩
            rw [h2, hLa] at hL; cases hL
            simp [countW_append, countW_cons, countW_nil, hk, hc]
          · simp only [h2, if_false]
            exact ⟨L, hL, hc⟩
    obtain ⟨lx', hlx', hcx'⟩ := key _ lx hlx hcx
    obtain ⟨ly', hly', hcy'⟩ := key _ ly hly hcy
    exact ⟨lx', ly', hlx', hcx', hly', hcy'⟩

def PBin (cls : List (List Int)) (i : Nat) (w : Watcher) : Prop :=
  ∃ c, cls[w.cid]? = some c ∧ (c = [-(idxLit i), w.other] ∨ c = [w.other, -(idxLit i)])

def PLong (cls : List (List Int)) (i : Nat) (w : Watcher) : Prop :=
  ∃ c, cls[w.cid]? = some c ∧ 3 ≤ c.length ∧
    (c[0]? = some (-(idxLit i)) ∨ c[1]? = some (-(idxLit i))) ∧ w.other ∈ c

/-- the structural part of the invariant for the clauses of id `< k` -/
structure WStruct (n : Nat) (cls : List (List Int)) (k : Nat) (wb wl : List (List Watcher)) : Prop where
  lenb : wb.length = 2 * n
  lenl : wl.length = 2 * n
  bin : FamOk (PBin cls) k wb
  long : FamOk (PLong cls) k wl
  count : ∀ cid c, cid < k → cls[cid]? = some c → ∃ a b, c[0]? = some a ∧ c[1]? = some b ∧
    CountOk (if c.length = 2 then wb else wl) cid a b

theorem watchClause_struct {n k : Nat} {cls : List (List Int)} {wb wl : List (List Watcher)}
    {c : List Int} (h : WStruct n cls k wb wl) (hc : cls[k]? = some c)
    (hok : 2 ≤ c.length ∧ (∀ l ∈ c, l ≠ 0 ∧ l.natAbs ≤ n) ∧ (c.map Int.natAbs).Nodup) :
    ∃ wb' wl', watchClause k c wb wl = some (wb', wl') ∧ WStruct n cls (k + 1) wb' wl' := by
  obtain ⟨hlen, hlits, hnd⟩ := hok
  obtain ⟨a, b, r, hceq⟩ : ∃ a b r, c = a :: b :: r := by
    match c, hlen with
    | a :: b :: r, _ => exact ⟨a, b, r, rfl⟩
  subst hceq
  obtain ⟨ha0, han⟩ := hlits a (by simp)
  obtain ⟨hb0, hbn⟩ := hlits b (by simp)
  have hab : a.natAbs ≠ b.natAbs := by
    simp only [List.map_cons, List.nodup_cons, List.mem_cons] at hnd
    intro heq; exact hnd.1 (Or.inl heq)
  have hna0 : -a ≠ 0 := by omega
  have hnb0 : -b ≠ 0 := by omega
  have hia : idxLit (litIdx (-a)) = -a := idxLit_litIdx hna0
  have hib : idxLit (litIdx (-b)) = -b := idxLit_litIdx hnb0
  unfold watchClause
  simp only [List.getElem?_cons_zero, List.getElem?_cons_succ]
  by_cases h2 : (a :: b :: r).length = 2
  · have hr : r = [] := by
      cases r with
      | nil => rfl
      | cons y r' => simp at h2
    subst hr
    obtain ⟨La, Lb, hLa, hLb, hp1, hp2, hF2⟩ := push2 (k := k) h.lenb ha0 hb0 han hbn hab
    simp only [h2, if_true, hp1, hp2]
    refine ⟨_, _, rfl, ⟨by simpa using h.lenb, h.lenl, ?_, FamOk_mono h.long, ?_⟩⟩
    · apply push2_fam h.bin hLa hLb (wa := ⟨k, b⟩) (wb := ⟨k, a⟩) ⟨rfl, ?_⟩ ⟨rfl, ?_⟩ hF2
      · exact ⟨_, hc, Or.inl (by rw [hia]; simp)⟩
      · exact ⟨_, hc, Or.inr (by rw [hib]; simp)⟩
    · obtain ⟨hnew, hold⟩ := push2_count h.bin ha0 hb0 hab hLa hLb hF2
      intro cid c' hcid hc'
      by_cases hck : cid = k
      · subst hck
        rw [hc] at hc'; cases hc'
        refine ⟨a, b, by simp, by simp, ?_⟩
        simp only [h2, if_true]
        exact hnew
      · obtain ⟨a', b', h0, h1, hcnt⟩ := h.count cid c' (by omega) hc'
        refine ⟨a', b', h0, h1, ?_⟩
        by_cases hl2 : c'.length = 2
        · simp only [hl2, if_true] at hcnt ⊢
          exact hold cid a' b' (by omega) hcnt
        · simp only [hl2, if_false] at hcnt ⊢
          exact hcnt
  · obtain ⟨La, Lb, hLa, hLb, hp1, hp2, hF2⟩ := push2 (k := k) h.lenl ha0 hb0 han hbn hab
    simp only [h2, if_false, hp1, hp2]
    have h3 : 3 ≤ (a :: b :: r).length := by
      simp only [List.length_cons] at h2 hlen ⊢; omega
    refine ⟨_, _, rfl, ⟨h.lenb, by simpa using h.lenl, FamOk_mono h.bin, ?_, ?_⟩⟩
    · apply push2_fam h.long hLa hLb (wa := ⟨k, b⟩) (wb := ⟨k, a⟩) ⟨rfl, ?_⟩ ⟨rfl, ?_⟩ hF2
      · exact ⟨_, hc, h3, Or.inl (by rw [hia]; simp), by simp⟩
      · exact ⟨_, hc, h3, Or.inr (by rw [hib]; simp), by simp⟩
    · obtain ⟨hnew, hold⟩ := push2_count h.long ha0 hb0 hab hLa hLb hF2
      intro cid c' hcid hc'
      by_cases hck : cid = k
      · subst hck
        rw [hc] at hc'; cases hc'
        refine ⟨a, b, by simp, by simp, ?_⟩
        simp only [h2, if_false]
        exact hnew
      · obtain ⟨a', b', h0, h1, hcnt⟩ := h.count cid c' (by omega) hc'
        refine ⟨a', b', h0, h1, ?_⟩
        by_cases hl2 : c'.length = 2
        · simp only [hl2, if_true] at hcnt ⊢
          exact hcnt
        · simp only [hl2, if_false] at hcnt ⊢
          exact hold cid a' b' (by omega) hcnt

theorem watchAll_struct {n : Nat} {cls : List (List Int)}
    (hcls : ∀ c ∈ cls, 2 ≤ c.length ∧ (∀ l ∈ c, l ≠ 0 ∧ l.natAbs ≤ n) ∧ (c.map Int.natAbs).Nodup) :
    ∀ (rest : List (List Int)) (k : Nat) (wb wl : List (List Watcher)),
      (∀ j, rest[j]? = cls[k + j]?) → WStruct n cls k wb wl →
      ∃ wb' wl', watchAll k rest wb wl = some (wb', wl') ∧ WStruct n cls (k + rest.length) wb' wl' := by
  intro rest
  induction rest with
  | nil => intro k wb wl _ h; exact ⟨wb, wl, rfl, by simpa using h⟩
  | cons c rest ih =>
    intro k wb wl hrest h
    have hc : cls[k]? = some c := by have := hrest 0; simpa using this.symm
    obtain ⟨wb1, wl1, hw, h1⟩ := watchClause_struct h hc (hcls c (mem_of_getElem?_eq hc))
    have hrest' : ∀ j, rest[j]? = cls[k + 1 + j]? := by
      intro j
      have := hrest (j + 1)
      simp only [List.getElem?_cons_succ] at this
      rw [this]; congr 1; omega
    obtain ⟨wb2, wl2, hw2, h2⟩ := ih (k + 1) wb1 wl1 hrest' h1
    refine ⟨wb2, wl2, ?_, ?_⟩
    · rw [watchAll, hw]; exact hw2
    · have : k + (c :: rest).length = k + 1 + rest.length := by simp; omega
      rw [this]; exact h2

/-- **`initWatcherList` establishes the invariant.**  For clauses of length ≥ 2 over pairwise distinct
    non-zero variables `≤ nbVars`, the mirror of `initWatcherList` does not panic and the initial state
    (nothing bound, empty trail) satisfies `watchInv`. -/
theorem initState_watchInv {n : Nat} {cls : List (List Int)}
    (hcls : cls.all (clauseOk n) = true) :
    ∃ st, initState n cls = some st ∧ watchInv st 0 = true := by
  have hcls' : ∀ c ∈ cls, 2 ≤ c.length ∧ (∀ l ∈ c, l ≠ 0 ∧ l.natAbs ≤ n) ∧
      (c.map Int.natAbs).Nodup := by
    simpa [clauseOk, List.all_eq_true, and_assoc] using hcls
  have h0 : WStruct n cls 0 (List.replicate (2 * n) []) (List.replicate (2 * n) []) := by
    refine ⟨by simp, by simp, ?_, ?_, ?_⟩
    · intro i ws hws w hw
      rw [List.getElem?_replicate] at hws
      split at hws
      · cases hws; simp at hw
      · cases hws
    · intro i ws hws w hw
      rw [List.getElem?_replicate] at hws
      split at hws
      · cases hws; simp at hw
      · cases hws
    · intro cid c hcid; omega
  obtain ⟨wb, wl, hw, hs⟩ := watchAll_struct hcls' cls 0 _ _ (by intro j; simp) h0
  unfold initState
  simp only [hw]
  refine ⟨_, rfl, ?_⟩
  rw [watchInv_iff]
  simp only [Nat.zero_add] at hs
  refine ⟨?_, ?_, by simp, by simp, by simp, ?_, ?_, ?_, ?_, by simp, by simp⟩
  · simp [hs.lenb, hs.lenl]
  · simpa using hcls'
  · intro v hv
    left
    simp only [List.length_replicate] at hv
    simp [List.getElem?_replicate, hv]
  · intro i ws hws w hw; exact (hs.bin i ws hws w hw).2
  · intro i ws hws w hw; exact (hs.long i ws hws w hw).2
  · intro cid c hc
    have hlt : cid < cls.length := (List.getElem?_eq_some_iff.mp hc).1
    exact hs.count cid c hlt hc

example : ([[1, 2, 3], [-1, 2], [-2, -3, 1]] : List (List Int)).all (clauseOk 3) = true := by decide

end GS.Watch

#print axioms GS.Watch.initState_watchInv
