import GS.Model.Simplify
/-!
# C01 / C02 / C13 — parse-time simplification preserves the set of models

Theorems about the mirrors of `GS.Model.Simplify`.

* `parseSlice_equiv` (proved, all inputs): `ParseSlice` / `ParseSliceNb` (prologue + `simplify2`).
* `loop2_fuel` (proved): the fuel `len(pb.Clauses) + 1` given to the `for restart` loop of
  `simplify2` suffices (each restarting sweep removes a clause).
* `simplifyCard_equiv` (proved, any fuel): `simplifyCard` preserves the models, semantics `GS.Lin.holds`.
* `simplifyPB_equiv_statement`, `parseCardConstrs_equiv_statement`,
  `parsePBConstrs_equiv_statement`: stated here, proved in `GS/Props/C02_SimplifyPB.lean`
  (the first one is false as written — a null literal among the units — and proved with that excluded).
-/
namespace GS.Simplify
open GS GS.Constr

/-! ### `rot` -/

theorem rot_perm {α : Type} (r : List α) : (rot r).Perm r := by
  rcases List.eq_nil_or_concat r with h | ⟨init, x, h⟩
  · subst h; simp [rot]
  · subst h
    simp [rot]
    exact (List.perm_append_singleton x init).symm

theorem mem_rot {α : Type} {x : α} {r : List α} : x ∈ rot r ↔ x ∈ r := (rot_perm r).mem_iff

theorem length_rot {α : Type} (r : List α) : (rot r).length = r.length := (rot_perm r).length_eq

/-! ### semantics helpers -/

theorem clauseTrue_iff (a : Asg) (c : List Int) :
    clauseTrue a c = true ↔ ∃ l, l ∈ c ∧ litTrue a l = true := by
  simp [clauseTrue, List.any_eq_true]

theorem clauseTrue_congr (a : Asg) {c d : List Int} (h : ∀ l, l ∈ c ↔ l ∈ d) :
    clauseTrue a c = clauseTrue a d := by
  rw [Bool.eq_iff_iff, clauseTrue_iff, clauseTrue_iff]
  constructor <;> rintro ⟨l, hl, ht⟩ <;> exact ⟨l, by simpa [h] using hl, ht⟩

/-! ### `dedup` -/

theorem dedup_none (lit : Int) : ∀ (n : Nat) (r : List Int), dedup lit n r = none → -lit ∈ r := by
  intro n
  induction n with
  | zero => intro r h; simp [dedup] at h
  | succ n ih =>
    intro r h
    cases r with
    | nil => simp [dedup] at h
    | cons x r =>
      simp only [dedup] at h
      split at h
      · simp_all
      · split at h
        · have := ih _ h
          rw [mem_rot] at this
          exact List.mem_cons_of_mem _ this
        · simp at h
          exact List.mem_cons_of_mem _ (ih _ h)

theorem dedup_some (lit : Int) : ∀ (n : Nat) (r r1 : List Int), dedup lit n r = some r1 → r.length ≤ n →
    lit ∉ r1 ∧ -lit ∉ r1 ∧ (∀ x, x ∈ r1 → x ∈ r) ∧ (∀ x, x ∈ r → x = lit ∨ x ∈ r1) ∧ r1.length ≤ r.length := by
  intro n
  induction n with
  | zero =>
    intro r r1 h hl
    have : r = [] := List.length_eq_zero_iff.mp (by omega)
    subst this
    simp [dedup] at h; subst h; simp
  | succ n ih =>
    intro r r1 h hl
    cases r with
    | nil => simp [dedup] at h; subst h; simp
    | cons x r =>
      simp only [dedup] at h
      split at h
      · simp at h
      · rename_i hx1
        split at h
        · rename_i hx2
          have := ih _ _ h (by simp [length_rot] at *; omega)
          obtain ⟨h1, h2, h3, h4, h5⟩ := this
          refine ⟨h1, h2, ?_, ?_, ?_⟩
          · intro y hy; exact List.mem_cons_of_mem _ (mem_rot.mp (h3 y hy))
          · intro y hy
            rcases List.mem_cons.mp hy with rfl | hy
            · exact Or.inl hx2
            · exact h4 y (mem_rot.mpr hy)
          · simp [length_rot] at *; omega
        · rename_i hx2
          simp at h
          obtain ⟨r2, hr2, rfl⟩ := h
          obtain ⟨h1, h2, h3, h4, h5⟩ := ih _ _ hr2 (by simp at hl; omega)
          refine ⟨?_, ?_, ?_, ?_, ?_⟩
          · simp; exact ⟨fun e => hx2 e.symm, h1⟩
          · simp; exact ⟨fun e => hx1 e.symm, h2⟩
          · intro y hy
            rcases List.mem_cons.mp hy with rfl | hy
            · simp
            · exact List.mem_cons_of_mem _ (h3 y hy)
          · intro y hy
            rcases List.mem_cons.mp hy with rfl | hy
            · right; simp
            · rcases h4 y hy with h | h
              · exact Or.inl h
              · right; exact List.mem_cons_of_mem _ h
          · simp; omega


/-! ### assignments agreeing with a model -/

/-- `a` gives every variable bound in `m` the value `m` binds it to (and `m` only holds 0, 1, -1). -/
def Agree (a : Asg) (m : List Int) : Prop :=
  ∀ v, mget m v = 0 ∨ (mget m v = 1 ∧ a (v + 1) = true) ∨ (mget m v = -1 ∧ a (v + 1) = false)

theorem natAbs_varOf {l : Int} (h : l ≠ 0) : l.natAbs = varOf l + 1 := by
  unfold varOf; omega

theorem agree_true {a : Asg} {m : List Int} {l : Int} (hA : Agree a m) (hl : l ≠ 0)
    (h0 : mget m (varOf l) ≠ 0) (h : mget m (varOf l) = 1 ↔ l > 0) : litTrue a l = true := by
  unfold litTrue
  rw [natAbs_varOf hl]
  rcases hA (varOf l) with h1 | ⟨h1, h2⟩ | ⟨h1, h2⟩
  · exact absurd h1 h0
  · have : l > 0 := h.mp h1
    simp [this, h2]
  · have : ¬ l > 0 := fun hp => by have := h.mpr hp; omega
    simp [this, h2]

theorem agree_false {a : Asg} {m : List Int} {l : Int} (hA : Agree a m) (hl : l ≠ 0)
    (h0 : mget m (varOf l) ≠ 0) (h : ¬ (mget m (varOf l) = 1 ↔ l > 0)) : litTrue a l = false := by
  unfold litTrue
  rw [natAbs_varOf hl]
  rcases hA (varOf l) with h1 | ⟨h1, h2⟩ | ⟨h1, h2⟩
  · exact absurd h1 h0
  · have : ¬ l > 0 := fun hp => h ⟨fun _ => hp, fun _ => h1⟩
    simp [this, h2]
  · have : l > 0 := by
      by_cases hp : l > 0
      · exact hp
      · exact absurd ⟨fun h' => by omega, fun h' => absurd h' hp⟩ h
    simp [this, h2]

/-! ### `scan2` -/

theorem scan2_none (m : List Int) (a : Asg) (hA : Agree a m) :
    ∀ (n : Nat) (s : List Int), scan2 m n s = none → (∀ l ∈ s, l ≠ 0) → clauseTrue a s = true := by
  intro n
  induction n with
  | zero => intro s h; simp [scan2] at h
  | succ n ih =>
    intro s h hnz
    cases s with
    | nil => simp [scan2] at h
    | cons lit r =>
      have hlit : lit ≠ 0 := hnz lit (by simp)
      simp only [scan2] at h
      split at h
      · rename_i hd
        have hm := dedup_none _ _ _ hd
        rw [clauseTrue_iff]
        by_cases ht : litTrue a lit = true
        · exact ⟨lit, by simp, ht⟩
        · refine ⟨-lit, List.mem_cons_of_mem _ hm, ?_⟩
          rw [litTrue_neg a lit hlit]; simpa using ht
      · rename_i r1 hd
        obtain ⟨h1, h2, h3, h4, h5⟩ := dedup_some _ _ _ _ hd (Nat.le_refl _)
        split at h
        · simp at h
          have := ih _ h (fun l hl => hnz l (List.mem_cons_of_mem _ (h3 l hl)))
          rw [clauseTrue_iff] at this ⊢
          obtain ⟨l, hl, ht⟩ := this
          exact ⟨l, List.mem_cons_of_mem _ (h3 l hl), ht⟩
        · rename_i h0
          split at h
          · rename_i hv
            rw [clauseTrue_iff]
            exact ⟨lit, by simp, agree_true hA hlit h0 hv⟩
          · have := ih _ h (fun l hl => hnz l (List.mem_cons_of_mem _ (h3 l (mem_rot.mp hl))))
            rw [clauseTrue_iff] at this ⊢
            obtain ⟨l, hl, ht⟩ := this
            exact ⟨l, List.mem_cons_of_mem _ (h3 l (mem_rot.mp hl)), ht⟩

theorem scan2_some (m : List Int) :
    ∀ (n : Nat) (s ys : List Int), scan2 m n s = some ys → s.length ≤ n → (∀ l ∈ s, l ≠ 0) →
      ys.Nodup ∧ (∀ x ∈ ys, x ∈ s ∧ mget m (varOf x) = 0) ∧ (∀ x ∈ ys, -x ∉ ys) ∧
      (∀ a, Agree a m → clauseTrue a s = clauseTrue a ys) := by
  intro n
  induction n with
  | zero =>
    intro s ys h hl _
    have : s = [] := List.length_eq_zero_iff.mp (by omega)
    subst this
    simp [scan2] at h; subst h; simp
  | succ n ih =>
    intro s ys h hl hnz
    cases s with
    | nil => simp [scan2] at h; subst h; simp
    | cons lit r =>
      have hlit : lit ≠ 0 := hnz lit (by simp)
      simp only [scan2] at h
      split at h
      · simp at h
      · rename_i r1 hd
        obtain ⟨h1, h2, h3, h4, h5⟩ := dedup_some _ _ _ _ hd (Nat.le_refl _)
        have hlen : r1.length ≤ n := by simp at hl; omega
        have hnz1 : ∀ l ∈ r1, l ≠ 0 := fun l hl => hnz l (List.mem_cons_of_mem _ (h3 l hl))
        split at h
        · rename_i h0
          simp at h
          obtain ⟨ys', hys, rfl⟩ := h
          obtain ⟨i1, i2, i3, i4⟩ := ih _ _ hys hlen hnz1
          refine ⟨?_, ?_, ?_, ?_⟩
          · rw [List.nodup_cons]
            exact ⟨fun hm => h1 (i2 _ hm).1, i1⟩
          · intro x hx
            rcases List.mem_cons.mp hx with rfl | hx
            · exact ⟨by simp, h0⟩
            · exact ⟨List.mem_cons_of_mem _ (h3 _ (i2 x hx).1), (i2 x hx).2⟩
          · intro x hx hnx
            rcases List.mem_cons.mp hx with rfl | hx
            · rcases List.mem_cons.mp hnx with e | hnx
              · omega
              · exact h2 (i2 _ hnx).1
            · rcases List.mem_cons.mp hnx with e | hnx
              · have : x = -lit := by omega
                subst this
                exact h2 (i2 _ hx).1
              · exact i3 x hx hnx
          · intro a hA
            rw [Bool.eq_iff_iff, clauseTrue_iff, clauseTrue_iff]
            have i4' := i4 a hA
            rw [Bool.eq_iff_iff, clauseTrue_iff, clauseTrue_iff] at i4'
            constructor
            · rintro ⟨l, hl, ht⟩
              rcases List.mem_cons.mp hl with rfl | hl
              · exact ⟨l, by simp, ht⟩
              · rcases h4 l hl with rfl | hl1
                · exact ⟨l, by simp, ht⟩
                · obtain ⟨l', hl', ht'⟩ := i4'.mp ⟨l, hl1, ht⟩
                  exact ⟨l', List.mem_cons_of_mem _ hl', ht'⟩
            · rintro ⟨l, hl, ht⟩
              rcases List.mem_cons.mp hl with rfl | hl
              · exact ⟨l, by simp, ht⟩
              · obtain ⟨l', hl', ht'⟩ := i4'.mpr ⟨l, hl, ht⟩
                exact ⟨l', List.mem_cons_of_mem _ (h3 _ hl'), ht'⟩
        · rename_i h0
          split at h
          · simp at h
          · rename_i hv
            obtain ⟨i1, i2, i3, i4⟩ := ih _ _ h (by rw [length_rot]; exact hlen)
              (fun l hl => hnz1 l (mem_rot.mp hl))
            refine ⟨i1, ?_, i3, ?_⟩
            · intro x hx
              exact ⟨List.mem_cons_of_mem _ (h3 _ (mem_rot.mp (i2 x hx).1)), (i2 x hx).2⟩
            · intro a hA
              have hf := agree_false hA hlit h0 hv
              rw [← i4 a hA, Bool.eq_iff_iff, clauseTrue_iff, clauseTrue_iff]
              constructor
              · rintro ⟨l, hl, ht⟩
                rcases List.mem_cons.mp hl with rfl | hl
                · rw [hf] at ht; cases ht
                · rcases h4 l hl with rfl | hl1
                  · rw [hf] at ht; cases ht
                  · exact ⟨l, mem_rot.mpr hl1, ht⟩
              · rintro ⟨l, hl, ht⟩
                exact ⟨l, List.mem_cons_of_mem _ (h3 _ (mem_rot.mp hl)), ht⟩


/-! ### the model / units invariant -/

theorem mget_set (m : List Int) (i j : Nat) (x : Int) :
    mget (m.set i x) j = if i = j ∧ i < m.length then x else mget m j := by
  unfold mget
  rw [List.getElem?_set]
  by_cases h : i = j
  · subst h
    by_cases h2 : i < m.length
    · simp [h2]
    · simp [h2]
  · simp [h]

/-- `Problem.Model` and `Problem.Units` say the same: variable `v` (0-based) is bound to 1 iff
    the literal `v+1` is a unit, to -1 iff `-(v+1)` is a unit, and holds 0 otherwise. -/
structure MInv (m us : List Int) : Prop where
  rng : ∀ v, mget m v = 0 ∨ mget m v = 1 ∨ mget m v = -1
  pos : ∀ v, mget m v = 1 ↔ ((v : Int) + 1) ∈ us
  neg : ∀ v, mget m v = -1 ↔ (-((v : Int) + 1)) ∈ us

theorem MInv.agree {m us : List Int} (h : MInv m us) {a : Asg}
    (hu : ∀ u ∈ us, litTrue a u = true) : Agree a m := by
  intro v
  rcases h.rng v with h0 | h1 | h1
  · exact Or.inl h0
  · right; left
    refine ⟨h1, ?_⟩
    have := hu _ ((h.pos v).mp h1)
    unfold litTrue at this
    have e : ((v : Int) + 1).natAbs = v + 1 := by omega
    have p : (v : Int) + 1 > 0 := by omega
    simpa [p, e] using this
  · right; right
    refine ⟨h1, ?_⟩
    have := hu _ ((h.neg v).mp h1)
    unfold litTrue at this
    have e : (-((v : Int) + 1)).natAbs = v + 1 := by omega
    have p : ¬ (-((v : Int) + 1) > 0) := by omega
    rw [if_neg p, e] at this
    simpa using this

theorem MInv.add {m us : List Int} (h : MInv m us) {l : Int} (hl : l ≠ 0)
    (hlen : varOf l < m.length) (h0 : mget m (varOf l) = 0) :
    MInv (m.set (varOf l) (if l > 0 then 1 else -1)) (us ++ [l]) := by
  have hp := h.pos (varOf l)
  have hn := h.neg (varOf l)
  constructor
  · intro v
    rw [mget_set]
    split
    · split <;> simp
    · exact h.rng v
  · intro v
    rw [mget_set]
    simp only [List.mem_append, List.mem_singleton]
    by_cases hc : varOf l = v
    · subst hc
      have hnot : ¬ ((varOf l : Int) + 1 ∈ us) := fun hm => by have := hp.mpr hm; omega
      have e : ((varOf l : Int) + 1 = l) ↔ l > 0 := by unfold varOf; omega
      simp only [hlen, and_self, if_true, hnot, false_or, e]
      split <;> omega
    · have e : ¬ ((v : Int) + 1 = l) := by unfold varOf at hc; omega
      simp only [hc, false_and, if_false, e, or_false]
      exact h.pos v
  · intro v
    rw [mget_set]
    simp only [List.mem_append, List.mem_singleton]
    by_cases hc : varOf l = v
    · subst hc
      have hnot : ¬ (-((varOf l : Int) + 1) ∈ us) := fun hm => by have := hn.mpr hm; omega
      have e : (-((varOf l : Int) + 1) = l) ↔ ¬ l > 0 := by unfold varOf; omega
      simp only [hlen, and_self, if_true, hnot, false_or, e]
      split <;> omega
    · have e : ¬ (-((v : Int) + 1) = l) := by unfold varOf at hc; omega
      simp only [hc, false_and, if_false, e, or_false]
      exact h.neg v

theorem addUnit_unbound (pb : Pb) (l : Int) (h : mget pb.model (varOf l) = 0) :
    addUnit pb l = { pb with model := pb.model.set (varOf l) (if l > 0 then 1 else -1),
                             units := pb.units ++ [l] } := by
  unfold addUnit
  by_cases hp : l > 0 <;> simp [hp, h]


/-! ### one sweep of `simplify2` -/

/-- `a` satisfies the units `us` and the clauses `cs`. -/
def Sem (a : Asg) (us : List Int) (cs : List Cl) : Prop :=
  (∀ u ∈ us, litTrue a u = true) ∧ ∀ c ∈ cs, clauseTrue a c.lits = true

/-- literals are non-null and their variable is below `k` (0-based variable `< k`). -/
def LitsOk (k : Nat) (c : Cl) : Prop := ∀ l ∈ c.lits, l ≠ 0 ∧ l.natAbs ≤ k

/-- what every clause kept by `simplify2` looks like. -/
def Normal (m : List Int) (c : Cl) : Prop :=
  2 ≤ c.lits.length ∧ c.lits.Nodup ∧ (∀ x ∈ c.lits, -x ∉ c.lits) ∧ ∀ x ∈ c.lits, mget m (varOf x) = 0

theorem Sem_cons {a : Asg} {us : List Int} {c : Cl} {r : List Cl} :
    Sem a us (c :: r) ↔ clauseTrue a c.lits = true ∧ Sem a us r := by
  unfold Sem
  simp only [List.forall_mem_cons]
  constructor
  · rintro ⟨h1, h2, h3⟩; exact ⟨h2, h1, h3⟩
  · rintro ⟨h2, h1, h3⟩; exact ⟨h1, h2, h3⟩

theorem Sem_rot {a : Asg} {us : List Int} {r : List Cl} : Sem a us (rot r) ↔ Sem a us r := by
  unfold Sem
  constructor
  · rintro ⟨h1, h2⟩; exact ⟨h1, fun c hc => h2 c (mem_rot.mpr hc)⟩
  · rintro ⟨h1, h2⟩; exact ⟨h1, fun c hc => h2 c (mem_rot.mp hc)⟩

structure PassSpec (pb : Pb) (s : List Cl) (r : PassR) : Prop where
  nbVars : r.pb.nbVars = pb.nbVars
  mlen : r.pb.model.length = pb.model.length
  len : r.kept.length ≤ s.length
  dec : r.restart = true → r.pb.status ≠ .unsat → r.kept.length < s.length
  unsat : r.pb.status = .unsat → ∀ a, ¬ Sem a pb.units s
  ok : r.pb.status ≠ .unsat → r.pb.status = pb.status ∧ MInv r.pb.model r.pb.units ∧
        (∀ c ∈ r.kept, LitsOk pb.model.length c) ∧ ∀ a, Sem a pb.units s ↔ Sem a r.pb.units r.kept
  fix : r.restart = false → r.pb.status ≠ .unsat →
        r.pb.model = pb.model ∧ r.pb.units = pb.units ∧ ∀ c ∈ r.kept, Normal pb.model c

theorem pass2_spec : ∀ (n : Nat) (pb : Pb) (s : List Cl), s.length ≤ n → pb.status ≠ .unsat →
    MInv pb.model pb.units → (∀ c ∈ s, LitsOk pb.model.length c) → PassSpec pb s (pass2 n pb s) := by
  intro n
  induction n with
  | zero =>
    intro pb s hl hst hinv hwf
    have : s = [] := List.length_eq_zero_iff.mp (by omega)
    subst this
    simp only [pass2]
    exact ⟨rfl, rfl, Nat.le_refl _, by simp, fun h => absurd h hst,
      fun _ => ⟨rfl, hinv, by simp, fun a => Iff.rfl⟩, fun _ _ => ⟨rfl, rfl, by simp⟩⟩
  | succ n ih =>
    intro pb s hl hst hinv hwf
    cases s with
    | nil =>
      simp only [pass2]
      exact ⟨rfl, rfl, Nat.le_refl _, by simp, fun h => absurd h hst,
        fun _ => ⟨rfl, hinv, by simp, fun a => Iff.rfl⟩, fun _ _ => ⟨rfl, rfl, by simp⟩⟩
    | cons c r =>
      have hlr : r.length ≤ n := by simp at hl; omega
      have hc : LitsOk pb.model.length c := hwf c (by simp)
      have hnz : ∀ l ∈ c.lits, l ≠ 0 := fun l hl => (hc l hl).1
      have hwfr : ∀ c ∈ r, LitsOk pb.model.length c := fun d hd => hwf d (List.mem_cons_of_mem _ hd)
      have hwfrot : ∀ c ∈ rot r, LitsOk pb.model.length c := fun d hd => hwfr d (mem_rot.mp hd)
      simp only [pass2]
      split
      · -- clauseSat
        rename_i hs
        have I := ih pb (rot r) (by rw [length_rot]; exact hlr) hst hinv hwfrot
        have hsat : ∀ a, (∀ u ∈ pb.units, litTrue a u = true) → clauseTrue a c.lits = true :=
          fun a hu => scan2_none _ a (hinv.agree hu) _ _ hs hnz
        have hsem : ∀ a, Sem a pb.units (c :: r) ↔ Sem a pb.units (rot r) := by
          intro a
          rw [Sem_cons, Sem_rot]
          exact ⟨fun h => h.2, fun h => ⟨hsat a h.1, h⟩⟩
        refine ⟨I.nbVars, I.mlen, ?_, ?_, ?_, ?_, I.fix⟩
        · have := I.len; rw [length_rot] at this; simp only [List.length_cons]; omega
        · intro h1 h2; have := I.dec h1 h2; rw [length_rot] at this; simp only [List.length_cons]; omega
        · intro h a hs'; exact I.unsat h a ((hsem a).mp hs')
        · intro h
          obtain ⟨i1, i2, i3, i4⟩ := I.ok h
          exact ⟨i1, i2, i3, fun a => (hsem a).trans (i4 a)⟩
      · -- empty clause
        rename_i hs
        obtain ⟨-, -, -, j4⟩ := scan2_some _ _ _ _ hs (Nat.le_refl _) hnz
        refine ⟨rfl, rfl, Nat.le_refl _, by simp, ?_, by simp, by simp⟩
        intro _ a hs'
        rw [Sem_cons] at hs'
        have := j4 a (hinv.agree hs'.2.1)
        rw [hs'.1] at this
        simp [clauseTrue] at this
      · -- unit clause
        rename_i l hs
        obtain ⟨-, j2, -, j4⟩ := scan2_some _ _ _ _ hs (Nat.le_refl _) hnz
        have hl0 : mget pb.model (varOf l) = 0 := (j2 l (by simp)).2
        have hlc : l ∈ c.lits := (j2 l (by simp)).1
        have hlnz : l ≠ 0 := (hc l hlc).1
        have hlv : varOf l < pb.model.length := by have := (hc l hlc).2; unfold varOf; omega
        rw [addUnit_unbound pb l hl0]
        simp only [hst, if_false]
        have I := ih { pb with model := pb.model.set (varOf l) (if l > 0 then 1 else -1),
                               units := pb.units ++ [l] } (rot r)
          (by rw [length_rot]; exact hlr) hst (hinv.add hlnz hlv hl0)
          (by simpa using hwfrot)
        have hsem : ∀ a, Sem a pb.units (c :: r) ↔ Sem a (pb.units ++ [l]) (rot r) := by
          intro a
          rw [Sem_cons, Sem_rot]
          unfold Sem
          simp only [List.mem_append, List.mem_singleton]
          constructor
          · rintro ⟨h1, h2, h3⟩
            refine ⟨?_, h3⟩
            intro u hu
            rcases hu with hu | rfl
            · exact h2 u hu
            · have := j4 a (hinv.agree h2)
              rw [h1] at this
              simpa [clauseTrue] using this.symm
          · rintro ⟨h2, h3⟩
            have hu : ∀ u ∈ pb.units, litTrue a u = true := fun u hu => h2 u (Or.inl hu)
            refine ⟨?_, hu, h3⟩
            rw [j4 a (hinv.agree hu)]
            simpa [clauseTrue] using h2 l (Or.inr rfl)
        refine ⟨I.nbVars, by simpa using I.mlen, ?_, ?_, ?_, ?_, by simp⟩
        · have := I.len; rw [length_rot] at this; simp only [List.length_cons]; omega
        · intro _ _; have := I.len; rw [length_rot] at this; simp only [List.length_cons]; omega
        · intro h a hs'; exact I.unsat h a ((hsem a).mp hs')
        · intro h
          obtain ⟨i1, i2, i3, i4⟩ := I.ok h
          exact ⟨i1, i2, by simpa using i3, fun a => (hsem a).trans (i4 a)⟩
      · -- kept clause
        rename_i ls hne1 hne2 hs
        obtain ⟨j1, j2, j3, j4⟩ := scan2_some _ _ _ _ hs (Nat.le_refl _) hnz
        have I := ih pb r hlr hst hinv hwfr
        have hsem : ∀ a, (∀ u ∈ pb.units, litTrue a u = true) →
            clauseTrue a c.lits = clauseTrue a ls := fun a hu => j4 a (hinv.agree hu)
        refine ⟨I.nbVars, I.mlen, ?_, ?_, ?_, ?_, ?_⟩
        · have := I.len; simp only [List.length_cons]; omega
        · intro h1 h2; have := I.dec h1 h2; simp only [List.length_cons]; omega
        · intro h a hs'; rw [Sem_cons] at hs'; exact I.unsat h a hs'.2
        · intro h
          obtain ⟨i1, i2, i3, i4⟩ := I.ok h
          refine ⟨i1, i2, ?_, ?_⟩
          · intro d hd
            rcases List.mem_cons.mp hd with rfl | hd
            · intro x hx; exact hc x (j2 x hx).1
            · exact i3 d hd
          · intro a
            rw [Sem_cons, Sem_cons]
            constructor
            · rintro ⟨h1, h2⟩
              refine ⟨?_, (i4 a).mp h2⟩
              show clauseTrue a ls = true
              rw [← hsem a h2.1]; exact h1
            · rintro ⟨h1, h2⟩
              have h3 := (i4 a).mpr h2
              refine ⟨?_, h3⟩
              rw [hsem a h3.1]; exact h1
        · intro h1 h2
          obtain ⟨f1, f2, f3⟩ := I.fix h1 h2
          refine ⟨f1, f2, ?_⟩
          intro d hd
          rcases List.mem_cons.mp hd with rfl | hd
          · refine ⟨?_, j1, j3, fun x hx => (j2 x hx).2⟩
            show 2 ≤ ls.length
            match ls, hne1, hne2 with
            | [], h, _ => exact absurd rfl h
            | [x], _, h => exact absurd rfl (h x)
            | _ :: _ :: _, _, _ => simp
          · exact f3 d hd


/-! ### the `for restart` loop and `simplify2` -/

theorem updateStatus_fields (pb : Pb) :
    (updateStatus pb).nbVars = pb.nbVars ∧ (updateStatus pb).clauses = pb.clauses ∧
    (updateStatus pb).units = pb.units ∧ (updateStatus pb).model = pb.model := by
  unfold updateStatus; split <;> simp

theorem updateStatus_status (pb : Pb) (h : pb.status = .indet) :
    (updateStatus pb).status ≠ .unsat ∧ ((updateStatus pb).status = .sat ↔ pb.clauses = []) := by
  unfold updateStatus
  by_cases hc : pb.clauses = []
  · simp [h, hc]
  · simp [h, hc]

/-- What a simplifier guarantees about its result `r` on the problem `pb`. -/
structure SimpSpec (pb r : Pb) : Prop where
  nbVars : r.nbVars = pb.nbVars
  mlen : r.model.length = pb.model.length
  unsat : r.status = .unsat → ∀ a, ¬ Sem a pb.units pb.clauses
  ok : r.status ≠ .unsat → MInv r.model r.units ∧
        (∀ a, Sem a pb.units pb.clauses ↔ Sem a r.units r.clauses) ∧
        (∀ c ∈ r.clauses, LitsOk pb.model.length c ∧ Normal r.model c) ∧
        (r.status = .sat ↔ r.clauses = [])

/-- The fuel `len(pb.Clauses) + 1` (or more) is enough: the result is the one of a run that
    stopped because a sweep ended with `restart == false` (or on an `Unsat` return). -/
theorem loop2_fuel : ∀ (n : Nat) (pb : Pb), pb.clauses.length < n → pb.status = .indet →
    MInv pb.model pb.units → (∀ c ∈ pb.clauses, LitsOk pb.model.length c) →
    SimpSpec pb (loop2 n pb) := by
  intro n
  induction n with
  | zero => intro pb h; omega
  | succ n ih =>
    intro pb hlen hst hinv hwf
    have hst' : pb.status ≠ .unsat := by rw [hst]; decide
    have P := pass2_spec pb.clauses.length pb pb.clauses (Nat.le_refl _) hst' hinv hwf
    simp only [loop2]
    split
    · rename_i hu
      exact ⟨P.nbVars, P.mlen, fun _ => P.unsat hu, fun h => absurd hu h⟩
    · rename_i hu
      obtain ⟨p1, p2, p3, p4⟩ := P.ok hu
      split
      · rename_i hr
        have hd := P.dec hr hu
        have I := ih { (pass2 pb.clauses.length pb pb.clauses).pb with
                        clauses := (pass2 pb.clauses.length pb pb.clauses).kept }
          (by simp only; omega) (by simp only; rw [p1, hst]) p2
          (by simp only; rw [P.mlen]; exact p3)
        refine ⟨I.nbVars.trans P.nbVars, I.mlen.trans P.mlen, ?_, ?_⟩
        · intro h a hs; exact I.unsat h a ((p4 a).mp hs)
        · intro h
          obtain ⟨i1, i2, i3, i4⟩ := I.ok h
          refine ⟨i1, fun a => (p4 a).trans (i2 a), ?_, i4⟩
          intro c hc
          have := i3 c hc
          simp only at this
          rw [P.mlen] at this
          exact this
      · rename_i hr
        have hr' : (pass2 pb.clauses.length pb pb.clauses).restart = false := by
          simpa using hr
        obtain ⟨f1, f2, f3⟩ := P.fix hr' hu
        obtain ⟨u1, u2, u3, u4⟩ := updateStatus_fields
          { (pass2 pb.clauses.length pb pb.clauses).pb with
              clauses := (pass2 pb.clauses.length pb pb.clauses).kept }
        obtain ⟨s1, s2⟩ := updateStatus_status
          { (pass2 pb.clauses.length pb pb.clauses).pb with
              clauses := (pass2 pb.clauses.length pb pb.clauses).kept } (by simp only; rw [p1, hst])
        refine ⟨by rw [u1]; exact P.nbVars, by rw [u4]; exact P.mlen, fun h => absurd h s1, ?_⟩
        intro _
        rw [u2, u3, u4]
        refine ⟨p2, p4, ?_, s2⟩
        intro c hc
        exact ⟨p3 c hc, by simp only; rw [f1]; exact f3 c hc⟩

theorem simplify2_spec (pb : Pb) (hst : pb.status = .indet) (hinv : MInv pb.model pb.units)
    (hwf : ∀ c ∈ pb.clauses, LitsOk pb.model.length c) : SimpSpec pb (simplify2 pb) :=
  loop2_fuel _ pb (Nat.lt_succ_self _) hst hinv hwf


/-! ### binding the units found by the parser -/

theorem mget_replicate (n v : Nat) : mget (List.replicate n 0) v = 0 := by
  unfold mget
  rw [List.getElem?_replicate]
  split <;> simp

theorem MInv.init (n : Nat) : MInv (List.replicate n 0) [] := by
  constructor
  · intro v; exact Or.inl (mget_replicate n v)
  · intro v; simp [mget_replicate]
  · intro v; simp [mget_replicate]

theorem MInv.dup {m us : List Int} (h : MInv m us) {u : Int} (hu : u ∈ us) : MInv m (us ++ [u]) := by
  constructor
  · exact h.rng
  · intro v
    rw [h.pos v]
    simp only [List.mem_append, List.mem_singleton]
    constructor
    · exact Or.inl
    · rintro (h1 | h1)
      · exact h1
      · rw [h1]; exact hu
  · intro v
    rw [h.neg v]
    simp only [List.mem_append, List.mem_singleton]
    constructor
    · exact Or.inl
    · rintro (h1 | h1)
      · exact h1
      · rw [h1]; exact hu

theorem bindUnits_spec : ∀ (us m done : List Int), MInv m done →
    (∀ u ∈ us, u ≠ 0 ∧ varOf u < m.length) →
    (bindUnits us m).1.length = m.length ∧
    ((bindUnits us m).2 = false → MInv (bindUnits us m).1 (done ++ us)) ∧
    ((bindUnits us m).2 = true → ∃ u, u ≠ 0 ∧ u ∈ done ++ us ∧ -u ∈ done ++ us) := by
  intro us
  induction us with
  | nil => intro m done h _; simp [bindUnits]; exact h
  | cons u us ih =>
    intro m done h hwf
    obtain ⟨hu0, huv⟩ := hwf u (by simp)
    have hwf' : ∀ u ∈ us, u ≠ 0 ∧ varOf u < m.length := fun x hx => hwf x (List.mem_cons_of_mem _ hx)
    have happ : done ++ u :: us = (done ++ [u]) ++ us := by simp
    simp only [bindUnits]
    split
    · rename_i h0
      have I := ih (m.set (varOf u) (if u > 0 then 1 else -1)) (done ++ [u]) (h.add hu0 huv h0)
        (by simpa using hwf')
      rw [happ]
      refine ⟨by simpa using I.1, I.2.1, I.2.2⟩
    · rename_i h0
      have hpos := h.pos (varOf u)
      have hneg := h.neg (varOf u)
      have eP : u > 0 → ((varOf u : Int) + 1) = u := by unfold varOf; omega
      have eN : ¬ u > 0 → (-((varOf u : Int) + 1)) = u := by unfold varOf; omega
      split
      · rename_i hc
        refine ⟨rfl, by simp, ?_⟩
        intro _
        refine ⟨u, hu0, by simp, ?_⟩
        rcases h.rng (varOf u) with h1 | h1 | h1
        · exact absurd h1 h0
        · have hn : ¬ u > 0 := fun hp => hc ⟨fun _ => hp, fun _ => by omega⟩
          have := hpos.mp h1
          have e : ((varOf u : Int) + 1) = -u := by have := eN hn; omega
          rw [e] at this
          exact List.mem_append_left _ this
        · have hp : u > 0 := by
            by_cases hp : u > 0
            · exact hp
            · exact absurd ⟨fun h' => by omega, fun h' => absurd h' hp⟩ hc
          have := hneg.mp h1
          have e : (-((varOf u : Int) + 1)) = -u := by have := eP hp; omega
          rw [e] at this
          exact List.mem_append_left _ this
      · rename_i hc
        have hc' : (mget m (varOf u) > 0 ↔ u > 0) := Classical.not_not.mp hc
        have hmem : u ∈ done := by
          rcases h.rng (varOf u) with h1 | h1 | h1
          · exact absurd h1 h0
          · have hp : u > 0 := hc'.mp (by omega)
            have := hpos.mp h1
            rwa [eP hp] at this
          · have hn : ¬ u > 0 := fun hp => by have := hc'.mpr hp; omega
            have := hneg.mp h1
            rwa [eN hn] at this
        have I := ih m (done ++ [u]) (h.dup hmem) hwf'
        rw [happ]
        exact I

theorem conflict_unsat {us : List Int} {u : Int} (hu0 : u ≠ 0) (h1 : u ∈ us) (h2 : -u ∈ us)
    (a : Asg) : ¬ (∀ x ∈ us, litTrue a x = true) := by
  intro h
  have a1 := h u h1
  have a2 := h (-u) h2
  rw [litTrue_neg a u hu0, a1] at a2
  cases a2


/-! ### the first loop of `parseSlice` -/

/-- `max n (largest variable of cnf)`. -/
def maxVar (cnf : List (List Int)) (n : Nat) : Nat :=
  cnf.foldl (fun n c => c.foldl (fun n l => max n l.natAbs) n) n

theorem bumpVars_eq {n : Nat} {l : Int} (h : l ≠ 0) : bumpVars n l = max n l.natAbs := by
  unfold bumpVars; split <;> omega

theorem foldl_bumpVars : ∀ (ls : List Int) (n : Nat), 0 ∉ ls →
    ls.foldl bumpVars n = ls.foldl (fun n l => max n l.natAbs) n := by
  intro ls
  induction ls with
  | nil => intro n _; rfl
  | cons l ls ih =>
    intro n h
    simp only [List.mem_cons, not_or] at h
    simp only [List.foldl_cons]
    rw [bumpVars_eq (fun e => h.1 e.symm)]
    exact ih _ h.2

theorem foldl_max_ge : ∀ (ls : List Int) (n : Nat),
    n ≤ ls.foldl (fun n l => max n l.natAbs) n ∧
    ∀ l ∈ ls, l.natAbs ≤ ls.foldl (fun n l => max n l.natAbs) n := by
  intro ls
  induction ls with
  | nil => intro n; simp
  | cons l ls ih =>
    intro n
    simp only [List.foldl_cons]
    obtain ⟨i1, i2⟩ := ih (max n l.natAbs)
    refine ⟨by omega, ?_⟩
    intro x hx
    rcases List.mem_cons.mp hx with rfl | hx
    · omega
    · exact i2 x hx

theorem Sem_units_append {a : Asg} {us : List Int} {cs : List Cl} {l : Int} :
    Sem a (us ++ [l]) cs ↔ Sem a us cs ∧ litTrue a l = true := by
  unfold Sem
  simp only [List.mem_append, List.mem_singleton]
  constructor
  · rintro ⟨h1, h2⟩; exact ⟨⟨fun u hu => h1 u (Or.inl hu), h2⟩, h1 l (Or.inr rfl)⟩
  · rintro ⟨⟨h1, h2⟩, h3⟩
    refine ⟨?_, h2⟩
    rintro u (hu | rfl)
    · exact h1 u hu
    · exact h3

theorem Sem_clauses_append {a : Asg} {us : List Int} {cs : List Cl} {c : Cl} :
    Sem a us (cs ++ [c]) ↔ Sem a us cs ∧ clauseTrue a c.lits = true := by
  unfold Sem
  simp only [List.mem_append, List.mem_singleton]
  constructor
  · rintro ⟨h1, h2⟩; exact ⟨⟨h1, fun d hd => h2 d (Or.inl hd)⟩, h2 c (Or.inr rfl)⟩
  · rintro ⟨⟨h1, h2⟩, h3⟩
    refine ⟨h1, ?_⟩
    rintro d (hd | rfl)
    · exact h2 d hd
    · exact h3

theorem cnfTrue_cons (a : Asg) (c : List Int) (f : List (List Int)) :
    cnfTrue a (c :: f) = true ↔ clauseTrue a c = true ∧ cnfTrue a f = true := by
  simp [cnfTrue]

theorem parseLines_spec : ∀ (cnf : List (List Int)) (pb0 pb : Pb) (early : Bool),
    parseLines cnf pb0 = some (pb, early) →
    pb.nbVars = maxVar (cnf.takeWhile (fun c => !c.isEmpty)) pb0.nbVars ∧
    pb0.nbVars ≤ pb.nbVars ∧ pb.model = pb0.model ∧
    (early = true → pb.status = .unsat ∧ [] ∈ cnf) ∧
    (early = false → pb.status = pb0.status ∧
      (∀ a, Sem a pb.units pb.clauses ↔ (Sem a pb0.units pb0.clauses ∧ cnfTrue a cnf = true)) ∧
      (∀ u ∈ pb.units, u ∈ pb0.units ∨ (u ≠ 0 ∧ u.natAbs ≤ pb.nbVars)) ∧
      (∀ c ∈ pb.clauses, c ∈ pb0.clauses ∨ LitsOk pb.nbVars c)) := by
  intro cnf
  induction cnf with
  | nil =>
    intro pb0 pb early h
    simp only [parseLines, Option.some.injEq, Prod.mk.injEq] at h
    obtain ⟨rfl, rfl⟩ := h
    simp [maxVar, cnfTrue]
    exact ⟨fun u hu => Or.inl hu, fun c hc => Or.inl hc⟩
  | cons line rest ih =>
    intro pb0 pb early h
    match line, h with
    | [], h =>
      simp only [parseLines, Option.some.injEq, Prod.mk.injEq] at h
      obtain ⟨rfl, rfl⟩ := h
      simp [maxVar]
    | [l], h =>
      simp only [parseLines] at h
      split at h
      · cases h
      · rename_i hl
        obtain ⟨i1, i2, i3, i4, i5⟩ := ih _ _ _ h
        simp only at i1 i2 i3 i4 i5
        rw [bumpVars_eq hl] at i1 i2
        refine ⟨?_, by omega, i3, ?_, ?_⟩
        · rw [i1]; simp [maxVar]
        · intro he; exact ⟨(i4 he).1, List.mem_cons_of_mem _ (i4 he).2⟩
        · intro he
          obtain ⟨j1, j2, j3, j4⟩ := i5 he
          refine ⟨j1, ?_, ?_, j4⟩
          · intro a
            rw [j2 a, Sem_units_append, cnfTrue_cons]
            have : clauseTrue a [l] = litTrue a l := by simp [clauseTrue]
            rw [this]
            constructor
            · rintro ⟨⟨h1, h2⟩, h3⟩; exact ⟨h1, h2, h3⟩
            · rintro ⟨h1, h2, h3⟩; exact ⟨⟨h1, h2⟩, h3⟩
          · intro u hu
            rcases j3 u hu with h1 | h1
            · simp only [List.mem_append, List.mem_singleton] at h1
              rcases h1 with h1 | rfl
              · exact Or.inl h1
              · exact Or.inr ⟨hl, by omega⟩
            · exact Or.inr h1
    | l1 :: l2 :: t, h =>
      simp only [parseLines] at h
      split at h
      · cases h
      · rename_i hz
        obtain ⟨i1, i2, i3, i4, i5⟩ := ih _ _ _ h
        simp only at i1 i2 i3 i4 i5
        rw [foldl_bumpVars _ _ hz] at i1 i2
        have hge := foldl_max_ge (l1 :: l2 :: t) pb0.nbVars
        refine ⟨?_, by omega, i3, ?_, ?_⟩
        · rw [i1]; simp [maxVar]
        · intro he; exact ⟨(i4 he).1, List.mem_cons_of_mem _ (i4 he).2⟩
        · intro he
          obtain ⟨j1, j2, j3, j4⟩ := i5 he
          refine ⟨j1, ?_, j3, ?_⟩
          · intro a
            rw [j2 a, Sem_clauses_append, cnfTrue_cons]
            constructor
            · rintro ⟨⟨h1, h2⟩, h3⟩; exact ⟨h1, h2, h3⟩
            · rintro ⟨h1, h2, h3⟩; exact ⟨⟨h1, h2⟩, h3⟩
          · intro c hc
            rcases j4 c hc with h1 | h1
            · simp only [List.mem_append, List.mem_singleton] at h1
              rcases h1 with h1 | rfl
              · exact Or.inl h1
              · right
                intro x hx
                refine ⟨fun e => hz (e ▸ hx), ?_⟩
                have := hge.2 x hx
                omega
            · exact Or.inr h1


/-! ### `parseSlice` -/

theorem Sem_nil (a : Asg) : Sem a [] [] := by simp [Sem]

theorem cnfTrue_of_empty_mem {cnf : List (List Int)} (h : [] ∈ cnf) (a : Asg) :
    ¬ cnfTrue a cnf = true := by
  intro ht
  simp only [cnfTrue, List.all_eq_true] at ht
  have := ht [] h
  simp [clauseTrue] at this

/-- **C01/C02/C13, pure CNF.** `ParseSlice` / `ParseSliceNb` preserve the set of models.
    `parseSlice cnf n = none` is the Go `panic` on a null literal. -/
theorem parseSlice_equiv (cnf : List (List Int)) (n : Nat) (r : Pb)
    (h : parseSlice cnf n = some r) :
    (r.status = .unsat → ¬ CnfSat cnf) ∧
    (r.status ≠ .unsat →
      (∀ a, cnfTrue a cnf = true ↔
        (∀ u ∈ r.units, litTrue a u = true) ∧ (∀ c ∈ r.clauses, clauseTrue a c.lits = true)) ∧
      (r.status = .sat ↔ r.clauses = []) ∧
      (∀ c ∈ r.clauses, 2 ≤ c.lits.length ∧ c.lits.Nodup ∧ (∀ x ∈ c.lits, -x ∉ c.lits) ∧
        ∀ x ∈ c.lits, x ≠ 0 ∧ x.natAbs ≤ r.nbVars ∧ mget r.model (varOf x) = 0) ∧
      MInv r.model r.units ∧ r.model.length = r.nbVars) ∧
    r.nbVars = maxVar (cnf.takeWhile (fun c => !c.isEmpty)) n := by
  unfold parseSlice at h
  split at h
  · cases h
  · rename_i pb hp
    simp only [Option.some.injEq] at h
    subst h
    obtain ⟨i1, -, -, i4, -⟩ := parseLines_spec _ _ _ _ hp
    obtain ⟨s1, s2⟩ := i4 rfl
    refine ⟨?_, fun hne => absurd s1 hne, i1⟩
    rintro _ ⟨a, ha⟩
    exact cnfTrue_of_empty_mem s2 a ha
  · rename_i pb hp
    simp only [Option.some.injEq] at h
    obtain ⟨i1, -, -, -, i5⟩ := parseLines_spec _ _ _ _ hp
    obtain ⟨j1, j2, j3, j4⟩ := i5 rfl
    simp only at i1 j1 j2 j3 j4
    have hsem : ∀ a, Sem a pb.units pb.clauses ↔ cnfTrue a cnf = true := by
      intro a; rw [j2 a]; exact ⟨fun h => h.2, fun h => ⟨Sem_nil a, h⟩⟩
    have huwf : ∀ u ∈ pb.units, u ≠ 0 ∧ varOf u < (List.replicate pb.nbVars (0 : Int)).length := by
      intro u hu
      rcases j3 u hu with h1 | ⟨h1, h2⟩
      · simp at h1
      · refine ⟨h1, ?_⟩
        simp only [List.length_replicate]; unfold varOf; omega
    obtain ⟨b1, b2, b3⟩ := bindUnits_spec pb.units (List.replicate pb.nbVars 0) [] (MInv.init _) huwf
    simp only [List.nil_append, List.length_replicate] at b1 b2 b3
    unfold finish at h
    simp only at h
    split at h
    · rename_i hb
      subst h
      refine ⟨?_, by simp, i1⟩
      rintro _ ⟨a, ha⟩
      obtain ⟨u, hu0, hu1, hu2⟩ := b3 hb
      exact conflict_unsat hu0 hu1 hu2 a ((hsem a).mpr ha).1
    · rename_i hb
      have hb' : (bindUnits pb.units (List.replicate pb.nbVars 0)).2 = false := by simpa using hb
      have S := simplify2_spec { pb with model := (bindUnits pb.units (List.replicate pb.nbVars 0)).1 }
        j1 (b2 hb') (by
          intro c hc
          rcases j4 c hc with h1 | h1
          · simp at h1
          · simp only [b1]; exact h1)
      rw [h] at S
      refine ⟨?_, ?_, S.nbVars.trans i1⟩
      · rintro hu ⟨a, ha⟩
        exact S.unsat hu a ((hsem a).mpr ha)
      · intro hne
        obtain ⟨o1, o2, o3, o4⟩ := S.ok hne
        refine ⟨?_, o4, ?_, o1, by rw [S.mlen, S.nbVars]; exact b1⟩
        · intro a; rw [← hsem a, o2 a]; rfl
        · intro c hc
          obtain ⟨w, n1, n2, n3, n4⟩ := o3 c hc
          refine ⟨n1, n2, n3, ?_⟩
          intro x hx
          have h1 := (w x hx).2
          have h2 := S.nbVars
          simp only at h1 h2
          exact ⟨(w x hx).1, by omega, n4 x hx⟩

/-- the hypotheses of `parseSlice_equiv` are met by a CNF with an empty-free prefix, duplicate
    literals, a tautology, units and a declared-but-unused variable -/
example : ∃ r, parseSlice [[1, 2, 2, -3], [3], [4, -4, 5], [-1, -3, 2, 6], [6, 7, 6]] 9 = some r ∧
    r.status = .indet ∧ r.nbVars = 9 ∧ r.units = [3] ∧
    r.clauses.map (·.lits) = [[1, 2], [6, 7], [-1, 6, 2]] := by
  refine ⟨_, rfl, ?_⟩
  decide

example : (parseSlice [[1, 2], [-1], [-2]] 0).map (·.status) = some .unsat := by decide
example : (parseSlice [[1, 2], [-1], [3, 0]] 0) = none := by decide
example : (parseSlice [[1, 2], [], [3, 0]] 5).map (fun r => (r.status, r.nbVars)) = some (.unsat, 5) := by decide


#print axioms parseSlice_equiv
#print axioms loop2_fuel

/-! ## simplifyCard -/

/-- number of true literals, as the left-hand side of a cardinality constraint -/
def cnt (a : Asg) (ls : List Int) : Int := lhs a (ls.map (fun l => (1, l)))

theorem cnt_nil (a : Asg) : cnt a [] = 0 := rfl

theorem cnt_cons (a : Asg) (l : Int) (ls : List Int) :
    cnt a (l :: ls) = (if litTrue a l = true then 1 else 0) + cnt a ls := by
  simp [cnt, lhs, termVal]

theorem cnt_append (a : Asg) : ∀ (xs ys : List Int), cnt a (xs ++ ys) = cnt a xs + cnt a ys := by
  intro xs
  induction xs with
  | nil => intro ys; simp [cnt_nil]
  | cons x xs ih => intro ys; simp only [List.cons_append, cnt_cons, ih]; omega

theorem cnt_rot (a : Asg) (r : List Int) : cnt a (rot r) = cnt a r := by
  rcases List.eq_nil_or_concat r with h | ⟨init, x, h⟩
  · subst h; simp [rot]
  · subst h
    simp [rot, cnt_cons, cnt_append, cnt_nil]; omega

theorem cnt_bounds (a : Asg) : ∀ ls : List Int, 0 ≤ cnt a ls ∧ cnt a ls ≤ ls.length := by
  intro ls
  induction ls with
  | nil => simp [cnt_nil]
  | cons l ls ih => rw [cnt_cons]; simp only [List.length_cons]; split <;> omega

theorem cnt_full (a : Asg) : ∀ ls : List Int,
    ((ls.length : Int) ≤ cnt a ls ↔ ∀ l ∈ ls, litTrue a l = true) := by
  intro ls
  induction ls with
  | nil => simp [cnt_nil]
  | cons l ls ih =>
    rw [cnt_cons]
    have b := cnt_bounds a ls
    simp only [List.length_cons, List.forall_mem_cons]
    by_cases h : litTrue a l = true
    · simp only [h, if_true, true_and]; rw [← ih]; omega
    · have h' : litTrue a l = false := by simpa using h
      rw [if_neg h]
      constructor
      · intro hh; omega
      · intro hh; rw [hh.1] at h'; cases h'

/-- the constraint of a clause as a `GS.Lin` -/
def Cl.lin (c : Cl) : Lin := ⟨c.terms, c.card⟩

/-- `a` satisfies the units `us` and the constraints `cs` (semantics `GS.Lin.holds`). -/
def SemL (a : Asg) (us : List Int) (cs : List Cl) : Prop :=
  (∀ u ∈ us, litTrue a u = true) ∧ ∀ c ∈ cs, c.lin.holds a = true

theorem holds_card {a : Asg} {c : Cl} (h : c.weights = none) :
    c.lin.holds a = true ↔ c.card ≤ cnt a c.lits := by
  simp [Cl.lin, Lin.holds, Cl.terms, h, cnt]

theorem SemL_cons {a : Asg} {us : List Int} {c : Cl} {r : List Cl} :
    SemL a us (c :: r) ↔ c.lin.holds a = true ∧ SemL a us r := by
  unfold SemL
  simp only [List.forall_mem_cons]
  constructor
  · rintro ⟨h1, h2, h3⟩; exact ⟨h2, h1, h3⟩
  · rintro ⟨h2, h1, h3⟩; exact ⟨h1, h2, h3⟩

theorem SemL_rot {a : Asg} {us : List Int} {r : List Cl} : SemL a us (rot r) ↔ SemL a us r := by
  unfold SemL
  constructor
  · rintro ⟨h1, h2⟩; exact ⟨h1, fun c hc => h2 c (mem_rot.mpr hc)⟩
  · rintro ⟨h1, h2⟩; exact ⟨h1, fun c hc => h2 c (mem_rot.mp hc)⟩

theorem scanCard_none (m : List Int) (a : Asg) (hA : Agree a m) (card : Int) :
    ∀ (n : Nat) (s : List Int) (k : Nat), (∀ l ∈ s, l ≠ 0) →
    scanCard m card n s k = none → card ≤ cnt a s + k := by
  intro n
  induction n with
  | zero => intro s k _ h; simp [scanCard] at h
  | succ n ih =>
    intro s k hnz h
    cases s with
    | nil => simp [scanCard] at h
    | cons lit r =>
      have hlit : lit ≠ 0 := hnz lit (by simp)
      have hnzr : ∀ l ∈ r, l ≠ 0 := fun l hl => hnz l (List.mem_cons_of_mem _ hl)
      have hnzrot : ∀ l ∈ rot r, l ≠ 0 := fun l hl => hnzr l (mem_rot.mp hl)
      have b := cnt_bounds a r
      simp only [scanCard] at h
      rw [cnt_cons]
      split at h
      · simp only [Option.map_eq_none_iff] at h
        have I := ih r k hnzr h
        split <;> omega
      · rename_i h0
        split at h
        · rename_i hv
          have ht := agree_true hA hlit h0 hv
          simp only [ht, if_true]
          split at h
          · omega
          · have I := ih (rot r) (k + 1) hnzrot h
            rw [cnt_rot] at I
            omega
        · have I := ih (rot r) k hnzrot h
          rw [cnt_rot] at I
          split <;> omega

theorem scanCard_some (m : List Int) (a : Asg) (hA : Agree a m) (card : Int) :
    ∀ (n : Nat) (s : List Int) (k : Nat) (ys : List Int) (k' : Nat), (∀ l ∈ s, l ≠ 0) →
    scanCard m card n s k = some (ys, k') →
    cnt a s + k = cnt a ys + k' ∧ ((k : Int) < card → (k' : Int) < card) := by
  intro n
  induction n with
  | zero => intro s k ys k' _ h; simp [scanCard] at h; obtain ⟨rfl, rfl⟩ := h; simp
  | succ n ih =>
    intro s k ys k' hnz h
    cases s with
    | nil => simp [scanCard] at h; obtain ⟨rfl, rfl⟩ := h; simp
    | cons lit r =>
      have hlit : lit ≠ 0 := hnz lit (by simp)
      have hnzr : ∀ l ∈ r, l ≠ 0 := fun l hl => hnz l (List.mem_cons_of_mem _ hl)
      have hnzrot : ∀ l ∈ rot r, l ≠ 0 := fun l hl => hnzr l (mem_rot.mp hl)
      simp only [scanCard] at h
      rw [cnt_cons]
      split at h
      · simp only [Option.map_eq_some_iff, Prod.mk.injEq] at h
        obtain ⟨p, hp, rfl, rfl⟩ := h
        have I := ih r k p.1 p.2 hnzr hp
        rw [cnt_cons]
        exact ⟨by omega, I.2⟩
      · rename_i h0
        split at h
        · rename_i hv
          have ht := agree_true hA hlit h0 hv
          simp only [ht, if_true]
          split at h
          · cases h
          · have I := ih (rot r) (k + 1) ys k' hnzrot h
            rw [cnt_rot] at I
            exact ⟨by omega, fun hk' => I.2 (by omega)⟩
        · rename_i hv
          have hf := agree_false hA hlit h0 hv
          have I := ih (rot r) k ys k' hnzrot h
          rw [cnt_rot] at I
          simp only [hf]
          exact ⟨by simpa using I.1, I.2⟩

theorem scanCard_sub (m : List Int) (card : Int) :
    ∀ (n : Nat) (s : List Int) (k : Nat) (ys : List Int) (k' : Nat),
      scanCard m card n s k = some (ys, k') → s.length ≤ n →
      ∀ x ∈ ys, x ∈ s ∧ mget m (varOf x) = 0 := by
  intro n
  induction n with
  | zero =>
    intro s k ys k' h hl
    have : s = [] := List.length_eq_zero_iff.mp (by omega)
    subst this
    simp [scanCard] at h
    obtain ⟨rfl, -⟩ := h
    simp
  | succ n ih =>
    intro s k ys k' h hl
    cases s with
    | nil => simp [scanCard] at h; obtain ⟨rfl, -⟩ := h; simp
    | cons lit r =>
      have hlr : r.length ≤ n := by simp at hl; omega
      simp only [scanCard] at h
      split at h
      · rename_i h0
        simp only [Option.map_eq_some_iff, Prod.mk.injEq] at h
        obtain ⟨p, hp, rfl, rfl⟩ := h
        have I := ih r k p.1 p.2 hp hlr
        intro x hx
        rcases List.mem_cons.mp hx with rfl | hx
        · exact ⟨by simp, h0⟩
        · exact ⟨List.mem_cons_of_mem _ (I x hx).1, (I x hx).2⟩
      · split at h
        · split at h
          · cases h
          · have I := ih (rot r) (k + 1) ys k' h (by rw [length_rot]; exact hlr)
            intro x hx
            exact ⟨List.mem_cons_of_mem _ (mem_rot.mp (I x hx).1), (I x hx).2⟩
        · have I := ih (rot r) k ys k' h (by rw [length_rot]; exact hlr)
          intro x hx
          exact ⟨List.mem_cons_of_mem _ (mem_rot.mp (I x hx).1), (I x hx).2⟩


/-! ### `addUnit` / `addUnits` in general -/

theorem set_self (m : List Int) (v : Nat) (x : Int) (h : m[v]? = some x) : m.set v x = m := by
  apply List.ext_getElem?
  intro j
  rw [List.getElem?_set]
  split
  · rename_i hj; subst hj
    split
    · exact h.symm
    · rename_i hl; rw [List.getElem?_eq_none (by omega)]
  · rfl

theorem mget_some {m : List Int} {v : Nat} (hv : v < m.length) : m[v]? = some (mget m v) := by
  unfold mget
  rw [List.getElem?_eq_getElem hv]; rfl

theorem addUnit_spec (pb : Pb) (l : Int) (hl : l ≠ 0) (hv : varOf l < pb.model.length)
    (hinv : MInv pb.model pb.units) :
    ((addUnit pb l).status = .unsat ∧ -l ∈ pb.units ∧ (addUnit pb l).model.length = pb.model.length) ∨
    ((addUnit pb l).status = pb.status ∧ (addUnit pb l).units = pb.units ++ [l] ∧
      (addUnit pb l).model.length = pb.model.length ∧ MInv (addUnit pb l).model (addUnit pb l).units) := by
  have hpos := hinv.pos (varOf l)
  have hneg := hinv.neg (varOf l)
  have eP : l > 0 → ((varOf l : Int) + 1) = l := by unfold varOf; omega
  have eN : ¬ l > 0 → (-((varOf l : Int) + 1)) = l := by unfold varOf; omega
  by_cases hp : l > 0
  · by_cases hc : mget pb.model (varOf l) = -1
    · left
      simp only [addUnit, hp, if_true, hc]
      refine ⟨by simp, ?_, by simp⟩
      have := hneg.mp hc
      have e : (-((varOf l : Int) + 1)) = -l := by have := eP hp; omega
      rwa [e] at this
    · right
      simp only [addUnit, hp, if_true, hc, if_false]
      refine ⟨by simp, by simp, by simp, ?_⟩
      rcases hinv.rng (varOf l) with h0 | h1 | h1
      · have := hinv.add hl hv h0; simpa [hp] using this
      · rw [set_self _ _ _ (by rw [mget_some hv, h1])]
        have := hpos.mp h1
        rw [eP hp] at this
        exact hinv.dup this
      · exact absurd h1 hc
  · by_cases hc : mget pb.model (varOf l) = 1
    · left
      simp only [addUnit, hp, if_false, hc, if_true]
      refine ⟨by simp, ?_, by simp⟩
      have := hpos.mp hc
      have e : ((varOf l : Int) + 1) = -l := by have := eN hp; omega
      rwa [e] at this
    · right
      simp only [addUnit, hp, if_false, hc]
      refine ⟨by simp, by simp, by simp, ?_⟩
      rcases hinv.rng (varOf l) with h0 | h1 | h1
      · have := hinv.add hl hv h0; simpa [hp] using this
      · exact absurd h1 hc
      · rw [set_self _ _ _ (by rw [mget_some hv, h1])]
        have := hneg.mp h1
        rw [eN hp] at this
        exact hinv.dup this

theorem addUnit_unsat (pb : Pb) (l : Int) (h : pb.status = .unsat) : (addUnit pb l).status = .unsat := by
  unfold addUnit; split <;> split <;> simp [h]

theorem addUnits_unsat : ∀ (ls : List Int) (pb : Pb), pb.status = .unsat →
    (addUnits pb ls).status = .unsat := by
  intro ls
  induction ls with
  | nil => intro pb h; exact h
  | cons l ls ih => intro pb h; exact ih _ (addUnit_unsat pb l h)

theorem addUnits_cons (pb : Pb) (l : Int) (ls : List Int) :
    addUnits pb (l :: ls) = addUnits (addUnit pb l) ls := rfl

theorem addUnits_spec : ∀ (ls : List Int) (pb : Pb), pb.status ≠ .unsat →
    MInv pb.model pb.units → (∀ l ∈ ls, l ≠ 0 ∧ varOf l < pb.model.length) →
    ((addUnits pb ls).status = .unsat → ∃ l, l ≠ 0 ∧ l ∈ pb.units ++ ls ∧ -l ∈ pb.units ++ ls) ∧
    ((addUnits pb ls).status ≠ .unsat → (addUnits pb ls).status = pb.status ∧
      (addUnits pb ls).units = pb.units ++ ls ∧ (addUnits pb ls).model.length = pb.model.length ∧
      MInv (addUnits pb ls).model (addUnits pb ls).units) := by
  intro ls
  induction ls with
  | nil => intro pb hst hinv _; exact ⟨fun h => absurd h hst, fun _ => ⟨rfl, by simp [addUnits], rfl, hinv⟩⟩
  | cons l ls ih =>
    intro pb hst hinv hwf
    obtain ⟨hl0, hlv⟩ := hwf l (by simp)
    rw [addUnits_cons]
    rcases addUnit_spec pb l hl0 hlv hinv with ⟨h1, h2, h3⟩ | ⟨h1, h2, h3, h4⟩
    · have hu := addUnits_unsat ls _ h1
      refine ⟨fun _ => ⟨l, hl0, by simp, List.mem_append_left _ h2⟩, fun h => absurd hu h⟩
    · have I := ih (addUnit pb l) (by rw [h1]; exact hst) h4
        (fun x hx => by rw [h3]; exact hwf x (List.mem_cons_of_mem _ hx))
      rw [h1, h2, h3] at I
      have e : pb.units ++ [l] ++ ls = pb.units ++ l :: ls := by simp
      rw [e] at I
      exact I


/-! ### one sweep of `simplifyCard`, the loop, `simplifyCard` -/

/-- a cardinality constraint as `ParseCardConstrs` / `NewCardClause` build them -/
def ClOk (k : Nat) (c : Cl) : Prop := LitsOk k c ∧ c.weights = none ∧ 1 ≤ c.card

structure PassSpecC (pb : Pb) (s : List Cl) (r : PassR) : Prop where
  unsat : r.pb.status = .unsat → ∀ a, ¬ SemL a pb.units s
  ok : r.pb.status ≠ .unsat → r.pb.status = pb.status ∧ MInv r.pb.model r.pb.units ∧
        r.pb.model.length = pb.model.length ∧ (∀ c ∈ r.kept, ClOk pb.model.length c) ∧
        ∀ a, SemL a pb.units s ↔ SemL a r.pb.units r.kept

theorem passSpecC_refl (pb : Pb) (s : List Cl) (hst : pb.status ≠ .unsat)
    (hinv : MInv pb.model pb.units) (hwf : ∀ c ∈ s, ClOk pb.model.length c) :
    PassSpecC pb s ⟨pb, s, false⟩ :=
  ⟨fun h => absurd h hst, fun _ => ⟨rfl, hinv, rfl, hwf, fun _ => Iff.rfl⟩⟩

theorem passCard_spec : ∀ (n : Nat) (pb : Pb) (s : List Cl), pb.status ≠ .unsat →
    MInv pb.model pb.units → (∀ c ∈ s, ClOk pb.model.length c) → PassSpecC pb s (passCard n pb s) := by
  intro n
  induction n with
  | zero => intro pb s hst hinv hwf; simp only [passCard]; exact passSpecC_refl pb s hst hinv hwf
  | succ n ih =>
    intro pb s hst hinv hwf
    cases s with
    | nil => simp only [passCard]; exact passSpecC_refl pb [] hst hinv hwf
    | cons c r =>
      obtain ⟨hc, hcw, hcc⟩ := hwf c (by simp)
      have hnz : ∀ l ∈ c.lits, l ≠ 0 := fun l hl => (hc l hl).1
      have hwfr : ∀ c ∈ r, ClOk pb.model.length c := fun d hd => hwf d (List.mem_cons_of_mem _ hd)
      have hwfrot : ∀ c ∈ rot r, ClOk pb.model.length c := fun d hd => hwfr d (mem_rot.mp hd)
      simp only [passCard]
      split
      · -- clauseSat
        rename_i hs
        have I := ih pb (rot r) hst hinv hwfrot
        have hsem : ∀ a, SemL a pb.units (c :: r) ↔ SemL a pb.units (rot r) := by
          intro a
          rw [SemL_cons, SemL_rot]
          refine ⟨fun h => h.2, fun h => ⟨?_, h⟩⟩
          rw [holds_card hcw]
          have := scanCard_none _ a (hinv.agree h.1) _ _ _ _ hnz hs
          simpa using this
        refine ⟨fun h a hs' => I.unsat h a ((hsem a).mp hs'), fun h => ?_⟩
        obtain ⟨i1, i2, i3, i4, i5⟩ := I.ok h
        exact ⟨i1, i2, i3, i4, fun a => (hsem a).trans (i5 a)⟩
      · rename_i ls nbSat hs
        have hsub := scanCard_sub _ _ _ _ _ _ _ hs (Nat.le_refl _)
        have hcnt : ∀ a, (∀ u ∈ pb.units, litTrue a u = true) →
            cnt a c.lits = cnt a ls + nbSat ∧ (nbSat : Int) < c.card := by
          intro a hu
          have := scanCard_some _ a (hinv.agree hu) _ _ _ _ _ _ hnz hs
          exact ⟨by simpa using this.1, this.2 (by omega)⟩
        split
        · -- nbLits < card: Unsat
          rename_i hlt
          refine ⟨fun _ a hs' => ?_, fun h => absurd rfl h⟩
          rw [SemL_cons, holds_card hcw] at hs'
          have := (hcnt a hs'.2.1).1
          have b := cnt_bounds a ls
          omega
        · rename_i hlt
          split
          · -- UP
            rename_i heq
            have hlsok : ∀ l ∈ ls, l ≠ 0 ∧ varOf l < pb.model.length := by
              intro l hl
              have := hc l (hsub l hl).1
              exact ⟨this.1, by unfold varOf; omega⟩
            obtain ⟨au, ao⟩ := addUnits_spec ls pb hst hinv hlsok
            have hsem : ∀ a, SemL a pb.units (c :: r) ↔ SemL a (pb.units ++ ls) (rot r) := by
              intro a
              rw [SemL_cons, SemL_rot, holds_card hcw]
              unfold SemL
              simp only [List.mem_append]
              constructor
              · rintro ⟨h1, h2, h3⟩
                refine ⟨?_, h3⟩
                have hf : (ls.length : Int) ≤ cnt a ls := by have := (hcnt a h2).1; omega
                have hall := (cnt_full a ls).mp hf
                rintro u (hu | hu)
                · exact h2 u hu
                · exact hall u hu
              · rintro ⟨h2, h3⟩
                have hu : ∀ u ∈ pb.units, litTrue a u = true := fun u hu => h2 u (Or.inl hu)
                refine ⟨?_, hu, h3⟩
                have hf := (cnt_full a ls).mpr (fun u hu => h2 u (Or.inr hu))
                have := (hcnt a hu).1
                omega
            split
            · rename_i hun
              refine ⟨fun _ a hs' => ?_, fun h => absurd hun h⟩
              obtain ⟨l, hl0, hl1, hl2⟩ := au hun
              exact conflict_unsat hl0 hl1 hl2 a ((hsem a).mp hs').1
            · rename_i hun
              obtain ⟨o1, o2, o3, o4⟩ := ao hun
              have I := ih (addUnits pb ls) (rot r) hun o4 (by rw [o3]; exact hwfrot)
              refine ⟨fun h a hs' => ?_, fun h => ?_⟩
              · have := I.unsat h a
                rw [o2] at this
                exact this ((hsem a).mp hs')
              · obtain ⟨i1, i2, i3, i4, i5⟩ := I.ok h
                rw [o2] at i5
                rw [o3] at i4
                exact ⟨i1.trans o1, i2, i3.trans o3, i4, fun a => (hsem a).trans (i5 a)⟩
          · -- kept
            rename_i hne
            have I := ih pb r hst hinv hwfr
            have hupd : ∀ a, (∀ u ∈ pb.units, litTrue a u = true) →
                updCard c.card (-(nbSat : Int)) = c.card - nbSat := by
              intro a hu
              have := (hcnt a hu).2
              unfold updCard; split <;> omega
            have hsemc : ∀ a, (∀ u ∈ pb.units, litTrue a u = true) →
                (c.lin.holds a = true ↔
                 (Cl.lin { c with lits := ls, card := updCard c.card (-(nbSat : Int)) }).holds a = true) := by
              intro a hu
              rw [holds_card hcw, holds_card (by exact hcw)]
              simp only
              rw [hupd a hu, (hcnt a hu).1]
              omega
            refine ⟨fun h a hs' => ?_, fun h => ?_⟩
            · rw [SemL_cons] at hs'; exact I.unsat h a hs'.2
            · obtain ⟨i1, i2, i3, i4, i5⟩ := I.ok h
              refine ⟨i1, i2, i3, ?_, ?_⟩
              · intro d hd
                rcases List.mem_cons.mp hd with rfl | hd
                · refine ⟨fun x hx => hc x (hsub x hx).1, hcw, ?_⟩
                  simp only
                  -- the card stays ≥ 1: needs an assignment satisfying the units; use the
                  -- arithmetic fact directly instead
                  unfold updCard; split <;> omega
                · exact i4 d hd
              · intro a
                rw [SemL_cons, SemL_cons]
                constructor
                · rintro ⟨h1, h2⟩
                  exact ⟨(hsemc a h2.1).mp h1, (i5 a).mp h2⟩
                · rintro ⟨h1, h2⟩
                  have h3 := (i5 a).mpr h2
                  exact ⟨(hsemc a h3.1).mpr h1, h3⟩


theorem loopCard_spec : ∀ (n : Nat) (pb : Pb), pb.status = .indet → MInv pb.model pb.units →
    (∀ c ∈ pb.clauses, ClOk pb.model.length c) →
    ((loopCard n pb).status = .unsat → ∀ a, ¬ SemL a pb.units pb.clauses) ∧
    ((loopCard n pb).status ≠ .unsat → MInv (loopCard n pb).model (loopCard n pb).units ∧
      ∀ a, SemL a pb.units pb.clauses ↔ SemL a (loopCard n pb).units (loopCard n pb).clauses) := by
  intro n
  induction n with
  | zero =>
    intro pb hst hinv _
    simp only [loopCard]
    exact ⟨fun h => (by rw [hst] at h; cases h), fun _ => ⟨hinv, fun _ => by simp⟩⟩
  | succ n ih =>
    intro pb hst hinv hwf
    have hst' : pb.status ≠ .unsat := by rw [hst]; decide
    have P := passCard_spec pb.clauses.length pb pb.clauses hst' hinv hwf
    simp only [loopCard]
    split
    · rename_i hu
      exact ⟨fun _ => P.unsat hu, fun h => absurd hu h⟩
    · rename_i hu
      obtain ⟨p1, p2, p3, p4, p5⟩ := P.ok hu
      split
      · have I := ih { (passCard pb.clauses.length pb pb.clauses).pb with
                        clauses := (passCard pb.clauses.length pb pb.clauses).kept }
          (by simp only; rw [p1, hst]) p2 (by simp only; rw [p3]; exact p4)
        refine ⟨fun h a hs => I.1 h a ((p5 a).mp hs), fun h => ?_⟩
        obtain ⟨i1, i2⟩ := I.2 h
        exact ⟨i1, fun a => (p5 a).trans (i2 a)⟩
      · obtain ⟨u1, u2, u3, u4⟩ := updateStatus_fields
          { (passCard pb.clauses.length pb pb.clauses).pb with
              clauses := (passCard pb.clauses.length pb pb.clauses).kept }
        obtain ⟨s1, s2⟩ := updateStatus_status
          { (passCard pb.clauses.length pb pb.clauses).pb with
              clauses := (passCard pb.clauses.length pb pb.clauses).kept } (by simp only; rw [p1, hst])
        refine ⟨fun h => absurd h s1, fun _ => ?_⟩
        rw [u2, u3, u4]
        exact ⟨p2, p5⟩

/-- **C01/C02/C13, cardinality constraints.** `simplifyCard` preserves the set of models
    (semantics `GS.Lin.holds`): on `Unsat` the units and constraints it was given have no common
    model; otherwise the resulting units and constraints have exactly the models of the given
    units and constraints (and `Model` still mirrors `Units`). Holds for every fuel, hence
    whether or not the `for restart` loop of the model ran to completion. -/
theorem simplifyCard_equiv (pb : Pb) (hst : pb.status = .indet) (hinv : MInv pb.model pb.units)
    (hwf : ∀ c ∈ pb.clauses, ClOk pb.model.length c) :
    ((simplifyCard pb).status = .unsat → ∀ a, ¬ SemL a pb.units pb.clauses) ∧
    ((simplifyCard pb).status ≠ .unsat →
      MInv (simplifyCard pb).model (simplifyCard pb).units ∧
      ∀ a, SemL a pb.units pb.clauses ↔ SemL a (simplifyCard pb).units (simplifyCard pb).clauses) :=
  loopCard_spec _ pb hst hinv hwf


/-- the hypotheses of `simplifyCard_equiv` are met by the state `ParseCardConstrs` reaches on
    `{[-1], 1}, {[1 2 3], 2}` before calling `simplifyCard` -/
example : MInv [-1, 0, 0] [-1] ∧ (∀ c ∈ [(⟨[1, 2, 3], none, 2⟩ : Cl)], ClOk 3 c) := by
  refine ⟨?_, ?_⟩
  · exact (bindUnits_spec [-1] (List.replicate 3 0) [] (MInv.init 3) (by decide)).2.1 (by decide)
  · intro c hc
    simp only [List.mem_singleton] at hc
    subst hc
    refine ⟨?_, rfl, by decide⟩
    intro l hl
    simp only [List.mem_cons, List.not_mem_nil, or_false] at hl
    rcases hl with rfl | rfl | rfl <;> decide

example : (parseCardConstrs [⟨[-1], 1⟩, ⟨[1, 2, 3], 2⟩]).map (fun r => (r.status, r.units, r.clauses)) =
    some (.sat, [-1, 3, 2], []) := by decide

/-! ## statements proved in `GS/Props/C02_SimplifyPB.lean` -/

/-- a PB constraint as `NewPBClause` builds it, with positive weights -/
def PbClOk (k : Nat) (c : Cl) : Prop :=
  LitsOk k c ∧ 1 ≤ c.card ∧ ∃ ws, c.weights = some ws ∧ ws.length = c.lits.length ∧ ∀ w ∈ ws, 0 < w

/-- `simplifyPB` preserves the set of models (positive weights). False as written (a null literal
    among the units, on which the Go code panics): see `simplifyPB_equiv_statement_false` and the
    corrected `simplifyPB_equiv_partial` in `GS/Props/C02_SimplifyPB.lean`. -/
def simplifyPB_equiv_statement : Prop :=
  ∀ (pb : Pb), pb.status = .indet → MInv pb.model pb.units →
    (∀ c ∈ pb.clauses, PbClOk pb.model.length c) →
    ((simplifyPB pb).status = .unsat → ∀ a, ¬ SemL a pb.units pb.clauses) ∧
    ((simplifyPB pb).status ≠ .unsat →
      ∀ a, SemL a pb.units pb.clauses ↔ SemL a (simplifyPB pb).units (simplifyPB pb).clauses)

/-- `ParseCardConstrs` end to end (prologue + `simplifyCard`). Proved as `parseCardConstrs_equiv` in
    `GS/Props/C02_SimplifyPB.lean`; here: the
    `simplifyCard` half is `simplifyCard_equiv`; the prologue half (`parseCardLines`,
    `bindUnits`) is proved only for `parseSlice` (`parseLines_spec`, `bindUnits_spec`). -/
def parseCardConstrs_equiv_statement : Prop :=
  ∀ (cs : List CardC) (r : Pb), parseCardConstrs cs = some r →
    (r.status = .unsat → ¬ ∃ a, ∀ c ∈ cs, c.sem a = true) ∧
    (r.status ≠ .unsat → ∀ a, (∀ c ∈ cs, c.sem a = true) ↔ SemL a r.units r.clauses)

/-- `ParsePBConstrs` end to end, positive weights. Proved as `parsePBConstrs_equiv` in
    `GS/Props/C02_SimplifyPB.lean`. -/
def parsePBConstrs_equiv_statement : Prop :=
  ∀ (cs : List PBC) (r : Pb), (∀ c ∈ cs, ∀ t ∈ c.terms, 0 < t.1) → parsePBConstrs cs = some r →
    (r.status = .unsat → ¬ ∃ a, ∀ c ∈ cs, c.sem a = true) ∧
    (r.status ≠ .unsat → ∀ a, (∀ c ∈ cs, c.sem a = true) ↔ SemL a r.units r.clauses)

/-- instances of the unproved statements, by evaluation: `3 x1 + 2 x2 + 1 x3 ≥ 4` forces `x1`
    and leaves `1 x3 + 2 x2 ≥ 1` (`removeLit` moved the last term to the front); together with `¬x2` it forces `x3`. -/
example : (parsePBConstrs [⟨[1, 2, 3], some [3, 2, 1], 4⟩]).map
    (fun r => (r.status, r.units, r.clauses)) =
    some (.indet, [1], [⟨[3, 2], some [1, 2], 1⟩]) := by decide

example : (parsePBConstrs [⟨[1, 2, 3], some [3, 2, 1], 4⟩, ⟨[-2], some [1], 1⟩]).map
    (fun r => (r.status, r.units, r.clauses)) = some (.sat, [-2, 1, 3], []) := by decide

#print axioms simplifyCard_equiv

end GS.Simplify
